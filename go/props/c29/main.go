package main

import (
	"bufio"
	"bytes"
	"encoding/hex"
	"encoding/json"
	"fmt"
	"net/url"
	"os"
	"os/exec"
	"path"
	"path/filepath"
	"sort"
	"strconv"
	"strings"
	"syscall"
	"time"
	"unicode/utf8"

	"github.com/yuin/goldmark"
	gast "github.com/yuin/goldmark/ast"
	gparser "github.com/yuin/goldmark/parser"
	gtext "github.com/yuin/goldmark/text"
	gutil "github.com/yuin/goldmark/util"

	"verifharness/internal/hx"
	"verifharness/internal/proto"
)

// C29: the link-destination rewriting of `scriggo build -llms` (cmd/scriggo, package main).
// The real code runs inside the tag-guarded test cmd/scriggo/verif_c29_test.go, driven by a
// case file; this harness generates the cases, compares the results with the Lean model
// (Model/LinkDest.lean) and evaluates the property's own oracle, for which goldmark's AST
// says what is a link destination.
func main() { hx.Main("C29", run) }

const baseURL = "https://example.com/base"
const dirName = "docs"

// ---------------------------------------------------------------- the real code (go test)

type tcase struct {
	Op    string     `json:"op"`
	Src   string     `json:"src,omitempty"`
	Base  string     `json:"base,omitempty"`
	Dir   string     `json:"dir,omitempty"`
	Repls [][]string `json:"repls,omitempty"`
	Pos   int        `json:"pos,omitempty"`
}

type tresult struct {
	Out   string     `json:"out"`
	Out2  string     `json:"out2"`
	Repls [][]string `json:"repls"`
	Ints  []int      `json:"ints"`
	OK    bool       `json:"ok"`
	Err   string     `json:"err"`
	Panic string     `json:"panic"`
}

func repoDir() string {
	if d := os.Getenv("VERIF_REPO"); d != "" {
		return d
	}
	return "/repo"
}

var testBin struct {
	dir, path string
	err       error
	built     bool
}

// buildTestBinary compiles cmd/scriggo's test binary with the verif tag once
// (`go test -tags verif -c`); every batch of cases is then one run of it with
// `-test.run ^TestVerifC29$` — the same as `go test -tags verif -run TestVerifC29 -count=1
// ./cmd/scriggo` without paying the link step each time.
func buildTestBinary() error {
	if testBin.built {
		return testBin.err
	}
	testBin.built = true
	dir, err := os.MkdirTemp("", "verif-c29-")
	if err != nil {
		testBin.err = err
		return err
	}
	testBin.dir, testBin.path = dir, filepath.Join(dir, "scriggo.test")
	cmd := exec.Command("go", "test", "-tags", "verif", "-c", "-o", testBin.path, "./cmd/scriggo")
	cmd.Dir = repoDir()
	env := []string{}
	for _, e := range os.Environ() {
		if !strings.HasPrefix(e, "GOFLAGS=") && !strings.HasPrefix(e, "GOPROXY=") {
			env = append(env, e)
		}
	}
	cmd.Env = append(env, "GOFLAGS=-mod=mod", "GOPROXY=off")
	out, err := cmd.CombinedOutput()
	if err != nil {
		testBin.err = fmt.Errorf("go test -tags verif -c ./cmd/scriggo in %s: %v\n%s", cmd.Dir, err, tail(string(out), 1500))
	}
	return testBin.err
}

// one test process for the whole run: VERIF_C29_CASES and VERIF_C29_OUT are named pipes, the
// test answers every case line with one result line
var session struct {
	cmd *exec.Cmd
	in  *os.File
	w   *bufio.Writer
	r   *bufio.Reader
	log bytes.Buffer
}

func startSession() error {
	if session.cmd != nil {
		return nil
	}
	if err := buildTestBinary(); err != nil {
		return err
	}
	in, out := filepath.Join(testBin.dir, "cases.fifo"), filepath.Join(testBin.dir, "out.fifo")
	for _, p := range []string{in, out} {
		if err := syscall.Mkfifo(p, 0o600); err != nil {
			return err
		}
	}
	cmd := exec.Command(testBin.path, "-test.run", "^TestVerifC29$", "-test.count=1", "-test.timeout", "30m")
	cmd.Dir = filepath.Join(repoDir(), "cmd", "scriggo")
	cmd.Env = append(os.Environ(), "VERIF_C29_CASES="+in, "VERIF_C29_OUT="+out)
	cmd.Stdout, cmd.Stderr = &session.log, &session.log
	if err := cmd.Start(); err != nil {
		return err
	}
	opened := make(chan error, 1)
	go func() {
		fi, err := os.OpenFile(in, os.O_WRONLY, 0)
		if err == nil {
			session.in, session.w = fi, bufio.NewWriterSize(fi, 1<<20)
			var fo *os.File
			fo, err = os.OpenFile(out, os.O_RDONLY, 0)
			if err == nil {
				session.r = bufio.NewReaderSize(fo, 1<<20)
			}
		}
		opened <- err
	}()
	exited := make(chan error, 1)
	go func() { exited <- cmd.Wait() }()
	select {
	case err := <-opened:
		if err != nil {
			return err
		}
	case err := <-exited:
		return fmt.Errorf("TestVerifC29 exited at once: %v\n%s", err, tail(session.log.String(), 1500))
	case <-time.After(2 * time.Minute):
		cmd.Process.Kill()
		return fmt.Errorf("TestVerifC29 did not open its case file")
	}
	session.cmd = cmd
	return nil
}

func stopSession() {
	if session.cmd != nil {
		session.w.Flush()
		session.in.Close()
		time.AfterFunc(10*time.Second, func() { session.cmd.Process.Kill() })
	}
	if testBin.dir != "" {
		os.RemoveAll(testBin.dir)
	}
}

func runReal(cases []tcase) ([]tresult, error) {
	if err := startSession(); err != nil {
		return nil, err
	}
	werr := make(chan error, 1)
	go func() {
		enc := json.NewEncoder(session.w)
		for _, c := range cases {
			if err := enc.Encode(c); err != nil {
				werr <- err
				return
			}
		}
		werr <- session.w.Flush()
	}()
	res := make([]tresult, 0, len(cases))
	for range cases {
		line, err := session.r.ReadBytes('\n')
		if err != nil {
			return nil, fmt.Errorf("TestVerifC29 stopped after %d of %d results: %v\n%s", len(res), len(cases), err, tail(session.log.String(), 1500))
		}
		var r tresult
		if err := json.Unmarshal(line, &r); err != nil {
			return nil, err
		}
		res = append(res, r)
	}
	if err := <-werr; err != nil {
		return nil, err
	}
	return res, nil
}

func tail(s string, n int) string {
	if len(s) > n {
		return s[len(s)-n:]
	}
	return s
}

func hexs(s string) string { return hex.EncodeToString([]byte(s)) }
func unhex(s string) string {
	b, _ := hex.DecodeString(s)
	return string(b)
}

// ---------------------------------------------------------------- goldmark: what is a destination

var md = goldmark.New()

type docView struct {
	doc  gast.Node
	src  []byte
	refs []gparser.Reference
}

func parseDoc(src string) (v docView, err error) {
	defer func() {
		if r := recover(); r != nil {
			err = fmt.Errorf("goldmark panics: %v", r)
		}
	}()
	b := []byte(src)
	ctx := gparser.NewContext()
	v.doc = md.Parser().Parse(gtext.NewReader(b), gparser.WithContext(ctx))
	v.src = b
	v.refs = ctx.References()
	sort.Slice(v.refs, func(i, j int) bool { return string(v.refs[i].Label()) < string(v.refs[j].Label()) })
	return v, nil
}

type destPair struct{ before, after string }

func linesOf(n gast.Node, src []byte) string {
	var b strings.Builder
	ls := n.Lines()
	if ls == nil {
		return ""
	}
	for i := 0; i < ls.Len(); i++ {
		seg := ls.At(i)
		b.Write(seg.Value(src))
	}
	return b.String()
}

// sameExceptDestinations walks both trees in parallel: same kinds, same text, same raw
// content, same titles and labels — only Link/Image destinations may differ.
func sameExceptDestinations(a, b docView) (diff string, pairs []destPair) {
	var walk func(x, y gast.Node) string
	walk = func(x, y gast.Node) string {
		if x.Kind() != y.Kind() {
			return fmt.Sprintf("node kind %s became %s", x.Kind(), y.Kind())
		}
		switch n := x.(type) {
		case *gast.Text:
			m := y.(*gast.Text)
			if !bytes.Equal(n.Segment.Value(a.src), m.Segment.Value(b.src)) {
				return fmt.Sprintf("text %q became %q", n.Segment.Value(a.src), m.Segment.Value(b.src))
			}
			if n.SoftLineBreak() != m.SoftLineBreak() || n.HardLineBreak() != m.HardLineBreak() || n.IsRaw() != m.IsRaw() {
				return "text flags differ"
			}
		case *gast.String:
			if !bytes.Equal(n.Value, y.(*gast.String).Value) {
				return "string differs"
			}
		case *gast.Link:
			m := y.(*gast.Link)
			if !bytes.Equal(n.Title, m.Title) {
				return fmt.Sprintf("link title %q became %q", n.Title, m.Title)
			}
			if !bytes.Equal(n.Destination, m.Destination) {
				pairs = append(pairs, destPair{string(n.Destination), string(m.Destination)})
			}
		case *gast.Image:
			m := y.(*gast.Image)
			if !bytes.Equal(n.Title, m.Title) {
				return fmt.Sprintf("image title %q became %q", n.Title, m.Title)
			}
			if !bytes.Equal(n.Destination, m.Destination) {
				pairs = append(pairs, destPair{string(n.Destination), string(m.Destination)})
			}
		case *gast.AutoLink:
			m := y.(*gast.AutoLink)
			if !bytes.Equal(n.URL(a.src), m.URL(b.src)) {
				return fmt.Sprintf("autolink %q became %q", n.URL(a.src), m.URL(b.src))
			}
		case *gast.RawHTML:
			m := y.(*gast.RawHTML)
			var s1, s2 strings.Builder
			for i := 0; i < n.Segments.Len(); i++ {
				sg := n.Segments.At(i)
				s1.Write(sg.Value(a.src))
			}
			for i := 0; i < m.Segments.Len(); i++ {
				sg := m.Segments.At(i)
				s2.Write(sg.Value(b.src))
			}
			if s1.String() != s2.String() {
				return fmt.Sprintf("raw HTML %q became %q", s1.String(), s2.String())
			}
		case *gast.FencedCodeBlock:
			m := y.(*gast.FencedCodeBlock)
			if l1, l2 := linesOf(n, a.src), linesOf(m, b.src); l1 != l2 {
				return fmt.Sprintf("fenced code %q became %q", l1, l2)
			}
			var i1, i2 []byte
			if n.Info != nil {
				i1 = n.Info.Segment.Value(a.src)
			}
			if m.Info != nil {
				i2 = m.Info.Segment.Value(b.src)
			}
			if !bytes.Equal(i1, i2) {
				return "fence info differs"
			}
		case *gast.CodeBlock:
			if l1, l2 := linesOf(n, a.src), linesOf(y, b.src); l1 != l2 {
				return fmt.Sprintf("indented code %q became %q", l1, l2)
			}
		case *gast.HTMLBlock:
			m := y.(*gast.HTMLBlock)
			l1, l2 := linesOf(n, a.src), linesOf(m, b.src)
			if n.HasClosure() {
				l1 += string(n.ClosureLine.Value(a.src))
			}
			if m.HasClosure() {
				l2 += string(m.ClosureLine.Value(b.src))
			}
			if l1 != l2 {
				return fmt.Sprintf("HTML block %q became %q", l1, l2)
			}
		case *gast.Heading:
			if n.Level != y.(*gast.Heading).Level {
				return "heading level differs"
			}
		case *gast.List:
			m := y.(*gast.List)
			if n.Marker != m.Marker || n.Start != m.Start || n.IsTight != m.IsTight {
				return "list differs"
			}
		case *gast.Emphasis:
			if n.Level != y.(*gast.Emphasis).Level {
				return "emphasis level differs"
			}
		}
		if x.ChildCount() != y.ChildCount() {
			return fmt.Sprintf("%s has %d children, then %d", x.Kind(), x.ChildCount(), y.ChildCount())
		}
		for c, d := x.FirstChild(), y.FirstChild(); c != nil; c, d = c.NextSibling(), d.NextSibling() {
			if s := walk(c, d); s != "" {
				return s
			}
		}
		return ""
	}
	if s := walk(a.doc, b.doc); s != "" {
		return s, nil
	}
	if len(a.refs) != len(b.refs) {
		return fmt.Sprintf("%d reference definitions, then %d", len(a.refs), len(b.refs)), nil
	}
	for i := range a.refs {
		r, q := a.refs[i], b.refs[i]
		if !bytes.Equal(r.Label(), q.Label()) || !bytes.Equal(r.Title(), q.Title()) {
			return fmt.Sprintf("reference definition [%s] %q became [%s] %q", r.Label(), r.Title(), q.Label(), q.Title()), nil
		}
		if !bytes.Equal(r.Destination(), q.Destination()) {
			pairs = append(pairs, destPair{string(r.Destination()), string(q.Destination())})
		}
	}
	return "", pairs
}

// independent splice: the output the property describes for these replacements
func splice(src string, repls [][]string) (string, bool) {
	type rp struct {
		start, stop int
		text        string
	}
	var rs []rp
	for _, r := range repls {
		a, _ := strconv.Atoi(r[0])
		b, _ := strconv.Atoi(r[1])
		rs = append(rs, rp{a, b, unhex(r[2])})
	}
	sort.SliceStable(rs, func(i, j int) bool { return rs[i].start < rs[j].start })
	var out strings.Builder
	prev := 0
	for _, r := range rs {
		if r.start < prev {
			continue
		}
		if r.start > len(src) || r.stop > len(src) || r.stop < r.start {
			return "", false
		}
		out.WriteString(src[prev:r.start])
		out.WriteString(r.text)
		prev = r.stop
	}
	out.WriteString(src[prev:])
	return out.String(), true
}

// replaceOracle evaluates the property on one result of the real replacer.
func replaceOracle(src string, r tresult) (clause, detail string) {
	if r.Panic != "" {
		return "panics", r.Panic
	}
	if r.Err != "" {
		return "fails", r.Err
	}
	out, out2 := unhex(r.Out), unhex(r.Out2)
	want, ok := splice(src, r.Repls)
	if !ok || want != out {
		return "output-is-source-with-collected-spans-replaced", fmt.Sprintf("out %q, splice %q", out, want)
	}
	if out2 != out {
		return "idempotent", fmt.Sprintf("once %q, twice %q", out, out2)
	}
	if !utf8.ValidString(src) || strings.Contains(src, "\x00") {
		return "", ""
	}
	a, err := parseDoc(src)
	if err != nil {
		return "", "" // goldmark cannot judge
	}
	b, err := parseDoc(out)
	if err != nil {
		return "converter-fails-on-output", err.Error()
	}
	diff, pairs := sameExceptDestinations(a, b)
	if diff != "" {
		return "only-destinations-change", diff + fmt.Sprintf(" (output %q)", out)
	}
	for _, p := range pairs {
		// what the destination means: as the renderer does, backslash escapes and character
		// references resolved
		raw := p.before
		p = destPair{meaning(p.before), meaning(p.after)}
		u, err := url.Parse(p.after)
		if err != nil || u.Scheme == "" || u.Host == "" {
			return "rewritten-is-absolute", fmt.Sprintf("%q became %q", p.before, p.after)
		}
		if v, err := url.Parse(p.before); err == nil && v.Scheme != "" {
			return "absolute-left-alone", fmt.Sprintf("%q became %q", p.before, p.after)
		}
		if want, ok := resolved(p.before); ok && !sameURL(want, p.after) {
			return "resolves-against-base", fmt.Sprintf("raw %q: destination %q became %q, expected %q", raw, p.before, p.after, want)
		}
	}
	return "", ""
}

// sameURL compares two URLs up to percent-encoding.
func sameURL(a, b string) bool {
	u, err1 := url.Parse(a)
	v, err2 := url.Parse(b)
	if err1 != nil || err2 != nil {
		return a == b
	}
	return u.Scheme == v.Scheme && u.Host == v.Host && u.Path == v.Path && u.RawQuery == v.RawQuery && u.Fragment == v.Fragment
}

func schemeOf(u *url.URL) string {
	if u == nil {
		return ""
	}
	return u.Scheme
}

func meaning(dest string) string {
	v := gutil.UnescapePunctuations([]byte(dest))
	v = gutil.ResolveNumericReferences(v)
	v = gutil.ResolveEntityNames(v)
	return string(v)
}

// resolved is the rule documented on linkDestinationReplacer, applied to the destination as
// goldmark reads it: relative destinations are made absolute against the base URL and the
// directory of the file, ".html" or no extension becomes ".md", a trailing slash stays.
func resolved(dest string) (string, bool) {
	u, err := url.Parse(dest)
	if err != nil || u.Scheme != "" || (u.Host == "" && u.Path == "") {
		return "", false
	}
	base, _ := url.Parse(baseURL)
	u.Scheme = base.Scheme
	if u.Host == "" {
		u.Host = base.Host
		endSlash := strings.HasSuffix(u.Path, "/")
		if path.IsAbs(u.Path) {
			u.Path = path.Join(base.Path, u.Path)
		} else {
			u.Path = path.Join(base.Path, dirName, u.Path)
		}
		if endSlash {
			if !strings.HasSuffix(u.Path, "/") {
				u.Path += "/"
			}
		} else if ext := path.Ext(u.Path); ext == "" || ext == ".html" {
			u.Path = strings.TrimSuffix(u.Path, ".html") + ".md"
		}
	}
	return u.String(), true
}

// ---------------------------------------------------------------- generators

var dests = []string{
	"api", "api.html", "readme.md", "img/logo.png", "/guide", "guide/", "../x", "./y.html", "#frag", "?q=1", "x.html#top", "x?y=1&z=2",
	"https://other.com/x", "http://a.b", "mailto:a@b.c", "//host/p", "a%20b", "a\\_b", "a\\)b", "a\\(b", "a(b)c", "a\\\\b", "a\\b", "é", "a&amp;b", "a*b*", "a_b_c", "a`b", "a\\#b", "a\\&b", "a&copy;b",
	"x y", "", "a<b", "a>b", "a\"b", "a'b", "a b", "a\\", "\\", "-", "a.b.c", "a.html.html", ".html", "a/", "/", "a//b", "a/../b", "a:b", "1:2",
}

var titles = []string{"", "", "", ` "t"`, ` 't'`, ` (t)`, ` "a \" b"`, ` "x](y)"`, `  "t"  `, ` "unclosed`, `"nospace"`}

var texts = []string{"API", "a", "a b", "*em*", "`code`", "a [b] c", "\\[x\\]", "![i](j)", "a\\]", "", "[n](m)", "<b>x</b>", "a_b"}

func pick(r *proto.Rand, ss []string) string { return ss[r.Intn(len(ss))] }

// destinations that run into recorded findings (escapes of the punctuation isMarkdownEscapable
// lacks, character references that matter to a URL, U+00A0): a few per hundred
var destsOdd = []string{"a\\\"b", "a\\$b", "a\\:b", "a\\/b", "a\\;b", "a\\?b", "a\\@b", "a\\'b", "a\\,b", "a\\%b", "a\\^b", "a&#35;b", "a&quest;b", "a\u00a0b"}

func genDest(r *proto.Rand) string {
	d := pick(r, dests)
	if r.Intn(40) == 0 {
		d = pick(r, destsOdd)
	}
	if r.Intn(6) == 0 {
		d = "<" + d + ">"
	}
	return d
}

func genInline(r *proto.Rand) string {
	s := "[" + pick(r, texts) + "](" + strings.Repeat(" ", r.Intn(2)) + genDest(r) + pick(r, titles) + ")"
	if r.Intn(5) == 0 {
		s = "!" + s
	}
	return s
}

func genRefDef(r *proto.Rand) string {
	lab := pick(r, []string{"foo", "bar", "a b", "x\\]", "1"})
	return strings.Repeat(" ", r.Intn(5)) + "[" + lab + "]:" + strings.Repeat(" ", r.Intn(2)) + genDest(r) + pick(r, titles)
}

func genBlock(r *proto.Rand) string {
	switch r.Intn(22) {
	case 0, 1, 2, 3:
		return "See " + genInline(r) + " and " + genInline(r) + "."
	case 4:
		return genInline(r)
	case 5, 6:
		return genRefDef(r)
	case 7:
		return "[foo] and [text][bar] and [a b][]"
	case 8:
		return "`" + genInline(r) + "` then " + genInline(r)
	case 9:
		return "``` \n" + genInline(r) + "\n```"
	case 10:
		return "~~~md\n" + genRefDef(r) + "\n~~~"
	case 11:
		return "    " + genInline(r)
	case 12:
		return "\t" + genRefDef(r)
	case 13:
		return "<div>\n" + genInline(r) + "\n</div>"
	case 14:
		return "<script>\n" + genInline(r) + "\n</script>"
	case 15:
		return "<!-- " + genInline(r) + " -->"
	case 16:
		return "text <span>" + genInline(r) + "</span> more " + genInline(r)
	case 17:
		return "- " + genInline(r) + "\n- " + genInline(r)
	case 18:
		return "> " + genInline(r) + "\n> " + genRefDef(r)
	case 19:
		return "# " + genInline(r)
	case 20:
		return "\\" + genInline(r) + " [" + genInline(r) + "](" + genDest(r) + ")"
	default:
		return "plain text, no links"
	}
}

func genDoc(r *proto.Rand) string {
	n := 1 + r.Intn(4)
	var b strings.Builder
	for i := 0; i < n; i++ {
		if i > 0 {
			b.WriteString(pick(r, []string{"\n\n", "\n\n", "\n\n", "\n"}))
		}
		b.WriteString(genBlock(r))
	}
	if r.Intn(2) == 0 {
		b.WriteString("\n")
	}
	return b.String()
}

var escDict = []string{"\\", "\\\\", "\\(", "\\)", "\\a", "\\ ", "a\\", " ", "\xc2", "\xa0", "\xc2\\\xa0", "(", ")", "<", ">", "a", "/", "%5C", "\\\u00a0", "\\.", "\\\"", "\\/", "é", "\u00a0"}

// every failing document is shrunk and classified (about 50 ms each through the running test
// process); VERIF_C29_SHRINK can lower the number per clause for experiments
func shrinkLimit() int {
	if n, err := strconv.Atoi(os.Getenv("VERIF_C29_SHRINK")); err == nil {
		return n
	}
	return 1 << 30
}

// ---------------------------------------------------------------- run

func run(c *hx.Ctx) error {
	res := c.Res
	defer stopSession()
	if p := os.Getenv("VERIF_C29_EXPLAIN"); p != "" { // development aid: one Go-quoted document per line
		return explainFile(p)
	}
	res.Rule = "cases for the real code (run inside cmd/scriggo's tag-guarded test): (1) generated Markdown documents of 1-4 blocks from the construct list of the property (inline links and images with bare / angle / empty destinations, titles in the three quote forms, reference definitions and uses, code spans, fenced and indented code, HTML blocks, raw-text elements, comments, inline HTML, lists, block quotes, headings, escaped brackets and parentheses, nested brackets) through linkDestinationReplacer.replace with base https://example.com/base, dir docs; (2) random sources with random replacement lists (valid, overlapping, out of range) through applyReplacements; (3) a backslash / U+00A0 dictionary, its pairs and random bytes through markdownURLEscape and markdownUnescape; (4) generated lines x positions through parseDestination, parseTitle, findLabelEnd; (5) the fence family: documents around one fenced code block - opening fence {backtick, tilde} x length 3..6 x indentation 0..4 x info string {none, word, with backticks, with tildes, link syntax}; block lines that are links, definitions, text or look like fences (same / other character, shorter / equal / longer run, indented 0..4 or by a tab, followed by nothing, blanks or text); closing fence equal / longer / indented / fence-like / missing; followed by links, definitions, autolinks; alone, after a paragraph or a block of (1), in a block quote (also left early), in a list item (continuation indented or not); LF or CRLF - and the matrix of single lines indentation x character x run 0..7 x trailing text through isFenceStart, isIndentedCode and, after the opening fences {backtick, tilde} x {1, 3, 4, 5, 6} (quick: three of the ten per line, rotating), isFenceClose; (6) the literal-context family: lines of 2-5 pieces - code spans of backtick-run length 1..3 whose content starts with / contains / ends with backslashes, a backslash before each ASCII punctuation byte, backslash-backtick, link syntax, a backtick run of another length; raw HTML tags and attribute values, comments, processing instructions, CDATA, raw text elements and autolinks with backslashes; links whose text, angle or bare destination or title holds backslashes, escaped brackets, code spans; bare backslashes and brackets - mixed with plain links, with a definition or link line before and a link, definition or another such line after; each as a document through the oracle, and one line each (after a leading word) through the model of scanInlineLinks (every real replacement is a span of the model, every span of the model that is a plain relative path is a real replacement), and through that model also lines around a code span of 1-3 backticks that contains a backtick string of another length (shorter, longer by one or two, equal), with links inside and after, closed / unclosed / followed by HTML; (7) for the finding classes' precision self-test, per class 250 documents for which the class predicts a wrong rewriting, from per-class generators (classgens.go), partly inside a document of (1); a case is non-trivial when it has a link construct / a replacement / a backslash or C2 byte; distinct by (op, input)"

	var cases []tcase
	var keys []string
	add := func(tc tcase, key string) { cases = append(cases, tc); keys = append(keys, key) }

	add(tcase{Op: "tables"}, "tables")
	// (1) documents
	var docs []string
	if c.Replay != "" {
		if data, err := os.ReadFile(c.Replay); err == nil {
			var rp struct {
				Case string `json:"case"`
			}
			if json.Unmarshal(data, &rp) == nil {
				if f := strings.Fields(rp.Case); len(f) == 3 && f[0] == "C29" && f[1] == "replace" {
					if b, err := proto.UnHex(f[2]); err == nil {
						docs = append(docs, string(b))
						res.Notes = append(res.Notes, fmt.Sprintf("replaying %q first", b))
					}
				}
			}
		}
	}
	nDocs := c.N(6000, 150000)
	for i := 0; i < nDocs; i++ {
		docs = append(docs, genDoc(c.R))
	}
	for _, d := range docs {
		add(tcase{Op: "replace", Src: hexs(d), Base: baseURL, Dir: dirName}, "replace "+d)
	}
	// (2) applyReplacements
	type applyCase struct {
		src   string
		repls [][]string
	}
	var applies []applyCase
	nApply := c.N(3000, 60000)
	for i := 0; i < nApply; i++ {
		n := c.R.Intn(20)
		src := make([]byte, n)
		for j := range src {
			src[j] = byte('a' + c.R.Intn(26))
		}
		k := c.R.Intn(5)
		var repls [][]string
		used := map[int]bool{}
		for j := 0; j < k; j++ {
			start := c.R.Intn(n + 2)
			if used[start] { // distinct starts: the sort's order of equal keys is not specified
				continue
			}
			used[start] = true
			stop := start + c.R.Intn(4)
			switch c.R.Intn(12) {
			case 0:
				stop = start - 1 - c.R.Intn(2)
				if stop < 0 {
					stop = 0
				}
			case 1:
				stop = n + c.R.Intn(3)
			}
			repls = append(repls, []string{strconv.Itoa(start), strconv.Itoa(stop), hexs(strings.Repeat("X", c.R.Intn(3)) + strconv.Itoa(j))})
		}
		applies = append(applies, applyCase{string(src), repls})
		add(tcase{Op: "apply", Src: hexs(string(src)), Repls: repls}, fmt.Sprintf("apply %s %v", src, repls))
	}
	// (3) escape / unescape
	var strs []string
	strs = append(strs, "")
	strs = append(strs, escDict...)
	for _, a := range escDict {
		for _, b := range escDict {
			strs = append(strs, a+b)
		}
	}
	for _, d := range dests {
		strs = append(strs, d)
	}
	nStr := c.N(3000, 60000)
	for i := 0; i < nStr; i++ {
		b := c.R.Bytes(c.R.Intn(12))
		for j := range b {
			if c.R.Intn(2) == 0 {
				const alpha = "\\\\()<>.a \xc2\xa0/"
				b[j] = alpha[c.R.Intn(len(alpha))]
			}
		}
		strs = append(strs, string(b))
	}
	for _, s := range strs {
		add(tcase{Op: "escape", Src: hexs(s)}, "escape "+s)
		add(tcase{Op: "unescape", Src: hexs(s)}, "unescape "+s)
	}
	// (4) scanners
	type scanCase struct {
		op, line string
		pos      int
	}
	var scans []scanCase
	lineParts := []string{"<", ">", "(", ")", "[", "]", "\\", "\\)", "\\>", "\\]", "\\\"", "\"", "'", " ", "\t", "a", "b c", "x.html", "\\a", "\\\\"}
	nScan := c.N(3000, 60000)
	for i := 0; i < nScan; i++ {
		var b strings.Builder
		for j, n := 0, c.R.Intn(8); j < n; j++ {
			b.WriteString(pick(c.R, lineParts))
		}
		line := b.String()
		pos := c.R.Intn(len(line) + 2)
		op := []string{"destination", "title", "labelend"}[c.R.Intn(3)]
		scans = append(scans, scanCase{op, line, pos})
		add(tcase{Op: op, Src: hexs(line), Pos: pos}, fmt.Sprintf("%s %q %d", op, line, pos))
	}
	// (6) the fence family (fence.go): documents around a fenced code block, then a matrix of
	// single lines through isFenceStart / isFenceClose / isIndentedCode. Drawn from a stream of
	// its own, so that the streams above stay what they are for a seed.
	mainDocs := len(docs)
	docK := make([]int, 0, mainDocs)
	for i := 0; i < mainDocs; i++ {
		docK = append(docK, 1+i)
	}
	fr := proto.NewRand(c.Seed ^ 0xC29FE4CE)
	nFenceDocs := c.N(2500, 50000)
	seenFenceDoc := map[string]bool{}
	for i := 0; i < nFenceDocs; i++ {
		d := genFenceDoc(fr)
		if seenFenceDoc[d] {
			continue
		}
		seenFenceDoc[d] = true
		docs = append(docs, d)
		docK = append(docK, len(cases))
		add(tcase{Op: "replace", Src: hexs(d), Base: baseURL, Dir: dirName}, "replace "+d)
	}
	fcs := fenceCases(!c.Quick())
	fenceBase := len(cases)
	for _, fc := range fcs {
		add(fc.tcase(), fc.key())
	}
	fenceDocsEnd := len(docs)
	// (7) the literal-context family (literal.go): backslashes inside code spans, raw HTML,
	// comments, autolinks, titles, destinations and link text, next to links; as documents for the
	// oracle and, one line each, for the model of scanInlineLinks. A stream of its own again.
	lr := proto.NewRand(c.Seed ^ 0xC29B5C0D)
	nLiteralDocs := c.N(2500, 50000)
	for i := 0; i < nLiteralDocs; i++ {
		d := genLiteralDoc(lr)
		if seenFenceDoc[d] {
			continue
		}
		seenFenceDoc[d] = true
		docs = append(docs, d)
		docK = append(docK, len(cases))
		add(tcase{Op: "replace", Src: hexs(d), Base: baseURL, Dir: dirName}, "replace "+d)
	}
	var probes []string
	inlineBase := len(cases)
	for i, n := 0, c.N(3000, 60000); i < n; i++ {
		l := inlineProbeLine(lr)
		probes = append(probes, l)
		add(tcase{Op: "replace", Src: hexs(l), Base: baseURL, Dir: dirName}, "inline "+l)
	}
	// lines around a code span that contains backtick strings of other lengths (longer ones
	// too), links inside and after: the rule of fix 8b404d9, against the model (whose code spans
	// are CommonMark's: codespan_content_literal_full). A stream of its own.
	tr := proto.NewRand(c.Seed ^ 0xC29711C5)
	nTickLines := 0
	for i, n := 0, c.N(800, 16000); i < n; i++ {
		l := "x " + genLooseTicks(tr)
		probes = append(probes, l)
		nTickLines++
		add(tcase{Op: "replace", Src: hexs(l), Base: baseURL, Dir: dirName}, "inline "+l)
	}
	res.Histogram["cases-inline-model-lines-backtick-strings"] = nTickLines
	res.Histogram["cases-literal-documents"] = len(docs) - fenceDocsEnd
	res.Histogram["cases-inline-model-lines"] = len(probes)
	res.Histogram["cases-fence-documents"] = fenceDocsEnd - mainDocs
	res.Histogram["cases-fence-lines"] = len(fcs)
	res.Histogram["cases-replace-documents"] = len(docs)
	res.Histogram["cases-applyReplacements"] = len(applies)
	res.Histogram["cases-escape-unescape-strings"] = len(strs)
	res.Histogram["cases-scanner-lines"] = len(scans)

	tPhase := time.Now()
	phase := func(name string) {
		if os.Getenv("VERIF_C29_DEBUG") != "" {
			fmt.Fprintf(os.Stderr, "TIME %s %v\n", name, time.Since(tPhase))
		}
		tPhase = time.Now()
	}
	results, err := runReal(cases)
	if err != nil {
		return err
	}
	phase("real code on all cases")
	var rt []tcase
	for _, x := range strs {
		rt = append(rt, tcase{Op: "roundtrip", Src: hexs(x)})
	}
	rtRes, err := runReal(rt)
	if err != nil {
		return err
	}

	report := func(kind, name, caseLine, human, impl, model, finding string) {
		res.AddBreak(proto.Break{Kind: kind, Name: name, Case: caseLine, Human: human, Impl: impl, Model: model, Finding: finding})
	}

	// known findings: replay the recorded minimal input on the real code. A class whose witness
	// no longer fails (the defect was cured) or that is not listed as open is INACTIVE for this
	// run: nothing is printed for it, it is not self-tested and nothing is attributed to it.
	for _, f := range findingDefs {
		if !c.HasFinding(f.id) {
			classOff[f.id] = true
			continue
		}
		if f.clause == "unescape-escape" {
			rs, err := runReal([]tcase{{Op: "roundtrip", Src: hexs(f.minimal)}})
			if err != nil {
				return err
			}
			if back := unhex(rs[0].Out); back != f.minimal {
				report("property", f.clause, "C29 escape "+proto.Hex([]byte(f.minimal)), fmt.Sprintf("%q", f.minimal),
					fmt.Sprintf("markdownUnescape(markdownURLEscape(%q)) = %q", f.minimal, back), "", f.id)
			} else {
				classOff[f.id] = true
			}
			continue
		}
		// the recorded witness must still fail and fall into its own class
		cls, dets, rs, err := evalDocsR([]string{f.minimal})
		if err != nil {
			return err
		}
		if cls[0] != "" && explain(f.minimal, cls[0], dets[0], rs[0]).id == f.id {
			report("property", cls[0], "C29 replace "+proto.Hex([]byte(f.minimal)), fmt.Sprintf("document %q", f.minimal), dets[0], "", f.id)
		} else {
			classOff[f.id] = true
		}
	}
	for _, f := range findingDefs {
		if classOff[f.id] {
			res.Notes = append(res.Notes, fmt.Sprintf("class %s: inactive on this tree (not listed as open, or its recorded witness %q no longer fails) - nothing is attributed to it", f.id, f.minimal))
		}
	}

	// the finding classes must be narrow: what a class predicts must come true on the real code
	// (measured and recorded on every run; an obligation - a broken tie - only with VERIF_C29_STRICT=1)
	t0 := time.Now()
	if err := precisionSelfTest(c, report); err != nil {
		return err
	}
	if os.Getenv("VERIF_C29_DEBUG") != "" {
		fmt.Fprintf(os.Stderr, "TIME precision self-test %v\n", time.Since(t0))
	}

	// ---- model answers
	// (parallel to cases: tables, main documents, applies, strings x 2, scanner lines, fence
	// documents, fence lines)
	applyBase := 1 + mainDocs
	strBase := applyBase + len(applies)
	scanBase := strBase + 2*len(strs)
	lines := make([]string, len(cases))
	lines[0] = "C29 tables"
	for i, d := range docs {
		r := results[docK[i]]
		l := "C29 apply " + proto.Hex([]byte(d)) + " " + strconv.Itoa(len(r.Repls))
		for _, rp := range r.Repls {
			l += " " + rp[0] + " " + rp[1] + " " + proto.Hex([]byte(unhex(rp[2])))
		}
		lines[docK[i]] = l
	}
	for i, a := range applies {
		l := "C29 apply " + proto.Hex([]byte(a.src)) + " " + strconv.Itoa(len(a.repls))
		for _, rp := range a.repls {
			l += " " + rp[0] + " " + rp[1] + " " + proto.Hex([]byte(unhex(rp[2])))
		}
		lines[applyBase+i] = l
	}
	for i, s := range strs {
		lines[strBase+2*i], lines[strBase+2*i+1] = "C29 escape "+proto.Hex([]byte(s)), "C29 unescape "+proto.Hex([]byte(s))
	}
	for i, s := range scans {
		lines[scanBase+i] = fmt.Sprintf("C29 %s %s %d", s.op, proto.Hex([]byte(s.line)), s.pos)
	}
	for i, fc := range fcs {
		lines[fenceBase+i] = fc.modelLine()
	}
	for i, l := range probes {
		lines[inlineBase+i] = "C29 inline " + proto.Hex([]byte(l))
	}
	// the model's fenceScan on the fence documents that cannot put the scanner into HTML state
	var scanDocs []int
	var scanLines []string
	for i := mainDocs; i < fenceDocsEnd; i++ {
		if !strings.Contains(docs[i], "<") {
			scanDocs = append(scanDocs, i)
			scanLines = append(scanLines, "C29 fencescan "+proto.Hex([]byte(docs[i])))
		}
	}
	var model []string
	if c.D != nil {
		model, err = c.D.Batch(lines)
		if err != nil {
			return err
		}
		scanModel, err := c.D.Batch(scanLines)
		if err != nil {
			return err
		}
		for j, i := range scanDocs {
			res.Count("fencescan "+docs[i], strings.Contains(scanModel[j], "1"))
			if p := fenceScanCheck(docs[i], results[docK[i]], scanModel[j]); p != "" {
				report("correspondence", "fenceScan(collectReplacements skips the lines of a fenced block)", scanLines[j], fmt.Sprintf("document %q", docs[i]), p, scanModel[j], "")
			}
		}
	}
	phase("model answers")
	implLine := func(r tresult) string {
		if r.Panic != "" {
			if strings.Contains(r.Panic, "slice bounds") {
				return "err slice"
			}
			if strings.Contains(r.Panic, "index out of range") {
				return "err index"
			}
			return "err panic:" + r.Panic
		}
		return "ok " + proto.Hex([]byte(unhex(r.Out)))
	}
	cmp := func(i int, name, impl string) {
		if model != nil && model[i] != impl {
			report("correspondence", name, lines[i], keys[i], impl, model[i], "")
		}
	}

	// tables
	{
		parts := make([]string, 256)
		for i, v := range results[0].Ints {
			if i < 256 {
				parts[i] = strconv.Itoa(v)
			}
		}
		cmp(0, "tables(isMarkdownEscapable,util.IsPunct,util.IsSpace)", "ok "+strings.Join(parts, ","))
		res.Count("tables", true)
	}
	// documents
	type minimalRaw struct {
		doc, detail string
		res         tresult
		ok          bool
	}
	minimalByRaw := map[string]minimalRaw{}
	seen := map[string]int{}
	explainedSeen := map[string]int{}
	for i, d := range docs {
		r := results[docK[i]]
		k := docK[i]
		if i >= fenceDocsEnd {
			res.Hist("literal-documents/replacements-" + strconv.Itoa(min(len(r.Repls), 3)))
		} else if i >= mainDocs {
			res.Hist("fence-documents/replacements-" + strconv.Itoa(min(len(r.Repls), 3)))
		}
		nontrivial := strings.Contains(d, "](") || strings.Contains(d, "]:")
		res.Count(keys[k], nontrivial)
		res.Hist(fmt.Sprintf("replacements-%d", min(len(r.Repls), 5)))
		if r.Panic == "" && r.Err == "" {
			cmp(k, "applyReplacements-on-collected-replacements", "ok "+proto.Hex([]byte(unhex(r.Out))))
		}
		if i%997 == 0 && len(r.Repls) > 0 {
			res.Sample(map[string]string{"document": d, "output": unhex(r.Out)})
		}
		cl, detail := replaceOracle(d, r)
		if cl == "" {
			continue
		}
		res.Hist("oracle-" + cl)
		if seen[cl]++; seen[cl] > shrinkLimit() {
			continue
		}
		if cl == "resolves-against-base" {
			// the oracle names the destination that is resolved wrongly: try it alone first
			if q, err := strconv.QuotedPrefix(strings.TrimPrefix(detail, "raw ")); err == nil {
				raw, _ := strconv.Unquote(q)
				// (the same failure: same raw destination, same wrong URL, same expected URL)
				mr, ok := minimalByRaw[detail]
				if !ok {
					doc := "[](" + raw + ")"
					if cls, dets, rs, err := evalDocsR([]string{doc}); err == nil && cls[0] == cl && dets[0] == detail {
						mr = minimalRaw{doc, dets[0], rs[0], true}
					}
					minimalByRaw[detail] = mr
				}
				if mr.ok {
					report("property", cl, "C29 replace "+proto.Hex([]byte(mr.doc)), fmt.Sprintf("document %q (found with %q)", mr.doc, d), mr.detail, "", classify(c, mr.doc, cl, mr.detail, mr.res))
					continue
				}
			}
		}
		// shrink with the real code: one go test per round would be too slow, so candidates
		// are evaluated in batches (see shrinkDoc)
		// A document that a finding class explains shrinks, by construction (shrinkDoc keeps the
		// attribution), into a document of the same class: shrinking it changes nothing in the
		// verdict. The first few per class are shrunk for the reader of the evidence; a document
		// that no class explains is always shrunk.
		class0 := explain(d, cl, detail, r).id
		shrunk, sdetail := d, detail
		if explainedSeen[class0]++; class0 == "" || explainedSeen[class0] <= 8 {
			shrunk, sdetail = shrinkDoc(d, cl, class0)
		}
		if sdetail == "" {
			sdetail = detail
		}
		sres := r
		if shrunk != d {
			_, _, rs, err := evalDocsR([]string{shrunk})
			if err != nil {
				return err
			}
			sres = rs[0]
		}
		vd := explain(shrunk, cl, sdetail, sres)
		res.Hist("failing-documents-by-class/" + map[bool]string{true: vd.id, false: "none"}[vd.id != ""])
		if os.Getenv("VERIF_C29_DEBUG") != "" {
			fmt.Fprintf(os.Stderr, "SHRUNK %s [%s] %s %q :: %s\n", cl, vd.id, vd.effect, shrunk, sdetail)
		}
		report("property", cl, "C29 replace "+proto.Hex([]byte(shrunk)), fmt.Sprintf("document %q (found with %q; effect %s)", shrunk, d, vd.effect), sdetail, "", classify(c, shrunk, cl, sdetail, sres))
	}
	phase("documents: oracle, shrinking, classification")
	// spec validation of the hypotheses of rewritten_is_absolute / idempotent_destination
	// (UrlLaws in Lemmas/LinkDestUrl.lean) against net/url: (1) a parsed URL given the base scheme and
	// relocated, printed and parsed again, has the base scheme; (2) every text the real replacer wrote,
	// unescaped by the real markdownUnescape and parsed, has the base scheme (texts with U+00A0
	// are outside the theorems)
	{
		base, _ := url.Parse(baseURL)
		for _, d := range append(append([]string{}, dests...), destsOdd...) {
			want, ok := resolved(d) // parse, base scheme, relocate, String — with net/url and path
			if !ok {
				continue
			}
			w, err := url.Parse(want)
			res.SpecChecks["UrlLaws.relocated_reads_back (net/url)"]++
			if err != nil || w.Scheme != base.Scheme {
				report("correspondence", "spec-validation/UrlLaws.relocated_reads_back", "C29 url "+proto.Hex([]byte(d)), fmt.Sprintf("%q", d), fmt.Sprintf("String %q parses to scheme %q, %v", want, schemeOf(w), err), "scheme "+base.Scheme, "")
			}
		}
		var texts []string
		seenText := map[string]bool{}
		for i := range docs {
			for _, rp := range results[docK[i]].Repls {
				if t := unhex(rp[2]); !seenText[t] && !strings.Contains(t, "\u00a0") {
					seenText[t] = true
					texts = append(texts, t)
				}
			}
		}
		var cs []tcase
		for _, t := range texts {
			cs = append(cs, tcase{Op: "unescape", Src: hexs(t)})
		}
		un, err := runReal(cs)
		if err != nil {
			return err
		}
		for i, t := range texts {
			w, err := url.Parse(unhex(un[i].Out))
			res.SpecChecks["rewritten text reads back with the base scheme (net/url)"]++
			if err != nil || w.Scheme != base.Scheme {
				report("correspondence", "spec-validation/rewritten-reads-back-absolute", "C29 unescape "+proto.Hex([]byte(t)), fmt.Sprintf("%q", t), fmt.Sprintf("scheme %q, %v", schemeOf(w), err), "scheme "+base.Scheme, "")
			}
		}
	}
	// applyReplacements
	for i, a := range applies {
		k := applyBase + i
		r := results[k]
		res.Count(keys[k], len(a.repls) > 0)
		cmp(k, "applyReplacements", implLine(r))
		if want, ok := splice(a.src, a.repls); ok {
			if r.Panic != "" || unhex(r.Out) != want {
				report("property", "splice-preserves-outside", lines[k], keys[k], implLine(r), "ok "+proto.Hex([]byte(want)), "")
			}
		}
	}
	// escape / unescape
	rtSeen := 0
	for i, s := range strs {
		k := strBase + 2*i
		res.Count(keys[k], strings.ContainsAny(s, "\\\xc2"))
		cmp(k, "markdownURLEscape", implLine(results[k]))
		cmp(k+1, "markdownUnescape", implLine(results[k+1]))
		if back := unhex(rtRes[i].Out); back != s {
			if rtSeen++; rtSeen > 200 {
				continue
			}
			// shrink: needs the real code; evaluate candidates in one batch per round
			shrunk := shrinkRoundTrip(s)
			report("property", "unescape-escape", "C29 escape "+proto.Hex([]byte(shrunk)), fmt.Sprintf("%q (found with %q)", shrunk, s),
				fmt.Sprintf("markdownUnescape(markdownURLEscape(%q)) = %q", s, back), "", classify(c, shrunk, "unescape-escape", "", tresult{}))
		}
	}
	// scanners
	for i, s := range scans {
		k := scanBase + i
		r := results[k]
		res.Count(keys[k], true)
		var impl string
		switch {
		case r.Panic != "":
			impl = implLine(r)
		case s.op == "destination":
			if r.OK {
				impl = fmt.Sprintf("ok %d %d %d", r.Ints[0], r.Ints[1], r.Ints[2])
			} else {
				impl = "ok none"
			}
		case s.op == "title":
			if r.OK {
				impl = fmt.Sprintf("ok %d", r.Ints[0])
			} else {
				impl = "ok none"
			}
		default:
			if r.Ints[0] >= 0 {
				impl = fmt.Sprintf("ok %d", r.Ints[0])
			} else {
				impl = "ok none"
			}
		}
		cmp(k, s.op, impl)
	}
	phase("applies, strings, scanners")
	// fence lines: model = code; the CommonMark definitions (through the model, which the
	// theorems of Props/C29.lean prove to decide them) = goldmark
	for i, fc := range fcs {
		k := fenceBase + i
		r := results[k]
		impl := fc.implLine(r)
		res.Count(keys[k], strings.ContainsAny(fc.line, "`~") || fc.op == "indented")
		res.Hist("fence-lines/" + fc.op + "/" + strings.TrimPrefix(strings.SplitN(impl, " ", 3)[1], "panic:"))
		cmp(k, map[string]string{"fence": "isFenceStart", "fenceclose": "isFenceClose", "indented": "isIndentedCode"}[fc.op], impl)
		if model != nil {
			if checked, problem := fenceSpecValidation(fc, model[k]); checked {
				res.SpecChecks["CommonMarkFence.OpeningFence / ClosingFence / indentCols (decided by the model) against goldmark"]++
				if problem != "" {
					report("correspondence", "spec-validation/CommonMarkFence-against-goldmark", lines[k], keys[k], problem, model[k], "")
				}
			}
		}
	}
	phase("fence lines")
	// scanInlineLinks: model (tests in the regenerated order) = code, on one-line sources
	for i, l := range probes {
		k := inlineBase + i
		r := results[k]
		res.Count(keys[k], strings.Contains(l, "\\") || strings.Contains(l, "`"))
		if model == nil {
			continue
		}
		if model[k] == "ok unsupported" {
			res.Hist("inline-model/unsupported (HTML state)")
			continue
		}
		res.Hist("inline-model/spans-" + strconv.Itoa(min((len(strings.Fields(model[k]))-1)/2, 4)))
		if r.Panic != "" || r.Err != "" {
			report("correspondence", "scanInlineLinks", lines[k], keys[k], "panic/error: "+r.Panic+r.Err, model[k], "")
		} else if p := inlineCheck(l, r, model[k]); p != "" {
			report("correspondence", "scanInlineLinks(tests in source order, empty HTML state)", lines[k], fmt.Sprintf("line %q", l), p, model[k], "")
		}
	}
	phase("inline model lines")
	return nil
}

// ---------------------------------------------------------------- shrinking with the real code

// evalDocs runs the real replacer on every candidate and returns the failing clause of each.
func evalDocs(cands []string) ([]string, []string, error) {
	cls, dets, _, err := evalDocsR(cands)
	return cls, dets, err
}

// evalDocsR: evalDocs with the real code's results (the collected replacements)
func evalDocsR(cands []string) ([]string, []string, []tresult, error) {
	var cs []tcase
	for _, d := range cands {
		cs = append(cs, tcase{Op: "replace", Src: hexs(d), Base: baseURL, Dir: dirName})
	}
	rs, err := runReal(cs)
	if err != nil {
		return nil, nil, nil, err
	}
	cls, dets := make([]string, len(cands)), make([]string, len(cands))
	for i, d := range cands {
		cls[i], dets[i] = replaceOracle(d, rs[i])
	}
	return cls, dets, rs, nil
}

// shrinkDoc: greedy removal on the real code. First halving chunk sizes (every round evaluates
// all deletions of one chunk size in one batch and takes the first that still fails with the
// same clause); once the document is short, every chunk of every size, largest first.
//
// The attribution is part of what a shrinking step must keep: a candidate is taken only if it
// fails with the same clause AND is explained by the same finding class as the document it
// comes from (or by none, like it). Otherwise the witness of a regression, which no class
// explains, could shrink into a smaller document that fails on the unchanged tree as well.
func shrinkDoc(d string, clause string, class string) (string, string) {
	cur, detail := d, ""
	same := func(doc, cl, det string, r tresult) bool {
		return cl == clause && explain(doc, cl, det, r).id == class
	}
	try := func(cands []string) bool {
		if len(cands) == 0 {
			return false
		}
		cls, dets, rs, err := evalDocsR(cands)
		if err != nil {
			return false
		}
		for i, cl := range cls {
			if same(cands[i], cl, dets[i], rs[i]) {
				cur, detail = cands[i], dets[i]
				return true
			}
		}
		return false
	}
	for chunk := max(len(cur)/2, 1); chunk >= 1; {
		var cands []string
		for i := 0; i+chunk <= len(cur); i += max(chunk/2, 1) {
			cands = append(cands, cur[:i]+cur[i+chunk:])
		}
		if !try(cands) {
			chunk /= 2
		} else if chunk > len(cur) {
			chunk = max(len(cur)/2, 1)
		}
	}
	for round := 0; round < 100 && len(cur) <= 48; round++ {
		var cands []string
		dup := map[string]bool{}
		for chunk := len(cur) - 1; chunk >= 1; chunk-- {
			for i := 0; i+chunk <= len(cur); i++ {
				if cand := cur[:i] + cur[i+chunk:]; !dup[cand] {
					dup[cand] = true
					cands = append(cands, cand)
				}
			}
		}
		if !try(cands) {
			break
		}
	}
	// simplify letters towards 'a'
	var cands []string
	var at []int
	for i := 0; i < len(cur); i++ {
		if ch := cur[i]; ch != 'a' && (ch >= 'b' && ch <= 'z' || ch >= 'A' && ch <= 'Z' || ch >= '0' && ch <= '9') {
			cands = append(cands, cur[:i]+"a"+cur[i+1:])
			at = append(at, i)
		}
	}
	if len(cands) > 0 {
		if cls, dets, rs, err := evalDocsR(cands); err == nil {
			b := []byte(cur)
			for j := range cls {
				if same(cands[j], cls[j], dets[j], rs[j]) {
					b[at[j]] = 'a'
				}
			}
			if c2, d2, r2, err := evalDocsR([]string{string(b)}); err == nil && same(string(b), c2[0], d2[0], r2[0]) {
				cur, detail = string(b), d2[0]
			}
		}
	}
	return cur, detail
}

func shrinkRoundTrip(s string) string {
	failing := func(cands []string) []bool {
		var cs []tcase
		for _, x := range cands {
			cs = append(cs, tcase{Op: "roundtrip", Src: hexs(x)})
		}
		out := make([]bool, len(cands))
		rs, err := runReal(cs)
		if err != nil {
			return out
		}
		for i := range cands {
			out[i] = unhex(rs[i].Out) != cands[i]
		}
		return out
	}
	cur := s
	for {
		var cands []string
		for i := range cur {
			cands = append(cands, cur[:i]+cur[i+1:])
		}
		if len(cands) == 0 {
			return cur
		}
		f := failing(cands)
		progressed := false
		for i, b := range f {
			if b {
				cur, progressed = cands[i], true
				break
			}
		}
		if !progressed {
			return cur
		}
	}
}

// explainFile prints, for every document of the file, the oracle's verdict on the real code,
// the effect and the class (development aid, VERIF_C29_EXPLAIN=<file>).
func explainFile(p string) error {
	data, err := os.ReadFile(p)
	if err != nil {
		return err
	}
	var docs []string
	for _, l := range strings.Split(string(data), "\n") {
		if l = strings.TrimSpace(l); l != "" {
			d, err := strconv.Unquote(l)
			if err != nil {
				return fmt.Errorf("%s: %v", l, err)
			}
			docs = append(docs, d)
		}
	}
	cls, dets, rs, err := evalDocsR(docs)
	if err != nil {
		return err
	}
	for i, d := range docs {
		v := explain(d, cls[i], dets[i], rs[i])
		var pred []string
		in := analyse(d)
		for _, f := range findingDefs {
			if sp := f.predict(in); len(sp) > 0 {
				pred = append(pred, fmt.Sprintf("%s%v", f.id, sp))
			}
		}
		if os.Getenv("VERIF_C29_CANDS") != "" {
			for _, c := range in.cands {
				fmt.Printf("   cand %v raw=%q def=%v open=%v lb=%d alone=%v whole=%v at=%+v defInContainer=%v\n", c.span, c.raw, c.def, c.open, c.lb, c.alone, c.whole, c.at, defInContainer(c.line))
			}
		}
		fmt.Printf("%-40q clause=%q class=[%s] effect=%s culprit=%v predicted=%v repls=%v\n", d, cls[i], v.id, v.effect, v.culprit, pred, appliedSpans(rs[i]))
	}
	return nil
}
