package main

import (
	"fmt"
	"strconv"
	"strings"

	gast "github.com/yuin/goldmark/ast"

	"verifharness/internal/proto"
)

// The fence family of C29: (a) a matrix of single lines through isFenceStart, isFenceClose and
// isIndentedCode (model = code; CommonMark, as goldmark implements it, = model), (b) documents
// built around a fenced code block through the replacer and the goldmark oracle.
//
// Both are structured: every opening fence {` ~} x {3..6} x {indentation 0..4, tab} x {info
// string none / word / with backticks / with tildes}, inner lines that look like fences of every
// length, character and indentation with and without trailing text or blanks, closing fences
// shorter / equal / longer / of the other character / indented four columns / missing, the block
// alone, in a block quote, in a list item, after a paragraph, followed by links, reference
// definitions and autolinks.

// ---------------------------------------------------------------- (a) lines

var fenceIndents = []string{"", " ", "  ", "   ", "    ", "     ", "\t", " \t", "  \t ", "   \t"}

var fenceTrails = []string{"", " ", "   ", "\t", " \t ", "x", " x", "go", " go ", "a`b", " a`b`", "`", " `", " ```", "~", " ~~~", "x~y",
	"\r", " \r", " \rx", "\f", "\v", "\u00a0", " [a](b)", "[a]: b"}

type fenceLine struct {
	line string
	ch   byte // the character of the run (0 when the run is empty)
	run  int
}

// fenceLineFamily: indentation x character x run length 0..7 x what follows the run
func fenceLineFamily() []fenceLine {
	var out []fenceLine
	seen := map[string]bool{}
	for _, ind := range fenceIndents {
		for _, ch := range []byte{'`', '~'} {
			for n := 0; n <= 7; n++ {
				for _, tr := range fenceTrails {
					l := ind + strings.Repeat(string(ch), n) + tr
					if !seen[l] {
						seen[l] = true
						out = append(out, fenceLine{l, ch, n})
					}
				}
			}
		}
	}
	return out
}

type fenceOpen struct {
	ch byte
	n  int
}

var fenceOpens = []fenceOpen{{'`', 1}, {'`', 3}, {'`', 4}, {'`', 5}, {'`', 6}, {'~', 1}, {'~', 3}, {'~', 4}, {'~', 5}, {'~', 6}}

// one question about one line
type fenceCase struct {
	op   string // fence, fenceclose, indented
	line string
	open fenceOpen
}

func (fc fenceCase) tcase() tcase {
	switch fc.op {
	case "fenceclose":
		return tcase{Op: "fenceclose", Src: hexs(fc.line), Pos: int(fc.open.ch)<<16 | fc.open.n}
	}
	return tcase{Op: fc.op, Src: hexs(fc.line)}
}

func (fc fenceCase) modelLine() string {
	switch fc.op {
	case "fence":
		return "C29 fencestart " + proto.Hex([]byte(fc.line))
	case "fenceclose":
		return fmt.Sprintf("C29 fenceclose %s %d %d", proto.Hex([]byte(fc.line)), fc.open.ch, fc.open.n)
	}
	return "C29 indented " + proto.Hex([]byte(fc.line))
}

func (fc fenceCase) key() string {
	if fc.op == "fenceclose" {
		return fmt.Sprintf("fenceclose %q after %s", fc.line, strings.Repeat(string(fc.open.ch), fc.open.n))
	}
	return fmt.Sprintf("%s %q", fc.op, fc.line)
}

// implLine: the real code's answer in the model's notation
func (fc fenceCase) implLine(r tresult) string {
	if r.Panic != "" {
		return "err panic:" + r.Panic
	}
	if fc.op == "fence" {
		if !r.OK {
			return "ok none"
		}
		return fmt.Sprintf("ok %d %d", r.Ints[0], r.Ints[1])
	}
	if r.OK {
		return "ok 1"
	}
	return "ok 0"
}

// fenceCases: every line through isFenceStart and isIndentedCode; through isFenceClose after
// every opening fence (all = thorough) or after three of the ten, rotating with the line
func fenceCases(all bool) []fenceCase {
	var out []fenceCase
	for j, fl := range fenceLineFamily() {
		out = append(out, fenceCase{op: "fence", line: fl.line}, fenceCase{op: "indented", line: fl.line})
		for i, o := range fenceOpens {
			if d := (i - j%len(fenceOpens) + len(fenceOpens)) % len(fenceOpens); all || d == 0 || d == 3 || d == 7 {
				out = append(out, fenceCase{op: "fenceclose", line: fl.line, open: o})
			}
		}
	}
	return out
}

const fenceProbe = "q7zxprobe"

// goldmarkJudges: goldmark's line splitting differs from the scanner's for a lone CR, and it
// cannot parse NUL / invalid UTF-8 (none is generated here)
func goldmarkJudges(line string) bool { return !strings.Contains(line, "\r") }

// gmFirstBlock: the first block of doc for goldmark and whether the probe line lies in it
func gmFirstBlock(doc string) (kind gast.NodeKind, holdsProbe bool, ok bool) {
	v := parsed(doc)
	if v == nil || v.doc.FirstChild() == nil {
		return kind, false, false
	}
	n := v.doc.FirstChild()
	return n.Kind(), strings.Contains(linesOf(n, v.src), fenceProbe), true
}

// fenceSpecValidation: the model's answers (which, by isFenceStart_iff_openingFence,
// isFenceClose_iff_closingFence and isIndentedCode_iff, are the decisions of the CommonMark
// definitions of Spec/CommonMarkFence.lean and CommonMarkLex.indentCols) against goldmark:
//
//	opening   `line` + probe: the first block is a fenced code block iff the model says fence;
//	          and then a run of n-1 of its character does not end the block, a run of n does
//	closing   opener + x + `line` + probe: the probe is still in the code block iff the model
//	          says the line does not close
//	indented  `line` alone: the first block is an indented code block iff the model says so
func fenceSpecValidation(fc fenceCase, model string) (checked bool, problem string) {
	if !goldmarkJudges(fc.line) || !strings.HasPrefix(model, "ok ") {
		return false, ""
	}
	ans := strings.TrimPrefix(model, "ok ")
	switch fc.op {
	case "fence":
		kind, _, ok := gmFirstBlock(fc.line + "\n" + fenceProbe + "\n")
		if !ok {
			return false, ""
		}
		isFence := kind == gast.KindFencedCodeBlock
		if isFence != (ans != "none") {
			return true, fmt.Sprintf("goldmark: first block of %q is %s; definition OpeningFence (model isFenceStart): %s", fc.line, kind, ans)
		}
		if isFence {
			f := strings.Fields(ans)
			ch, _ := strconv.Atoi(f[0])
			n, _ := strconv.Atoi(f[1])
			for _, m := range []int{n - 1, n} {
				_, in, ok := gmFirstBlock(fc.line + "\nx\n" + strings.Repeat(string(byte(ch)), m) + "\n" + fenceProbe + "\n")
				if ok && in != (m < n) {
					return true, fmt.Sprintf("goldmark: after %q a run of %d %q closes=%v; the definition gives the fence length %d", fc.line, m, byte(ch), !in, n)
				}
			}
		}
		return true, ""
	case "fenceclose":
		if fc.open.n < 3 {
			return false, "" // not an opening fence: nothing to ask goldmark
		}
		_, in, ok := gmFirstBlock(strings.Repeat(string(fc.open.ch), fc.open.n) + "\nx\n" + fc.line + "\n" + fenceProbe + "\n")
		if !ok {
			return false, ""
		}
		if in != (ans == "0") {
			return true, fmt.Sprintf("goldmark: %q after the fence %s closes=%v; definition ClosingFence (model isFenceClose): %s", fc.line, strings.Repeat(string(fc.open.ch), fc.open.n), !in, ans)
		}
		return true, ""
	case "indented":
		kind, _, ok := gmFirstBlock(fc.line + "\n")
		if !ok {
			return true, map[bool]string{true: "", false: fmt.Sprintf("goldmark: %q has no block; model isIndentedCode: %s", fc.line, ans)}[ans == "0"]
		}
		if (kind == gast.KindCodeBlock) != (ans == "1") {
			return true, fmt.Sprintf("goldmark: first block of %q is %s; indentCols >= 4 and not blank (model isIndentedCode): %s", fc.line, kind, ans)
		}
		return true, ""
	}
	return false, ""
}

// ---------------------------------------------------------------- (b) documents

func spaces(n int) string { return strings.Repeat(" ", n) }

// genFenceLike: a line that looks like a fence, around the open fence (ch, n)
func genFenceLike(r *proto.Rand, ch byte, n int) string {
	c := ch
	if r.Intn(4) == 0 {
		c = '`' + '~' - ch
	}
	m := n
	switch r.Intn(8) {
	case 0, 1:
		m = n - 1
	case 2:
		m = n - 2
	case 3:
		m = n + 1
	case 4:
		m = 1 + r.Intn(7)
	case 5:
		m = 3
	}
	if m < 1 {
		m = 1
	}
	ind := pick(r, []string{"", "", "", " ", "  ", "   ", "    ", "\t"})
	tr := pick(r, []string{"", "", "", "", " ", "  ", "\t", " x", "x", "md", " `"})
	return ind + strings.Repeat(string(c), m) + tr
}

func genLinkLine(r *proto.Rand) string {
	switch r.Intn(6) {
	case 0:
		return "[" + pick(r, []string{"ref", "foo", "a b"}) + "]: " + sd(r) + pick(r, []string{"", "", " \"T\""})
	case 1:
		return "See " + simpleLink(r) + "."
	case 2:
		return spaces(r.Intn(4)) + simpleLink(r)
	default:
		return simpleLink(r)
	}
}

// genFenceDoc: a document around one fenced code block
func genFenceDoc(r *proto.Rand) string {
	// containers (in which today's scanner is known to fail) for one document in ten
	if r.Intn(10) == 0 {
		return genFenceDocAt(r, r.Intn(3))
	}
	return genFenceDocAt(r, 3+r.Intn(11))
}

// genFenceDocAt: where = 0, 1 block quote; 2 list item; 3..6 after other blocks; else alone
func genFenceDocAt(r *proto.Rand, where int) string {
	ch := byte('`')
	if r.Intn(2) == 0 {
		ch = '~'
	}
	n := 3 + r.Intn(4)
	ind := pick(r, []string{"", "", "", "", " ", "  ", "   ", "    "})
	info := pick(r, []string{"", "", "", "md", " go", " markdown ", "a`b", " x~y", " ~~~", "[a](b)"})
	var ls []string
	ls = append(ls, ind+strings.Repeat(string(ch), n)+info)
	// the block's lines: links and definitions (which must stay as they are), lines that look
	// like fences, blank lines, text
	for i, k := 0, 1+r.Intn(5); i < k; i++ {
		switch r.Intn(10) {
		case 0, 1, 2, 3:
			ls = append(ls, genLinkLine(r))
		case 4, 5, 6:
			ls = append(ls, genFenceLike(r, ch, n))
		case 7:
			ls = append(ls, "")
		case 8:
			ls = append(ls, ind+genLinkLine(r))
		default:
			ls = append(ls, pick(r, []string{"text", "# h", "- item", "> q", "    code", "<div>", "a `b` c"}))
		}
	}
	// the closing fence: equal, longer, with blanks, indented up to three columns; or none
	switch r.Intn(10) {
	case 0, 1, 2, 3:
		ls = append(ls, ind+strings.Repeat(string(ch), n))
	case 4:
		ls = append(ls, strings.Repeat(string(ch), n+1+r.Intn(2))+pick(r, []string{"", " ", "\t"}))
	case 5:
		ls = append(ls, spaces(r.Intn(4))+strings.Repeat(string(ch), n)+pick(r, []string{"", "  "}))
	case 6, 7:
		ls = append(ls, genFenceLike(r, ch, n))
	}
	// what follows
	for i, k := 0, r.Intn(3); i < k; i++ {
		switch r.Intn(6) {
		case 0:
			ls = append(ls, "")
		case 1:
			ls = append(ls, pick(r, []string{"<https://o.com/x>", "<mailto:a@b.c>", "text", "# h " + simpleLink(r)}))
		case 2:
			ls = append(ls, genFenceLike(r, ch, n))
		default:
			ls = append(ls, genLinkLine(r))
		}
	}
	// where the block stands: alone, after a paragraph / a blank line / a block of the main
	// stream, in a block quote, in a list item
	switch where {
	case 0: // block quote, every line marked
		m := pick(r, []string{"> ", "> ", ">"})
		for i := range ls {
			ls[i] = m + ls[i]
		}
	case 1: // block quote left after some lines (the code block ends with it)
		k := 1 + r.Intn(len(ls))
		for i := 0; i < k; i++ {
			ls[i] = "> " + ls[i]
		}
	case 2: // list item; continuation lines indented to its content, or not (the item ends)
		m := pick(r, []string{"- ", "* ", "1. ", "- ", "10. "})
		cont := spaces(len(m))
		if r.Intn(4) == 0 {
			cont = pick(r, []string{"", " ", spaces(len(m) + 2)})
		}
		for i := range ls {
			if i == 0 {
				ls[i] = m + ls[i]
			} else if ls[i] != "" {
				ls[i] = cont + ls[i]
			}
		}
	case 3, 4:
		ls = append([]string{pick(r, []string{"A paragraph.", "text " + simpleLink(r), "[foo]: /u", "# Title"})}, ls...)
	case 5:
		ls = append([]string{genLinkLine(r), ""}, ls...)
	case 6:
		ls = append(strings.Split(genBlock(r), "\n"), append([]string{""}, ls...)...)
	}
	doc := strings.Join(ls, "\n")
	switch r.Intn(12) {
	case 0:
	case 1: // CRLF line endings
		doc = strings.ReplaceAll(doc, "\n", "\r\n") + "\r\n"
	default:
		doc += "\n"
	}
	return doc
}

// fenceScanCheck: for a document without `<` (no HTML state), the lines the model's fenceScan
// skips as fenced block hold no replacement of the real scanner
func fenceScanCheck(doc string, r tresult, model string) string {
	if !strings.HasPrefix(model, "ok ") {
		return ""
	}
	bits := strings.TrimPrefix(model, "ok ")
	lineOf := make([]int, len(doc)+1)
	ln := 0
	for i := 0; i < len(doc); i++ {
		lineOf[i] = ln
		if doc[i] == '\n' {
			ln++
		}
	}
	lineOf[len(doc)] = ln
	for _, rp := range r.Repls {
		a, _ := strconv.Atoi(rp[0])
		if a < 0 || a > len(doc) {
			continue
		}
		if l := lineOf[a]; l < len(bits) && bits[l] == '1' {
			return fmt.Sprintf("replacement [%s,%s) on line %d, which the model skips as part of a fenced block (skipped lines %s)", rp[0], rp[1], l+1, bits)
		}
	}
	return ""
}
