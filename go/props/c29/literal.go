package main

import (
	"fmt"
	"regexp"
	"strconv"
	"strings"

	"verifharness/internal/proto"
)

// The literal-context family of C29: backslashes where CommonMark reads them literally (code
// spans, raw HTML, comments, autolinks) and where it does not (link text, titles,
// destinations), next to links and definitions on the same and on the next line. Documents go
// through the replacer and the goldmark oracle; their first line also goes through the Lean
// model of scanInlineLinks (Model/LinkDestInline.lean, tests tried in the regenerated order).

const asciiPunct = "!\"#$%&'()*+,-./:;<=>?@[\\]^_`{|}~"

func ticksN(n int) string { return strings.Repeat("`", n) }

// genCodeSpanBS: a code span of backtick-run length 1..3 whose content has backslashes at its
// start, inside, at its end, before every ASCII punctuation byte, before a backtick; sometimes
// with a backtick run of another length inside
func genCodeSpanBS(r *proto.Rand) string {
	n := 1 + r.Intn(3)
	var content string
	switch r.Intn(12) {
	case 0:
		content = "\\"
	case 1:
		content = pick(r, []string{"a\\", "C:\\dir\\", "x y\\", "\\\\", "a\\\\"})
	case 2:
		content = pick(r, []string{"\\a", "\\ a", "\\\\a"})
	case 3:
		content = pick(r, []string{"a\\b", "a \\ b", "C:\\dir\\file"})
	case 4, 5:
		content = pick(r, []string{"", "a", "a "}) + "\\" + string(asciiPunct[r.Intn(len(asciiPunct))]) + pick(r, []string{"", "b", " b"})
	case 6:
		content = pick(r, []string{"[a](b)\\", "\\[a](b)", "[a\\](b)", "[a](b\\)", "[a](b)"})
	case 7: // a backtick run of another length inside
		m := 1 + r.Intn(4)
		if m == n {
			m++
		}
		content = pick(r, []string{"a", "a\\", "[x](y) "}) + ticksN(m) + pick(r, []string{"b", "\\b", " [x](y)", "[x](y)"})
	case 8:
		content = "\\`"
	default:
		content = pick(r, []string{"a", "code", "x y", "[a](b)"})
	}
	pad := pick(r, []string{"", "", " "})
	return ticksN(n) + pad + content + pad + ticksN(n)
}

var literalHTML = []string{
	"<a href=\"\\\">", "<a title=\"a\\\"b\">", "<b class='\\\\'>", "<b class='\\'>", "<i x=\\>", "<!-- \\ -->", "<!-- a\\-->", "<!--\\-->", "<x\\>", "<a\\b>", "<?p \\?>", "<![CDATA[\\]]>", "<!D \\>",
	"<script>\\</script>", "<style>a\\<</style>", "<textarea>\\`</textarea>", "<script>\\\\</script>", "<b>\\</b>", "<b>a\\</b>", "<span>`\\`</span>",
	"<http://a.b/c\\>", "<http://a.b/\\`>", "<mailto:a\\@b.c>", "<https://o.com/\\[x](y)>", "<br\\>", "</b\\>",
}

var literalLinks = []string{
	"[t](<a\\>)", "[t](<a\\\\>)", "[t](<a\\>b>)", "[t](d \"a\\\")", "[t](d \"a\\\\\")", "[t](d 'it\\'s')", "[t](d (a\\)))", "[t](d \"`\")", "[t](d\\)", "[t](d\\))", "[t](\\(d)",
	"[a\\]](d)", "[\\[a](d)", "[a\\](d)", "[`\\`](d)", "[\\`](d)", "[a`\\]`](d)", "[`a\\`](d)", "[a\\\\](d)", "![i\\](d)", "![`\\`](d.png)", "[t](a\\ b)", "[t](a\\\\b)",
}

var literalPlain = []string{"\\", "\\\\", "\\[", "\\]", "\\(", "\\`", "a\\", "text", "a", "`", "``", "[", "]", "\\<b>", "\\`a`", "*e*"}

func genLiteralPiece(r *proto.Rand) string {
	switch r.Intn(12) {
	case 0, 1, 2, 3, 4:
		return genCodeSpanBS(r)
	case 5, 6:
		return pick(r, literalHTML)
	case 7, 8:
		l := pick(r, literalLinks)
		return strings.Replace(l, "(d", "("+sd(r), 1)
	case 9:
		return pick(r, literalPlain)
	default:
		return simpleLink(r)
	}
}

// genLiteralLine: pieces and links on one line
func genLiteralLine(r *proto.Rand) string {
	var b strings.Builder
	for i, n := 0, 2+r.Intn(4); i < n; i++ {
		if i > 0 {
			b.WriteString(pick(r, []string{" ", " ", "", " x ", ", "}))
		}
		if r.Intn(3) == 0 {
			b.WriteString(simpleLink(r))
		} else {
			b.WriteString(genLiteralPiece(r))
		}
	}
	return b.String()
}

// genLiteralDoc: one such line; a definition or a link line before it; a link, a definition or
// another such line after it
func genLiteralDoc(r *proto.Rand) string {
	var ls []string
	switch r.Intn(8) {
	case 0:
		ls = append(ls, "[foo]: "+sd(r), "")
	case 1:
		ls = append(ls, "See "+simpleLink(r)+".", "")
	}
	ls = append(ls, genLiteralLine(r))
	switch r.Intn(8) {
	case 0:
		ls = append(ls, simpleLink(r))
	case 1:
		ls = append(ls, "[foo]: "+sd(r))
	case 2:
		ls = append(ls, genLiteralLine(r))
	case 3:
		ls = append(ls, "", genLinkLine(r))
	case 4:
		ls = append(ls, genCodeSpanBS(r)+" "+simpleLink(r))
	}
	doc := strings.Join(ls, "\n")
	if r.Intn(3) != 0 {
		doc += "\n"
	}
	return doc
}

// ---------------------------------------------------------------- model = code for scanInlineLinks

// inlineProbeLine: a one-line source that collectReplacements hands to scanInlineLinks as it is
// (not a fence, not indented, not a definition: it begins with a letter)
func inlineProbeLine(r *proto.Rand) string { return "x " + genLiteralLine(r) }

var reSurelyRewritten = regexp.MustCompile(`^[a-z][a-z0-9]*(\.html|/)?$`)

// inlineCheck: the spans the model hands to appendReplacement against the replacements the real
// scanner collected: every real replacement is a span of the model; a span of the model whose
// text is a plain relative path (which appendReplacement always rewrites) is a real replacement
func inlineCheck(line string, r tresult, model string) string {
	if !strings.HasPrefix(model, "ok") || model == "ok unsupported" {
		return ""
	}
	f := strings.Fields(model)[1:]
	want := map[[2]int]bool{}
	for i := 0; i+1 < len(f); i += 2 {
		a, _ := strconv.Atoi(f[i])
		b, _ := strconv.Atoi(f[i+1])
		want[[2]int{a, b}] = true
	}
	got := map[[2]int]bool{}
	for _, rp := range r.Repls {
		a, _ := strconv.Atoi(rp[0])
		b, _ := strconv.Atoi(rp[1])
		got[[2]int{a, b}] = true
		if !want[[2]int{a, b}] {
			return fmt.Sprintf("the real scanner rewrites [%d,%d) %q, which the model does not hand to appendReplacement (model: %s)", a, b, line[a:b], model)
		}
	}
	for sp := range want {
		if sp[1] <= len(line) && reSurelyRewritten.MatchString(line[sp[0]:sp[1]]) && !got[sp] {
			return fmt.Sprintf("the model hands [%d,%d) %q to appendReplacement, the real scanner collected no replacement there (real: %v)", sp[0], sp[1], line[sp[0]:sp[1]], r.Repls)
		}
	}
	return ""
}
