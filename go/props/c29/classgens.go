package main

import (
	"strings"

	"verifharness/internal/proto"
)

// Generators for the precision self-test of the finding classes (classes.go). Each one draws
// documents AROUND the cause of a class — with the variations under which the defect does and
// does not show — so that a class whose prediction is too broad meets documents that pass.
// A document of any generator is a sample for every class that predicts something for it.

var simpleDests = []string{"a", "a", "b.html", "x/y", "/r", "\"", "'", ">", "-", "#f", "https://o.com/x", "é", "a?b"}

// sd: a simple destination, from the list or a fresh short path
func sd(r *proto.Rand) string {
	if r.Intn(2) == 0 {
		return pick(r, simpleDests)
	}
	const abc = "abcdefghijklmnopqrstuvwxyz"
	n := 1 + r.Intn(3)
	b := make([]byte, n)
	for i := range b {
		b[i] = abc[r.Intn(len(abc))]
	}
	return string(b) + pick(r, []string{"", "", ".html", "/", "/x"})
}

// filler: link text or text between constructs, with the things a bracket scanner cares about
func filler(r *proto.Rand) string {
	return pick(r, []string{"", "", "", "a", "t t", " ", "*e*", "`c`", "\\[", "\\]", "[b]", "<b>x</b>", "<br>", "`", "x](", "![i]", "&amp;", "a\\"})
}

func soup(r *proto.Rand, tokens []string, min, max int) string {
	var b strings.Builder
	for i, n := 0, min+r.Intn(max-min+1); i < n; i++ {
		b.WriteString(pick(r, tokens))
	}
	return b.String()
}

func simpleLink(r *proto.Rand) string {
	return "[" + pick(r, []string{"", "a", "t t", "*e*"}) + "](" + sd(r) + pick(r, []string{"", "", "", ` "t"`, ` 't'`, ` (t)`}) + ")"
}

// one link or definition with the given destination, alone or in a sentence
func genOneLink(r *proto.Rand, d string) string {
	title := pick(r, []string{"", "", "", ` "t"`, ` 't'`, ` (t)`})
	var s string
	switch r.Intn(6) {
	case 0:
		s = "[" + pick(r, []string{"foo", "a b", "1"}) + "]:" + strings.Repeat(" ", r.Intn(2)) + d + title
		if r.Intn(3) == 0 {
			s += "\n\n[foo]"
		}
		return s
	case 1:
		s = "![" + pick(r, texts) + "](" + d + title + ")"
	default:
		s = "[" + pick(r, texts) + "](" + strings.Repeat(" ", r.Intn(2)) + d + title + ")"
	}
	switch r.Intn(5) {
	case 0:
		s = "See " + s + " and " + simpleLink(r) + "."
	case 1:
		s = "- " + s
	case 2:
		s = "# " + s
	}
	return s
}

// two to four lines of which one may depend on its neighbours
func genLines(r *proto.Rand) string {
	pool := []string{
		"a", "text.", "plain )", "]", "# h", "", "", "- item", "> q", "<b>x", "<div>", "</div>", "***", "    code", "~~~", "```",
		"`", "`` x", "a ` b", "[a]:", "[a]:a", "[a b]:a", " [foo]: b.html", "[foo]:<x y>", "[a]: a 't'", "[a]:>",
		"[](* \"", "[](x '", "[t](u (", "[t](<", "[", "[a", "![",
		"[](`)", "[](\")", "[](')", "[](a)", "[x](b.html) y", "[[a b]](>)", "[a][foo]", "[foo]", "](a)", "x](a)", "`)", "\")", "')", "t')", "a>)",
	}
	n := 2 + r.Intn(3)
	var ls []string
	for i := 0; i < n; i++ {
		ls = append(ls, pick(r, pool))
	}
	if r.Intn(3) == 0 {
		ls[len(ls)-1] = simpleLink(r)
	}
	if r.Intn(3) == 0 {
		ls[len(ls)-1] = "[" + pick(r, []string{"a", "foo", "a b"}) + "]:" + sd(r)
	}
	return strings.Join(ls, "\n")
}

// what goldmark reads as an HTML block, with link syntax in it
func genHTMLBlock(r *proto.Rand) string {
	starts := []string{"<div ", "<div", "<div>", "</a>", "</div>", "<dd ", "<p>", "</p>", "<table", "<script>", "<script></script>", "<style>x</style>", "<pre>", "</pre>",
		"<!---->", "<!-- c -->", "<!-- c", "<?php ?>", "<?x", "<!DOCTYPE html>", "<![CDATA[x]]>", "<span>", "</span>", "<a href=\"u\">", "<b>", "<br>", "<br/>", "<hr />", "<img src=\"s\">", "<div a=\"", "<div>x</div>", "<p></p>"}
	var b strings.Builder
	b.WriteString(strings.Repeat(" ", r.Intn(2)))
	b.WriteString(pick(r, starts))
	switch r.Intn(4) {
	case 0:
		b.WriteString("\n")
	case 1:
		b.WriteString(" x ")
	}
	link := simpleLink(r)
	if r.Intn(4) == 0 {
		link = "[foo]: " + sd(r)
	}
	b.WriteString(link)
	b.WriteString(pick(r, []string{"", "", "\n", "</div>", "\n</div>", " -->", "\n-->", "</script>", "\n\n" + simpleLink(r), "\n" + simpleLink(r), "\">"}))
	return b.String()
}

// one line: inline HTML that begins while a bracket is open (or not)
func genBracketHTML(r *proto.Rand) string {
	toks := []string{"[", "[", "]", "a", " ", "<!--", "-->", "<b>", "</b>", "<a href=\"", "\">", "<span ", ">", "<?", "?>", "<!X", "](a)", "](b.html)", "](\")", "[](a)", "x"}
	if r.Intn(4) != 0 {
		return pick(r, []string{"[", "[", "[a ", "x [", "", "[[", "[] ", "\\[", "[x](y) [", "`[` ["}) + pick(r, []string{"<!--", "<!-- ", "<a href=\"", "<span title='", "<?", "<!D ", "<b ", "<b>", "<i x=\"", "</b "}) +
			pick(r, []string{"", "x", " "}) + "](" + sd(r) + pick(r, []string{")", ")", " \"t\")"}) + pick(r, []string{"-->", "-->", "\">", "'>", "?>", ">", "", "</b>", " -->x"})
	}
	return soup(r, toks, 3, 7)
}

// list items and block quotes with code blocks and definitions in them
func genContainer(r *proto.Rand) string {
	marker := pick(r, []string{"- ", "-", "* ", "1. ", "> ", ">", "10. ", "+ "})
	inner := pick(r, []string{"", " ", "    ", "     ", "\t", "      ", "   "})
	body := simpleLink(r)
	if r.Intn(4) == 0 {
		body = "[foo]:" + sd(r)
	}
	switch r.Intn(8) {
	case 5, 6: // a fenced block that begins in a container; the container may end before the block does
		return genFenceDocAt(r, r.Intn(3))
	case 7: // a quoted line indented like code after a quoted paragraph line (which it continues) or not
		q := pick(r, []string{">", "> ", ">", " >"})
		first := q + pick(r, []string{"`", "a `", "a", "text", "``", "", "# h", "- i", "`c`", "[x"})
		second := pick(r, []string{q, q, q, "", "  "}) + pick(r, []string{"    ", "     ", "\t", "      ", "   "}) + body + pick(r, []string{"", "`", "`", " x", "``"})
		if r.Intn(4) == 0 {
			return first + "\n" + q + "\n" + second
		}
		return first + "\n" + second
	case 0:
		return marker + inner + body
	case 1:
		return marker + "a\n\n" + strings.Repeat(" ", r.Intn(9)) + body
	case 2:
		return marker + pick(r, []string{"~~~", "```", "~~~~"}) + "\n" + strings.Repeat(" ", r.Intn(4)) + pick(r, []string{"", "> ", ">"}) + body + pick(r, []string{"", "\n~~~", "\n  ~~~"})
	case 3:
		return marker + "a\n" + pick(r, []string{"", "> ", "  ", "      "}) + body
	default:
		return marker + inner + body + "\n" + marker + inner + simpleLink(r)
	}
}

// one line with tags and backticks
func genCodeSpanHTML(r *proto.Rand) string {
	toks := []string{"<span>", "</span>", "<span", ">", "<b>", "</b>", "</a", "`", "`", "``", "a", " ", "[](`)", "[`a`](a)", "[](a)", "[x](b.html)", "[", "]", "<!--", "-->"}
	if r.Intn(4) == 0 {
		return soup(r, toks, 3, 8)
	}
	name := pick(r, []string{"span", "b", "a", "i"})
	tick := pick(r, []string{"`", "`", "`", "``"})
	var html string
	switch r.Intn(7) {
	case 0:
		html = "<" + name + tick + "></" + name + ">"
	case 1:
		html = "</" + name + tick + ">"
	case 2:
		html = "<" + name + " title=\"" + tick + "\">" + pick(r, []string{"", "</" + name + ">"})
	case 3:
		html = "<!--" + tick + "-->"
	case 4:
		html = tick + "<" + name + ">" + tick
	case 5:
		html = "<" + name + ">" + tick + " " + tick + "</" + name + ">"
	default:
		html = "<" + name + ">" + pick(r, []string{"", "x"}) + tick + pick(r, []string{"", "y"}) + "</" + name + ">"
	}
	d := sd(r)
	link := pick(r, []string{"[](" + tick + ")", "[" + tick + "a" + tick + "](" + d + ")", "[" + tick + "a" + tick + "](" + d + ")", "[](" + d + ")", "[x](" + d + ")" + tick, " " + tick + " [](" + d + ")", "[](" + d + tick + ")", "[" + tick + "](" + d + ")"})
	return pick(r, []string{"", "", "x "}) + html + link + pick(r, []string{"", "", tick, "</" + name + ">", " x"})
}

// one line: code spans with backtick strings of other lengths inside, links inside and after
// (made for the class of the cured finding ld-code-span-closed-inside-longer-run; since fix
// 8b404d9 a stream of lines for the model of scanInlineLinks, main.go (7))
func genLooseTicks(r *proto.Rand) string {
	n := 1 + r.Intn(3)
	m := n + 1 + r.Intn(2)
	switch r.Intn(6) {
	case 0:
		m = n // an exact string: the code span simply ends
	case 1:
		if n > 1 {
			m = n - 1 // a shorter string: inert
		}
	}
	link := "[" + pick(r, []string{"", "x", "t t"}) + "](" + sd(r) + ")"
	inner := pick(r, []string{"", " ", "a", "a ", "\\", "[", link + " "}) + ticksN(m) + pick(r, []string{"", " ", "b", link, " " + link, "\\" + link, "[x", "](" + sd(r) + ")"})
	s := ticksN(n) + inner + pick(r, []string{ticksN(n), ticksN(n), "", ticksN(n) + " " + link, ticksN(m), "</a>" + link + ticksN(n), "<!>" + link, "<br>" + link + ticksN(n), " <b>" + link})
	switch r.Intn(5) {
	case 0:
		s = filler(r) + s
	case 1:
		s = s + filler(r)
	case 2:
		s = link + " " + s
	case 3:
		s = "\\" + s
	}
	return s
}

// parenthesised titles
func genParenTitle(r *proto.Rand) string {
	d := sd(r)
	title := "(" + soup(r, []string{"(", "(", ")", "\\(", "\\)", "t", " ", "a"}, 0, 4) + pick(r, []string{")", ")", ""})
	switch r.Intn(4) {
	case 0:
		return strings.Repeat(" ", r.Intn(4)) + "[" + pick(r, []string{"a", "a b", "foo", "\\]", "x\\]", "\\[a", "a\\\\", " ", "[a]"}) + "]:" + strings.Repeat(" ", r.Intn(2)) + d + pick(r, []string{" ", "  ", ""}) + title + pick(r, []string{"", " ", " x"})
	case 1:
		return pick(r, []string{"", "x ", "`", "<b>"}) + "[" + pick(r, []string{"", "t"}) + "](" + d + pick(r, []string{" ", " ", ""}) + title + pick(r, []string{")", ")", " )", ""}) + pick(r, []string{"", " y", ")"})
	default:
		return "[" + pick(r, []string{"", "t"}) + "](" + d + " " + title + ")"
	}
}

// one line of brackets, parentheses, empty angle destinations and quotes
func genEmptyAngle(r *proto.Rand) string {
	if r.Intn(2) == 0 { // around the cause: an enclosing bracket, a link with `<>`, the closing `](dest)`
		return filler(r) + pick(r, []string{"[", "[", "[", "![", "\\["}) + filler(r) + "[" + filler(r) + "](" + pick(r, []string{"<>", "<>", "<> ", " <>", "<>\"", "<> \"t\"", "< >", "<a>"}) + pick(r, []string{")", ")", ""}) +
			filler(r) + "](" + sd(r) + pick(r, []string{")", ")", " \"t\")", "\")"}) + filler(r)
	}
	switch r.Intn(4) {
	case 0, 1: // link syntax around a link
		in := pick(r, []string{"[](<>)", "[b](<>)", "[](< >)", "[](<>\"", "[](<> \"t\")", "[](<>)", "[b]( <>)", "[b](c)", "[](c)", "![](c)", "![b](<>)", "[]()", "[b]( )", "[b]", "[b][]", "\\[b](c)", "[](<a>)"})
		return pick(r, []string{"[", "[a ", "![", "x [", "[[", "", "[", "\\["}) + in + pick(r, []string{"", "", " d", "[](e)", " [f](g) ", "]"}) + "](" + sd(r) + pick(r, []string{"", "", " \"t\""}) + ")"
	case 2: // link syntax in the title of a link with an empty angle destination
		return "[" + pick(r, texts) + "](" + pick(r, []string{"<>", "<>", "<> ", "< >", "<a>", "a"}) + pick(r, []string{"\"", " \"", "'", ""}) + pick(r, []string{"[](", "](", "[t](", "x"}) + sd(r) + pick(r, []string{")", "\")", "')"})
	}
	toks := []string{"[", "[", "]", "](", "(", ")", "<>", "<>", "![", "\"", "'", " ", "a", "a", "](a)", "[](<>)", "[]()", "![]()", "\\[", "\\]", ">", "`"}
	return soup(r, toks, 3, 9)
}

// one line: an image (or a link) inside link text, link syntax in the outer destination or title
func genImageInLink(r *proto.Rand) string {
	if r.Intn(2) == 0 { // around the cause: link text (or image description) with an image (or link), then link syntax in the rest
		return filler(r) + pick(r, []string{"[", "[", "![", "[["}) + filler(r) + pick(r, []string{"![", "![", "["}) + pick(r, []string{"", "i"}) + "](" + pick(r, []string{"", "j", "<j>", "j \"t\""}) + ")" + filler(r) + "](" +
			pick(r, []string{"a \"", "a '", "a \"x ", "", "/", "<x> \""}) + pick(r, []string{"[](", "[t](", "[`c`]("}) + sd(r) + pick(r, []string{"\")", "')", ")", " )", "\" )"})
	}
	inner := pick(r, []string{"![]()", "![i](j)", "![i](j)", "![](j \"t\")", "![i](<j>)", "![i](<>)", "![i]", "[i](j)", "[]()", "![[k]](j)", "![i][]", "\\![i](j)"})
	rest := pick(r, []string{"a", "/", "a \"", "a '", "a \"x", "a 'x ", "[](>", "<x>", "a (", "x.html \""}) + pick(r, []string{"", "[](", "[](", "[t](", "](", " [](", "[[]("}) + sd(r) + pick(r, []string{")", "\")", "')", " )", " \"\")", "", "\" )"})
	return pick(r, []string{"", "", "x ", "[", "`", "!", "!", "</a>", "<b>x</b> "}) + "[" + pick(r, []string{"", "a "}) + inner + pick(r, []string{"", " b"}) + "](" + rest
}

// inline elements around links whose titles hold closing tags
func genTagTitle(r *proto.Rand) string {
	names := []string{"span", "b", "i", "a", "em", "q"}
	name := pick(r, names)
	open := "<" + name + pick(r, []string{">", ">", " x>", " href=\"u\">", "[>", " >", ">x", "> y "})
	cl := "</" + name + ">"
	switch r.Intn(8) {
	case 0:
		open = pick(r, []string{"", "<br>", "<" + name + ">x</" + name + ">", "<" + name, "<!--", "<" + name + "/>", "x"})
	case 1:
		cl = pick(r, []string{"</" + pick(r, names) + ">", "", "-->", "<" + name + ">", "</" + name, "</" + name + "> x"})
	}
	q := pick(r, []string{"\"", "\"", "'"})
	title := pick(r, []string{" ", " ", "  ", ""}) + q + pick(r, []string{"", "x", "x "}) + cl
	if r.Intn(8) == 0 {
		title = pick(r, []string{" (" + cl, cl, " " + cl})
	}
	link := "[" + pick(r, []string{"", "t", ">"}) + "](" + pick(r, []string{"a", "-", "x.html", "/r"}) + title
	tail := pick(r, []string{"[](", "[](", "[t](", "](", " [](", "x", "`[](", "[[]("}) + sd(r) + pick(r, []string{q + ")", q + ")", ")", "))", "", " " + q + ")"})
	if r.Intn(6) == 0 {
		return open + simpleLink(r) + cl + simpleLink(r)
	}
	return open + link + tail
}
