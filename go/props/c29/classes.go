package main

import (
	"fmt"
	"os"
	"regexp"
	"sort"
	"strconv"
	"strings"
	"unicode/utf8"

	gast "github.com/yuin/goldmark/ast"
	gtext "github.com/yuin/goldmark/text"
	gutil "github.com/yuin/goldmark/util"

	"verifharness/internal/hx"
	"verifharness/internal/proto"
)

// Known-finding classes of C29 (see /verif/fixes/FINDING-CLASSES.md).
//
// PRINCIPLE. A finding class may only cover documents that ALREADY FAIL on the unchanged tree.
// A class is therefore not a description of how a failing document looks, but a PREDICTION,
// made from the document and goldmark alone (never from what the code under test did), of
// bytes that today's scanner rewrites wrongly: `predict(doc)` returns the spans the class says
// are rewritten although they are not a link destination for goldmark (classes of kind
// "rewrote:…"), or the destination spans it says are rewritten to the wrong text (kind
// "value:…" / "structure-after-rewrite"). Three things tie a class to the unchanged tree:
//
//  1. classification: a shrunk failing document is attributed to a class only when the span the
//     real code got wrong (the first rewritten span that is not a goldmark destination; or the
//     destination whose new value is wrong) IS one of the predicted spans, and the kind of
//     effect (where that span lies for goldmark: text, code span, code block, HTML block, raw
//     HTML, link syntax; or wrong value; or structure broken by the written text) is one the
//     class names;
//  2. precision self-test, on every run: 250 generated documents for which the
//     class predicts something are run on the real code; the share in which the real code
//     really does what was predicted (and the oracle fails) must be >= 95 % ON THE UNCHANGED
//     TREE. It is measured and recorded on every run (histogram class-precision/<id>/…, and a
//     note when it is low); it is ENFORCED at authoring time only: with VERIF_C29_STRICT=1 a
//     low precision is the broken tie "finding-class-too-broad: <id>". A normal check never
//     fires because of it: a change that cures a finding lowers that class's precision, and a
//     check may only report violations of the property. A class whose recorded witness no
//     longer fails is inactive for the run (classOff): not printed, not tested, never used;
//  3. the recorded minimal witness of the class must still fail and fall into its own class;
//  4. shrinking keeps the attribution (shrinkDoc): the original failing document is explained
//     first, and a shrinking step is taken only if the candidate is explained by the same class
//     (or by none, like the original) — the witness of a regression must not shrink into a
//     smaller document that fails today as well. The predictions therefore have to hold for
//     whole generated documents, which is why the scanner's line-level state (scanModel) is
//     part of them and why the self-test also draws its documents inside larger ones.
//
// The classes (findingDefs; `what` and the exact minimal document are in known_findings.json):
// md-unescape-nbsp, ld-escapable-set-incomplete, ld-character-reference-in-destination (right
// span, wrong value); ld-rewritten-url-unbalanced-paren (structure broken by the written text);
// ld-line-by-line-scanner, ld-html-block-not-recognised, ld-inline-html-inside-brackets,
// ld-code-in-container-block, ld-code-span-over-inline-html, ld-paren-title-with-paren,
// ld-empty-angle-destination, ld-image-in-link, ld-closing-tag-inside-link-title (a span that
// is not a destination is rewritten). The last three replace the former `ld-nested-link-syntax`
// ("`[[` or `](` twice on a line"), which also covered well-formed nested links — handled
// correctly today — and so silenced the regression seeded/C29-linkstack-not-cleared.
//
// A regression makes documents fail that pass today; for such a document a class predicts
// nothing (otherwise it would fail today, up to the measured precision), so it is a VIOLATION.

type span struct{ s, e int }

const marker = "zq7x"

var parseMemo = map[string]*docView{}

// parsed: goldmark's view of doc; nil when goldmark cannot judge (invalid UTF-8, NUL, panic)
func parsed(doc string) *docView {
	if v, ok := parseMemo[doc]; ok {
		return v
	}
	var v *docView
	if utf8.ValidString(doc) && !strings.Contains(doc, "\x00") {
		if d, err := parseDoc(doc); err == nil {
			v = &d
		}
	}
	if len(parseMemo) > 200000 {
		parseMemo = map[string]*docView{}
	}
	parseMemo[doc] = v
	return v
}

// isDestSpan: is doc[s:e] exactly a link destination for goldmark? Decided with the oracle's
// own comparison: writing an innocuous word in its place changes nothing in goldmark's
// tree but destinations, all from doc[s:e] to that word.
func isDestSpan(doc string, s, e int) bool {
	if s < 0 || e <= s || e > len(doc) || strings.Contains(doc, marker) {
		return false
	}
	a, b := parsed(doc), parsed(doc[:s]+marker+doc[e:])
	if a == nil || b == nil {
		return false
	}
	diff, pairs := sameExceptDestinations(*a, *b)
	if diff != "" || len(pairs) == 0 {
		return false
	}
	for _, p := range pairs {
		if p.before != doc[s:e] || p.after != marker {
			return false
		}
	}
	return true
}

// isInertSpan: writing another word for doc[s:e] changes nothing at all for goldmark (the
// destination of a definition whose label is already taken)
func isInertSpan(doc string, s, e int) bool {
	if s < 0 || e <= s || e > len(doc) || strings.Contains(doc, marker) {
		return false
	}
	a, b := parsed(doc), parsed(doc[:s]+marker+doc[e:])
	if a == nil || b == nil {
		return false
	}
	diff, pairs := sameExceptDestinations(*a, *b)
	return diff == "" && len(pairs) == 0
}

type place struct {
	role      string // destination, text, code-span, code-block, html-block, raw-html, link-syntax
	start     int    // start of the positioned node that holds the span (raw-html, code-span)
	container bool   // the node lies in a list item or block quote
}

// locate: where doc[s:e] lies for goldmark. Nodes with source positions decide; bytes held by
// none of them are link syntax (a title, a label, part of a destination, delimiters).
func locate(doc string, s, e int) place {
	if isDestSpan(doc, s, e) {
		return place{role: "destination"}
	}
	v := parsed(doc)
	if v == nil {
		return place{role: "unknown"}
	}
	rank := map[string]int{"link-syntax": 0, "text": 1, "code-span": 2, "raw-html": 3, "html-block": 4, "code-block": 4}
	pl := place{role: "link-syntax"}
	hit := func(seg gtext.Segment) bool { return seg.Start < e && s < seg.Stop }
	set := func(role string, start int, n gast.Node) {
		if rank[role] < rank[pl.role] || (rank[role] == rank[pl.role] && pl.role != "link-syntax") {
			return
		}
		pl = place{role: role, start: start}
		for p := n.Parent(); p != nil; p = p.Parent() {
			if k := p.Kind(); k == gast.KindListItem || k == gast.KindBlockquote {
				pl.container = true
			}
		}
	}
	lines := func(n gast.Node, role string) {
		if ls := n.Lines(); ls != nil {
			for i := 0; i < ls.Len(); i++ {
				if hit(ls.At(i)) {
					set(role, ls.At(0).Start, n)
				}
			}
		}
	}
	gast.Walk(v.doc, func(n gast.Node, entering bool) (gast.WalkStatus, error) {
		if !entering {
			return gast.WalkContinue, nil
		}
		switch x := n.(type) {
		case *gast.FencedCodeBlock:
			lines(x, "code-block")
			if x.Info != nil && hit(x.Info.Segment) {
				set("code-block", x.Info.Segment.Start, x)
			}
		case *gast.CodeBlock:
			lines(x, "code-block")
		case *gast.HTMLBlock:
			lines(x, "html-block")
			if x.HasClosure() && hit(x.ClosureLine) {
				set("html-block", x.ClosureLine.Start, x)
			}
		case *gast.RawHTML:
			for i := 0; i < x.Segments.Len(); i++ {
				if hit(x.Segments.At(i)) {
					set("raw-html", x.Segments.At(0).Start, x)
				}
			}
		case *gast.AutoLink:
			// an autolink has no positions of its own: it is the text `<label>` in the source
			lab := "<" + string(x.Label(v.src)) + ">"
			for from := 0; ; {
				i := strings.Index(doc[from:], lab)
				if i < 0 {
					break
				}
				if st := from + i; st < e && s < st+len(lab) {
					set("raw-html", st, x)
				}
				from += i + 1
			}
		case *gast.Text:
			if hit(x.Segment) {
				if p := x.Parent(); p != nil && p.Kind() == gast.KindCodeSpan {
					set("code-span", x.Segment.Start, x)
				} else {
					set("text", x.Segment.Start, x)
				}
			}
		}
		return gast.WalkContinue, nil
	})
	return pl
}

// rewritable: a destination the documented rule rewrites (relative, with a host or a path)
func rewritable(raw string) bool {
	_, ok := resolved(meaning(raw))
	return ok
}

// ---------------------------------------------------------------- candidates

// A candidate is a span that a context-free reading takes for a destination: what follows a
// `](` when CommonMark reads `[x](…` from there, or the destination of a line that is a
// reference definition when it stands alone. Candidates are found with goldmark only.
type cand struct {
	span
	raw    string
	def    bool   // from a definition line
	line   string // the line that holds it
	ls     int    // offset of that line in the document
	ln     int    // its number
	open   bool   // an unescaped `[` outside code spans is open before the `](` on that line
	anchor int    // where the `]` of the `](` (of the `]:`) is, in the document
	lb     int    // where that `[` is, in the document (the start of the line's label for a definition)
	nested bool   // a `](` lies between that `[` and the anchor (the scanner may have ended a link there)
	dup    bool   // a definition line that is still a definition in the document (its label is taken)
	alone  bool   // a destination for goldmark when the line stands alone
	whole  bool   // a destination for goldmark in the document
	at     place  // where it lies for goldmark in the document
}

type docInfo struct {
	doc     string
	cands   []cand
	skipped []bool   // per byte: the state machine below does not read Markdown there (HTML, code block)
	kinds   []string // per line: fence, indented, def, inline
}

var infoMemo = map[string]*docInfo{}

func locateRaw(line string, q int, raw string) (span, bool) {
	for q < len(line) && (line[q] == ' ' || line[q] == '\t') {
		q++
	}
	if q < len(line) && line[q] == '<' && strings.HasPrefix(line[q+1:], raw+">") {
		return span{q + 1, q + 1 + len(raw)}, raw != ""
	}
	if strings.HasPrefix(line[q:], raw) {
		return span{q, q + len(raw)}, raw != ""
	}
	return span{}, false
}

func anchorDest(line string, p int) (span, string, bool) {
	v := parsed("[x" + line[p:])
	if v == nil {
		return span{}, "", false
	}
	para := v.doc.FirstChild()
	if para == nil || para.Kind() != gast.KindParagraph {
		return span{}, "", false
	}
	l, ok := para.FirstChild().(*gast.Link)
	if !ok || l.ChildCount() != 1 {
		return span{}, "", false
	}
	if t, ok := l.FirstChild().(*gast.Text); !ok || string(t.Segment.Value(v.src)) != "x" {
		return span{}, "", false
	}
	raw := string(l.Destination)
	sp, ok := locateRaw(line, p+2, raw)
	return sp, raw, ok
}

func analyse(doc string) *docInfo {
	if in, ok := infoMemo[doc]; ok {
		return in
	}
	in := &docInfo{doc: doc}
	if len(infoMemo) > 100000 {
		infoMemo = map[string]*docInfo{}
	}
	infoMemo[doc] = in
	if len(doc) > 2000 || parsed(doc) == nil {
		return in
	}
	in.skipped, in.kinds = scanModel(doc)
	ls := 0
	for ln, line := range strings.Split(doc, "\n") {
		add := func(sp span, raw string, def bool, lb, anchor int) *cand {
			c := cand{span: span{ls + sp.s, ls + sp.e}, raw: raw, def: def, line: line, ls: ls, ln: ln, open: lb >= 0, lb: ls + lb, anchor: ls + anchor}
			if c.open {
				// a `](` since the open bracket that reads as the end of a link
				esc := escapedBytes(line)
				for q := lb + 1; q+1 < anchor; q++ {
					if line[q] == ']' && line[q+1] == '(' && !esc[q] {
						if _, _, ok := anchorDest(line, q); ok || strings.HasPrefix(line[q:], "]()") {
							c.nested = true
						}
					}
				}
			}
			c.alone = isDestSpan(line, sp.s, sp.e)
			c.at = locate(doc, c.s, c.e)
			c.whole = c.at.role == "destination"
			in.cands = append(in.cands, c)
			return &in.cands[len(in.cands)-1]
		}
		// a definition for a reader of single lines: up to three spaces, `[`
		if v := parsed(line); v != nil && len(v.refs) > 0 && reDefStart.MatchString(line) {
			if i := strings.Index(line, "]:"); i >= 0 {
				raw := string(v.refs[0].Destination())
				if sp, ok := locateRaw(line, i+2, raw); ok {
					c := add(sp, raw, true, strings.Index(line, "["), i)
					// still a definition in the document, only not the first of its label?
					if w, x := parsed(doc), parsed(doc[:c.lb+1]+marker+doc[c.anchor:]); !c.whole && w != nil && x != nil && len(x.refs) == len(w.refs)+1 {
						c.dup = true
					}
				}
			}
		}
		esc := escapedBytes(line)
		for p := 0; p+1 < len(line); p++ {
			if line[p] == ']' && line[p+1] == '(' && !esc[p] {
				if sp, raw, ok := anchorDest(line, p); ok {
					// the reader resumes after what it skipped as HTML: brackets and code spans count from there
					q := p
					for q > 0 && !in.skippedAt(ls+q-1) {
						q--
					}
					lb := openBracket(line[q:p])
					if lb >= 0 {
						lb += q
					}
					add(sp, raw, false, lb, p)
				}
			}
		}
		ls += len(line) + 1
	}
	return in
}

var reDefStart = regexp.MustCompile(`^ {0,3}\[`)

// plain: a candidate that a reader of single lines with the state machine below reaches as
// the destination of a link (or definition) of its own: its line is read as a definition (for a
// definition) or as inline text, a bracket is open for it, no `](` since that bracket, and
// nothing from that bracket on is skipped as HTML
func (in *docInfo) plain(c cand) bool {
	if c.ln >= len(in.kinds) || !c.open || c.nested || in.anySkipped(c.lb, c.e) {
		return false
	}
	if c.def {
		return in.kinds[c.ln] == "def"
	}
	return in.kinds[c.ln] == "inline"
}

// openBracket: the position of the innermost `[` still open at the end of prefix for a reader
// that skips backslash escapes and code spans (a backtick string of n up to the next backtick
// string of exactly n, or to the end of the line — strings of another length are content: the
// rule of scanInlineLinks since fix 8b404d9, CommonMark's) and pairs brackets; -1 when none is
// open
func openBracket(prefix string) int {
	return openBracketRule(prefix)
}

func openBracketRule(prefix string) (lb int) {
	var stack []int
	for i := 0; i < len(prefix); i++ {
		switch prefix[i] {
		case '\\':
			if i+1 < len(prefix) && isPunctByte(prefix[i+1]) {
				i++
			}
		case '`':
			n := 0
			for i+n < len(prefix) && prefix[i+n] == '`' {
				n++
			}
			j := i + n
			closed := false
			for j < len(prefix) {
				if prefix[j] != '`' {
					j++
					continue
				}
				m := 0
				for j+m < len(prefix) && prefix[j+m] == '`' {
					m++
				}
				j += m
				if m == n { // only a string of exactly n closes
					closed = true
					break
				}
			}
			if !closed {
				return -1 // the rest of the line is inside the code span
			}
			i = j - 1
		case '[':
			stack = append(stack, i)
		case ']':
			if len(stack) > 0 {
				stack = stack[:len(stack)-1]
				// the brackets stay, but the destination and title of a link that ends here are not
				// read as text (a backtick or a bracket in them opens nothing)
				if sp, _, ok := anchorDest(prefix, i); ok {
					i = linkEndAfterDest(prefix, sp.e) - 1
				}
			}
		}
	}
	if len(stack) == 0 {
		return -1
	}
	return stack[len(stack)-1]
}

// linkEndAfterDest: where a reader that has taken line[..destEnd] for the destination of an
// inline link goes on: after the `>` of an angle destination, an optional title in quotes or
// parentheses (backslash escapes skipped) and the closing `)`; destEnd itself when that is not
// what follows
func linkEndAfterDest(line string, destEnd int) int {
	i := destEnd
	if i < len(line) && line[i] == '>' {
		i++
	}
	skip := func() {
		for i < len(line) && (line[i] == ' ' || line[i] == '\t') {
			i++
		}
	}
	skip()
	if i < len(line) && line[i] == ')' {
		return i + 1
	}
	if i >= len(line) || !(line[i] == '"' || line[i] == '\'' || line[i] == '(') {
		return destEnd
	}
	closer := line[i]
	if closer == '(' {
		closer = ')'
	}
	for i++; i < len(line); i++ {
		if line[i] == '\\' && i+1 < len(line) && isPunctByte(line[i+1]) {
			i++
			continue
		}
		if line[i] == closer {
			i++
			skip()
			if i < len(line) && line[i] == ')' {
				return i + 1
			}
			return destEnd
		}
	}
	return destEnd
}

// escapedBytes: per byte of line, whether a backslash escapes it
func escapedBytes(line string) []bool {
	esc := make([]bool, len(line))
	for i := 0; i+1 < len(line); i++ {
		if line[i] == '\\' && isPunctByte(line[i+1]) {
			esc[i+1] = true
			i++
		}
	}
	return esc
}

func isPunctByte(c byte) bool {
	return c >= '!' && c <= '/' || c >= ':' && c <= '@' || c >= '[' && c <= '`' || c >= '{' && c <= '~'
}

// bracketDepth: unescaped `[` still open at the end of prefix
func bracketDepth(prefix string) int {
	d := 0
	for i := 0; i < len(prefix); i++ {
		switch prefix[i] {
		case '\\':
			i++
		case '[':
			d++
		case ']':
			if d > 0 {
				d--
			}
		}
	}
	return d
}

// ---------------------------------------------------------------- the scanner's HTML state, as a cause

var voidTags = map[string]bool{"area": true, "base": true, "br": true, "col": true, "embed": true, "hr": true, "img": true, "input": true, "link": true, "meta": true, "param": true, "source": true, "track": true, "wbr": true}
var rawTextTags = map[string]bool{"script": true, "style": true, "textarea": true}

func isAlpha(c byte) bool { return c >= 'a' && c <= 'z' || c >= 'A' && c <= 'Z' }

// looseTag: `<name … >` / `</name … >` on one line, quotes respected, nothing else checked —
// the notion of a tag of a scanner that keeps a stack of open tags (CommonMark's is stricter)
func looseTag(line string, pos int) (name string, end int, closing, selfClosing, ok bool) {
	i := pos + 1
	if i < len(line) && line[i] == '/' {
		closing = true
		i++
	}
	if i >= len(line) || !isAlpha(line[i]) {
		return "", 0, false, false, false
	}
	st := i
	for i < len(line) && (isAlpha(line[i]) || line[i] >= '0' && line[i] <= '9' || line[i] == '-') {
		i++
	}
	name = strings.ToLower(line[st:i])
	for i < len(line) && line[i] != '>' {
		if q := line[i]; q == '"' || q == '\'' {
			j := strings.IndexByte(line[i+1:], q)
			if j < 0 {
				return "", 0, false, false, false
			}
			i += j + 2
			continue
		}
		i++
	}
	if i >= len(line) {
		return "", 0, false, false, false
	}
	if !closing {
		selfClosing = voidTags[name] || strings.HasSuffix(strings.TrimRight(line[pos+1:i], " \t"), "/")
	}
	return name, i + 1, closing, selfClosing, true
}

func indentWidth(line string) int {
	w := 0
	for _, ch := range line {
		if ch == ' ' {
			w++
		} else if ch == '\t' {
			w += 4 - w%4
		} else {
			break
		}
	}
	return w
}

func fenceRun(line string) (byte, int, string) {
	t := strings.TrimLeft(line, " \t")
	if t == "" || t[0] != '`' && t[0] != '~' {
		return 0, 0, ""
	}
	n := 0
	for n < len(t) && t[n] == t[0] {
		n++
	}
	return t[0], n, t[n:]
}

// defLine: a reference definition for a reader of single lines: what goldmark takes for one
// when the line stands alone, or the same with a parenthesised title that holds a `(`
func defLine(line string) bool {
	if !reDefStart.MatchString(line) {
		return false
	}
	if reParenTitleDef.MatchString(line) {
		return true
	}
	v := parsed(line)
	if v == nil || len(v.refs) == 0 {
		return false
	}
	texts := 0
	gast.Walk(v.doc, func(n gast.Node, entering bool) (gast.WalkStatus, error) {
		if _, ok := n.(*gast.Text); ok && entering {
			texts++
		}
		return gast.WalkContinue, nil
	})
	return texts == 0
}

// scanModel: the state of a scanner as the findings describe it, line by line. Outside HTML a
// line that opens a fence (up to three columns of indentation, three or more backticks or
// tildes, no backtick after backticks) starts a code block that ends at a line with a run at
// least as long and nothing else; a line indented four columns or more is code; a line that
// alone is a reference definition is read as one; every other line is inline text, in which
// HTML is tracked: the bytes a scanner with the HTML state described in the findings (a stack of
// complete open tags carried from line to line; comments, declarations, processing
// instructions, CDATA up to their closer; raw text elements up to their closing tag) takes for
// HTML. HTML is looked for only while no `[` is open (brackets are counted outside HTML and
// code spans, backslash escapes skipped, all brackets forgotten after a `](destination`); a
// backtick string of n outside HTML opens a code span up to the next backtick string of exactly
// n, or the end of the line; code blocks are ignored here. This is a statement of the
// CAUSE of several classes; whether it predicts the real code is measured by the precision
// self-test, it is never taken on trust.
func scanModel(doc string) ([]bool, []string) {
	sk := make([]bool, len(doc)+1)
	var kinds []string
	var stack []string
	rawTag, rawCloser := "", ""
	var fenceChar byte
	fenceLen := 0
	ls := 0
	for _, line := range strings.Split(doc, "\n") {
		mark := func(a, b int) {
			for k := a; k < b && ls+k < len(sk); k++ {
				sk[ls+k] = true
			}
		}
		inHTML := len(stack) > 0 || rawTag != "" || rawCloser != ""
		kind := "inline"
		switch ch, n, rest := fenceRun(line); {
		case fenceLen > 0:
			kind = "fence"
			if indentWidth(line) <= 3 && ch == fenceChar && n >= fenceLen && strings.TrimSpace(rest) == "" {
				fenceLen = 0
			}
		case inHTML:
		case indentWidth(line) <= 3 && n >= 3 && !(ch == '`' && strings.Contains(rest, "`")):
			kind, fenceChar, fenceLen = "fence", ch, n
		case indentWidth(line) >= 4 && strings.TrimSpace(line) != "":
			kind = "indented"
		case defLine(line):
			kind = "def"
		}
		kinds = append(kinds, kind)
		if kind != "inline" {
			if kind != "def" {
				mark(0, len(line)+1)
			}
			ls += len(line) + 1
			continue
		}
		depth := 0
		for i := 0; i < len(line); {
			if rawCloser != "" {
				j := strings.Index(line[i:], rawCloser)
				if j < 0 {
					mark(i, len(line))
					break
				}
				mark(i, i+j+len(rawCloser))
				i += j + len(rawCloser)
				rawCloser = ""
				continue
			}
			if rawTag != "" {
				if line[i] == '<' {
					if name, end, closing, _, ok := looseTag(line, i); ok && closing && name == rawTag {
						mark(i, end)
						stack, rawTag = popTag(stack, name), ""
						i = end
						continue
					}
				}
				mark(i, i+1)
				i++
				continue
			}
			if depth == 0 && line[i] == '<' {
				rest := line[i:]
				closer, skip := "", 0
				switch {
				case strings.HasPrefix(rest, "<!--"):
					closer, skip = "-->", 4
				case strings.HasPrefix(rest, "<![CDATA[") && len(rest) > 9:
					closer, skip = "]]>", 9
				case strings.HasPrefix(rest, "<?"):
					closer, skip = "?>", 2
				case strings.HasPrefix(rest, "<!"):
					closer, skip = ">", 2
				}
				if closer != "" {
					j := strings.Index(line[i+skip:], closer)
					if j < 0 {
						mark(i, len(line))
						rawCloser = closer
						break
					}
					mark(i, i+skip+j+len(closer))
					i += skip + j + len(closer)
					continue
				}
				if name, end, closing, selfClosing, ok := looseTag(line, i); ok {
					mark(i, end)
					if closing {
						stack = popTag(stack, name)
					} else if !selfClosing {
						stack = append(stack, name)
						if rawTextTags[name] {
							rawTag = name
						}
					}
					i = end
					continue
				}
			}
			if len(stack) > 0 {
				mark(i, i+1)
				i++
				continue
			}
			switch line[i] {
			case '\\':
				if i+1 < len(line) && isPunctByte(line[i+1]) {
					i++
				}
			case '`':
				n := 0
				for i+n < len(line) && line[i+n] == '`' {
					n++
				}
				j := i + n
				for j < len(line) {
					if line[j] != '`' {
						j++
						continue
					}
					m := 0
					for j+m < len(line) && line[j+m] == '`' {
						m++
					}
					if m == n { // only a backtick string of exactly n closes (fix 8b404d9)
						break
					}
					j += m
				}
				i = j + n - 1
			case '[':
				depth++
			case ']':
				if depth > 0 {
					depth--
					if sp, _, ok := anchorDest(line, i); ok || strings.HasPrefix(line[i:], "]()") {
						depth = 0
						if ok {
							i = linkEndAfterDest(line, sp.e) - 1
						}
					}
				}
			}
			i++
		}
		if len(stack) > 0 || rawTag != "" || rawCloser != "" {
			mark(len(line), len(line)+1)
		}
		ls += len(line) + 1
	}
	return sk, kinds
}

func popTag(stack []string, name string) []string {
	for i := len(stack) - 1; i >= 0; i-- {
		if stack[i] == name {
			return stack[:i]
		}
	}
	return stack
}

// inlineLine: the state machine reads the candidate's line as inline text
func (in *docInfo) inlineLine(c cand) bool { return c.ln < len(in.kinds) && in.kinds[c.ln] == "inline" }

func (in *docInfo) skippedAt(i int) bool { return i < len(in.skipped) && in.skipped[i] }

// anySkipped: some byte of doc[a:b] is inside HTML for the state machine above
func (in *docInfo) anySkipped(a, b int) bool {
	for i := a; i < b; i++ {
		if in.skippedAt(i) {
			return true
		}
	}
	return false
}

// ---------------------------------------------------------------- effects

func valueClause(cl string) bool {
	return cl == "resolves-against-base" || cl == "rewritten-is-absolute" || cl == "absolute-left-alone"
}

// appliedSpans: the spans of the real code's replacements that were applied (start order, one
// that starts before the end of the previous one is dropped), as in the property
func appliedSpans(r tresult) []span {
	var rs []span
	for _, rp := range r.Repls {
		a, _ := strconv.Atoi(rp[0])
		b, _ := strconv.Atoi(rp[1])
		rs = append(rs, span{a, b})
	}
	sort.SliceStable(rs, func(i, j int) bool { return rs[i].s < rs[j].s })
	var out []span
	prev := 0
	for _, sp := range rs {
		if sp.s < prev {
			continue
		}
		out = append(out, sp)
		prev = sp.e
	}
	return out
}

// effectOf: the kind of effect of a failing document and the span(s) that carry it.
//
//	rewrote:<role>           the first rewritten span that is not a goldmark destination, and
//	                         where it lies for goldmark
//	value:<clause>           every rewritten span is a destination; the new value of one is wrong
//	structure-after-rewrite  every rewritten span is a destination; the text written breaks the
//	                         document's structure
//	other:<clause>           anything else (never covered by a class)
func effectOf(doc, clause, detail string, r tresult) (string, []span) {
	if r.Panic != "" || r.Err != "" || !(inlineClause(clause) || valueClause(clause)) {
		return "other:" + clause, nil
	}
	ap := appliedSpans(r)
	if len(ap) == 0 {
		return "other:" + clause, nil
	}
	for _, sp := range ap {
		if sp.e > len(doc) {
			return "other:" + clause, nil
		}
		if pl := locate(doc, sp.s, sp.e); pl.role != "destination" && !isInertSpan(doc, sp.s, sp.e) {
			return "rewrote:" + pl.role, []span{sp}
		}
	}
	if valueClause(clause) {
		if q, err := strconv.QuotedPrefix(strings.TrimPrefix(detail, "raw ")); err == nil {
			raw, _ := strconv.Unquote(q)
			var out []span
			for _, sp := range ap {
				if doc[sp.s:sp.e] == raw {
					out = append(out, sp)
				}
			}
			return "value:" + clause, out
		}
		return "value:" + clause, ap
	}
	return "structure-after-rewrite", ap
}

func inlineClause(cl string) bool {
	return cl == "only-destinations-change" || cl == "rewritten-is-absolute" || cl == "resolves-against-base"
}

// ---------------------------------------------------------------- classes

type findingDef struct {
	id, minimal, clause string
	effects             []string
	predict             func(in *docInfo) []span // document and goldmark only
	gen                 func(r *proto.Rand) string
}

var findingDefs []findingDef

func oneLine(in *docInfo) bool { return !strings.Contains(in.doc, "\n") }

func filterCands(in *docInfo, keep func(c cand) bool) []span {
	var out []span
	for _, c := range in.cands {
		if keep(c) {
			out = append(out, c.span)
		}
	}
	return out
}

// a backslash escape (read left to right) of one of the ASCII punctuation bytes that
// isMarkdownEscapable does not list
func escapeOfOtherPunct(raw string) bool {
	for i := 0; i+1 < len(raw); i++ {
		if raw[i] == '\\' {
			if strings.IndexByte("\"$%',/:;?@^", raw[i+1]) >= 0 {
				return true
			}
			i++
		}
	}
	return false
}

var reCharRef = regexp.MustCompile(`&(#[0-9]+|#[xX][0-9a-fA-F]+|[A-Za-z][A-Za-z0-9]*);`)

// charRefChangesURL: the destination has a character reference, and the documented rule gives
// another URL when it is applied without resolving character references (backslash escapes
// resolved only) than when it is applied to the destination as CommonMark reads it
func charRefChangesURL(raw string) bool {
	if !reCharRef.MatchString(raw) || meaning(raw) == string(gutil.UnescapePunctuations([]byte(raw))) {
		return false
	}
	want, ok := resolved(meaning(raw))
	if !ok {
		return false
	}
	naive, ok := resolved(string(gutil.UnescapePunctuations([]byte(raw))))
	return ok && !sameURL(want, meaning(naive))
}

// bareParens: the parentheses of raw that no backslash escapes
func bareParens(raw string) string {
	var b strings.Builder
	for i := 0; i < len(raw); i++ {
		switch raw[i] {
		case '\\':
			i++
		case '(', ')':
			b.WriteByte(raw[i])
		}
	}
	return b.String()
}

func parensUnbalanced(s string) bool {
	depth := 0
	for i := 0; i < len(s); i++ {
		switch s[i] {
		case '(':
			depth++
		case ')':
			if depth--; depth < 0 {
				return true
			}
		}
	}
	return depth != 0
}

// a parenthesised title with an unescaped `(` in it, after a destination: `](dest (…(…) )` or
// `[label]: dest (…(…)`; group 1 or 2 is the destination
var reParenTitleInline = regexp.MustCompile(`\]\([ \t]*([^\s()<\\]+)[ \t]+\((?:[^()\\]|\\.)*\((?:[^()\\]|\\.)*\)[ \t]*\)`)
var reParenTitleDef = regexp.MustCompile(`^ {0,3}\[(?:[^\[\]\\]|\\.)*(?:[^\[\]\\\s]|\\.)(?:[^\[\]\\]|\\.)*\]:[ \t]*([^\s()<\\]+)[ \t]+\((?:[^()\\]|\\.)*\((?:[^()\\]|\\.)*\)[ \t]*$`)

func init() {
	findingDefs = []findingDef{
		{id: "md-unescape-nbsp", minimal: "\u00a0", clause: "unescape-escape",
			effects: []string{"value:resolves-against-base"},
			predict: func(in *docInfo) []span {
				return filterCands(in, func(c cand) bool {
					return c.whole && in.plain(c) && strings.Contains(c.raw, "\u00a0") && rewritable(c.raw)
				})
			},
			gen: func(r *proto.Rand) string {
				return genOneLink(r, pick(r, []string{"\u00a0", "a\u00a0b", "\u00a0a", "x/\u00a0.html", "a?\u00a0", "/\u00a0/", "http://h/\u00a0", "a\u00a0#f"}))
			}},
		{id: "ld-escapable-set-incomplete", minimal: "[](\\\")", clause: "resolves-against-base",
			effects: []string{"value:resolves-against-base"},
			predict: func(in *docInfo) []span {
				return filterCands(in, func(c cand) bool { return c.whole && in.plain(c) && escapeOfOtherPunct(c.raw) && rewritable(c.raw) })
			},
			gen: func(r *proto.Rand) string {
				const punct = "!\"#$%&'()*+,-./:;<=>?@[\\]^_`{|}~"
				d := pick(r, []string{"", "a", "a/", "x."}) + "\\" + string(punct[r.Intn(len(punct))]) + pick(r, []string{"", "b", ".html", "/c"})
				return genOneLink(r, d)
			}},
		{id: "ld-character-reference-in-destination", minimal: "[](a&#35;)", clause: "resolves-against-base",
			effects: []string{"value:resolves-against-base"},
			predict: func(in *docInfo) []span {
				return filterCands(in, func(c cand) bool { return c.whole && in.plain(c) && charRefChangesURL(c.raw) })
			},
			gen: func(r *proto.Rand) string {
				ref := pick(r, []string{"&#35;", "&#x23;", "&quest;", "&#63;", "&sol;", "&#47;", "&period;", "&#46;", "&colon;", "&#58;", "&percnt;", "&#37;", "&bsol;", "&#92;", "&#32;", "&amp;", "&copy;", "&#65;", "&lt;", "&quot;", "&#40;", "&nosuch;", "&#0;"})
				return genOneLink(r, pick(r, []string{"", "a", "a/", "x."})+ref+pick(r, []string{"", "b", "html", "/c"}))
			}},
		{id: "ld-rewritten-url-unbalanced-paren", minimal: "[a]:(?)", clause: "only-destinations-change",
			// cause: the URL the rule asks for has unbalanced parentheses (net/url leaves `(` `)`
			// bare in a query or fragment, markdownURLEscape escapes only backslashes), which
			// ends a bare destination early
			effects: []string{"structure-after-rewrite"},
			predict: func(in *docInfo) []span {
				return filterCands(in, func(c cand) bool {
					if !c.whole || !in.plain(c) || c.s > 0 && in.doc[c.s-1] == '<' {
						return false
					}
					want, ok := resolved(meaning(c.raw))
					if !ok || parensUnbalanced(bareParens(c.raw)) {
						return false
					}
					// a `)` without its `(` ends a bare destination; a `(` left open swallows the `)` that
					// closes an inline link (before a space or the end of a definition it is tolerated)
					depth, neg := 0, false
					for i := 0; i < len(want); i++ {
						if want[i] == '(' {
							depth++
						} else if want[i] == ')' {
							if depth--; depth < 0 {
								neg = true
							}
						}
					}
					return neg || depth > 0 && !c.def && c.e < len(in.doc) && in.doc[c.e] == ')'
				})
			},
			gen: func(r *proto.Rand) string {
				var b strings.Builder
				for i, n := 0, 1+r.Intn(5); i < n; i++ {
					b.WriteString(pick(r, []string{"(", ")", "\\(", "\\)", "\\)", "?", "#", "?\\)", "#\\)", "?(", "a", "a", "/", "(a)", "(?)", "(#)"}))
				}
				d := b.String()
				if r.Intn(8) == 0 {
					d = "<" + d + ">"
				}
				return genOneLink(r, d)
			}},
		{id: "ld-line-by-line-scanner", minimal: "a\n[a]:a", clause: "only-destinations-change",
			// cause: the span is a destination when its line stands alone and is not one in the
			// document, where it is paragraph text, part of a code span or part of a link that
			// runs over a line ending; the scanner carries only fence and HTML state from line to line
			effects: []string{"rewrote:text", "rewrote:code-span", "rewrote:link-syntax", "rewrote:raw-html"},
			predict: func(in *docInfo) []span {
				if oneLine(in) {
					return nil
				}
				return filterCands(in, func(c cand) bool {
					return c.alone && !c.whole && !c.dup && (c.at.role == "text" || c.at.role == "code-span" || c.at.role == "link-syntax" || c.at.role == "raw-html") &&
						rewritable(c.raw) && in.plain(c)
				})
			},
			gen: genLines},
		{id: "ld-html-block-not-recognised", minimal: "<div [](a)", clause: "only-destinations-change",
			// goldmark: the span lies in an HTML block (delimited by lines: start conditions 1-7,
			// end at a blank line or at the line with the end condition). Scanner: no complete open
			// tag, comment or raw text element is pending there, so it reads Markdown.
			effects: []string{"rewrote:html-block"},
			predict: func(in *docInfo) []span {
				return filterCands(in, func(c cand) bool {
					return c.at.role == "html-block" && in.plain(c) && rewritable(c.raw)
				})
			},
			gen: genHTMLBlock},
		{id: "ld-inline-html-inside-brackets", minimal: "[<!--](a)-->", clause: "only-destinations-change",
			// goldmark: the span lies in inline raw HTML (a comment, a tag) or in an autolink. Scanner: it looks for
			// HTML only while its bracket stack is empty; here a `[` is open before the `<`.
			effects: []string{"rewrote:raw-html"},
			predict: func(in *docInfo) []span {
				return filterCands(in, func(c cand) bool {
					return c.at.role == "raw-html" && in.inlineLine(c) && rewritable(c.raw) && c.open && !c.nested && c.ls <= c.at.start && c.lb < c.at.start && !in.anySkipped(c.lb, c.at.start)
				})
			},
			gen: genBracketHTML},
		{id: "ld-code-in-container-block", minimal: "-     [](a)", clause: "only-destinations-change",
			// goldmark: the span lies in an indented or fenced code block inside a list item or
			// block quote, or in a code block after one: a fence opened inside a container ends with
			// the container, and the next fence line opens a new block. Scanner: indentation and
			// fences are measured from the start of the line, and a fence seen inside a container
			// stays open after it (without containers the scanner's fences are CommonMark's:
			// isFenceStart_iff_openingFence, isFenceClose_iff_closingFence).
			// A line of a block quote that alone is an indented code block in the quote may, in the
			// document, continue the quote's paragraph (its bytes are then text or part of a code
			// span that began on an earlier line); the scanner reads a `>` line as inline text either way.
			effects: []string{"rewrote:code-block", "rewrote:link-syntax", "rewrote:code-span", "rewrote:text"},
			predict: func(in *docInfo) []span {
				return filterCands(in, func(c cand) bool {
					return in.plain(c) && rewritable(c.raw) &&
						(c.at.role == "code-block" && (c.at.container || containerBefore(in.doc, c.s)) || !c.def && !c.whole && c.at.role == "link-syntax" && defInContainer(c.line) ||
							!c.whole && (c.at.role == "code-span" || c.at.role == "text") && quotedCodeAlone(c))
				})
			},
			gen: genContainer},
		{id: "ld-code-span-over-inline-html", minimal: "<span>`</span>[](`)", clause: "only-destinations-change",
			// goldmark: a code span has one delimiter inside what the scanner skips as inline HTML
			// and the other outside (CommonMark gives code spans precedence over HTML)
			effects: []string{"rewrote:code-span", "rewrote:text", "rewrote:link-syntax"},
			predict: func(in *docInfo) []span {
				return filterCands(in, func(c cand) bool {
					if !in.inlineLine(c) || !codeSpanStraddlesHTML(in, c.ls, c.ls+len(c.line)) {
						return false
					}
					// the scanner reads on after the HTML it skipped: the open bracket is looked for from there
					q := c.anchor
					for q > c.ls && !in.skippedAt(q-1) {
						q--
					}
					return !c.def && !c.whole && openBracket(in.doc[q:c.anchor]) >= 0 && (c.at.role == "code-span" || c.at.role == "text" || c.at.role == "link-syntax") && rewritable(c.raw)
				})
			},
			gen: genCodeSpanHTML},
		{id: "ld-paren-title-with-paren", minimal: "[a]:a (()", clause: "only-destinations-change",
			// a parenthesised title with an unescaped `(`: not a title in CommonMark, so the whole
			// is text; parseTitle accepts it
			effects: []string{"rewrote:text"},
			predict: func(in *docInfo) []span {
				var out []span
				ls := 0
				for ln, line := range strings.Split(in.doc, "\n") {
					for _, re := range []*regexp.Regexp{reParenTitleDef, reParenTitleInline} {
						if ln >= len(in.kinds) || in.kinds[ln] != map[bool]string{true: "def", false: "inline"}[re == reParenTitleDef] {
							continue
						}
						for _, m := range re.FindAllStringSubmatchIndex(line, -1) {
							sp := span{ls + m[2], ls + m[3]}
							if pl := locate(in.doc, sp.s, sp.e); pl.role == "text" && rewritable(in.doc[sp.s:sp.e]) && !in.anySkipped(ls, sp.e) &&
								(re == reParenTitleDef || bracketDepth(line[:m[0]]) > 0) && !strings.Contains(line[:m[2]], "`") {
								out = append(out, sp)
							}
						}
					}
					ls += len(line) + 1
				}
				return out
			},
			gen: genParenTitle},
		{id: "ld-empty-angle-destination", minimal: "[[](<>)](a)", clause: "only-destinations-change",
			// `[…](<>)` is a link with an empty destination in CommonMark; the scanner does not take
			// it for a link, keeps its open brackets and goes on inside it: the next `](dest)` on the
			// line, text or part of that link's title for goldmark, is rewritten
			effects: []string{"rewrote:text", "rewrote:link-syntax"},
			predict: func(in *docInfo) []span {
				var out []span
				ls := 0
				for ln, line := range strings.Split(in.doc, "\n") {
					if at := emptyAngleLink(in.doc, ls, ls+len(line)); at >= 0 && ln < len(in.kinds) && in.kinds[ln] == "inline" {
						for _, c := range in.cands {
							if c.ln == ln && c.s > at && !c.def && c.open {
								if !c.whole && c.open && (c.lb < at && onlyEmptyAngle(in.doc[c.lb:c.anchor]) || c.lb > at && !c.nested && c.at.role == "link-syntax") && (c.at.role == "text" || c.at.role == "link-syntax") && rewritable(c.raw) && !in.anySkipped(min(c.lb, at), c.e) {
									out = append(out, c.span)
								}
								break
							}
						}
					}
					ls += len(line) + 1
				}
				return out
			},
			gen: genEmptyAngle},
		{id: "ld-image-in-link", minimal: "[![]()](a \"[](\")", clause: "only-destinations-change",
			// an image inside link text: the scanner forgets the open `[` of the link when the image
			// ends (CommonMark keeps it: only links end enclosing links), so it reads the link's
			// destination and title as text and rewrites a `](dest)` inside them
			effects: []string{"rewrote:link-syntax"},
			predict: func(in *docInfo) []span {
				var out []span
				ls := 0
				for ln, line := range strings.Split(in.doc, "\n") {
					if end := imageInLinkEnd(in.doc, ls, ls+len(line)); end >= 0 && ln < len(in.kinds) && in.kinds[ln] == "inline" {
						for _, c := range in.cands {
							if c.ln == ln && c.s > end && !c.def && !c.whole && c.open {
								if c.open && c.lb > end && !c.nested && c.at.role == "link-syntax" && rewritable(c.raw) && !in.anySkipped(end, c.e) && !in.skippedAt(end-1) && !strings.Contains(in.doc[ls:c.s], "`") && !strings.Contains(in.doc[ls:c.s], "<>") {
									out = append(out, c.span)
								}
								break
							}
						}
					}
					ls += len(line) + 1
				}
				return out
			},
			gen: genImageInLink},
		{id: "ld-closing-tag-inside-link-title", minimal: "<span>[](a \"</span>[](\")", clause: "only-destinations-change",
			// the scanner is inside an inline HTML element when a link begins and leaves it at a
			// closing tag that CommonMark reads as part of the link's title; it goes on reading
			// Markdown inside the title
			effects: []string{"rewrote:link-syntax"},
			predict: func(in *docInfo) []span {
				var out []span
				for _, c := range in.cands {
					if c.def || c.whole || !in.inlineLine(c) || in.anySkipped(c.s, c.e) {
						continue
					}
					// the last byte the HTML state machine skips before the candidate ends a closing tag …
					q := c.s
					for q > c.ls && !in.skippedAt(q-1) {
						q--
					}
					if q == c.ls || in.doc[q-1] != '>' {
						continue
					}
					t := c.ls + strings.LastIndex(in.doc[c.ls:q], "</")
					if t < c.ls+1 || !in.skippedAt(t-1) {
						continue
					}
					// … that goldmark holds in no positioned node (it is inside a title) and the brackets
					// since then are the candidate's own
					if pl := locate(in.doc, t, q); pl.role == "link-syntax" && c.at.role == "link-syntax" && rewritable(c.raw) &&
						openBracket(in.doc[q:c.anchor]) >= 0 {
						out = append(out, c.span)
					}
				}
				return out
			},
			gen: genTagTitle},
	}
}

// quotedCodeAlone: the candidate's line begins a block quote and, standing alone, holds the
// candidate in a code block inside that quote
func quotedCodeAlone(c cand) bool {
	if !strings.HasPrefix(strings.TrimLeft(c.line, " "), ">") {
		return false
	}
	pl := locate(c.line, c.s-c.ls, c.e-c.ls)
	return pl.role == "code-block" && pl.container
}

// containerBefore: for goldmark the document has a list item or block quote, and a line that
// begins before position p starts with a container marker
func containerBefore(doc string, p int) bool {
	v := parsed(doc)
	if v == nil {
		return false
	}
	found := false
	gast.Walk(v.doc, func(n gast.Node, entering bool) (gast.WalkStatus, error) {
		if k := n.Kind(); k == gast.KindListItem || k == gast.KindBlockquote {
			found = true
			return gast.WalkStop, nil
		}
		return gast.WalkContinue, nil
	})
	if !found {
		return false
	}
	ls := 0
	for _, line := range strings.Split(doc, "\n") {
		if ls >= p {
			break
		}
		if reContainerMarker.MatchString(line) {
			return true
		}
		ls += len(line) + 1
	}
	return false
}

var reContainerMarker = regexp.MustCompile(`^ {0,3}(?:[-+*]|[0-9]{1,9}[.)]|>)[ \t]*`)

// defInContainer: the line is a list item or block quote whose content, alone, is a reference
// definition and nothing else for goldmark
func defInContainer(line string) bool {
	m := reContainerMarker.FindString(line)
	if m == "" {
		return false
	}
	v := parsed(line[len(m):])
	if v == nil || len(v.refs) == 0 {
		return false
	}
	texts := 0
	gast.Walk(v.doc, func(n gast.Node, entering bool) (gast.WalkStatus, error) {
		if _, ok := n.(*gast.Text); ok && entering {
			texts++
		}
		return gast.WalkContinue, nil
	})
	return texts == 0
}

// onlyEmptyAngle: every `](` of s begins `](<>` (spaces allowed before the `<`)
func onlyEmptyAngle(s string) bool {
	for i := 0; i+1 < len(s); i++ {
		if s[i] == ']' && s[i+1] == '(' {
			if !strings.HasPrefix(strings.TrimLeft(s[i+2:], " \t"), "<>") {
				return false
			}
		}
	}
	return true
}

// emptyAngleLink: the position of the `<` of the first `](<>` that is an empty destination
// of a link for goldmark (-1: none)
func emptyAngleLink(doc string, from, to int) int {
	if strings.Contains(doc, marker) {
		return -1
	}
	for {
		i := strings.Index(doc[from:to], "<>")
		if i < 0 {
			return -1
		}
		i += from
		from = i + 2
		j := i
		for j > 0 && (doc[j-1] == ' ' || doc[j-1] == '\t') {
			j--
		}
		if j < 2 || doc[j-2:j] != "](" {
			continue
		}
		_ = to
		a, b := parsed(doc), parsed(doc[:i+1]+marker+doc[i+1:])
		if a == nil || b == nil {
			continue
		}
		if diff, pairs := sameExceptDestinations(*a, *b); diff == "" && len(pairs) == 1 && pairs[0].before == "" && pairs[0].after == marker {
			return i
		}
	}
}

// imageInLinkEnd: the end of the description of the first image that goldmark sees inside a
// link's text, or of the first link or image inside an image's description (-1: none)
func imageInLinkEnd(doc string, from, to int) int {
	v := parsed(doc)
	if v == nil {
		return -1
	}
	end := -1
	gast.Walk(v.doc, func(n gast.Node, entering bool) (gast.WalkStatus, error) {
		if k := n.Kind(); (k == gast.KindImage || k == gast.KindLink) && entering && end < 0 {
			img := n
			inLink := false
			for p := n.Parent(); p != nil; p = p.Parent() {
				if p.Kind() == gast.KindLink && k == gast.KindImage || p.Kind() == gast.KindImage {
					inLink = true
				}
			}
			if inLink {
				// the image's description has positions; without one, look for `![` after the
				// enclosing link's earlier text
				e := -1
				gast.Walk(img, func(m gast.Node, entering bool) (gast.WalkStatus, error) {
					if t, ok := m.(*gast.Text); ok && entering && t.Segment.Stop > e {
						e = t.Segment.Stop
					}
					return gast.WalkContinue, nil
				})
				if e < 0 { // an empty description: the first `](` of the line ends it
					if i := strings.Index(doc[from:to], "]("); i >= 0 {
						e = from + i
					}
				}
				if e >= from && e <= to {
					end = e
				}
			}
		}
		return gast.WalkContinue, nil
	})
	return end
}

// codeSpanStraddlesHTML: goldmark sees a code span of which a delimiter lies inside what the
// HTML state machine skips (so that a reader in that state does not see the code span)
func codeSpanStraddlesHTML(in *docInfo, from, to int) bool {
	v := parsed(in.doc)
	if v == nil {
		return false
	}
	found := false
	gast.Walk(v.doc, func(n gast.Node, entering bool) (gast.WalkStatus, error) {
		if cs, ok := n.(*gast.CodeSpan); ok && entering {
			lo, hi := -1, -1
			for c := cs.FirstChild(); c != nil; c = c.NextSibling() {
				if t, ok := c.(*gast.Text); ok {
					if lo < 0 {
						lo = t.Segment.Start
					}
					hi = t.Segment.Stop
				}
			}
			if lo >= 0 {
				a := lo - 1
				for a > 0 && in.doc[a] != '`' {
					a--
				}
				b := hi
				for b < len(in.doc)-1 && in.doc[b] != '`' {
					b++
				}
				if a >= from && b < to && (in.skippedAt(a) || in.skippedAt(b)) {
					found = true
				}
			}
		}
		return gast.WalkContinue, nil
	})
	return found
}

// ---------------------------------------------------------------- classification

type verdict struct {
	id      string
	effect  string
	culprit []span
}

func intersects(a, b []span) bool {
	for _, x := range a {
		for _, y := range b {
			if x == y {
				return true
			}
		}
	}
	return false
}

// explain: the class whose prediction for doc contains the span the real code got wrong, with
// an effect of a kind the class names; "" when there is none
func explain(doc, clause, detail string, r tresult) verdict {
	if clause == "unescape-escape" {
		if doc == "\u00a0" && !classOff["md-unescape-nbsp"] {
			return verdict{id: "md-unescape-nbsp", effect: "roundtrip"}
		}
		return verdict{effect: "roundtrip"}
	}
	v := verdict{}
	v.effect, v.culprit = effectOf(doc, clause, detail, r)
	if len(v.culprit) == 0 {
		return v
	}
	in := analyse(doc)
	for i := range findingDefs {
		f := &findingDefs[i]
		ok := false
		for _, e := range f.effects {
			ok = ok || e == v.effect
		}
		if ok && !classOff[f.id] && intersects(v.culprit, f.predict(in)) {
			v.id = f.id
			return v
		}
	}
	return v
}

// classOff: the classes that are inactive on the tree under test (run sets it: the class is not
// listed as an open finding, or its recorded witness no longer fails there - the defect was
// cured). Nothing is attributed to an inactive class and it is not self-tested; a cure must
// never make the check fire.
var classOff = map[string]bool{}

// strict: VERIF_C29_STRICT=1 turns the precision requirement into a broken tie. It is the
// authoring-time obligation on the unchanged tree (run it when editing classes); a normal
// check only measures and records, because a change that cures a finding in part lowers the
// measured precision of its class and must not be reported as a violation.
func strict() bool { return os.Getenv("VERIF_C29_STRICT") == "1" }

// classify: the id of the class if it is listed as an open known finding
func classify(c *hx.Ctx, doc, clause, detail string, r tresult) string {
	if id := explain(doc, clause, detail, r).id; id != "" {
		return c.Known(id)
	}
	return ""
}

// predictionCameTrue: on a document that fails, did the real code do to a predicted span what
// the class says? For a class of wrongly rewritten spans: a predicted span was rewritten, it is
// not a destination for goldmark (and not inert), and it lies where the class says. For a class
// of wrong values: a predicted destination was rewritten to a text that goldmark does not read
// as the URL the documented rule gives. For the class of broken structure: the document's
// effect as a whole (effectOf).
func predictionCameTrue(f *findingDef, doc string, pred []span, clause, detail string, r tresult) bool {
	has := func(e string) bool {
		for _, x := range f.effects {
			if x == e {
				return true
			}
		}
		return false
	}
	texts := map[span]string{}
	for _, rp := range r.Repls {
		a, _ := strconv.Atoi(rp[0])
		b, _ := strconv.Atoi(rp[1])
		texts[span{a, b}] = unhex(rp[2])
	}
	for _, sp := range appliedSpans(r) {
		if !intersects([]span{sp}, pred) || sp.e > len(doc) {
			continue
		}
		pl := locate(doc, sp.s, sp.e)
		switch {
		case pl.role != "destination":
			if has("rewrote:"+pl.role) && !isInertSpan(doc, sp.s, sp.e) {
				return true
			}
		case has("value:resolves-against-base"):
			if want, ok := resolved(meaning(doc[sp.s:sp.e])); ok && !sameURL(want, meaning(texts[sp])) {
				return true
			}
		case has("structure-after-rewrite"):
			if eff, culprit := effectOf(doc, clause, detail, r); eff == "structure-after-rewrite" && intersects(culprit, pred) {
				return true
			}
		}
	}
	return false
}

// ---------------------------------------------------------------- precision self-test

const precisionWanted = 950 // per mille
const precisionDocs = 250

// precisionSelfTest: for every class, documents for which the class predicts something, from
// every class's generator (a document made for one class is also a sample for the others);
// on the real code the prediction must come true: the oracle fails, with an effect of the
// class's kind, on a predicted span.
func precisionSelfTest(c *hx.Ctx, report func(kind, name, caseLine, human, impl, model, finding string)) error {
	type sample struct {
		doc  string
		pred []span
	}
	samples := make([][]sample, len(findingDefs))
	seen := map[string]bool{}
	for g := range findingDefs {
		if findingDefs[g].gen == nil || classOff[findingDefs[g].id] {
			continue
		}
		// the class's own generator until the class has its documents (what it makes is offered to
		// every class), but at least a few hundred draws so that each generator feeds the others
		for try := 0; try < 12*precisionDocs && (len(samples[g]) < precisionDocs || try < precisionDocs); try++ {
			d := findingDefs[g].gen(c.R)
			// one time in three inside a document of the main stream: what a class predicts must
			// not depend on the document being small
			switch c.R.Intn(8) {
			case 0:
				d = genBlock(c.R) + pick(c.R, []string{"\n\n", "\n\n", "\n"}) + d
			case 1:
				d = genBlock(c.R) + "\n\n" + d + "\n\n" + genBlock(c.R)
			case 2: // and with the small things a bracket scanner cares about before or after it
				d = filler(c.R) + d
			case 3:
				d = d + filler(c.R)
			}
			if seen[d] || len(d) > 400 {
				continue
			}
			seen[d] = true
			c.Res.Histogram["class-precision/"+findingDefs[g].id+"/drawn"]++
			in := analyse(d)
			for i := range findingDefs {
				if len(samples[i]) < precisionDocs && !classOff[findingDefs[i].id] {
					if p := findingDefs[i].predict(in); len(p) > 0 {
						samples[i] = append(samples[i], sample{d, p})
					}
				}
			}
		}
	}
	c.Res.Histogram["class-precision/documents-drawn"] = len(seen)
	for i := range findingDefs {
		f := &findingDefs[i]
		var docs []string
		for _, s := range samples[i] {
			docs = append(docs, s.doc)
		}
		if classOff[f.id] {
			continue
		}
		key := "class-precision/" + f.id
		c.Res.Histogram[key+"/documents"] = len(docs)
		if len(docs) < precisionDocs/3 {
			c.Res.Notes = append(c.Res.Notes, fmt.Sprintf("class %s: precision not measured (only %d documents satisfy its prediction) - attribution by this class is unreliable on this tree", f.id, len(docs)))
			if strict() {
				report("correspondence", "finding-class-precision-unmeasured: "+f.id, "C29 class "+f.id, fmt.Sprintf("only %d documents satisfy the class's prediction", len(docs)), "", "", "")
			}
			continue
		}
		cls, dets, rs, err := evalDocsR(docs)
		if err != nil {
			return err
		}
		hits, firstMiss := 0, ""
		for j, d := range docs {
			ok := cls[j] != "" && predictionCameTrue(f, d, samples[i][j].pred, cls[j], dets[j], rs[j])
			if ok {
				hits++
			} else if firstMiss == "" {
				firstMiss = fmt.Sprintf("%q (oracle: %q %s)", d, cls[j], dets[j])
			}
			if !ok && os.Getenv("VERIF_C29_MISSES") != "" {
				fmt.Fprintf(os.Stderr, "MISS %s %q :: %q %s\n", f.id, d, cls[j], dets[j])
			}
		}
		pm := hits * 1000 / len(docs)
		c.Res.Histogram[key+"/fail-as-predicted"] = hits
		c.Res.Histogram[key+"/permille"] = pm
		if pm < precisionWanted {
			c.Res.Notes = append(c.Res.Notes, fmt.Sprintf("class %s: precision %d \u2030 (%d of %d; first document that does not fail as predicted: %s) - attribution by this class is unreliable on this tree", f.id, pm, hits, len(docs), firstMiss))
		}
		if pm < precisionWanted && strict() {
			report("correspondence", "finding-class-too-broad: "+f.id, "C29 class "+f.id,
				fmt.Sprintf("%d of %d documents for which the class predicts a wrong rewriting fail as predicted (%d per mille, wanted %d)", hits, len(docs), pm, precisionWanted),
				"first document that does not: "+firstMiss, "", "")
		}
	}
	return nil
}
