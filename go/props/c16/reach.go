package main

import (
	"fmt"
	"strings"

	"github.com/open2b/scriggo"

	"verifharness/internal/hx"
	"verifharness/internal/proto"
)

// The same macro, reached in every way a file can get at it, shown in every context.
//
//	reach     inline declaration | import "lib" | import ui "lib" + ui.M() | import . "lib" | import "lib" for M |
//	          extends (the macro in the extending file, the show in the layout)
//	format    the macro's result format: string, html, css, js, json, markdown
//	context   the 16 show contexts of ctxHost (top level of the six formats, tag, attributes, URL attributes,
//	          script / style / JSON strings, Markdown code blocks)
//	call      {{ X() }} | {% var v = X() %}{{ v }} | {{ Id(X()) }} (as the argument of an identity macro)
//
// Oracle 1 (metamorphic, "an imported macro behaves as if declared in the importing file"): every reach
// gives byte for byte the output of the inline twin. Oracle 2 (absolute): that output is the typed value
// of the macro's content shown in the context, as measured through a typed global (measurer.esc) — no macro,
// no import involved.

var reachForms = []string{"inline", "import", "import-qualified", "import-dot", "import-for", "extends"}
var reachCalls = []string{"show", "via-var", "argument"}

// balanced quotes and no tag: the body is lexed in the macro's format inside a file of the host's format, and an
// open string or tag there would move the contexts of what follows (finding macro-format-context-after-tag)
const reachContent = "a<&\"q\"'r'*_ \\x"

type reachPoint struct {
	reach string
	from  int
	ctx   int
	call  string
}

func (p reachPoint) String() string {
	return fmt.Sprintf("reach=%s macro-format=%s context=%s call=%s", p.reach, fmtName[p.from], ctxName[p.ctx], p.call)
}

// build returns the files, the file to run and the file that holds the show site.
func (p reachPoint) build() (scriggo.Files, string, string) {
	h := ctxHost[p.ctx]
	ext := fmtExt[h.format]
	kw := fmtKeyword[p.from]
	decl := "{% macro M " + kw + " %}" + reachContent + "{% end %}"
	x := "M()"
	if p.reach == "import-qualified" {
		x = "ui.M()"
	}
	site := ""
	switch p.call {
	case "show":
		site = h.pre + "{{ " + x + " }}" + h.post
	case "via-var":
		site = "{% var v = " + x + " %}" + h.pre + "{{ v }}" + h.post
	case "argument":
		site = "{% macro Id(s " + kw + ") " + kw + " %}{{ s }}{% end %}" + h.pre + "{{ Id(" + x + ") }}" + h.post
	}
	fs := scriggo.Files{}
	run := "index" + ext
	switch p.reach {
	case "inline":
		fs[run] = []byte(decl + site)
	case "import":
		fs["lib"+ext] = []byte(decl)
		fs[run] = []byte(`{% import "lib` + ext + `" %}` + site)
	case "import-qualified":
		fs["lib"+ext] = []byte(decl)
		fs[run] = []byte(`{% import ui "lib` + ext + `" %}` + site)
	case "import-dot":
		fs["lib"+ext] = []byte(decl)
		fs[run] = []byte(`{% import . "lib` + ext + `" %}` + site)
	case "import-for":
		fs["lib"+ext] = []byte(decl)
		fs[run] = []byte(`{% import "lib` + ext + `" for M %}` + site)
	case "extends":
		fs[run] = []byte(`{% extends "layout` + ext + `" %}` + decl)
		fs["layout"+ext] = []byte(site)
		return fs, run, "layout" + ext
	}
	return fs, run, run
}

func reachFamily(c *hx.Ctx, m *measurer) error {
	res := c.Res
	reported := 0
	for from := 0; from < 6; from++ {
		for ctx := 0; ctx < len(ctxHost); ctx++ {
			h := ctxHost[ctx]
			shown, err := m.esc(from, ctx, reachContent)
			if err != nil {
				return err
			}
			want := "ok " + h.pre + shown + h.post
			for _, call := range reachCalls {
				twin := ""
				for _, reach := range reachForms {
					p := reachPoint{reach: reach, from: from, ctx: ctx, call: call}
					fs, run, siteFile := p.build()
					ctxs := map[string][]int{}
					r := runEngine(fs, run, nil, true, ctxs)
					got := "ok " + r.out
					if r.kind != "ok" {
						got = r.line()
					}
					res.Count("reach "+p.String(), true)
					res.Hist("reach-" + reach)
					// the show site must sit in the context the point names (read from the real parser)
					if l := ctxs[siteFile]; len(l) == 0 || l[len(l)-1] != ctx {
						res.Hist("reach-not-comparable-lexer-context")
						if reach == "inline" {
							twin = "not comparable"
						}
						continue
					}
					if twin == "not comparable" {
						twin = got // the first comparable reach stands in for the twin
					}
					if reach == "inline" {
						twin = got
					}
					name := ""
					switch {
					case got != twin:
						name = "macro-reached-through-" + reach + "-eq-inline-declaration"
					case got != want:
						name = "macro-eq-typed-value-shown"
					default:
						continue
					}
					res.Hist("reach-broken")
					if reported++; reported > 12 {
						continue
					}
					model := twin
					if got == twin {
						model = want
					}
					res.AddBreak(proto.Break{Kind: "property", Name: name, Case: p.String(), Human: filesHuman(fs, run),
						Impl: strings.ToValidUTF8(got, "?"), Model: model})
				}
			}
		}
	}
	return nil
}
