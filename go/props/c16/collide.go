package main

import (
	"fmt"
	"sort"
	"strconv"
	"strings"

	"github.com/open2b/scriggo"

	"verifharness/internal/hx"
	"verifharness/internal/proto"
)

// Name collisions across the files of one build.
//
// "An imported macro behaves as if declared in the importing file", "the layout with the child's
// macros": the expansions are up to the names that are private to a file. The same identifier may be
// declared in the imported file, in the importer, in a partial the importer renders, in a file
// imported by that partial, in the extending file and in its layout; every reference resolves in the
// scope chain of the file it is written in, and another file contributes its *exported* names only
// (unqualified: `import "f"`, extends; qualified: `import p "f"` → `p.Name`).
//
// Two deterministic families, both whole matrices:
//
//   - collisionSets: in the modelled item language (macros), so that every point goes through checkSet:
//     engine against the Lean model, clause 1 site by site, clause 3 / clause 4 against the expansion
//     with the private names α-renamed;
//   - lexicalFamily: declaration kind (macro, var, const, type) × lower/upper case × importer declares
//     the name too or not × placement × reference site, on the real engine only, against the lexical
//     scope rule evaluated by `lexExpect` (a dozen lines, independent of the Lean model).

// ---------------------------------------------------------------- family 1: modelled language

const (
	nmPriv = 1 // m0: the colliding unexported name
)

func cText(s string) gatom { return gatom{kind: 'T', text: s} }

func cCall(name, decl int, viaVar bool, block byte) gatom {
	return gatom{kind: 'C', macro: name, decl: decl, viaVar: viaVar, block: block}
}

type cset struct {
	set  *gset
	next int // next declaration id
}

func (b *cset) file(role, path string, format int) (*gfile, int) {
	f := &gfile{role: role, path: path, format: format}
	b.set.files = append(b.set.files, f)
	return f, len(b.set.files) - 1
}

// decl appends `{% macro name %}body{% end %}` to f and returns its declaration id. An exported name
// is derived from the id (unique in the set); name < 0 asks for that.
func (b *cset) decl(f *gfile, name int, body ...gatom) (id, nm int) {
	id = b.next
	b.next++
	if name < 0 {
		name = 2 * (100 + id)
	}
	f.items = append(f.items, gitem{kind: 'M', id: id, name: name, mfmt: -1, rank: len(f.items), body: body})
	return id, name
}

func (b *cset) show(f *gfile, a gatom) { f.items = append(f.items, gitem{kind: 'A', a: a}) }

func (b *cset) imp(f *gfile, target int, ref string) {
	f.items = append(f.items, gitem{kind: 'I', target: target, ref: ref})
}

// a library with the private name and an exported macro that uses it; privFirst = false puts the
// exported macro first (a forward reference, package scope)
func (b *cset) lib(path, tag string, privFirst bool, extra ...gatom) (idx, useID, useName int) {
	f, idx := b.file("lib", path, fHTML)
	b.libDecls(f, tag, privFirst, extra...)
	it := f.items[len(f.items)-1]
	if !privFirst {
		it = f.items[0]
	}
	return idx, it.id, it.name
}

func (b *cset) libDecls(f *gfile, tag string, privFirst bool, extra ...gatom) {
	base := len(f.items)
	if privFirst {
		p, _ := b.decl(f, nmPriv, cText("["+tag+"]"))
		body := append([]gatom{cText("<"), cCall(nmPriv, p, false, 0), cText(">")}, extra...)
		b.decl(f, -1, body...)
		f.items[base].rank, f.items[base+1].rank = 0, 1
	} else {
		// the ids must be known before the bodies: reserve the private one
		pid := b.next + 1
		body := append([]gatom{cText("<"), cCall(nmPriv, pid, false, 0), cText(">")}, extra...)
		b.decl(f, -1, body...)
		b.decl(f, nmPriv, cText("["+tag+"]"))
		f.items[base].rank, f.items[base+1].rank = 1, 0
	}
}

var collideSites = []string{"top", "top-var", "top-if", "top-for", "macro", "macro-var", "macro-if", "nested", "nested-both"}

// site appends to the sequentially scoped file f a reference to the private name (declared in f as
// declaration priv) at the given kind of place.
func (b *cset) site(f *gfile, kind string, priv int) {
	switch kind {
	case "top":
		b.show(f, cCall(nmPriv, priv, false, 0))
	case "top-var":
		b.show(f, cCall(nmPriv, priv, true, 0))
	case "top-if":
		b.show(f, cCall(nmPriv, priv, false, 'i'))
	case "top-for":
		b.show(f, cCall(nmPriv, priv, false, 'f'))
	case "macro", "macro-var", "macro-if":
		a := cCall(nmPriv, priv, kind == "macro-var", 0)
		if kind == "macro-if" {
			a.block = 'i'
		}
		o, on := b.decl(f, -1, cText("("), a, cText(")"))
		b.show(f, cCall(on, o, false, 0))
	case "nested", "nested-both":
		i, in := b.decl(f, -1, cText("^"), cCall(nmPriv, priv, false, 0), cText("$"))
		body := []gatom{cText("("), cCall(in, i, false, 0), cText(")")}
		if kind == "nested-both" {
			body = append(body, cCall(nmPriv, priv, true, 0))
		}
		o, on := b.decl(f, -1, body...)
		b.show(f, cCall(on, o, false, 0))
	}
}

var collidePlacements = []string{"import", "partial-imports", "imported-twice", "extends", "import-of-import", "two-imports", "two-imports-no-local"}

// collisionSets builds the matrix placement × site × order of the declarations in the library.
func collisionSets() (sets []*gset, labels []string) {
	for _, place := range collidePlacements {
		for _, site := range collideSites {
			for _, privFirst := range []bool{true, false} {
				if !privFirst && (site == "top-var" || site == "top-for" || site == "macro-var" || site == "nested-both") {
					continue // the order in the library is crossed with the plain sites only
				}
				b := &cset{set: &gset{}}
				// importer: a sequentially scoped file with its own declaration of the name, the site, and a
				// call of the library's exported macro
				importer := func(f *gfile, tag string, uses ...[2]int) {
					p, _ := b.decl(f, nmPriv, cText("["+tag+"]"))
					b.site(f, site, p)
					for _, u := range uses {
						b.show(f, cText("|"))
						b.show(f, cCall(u[1], u[0], false, 0))
					}
				}
				switch place {
				case "import":
					li, uid, un := b.lib("lib/l.html", "lib", privFirst)
					m, _ := b.file("main", "index.html", fHTML)
					b.imp(m, li, "lib/l.html")
					importer(m, "main", [2]int{uid, un})
				case "partial-imports":
					li, uid, un := b.lib("lib/l.html", "lib", privFirst)
					p, pi := b.file("partial", "parts/p.html", fHTML)
					b.imp(p, li, "../lib/l.html")
					importer(p, "part", [2]int{uid, un})
					m, _ := b.file("main", "index.html", fHTML)
					b.show(m, cText("^"))
					b.show(m, gatom{kind: 'R', target: pi, ref: "parts/p.html"})
					b.show(m, cText("$"))
				case "imported-twice":
					li, uid, un := b.lib("lib/l.html", "lib", privFirst)
					p, pi := b.file("partial", "parts/p.html", fHTML)
					b.imp(p, li, "../lib/l.html")
					importer(p, "part", [2]int{uid, un})
					m, _ := b.file("main", "index.html", fHTML)
					b.imp(m, li, "/lib/l.html")
					importer(m, "main", [2]int{uid, un})
					b.show(m, cText("^"))
					b.show(m, gatom{kind: 'R', target: pi, ref: "/parts/p.html", viaVar: true})
					b.show(m, cText("$"))
				case "extends":
					lay, li := b.file("layout", "layouts/base.html", fHTML)
					ch, _ := b.file("child", "index.html", fHTML)
					ch.items = append(ch.items, gitem{kind: 'X', target: li, ref: "layouts/base.html"})
					b.libDecls(ch, "child", privFirst)
					use := ch.items[len(ch.items)-1]
					if !privFirst {
						use = ch.items[1]
					}
					importer(lay, "layout", [2]int{use.id, use.name})
				case "import-of-import":
					bi, buid, bun := b.lib("lib/b.html", "B", privFirst)
					a, ai := b.file("lib", "lib/a.html", fHTML)
					b.imp(a, bi, "b.html")
					b.libDecls(a, "A", privFirst, cCall(bun, buid, false, 0))
					use := a.items[len(a.items)-1]
					if !privFirst {
						use = a.items[1]
					}
					m, _ := b.file("main", "index.html", fHTML)
					b.imp(m, ai, "/lib/a.html")
					importer(m, "main", [2]int{use.id, use.name})
				case "two-imports", "two-imports-no-local":
					ai, auid, aun := b.lib("lib/a.html", "A", privFirst)
					bi, buid, bun := b.lib("b.html", "B", !privFirst)
					m, _ := b.file("main", "index.html", fHTML)
					b.imp(m, ai, "lib/a.html")
					b.imp(m, bi, "/b.html")
					if place == "two-imports" {
						importer(m, "main", [2]int{auid, aun}, [2]int{buid, bun})
					} else {
						if site != "top" {
							continue // no local declaration, no site: one point
						}
						b.show(m, cCall(aun, auid, false, 0))
						b.show(m, cCall(bun, buid, true, 0))
					}
				}
				sets = append(sets, b.set)
				labels = append(labels, fmt.Sprintf("%s/%s/private-first=%v", place, site, privFirst))
			}
		}
	}
	return
}

// ---------------------------------------------------------------- family 2: every kind of declaration, engine only

var lexKinds = []string{"macro", "var", "const", "type"}
var lexSites = []string{"top", "assign", "if", "for", "macro", "macro-if", "nested", "arg", "arg-in-macro", "funclit"}
var lexPlacements = []string{"import", "import-qualified", "import-qualified-selector", "partial-imports", "imported-twice", "extends", "import-of-import"}

type lexPoint struct {
	kind, site, place string
	upper, local      bool
}

func (p lexPoint) String() string {
	return fmt.Sprintf("kind=%s name=%s importer-declares=%v placement=%s site=%s", p.kind, p.name(), p.local, p.place, p.site)
}

func (p lexPoint) name() string {
	if p.upper {
		return "Zq"
	}
	return "zq"
}

// the declaration of the name in a file whose tag is the digit t
func (p lexPoint) decl(t int) string {
	n, s := p.name(), strconv.Itoa(t)
	switch p.kind {
	case "macro":
		return "{% macro " + n + " %}" + s + "{% end %}"
	case "var":
		return "{% var " + n + " = \"" + s + "\" %}"
	case "const":
		return "{% const " + n + " = \"" + s + "\" %}"
	}
	return "{% type " + n + " [" + s + "]int %}"
}

// an expression whose value shows which declaration the name resolved to
func (p lexPoint) ref(qual string) string {
	n := qual + p.name()
	switch p.kind {
	case "macro":
		return n + "()"
	case "type":
		return "len(" + n + "{})"
	}
	return n
}

func (p lexPoint) valueType() string {
	switch p.kind {
	case "macro":
		return "html"
	case "type":
		return "int"
	}
	return "string"
}

// the site: declarations it needs, the show, and what it prints for tag t
func (p lexPoint) siteText(e string) (decls, use string, print func(t string) string) {
	id := func(t string) string { return t }
	par := func(t string) string { return "(" + t + ")" }
	ang := func(t string) string { return "<" + t + ">" }
	switch p.site {
	case "top":
		return "", "{{ " + e + " }}", id
	case "assign":
		return "", "{% var vv = " + e + " %}{{ vv }}", id
	case "if":
		return "", "{% if true %}{{ " + e + " }}{% end %}", id
	case "for":
		return "", "{% for i := 0; i < 1; i++ %}{{ " + e + " }}{% end %}", id
	case "macro":
		return "{% macro Outer %}({{ " + e + " }}){% end %}", "{{ Outer() }}", par
	case "macro-if":
		return "{% macro Outer %}({% if true %}{{ " + e + " }}{% end %}){% end %}", "{{ Outer() }}", par
	case "nested":
		return "{% macro Inner %}{{ " + e + " }}{% end %}{% macro Outer %}({{ Inner() }}){% end %}", "{{ Outer() }}", par
	case "arg":
		return "{% macro Wr(s " + p.valueType() + ") %}<{{ s }}>{% end %}", "{{ Wr(" + e + ") }}", ang
	case "arg-in-macro":
		return "{% macro Wr(s " + p.valueType() + ") %}<{{ s }}>{% end %}{% macro Outer %}{{ Wr(" + e + ") }}{% end %}", "{{ Outer() }}", ang
	case "funclit":
		return "{% var fl = func() " + p.valueType() + " { return " + e + " } %}", "{{ fl() }}", id
	}
	panic("site")
}

// lexExpect is the lexical-scope rule. A reference written in a file resolves to that file's own
// declaration of the name; otherwise to an exported name of an unqualified import (or of the
// extending file, for a layout); `p.Name` reaches exported names of a qualified import only.
// Declaring a name that an unqualified import already brought is a redeclaration.
//
//	own      the file declares the name itself
//	foreign  the name is declared in a file that this file imports without a package name / that extends it
func lexExpect(own, foreign, exported, selector, qualified bool) (who string) {
	switch {
	case selector && exported:
		return "foreign"
	case selector:
		return "err:undefined" // "cannot refer to unexported name": the name is not visible; same class as undefined
	case own && foreign && exported && !qualified:
		return "err:redeclared"
	case own:
		return "own"
	case foreign && exported && !qualified:
		return "foreign"
	}
	return "err:undefined"
}

func lexErrClass(msg string) string {
	switch {
	case strings.Contains(msg, "redeclared"):
		return "err:redeclared"
	case strings.Contains(msg, "cannot refer to unexported name"):
		return "err:undefined" // not visible either way; which of the two messages is not the property's business
	case strings.Contains(msg, "undefined:"), strings.Contains(msg, "undefined "):
		return "err:undefined"
	}
	return "err:other"
}

// lexJoin: the expected outcome of a run from the expected pieces: the first error class, if any
// piece is one, else "ok " and the pieces in order.
func lexJoin(parts ...string) string {
	for _, p := range parts {
		if strings.HasPrefix(p, "err:") {
			return p
		}
	}
	return "ok " + strings.Join(parts, "")
}

// build returns the files, the file to run and the expected outcome ("ok <output>" or an error class).
func (p lexPoint) build() (scriggo.Files, string, string) {
	const lib, imp, top, mid = 7, 8, 9, 6
	fs := scriggo.Files{}
	qualified := p.place == "import-qualified" || p.place == "import-qualified-selector"
	selector := p.place == "import-qualified-selector"
	qual := ""
	if selector {
		qual = "lib."
	}
	// the library: its own declaration and an exported macro that uses it
	libSrc := p.decl(lib) + "{% macro Use %}{{ " + p.ref("") + " }}{% end %}"
	libUse, libPrints := "{{ Use() }}", strconv.Itoa(lib)
	if qualified {
		libUse = "{{ lib.Use() }}"
	}
	// the importer: [site]|
	decls, use, print := p.siteText(p.ref(qual))
	body := ""
	if p.local {
		body += p.decl(imp)
	}
	body += decls + "[" + use + "]|"
	// what the site prints when the reference resolves as `who` says
	site := func(who string, own, foreign int) string {
		switch who {
		case "own":
			return "[" + print(strconv.Itoa(own)) + "]|"
		case "foreign":
			return "[" + print(strconv.Itoa(foreign)) + "]|"
		}
		return who
	}
	who := lexExpect(p.local, true, p.upper, selector, qualified)
	want := ""
	switch p.place {
	case "import":
		fs["lib.html"] = []byte(libSrc)
		fs["index.html"] = []byte(`{% import "lib.html" %}` + body + libUse)
		want = lexJoin(site(who, imp, lib), libPrints)
	case "import-qualified", "import-qualified-selector":
		fs["lib.html"] = []byte(libSrc)
		fs["index.html"] = []byte(`{% import lib "lib.html" %}` + body + libUse)
		want = lexJoin(site(who, imp, lib), libPrints)
	case "partial-imports":
		fs["lib.html"] = []byte(libSrc)
		fs["sub/p.html"] = []byte(`{% import "../lib.html" %}` + body + libUse)
		fs["index.html"] = []byte(`{{ render "sub/p.html" }}`)
		want = lexJoin(site(who, imp, lib), libPrints)
	case "imported-twice":
		// the main file imports the library too (under another spelling of the path), declares the name
		// itself when the partial does, and refers to it at top level
		fs["lib.html"] = []byte(libSrc)
		fs["sub/p.html"] = []byte(`{% import "../lib.html" %}` + body + libUse)
		main := `{% import "/lib.html" %}`
		if p.local {
			main += p.decl(top)
		}
		main += "{{ " + p.ref("") + " }}" + `{{ render "/sub/p.html" }}`
		fs["index.html"] = []byte(main)
		mainPrints := map[string]string{"own": strconv.Itoa(top), "foreign": strconv.Itoa(lib)}[who]
		if mainPrints == "" {
			mainPrints = who
		}
		want = lexJoin(mainPrints, site(who, imp, lib), libPrints)
	case "extends":
		fs["index.html"] = []byte(`{% extends "layout.html" %}` + libSrc)
		fs["layout.html"] = []byte(body + libUse)
		want = lexJoin(site(who, imp, lib), libPrints)
	case "import-of-import":
		// main imports a.html, a.html imports lib.html; a.html declares the name too (tag 6) when that is
		// not a redeclaration (lower case); its exported macro uses a.html's view of the name, then the
		// library's exported macro. main never sees the library's names: imports are not transitive.
		fs["lib.html"] = []byte(libSrc)
		a := `{% import "lib.html" %}`
		aPrints := libPrints
		if !p.upper {
			a += p.decl(mid)
			aPrints = strconv.Itoa(mid)
		}
		a += "{% macro UseA %}{{ " + p.ref("") + " }}{{ Use() }}{% end %}"
		fs["a.html"] = []byte(a)
		fs["index.html"] = []byte(`{% import "a.html" %}` + body + "{{ UseA() }}")
		who = lexExpect(p.local, !p.upper, false, false, false)
		want = lexJoin(site(who, imp, mid), aPrints, libPrints)
	}
	return fs, "index.html", want
}

func filesHuman(fs scriggo.Files, run string) string {
	var names []string
	for n := range fs {
		names = append(names, n)
	}
	sort.Strings(names)
	var b strings.Builder
	fmt.Fprintf(&b, "run %s in {", run)
	for i, n := range names {
		if i > 0 {
			b.WriteString(", ")
		}
		fmt.Fprintf(&b, "%q: %q", n, fs[n])
	}
	b.WriteString("}")
	return b.String()
}

// Former finding qualified-imported-var-in-closure, repaired by ccfaf1d (second fix series,
// fixes/C16-qualified-imported-var-in-closure.md; class inactive without an entry in known_findings.json):
// a variable of a template file imported with a package name, read as `p.V` inside a function body
// (macro body or function literal), is emitted as GetVar with the index of the *global* while the
// function's VarRefs has no entry for it: Run panics "index out of range", or another variable's slot
// is read and the value comes out empty. The class is a prediction from the point alone.
const findingSelVar = "qualified-imported-var-in-closure"

var lexInFunc = map[string]bool{"macro": true, "macro-if": true, "nested": true, "arg-in-macro": true, "funclit": true}

func (p lexPoint) predictsSelVar() bool {
	return p.kind == "var" && p.place == "import-qualified-selector" && p.upper && lexInFunc[p.site]
}

func selVarMinimal() (scriggo.Files, string) {
	return scriggo.Files{
		"index.html": []byte(`{% import lib "lib.html" %}{% macro M %}{{ lib.V }}{% end %}{{ M() }}`),
		"lib.html":   []byte(`{% var V = "7" %}`),
	}, "index.html"
}

// lexicalFamily runs the whole matrix on the real engine.
func lexicalFamily(c *hx.Ctx) {
	res := c.Res
	// replay of the recorded minimal input; the class is active only while it still fails
	selVarActive := false
	if c.HasFinding(findingSelVar) {
		fs, run := selVarMinimal()
		r := runEngine(fs, run, nil, true, nil)
		if r.kind == "panic" && strings.Contains(r.msg, "index out of range") {
			selVarActive = true
			res.AddBreak(proto.Break{Kind: "property", Name: "reference-resolves-in-its-own-file", Finding: findingSelVar,
				Case: "minimal input of " + findingSelVar, Human: filesHuman(fs, run), Impl: r.line(), Model: "ok 7"})
		}
	}
	reported := 0
	for _, kind := range lexKinds {
		for _, place := range lexPlacements {
			for _, site := range lexSites {
				for _, upper := range []bool{false, true} {
					for _, local := range []bool{true, false} {
						p := lexPoint{kind: kind, site: site, place: place, upper: upper, local: local}
						if place == "import-of-import" && upper && local {
							continue // same point as "import" with an exported name: a redeclaration
						}
						fs, run, want := p.build()
						r := runEngine(fs, run, nil, true, nil)
						got := "ok " + r.out
						if r.kind != "ok" {
							got = lexErrClass(r.msg)
							if r.kind == "panic" || got == "err:other" {
								got = r.line()
							}
						}
						res.Count("lexical "+p.String(), true)
						res.Hist("lexical-" + kind)
						res.Hist("lexical-expect-" + strings.SplitN(want, " ", 2)[0])
						predicted := selVarActive && p.predictsSelVar()
						if predicted {
							res.Hist("class-precision/" + findingSelVar + "/points")
						}
						if got == want {
							continue
						}
						res.Hist("lexical-scope-broken")
						b := proto.Break{Kind: "property", Name: "reference-resolves-in-its-own-file",
							Case: p.String(), Human: filesHuman(fs, run), Impl: got, Model: want}
						// the predicted effect: the panic, or the value read from another slot comes out empty
						if predicted && (strings.Contains(got, "index out of range") || got == strings.Replace(want, "7", "", 1)) {
							b.Finding = findingSelVar
							res.Hist("class-precision/" + findingSelVar + "/fail-as-predicted")
						}
						if reported++; reported > 40 && b.Finding == "" {
							continue
						}
						res.AddBreak(b)
					}
				}
			}
		}
	}
}
