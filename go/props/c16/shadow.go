package main

import (
	"fmt"
	"strings"

	"github.com/open2b/scriggo"

	"verifharness/internal/hx"
	"verifharness/internal/proto"
)

// Local shadowing of names that come from another file.
//
// "An imported macro behaves as if declared in the importing file": a declaration in an inner scope
// of the importing file (a macro parameter, a macro nested in an if / for / macro body, a variable
// of a block, a for-range variable, a variable of a `{%% %%}` block or of a type switch) shadows the
// imported name exactly as it shadows a file-level declaration of the same file. The matrix is
//
//	shadowed thing   macro | var | const | type, declared in another file
//	placement        import "f" | import . "f" | import "f" for N | extends (thing in the child, body in the
//	                 layout) | same file (the thing written in place: the metamorphic twin)
//	local            what shadows it (shLocals)
//	use              direct call | through a value | show | argument | composite literal / var of the type
//	position         after the local declaration | before it (same block) | inside a macro declared in its
//	                 scope | inside a function literal declared in its scope
//
// and every point is decided twice: against the lexical-scope rule (the innermost enclosing
// declaration that precedes the use; Lean: Model/ComposeLocal `resolve`, `innermost_wins`) and
// against its same-file twin (import-vs-inline).

const shName = "Item"

type shThing struct {
	kind string // macro, var, const, type
	decl string // its declaration, in the other file
	use  string // a show that tells the thing apart: prints L (7 for the type)
	code string // the same as a statement of a {%% %%} block
	tag  string
}

var shThings = []shThing{
	{"macro", "{% macro " + shName + " %}L{% end %}", "{{ " + shName + "() }}", "show " + shName + "()", "L"},
	{"var", "{% var " + shName + " = \"L\" %}", "{{ " + shName + " }}", "show " + shName, "L"},
	{"const", "{% const " + shName + " = \"L\" %}", "{{ " + shName + " }}", "show " + shName, "L"},
	{"type", "{% type " + shName + " [7]int %}", "{{ len(" + shName + "{}) }}", "show len(" + shName + "{})", "7"},
}

var shPlacements = []string{"import", "import-dot", "import-for", "extends", "same-file"}

// a local declaration that shadows the name; `open` … BEFORE … `decl` … AFTER … `close`.
type shLocal struct {
	name   string
	class  string // callable, string, type: what the local is
	code   bool   // inside {%% %%}: the uses are statements
	before bool   // there is a place before the declaration in the same block
	open   string
	decl   string
	close  string
	tag    string
}

const shFuncI = "func() html { return \"I\" }"

var shLocals = []shLocal{
	{name: "param-func", class: "callable", open: "{% macro Ap(" + shName + " func() html) %}", close: "{% end %}{{ Ap(" + shFuncI + ") }}", tag: "I"},
	{name: "param-string", class: "string", open: "{% macro Ap(" + shName + " string) %}", close: "{% end %}{{ Ap(\"I\") }}", tag: "I"},
	{name: "macro-in-if", class: "callable", before: true, open: "{% if true %}", decl: "{% macro " + shName + " %}I{% end %}", close: "{% end %}", tag: "I"},
	{name: "macro-in-for", class: "callable", before: true, open: "{% for i := 0; i < 1; i++ %}", decl: "{% macro " + shName + " %}I{% end %}", close: "{% end %}", tag: "I"},
	{name: "macro-in-macro", class: "callable", before: true, open: "{% macro Ou %}", decl: "{% macro " + shName + " %}I{% end %}", close: "{% end %}{{ Ou() }}", tag: "I"},
	{name: "shortvar-func-in-if", class: "callable", before: true, open: "{% if true %}", decl: "{% " + shName + " := " + shFuncI + " %}", close: "{% end %}", tag: "I"},
	{name: "var-func-in-for", class: "callable", before: true, open: "{% for i := 0; i < 1; i++ %}", decl: "{% var " + shName + " = " + shFuncI + " %}", close: "{% end %}", tag: "I"},
	{name: "shortvar-func-in-macro", class: "callable", before: true, open: "{% macro Ou %}", decl: "{% " + shName + " := " + shFuncI + " %}", close: "{% end %}{{ Ou() }}", tag: "I"},
	{name: "range-func", class: "callable", open: "{% for _, " + shName + " := range []func() html{" + shFuncI + "} %}", close: "{% end %}", tag: "I"},
	{name: "code-shortvar-func", class: "callable", code: true, before: true, open: "{%% if true { ", decl: shName + " := " + shFuncI + "; ", close: " } %%}", tag: "I"},
	{name: "code-typeswitch", class: "callable", code: true, open: "{%% switch " + shName + " := any(" + shFuncI + ").(type) { case func() html: ", close: " } %%}", tag: "I"},
	{name: "shortvar-string-in-if", class: "string", before: true, open: "{% if true %}", decl: "{% " + shName + " := \"I\" %}", close: "{% end %}", tag: "I"},
	{name: "var-string-in-macro", class: "string", before: true, open: "{% macro Ou %}", decl: "{% var " + shName + " = \"I\" %}", close: "{% end %}{{ Ou() }}", tag: "I"},
	{name: "range-string", class: "string", open: "{% for _, " + shName + " := range []string{\"I\"} %}", close: "{% end %}", tag: "I"},
	{name: "code-assign-string", class: "string", code: true, before: true, open: "{%% if true { ", decl: shName + " := \"I\"; ", close: " } %%}", tag: "I"},
	{name: "type-in-if", class: "type", before: true, open: "{% if true %}", decl: "{% type " + shName + " [8]int %}", close: "{% end %}", tag: "8"},
	{name: "type-in-macro", class: "type", before: true, open: "{% macro Ou %}", decl: "{% type " + shName + " [8]int %}", close: "{% end %}{{ Ou() }}", tag: "8"},
}

// the uses of the local, by its class: template form, code form, what is printed for tag t
type shUse struct {
	name, tmpl, code string
	print            func(t string) string
	// the expression alone and its type, for the function-literal position
	expr, typ string
}

func shID(t string) string  { return t }
func shAng(t string) string { return "<" + t + ">" }

var shUses = map[string][]shUse{
	"callable": {
		{"call", "{{ " + shName + "() }}", "show " + shName + "(); ", shID, shName + "()", "html"},
		{"value", "{% g := " + shName + " %}{{ g() }}", "g := " + shName + "; show g(); ", shID, "", ""},
		{"arg", "{{ Wh(" + shName + "()) }}", "show Wh(" + shName + "()); ", shAng, "Wh(" + shName + "())", "html"},
	},
	"string": {
		{"show", "{{ " + shName + " }}", "show " + shName + "; ", shID, shName, "string"},
		{"value", "{% g := " + shName + " %}{{ g }}", "g := " + shName + "; show g; ", shID, "", ""},
		{"arg", "{{ Ws(" + shName + ") }}", "show Ws(" + shName + "); ", shAng, "Ws(" + shName + ")", "html"},
	},
	"type": {
		{"literal", "{{ len(" + shName + "{}) }}", "show len(" + shName + "{}); ", shID, "len(" + shName + "{})", "int"},
		{"var-of-type", "{% var g " + shName + " %}{{ len(g) }}", "var g " + shName + "; show len(g); ", shID, "", ""},
	},
}

var shPositions = []string{"after", "before", "in-macro", "in-funclit"}

type shPoint struct {
	thing shThing
	place string
	local shLocal
	use   shUse
	pos   string
}

func (p shPoint) String() string {
	return fmt.Sprintf("shadowed=%s placement=%s local=%s use=%s position=%s", p.thing.kind, p.place, p.local.name, p.use.name, p.pos)
}

func (p shPoint) valid() bool {
	switch p.pos {
	case "before":
		return p.local.before && p.use.name == shUses[p.local.class][0].name // one point per local: the use is the thing's
	case "in-macro":
		return !p.local.code
	case "in-funclit":
		// a type-switch variable captured by a function literal panics at run time whatever its name and
		// with no other file involved (`switch x := any(1).(type) { case int: f := func() int { return x } … }`):
		// not a matter of this property, kept out of the matrix
		return p.use.expr != "" && p.local.name != "code-typeswitch"
	}
	return true
}

// body is the text of the file that holds the local declaration; want is what it prints.
func (p shPoint) body() (src, want string) {
	l := p.local
	helpers := "{% macro Wh(s html) %}<{{ s }}>{% end %}{% macro Ws(s string) %}<{{ s }}>{% end %}"
	var inner, before string
	wantInner, wantBefore := "", ""
	switch p.pos {
	case "after":
		inner = p.use.tmpl
		if l.code {
			inner = p.use.code
		}
		wantInner = p.use.print(l.tag)
	case "before":
		before = p.thing.use
		if l.code {
			before = p.thing.code + "; "
		}
		wantBefore = p.thing.tag
	case "in-macro":
		inner = "{% macro Cl %}" + p.use.tmpl + "{% end %}{{ Cl() }}"
		wantInner = p.use.print(l.tag)
	case "in-funclit":
		if l.code {
			inner = "fl := func() " + p.use.typ + " { return " + p.use.expr + " }; show fl(); "
		} else {
			inner = "{% fl := func() " + p.use.typ + " { return " + p.use.expr + " } %}{{ fl() }}"
		}
		wantInner = p.use.print(l.tag)
	}
	src = helpers + "[" + l.open + before + l.decl + inner + l.close + "]|" + p.thing.use
	want = "[" + wantBefore + wantInner + "]|" + p.thing.tag
	return
}

// build returns the files, the file to run and the expected output.
func (p shPoint) build() (scriggo.Files, string, string) {
	body, want := p.body()
	fs := scriggo.Files{}
	switch p.place {
	case "import":
		fs["lib.html"] = []byte(p.thing.decl)
		fs["index.html"] = []byte(`{% import "lib.html" %}` + body)
	case "import-dot":
		fs["lib.html"] = []byte(p.thing.decl)
		fs["index.html"] = []byte(`{% import . "lib.html" %}` + body)
	case "import-for":
		fs["lib.html"] = []byte(p.thing.decl)
		fs["index.html"] = []byte(`{% import "lib.html" for ` + shName + ` %}` + body)
	case "extends":
		fs["index.html"] = []byte(`{% extends "layout.html" %}` + p.thing.decl)
		fs["layout.html"] = []byte(body)
	case "same-file":
		fs["index.html"] = []byte(p.thing.decl + body)
	}
	return fs, "index.html", "ok " + want
}

// Former finding local-shadow-of-imported-macro-in-closure, repaired by d12f88d (second fix series,
// fixes/C16-local-shadow-of-imported-macro-in-closure.md); the class below is inactive without an entry in
// known_findings.json: every failing point of the matrix is then a violation. emitCallNode took the direct-call
// branch when the callee identifier is not declared in the *current function builder*; a local of an
// enclosing function (an upvar of the closure) that shadows a macro of the package table — an imported
// macro, the child's macro in a layout — is therefore ignored inside a macro / function literal declared
// in its scope, and the imported macro is called. Prediction from the point alone.
const findingShadowClosure = "local-shadow-of-imported-macro-in-closure"

func (p shPoint) predictsShadowClosure() bool {
	return p.thing.kind == "macro" && p.place != "same-file" && p.local.class == "callable" &&
		(p.pos == "in-macro" || p.pos == "in-funclit") && (p.use.name == "call" || p.use.name == "arg")
}

func shadowClosureMinimal() (scriggo.Files, string) {
	return scriggo.Files{
		"index.html": []byte(`{% import "lib.html" %}{% if true %}{% macro Item %}I{% end %}{% macro Cl %}{{ Item() }}{% end %}{{ Cl() }}{% end %}`),
		"lib.html":   []byte(`{% macro Item %}L{% end %}`),
	}, "index.html"
}

func shadowFamily(c *hx.Ctx) {
	res := c.Res
	active := false
	if c.HasFinding(findingShadowClosure) {
		fs, run := shadowClosureMinimal()
		r := runEngine(fs, run, nil, true, nil)
		if r.kind == "ok" && r.out == "L" {
			active = true
			res.AddBreak(proto.Break{Kind: "property", Name: "local-shadows-imported-name", Finding: findingShadowClosure,
				Case: "minimal input of " + findingShadowClosure, Human: filesHuman(fs, run), Impl: r.line(), Model: "ok " + proto.Hex([]byte("I"))})
		}
	}
	reported := 0
	for _, thing := range shThings {
		for _, place := range shPlacements {
			for _, local := range shLocals {
				for _, use := range shUses[local.class] {
					for _, pos := range shPositions {
						p := shPoint{thing: thing, place: place, local: local, use: use, pos: pos}
						if !p.valid() {
							continue
						}
						fs, run, want := p.build()
						r := runEngine(fs, run, nil, true, nil)
						got := "ok " + r.out
						if r.kind != "ok" {
							got = r.line()
						}
						res.Count("shadow "+p.String(), true)
						res.Hist("shadow-" + thing.kind + "-" + local.class)
						res.Hist("shadow-position-" + pos)
						predicted := active && p.predictsShadowClosure()
						if predicted {
							res.Hist("class-precision/" + findingShadowClosure + "/points")
						}
						if got == want {
							continue
						}
						res.Hist("shadow-broken")
						b := proto.Break{Kind: "property", Name: "local-shadows-imported-name",
							Case: p.String(), Human: filesHuman(fs, run), Impl: got, Model: want}
						// the predicted effect: the shadowed macro's output where the local's was expected
						if predicted && got == "ok "+strings.Replace(strings.TrimPrefix(want, "ok "), p.use.print(local.tag), p.use.print(thing.tag), 1) {
							b.Finding = findingShadowClosure
							res.Hist("class-precision/" + findingShadowClosure + "/fail-as-predicted")
						}
						if reported++; reported > 40 && b.Finding == "" {
							continue
						}
						res.AddBreak(b)
					}
				}
			}
		}
	}
}

// ---------------------------------------------------------------- a local named like the package of a qualified import

// Former finding local-shadows-import-package-name, repaired by fb3867f (second fix series,
// fixes/C16-local-shadows-import-package-name.md; class inactive without an entry in known_findings.json): `{% import lib "lib.html" %}` and, in an
// inner scope, a local `lib` with fields: the type checker resolves `lib.Item` / `lib.V` to the local's
// field, the emitter looks `"lib.Item"` / `"lib.V"` up in the package tables first (emitCallNode's selector
// branch, emitExpr's selector case, varStore.nonLocalVarIndex) and takes the imported declaration.
const findingPkgName = "local-shadows-import-package-name"

const selStruct = "struct{ Item func() html; V string }"
const selValue = selStruct + "{ " + shFuncI + ", \"I\" }"

type selPoint struct {
	pkg   string // name the file is imported under: "lib" (shadowed by the local) or "lb" (control)
	local shLocal
	use   shUse
	pos   string
}

func (p selPoint) String() string {
	return fmt.Sprintf("shadowed=package-name import=%s local=%s use=%s position=%s", p.pkg, p.local.name, p.use.name, p.pos)
}

var selLocals = []shLocal{
	{name: "shortvar-struct-in-if", before: true, open: "{% if true %}", decl: "{% lib := " + selValue + " %}", close: "{% end %}"},
	{name: "param-struct", open: "{% macro Ap(lib " + selStruct + ") %}", close: "{% end %}{{ Ap(" + selValue + ") }}"},
	{name: "var-struct-in-macro", before: true, open: "{% macro Ou %}", decl: "{% var lib = " + selValue + " %}", close: "{% end %}{{ Ou() }}"},
}

var selUses = []shUse{
	{name: "call", tmpl: "{{ lib.Item() }}", print: shID},
	{name: "value", tmpl: "{% g := lib.Item %}{{ g() }}", print: shID},
	{name: "arg", tmpl: "{{ Wh(lib.Item()) }}", print: shAng},
	{name: "show-field", tmpl: "{{ lib.V }}", print: shID},
}

func (p selPoint) predicts() bool { return p.pkg == "lib" && p.pos != "before" }

func (p selPoint) build() (scriggo.Files, string, string) {
	l := p.local
	outside := "{{ " + p.pkg + ".Item() }}"
	var before, inner, wb, wi string
	switch p.pos {
	case "after":
		inner, wi = p.use.tmpl, p.use.print("I")
	case "before":
		before, wb = outside, "L"
	case "in-macro":
		inner, wi = "{% macro Cl %}"+p.use.tmpl+"{% end %}{{ Cl() }}", p.use.print("I")
	}
	body := "{% macro Wh(s html) %}<{{ s }}>{% end %}[" + l.open + before + l.decl + inner + l.close + "]|" + outside
	return scriggo.Files{
		"lib.html":   []byte(`{% macro Item %}L{% end %}{% var V = "L" %}`),
		"index.html": []byte(`{% import ` + p.pkg + ` "lib.html" %}` + body),
	}, "index.html", "ok [" + wb + wi + "]|L"
}

func selPkgMinimal() (scriggo.Files, string) {
	return scriggo.Files{
		"index.html": []byte(`{% import lib "lib.html" %}{% if true %}{% lib := struct{ V string }{ "I" } %}{{ lib.V }}{% end %}`),
		"lib.html":   []byte(`{% var V = "L" %}`),
	}, "index.html"
}

func selectorFamily(c *hx.Ctx) {
	res := c.Res
	active := false
	if c.HasFinding(findingPkgName) {
		fs, run := selPkgMinimal()
		r := runEngine(fs, run, nil, true, nil)
		if r.kind == "ok" && r.out == "L" {
			active = true
			res.AddBreak(proto.Break{Kind: "property", Name: "local-shadows-imported-name", Finding: findingPkgName,
				Case: "minimal input of " + findingPkgName, Human: filesHuman(fs, run), Impl: r.line(), Model: "ok " + proto.Hex([]byte("I"))})
		}
	}
	for _, pkg := range []string{"lib", "lb"} {
		for _, local := range selLocals {
			for _, use := range selUses {
				for _, pos := range []string{"after", "before", "in-macro"} {
					if pos == "before" && (!local.before || use.name != "call") {
						continue
					}
					p := selPoint{pkg: pkg, local: local, use: use, pos: pos}
					fs, run, want := p.build()
					r := runEngine(fs, run, nil, true, nil)
					got := "ok " + r.out
					if r.kind != "ok" {
						got = r.line()
					}
					res.Count("shadow "+p.String(), true)
					res.Hist("shadow-package-name")
					predicted := active && p.predicts()
					if predicted {
						res.Hist("class-precision/" + findingPkgName + "/points")
					}
					if got == want {
						continue
					}
					res.Hist("shadow-broken")
					b := proto.Break{Kind: "property", Name: "local-shadows-imported-name",
						Case: p.String(), Human: filesHuman(fs, run), Impl: got, Model: want}
					// the predicted effect: the imported declaration's value where the local's field was expected; for
					// the imported *variable* read inside a function body that read itself panics or reads another
					// slot and comes out empty (finding qualified-imported-var-in-closure)
					if predicted && (got == "ok "+strings.Replace(strings.TrimPrefix(want, "ok "), use.print("I"), use.print("L"), 1) ||
						use.name == "show-field" && (strings.Contains(got, "index out of range") ||
							got == "ok "+strings.Replace(strings.TrimPrefix(want, "ok "), use.print("I"), use.print(""), 1))) {
						b.Finding = findingPkgName
						res.Hist("class-precision/" + findingPkgName + "/fail-as-predicted")
					}
					res.AddBreak(b)
				}
			}
		}
	}
}
