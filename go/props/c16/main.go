package main

import (
	"bytes"
	"fmt"
	"io"
	"path"
	"sort"
	"strconv"
	"strings"

	"github.com/open2b/scriggo"
	"github.com/open2b/scriggo/ast"
	"github.com/open2b/scriggo/native"

	"verifharness/internal/hx"
	"verifharness/internal/proto"
)

// C16: render, import and extends compose like their documented expansions.
//
//   - generated multi-file template sets (libraries that are imported, partials that are rendered,
//     a layout with a child that extends it, a main file; six formats by extension; directories,
//     relative and absolute paths; macros with and without result formats; show sites in every
//     context the wrappers below reach) are built and run on the real engine (scriggo.BuildTemplate
//     over scriggo.Files);
//   - the property's own oracle, on the real engine only: every shown macro call / render gives the
//     same output as "assign to a variable, show the variable" (clause 1); a render in the top-level
//     context of the partial's format is the partial run on its own (clause 2); when the formats
//     differ what is written is what showing a typed value in that context writes (measured through
//     a typed global variable — an independent route), never the raw partial; a file that extends a
//     layout renders as the layout with the child's declarations written in front (clause 3); an
//     import renders as the imported declarations written in place (clause 4);
//   - correspondence: the same sets on the Lean model (Model/Compose.lean with the regenerated
//     guards), the model's abstract escaper being answered from the measurements above; the contexts
//     of the show sites are read from the real parser (UnexpandedTransformer);
//   - validation of the model's hypotheses about the escaper (EscFacts) on the real engine.
func main() { hx.Main("C16", run) }

// ---------------------------------------------------------------- formats and contexts

const (
	fText = iota
	fHTML
	fCSS
	fJS
	fJSON
	fMD
)

var fmtExt = []string{".txt", ".html", ".css", ".js", ".json", ".md"}
var fmtKeyword = []string{"string", "html", "css", "js", "json", "markdown"}
var fmtName = []string{"text", "html", "css", "js", "json", "markdown"}
var ctxName = []string{"text", "html", "css", "js", "json", "markdown", "tag", "quotedAttr", "unquotedAttr",
	"cssString", "jsString", "jsonString", "tabCodeBlock", "spacesCodeBlock", "urlQuoted", "urlUnquoted"}

// contexts 14 and 15: the whole value of a URL attribute (quoted / unquoted), i.e. ContextQuotedAttr /
// ContextUnquotedAttr with the emitter's inURL flag
const (
	ctxURLQuoted   = 14
	ctxURLUnquoted = 15
)

// compatible is the property's notion (independent of the Lean model's definition, same content):
// a value of format type `from` shown in ctx is written as it is / through the converter.
func compatible(from, ctx int) bool {
	return ctx == from || (from == fMD && ctx == int(ast.ContextHTML)) || ctx == int(ast.ContextText)
}

type wrap struct{ pre, post string }

// host text around a show site, by format of the surrounding file or macro body; every wrapper
// leaves the lexer in the top-level context of the format. No URL attributes.
var wraps = [][]wrap{
	fText: {{"", ""}, {"(", ")"}},
	fHTML: {{"", ""}, {"<b>", "</b>"}, {"<a href=\"", "\">t</a>"}, {"<a href=", ">t</a>"}, {"<i title=\"", "\">t</i>"}, {"<i title=", ">t</i>"}, {"<i ", ">t</i>"},
		{"<script>var a = ", ";</script>"}, {"<script>var a = \"", "\";</script>"},
		{"<style>p{content:", "}</style>"}, {"<style>p{content:\"", "\"}</style>"},
		{"<script type=\"application/ld+json\">{\"a\":", "}</script>"},
		{"<script type=\"application/ld+json\">{\"a\":\"", "\"}</script>"}},
	fCSS:  {{"", ""}, {"p{content:", "}"}, {"p{content:\"", "\"}"}},
	fJS:   {{"", ""}, {"var a = ", ";"}, {"var s = \"", "\";"}},
	fJSON: {{"", ""}, {"{\"a\":", "}"}, {"{\"s\":\"", "\"}"}},
	fMD:   {{"", ""}, {"*", "*"}, {"p\n\n\tc ", "\n\nq"}, {"p\n\n    c ", "\n\nq"}},
}

// plain text between sites, by format; balanced so that the lexer is back at top level
var texts = [][]string{
	fText: {"a", "<b>&\"'", "x y", "*_#", "</script>", "1<2"},
	fHTML: {"a", "<b>x</b>", "&amp;", "x \"q\" y", "it's", "*s*", "<p>1 &lt; 2</p>"},
	fCSS:  {"a{}", "/*c*/", "b{c:d}", "i>j{k:l}"},
	fJS:   {"a=1;", "/*c*/", "f(\"s\");", "if(x<y&&z){}", "g('<b>');"},
	fJSON: {"1", "\"s\"", "[1,2]", "\"<b>&\""},
	fMD:   {"a", "*em*", "_u_", "<b>x</b>", "&", "[l]", "1 < 2", "`c`"},
}

// shown constants
var consts = []string{"x", "<b>&\"'", "*_#`", "a b", "</script>", "\\", "a\nb", "<!-- c -->", "é"}

// constant arguments for parameters of a format type
var typedArgs = []string{"x", "a b", "*_#`", "é", "<b>y</b>", "\\", "1"}

// ---------------------------------------------------------------- generated sets

type gatom struct {
	kind   byte     // 'T' text, 'S' shown constant, 'P' shown parameter, 'R' render, 'C' macro call
	param  int      // P: index of the parameter of the enclosing macro
	args   []string // C: constant arguments
	text   string   // T, S
	w      wrap     // S, R, C
	target int      // R: index of the rendered file
	ref    string   // R: the path as written
	macro  int      // C: the name as written (name code, see macroName)
	decl   int      // C: the declaration the generator meant (gitem.id); what the lexical scope says
	viaVar bool     // R, C: {% var v = X %}{{ v }} instead of {{ X }}
	block  byte     // S, P, R, C: 0, or the site sits in the body of 'i' {% if true %} / 'f' {% for … one turn %}
	ctx    int      // S, R, C: context of the Show node, read from the real parser
}

type gitem struct {
	kind   byte // 'A' atom, 'M' macro declaration, 'X' extends, 'I' import
	a      gatom
	id     int     // M: the declaration (unique in the set)
	name   int     // M: the name code; the same unexported name may be declared in several files
	mfmt   int     // M: -1 = no result format
	params []int   // M: parameter types (formats; text = string)
	rank   int     // M: callees have a lower rank (declaration order in sequentially scoped files)
	body   []gatom // M
	target int     // X, I
	ref    string  // X, I
}

type gfile struct {
	path   string
	format int
	role   string // lib, partial, layout, child, main
	items  []gitem
}

type gset struct {
	files []*gfile
}

// macroName writes a name code: even codes are exported names (M0, M1, …), odd codes unexported
// ones (m0, m1, …) — the numbering of Model/Compose.lean (`exported`, `nameInitial`).
func macroName(code int) string {
	if code%2 == 0 {
		return "M" + strconv.Itoa(code/2)
	}
	return "m" + strconv.Itoa(code/2)
}

func exportedName(code int) bool { return code%2 == 0 }

var blockOpen = map[byte]string{'i': "{% if true %}", 'f': "{% for i := 0; i < 1; i++ %}"}

// forEachSite visits the show sites of f in source order (= the order of the Show nodes).
func (f *gfile) forEachSite(fn func(a *gatom)) {
	for i := range f.items {
		it := &f.items[i]
		switch it.kind {
		case 'A':
			if it.a.kind != 'T' {
				fn(&it.a)
			}
		case 'M':
			for j := range it.body {
				if it.body[j].kind != 'T' {
					fn(&it.body[j])
				}
			}
		}
	}
}

func (f *gfile) source() string {
	var b strings.Builder
	nvar := 0
	atom := func(a *gatom) {
		if a.kind != 'T' && a.block != 0 {
			b.WriteString(blockOpen[a.block])
			defer b.WriteString("{% end %}")
		}
		switch a.kind {
		case 'T':
			b.WriteString(a.text)
		case 'S':
			b.WriteString(a.w.pre + "{{ " + strconv.Quote(a.text) + " }}" + a.w.post)
		case 'P':
			b.WriteString(a.w.pre + "{{ p" + strconv.Itoa(a.param) + " }}" + a.w.post)
		case 'R', 'C':
			expr := "render " + strconv.Quote(a.ref)
			if a.kind == 'C' {
				var qs []string
				for _, x := range a.args {
					qs = append(qs, strconv.Quote(x))
				}
				expr = macroName(a.macro) + "(" + strings.Join(qs, ", ") + ")"
			}
			if a.viaVar {
				nvar++
				v := "v" + strconv.Itoa(nvar)
				b.WriteString("{% var " + v + " = " + expr + " %}" + a.w.pre + "{{ " + v + " }}" + a.w.post)
			} else {
				b.WriteString(a.w.pre + "{{ " + expr + " }}" + a.w.post)
			}
		}
	}
	for i := range f.items {
		it := &f.items[i]
		switch it.kind {
		case 'A':
			atom(&it.a)
		case 'M':
			b.WriteString("{% macro " + macroName(it.name))
			if len(it.params) > 0 {
				var ps []string
				for k, t := range it.params {
					ps = append(ps, "p"+strconv.Itoa(k)+" "+fmtKeyword[t])
				}
				b.WriteString("(" + strings.Join(ps, ", ") + ")")
			}
			if it.mfmt >= 0 {
				b.WriteString(" " + fmtKeyword[it.mfmt])
			}
			b.WriteString(" %}")
			for j := range it.body {
				atom(&it.body[j])
			}
			b.WriteString("{% end %}")
		case 'X':
			b.WriteString("{% extends " + strconv.Quote(it.ref) + " %}")
		case 'I':
			b.WriteString("{% import " + strconv.Quote(it.ref) + " %}")
		}
	}
	return b.String()
}

func (s *gset) files_() scriggo.Files {
	fs := scriggo.Files{}
	for _, f := range s.files {
		fs[f.path] = []byte(f.source())
	}
	return fs
}

func (s *gset) human(main string) string {
	var names []string
	src := map[string]string{}
	for _, f := range s.files {
		names = append(names, f.path)
		src[f.path] = f.source()
	}
	sort.Strings(names)
	var b strings.Builder
	fmt.Fprintf(&b, "run %s in {", main)
	for i, n := range names {
		if i > 0 {
			b.WriteString(", ")
		}
		fmt.Fprintf(&b, "%q: %q", n, src[n])
	}
	b.WriteString("}")
	return b.String()
}

// reaches reports whether running file a involves file b (a = b, or through render/import/extends).
func (s *gset) reaches(a, b int) bool {
	if a == b {
		return true
	}
	seen := map[int]bool{}
	var visit func(i int) bool
	visit = func(i int) bool {
		if i == b {
			return true
		}
		if seen[i] {
			return false
		}
		seen[i] = true
		for _, it := range s.files[i].items {
			switch it.kind {
			case 'X', 'I':
				if visit(it.target) {
					return true
				}
			case 'A':
				if it.a.kind == 'R' && visit(it.a.target) {
					return true
				}
			case 'M':
				for _, a := range it.body {
					if a.kind == 'R' && visit(a.target) {
						return true
					}
				}
			}
		}
		return false
	}
	return visit(a)
}

// model encoding (Drv/C16.lean)
func encAtom(a *gatom, b *strings.Builder) {
	flag := func(v bool) string {
		if v {
			return "1"
		}
		return "0"
	}
	switch a.kind {
	case 'T':
		b.WriteString(" T " + proto.Hex([]byte(a.text)))
	case 'S':
		if a.w.pre != "" {
			b.WriteString(" T " + proto.Hex([]byte(a.w.pre)))
		}
		fmt.Fprintf(b, " S %d %s", a.ctx, proto.Hex([]byte(a.text)))
		if a.w.post != "" {
			b.WriteString(" T " + proto.Hex([]byte(a.w.post)))
		}
	case 'P':
		if a.w.pre != "" {
			b.WriteString(" T " + proto.Hex([]byte(a.w.pre)))
		}
		fmt.Fprintf(b, " P %d %d", a.ctx, a.param)
		if a.w.post != "" {
			b.WriteString(" T " + proto.Hex([]byte(a.w.post)))
		}
	case 'R':
		if a.w.pre != "" {
			b.WriteString(" T " + proto.Hex([]byte(a.w.pre)))
		}
		fmt.Fprintf(b, " R %d %d %s", a.ctx, a.target, flag(a.viaVar))
		if a.w.post != "" {
			b.WriteString(" T " + proto.Hex([]byte(a.w.post)))
		}
	case 'C':
		if a.w.pre != "" {
			b.WriteString(" T " + proto.Hex([]byte(a.w.pre)))
		}
		fmt.Fprintf(b, " C %d %d %s %d", a.ctx, a.macro, flag(a.viaVar), len(a.args))
		for _, x := range a.args {
			b.WriteString(" " + proto.Hex([]byte(x)))
		}
		if a.w.post != "" {
			b.WriteString(" T " + proto.Hex([]byte(a.w.post)))
		}
	}
}

func natoms(a *gatom) int {
	n := 1
	if a.kind != 'T' {
		if a.w.pre != "" {
			n++
		}
		if a.w.post != "" {
			n++
		}
	}
	return n
}

func (s *gset) encode() string {
	var b strings.Builder
	fmt.Fprintf(&b, "%d", len(s.files))
	for _, f := range s.files {
		n := 0
		for i := range f.items {
			if f.items[i].kind == 'A' {
				n += natoms(&f.items[i].a)
			} else {
				n++
			}
		}
		fmt.Fprintf(&b, " F %d %d", f.format, n)
		for i := range f.items {
			it := &f.items[i]
			switch it.kind {
			case 'A':
				// a wrapped site is up to three atoms, each its own item
				a := it.a
				if a.kind != 'T' && a.w.pre != "" {
					b.WriteString(" A T " + proto.Hex([]byte(a.w.pre)))
				}
				bare := a
				bare.w = wrap{}
				b.WriteString(" A")
				encAtom(&bare, &b)
				if a.kind != 'T' && a.w.post != "" {
					b.WriteString(" A T " + proto.Hex([]byte(a.w.post)))
				}
			case 'M':
				nb := 0
				for j := range it.body {
					nb += natoms(&it.body[j])
				}
				mf := "-"
				if it.mfmt >= 0 {
					mf = strconv.Itoa(it.mfmt)
				}
				fmt.Fprintf(&b, " M %d %s %d", it.name, mf, len(it.params))
				for _, t := range it.params {
					fmt.Fprintf(&b, " %d", t)
				}
				fmt.Fprintf(&b, " %d", nb)
				for j := range it.body {
					encAtom(&it.body[j], &b)
				}
			case 'X':
				fmt.Fprintf(&b, " X %d", it.target)
			case 'I':
				fmt.Fprintf(&b, " I %d", it.target)
			}
		}
	}
	return b.String()
}

// ---------------------------------------------------------------- the real engine

func mdConverter(src []byte, out io.Writer) error {
	_, err := out.Write([]byte("<md>" + string(src) + "</md>"))
	return err
}

type engineResult struct {
	kind string // ok, builderr, runerr, panic
	out  string
	msg  string
}

func (r engineResult) line() string {
	if r.kind == "ok" {
		return "ok " + proto.Hex([]byte(r.out))
	}
	return "err " + r.kind + " " + r.msg
}

// runEngine builds and runs name. ctxs, when not nil, receives for every parsed file the contexts
// of its Show nodes in source order.
func runEngine(files scriggo.Files, name string, globals native.Declarations, conv bool, ctxs map[string][]int) (res engineResult) {
	defer func() {
		if r := recover(); r != nil {
			res = engineResult{kind: "panic", msg: fmt.Sprint(r)}
		}
	}()
	opts := &scriggo.BuildOptions{Globals: globals}
	if conv {
		opts.MarkdownConverter = mdConverter
	}
	if ctxs != nil {
		opts.UnexpandedTransformer = func(tree *ast.Tree) error {
			var list []int
			inURL := false
			var walk func(nodes []ast.Node)
			walk = func(nodes []ast.Node) {
				for _, n := range nodes {
					switch n := n.(type) {
					case *ast.URL:
						inURL = true
						walk(n.Value)
						inURL = false
					case *ast.Show:
						ctx := int(n.Context)
						if inURL && n.Context == ast.ContextQuotedAttr {
							ctx = ctxURLQuoted
						} else if inURL && n.Context == ast.ContextUnquotedAttr {
							ctx = ctxURLUnquoted
						}
						list = append(list, ctx)
					case *ast.Func:
						if n.Body != nil {
							walk(n.Body.Nodes)
						}
					case *ast.Block:
						walk(n.Nodes)
					case *ast.Statements:
						walk(n.Nodes)
					case *ast.If:
						if n.Then != nil {
							walk(n.Then.Nodes)
						}
						if n.Else != nil {
							walk([]ast.Node{n.Else})
						}
					case *ast.For:
						walk(n.Body)
					case *ast.ForRange:
						walk(n.Body)
					case *ast.ForIn:
						walk(n.Body)
					}
				}
			}
			walk(tree.Nodes)
			ctxs[tree.Path] = list
			return nil
		}
	}
	t, err := scriggo.BuildTemplate(files, name, opts)
	if err != nil {
		return engineResult{kind: "builderr", msg: err.Error()}
	}
	var b bytes.Buffer
	if err := t.Run(&b, nil, nil); err != nil {
		return engineResult{kind: "runerr", msg: err.Error()}
	}
	return engineResult{kind: "ok", out: b.String()}
}

// ---------------------------------------------------------------- the escaper, measured

// one canonical host per context: file extension, text before and after the show
var ctxHost = []struct {
	format    int
	pre, post string
}{
	ast.ContextText:            {fText, "[", "]"},
	ast.ContextHTML:            {fHTML, "[", "]"},
	ast.ContextCSS:             {fCSS, "p{content:", "}"},
	ast.ContextJS:              {fJS, "var a = ", ";"},
	ast.ContextJSON:            {fJSON, "{\"a\":", "}"},
	ast.ContextMarkdown:        {fMD, "[", "]"},
	ast.ContextTag:             {fHTML, "<i ", ">"},
	ast.ContextQuotedAttr:      {fHTML, "<i title=\"", "\">"},
	ast.ContextUnquotedAttr:    {fHTML, "<i title=", ">"},
	ast.ContextCSSString:       {fCSS, "p{content:\"", "\"}"},
	ast.ContextJSString:        {fJS, "var s = \"", "\";"},
	ast.ContextJSONString:      {fJSON, "{\"s\":\"", "\"}"},
	ast.ContextTabCodeBlock:    {fMD, "p\n\n\tc ", "\n\nq"},
	ast.ContextSpacesCodeBlock: {fMD, "p\n\n    c ", "\n\nq"},
	ctxURLQuoted:               {fHTML, "<a href=\"", "\">"},
	ctxURLUnquoted:             {fHTML, "<a href=", ">"},
}

type escKey struct {
	from, ctx int
	content   string
}

type measurer struct {
	cache map[escKey]string
	n     int
}

// typed returns content as a value of the format type of `from`.
func typed(from int, content string) any {
	switch from {
	case fHTML:
		v := native.HTML(content)
		return &v
	case fCSS:
		v := native.CSS(content)
		return &v
	case fJS:
		v := native.JS(content)
		return &v
	case fJSON:
		v := native.JSON(content)
		return &v
	case fMD:
		v := native.Markdown(content)
		return &v
	}
	v := content
	return &v
}

// esc is showIn<ctx> on a value of the format type of `from`, measured on the real engine by
// showing a global variable of that type — no macro, no render involved.
func (m *measurer) esc(from, ctx int, content string) (string, error) {
	k := escKey{from, ctx, content}
	if s, ok := m.cache[k]; ok {
		return s, nil
	}
	h := ctxHost[ctx]
	name := "h" + fmtExt[h.format]
	ctxs := map[string][]int{}
	res := runEngine(scriggo.Files{name: []byte(h.pre + "{{ v }}" + h.post)}, name, native.Declarations{"v": typed(from, content)}, true, ctxs)
	if res.kind != "ok" {
		return "", fmt.Errorf("measuring showIn %s of a %s value: %s", ctxName[ctx], fmtName[from], res.line())
	}
	if len(ctxs[name]) != 1 || ctxs[name][0] != ctx {
		return "", fmt.Errorf("measuring host for %s has contexts %v", ctxName[ctx], ctxs[name])
	}
	if !strings.HasPrefix(res.out, h.pre) || !strings.HasSuffix(res.out, h.post) || len(res.out) < len(h.pre)+len(h.post) {
		return "", fmt.Errorf("measuring host for %s: output %q", ctxName[ctx], res.out)
	}
	s := res.out[len(h.pre) : len(res.out)-len(h.post)]
	m.cache[k] = s
	m.n++
	return s, nil
}

// ---------------------------------------------------------------- generator

type genState struct {
	c         *hx.Ctx
	set       *gset
	nextMac   int
	macFmt    map[int]int   // macro id -> result format
	macParams map[int][]int // macro id -> parameter types
	macName   map[int]int   // macro id -> name code
	used      map[*gfile]map[int]bool // names declared in a file
}

// lowerPool: the unexported names the generator draws from. Small, so that the same name is declared
// in several files of one set (imported file, importer, rendered partial, child and layout).
var lowerPool = []int{1, 3, 5}

func exportedOnly(g *genState, ids []int) []int {
	var out []int
	for _, id := range ids {
		if exportedName(g.macName[id]) {
			out = append(out, id)
		}
	}
	return out
}

func (g *genState) pick(n int) int { return g.c.R.Intn(n) }

var dirs = []string{"", "", "a/", "a/b/", "c/"}

// refTo writes a reference from the file at path `from` to the file at path `to`, absolute or relative.
func (g *genState) refTo(from, to string) string {
	if g.pick(3) == 0 {
		return "/" + to
	}
	fd := strings.Split(strings.TrimSuffix(path.Dir(from), "."), "/")
	if fd[0] == "" {
		fd = nil
	}
	td := strings.Split(to, "/")
	i := 0
	for i < len(fd) && i < len(td)-1 && fd[i] == td[i] {
		i++
	}
	rel := strings.Repeat("../", len(fd)-i) + strings.Join(td[i:], "/")
	return rel
}

// atoms generates the body of a macro or the top level of a file. format is the format whose
// top-level context surrounds the atoms; params are the parameter types of the enclosing macro.
func (g *genState) atoms(self *gfile, format int, n int, macros []int, partials []int, params []int) []gatom {
	var out []gatom
	text := func() {
		out = append(out, gatom{kind: 'T', text: texts[format][g.pick(len(texts[format]))]})
	}
	for i := 0; i < n; i++ {
		ws := wraps[format]
		w := ws[0]
		if g.pick(2) == 0 {
			w = ws[g.pick(len(ws))]
		}
		switch k := g.pick(10); {
		case k < 2:
			text()
		case k < 4:
			if len(params) > 0 && g.pick(2) == 0 {
				out = append(out, gatom{kind: 'P', param: g.pick(len(params)), w: w})
			} else {
				out = append(out, gatom{kind: 'S', text: consts[g.pick(len(consts))], w: w})
			}
		case k < 7 && len(partials) > 0:
			t := partials[g.pick(len(partials))]
			if strings.Contains(w.pre, "href=") {
				// a render inside a URL attribute compiles the partial with the emitter's inURL flag
				// (finding render-inherits-inurl): kept out of the modelled stream
				w = ws[0]
			}
			out = append(out, gatom{kind: 'R', target: t, ref: g.refTo(self.path, g.set.files[t].path), w: w, viaVar: g.pick(3) == 0})
		case len(macros) > 0:
			id := macros[g.pick(len(macros))]
			var args []string
			for _, t := range g.macParams[id] {
				if t == fText {
					args = append(args, consts[g.pick(len(consts))])
				} else {
					// a typed argument is trusted content of that format: keep it well formed (an unclosed
					// HTML comment in HTML content is a run-time error when shown in Markdown)
					args = append(args, typedArgs[g.pick(len(typedArgs))])
				}
			}
			a := gatom{kind: 'C', macro: g.macName[id], decl: id, args: args, w: w, viaVar: g.pick(3) == 0}
			if g.pick(6) == 0 {
				a.block = "if"[g.pick(2)]
			}
			out = append(out, a)
		default:
			text()
		}
		// keep sites apart from each other by a little text most of the time
		if g.pick(3) > 0 {
			text()
		}
	}
	// every parameter is shown at least sometimes
	if len(params) > 0 && g.pick(2) == 0 {
		out = append(out, gatom{kind: 'P', param: g.pick(len(params)), w: wraps[format][0]})
	}
	return out
}

func (g *genState) newFile(role string, format int) *gfile {
	f := &gfile{role: role, format: format}
	f.path = dirs[g.pick(len(dirs))] + role[:1] + strconv.Itoa(len(g.set.files)) + fmtExt[format]
	g.set.files = append(g.set.files, f)
	return f
}

func (g *genState) index(f *gfile) int {
	for i, x := range g.set.files {
		if x == f {
			return i
		}
	}
	return -1
}

// newMacro reserves a macro: name, result format (explicit or the file's) and parameter types.
func (g *genState) newMacro(f *gfile) (id, mfmt int) {
	id = g.nextMac
	g.nextMac++
	// the name: exported and unique in the set, or (1 in 3) an unexported one of the pool that this file
	// does not declare yet — other files of the set may
	name := 2 * id
	if g.used[f] == nil {
		g.used[f] = map[int]bool{}
	}
	if g.pick(3) == 0 {
		var free []int
		for _, n := range lowerPool {
			if !g.used[f][n] {
				free = append(free, n)
			}
		}
		if len(free) > 0 {
			name = free[g.pick(len(free))]
			g.c.Res.Hist("macro-name-unexported")
		}
	}
	g.used[f][name] = true
	g.macName[id] = name
	mfmt = -1
	bodyFmt := f.format
	if g.pick(2) == 0 {
		mfmt = g.pick(6)
		bodyFmt = mfmt
	}
	g.macFmt[id] = bodyFmt
	var ps []int
	if g.pick(3) == 0 {
		for k := 0; k < 1+g.pick(2); k++ {
			ps = append(ps, []int{fText, fText, fHTML, fMD, fJS}[g.pick(5)])
		}
	}
	g.macParams[id] = ps
	return
}

// macroDecl appends to f the declaration of a reserved macro.
func (g *genState) macroDecl(f *gfile, id, mfmt, rank int, macros, partials []int) {
	body := g.atoms(f, g.macFmt[id], 1+g.pick(3), macros, partials, g.macParams[id])
	f.items = append(f.items, gitem{kind: 'M', id: id, name: g.macName[id], mfmt: mfmt, params: g.macParams[id], rank: rank, body: body})
}

func (g *genState) ws(f *gfile) {
	// whitespace between the declarations of an imported / extending file: dropped by the engine
	sp := []string{"", " ", "\n", "  ", " \n "}
	if s := sp[g.pick(len(sp))]; s != "" {
		f.items = append(f.items, gitem{kind: 'A', a: gatom{kind: 'T', text: s}})
	}
}

func (g *genState) importItem(f *gfile, lib int) {
	f.items = append(f.items, gitem{kind: 'I', target: lib, ref: g.refTo(f.path, g.set.files[lib].path)})
}

// packageDecls appends k macro declarations with package scope (imported and extending files): a
// macro may call the macros of the file that have a lower rank, wherever they are declared — forward
// references included — and the macros in vis.
func (g *genState) packageDecls(f *gfile, k int, vis, partials []int) (own []int) {
	ids := make([]int, k)
	mf := make([]int, k)
	for i := range ids {
		ids[i], mf[i] = g.newMacro(f)
	}
	rank := make([]int, k)
	for i := range rank {
		rank[i] = i
	}
	for i := k - 1; i > 0; i-- {
		j := g.pick(i + 1)
		rank[i], rank[j] = rank[j], rank[i]
	}
	for i := range ids {
		callable := append([]int{}, vis...)
		for j := range ids {
			if rank[j] < rank[i] {
				callable = append(callable, ids[j])
				if j > i {
					g.c.Res.Hist("forward-reference-possible")
				}
			}
		}
		g.macroDecl(f, ids[i], mf[i], rank[i], callable, partials)
		g.ws(f)
	}
	return ids
}

// generate builds one set. Roles: libs are only imported; partials are only rendered; the layout is
// only extended; child and main are only run.
func generate(c *hx.Ctx) *gset {
	g := &genState{c: c, set: &gset{}, macFmt: map[int]int{}, macParams: map[int][]int{}, macName: map[int]int{}, used: map[*gfile]map[int]bool{}}
	randFmt := func() int {
		// html and text more often
		return []int{fHTML, fHTML, fHTML, fText, fText, fMD, fMD, fJS, fCSS, fJSON}[g.pick(10)]
	}
	exports := map[int][]int{} // file index -> exported macro ids
	var libs, partials []int

	newLib := func(parts []int) {
		f := g.newFile("lib", randFmt())
		var vis []int
		g.ws(f)
		for _, l := range libs {
			if g.pick(2) == 0 {
				g.importItem(f, l)
				vis = append(vis, exports[l]...)
				g.ws(f)
			}
		}
		own := g.packageDecls(f, 1+g.pick(3), vis, parts)
		idx := g.index(f)
		exports[idx] = exportedOnly(g, own) // an importer sees the exported names only
		libs = append(libs, idx)
	}
	nlibs := g.pick(3)
	for i := 0; i < nlibs; i++ {
		newLib(nil)
	}

	fileBody := func(f *gfile, n int, extraMacros []int) {
		vis := append([]int{}, extraMacros...)
		for _, l := range libs {
			if g.pick(2) == 0 {
				g.importItem(f, l)
				vis = append(vis, exports[l]...)
			}
		}
		seq := 0
		for k := 0; k < n; k++ {
			if g.pick(4) == 0 {
				id, mf := g.newMacro(f)
				g.macroDecl(f, id, mf, seq, vis, partials)
				seq++
				vis = append(vis, id)
				continue
			}
			for _, a := range g.atoms(f, f.format, 1, vis, partials, nil) {
				f.items = append(f.items, gitem{kind: 'A', a: a})
			}
		}
	}

	nparts := 1 + g.pick(4)
	for i := 0; i < nparts; i++ {
		f := g.newFile("partial", randFmt())
		fileBody(f, 1+g.pick(4), nil)
		partials = append(partials, g.index(f))
	}
	// macro bodies of libraries may render partials too: one more library after the partials
	if g.pick(2) == 0 {
		newLib(partials)
	}

	if g.pick(3) > 0 {
		// layout + child
		lfmt := []int{fHTML, fHTML, fText, fMD, fJS}[g.pick(5)]
		cfmt := lfmt
		if lfmt == fHTML && g.pick(3) == 0 {
			cfmt = fMD // a Markdown file may extend an HTML layout
		}
		child := &gfile{role: "child", format: cfmt}
		layout := g.newFile("layout", lfmt)
		child.path = dirs[g.pick(len(dirs))] + "c" + strconv.Itoa(len(g.set.files)) + fmtExt[cfmt]
		g.set.files = append(g.set.files, child)
		child.items = append(child.items, gitem{kind: 'X', target: g.index(layout), ref: g.refTo(child.path, layout.path)})
		var vis []int
		g.ws(child)
		if g.pick(2) == 0 {
			for _, l := range libs {
				if g.pick(2) == 0 {
					g.importItem(child, l)
					vis = append(vis, exports[l]...)
					g.ws(child)
				}
			}
		}
		own := g.packageDecls(child, 1+g.pick(3), vis, partials)
		fileBody(layout, 2+g.pick(4), exportedOnly(g, own))
	}
	main := g.newFile("main", randFmt())
	fileBody(main, 2+g.pick(5), nil)
	return g.set
}

// ---------------------------------------------------------------- expansions (the property's oracle)

// absRef rewrites a reference of file `from` into an absolute one.
func absRef(from, ref string) string {
	if strings.HasPrefix(ref, "/") {
		return ref
	}
	return "/" + path.Join(path.Dir(from), ref)
}

// declItems returns the imports (made absolute) and the macro declarations (result format made
// explicit, render references made absolute) of f, as they read inside another file. The unexported
// names of f are private to f: written into another file they are α-renamed to names nobody else
// uses (m5000, m5001, …), in the declarations and in the calls of f's bodies (inside f a name that f
// declares resolves to f's declaration).
func declItems(f *gfile) (imports, decls []gitem) {
	ren := map[int]int{}
	for _, it := range f.items {
		if it.kind == 'M' && !exportedName(it.name) {
			ren[it.name] = 2*(5000+len(ren)) + 1
		}
	}
	for _, it := range f.items {
		switch it.kind {
		case 'I':
			it.ref = absRef(f.path, it.ref)
			imports = append(imports, it)
		case 'M':
			if it.mfmt < 0 {
				it.mfmt = f.format
			}
			body := make([]gatom, len(it.body))
			for j, a := range it.body {
				if a.kind == 'R' {
					a.ref = absRef(f.path, a.ref)
				}
				if n, ok := ren[a.macro]; ok && a.kind == 'C' {
					a.macro = n
				}
				body[j] = a
			}
			it.body = body
			if n, ok := ren[it.name]; ok {
				it.name = n
			}
			decls = append(decls, it)
		}
	}
	return
}

// emptyLib is the path of an empty file of the given format: what the import that an expansion replaces
// is pointed to (see expansion). Callers add it to the file set with withEmptyLib.
func emptyLib(format int) string { return "zz/zzempty" + fmtExt[format] }

func withEmptyLib(fs scriggo.Files, format int) scriggo.Files {
	fs[emptyLib(format)] = []byte{}
	return fs
}

// expansion writes host with the declarations of `from` in it. skip is the index of the item of host
// that is replaced (-1: none, for extends).
//
// The prologue of host — everything up to its last extends/import — keeps its layout token for token:
// a template file takes imports only at its beginning, so the declarations cannot stand where the
// replaced import stood; that import is pointed to an empty file of the same format instead (it declares
// nothing), and from's imports (duplicates dropped) and declarations are written right behind host's
// last import, before the text that followed it. Nothing but statements is inserted, and no text of host
// is moved: the lines of host begin as they did. (The text pieces between the imports used to be joined
// behind the declarations: " \n " + "\n" + "  " + "  " is a blank line and a line indented by four spaces —
// in a Markdown file an indented code block, where a macro declaration is a syntax error. That was an
// artefact of the twin, hidden while every non-comparable expansion was attributed to the finding
// macro-format-context-after-tag.)
func expansion(host *gfile, skip int, from *gfile, newPath string) *gfile {
	out := &gfile{path: newPath, format: host.format, role: "main"}
	seen := map[string]bool{}
	fix := func(it gitem) gitem {
		if it.kind == 'A' && it.a.kind == 'R' {
			it.a.ref = absRef(host.path, it.a.ref)
		}
		if it.kind == 'M' {
			body := make([]gatom, len(it.body))
			for j, a := range it.body {
				if a.kind == 'R' {
					a.ref = absRef(host.path, a.ref)
				}
				body[j] = a
			}
			it.body = body
		}
		return it
	}
	last := -1
	for i, it := range host.items {
		if it.kind == 'I' || it.kind == 'X' {
			last = i
		}
	}
	for i := 0; i <= last; i++ {
		it := host.items[i]
		switch {
		case it.kind == 'X':
			it.ref = absRef(host.path, it.ref)
		case it.kind == 'I' && i == skip:
			it.ref = "/" + emptyLib(from.format)
		case it.kind == 'I':
			it.ref = absRef(host.path, it.ref)
			seen[it.ref] = true
		default:
			it = fix(it)
		}
		out.items = append(out.items, it)
	}
	imps, decls := declItems(from)
	// from has package scope: written into a sequentially scoped file its declarations go in
	// dependency order (callees first)
	sort.SliceStable(decls, func(i, j int) bool { return decls[i].rank < decls[j].rank })
	for _, it := range imps {
		abs := absRef(from.path, it.ref)
		if seen[abs] {
			continue
		}
		seen[abs] = true
		it.ref = abs
		out.items = append(out.items, it)
	}
	out.items = append(out.items, decls...)
	for i := last + 1; i < len(host.items); i++ {
		if i == skip {
			continue
		}
		out.items = append(out.items, fix(host.items[i]))
	}
	return out
}

// ---------------------------------------------------------------- run

func run(c *hx.Ctx) error {
	res := c.Res
	res.Rule = "generated multi-file sets: 0-3 libraries (imported), 1-4 partials (rendered, nested up to depth 4), optionally a layout with a child that extends it (Markdown child on HTML layout included), a main file; formats text/html/css/js/json/markdown by extension; directories with relative and absolute references; macros with and without result format and with 0-2 parameters (string or format types, constant arguments), with package scope and forward references in imported and extending files; macro names exported (unique in the set) or unexported from a pool of three, so that the same private name is declared in several files of a set; two deterministic name-collision matrices (collide.go): 86 sets placement x reference site x declaration order in the modelled language, and 1080 points declaration kind x case x importer-declares x placement x site on the engine against the lexical-scope rule; a 2620-point local-shadowing matrix and a 52-point package-name matrix (shadow.go); a 1728-point matrix reach form x macro format x context x call form against the inline twin and the measured escaper (reach.go); show sites (constant, parameter, macro call, render; direct or through a variable) wrapped so as to sit in top-level, attribute, tag, script, style, string and code-block contexts. A case = one run of one file of a set (or of one of its expansions); non-trivial when the file contains at least one macro call or render site; distinct by the sources of the set plus the file run"
	m := &measurer{cache: map[escKey]string{}}

	// ---- known findings: replay the recorded minimal inputs
	if c.HasFinding("render-fastpath-format") {
		fs := scriggo.Files{"a.html": []byte(`{{ render "x.txt" }}`), "b.html": []byte(`{% var v = render "x.txt" %}{{ v }}`), "x.txt": []byte("<")}
		a := runEngine(fs, "a.html", nil, true, nil)
		b := runEngine(fs, "b.html", nil, true, nil)
		if a.line() != b.line() && a.out == "<" {
			res.AddBreak(proto.Break{Kind: "property", Name: "show-eq-var", Finding: "render-fastpath-format",
				Case: "files a.html={{ render \"x.txt\" }} x.txt=<", Human: `{{ render "x.txt" }} in a.html, x.txt = "<"`,
				Impl: a.line(), Model: b.line()})
		}
	}
	if c.HasFinding("md-fastpath-no-converter") {
		fs := scriggo.Files{"a.html": []byte(`{{ render "x.md" }}`), "b.html": []byte(`{% var v = render "x.md" %}{{ v }}`), "x.md": []byte("# t")}
		a := runEngine(fs, "a.html", nil, false, nil)
		b := runEngine(fs, "b.html", nil, false, nil)
		if a.line() != b.line() {
			res.AddBreak(proto.Break{Kind: "property", Name: "show-eq-var", Finding: "md-fastpath-no-converter",
				Case: "files a.html={{ render \"x.md\" }} x.md=# t, no MarkdownConverter", Human: `{{ render "x.md" }} in a.html without a Markdown converter`,
				Impl: a.line(), Model: b.line()})
		}
	}

	for _, q := range []string{"\"", ""} {
		// risky: a partial first rendered inside a URL attribute, then in plain HTML
		fs := scriggo.Files{"a.html": []byte(`<a href=` + q + `{{ render "p.html" }}` + q + `>x</a>[{{ render "p.html" }}]`), "p.html": []byte(`{{ "a b<" }}`)}
		a := runEngine(fs, "a.html", nil, true, nil)
		p := runEngine(fs, "p.html", nil, true, nil)
		res.Count("render-in-url"+q, true)
		if a.kind != "ok" || p.kind != "ok" || !strings.HasSuffix(a.out, "["+p.out+"]") {
			b := proto.Break{Kind: "property", Name: "render-eq-standalone", Case: "a.html=" + string(fs["a.html"]) + " p.html=" + string(fs["p.html"]),
				Human: "the second {{ render \"p.html\" }} (HTML context) must print p.html run on its own", Impl: a.line(), Model: "…[" + p.out + "]"}
			if shown, err := m.esc(fText, ctxURLUnquoted, "a b<"); /* the leaked show keeps p's own context, so pathEscape runs unquoted */ err == nil && a.kind == "ok" && strings.HasSuffix(a.out, "["+shown+"]") {
				b.Finding = c.Known("render-inherits-inurl")
			}
			res.AddBreak(b)
		}
	}
	if c.HasFinding("macro-defer-loses-output") {
		src := "{% macro M %}a{% defer func() {}() %}b{% end %}{% var s string = string(M()) %}[{{ s }}]"
		a := runEngine(scriggo.Files{"a.txt": []byte(src)}, "a.txt", nil, true, nil)
		if a.kind == "ok" && a.out == "[]" {
			res.AddBreak(proto.Break{Kind: "property", Name: "show-eq-var", Finding: "macro-defer-loses-output",
				Case: "a.txt=" + src, Human: src, Impl: a.line(), Model: "ok " + proto.Hex([]byte("[ab]"))})
		}
	}
	if c.HasFinding("macro-format-context-after-tag") {
		if x, y, rep := ctxFindingReproduces(); rep {
			res.AddBreak(proto.Break{Kind: "property", Name: "import-eq-declaration-in-place", Finding: "macro-format-context-after-tag",
				Case: "lib.md={% macro M markdown %}<b>x</b>{{ \"*\" }}{% end %} imported in a.html against declared in b.html", Human: "the same macro declaration imported from lib.md and written in the HTML file", Impl: x, Model: y})
		}
	}

	// ---- the model's hypotheses about the escaper, on the real engine (spec validation)
	witnesses := []string{"<b>&\"'*_ \n\\x", "", "a"}
	for from := 0; from < 6; from++ {
		for ctx := 0; ctx < len(ctxHost); ctx++ {
			differs := false
			for _, w := range witnesses {
				s, err := m.esc(from, ctx, w)
				if err != nil {
					return err
				}
				res.SpecChecks["escfacts-evaluations"]++
				switch {
				case from == fMD && ctx == int(ast.ContextHTML):
					if s != "<md>"+w+"</md>" {
						res.AddBreak(proto.Break{Kind: "correspondence", Name: "EscFacts.mdhtml", Case: fmt.Sprintf("esc markdown html %q", w), Impl: s, Model: "<md>" + w + "</md>"})
					}
				case compatible(from, ctx):
					if s != w {
						res.AddBreak(proto.Break{Kind: "correspondence", Name: "EscFacts.same/text", Case: fmt.Sprintf("esc %s %s %q", fmtName[from], ctxName[ctx], w), Impl: s, Model: w})
					}
				default:
					differs = differs || s != w
				}
			}
			if !compatible(from, ctx) && !differs {
				res.AddBreak(proto.Break{Kind: "correspondence", Name: "EscFacts.differ", Case: fmt.Sprintf("esc %s %s", fmtName[from], ctxName[ctx]), Impl: "no witness changed", Model: "some content changes"})
			}
		}
	}

	// ---- the regenerated guards, as the driver sees them
	guard := map[[3]int]bool{} // (isRender, from, ctx) -> fast path taken
	if c.D != nil {
		var lines []string
		for from := 0; from < 6; from++ {
			for ctx := 0; ctx < len(ctxHost); ctx++ {
				lines = append(lines, fmt.Sprintf("C16 site %d %d 3c", from, ctx))
			}
		}
		ans, err := c.D.Batch(lines)
		if err != nil {
			return err
		}
		i := 0
		for from := 0; from < 6; from++ {
			for ctx := 0; ctx < len(ctxHost); ctx++ {
				f := strings.Fields(ans[i])
				i++
				if len(f) != 6 || f[0] != "ok" {
					return fmt.Errorf("driver: site %d %d: %q", from, ctx, ans[i-1])
				}
				guard[[3]int{0, from, ctx}] = f[1] == "1"
				guard[[3]int{1, from, ctx}] = f[2] == "1"
				if (f[4] == "1") != compatible(from, ctx) {
					res.AddBreak(proto.Break{Kind: "correspondence", Name: "compatible", Case: lines[i-1], Impl: fmt.Sprint(compatible(from, ctx)), Model: f[4]})
				}
			}
		}
	}

	// ---- name collisions across the files of one build (collide.go): the two deterministic matrices
	lexicalFamily(c)
	shadowFamily(c)
	selectorFamily(c)
	if err := reachFamily(c, m); err != nil {
		return err
	}
	csets, clabels := collisionSets()
	for i, set := range csets {
		res.Hist("collision-set")
		before := len(res.Breaks)
		if err := checkSet(c, m, set, 1+i); err != nil {
			return fmt.Errorf("collision set %s: %v", clabels[i], err)
		}
		for j := before; j < len(res.Breaks); j++ {
			res.Breaks[j].Case = "collision matrix " + clabels[i] + ": " + res.Breaks[j].Case
		}
	}

	nsets := c.N(120, 3000)
	for si := 0; si < nsets; si++ {
		set := generate(c)
		if err := checkSet(c, m, set, si); err != nil {
			return err
		}
	}
	// ---- risky stream: macros with a deferred call (not modelled; engine oracle only)
	if err := deferStream(c, m, guard); err != nil {
		return err
	}
	// ---- malformed stream: the error classes of the model against the engine's
	if err := malformed(c, m); err != nil {
		return err
	}
	res.Histogram["escaper-measurements"] = m.n
	return nil
}

// fillContexts builds every file once on the real engine to read the contexts of the show sites.
func fillContexts(set *gset, files scriggo.Files) error {
	for _, f := range set.files {
		ctxs := map[string][]int{}
		// parse this file alone: the transformer runs before expansion, so the other files are not needed
		// for its own contexts, but they must exist; build with the whole set and ignore build errors of roles
		// that cannot be run on their own (layout, lib).
		runEngine(files, f.path, nil, true, ctxs)
		list, ok := ctxs[f.path]
		if !ok {
			return fmt.Errorf("no contexts for %s", f.path)
		}
		i := 0
		bad := false
		f.forEachSite(func(a *gatom) {
			if i < len(list) {
				a.ctx = list[i]
			} else {
				bad = true
			}
			i++
		})
		if bad || i != len(list) {
			return fmt.Errorf("%s: %d show sites generated, %d Show nodes parsed: %q", f.path, i, len(list), f.source())
		}
	}
	return nil
}

// askModel runs `op` (run|gen) for file main on the model, answering its escaper requests from
// measurements on the real engine.
func askModel(c *hx.Ctx, m *measurer, op string, enc string, main int) (string, string, error) {
	type entry struct {
		from, ctx  int
		content, s string
	}
	var table []entry
	for iter := 0; iter < 400; iter++ {
		var b strings.Builder
		fmt.Fprintf(&b, "C16 %s %d 12 %s %d", op, main, enc, len(table))
		for _, e := range table {
			fmt.Fprintf(&b, " %d %d %s %s", e.from, e.ctx, proto.Hex([]byte(e.content)), proto.Hex([]byte(e.s)))
		}
		line := b.String()
		ans, err := c.D.Ask(line)
		if err != nil {
			return "", "", err
		}
		f := strings.Fields(ans)
		if len(f) == 5 && f[0] == "err" && f[1] == "need" {
			from, _ := strconv.Atoi(f[2])
			ctx, _ := strconv.Atoi(f[3])
			content, err := proto.UnHex(f[4])
			if err != nil {
				return "", "", fmt.Errorf("driver: %q", ans)
			}
			s, err := m.esc(from, ctx, string(content))
			if err != nil {
				return "", "", err
			}
			table = append(table, entry{from, ctx, string(content), s})
			continue
		}
		if len(f) == 3 && f[0] == "ok" {
			return "ok " + f[2], line, nil
		}
		return ans, line, nil
	}
	return "", "", fmt.Errorf("model keeps asking for escaper entries")
}

// modelClass maps an engine failure to the model's error names.
func engineClass(r engineResult) string {
	switch {
	case r.kind == "ok":
		return r.line()
	case strings.Contains(r.msg, "does not exist"):
		return "err nofile"
	case strings.Contains(r.msg, "undefined: M"), strings.Contains(r.msg, "undefined: m"):
		return "err undefined"
	case strings.Contains(r.msg, "can not have extends"), strings.Contains(r.msg, "instead of"):
		return "err badextends"
	case strings.Contains(r.msg, "not enough arguments"), strings.Contains(r.msg, "too many arguments"):
		return "err badargs"
	}
	return r.line()
}

func hasSites(f *gfile) bool {
	n := 0
	f.forEachSite(func(a *gatom) {
		if a.kind == 'R' || a.kind == 'C' {
			n++
		}
	})
	return n > 0
}

func checkSet(c *hx.Ctx, m *measurer, set *gset, si int) error {
	res := c.Res
	files := set.files_()
	if err := fillContexts(set, files); err != nil {
		return err
	}
	enc := set.encode()
	res.Hist(fmt.Sprintf("files-%d", len(set.files)))
	standalone := map[int]engineResult{}
	for idx, f := range set.files {
		f.forEachSite(func(a *gatom) {
			res.Hist("site-ctx-" + ctxName[a.ctx])
			res.Hist("site-kind-" + string(a.kind) + map[bool]string{true: "-var", false: ""}[a.viaVar])
		})
		if f.role == "lib" || f.role == "layout" {
			continue
		}
		// ---------- run on the engine, correspondence with the model
		r := runEngine(files, f.path, nil, true, nil)
		standalone[idx] = r
		key := f.path + "\x00" + enc + "\x00" + fmt.Sprint(files)
		res.Count(key, hasSites(f))
		res.Hist("run-" + f.role + "-" + fmtName[f.format] + "-" + r.kind)
		if r.kind != "ok" {
			res.AddBreak(proto.Break{Kind: "correspondence", Name: "generated-set-does-not-run", Case: "C16 run " + strconv.Itoa(idx) + " 12 " + enc + " 0",
				Human: set.human(f.path), Impl: r.line(), Model: "ok"})
			continue
		}
		if c.D != nil {
			ans, line, err := askModel(c, m, "run", enc, idx)
			if err != nil {
				return err
			}
			if ans != r.line() {
				res.AddBreak(proto.Break{Kind: "correspondence", Name: "model-vs-engine-output", Case: line, Human: set.human(f.path), Impl: r.line(), Model: ans})
			}
			if si%40 == 0 && f.role == "main" {
				res.Sample(map[string]string{"human": set.human(f.path), "line": line, "model": ans})
			}
		}
	}

	// ---------- clause 1 and "never raw", site by site
	for idx, f := range set.files {
		var sites []*gatom
		f.forEachSite(func(a *gatom) {
			if a.kind == 'R' || a.kind == 'C' {
				sites = append(sites, a)
			}
		})
		// which files to run to observe this file's sites: those that reach f
		var runners []*gfile
		for ri, r := range set.files {
			if (r.role == "main" || r.role == "child" || r.role == "partial") && set.reaches(ri, idx) {
				runners = append(runners, r)
			}
		}
		for _, a := range sites {
			orig := a.viaVar
			var outs [2][]string
			for v := 0; v < 2; v++ {
				a.viaVar = v == 1
				fs := set.files_()
				for _, r := range runners {
					outs[v] = append(outs[v], runEngine(fs, r.path, nil, true, nil).line())
				}
			}
			a.viaVar = orig
			for ri, r := range runners {
				res.Count("", false)
				if outs[0][ri] == outs[1][ri] {
					continue
				}
				reportSite(c, m, set, f, a, r, outs[0][ri], outs[1][ri])
				break
			}
		}
	}

	// ---------- clause 2: a render in the matching context is the partial on its own; otherwise
	// it is the typed value shown in that context
	for idx, f := range set.files {
		if f.role != "partial" {
			continue
		}
		s := standalone[idx]
		if s.kind != "ok" {
			continue
		}
		for trial := 0; trial < 2; trial++ {
			hostFmt := f.format
			if trial == 1 {
				hostFmt = c.R.Intn(6)
			}
			w := wraps[hostFmt][c.R.Intn(len(wraps[hostFmt]))]
			if strings.Contains(w.pre, "href=") {
				w = wraps[hostFmt][0]
			}
			for v := 0; v < 2; v++ {
				host := &gfile{path: "zz/host" + fmtExt[hostFmt], format: hostFmt, role: "main"}
				host.items = []gitem{{kind: 'A', a: gatom{kind: 'R', target: idx, ref: "/" + f.path, w: w, viaVar: v == 1}}}
				fs := set.files_()
				fs[host.path] = []byte(host.source())
				ctxs := map[string][]int{}
				r := runEngine(fs, host.path, nil, true, ctxs)
				res.Count("", false)
				if r.kind != "ok" || len(ctxs[host.path]) != 1 {
					res.AddBreak(proto.Break{Kind: "property", Name: "render-host-runs", Case: "host " + host.source(), Human: set.human(f.path) + " + " + host.path + "=" + host.source(), Impl: r.line(), Model: "ok"})
					continue
				}
				ctx := ctxs[host.path][0]
				shown, err := m.esc(f.format, ctx, s.out)
				if err != nil {
					return err
				}
				want := w.pre + shown + w.post
				res.Hist(map[bool]string{true: "render-host-compatible", false: "render-host-incompatible"}[compatible(f.format, ctx)])
				if r.out == want {
					continue
				}
				clause := "render-eq-typed-value-shown"
				if ctx == f.format {
					clause = "render-eq-standalone"
				}
				b := proto.Break{Kind: "property", Name: clause,
					Case:  fmt.Sprintf("render %s (format %s) in context %s viaVar=%v", f.path, fmtName[f.format], ctxName[ctx], v == 1),
					Human: set.human(f.path) + " + " + host.path + "=" + strconv.Quote(host.source()), Impl: "ok " + proto.Hex([]byte(r.out)), Model: "ok " + proto.Hex([]byte(want))}
				// the recorded finding: direct show of a render, formats incompatible, written raw
				if v == 0 && !compatible(f.format, ctx) && r.out == w.pre+s.out+w.post {
					if minimalRenderRaw(f.format, ctx) {
						b.Finding = c.Known("render-fastpath-format")
					}
				}
				res.AddBreak(b)
			}
		}
	}

	// ---------- clause 3: extends = layout with the child's declarations in front
	for _, f := range set.files {
		if f.role != "child" {
			continue
		}
		layout := set.files[f.items[0].target]
		subPath := path.Join(path.Dir(layout.path), "zzsub"+fmtExt[layout.format])
		subFile := expansion(layout, -1, f, subPath)
		sub := subFile.source()
		fs := withEmptyLib(set.files_(), f.format)
		fs[subPath] = []byte(sub)
		a := runEngine(fs, f.path, nil, true, nil)
		b, same := sameContexts(fs, subFile)
		res.Count("", false)
		res.Hist("extends-" + fmtName[f.format] + "-on-" + fmtName[layout.format])
		if !same {
			lexerContextMoved(c, "extends "+f.path, set.human(f.path)+" against "+subPath+"="+strconv.Quote(sub)+" (twin: "+b.line()+")")
			continue
		}
		if a.line() != b.line() {
			res.AddBreak(proto.Break{Kind: "property", Name: "extends-eq-layout-with-child-macros", Case: "extends " + f.path + " vs " + subPath,
				Human: set.human(f.path) + " against " + subPath + "=" + strconv.Quote(sub), Impl: a.line(), Model: b.line()})
		}
	}

	// ---------- clause 4: import = the declarations written in place
	for _, f := range set.files {
		if f.role == "lib" || f.role == "layout" {
			continue
		}
		for i, it := range f.items {
			if it.kind != 'I' {
				continue
			}
			lib := set.files[it.target]
			cp := expansion(f, i, lib, path.Join(path.Dir(f.path), "zzinl"+fmtExt[f.format]))
			src := cp.source()
			fs := withEmptyLib(set.files_(), lib.format)
			fs[cp.path] = []byte(src)
			a := runEngine(fs, f.path, nil, true, nil)
			bb, same := sameContexts(fs, cp)
			res.Count("", false)
			res.Hist("import-inlined")
			if !same {
				lexerContextMoved(c, "import "+lib.path+" in "+f.path, set.human(f.path)+" against "+cp.path+"="+strconv.Quote(src)+" (twin: "+bb.line()+")")
				continue
			}
			if a.line() != bb.line() {
				res.AddBreak(proto.Break{Kind: "property", Name: "import-eq-declaration-in-place", Case: "import " + lib.path + " in " + f.path,
					Human: set.human(f.path) + " against " + cp.path + "=" + strconv.Quote(src), Impl: a.line(), Model: bb.line()})
			}
		}
	}
	return nil
}

// sameContexts builds file x of fs on the real engine and reports whether its Show nodes have the
// contexts recorded in x's atoms (they were read from the files the atoms come from). A macro moved
// into a file of another format must keep the contexts of its body; it does not when the body
// contains a tag, script or style (finding macro-format-context-after-tag), and then the expansion
// is not comparable.
func sameContexts(fs scriggo.Files, x *gfile) (engineResult, bool) {
	ctxs := map[string][]int{}
	r := runEngine(fs, x.path, nil, true, ctxs)
	list := ctxs[x.path]
	i := 0
	same := true
	x.forEachSite(func(a *gatom) {
		if i >= len(list) || list[i] != a.ctx {
			same = false
		}
		i++
	})
	return r, same && i == len(list)
}

// ctxFinding replays the recorded finding macro-format-context-after-tag.
func ctxFindingReproduces() (string, string, bool) {
	decl := `{% macro M markdown %}<b>x</b>{{ "*" }}{% end %}`
	fs := scriggo.Files{"lib.md": []byte(decl), "a.html": []byte(`{% import "lib.md" %}{{ M() }}`), "b.html": []byte(decl + `{{ M() }}`)}
	a := runEngine(fs, "a.html", nil, true, nil)
	b := runEngine(fs, "b.html", nil, true, nil)
	return a.line(), b.line(), a.line() != b.line()
}

// minimalRenderRaw replays the recorded finding for one (format, context): a two-file set, the
// partial containing only the witness; true when the direct show writes it raw and the variable
// form does not.
func minimalRenderRaw(from, ctx int) bool {
	h := ctxHost[ctx]
	x := "x" + fmtExt[from]
	fs := scriggo.Files{
		"a" + fmtExt[h.format]: []byte(h.pre + `{{ render "` + x + `" }}` + h.post),
		"b" + fmtExt[h.format]: []byte(`{% var v = render "` + x + `" %}` + h.pre + `{{ v }}` + h.post),
		x:                      []byte("<b>&\"'*_ \n\\x"),
	}
	a := runEngine(fs, "a"+fmtExt[h.format], nil, true, nil)
	b := runEngine(fs, "b"+fmtExt[h.format], nil, true, nil)
	return a.kind == "ok" && b.kind == "ok" && a.out != b.out && a.out == h.pre+"<b>&\"'*_ \n\\x"+h.post
}

// lexerContextMoved: the declarations of a file, written into a file of another format, are lexed
// with other contexts. That is the recorded finding when it reproduces on its minimal input.
func lexerContextMoved(c *hx.Ctx, what, human string) {
	c.Res.Hist("expansion-not-comparable-lexer-context")
	x, y, rep := ctxFindingReproduces()
	b := proto.Break{Kind: "property", Name: "declaration-keeps-its-contexts-when-moved", Case: what, Human: human, Impl: x, Model: y}
	if rep {
		b.Finding = c.Known("macro-format-context-after-tag")
	}
	c.Res.AddBreak(b)
}

// reportSite: the two forms of one site disagree when file r is run. Shrink to a two-file (render)
// or one-file (macro) case and classify.
func reportSite(c *hx.Ctx, m *measurer, set *gset, f *gfile, a *gatom, r *gfile, direct, viaVar string) {
	res := c.Res
	from := -1
	kind := "macro"
	if a.kind == 'R' {
		kind = "render"
		from = set.files[a.target].format
	} else {
		for _, g := range set.files {
			for _, it := range g.items {
				if it.kind == 'M' && it.id == a.decl {
					from = it.mfmt
					if from < 0 {
						from = g.format
					}
				}
			}
		}
	}
	b := proto.Break{Kind: "property", Name: "show-eq-var",
		Case:  fmt.Sprintf("%s site in %s: format %s shown in context %s; run %s", kind, f.path, fmtName[from], ctxName[a.ctx], r.path),
		Human: set.human(r.path) + fmt.Sprintf(" — the site %s{{ … }}%s of %s, direct against through a variable", a.w.pre, a.w.post, f.path),
		Impl:  direct, Model: viaVar}
	// shrink: the same (kind, from, ctx) alone, with a shrunk content
	h := ctxHost[a.ctx]
	content := []byte("<b>&\"'*_ \n\\x")
	two := func(content []byte) (string, string, scriggo.Files) {
		fs := scriggo.Files{}
		hostA, hostB := "a"+fmtExt[h.format], "b"+fmtExt[h.format]
		if kind == "render" {
			x := "x" + fmtExt[from]
			fs[x] = content
			fs[hostA] = []byte(h.pre + `{{ render "` + x + `" }}` + h.post)
			fs[hostB] = []byte(`{% var v = render "` + x + `" %}` + h.pre + `{{ v }}` + h.post)
		} else {
			decl := "{% macro M " + fmtKeyword[from] + " %}" + string(content) + "{% end %}"
			fs[hostA] = []byte(decl + h.pre + `{{ M() }}` + h.post)
			fs[hostB] = []byte(decl + `{% var v = M() %}` + h.pre + `{{ v }}` + h.post)
		}
		return runEngine(fs, hostA, nil, true, nil).line(), runEngine(fs, hostB, nil, true, nil).line(), fs
	}
	failing := func(content []byte) bool {
		if bytes.Contains(content, []byte("{{")) || bytes.Contains(content, []byte("{%")) || bytes.Contains(content, []byte("{#")) {
			return false
		}
		x, y, _ := two(content)
		return x != y
	}
	if failing(content) {
		min := hx.ShrinkBytes(content, failing)
		x, y, fs := two(min)
		var names []string
		for n := range fs {
			names = append(names, n)
		}
		sort.Strings(names)
		var hb strings.Builder
		for _, n := range names {
			fmt.Fprintf(&hb, "%q: %q; ", n, fs[n])
		}
		b.Human = "shrunk to {" + hb.String() + "} — " + b.Human
		b.Case = fmt.Sprintf("%s of format %s shown in context %s, content %s", kind, fmtName[from], ctxName[a.ctx], proto.Hex(min))
		b.Impl, b.Model = x, y
		// exactly the recorded finding: a render (not a macro), formats incompatible, direct form raw
		if kind == "render" && !compatible(from, a.ctx) && x == "ok "+proto.Hex([]byte(h.pre+string(min)+h.post)) {
			b.Finding = c.Known("render-fastpath-format")
		}
	}
	res.AddBreak(b)
}

// deferStream: a macro whose body has a deferred call (of a function that does nothing) must behave
// as the same macro without it: shown directly, through a variable, in every context. The recorded
// finding macro-defer-loses-output is recognised precisely: the macro's output is lost exactly when
// the call does not write through the caller's own renderer (generic path: the built string comes
// back empty; Markdown→HTML buffer: nothing is converted), i.e. the failing output is the expected one
// with the macro's content replaced by the empty content.
func deferStream(c *hx.Ctx, m *measurer, guard map[[3]int]bool) error {
	res := c.Res
	n := c.N(60, 1500)
	for i := 0; i < n; i++ {
		from := c.R.Intn(6)
		hostFmt := []int{from, from, c.R.Intn(6)}[c.R.Intn(3)]
		w := wraps[hostFmt][c.R.Intn(len(wraps[hostFmt]))]
		t1 := texts[from][c.R.Intn(len(texts[from]))]
		t2 := texts[from][c.R.Intn(len(texts[from]))]
		viaVar := c.R.Intn(2) == 0
		build := func(deferred bool, viaVar bool) (string, string) {
			d := ""
			if deferred {
				d = "{% defer func() {}() %}"
			}
			src := "{% macro M " + fmtKeyword[from] + " %}" + t1 + d + t2 + "{% end %}"
			if viaVar {
				src += "{% var v = M() %}" + w.pre + "{{ v }}" + w.post
			} else {
				src += w.pre + "{{ M() }}" + w.post
			}
			return "h" + fmtExt[hostFmt], src
		}
		name, src := build(true, viaVar)
		_, plainSrc := build(false, viaVar)
		ctxs := map[string][]int{}
		got := runEngine(scriggo.Files{name: []byte(src)}, name, nil, true, ctxs)
		plain := runEngine(scriggo.Files{name: []byte(plainSrc)}, name, nil, true, nil)
		res.Count("defer "+src, true)
		res.Hist("defer-stream")
		if len(ctxs[name]) != 1 || plain.kind != "ok" {
			res.AddBreak(proto.Break{Kind: "property", Name: "defer-stream-host-runs", Case: src, Human: src, Impl: plain.line(), Model: "ok"})
			continue
		}
		ctx := ctxs[name][0]
		// the same macro without the deferred call must itself be right: the typed value shown in ctx
		shown, err := m.esc(from, ctx, t1+t2)
		if err != nil {
			return err
		}
		if want := w.pre + shown + w.post; plain.out != want {
			b := proto.Break{Kind: "property", Name: "macro-eq-typed-value-shown", Case: plainSrc, Human: plainSrc, Impl: plain.line(), Model: "ok " + proto.Hex([]byte(want))}
			res.AddBreak(b)
			continue
		}
		if got.line() == plain.line() {
			res.Hist("defer-same-renderer-ok")
			continue
		}
		b := proto.Break{Kind: "property", Name: "macro-with-defer-eq-macro-without", Case: src, Human: src + "   against   " + plainSrc, Impl: got.line(), Model: plain.line()}
		// classify: fast path through the caller's renderer?
		fast := !viaVar && ctx <= int(ast.ContextMarkdown) && (ctx == from || (from == fMD && ctx == int(ast.ContextHTML)))
		if g, ok := guard[[3]int{0, from, ctx}]; ok {
			fast = !viaVar && g
		}
		lost := ""
		switch {
		case fast && ctx == from:
			lost = "\x00never" // the caller's renderer: nothing can be lost
		case fast:
			lost = "" // Markdown buffer never converted
		default:
			e, err := m.esc(from, ctx, "")
			if err != nil {
				return err
			}
			lost = e
		}
		if got.kind == "ok" && got.out == w.pre+lost+w.post {
			b.Finding = c.Known("macro-defer-loses-output")
			res.Hist("defer-output-lost")
		}
		res.AddBreak(b)
	}
	return nil
}

// malformed: sets that must fail, with the model's error class.
func malformed(c *hx.Ctx, m *measurer) error {
	res := c.Res
	type bad struct {
		files map[string]string
		main  string
		enc   string
		want  string
	}
	// names on the wire: M1 = 2, M2 = 4 (exported, even), m1 = 3, m2 = 5 (unexported, odd)
	cases := []bad{
		{map[string]string{"a.html": `{{ render "x.html" }}`}, "a.html", "1 F 1 1 A R 1 7 0", "err nofile"},
		{map[string]string{"a.html": `{{ M1() }}`}, "a.html", "1 F 1 1 A C 1 2 0 0", "err undefined"},
		{map[string]string{"a.html": `{{ render "x.html" }}`, "x.html": `{% extends "l.html" %}`, "l.html": "l"}, "a.html",
			"3 F 1 1 A R 1 1 0 F 1 1 X 2 F 1 1 A T 6c", "err badextends"},
		{map[string]string{"a.html": `{% extends "l.txt" %}`, "l.txt": "l"}, "a.html", "2 F 1 1 X 1 F 0 1 A T 6c", "err badextends"},
		{map[string]string{"a.md": `{% extends "l.html" %}{% macro M1 %}*{% end %}`, "l.html": "[{{ M1() }}]"}, "a.md",
			"2 F 5 2 X 1 M 2 - 0 1 T 2a F 1 3 A T 5b A C 1 2 0 0 A T 5d", "ok " + proto.Hex([]byte("[<md>*</md>]"))},
		// imports are not transitive
		{map[string]string{"a.html": `{% import "l.html" %}{{ M1() }}`, "l.html": `{% import "k.html" %}{% macro M2 %}x{% end %}`, "k.html": `{% macro M1 %}y{% end %}`}, "a.html",
			"3 F 1 2 I 1 A C 1 2 0 0 F 1 2 I 2 M 4 - 0 1 T 78 F 1 1 M 2 - 0 1 T 79", "err undefined"},
		// a forward reference: fine inside an imported file, undefined in a file that is run
		{map[string]string{"a.html": `{% import "l.html" %}{{ M1() }}`, "l.html": `{% macro M1 %}{{ M2() }}{% end %}{% macro M2 %}y{% end %}`}, "a.html",
			"2 F 1 2 I 1 A C 1 2 0 0 F 1 2 M 2 - 0 1 C 1 4 0 0 M 4 - 0 1 T 79", "ok " + proto.Hex([]byte("y"))},
		{map[string]string{"a.html": `{{ M1() }}{% macro M1 %}x{% end %}`}, "a.html",
			"1 F 1 2 A C 1 2 0 0 M 2 - 0 1 T 78", "err undefined"},
		{map[string]string{"a.html": `{% macro M1 %}{{ M2() }}{% end %}{% macro M2 %}y{% end %}{{ M1() }}`}, "a.html",
			"1 F 1 3 M 2 - 0 1 C 1 4 0 0 M 4 - 0 1 T 79 A C 1 2 0 0", "err undefined"},
		// wrong number of arguments
		{map[string]string{"a.html": `{% macro M1(p0 string) %}{{ p0 }}{% end %}{{ M1() }}`}, "a.html",
			"1 F 1 2 M 2 - 1 0 1 P 1 0 A C 1 2 0 0", "err badargs"},
		{map[string]string{"a.html": `{% macro M1(p0 string, p1 html) %}{{ p0 }}{{ p1 }}{% end %}{{ M1("<", "<") }}`}, "a.html",
			"1 F 1 2 M 2 - 2 0 1 2 P 1 0 P 1 1 A C 1 2 0 2 3c 3c", "ok " + proto.Hex([]byte("&lt;<"))},
		// an unexported name is not imported: the importer, and the layout of an extending file, do not see it …
		{map[string]string{"a.html": `{% import "l.html" %}{{ m1() }}`, "l.html": `{% macro m1 %}x{% end %}`}, "a.html",
			"2 F 1 2 I 1 A C 1 3 0 0 F 1 1 M 3 - 0 1 T 78", "err undefined"},
		{map[string]string{"a.html": `{% extends "l.html" %}{% macro m1 %}x{% end %}`, "l.html": `{{ m1() }}`}, "a.html",
			"2 F 1 2 X 1 M 3 - 0 1 T 78 F 1 1 A C 1 3 0 0", "err undefined"},
		// … while the file itself does, forward references included
		{map[string]string{"a.html": `{% import "l.html" %}{{ M1() }}`, "l.html": `{% macro M1 %}{{ m2() }}{% end %}{% macro m2 %}y{% end %}`}, "a.html",
			"2 F 1 2 I 1 A C 1 2 0 0 F 1 2 M 2 - 0 1 C 1 5 0 0 M 5 - 0 1 T 79", "ok " + proto.Hex([]byte("y"))},
	}
	for _, b := range cases {
		fs := scriggo.Files{}
		for n, s := range b.files {
			fs[n] = []byte(s)
		}
		r := runEngine(fs, b.main, nil, true, nil)
		res.Count("malformed "+b.enc, true)
		res.Hist("malformed")
		got := engineClass(r)
		if got != b.want {
			res.AddBreak(proto.Break{Kind: "correspondence", Name: "error-class-engine", Case: b.enc, Human: fmt.Sprint(b.files), Impl: r.line(), Model: b.want})
		}
		if c.D != nil {
			ans, line, err := askModel(c, m, "run", b.enc, 0)
			if err != nil {
				return err
			}
			if ans != b.want {
				res.AddBreak(proto.Break{Kind: "correspondence", Name: "error-class-model", Case: line, Human: fmt.Sprint(b.files), Impl: got, Model: ans})
			}
		}
	}
	return nil
}
