// C13: a failing output writer aborts rendering with the writer's error.
//
// For generated templates (text, shows in every context, URL attributes, macros, render,
// Markdown conversion, loops) the template is first run with a recording writer, which gives
// the exact sequence of Write calls; then, for EVERY k from 1 to the number of writes, it is
// run again with a writer that fails on its k-th call with error E.
//
//	oracle (the property itself, on the real code): Run returns exactly E, the bytes accepted
//	  are the first k-1 chunks, Write is never called again after the failure, no host panic;
//	correspondence: the same (accepted, calls, result) as the Lean model
//	  `WriterM.run k (ofChunks chunks)` predicts through the driver.
package main

import (
	"errors"
	"fmt"
	"io"
	"sort"
	"strings"
	"time"

	"github.com/open2b/scriggo"
	"github.com/open2b/scriggo/native"

	"verifharness/internal/hx"
	"verifharness/internal/proto"
)

func main() { hx.Main("C13", run) }

var errE = errors.New("verif: writer failed (E)")

type recWriter struct {
	chunks [][]byte
}

func (w *recWriter) Write(p []byte) (int, error) {
	w.chunks = append(w.chunks, append([]byte(nil), p...))
	return len(p), nil
}

type failWriter struct {
	k        int // fails on call k (1-based)
	calls    int
	accepted []byte
	after    int // Write calls made after the failure
}

func (w *failWriter) Write(p []byte) (int, error) {
	w.calls++
	if w.calls == w.k {
		return 0, errE
	}
	if w.calls > w.k {
		w.after++
		return 0, errE
	}
	w.accepted = append(w.accepted, p...)
	return len(p), nil
}

type tcase struct {
	files    scriggo.Files
	main     string
	vars     map[string]any
	features []string
}

type point struct{ X, Y int }
type person struct {
	Name string `json:"name"`
	Age  int    `json:"age,omitempty"`
	Tags []string
}

var specials = []string{"<", ">", "&", "\"", "'", "</script>", "\\", "\n", " ", "é", "日本", " ", "?", "#", "=", "%", "+", ",", "`", "*", "_", "[x](y)", "\t", "\x00", "\xff"}

func randString(r *proto.Rand, max int) string {
	var b strings.Builder
	n := r.Intn(max + 1)
	for i := 0; i < n; i++ {
		switch r.Intn(3) {
		case 0:
			b.WriteString(specials[r.Intn(len(specials))])
		default:
			b.WriteByte(byte('a' + r.Intn(26)))
		}
	}
	return b.String()
}

// converters with the three behaviours an embedder's converter can have when its writer fails:
// report the error (0), swallow it and stop (1: a bufio.Writer whose Flush error is ignored),
// swallow it and keep writing (2). All write in three pieces so that the failure can fall inside.
func mdConverterMode(mode int) scriggo.Converter {
	return func(src []byte, out io.Writer) error {
		pieces := [][]byte{[]byte("<p>"), []byte(strings.ReplaceAll(string(src), "<", "&lt;")), []byte("</p>")}
		for _, p := range pieces {
			if _, err := out.Write(p); err != nil {
				switch mode {
				case 0:
					return err
				case 1:
					return nil
				}
			}
		}
		return nil
	}
}

var globals = native.Declarations{
	"s":    (*string)(nil),
	"q":    (*string)(nil),
	"u":    (*string)(nil),
	"n":    (*int)(nil),
	"f":    (*float64)(nil),
	"list": (*[]string)(nil),
	"m":    (*map[string]int)(nil),
	"p":    (*person)(nil),
	"pt":   (*point)(nil),
	"bs":   (*[]byte)(nil),
	"h":    (*native.HTML)(nil),
	"tm":   (*time.Time)(nil),
	"any":  (*any)(nil),
}

func genCase(r *proto.Rand) tcase {
	tc := tcase{files: scriggo.Files{}, vars: map[string]any{}}
	tc.vars["s"] = randString(r, 12)
	tc.vars["q"] = randString(r, 8)
	tc.vars["u"] = []string{"/a/b", "http://x.y/p?z=1", "x?y", "", "a b/c", "/é?k=v#f"}[r.Intn(6)]
	tc.vars["n"] = r.Intn(2000) - 1000
	tc.vars["f"] = float64(r.Intn(1000)) / 8
	l := make([]string, r.Intn(4))
	for i := range l {
		l[i] = randString(r, 5)
	}
	tc.vars["list"] = l
	m := map[string]int{}
	for i := 0; i < r.Intn(4); i++ {
		m[randString(r, 4)] = r.Intn(100)
	}
	tc.vars["m"] = m
	tc.vars["p"] = person{Name: randString(r, 6), Age: r.Intn(3), Tags: l}
	tc.vars["pt"] = point{r.Intn(10), -r.Intn(10)}
	tc.vars["bs"] = r.Bytes([]int{0, 1, 5, 700, 1600, 4000}[r.Intn(6)])
	tc.vars["h"] = native.HTML("<i>" + randString(r, 4) + "</i>")
	tc.vars["tm"] = time.Date(2020+r.Intn(5), time.Month(1+r.Intn(12)), 1+r.Intn(28), r.Intn(24), r.Intn(60), r.Intn(60), 0, time.UTC)
	tc.vars["any"] = []any{1, "x<", nil, true, 2.5, map[string]any{"k": "v"}}[r.Intn(6)]

	feat := func(f string) { tc.features = append(tc.features, f) }
	var b strings.Builder
	macros := false
	parts := 2 + r.Intn(7)
	for i := 0; i < parts; i++ {
		switch r.Intn(16) {
		case 0:
			b.WriteString("plain text " + randString(r, 6) + "\n")
			feat("text")
		case 1:
			b.WriteString("<p>{{ s }}</p>")
			feat("show-html")
		case 2:
			b.WriteString(`<a href="{{ u }}?x={{ q }}&y={{ n }}">l</a>`)
			feat("url-attr")
		case 3:
			b.WriteString(`<a href="{{ u }}{{ q }}">l</a>`)
			feat("url-attr-adjacent")
		case 4:
			b.WriteString(`<div title="{{ s }}" data-n={{ n }} class='{{ q }}'>`)
			feat("attr")
		case 5:
			b.WriteString(`<script>var a = {{ ` + []string{"p", "list", "m", "pt", "bs", "n", "f", "s", "tm", "any"}[r.Intn(10)] + ` }}; var b = "{{ s }}";</script>`)
			feat("js")
		case 6:
			b.WriteString(`<style>a::before { content: "{{ s }}"; width: {{ n }}px }</style>`)
			feat("css")
		case 7:
			b.WriteString(`{% for i, x := range list %}{{ i }}:{{ x }},{% end %}`)
			feat("for")
		case 8:
			if !macros {
				// macros must be declared at top level; declare once, call possibly many times
				b.WriteString(`{% macro M(x string) %}<b>{{ x }}</b>{% end %}`)
				macros = true
			}
			b.WriteString(`{{ M(s) }}{{ M("k") }}`)
			feat("macro")
		case 9:
			tc.files["p.html"] = []byte("<em>{{ s }}</em>" + randString(r, 4))
			b.WriteString(`{{ render "p.html" }}`)
			feat("render-html")
		case 10:
			tc.files["p.md"] = []byte("# title\n\n{{ s }} *x*\n")
			b.WriteString(`{{ render "p.md" }}`)
			feat("render-md-converted")
		case 11:
			b.WriteString(`{{ h }}{{ bs }}`)
			feat("trusted-html+bytes")
		case 12:
			b.WriteString(`<script type="application/json">{{ ` + []string{"p", "list", "m", "pt", "bs", "any"}[r.Intn(6)] + ` }}</script>`)
			feat("json")
		case 13:
			b.WriteString(`{% if n > 0 %}pos{{ n }}{% else %}neg{{ f }}{% end %}`)
			feat("if")
		case 14:
			b.WriteString(`<img srcset="{{ u }} 1x, {{ u }} 2x">`)
			feat("srcset")
		case 15:
			b.WriteString(`<input value={{ s }}>`)
			feat("unquoted-attr")
		}
	}
	tc.main = "index.html"
	tc.files["index.html"] = []byte(b.String())
	return tc
}

func (tc tcase) human() string {
	var names []string
	for n := range tc.files {
		names = append(names, n)
	}
	sort.Strings(names)
	var b strings.Builder
	for _, n := range names {
		fmt.Fprintf(&b, "--- %s ---\n%s\n", n, tc.files[n])
	}
	fmt.Fprintf(&b, "vars: s=%q q=%q u=%q n=%v", tc.vars["s"], tc.vars["q"], tc.vars["u"], tc.vars["n"])
	return b.String()
}

func runWith(t *scriggo.Template, w io.Writer, vars map[string]any) (err error, panicked any) {
	defer func() {
		if r := recover(); r != nil {
			panicked = r
		}
	}()
	return t.Run(w, vars, nil), nil
}

func run(c *hx.Ctx) error {
	res := c.Res
	res.Rule = "generated HTML templates (2–8 parts drawn from 16 constructs: text, shows in HTML/attribute/URL/srcset/JS/JSON/CSS contexts, loops, conditionals, macros, render of HTML and of Markdown through a converter, trusted HTML, []byte) run once with a recording writer and then once per failure position k = 1..#writes; a case is one (template, k) pair, non-trivial when 1 < k (something was already written), distinct by (template text, vars, k)"
	nTemplates := c.N(250, 4000)
	built := 0
	for i := 0; i < nTemplates; i++ {
		tc := genCase(c.R)
		convMode := i % 3
		t, err := scriggo.BuildTemplate(tc.files, tc.main, &scriggo.BuildOptions{Globals: globals, MarkdownConverter: mdConverterMode(convMode)})
		if err != nil {
			res.Hist("build-error")
			if res.Histogram["build-error"] <= 3 {
				res.Notes = append(res.Notes, "generator produced a template that does not build: "+err.Error())
			}
			continue
		}
		built++
		rec := &recWriter{}
		if err, p := runWith(t, rec, tc.vars); err != nil || p != nil {
			// a template that fails without any writer failure is outside this property
			res.Hist("run-error-without-writer-failure")
			continue
		}
		for _, f := range tc.features {
			res.Hist("feature:" + f)
			if f == "render-md-converted" {
				res.Hist(fmt.Sprintf("converter-mode:%d", convMode))
			}
		}
		res.Hist(fmt.Sprintf("writes:%02d-%02d", len(rec.chunks)/10*10, len(rec.chunks)/10*10+9))
		hexChunks := make([]string, len(rec.chunks))
		for j, ch := range rec.chunks {
			hexChunks[j] = proto.Hex(ch)
		}
		var lines []string
		for k := 1; k <= len(rec.chunks)+1; k++ {
			lines = append(lines, fmt.Sprintf("C13 failat %d %s", k, strings.Join(hexChunks, " ")))
		}
		var model []string
		if c.D != nil {
			if model, err = c.D.Batch(lines); err != nil {
				return err
			}
		}
		key := tc.human()
		for k := 1; k <= len(rec.chunks)+1; k++ {
			fw := &failWriter{k: k}
			err, panicked := runWith(t, fw, tc.vars)
			res.Count(fmt.Sprintf("%s#%d", key, k), k > 1)
			var want []byte
			for _, ch := range rec.chunks[:min(k-1, len(rec.chunks))] {
				want = append(want, ch...)
			}
			ret := "ok"
			clause := ""
			switch {
			case panicked != nil:
				ret, clause = "panic", "host-panics"
			case k > len(rec.chunks):
				if err != nil {
					ret, clause = "err", "no-failure-but-error"
				}
			case err == errE:
				ret = "writeErr"
			case err == nil:
				ret, clause = "ok", "returns-nil-instead-of-E"
			default:
				ret, clause = "otherErr", "returns-other-error-instead-of-E"
			}
			if clause == "" && fw.after > 0 {
				clause = "write-after-failure"
			}
			if clause == "" && string(fw.accepted) != string(want) {
				clause = "accepted-bytes-differ-from-first-k-1-chunks"
			}
			impl := fmt.Sprintf("ok %s %d %s", proto.Hex(fw.accepted), fw.calls, ret)
			if i%40 == 0 && k == len(rec.chunks)/2+1 {
				res.Sample(map[string]any{"template": string(tc.files["index.html"]), "k": k, "writes": len(rec.chunks), "impl": impl})
			}
			if clause != "" {
				detail := fmt.Sprintf("k=%d of %d writes; converter mode %d (0 reports the write error, 1 swallows it, 2 swallows it and keeps writing); err=%v panic=%v; Write calls after the failure=%d\n%s", k, len(rec.chunks), convMode, err, panicked, fw.after, tc.human())
				res.AddBreak(proto.Break{Kind: "property", Name: clause, Case: lines[k-1], Human: detail, Impl: impl,
					Model: fmt.Sprintf("ok %s %d writeErr", proto.Hex(want), k)})
			}
			if model != nil && model[k-1] != impl && clause == "" {
				res.AddBreak(proto.Break{Kind: "correspondence", Name: "WriterM.run-vs-Template.Run-with-failing-writer", Case: lines[k-1],
					Human: tc.human(), Impl: impl, Model: model[k-1]})
			}
		}
	}
	res.Histogram["templates-built"] = built
	if err := straightLine(c); err != nil {
		return err
	}
	deferStream(c)
	deferCallees(c)
	repanicStream(c)
	if built < nTemplates/2 {
		return fmt.Errorf("only %d of %d generated templates build — generator is broken", built, nTemplates)
	}
	return nil
}


// straightLine ties the chunk sequence the Lean model predicts for a straight-line template
// body (Model/TemplateChunks.lean: literal texts and shows of strings in five contexts, with the
// escapers' own chunking) to the Write sequence of the real engine ("template-chunks").
func straightLine(c *hx.Ctx) error {
	res := c.Res
	type seg struct {
		pre, post string // literal text before and after the hole (sets the context)
		tag       byte   // item tag of the hole
	}
	segs := []seg{
		{"<p>", "</p>", 'h'},
		{`<a title="`, `">x</a>`, 'q'},
		{`<a title='`, `'>x</a>`, 'q'},
		{`<input value=`, `>`, 'u'},
		{`<script>var a = "`, `";</script>`, 'j'},
		{`<script>var b = '`, `';</script>`, 'j'},
		{`<style>a::before { content: "`, `" }</style>`, 'c'},
	}
	decl := native.Declarations{}
	for i := 0; i < 6; i++ {
		decl[fmt.Sprintf("v%d", i)] = (*string)(nil)
	}
	n := c.N(400, 6000)
	for t := 0; t < n; t++ {
		var src strings.Builder
		var items []string
		vars := map[string]any{}
		lit := "" // literal text accumulated since the last hole: one Text instruction
		flush := func() {
			if lit != "" {
				items = append(items, "t"+proto.Hex([]byte(lit)))
				lit = ""
			}
		}
		k := 1 + c.R.Intn(6)
		for i := 0; i < k; i++ {
			sg := segs[c.R.Intn(len(segs))]
			val := randString(c.R, 10)
			if sg.tag == 'u' && val == "" {
				val = "x" // an empty unquoted value changes the tag structure; not this stream's topic
			}
			name := fmt.Sprintf("v%d", i)
			vars[name] = val
			filler := ""
			if c.R.Intn(2) == 0 {
				filler = "text" + strings.Repeat("é", c.R.Intn(3)) + "\n"
			}
			src.WriteString(filler + sg.pre + "{{ " + name + " }}" + sg.post)
			lit += filler + sg.pre
			flush()
			items = append(items, string(sg.tag)+proto.Hex([]byte(val)))
			lit += sg.post
		}
		flush()
		files := scriggo.Files{"index.html": []byte(src.String())}
		tpl, err := scriggo.BuildTemplate(files, "index.html", &scriggo.BuildOptions{Globals: decl})
		if err != nil {
			res.Hist("straight-line:build-error")
			continue
		}
		rec := &recWriter{}
		if err, p := runWith(tpl, rec, vars); err != nil || p != nil {
			res.Hist("straight-line:run-error")
			continue
		}
		var impl []string
		for _, ch := range rec.chunks {
			impl = append(impl, proto.Hex(ch))
		}
		implLine := strings.TrimRight("ok "+strings.Join(impl, " "), " ")
		res.Count("straight:"+src.String()+fmt.Sprint(vars), true)
		res.Hist("straight-line:templates")
		if c.D == nil {
			continue
		}
		line := "C13 tchunks " + strings.Join(items, " ")
		model, err := c.D.Ask(line)
		if err != nil {
			return err
		}
		if model != implLine {
			res.AddBreak(proto.Break{Kind: "correspondence", Name: "template-chunks (Model/TemplateChunks vs the engine's Write sequence)", Case: line,
				Human: src.String() + fmt.Sprintf("  vars=%q", vars), Impl: implLine, Model: model})
		}
		if t == 0 {
			res.Sample(map[string]any{"straight-line": src.String(), "vars": vars, "writes": implLine})
		}
	}
	return nil
}


// deferStream: templates that defer a self-protecting macro (its own `defer func(){ recover() }()`)
// which writes — directly, through a show, or through a nested render. With a writer that keeps
// failing from its k-th call on, a failure in the BODY (k within the body's writes) is never
// recovered by the template: the deferred macro runs while panicking, its own write fails too and
// it recovers only that second panic, as in Go. Run must return E. (A failure that first happens
// inside the deferred macro is recovered by the template itself: the property exempts it.)
func deferStream(c *hx.Ctx) {
	res := c.Res
	decl := native.Declarations{"s": (*string)(nil), "n": (*int)(nil)}
	bodies := []string{`<h1>{{ s }}</h1>`, `text{{ n }}`, `<p title="{{ s }}">x</p>{{ render "p.html" }}`, `{% for i := 0; i < 3; i++ %}{{ i }},{% end %}`, `{% if n > 0 %}a{{ s }}{% else %}b{% end %}tail`}
	footers := []string{`<footer>{{ n }}</footer>`, `{{ render "footer.html" }}`, `plain`, `{{ s }}{{ render "footer.html" }}`}
	protects := []string{`{% defer func() { recover() }() %}`, `{% defer func() { _ = recover() }() %}`}
	nested := []bool{false, true}
	count := 0
	for _, body := range bodies {
		for _, foot := range footers {
			for _, prot := range protects {
				for _, nest := range nested {
					count++
					macro := `{% macro Footer %}` + prot + foot + `{% end %}`
					deferStmt := `{% defer Footer() %}`
					if nest { // the cleanup is deferred from inside another macro that writes the body
						macro += `{% macro Body %}` + deferStmt + body + `{% end %}`
					}
					mk := func(withDefer bool) scriggo.Files {
						src := macro
						if nest {
							if !withDefer {
								src = strings.Replace(src, deferStmt, "", 1)
							}
							src += `{{ Body() }}`
						} else {
							if withDefer {
								src += deferStmt
							}
							src += body
						}
						return scriggo.Files{"index.html": []byte(src), "footer.html": []byte(`<em>{{ n }}</em>`), "p.html": []byte(`<i>{{ s }}</i>`)}
					}
					vars := map[string]any{"s": randString(c.R, 8), "n": 1 + c.R.Intn(50)}
					opts := &scriggo.BuildOptions{Globals: decl}
					with, err1 := scriggo.BuildTemplate(mk(true), "index.html", opts)
					without, err2 := scriggo.BuildTemplate(mk(false), "index.html", opts)
					if err1 != nil || err2 != nil {
						res.Hist("defer:build-error")
						if res.Histogram["defer:build-error"] <= 2 {
							res.Notes = append(res.Notes, fmt.Sprintf("defer stream template does not build: %v %v", err1, err2))
						}
						continue
					}
					rb := &recWriter{}
					if err, p := runWith(without, rb, vars); err != nil || p != nil {
						continue
					}
					bodyWrites := len(rb.chunks)
					res.Hist("defer:templates")
					human := string(mk(true)["index.html"])
					for k := 1; k <= bodyWrites; k++ {
						fw := &failWriter{k: k}
						err, panicked := runWith(with, fw, vars)
						res.Count(fmt.Sprintf("defer:%s#%d", human, k), true)
						clause := ""
						switch {
						case panicked != nil:
							clause = "host-panics"
						case err != errE:
							clause = "unrecovered-body-failure-not-returned"
						}
						if clause != "" {
							res.AddBreak(proto.Break{Kind: "property", Name: clause, Case: fmt.Sprintf("C13 defer-template k=%d", k),
								Human: fmt.Sprintf("writer failing from call %d on (body makes %d writes); Run returned %v, host panic %v\n--- index.html ---\n%s\nvars s=%q n=%v", k, bodyWrites, err, panicked, human, vars["s"], vars["n"]),
								Impl: fmt.Sprint(err), Model: errE.Error()})
						}
					}
				}
			}
		}
	}
}


// deferCallees: a deferred call of every kind (native function with and without native.Env,
// with arguments, variadic, method value, func value holding a native function, closure that
// calls a native function, print builtin) is pending — at top level, inside a macro, inside a
// macro called by a macro, registered in a loop — while the writer fails at every position k.
// None of them recovers, so Run must return E, the host must not panic, nothing may be written
// after the failure, and, as in Go, every deferred call registered before the failure runs
// exactly once while the panic unwinds (Spec/GoDefer; the static side is the theorem
// unwind_no_nil_fn_deref: deferred native calls run with vm.fn == nil).
type dcCloser struct{ name string }

var dcState struct {
	regs int            // deferred calls registered (mark() is called right before each defer)
	ran  map[string]int // deferred callee -> times run
}

func (c *dcCloser) Close()             { dcState.ran["obj.Close"]++ }
func (c *dcCloser) CloseWith(s string) { dcState.ran["obj.CloseWith"]++ }

func deferCallees(c *hx.Ctx) {
	res := c.Res
	obj := &dcCloser{name: "o"}
	decl := native.Declarations{
		"s": (*string)(nil), "n": (*int)(nil),
		"obj":  &obj,
		"mark": func() { dcState.regs++ },
		"nat":  func() { dcState.ran["nat"]++ },
		"natEnv": func(env native.Env) {
			_ = env.CallPath()
			_ = env.Context()
			dcState.ran["natEnv"]++
		},
		"natEnvArg": func(env native.Env, s string) { _ = env.CallPath(); dcState.ran["natEnvArg"]++ },
		"natArgs":   func(a int, s string) { dcState.ran["natArgs"]++ },
		"natVar":    func(env native.Env, xs ...int) { _ = env.CallPath(); dcState.ran["natVar"]++ },
		"natStr":    func(a string) int { dcState.ran["natStr"]++; return len(a) }, // one of the non-reflect fast-path signatures
	}
	callees := []string{
		`nat()`, `natEnv()`, `natEnvArg(s)`, `natArgs(n, s)`, `natVar(1, 2, n)`, `natVar()`, `natStr(s)`,
		`obj.Close()`, `obj.CloseWith(s)`,
		`func() { natEnv() }()`, `func() { nat() }()`, `func(x string) { natEnvArg(x) }(s)`,
		`fv()`, `fa(s)`, `print(n)`,
	}
	prelude := `{% var fv = natEnv %}{% var fa = natEnvArg %}`
	bodies := []string{`<h1>{{ s }}</h1>`, `text{{ n }}`, `<p title="{{ s }}">x</p>{{ render "p.html" }}`, `{% for i := 0; i < 3; i++ %}{{ i }},{% end %}`, `{% if n > 0 %}a{{ s }}{% else %}b{% end %}tail`}
	def := func(d string) string { return `{% mark() %}{% defer ` + d + ` %}` }
	shapes := []struct {
		name string
		mk   func(d1, d2, body string) string
	}{
		{"top-level", func(d1, d2, body string) string { return prelude + def(d1) + body }},
		{"top-level-two", func(d1, d2, body string) string { return prelude + def(d1) + def(d2) + body }},
		{"after-first-write", func(d1, d2, body string) string { return prelude + "head" + def(d1) + body + def(d2) + "tail" }},
		{"in-macro", func(d1, d2, body string) string {
			return prelude + `{% macro Body %}` + def(d1) + body + `{% end %}before{{ Body() }}after`
		}},
		{"in-macro-called-by-macro", func(d1, d2, body string) string {
			return prelude + `{% macro Inner %}` + def(d1) + body + `{% end %}{% macro Outer %}` + def(d2) + `pre{{ Inner() }}post{% end %}{{ Outer() }}tail`
		}},
		{"in-loop", func(d1, d2, body string) string {
			return prelude + `{% for j := 0; j < 2; j++ %}` + def(d1) + `{% end %}` + body
		}},
		{"macro-called-twice", func(d1, d2, body string) string {
			return prelude + `{% macro Body %}` + def(d1) + body + `{% end %}{{ Body() }}-{{ Body() }}`
		}},
	}
	printed := 0
	opts := &scriggo.RunOptions{Print: func(any) { printed++ }}
	runOnce := func(t *scriggo.Template, w io.Writer, vars map[string]any) (err error, panicked any, regs, ran int) {
		dcState.regs, dcState.ran, printed = 0, map[string]int{}, 0
		func() {
			defer func() {
				if r := recover(); r != nil {
					panicked = r
				}
			}()
			err = t.Run(w, vars, opts)
		}()
		ran = printed
		for _, v := range dcState.ran {
			ran += v
		}
		return err, panicked, dcState.regs, ran
	}
	for si, sh := range shapes {
		for di, d1 := range callees {
			d2 := callees[(di+5)%len(callees)]
			for bi, body := range bodies {
				if c.Tier != "thorough" && (si+di+bi)%2 == 1 {
					continue
				}
				src := sh.mk(d1, d2, body)
				files := scriggo.Files{"index.html": []byte(src), "p.html": []byte(`<i>{{ s }}</i>`)}
				t, err := scriggo.BuildTemplate(files, "index.html", &scriggo.BuildOptions{Globals: decl})
				if err != nil {
					res.Hist("defer-callee:build-error")
					if res.Histogram["defer-callee:build-error"] <= 2 {
						res.Notes = append(res.Notes, fmt.Sprintf("defer-callee template does not build: %v\n%s", err, src))
					}
					continue
				}
				vars := map[string]any{"s": randString(c.R, 8), "n": 1 + c.R.Intn(50)}
				rec := &recWriter{}
				err, p, regs, ran := runOnce(t, rec, vars)
				if err != nil || p != nil {
					// a template that fails without any writer failure is outside this property
					// (e.g. a native function taking native.Env stored in a variable that a macro
					// captures panics with reflect.Set on the unchanged tree: a C05 matter)
					res.Hist("defer-callee:run-error-without-writer-failure")
					continue
				}
				if regs != ran || regs == 0 {
					res.AddBreak(proto.Break{Kind: "correspondence", Name: "defer-callee:successful-render-runs-every-deferred-call-once (Spec/GoDefer)", Case: "C13 defer-callee no-failure",
						Human: fmt.Sprintf("no writer failure: %d deferred calls registered, %d run\n--- index.html ---\n%s", regs, ran, src), Impl: fmt.Sprint(ran), Model: fmt.Sprint(regs)})
					continue
				}
				res.Hist("defer-callee:templates")
				res.Hist("defer-callee:shape:" + sh.name)
				for k := 1; k <= len(rec.chunks); k++ {
					fw := &failWriter{k: k}
					err, p, regs, ran := runOnce(t, fw, vars)
					res.Count(fmt.Sprintf("defer-callee:%s#%d", src, k), regs > 0)
					if regs > 0 {
						res.Hist("defer-callee:failure-with-pending-deferred-call")
					}
					var want []byte
					for _, ch := range rec.chunks[:k-1] {
						want = append(want, ch...)
					}
					clause := ""
					switch {
					case p != nil:
						clause = "host-panics"
					case err != errE:
						clause = "returns-other-than-E"
					case fw.after > 0:
						clause = "write-after-failure"
					case string(fw.accepted) != string(want):
						clause = "accepted-bytes-differ-from-first-k-1-chunks"
					case ran != regs:
						clause = "registered-deferred-call-not-run-exactly-once"
					}
					if clause != "" {
						res.AddBreak(proto.Break{Kind: "property", Name: "defer-callee:" + clause, Case: fmt.Sprintf("C13 defer-callee k=%d", k),
							Human: fmt.Sprintf("writer failing at call %d of %d; deferred callee `%s` (%s); Run returned %v, host panic %v, %d deferred calls registered, %d run, %d Write calls after the failure\n--- index.html ---\n%s\nvars s=%q n=%v", k, len(rec.chunks), d1, sh.name, err, p, regs, ran, fw.after, src, vars["s"], vars["n"]),
							Impl: fmt.Sprintf("%v / panic %v / ran %d", err, p, ran), Model: fmt.Sprintf("%v / no panic / ran %d", errE, regs)})
					}
				}
			}
		}
	}
}


// repanicStream: the Go cleanup idiom — a deferred function recovers, cleans up and panics again
// with the value it recovered. The template does not swallow the writer's failure, it re-raises
// it: Run must still return E itself (recover_returns_raised_value: recover hands back the raised
// outError, which convertPanic and VM.Run recognise when it is raised again), the host must not
// panic and nothing may be written after the failure.
func repanicStream(c *hx.Ctx) {
	res := c.Res
	cleaned := 0
	decl := native.Declarations{"s": (*string)(nil), "n": (*int)(nil), "cleanup": func() { cleaned++ }}
	bodies := []string{`<h1>{{ s }}</h1>`, `text{{ n }}`, `<p title="{{ s }}">x</p>{{ render "p.html" }}`, `{% for i := 0; i < 3; i++ %}{{ i }},{% end %}`, `<script>var a = "{{ s }}";</script>`}
	idioms := []string{
		`{% defer func() { if e := recover(); e != nil { cleanup(); panic(e) } }() %}`,
		`{% defer func() { e := recover(); cleanup(); if e != nil { panic(e) } }() %}`,
		`{% defer func() { e := recover(); var v any = e; cleanup(); if v != nil { panic(v) } }() %}`,
		`{% defer func() { defer func() { if e := recover(); e != nil { cleanup(); panic(e) } }(); if e := recover(); e != nil { panic(e) } }() %}`,
		`{% defer func() { if e := recover(); e != nil { cleanup(); panic(e) } }() %}{% defer func() { if e := recover(); e != nil { panic(e) } }() %}`,
	}
	shapes := []func(idiom, body string) string{
		func(idiom, body string) string { return idiom + body },
		func(idiom, body string) string { return "head" + idiom + body + "tail" },
		func(idiom, body string) string { return `{% macro B %}` + idiom + body + `{% end %}pre{{ B() }}post` },
		func(idiom, body string) string {
			return `{% macro I %}` + body + `{% end %}{% macro O %}` + idiom + `a{{ I() }}b{% end %}{{ O() }}`
		},
	}
	for _, idiom := range idioms {
		for _, body := range bodies {
			for si, sh := range shapes {
				src := sh(idiom, body)
				files := scriggo.Files{"index.html": []byte(src), "p.html": []byte(`<i>{{ s }}</i>`)}
				t, err := scriggo.BuildTemplate(files, "index.html", &scriggo.BuildOptions{Globals: decl})
				if err != nil {
					res.Hist("repanic:build-error")
					if res.Histogram["repanic:build-error"] <= 2 {
						res.Notes = append(res.Notes, fmt.Sprintf("repanic template does not build: %v\n%s", err, src))
					}
					continue
				}
				vars := map[string]any{"s": randString(c.R, 8), "n": 1 + c.R.Intn(50)}
				rec := &recWriter{}
				if err, p := runWith(t, rec, vars); err != nil || p != nil {
					res.Hist("repanic:run-error-without-writer-failure")
					continue
				}
				res.Hist("repanic:templates")
				for k := 1; k <= len(rec.chunks); k++ {
					fw := &failWriter{k: k}
					cleaned = 0
					err, p := runWith(t, fw, vars)
					res.Count(fmt.Sprintf("repanic:%s#%d", src, k), true)
					var want []byte
					for _, ch := range rec.chunks[:k-1] {
						want = append(want, ch...)
					}
					clause := ""
					switch {
					case p != nil:
						clause = "host-panics"
					case err != errE:
						clause = "reraised-writer-error-not-returned-as-E"
					case fw.after > 0:
						clause = "write-after-failure"
					case string(fw.accepted) != string(want):
						clause = "accepted-bytes-differ-from-first-k-1-chunks"
					}
					if clause == "" && cleaned > 0 {
						res.Hist("repanic:failure-reraised-by-the-template")
					}
					if clause != "" {
						res.AddBreak(proto.Break{Kind: "property", Name: "repanic:" + clause, Case: fmt.Sprintf("C13 repanic k=%d shape=%d", k, si),
							Human: fmt.Sprintf("writer failing at call %d of %d; a deferred function recovers and panics again with the recovered value; Run returned %v (%T), host panic %v, %d Write calls after the failure\n--- index.html ---\n%s\nvars s=%q n=%v", k, len(rec.chunks), err, err, p, fw.after, src, vars["s"], vars["n"]),
							Impl: fmt.Sprint(err), Model: errE.Error()})
					}
				}
			}
		}
	}
}
