package main

import (
	"bytes"
	"fmt"
	"math/big"
	"os"
	"os/exec"
	"path/filepath"
	"strconv"
	"strings"

	"github.com/open2b/scriggo"

	"verifharness/internal/hx"
	"verifharness/internal/proto"
)

// Stream 6, "conditions": emitCondition (internal/compiler/emitter.go), which compiles the condition
// of an if / for and the `tag != case` test of a switch with its own fast paths (constant, comparison
// with 0 / nil, len of a string on either side with the operator inverted when it is on the right,
// generic comparisons per register class, `!x`, plain boolean values).
//
// Every case is a boolean Go expression over parameters whose values the generator chooses AT and
// AROUND the boundary (x == y, x == y ± 1; len(s) - 1, len(s), len(s) + 1), placed in a control
// context (if, if/else, for, tagless switch case, switch with tag, operand of && / ||, under !, as a
// value). Three oracles: the truth value the generator computes itself, gc (all cases in one
// `go run`), and — for the shapes Model/CompileCond.lean covers, in the if contexts — the Lean
// model: the real emitter's disassembled code up to the final If against `ccompile`
// ("compileCond-vs-emitter"), the model VM and evalCond against the real outcome.

type condCase struct {
	ints   []variable
	bools  []bool
	strs   []string
	floats []float64
	decls  []string // local declarations before the statement (shapes outside the model only)
	src    string   // Go source of the condition
	tokens string   // the condition in the model's notation; "" when the model does not cover it
	want   bool
	ctx    string
	shape  string
}

var condCtxs = []string{"if", "ifelse", "for", "switch", "and", "or", "not", "value"}

func (c *condCase) params() string {
	var ps []string
	for i, v := range c.ints {
		ps = append(ps, fmt.Sprintf("v%d %s", i, v.k.name))
	}
	for i := range c.bools {
		ps = append(ps, fmt.Sprintf("b%d bool", i))
	}
	for i := range c.strs {
		ps = append(ps, fmt.Sprintf("s%d string", i))
	}
	for i := range c.floats {
		ps = append(ps, fmt.Sprintf("f%d float64", i))
	}
	if c.ctx == "and" || c.ctx == "or" {
		ps = append(ps, "bt bool", "bf bool")
	}
	return strings.Join(ps, ", ")
}

func (c *condCase) args() string {
	var as []string
	for _, v := range c.ints {
		as = append(as, v.z.String())
	}
	for _, b := range c.bools {
		as = append(as, strconv.FormatBool(b))
	}
	for _, s := range c.strs {
		as = append(as, strconv.Quote(s))
	}
	for _, f := range c.floats {
		as = append(as, strconv.FormatFloat(f, 'g', -1, 64))
	}
	if c.ctx == "and" || c.ctx == "or" {
		as = append(as, "true", "false")
	}
	return strings.Join(as, ", ")
}

// body prints the statements of the case's function; out(i, "0"|"1"|"r") is the print statement.
func (c *condCase) body(i int, out func(string) string) string {
	var b strings.Builder
	for _, d := range c.decls {
		b.WriteString("\t" + d + "\n")
	}
	switch c.ctx {
	case "if":
		fmt.Fprintf(&b, "\tif %s {\n\t\t%s\n\t\treturn\n\t}\n\t%s\n", c.src, out("1"), out("0"))
	case "ifelse":
		fmt.Fprintf(&b, "\tif %s {\n\t\t%s\n\t} else {\n\t\t%s\n\t}\n", c.src, out("1"), out("0"))
	case "for":
		fmt.Fprintf(&b, "\tr := 0\n\tfor %s {\n\t\tr = 1\n\t\tbreak\n\t}\n\t%s\n", c.src, out("r"))
	case "switch":
		fmt.Fprintf(&b, "\tr := 0\n\tswitch {\n\tcase %s:\n\t\tr = 1\n\t}\n\t%s\n", c.src, out("r"))
	case "switchtag":
		// c.src is "tag|case"
		p := strings.SplitN(c.src, "|", 2)
		fmt.Fprintf(&b, "\tr := 0\n\tswitch %s {\n\tcase %s:\n\t\tr = 1\n\t}\n\t%s\n", p[0], p[1], out("r"))
	case "and":
		fmt.Fprintf(&b, "\tr := 0\n\tif %s && bt {\n\t\tr = 1\n\t}\n\tif bf && %s {\n\t\tr = 2\n\t}\n\t%s\n", c.src, c.src, out("r"))
	case "or":
		fmt.Fprintf(&b, "\tr := 0\n\tif %s || bf {\n\t\tr = 1\n\t}\n\tif !(bf || %s) {\n\t\tr += 2\n\t}\n\t%s\n", c.src, c.src, out("r"))
	case "not":
		fmt.Fprintf(&b, "\tr := 1\n\tif !(%s) {\n\t\tr = 0\n\t}\n\t%s\n", c.src, out("r"))
	case "value":
		fmt.Fprintf(&b, "\tv := %s\n\tr := 0\n\tif v {\n\t\tr = 1\n\t}\n\t%s\n", c.src, out("r"))
	}
	return b.String()
}

// expected printed number
func (c *condCase) expect() string {
	if c.ctx == "or" {
		if c.want {
			return "1"
		}
		return "2"
	}
	if c.want {
		return "1"
	}
	return "0"
}

func (c *condCase) human() string {
	return fmt.Sprintf("func c(%s) { %s }  // c(%s)", c.params(),
		strings.Join(strings.Fields(c.body(0, func(r string) string { return "println(" + r + ")" })), " "), c.args())
}

func condProgram(cases []*condCase, forGC bool) string {
	var b strings.Builder
	b.WriteString("package main\n")
	if forGC {
		b.WriteString("\nimport \"fmt\"\n")
	}
	for i, c := range cases {
		out := func(r string) string {
			if forGC {
				return fmt.Sprintf("fmt.Println(\"R\", %d, %s)", i, r)
			}
			return fmt.Sprintf("println(\"R\", %d, %s)", i, r)
		}
		fmt.Fprintf(&b, "\nfunc c%d(%s) {\n%s}\n", i, c.params(), c.body(i, out))
	}
	const groupSize = 100 // see compileProgram
	ngroups := (len(cases) + groupSize - 1) / groupSize
	for g := 0; g < ngroups; g++ {
		fmt.Fprintf(&b, "\nfunc group%d() {\n", g)
		for i := g * groupSize; i < len(cases) && i < (g+1)*groupSize; i++ {
			fmt.Fprintf(&b, "\tc%d(%s)\n", i, cases[i].args())
		}
		b.WriteString("}\n")
	}
	b.WriteString("\nfunc main() {\n")
	for g := 0; g < ngroups; g++ {
		fmt.Fprintf(&b, "\tgroup%d()\n", g)
	}
	b.WriteString("}\n")
	return b.String()
}

// conditionCode cuts the code of the condition (up to the final If, i.e. before the first Goto)
// of every cN out of the disassembled package.
func conditionCode(asm string, n int) []string {
	out := make([]string, n)
	lines := strings.Split(asm, "\n")
	for at := 0; at < len(lines); at++ {
		var idx int
		if _, err := fmt.Sscanf(lines[at], "Func c%d(", &idx); err != nil || idx < 0 || idx >= n || !strings.HasPrefix(lines[at], "Func c") {
			continue
		}
		var code []string
		for at++; at < len(lines); at++ {
			t := strings.TrimSpace(lines[at])
			if t == "" || strings.HasPrefix(t, "Func ") || strings.HasPrefix(t, "Goto") {
				break
			}
			if strings.HasPrefix(t, ";") {
				continue
			}
			code = append(code, strings.Join(strings.Fields(t), " "))
		}
		out[idx] = strings.Join(code, "; ")
	}
	return out
}

func condReal(cases []*condCase) (code, outcome []string, err error) {
	src := condProgram(cases, false)
	outcome = make([]string, len(cases))
	for i := range outcome {
		outcome[i] = "no output"
	}
	defer func() {
		if r := recover(); r != nil {
			err = fmt.Errorf("host panic: %v", r)
		}
	}()
	prog, berr := scriggo.Build(scriggo.Files{"main.go": []byte(src)}, nil)
	if berr != nil {
		return nil, outcome, fmt.Errorf("build: %v", berr)
	}
	asm, derr := prog.Disassemble("main")
	if derr != nil {
		return nil, outcome, fmt.Errorf("disassemble: %v", derr)
	}
	code = conditionCode(string(asm), len(cases))
	var cur []any
	rerr := prog.Run(&scriggo.RunOptions{Print: func(v any) {
		if s, ok := v.(string); ok && s == "\n" {
			if len(cur) == 5 {
				if i, ok := cur[2].(int); ok && i >= 0 && i < len(outcome) {
					outcome[i] = fmt.Sprint(cur[4])
				}
			}
			cur = cur[:0]
			return
		}
		cur = append(cur, v)
	}})
	if rerr != nil {
		return code, outcome, fmt.Errorf("run: %v", rerr)
	}
	return code, outcome, nil
}

func condGC(cases []*condCase) ([]string, error) {
	outcome := make([]string, len(cases))
	for i := range outcome {
		outcome[i] = "no output"
	}
	dir, err := os.MkdirTemp("", "c01cond")
	if err != nil {
		return nil, err
	}
	defer os.RemoveAll(dir)
	file := filepath.Join(dir, "main.go")
	if err := os.WriteFile(file, []byte(condProgram(cases, true)), 0o644); err != nil {
		return nil, err
	}
	cmd := exec.Command("go", "run", file)
	cmd.Dir = dir
	cmd.Env = append(os.Environ(), "GOFLAGS=-mod=mod", "GOPROXY=off", "GO111MODULE=off")
	var stdout, stderr bytes.Buffer
	cmd.Stdout, cmd.Stderr = &stdout, &stderr
	if err := cmd.Run(); err != nil {
		msg := stderr.String()
		if len(msg) > 1500 {
			msg = msg[:1500]
		}
		return nil, fmt.Errorf("go run: %v: %s", err, msg)
	}
	for _, line := range strings.Split(stdout.String(), "\n") {
		f := strings.Fields(line)
		if len(f) != 3 || f[0] != "R" {
			continue
		}
		if i, err := strconv.Atoi(f[1]); err == nil && i >= 0 && i < len(outcome) {
			outcome[i] = f[2]
		}
	}
	return outcome, nil
}

// ---------------------------------------------------------------- generation

func cmpBig(op string, x, y *big.Int) bool {
	c := x.Cmp(y)
	switch op {
	case "eq":
		return c == 0
	case "ne":
		return c != 0
	case "lt":
		return c < 0
	case "le":
		return c <= 0
	case "gt":
		return c > 0
	}
	return c >= 0
}

func cmpOrd[T int | float64 | string](op string, x, y T) bool {
	switch op {
	case "eq":
		return x == y
	case "ne":
		return x != y
	case "lt":
		return x < y
	case "le":
		return x <= y
	case "gt":
		return x > y
	}
	return x >= y
}

type condGen struct {
	r *proto.Rand
	// `var p func()` is not nil on this tree (finding func-var-zero-not-nil, replayed by stream 4):
	// function types are left out of the nil comparisons while it is open
	nilFuncs bool
}

func (g *condGen) op() string { return cmpOps[g.r.Intn(len(cmpOps))] }

var kInt, _ = kindByName("int")

// around picks y - 1, y or y + 1 (mostly y), inside the kind.
func (g *condGen) around(k kind, y *big.Int) *big.Int {
	d := []int64{0, 0, -1, 1}[g.r.Intn(4)]
	z := new(big.Int).Add(y, big.NewInt(d))
	if !k.inRange(z) {
		return new(big.Int).Set(y)
	}
	return z
}

// lenString: len(s0) on one side, an int operand (variable, constant, expression) on the other
func (g *condGen) lenString() *condCase {
	s := strings.Repeat("x", g.r.Intn(5))
	if g.r.Intn(4) == 0 {
		s = strings.Repeat("é", 1+g.r.Intn(2)) // len counts bytes
	}
	l := big.NewInt(int64(len(s)))
	x := g.around(kInt, l)
	op := g.op()
	left := g.r.Intn(2) == 0
	c := &condCase{strs: []string{s}, shape: "len-string-right"}
	if left {
		c.shape = "len-string-left"
	}
	var osrc, otok string
	switch g.r.Intn(3) {
	case 0: // constant (LenEqual with a negative immediate makes Program.Disassemble index Values.String: left out)
		if x.Sign() >= 0 || (op != "eq") {
			osrc, otok = x.String(), "lit int "+x.String()
			c.shape += "-const"
			if x.Sign() == 0 && (op == "eq" || op == "ne") {
				otok = "" // len(s) == 0 goes through OpLen and the zero path: outside the model
			}
			break
		}
		fallthrough
	case 1:
		c.ints = []variable{{k: kInt, z: x}}
		osrc, otok = "v0", "var int 0"
		c.shape += "-var"
	default: // v0 + 1 == x
		c.ints = []variable{{k: kInt, z: new(big.Int).Sub(x, big.NewInt(1))}}
		osrc, otok = "(v0 + 1)", "bin add var int 0 lit int 1"
		c.shape += "-expr"
	}
	if left {
		c.src = fmt.Sprintf("len(s0) %s %s", cmpGo[op], osrc)
		c.want = cmpBig(op, l, x)
		if otok != "" {
			c.tokens = fmt.Sprintf("lenl %s 0 %s", op, otok)
		}
	} else {
		c.src = fmt.Sprintf("%s %s len(s0)", osrc, cmpGo[op])
		c.want = cmpBig(op, x, l)
		if otok != "" {
			c.tokens = fmt.Sprintf("lenr %s %s 0", op, otok)
		}
	}
	return c
}

// intCompare: two integers of one kind: variables, a constant on either side, an expression
func (g *condGen) intCompare() *condCase {
	k := kinds[g.r.Intn(len(kinds))]
	y := k.random(g.r)
	x := g.around(k, y)
	op := g.op()
	c := &condCase{shape: "int-compare", want: cmpBig(op, x, y)}
	lit := func(z *big.Int) (string, string) {
		return fmt.Sprintf("%s(%s)", k.name, z), fmt.Sprintf("lit %s %s", k.name, z)
	}
	switch g.r.Intn(4) {
	case 0:
		c.ints = []variable{{k: k, z: x}, {k: k, z: y}}
		c.src = fmt.Sprintf("v0 %s v1", cmpGo[op])
		c.tokens = fmt.Sprintf("ccmp %s var %s 0 var %s 1", op, k.name, k.name)
	case 1:
		c.ints = []variable{{k: k, z: x}}
		s, t := lit(y)
		c.src = fmt.Sprintf("v0 %s %s", cmpGo[op], s)
		c.tokens = fmt.Sprintf("ccmp %s var %s 0 %s", op, k.name, t)
		c.shape += "-const-right"
	case 2:
		c.ints = []variable{{k: k, z: y}}
		s, t := lit(x)
		c.src = fmt.Sprintf("%s %s v0", s, cmpGo[op])
		c.tokens = fmt.Sprintf("ccmp %s %s var %s 0", op, t, k.name)
		c.shape += "-const-left"
	default:
		// (v0 ^ v1) op v2 with v0 ^ v1 == x
		m := k.random(g.r)
		a := k.wrapTo(new(big.Int).Xor(k.pattern(x), k.pattern(m)))
		c.ints = []variable{{k: k, z: a}, {k: k, z: m}, {k: k, z: y}}
		c.src = fmt.Sprintf("(v0 ^ v1) %s v2", cmpGo[op])
		c.tokens = fmt.Sprintf("ccmp %s bin xor var %s 0 var %s 1 var %s 2", op, k.name, k.name, k.name)
		c.shape += "-expr"
	}
	return c
}

// pattern: the two's-complement bit pattern of z at the kind's width
func (k kind) pattern(z *big.Int) *big.Int {
	m := new(big.Int).Lsh(big.NewInt(1), uint(k.bits))
	return new(big.Int).Mod(z, m)
}

// zeroCompare: x == 0, 0 == x, x != 0, 0 != x
func (g *condGen) zeroCompare() *condCase {
	k := kinds[g.r.Intn(len(kinds))]
	x := g.around(k, big.NewInt(0))
	if g.r.Intn(5) == 0 {
		x = k.random(g.r)
	}
	op := []string{"eq", "ne"}[g.r.Intn(2)]
	c := &condCase{shape: "zero-compare", ints: []variable{{k: k, z: x}}, want: cmpBig(op, x, big.NewInt(0))}
	if g.r.Intn(2) == 0 {
		c.src = fmt.Sprintf("v0 %s 0", cmpGo[op])
		c.tokens = fmt.Sprintf("ccmp %s var %s 0 lit %s 0", op, k.name, k.name)
	} else {
		c.src = fmt.Sprintf("0 %s v0", cmpGo[op])
		c.tokens = fmt.Sprintf("ccmp %s lit %s 0 var %s 0", op, k.name, k.name)
	}
	return c
}

func (g *condGen) boolean() *condCase {
	b0, b1 := g.r.Intn(2) == 0, g.r.Intn(2) == 0
	c := &condCase{bools: []bool{b0}, shape: "bool"}
	switch g.r.Intn(7) {
	case 0:
		c.src, c.tokens, c.want = "b0", "cval bvar 0", b0
	case 1:
		c.src, c.tokens, c.want = "!b0", "cnot bvar 0", !b0
	case 2:
		c.src, c.want = "b0 == true", b0
		c.shape = "bool-compare-const"
	case 3:
		c.src, c.want = "false != b0", b0
		c.shape = "bool-compare-const"
	case 4:
		c.bools = []bool{b0, b1}
		c.src, c.want = "b0 != b1", b0 != b1
		c.shape = "bool-compare"
	case 5:
		k := kinds[g.r.Intn(len(kinds))]
		y := k.random(g.r)
		x := g.around(k, y)
		op := g.op()
		c.bools = nil
		c.ints = []variable{{k: k, z: x}, {k: k, z: y}}
		c.src, c.want = fmt.Sprintf("!(v0 %s v1)", cmpGo[op]), !cmpBig(op, x, y)
		c.tokens = fmt.Sprintf("cnot bcmp %s var %s 0 var %s 1", op, k.name, k.name)
		c.shape = "not-comparison"
	default:
		c.bools = nil
		c.want = g.r.Intn(2) == 0
		c.src, c.tokens = strconv.FormatBool(c.want), "clit "+strconv.FormatBool(c.want)
		c.shape = "constant"
	}
	return c
}

// outside the model: nil, strings, floats, len of a slice, len(s) == 0
func (g *condGen) other() *condCase {
	op := g.op()
	switch g.r.Intn(6) {
	case 0: // nil
		isNil := g.r.Intn(2) == 0
		eq := g.r.Intn(2) == 0
		typ := []struct{ decl, nonNil string }{
			{"var p *int", "p = new(int)"}, {"var p []int", "p = []int{1}"}, {"var p map[string]int", "p = map[string]int{}"},
			{"var p interface{}", "p = 3"}, {"var p func()", "p = func() {}"},
		}[g.r.Intn(map[bool]int{true: 5, false: 4}[g.nilFuncs])]
		c := &condCase{shape: "nil-compare", decls: []string{typ.decl}}
		if !isNil {
			c.decls = append(c.decls, typ.nonNil)
		}
		o := map[bool]string{true: "==", false: "!="}[eq]
		if g.r.Intn(2) == 0 {
			c.src = "p " + o + " nil"
		} else {
			c.src = "nil " + o + " p"
		}
		c.want = isNil == eq
		return c
	case 1: // strings
		ss := []string{"", "a", "ab", "b"}
		x, y := ss[g.r.Intn(4)], ss[g.r.Intn(4)]
		c := &condCase{shape: "string-compare", want: cmpOrd(op, x, y)}
		switch g.r.Intn(3) {
		case 0:
			c.strs = []string{x, y}
			c.src = fmt.Sprintf("s0 %s s1", cmpGo[op])
		case 1:
			c.strs = []string{x}
			c.src = fmt.Sprintf("s0 %s %q", cmpGo[op], y)
		default:
			c.strs = []string{y}
			c.src = fmt.Sprintf("%q %s s0", x, cmpGo[op])
		}
		return c
	case 2: // floats
		y := []float64{0, 1.5, -2, 1e300}[g.r.Intn(4)]
		x := y + []float64{0, 0, -1, 1}[g.r.Intn(4)]
		c := &condCase{shape: "float-compare", want: cmpOrd(op, x, y), floats: []float64{x, y}}
		c.src = fmt.Sprintf("f0 %s f1", cmpGo[op])
		if g.r.Intn(3) == 0 {
			c.floats = []float64{x}
			c.src = fmt.Sprintf("f0 %s 0", cmpGo[op])
			c.want = cmpOrd(op, x, 0)
		}
		return c
	case 3: // len of a slice: not the string fast path
		n := g.r.Intn(4)
		x := n + []int{0, 0, -1, 1}[g.r.Intn(4)]
		c := &condCase{shape: "len-slice", decls: []string{fmt.Sprintf("p := make([]int, %d)", n)}, ints: []variable{{k: kInt, z: big.NewInt(int64(x))}}}
		if g.r.Intn(2) == 0 {
			c.src, c.want = fmt.Sprintf("len(p) %s v0", cmpGo[op]), cmpOrd(op, n, x)
		} else {
			c.src, c.want = fmt.Sprintf("v0 %s len(p)", cmpGo[op]), cmpOrd(op, x, n)
		}
		return c
	case 4: // len(s) == 0 and friends: zero path through OpLen
		s := strings.Repeat("y", g.r.Intn(2))
		o := []string{"eq", "ne"}[g.r.Intn(2)]
		c := &condCase{shape: "len-string-zero", strs: []string{s}}
		if g.r.Intn(2) == 0 {
			c.src, c.want = fmt.Sprintf("len(s0) %s 0", cmpGo[o]), cmpOrd(o, len(s), 0)
		} else {
			c.src, c.want = fmt.Sprintf("0 %s len(s0)", cmpGo[o]), cmpOrd(o, 0, len(s))
		}
		return c
	default: // len of two strings on both sides: no fast path
		s, t := strings.Repeat("a", g.r.Intn(3)), strings.Repeat("b", g.r.Intn(3))
		return &condCase{shape: "len-string-both", strs: []string{s, t}, src: fmt.Sprintf("len(s0) %s len(s1)", cmpGo[op]), want: cmpOrd(op, len(s), len(t))}
	}
}

// switchTag: `switch tag { case e: }` is compiled as the condition `tag != e`
func (g *condGen) switchTag() *condCase {
	s := strings.Repeat("z", g.r.Intn(4))
	x := g.around(kInt, big.NewInt(int64(len(s))))
	c := &condCase{ctx: "switchtag", shape: "switch-tag-len", strs: []string{s}, ints: []variable{{k: kInt, z: x}}, want: x.Cmp(big.NewInt(int64(len(s)))) == 0}
	switch g.r.Intn(3) {
	case 0:
		c.src = "v0|len(s0)"
	case 1:
		c.src = "len(s0)|v0"
	default:
		y := g.around(kInt, x)
		c.strs = nil
		c.ints = append(c.ints, variable{k: kInt, z: y})
		c.src, c.want = "v0|v1", x.Cmp(y) == 0
		c.shape = "switch-tag-int"
	}
	return c
}

func (g *condGen) next() *condCase {
	var c *condCase
	switch n := g.r.Intn(20); {
	case n < 7:
		c = g.lenString()
	case n < 11:
		c = g.intCompare()
	case n < 13:
		c = g.zeroCompare()
	case n < 15:
		c = g.boolean()
	case n < 16:
		return g.switchTag()
	default:
		c = g.other()
	}
	if g.r.Intn(2) == 0 {
		c.ctx = []string{"if", "ifelse"}[g.r.Intn(2)]
	} else {
		c.ctx = condCtxs[g.r.Intn(len(condCtxs))]
	}
	return c
}

// ---------------------------------------------------------------- protocol lines

func (c *condCase) inModel() bool {
	return c.tokens != "" && (c.ctx == "if" || c.ctx == "ifelse") && len(c.decls) == 0 && len(c.floats) == 0
}

func (c *condCase) ccompileLine() string {
	return fmt.Sprintf("C01 ccompile %d %d %s", len(c.ints), len(c.bools), c.tokens)
}

func (c *condCase) ccrunLine() string {
	var b strings.Builder
	fmt.Fprintf(&b, "C01 ccrun %d", len(c.ints))
	for _, v := range c.ints {
		b.WriteString(" " + v.z.String())
	}
	fmt.Fprintf(&b, " %d", len(c.bools))
	for _, v := range c.bools {
		b.WriteString(" " + strconv.FormatBool(v))
	}
	fmt.Fprintf(&b, " %d", len(c.strs))
	for _, s := range c.strs {
		fmt.Fprintf(&b, " %d", len(s))
	}
	b.WriteString(" " + c.tokens)
	return b.String()
}

// sameCondCode compares the disassembled code with the model's. The disassembler prints the second
// operand of `If … LenEqual` as a string operand (its range test includes ConditionLenEqual):
// that operand is not compared.
func sameCondCode(real, model string) bool {
	cut := func(s string) string {
		if i := strings.LastIndex(s, " LenEqual "); i >= 0 {
			return s[:i+len(" LenEqual")]
		}
		return s
	}
	return cut(real) == cut(model)
}

func conditionStream(c *hx.Ctx, n int, withGC bool) error {
	res := c.Res
	g := &condGen{r: c.R, nilFuncs: !c.HasFinding("func-var-zero-not-nil")}
	cases := make([]*condCase, n)
	for i := range cases {
		cases[i] = g.next()
	}
	code, outcome, err := condReal(cases)
	if err != nil {
		for _, tc := range cases {
			if _, _, e := condReal([]*condCase{tc}); e != nil {
				res.AddBreak(proto.Break{Kind: "property", Name: "builds-and-runs", Case: "condition " + tc.src, Human: tc.human(), Impl: e.Error(), Model: "builds and runs"})
				return nil
			}
		}
		return fmt.Errorf("condition batch: %v", err)
	}
	var gcOut []string
	if withGC {
		if gcOut, err = condGC(cases); err != nil {
			res.Notes = append(res.Notes, "gc run of the condition stream failed: "+err.Error())
			res.AddBreak(proto.Break{Kind: "correspondence", Name: "spec-vs-gc", Case: "go run (conditions)", Impl: err.Error(), Model: "the generated conditions compile with gc"})
			gcOut = nil
		}
	}
	var lines []string
	var at []int
	if c.D != nil {
		for i, tc := range cases {
			if tc.inModel() {
				at = append(at, i)
				lines = append(lines, tc.ccompileLine(), tc.ccrunLine())
			}
		}
	}
	var model []string
	if len(lines) > 0 {
		if model, err = c.D.Batch(lines); err != nil {
			return err
		}
	}
	reported := map[string]bool{}
	report := func(b proto.Break) {
		if !reported[b.Name] {
			reported[b.Name] = true
			res.AddBreak(b)
		}
	}
	for i, tc := range cases {
		key := fmt.Sprintf("cond %s %s %s", tc.ctx, tc.src, tc.args())
		res.Count(key, true)
		res.Hist("cond-" + tc.shape)
		res.Hist("cond-ctx-" + tc.ctx)
		if tc.want {
			res.Hist("cond-true")
		} else {
			res.Hist("cond-false")
		}
		want := tc.expect()
		if gcOut != nil {
			res.SpecChecks["condition-expectation-vs-gc"]++
			if gcOut[i] != want {
				// the generator's own expectation is wrong: loud, and gc decides below
				report(proto.Break{Kind: "correspondence", Name: "spec-vs-gc", Case: key, Human: tc.human(), Impl: "gc: " + gcOut[i], Model: want})
				want = gcOut[i]
			}
		}
		if outcome[i] != want {
			report(proto.Break{Kind: "property", Name: "condition-vs-go-semantics", Case: key, Human: tc.human(), Impl: outcome[i], Model: want})
		}
	}
	for j, i := range at {
		tc := cases[i]
		mCode, mRun := model[2*j], model[2*j+1]
		if i%97 == 0 {
			res.Sample(map[string]string{"go": tc.human(), "emitter": code[i], "model": mCode, "model-vm-and-evalCond": mRun, "scriggo": outcome[i]})
		}
		if mCode == "bad-op" || mRun == "bad-op" {
			report(proto.Break{Kind: "correspondence", Name: "generated-condition-well-typed", Case: lines[2*j], Human: tc.human(), Impl: code[i], Model: mCode + " / " + mRun})
			continue
		}
		res.Hist("cond-in-model")
		if !sameCondCode("ok "+code[i], mCode) {
			report(proto.Break{Kind: "correspondence", Name: "compileCond-vs-emitter", Case: lines[2*j], Human: tc.human(), Impl: code[i], Model: strings.TrimPrefix(mCode, "ok ")})
		}
		want := "ok " + strconv.FormatBool(tc.want)
		real := "ok " + strconv.FormatBool(outcome[i] == "1")
		f := strings.Fields(mRun) // ok <vm> ok <spec>
		if len(f) != 4 {
			report(proto.Break{Kind: "correspondence", Name: "driver-answers", Case: lines[2*j+1], Human: tc.human(), Impl: outcome[i], Model: mRun})
			continue
		}
		vm, spec := f[0]+" "+f[1], f[2]+" "+f[3]
		if spec != want {
			report(proto.Break{Kind: "correspondence", Name: "evalCond-vs-expectation", Case: lines[2*j+1], Human: tc.human(), Impl: want, Model: spec})
		}
		if vm != real && (outcome[i] == "0" || outcome[i] == "1") {
			report(proto.Break{Kind: "correspondence", Name: "model-vm-vs-scriggo", Case: lines[2*j+1], Human: tc.human(), Impl: real, Model: vm})
		}
	}
	return nil
}
