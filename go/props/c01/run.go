package main

import (
	"bytes"
	"fmt"
	"os"
	"os/exec"
	"path/filepath"
	"strconv"
	"strings"

	"github.com/open2b/scriggo"

	"verifharness/internal/proto"
)

// Program text for a batch of cases, for Scriggo (println through the Print hook) and for gc
// (fmt.Printf of dynamic type and value). Every case is its own function with a deferred
// recover, so that a run-time panic of one case is recorded and the batch goes on. Functions are
// grouped (a Scriggo function can reference at most 256 functions).

const groupSize = 200
const maxGlobals = 60

func programText(cases []*tcase, forGC bool) string {
	var b strings.Builder
	b.WriteString("package main\n\n")
	if forGC {
		b.WriteString("import \"fmt\"\n\nfunc show(i int, v any) {\n\tif s, ok := v.(string); ok {\n\t\tif s == \"\" {\n\t\t\tfmt.Printf(\"R %d string -\\n\", i)\n\t\t} else {\n\t\t\tfmt.Printf(\"R %d string %x\\n\", i, s)\n\t\t}\n\t\treturn\n\t}\n\tfmt.Printf(\"R %d %T %v\\n\", i, v, v)\n}\n\n")
	}
	// package-level variables (their initialisers share one function and its 127 integer
	// registers: only the first maxGlobals are package-level, the rest become locals)
	globals := 0
	for i, c := range cases {
		for j, v := range c.vars {
			if v.place == 2 {
				if globals < maxGlobals {
					fmt.Fprintf(&b, "var g%d_%d %s = %s\n", i, j, v.k.name, v.z)
					globals++
				} else {
					c.vars[j].place = 0
				}
			}
		}
	}
	for i, c := range cases {
		fmt.Fprintf(&b, "\nfunc e%d(", i)
		first := true
		for j, v := range c.vars {
			if v.place == 1 {
				if !first {
					b.WriteString(", ")
				}
				first = false
				fmt.Fprintf(&b, "v%d %s", j, v.k.name)
			}
		}
		b.WriteString(") {\n\tdefer func() {\n\t\tif r := recover(); r != nil {\n")
		if forGC {
			fmt.Fprintf(&b, "\t\t\tfmt.Printf(\"P %%d %%v\\n\", %d, r)\n", i)
		} else {
			fmt.Fprintf(&b, "\t\t\tprintln(\"P\", %d, r.(error).Error())\n", i)
		}
		b.WriteString("\t\t}\n\t}()\n")
		for j, v := range c.vars {
			switch v.place {
			case 0:
				fmt.Fprintf(&b, "\tvar v%d %s = %s\n", j, v.k.name, v.z)
			case 2:
				fmt.Fprintf(&b, "\tv%d := g%d_%d\n", j, i, j)
			}
		}
		if forGC {
			fmt.Fprintf(&b, "\tshow(%d, ", i)
		} else {
			fmt.Fprintf(&b, "\tprintln(\"R\", %d, ", i)
		}
		c.tree.goSrc(&b)
		b.WriteString(")\n}\n")
	}
	ngroups := (len(cases) + groupSize - 1) / groupSize
	for g := 0; g < ngroups; g++ {
		fmt.Fprintf(&b, "\nfunc group%d() {\n", g)
		for i := g * groupSize; i < len(cases) && i < (g+1)*groupSize; i++ {
			fmt.Fprintf(&b, "\te%d(", i)
			first := true
			for _, v := range cases[i].vars {
				if v.place == 1 {
					if !first {
						b.WriteString(", ")
					}
					first = false
					b.WriteString(v.z.String())
				}
			}
			b.WriteString(")\n")
		}
		b.WriteString("}\n")
	}
	b.WriteString("\nfunc main() {\n")
	for g := 0; g < ngroups; g++ {
		fmt.Fprintf(&b, "\tgroup%d()\n", g)
	}
	b.WriteString("}\n")
	return b.String()
}

// canonical outcome strings, the same as the Lean driver's `eval` answers:
//
//	ok <type> <value> | err divzero | err negshift | other: …
func classifyPanic(msg string) string {
	switch {
	case strings.Contains(msg, "integer divide by zero"):
		return "err divzero"
	case strings.Contains(msg, "negative shift amount"):
		return "err negshift"
	}
	return "other: panic " + msg
}

// runScriggo builds and runs the batch; outcome[i] is the canonical outcome of case i.
func runScriggo(cases []*tcase) (outcome []string, err error) {
	src := programText(cases, false)
	outcome = make([]string, len(cases))
	for i := range outcome {
		outcome[i] = "other: no output"
	}
	defer func() {
		if r := recover(); r != nil {
			err = fmt.Errorf("host panic: %v", r)
		}
	}()
	prog, berr := scriggo.Build(scriggo.Files{"main.go": []byte(src)}, nil)
	if berr != nil {
		return outcome, fmt.Errorf("build: %v", berr)
	}
	var cur []any
	flush := func() {
		// "R" " " i " " value  |  "P" " " i " " message
		if len(cur) == 5 {
			tag, _ := cur[0].(string)
			i, ok := cur[2].(int)
			if ok && i >= 0 && i < len(outcome) {
				switch tag {
				case "R":
					if s, ok := cur[4].(string); ok {
						outcome[i] = "ok string " + proto.Hex([]byte(s))
					} else {
						outcome[i] = fmt.Sprintf("ok %T %v", cur[4], cur[4])
					}
				case "P":
					s, _ := cur[4].(string)
					outcome[i] = classifyPanic(s)
				}
			}
		}
		cur = cur[:0]
	}
	rerr := prog.Run(&scriggo.RunOptions{Print: func(v any) {
		if s, ok := v.(string); ok && s == "\n" {
			flush()
			return
		}
		cur = append(cur, v)
	}})
	if rerr != nil {
		return outcome, fmt.Errorf("run: %v", rerr)
	}
	return outcome, nil
}

// runGC compiles and runs the batch with the gc toolchain (offline).
func runGC(cases []*tcase) ([]string, error) {
	outcome := make([]string, len(cases))
	for i := range outcome {
		outcome[i] = "other: no output"
	}
	dir, err := os.MkdirTemp("", "c01gc")
	if err != nil {
		return nil, err
	}
	defer os.RemoveAll(dir)
	file := filepath.Join(dir, "main.go")
	if err := os.WriteFile(file, []byte(programText(cases, true)), 0o644); err != nil {
		return nil, err
	}
	cmd := exec.Command("go", "run", file)
	cmd.Dir = dir
	cmd.Env = append(os.Environ(), "GOFLAGS=-mod=mod", "GOPROXY=off", "GO111MODULE=off")
	var stdout, stderr bytes.Buffer
	cmd.Stdout, cmd.Stderr = &stdout, &stderr
	if err := cmd.Run(); err != nil {
		msg := stderr.String()
		if len(msg) > 1500 {
			msg = msg[:1500]
		}
		return nil, fmt.Errorf("go run: %v: %s", err, msg)
	}
	for _, line := range strings.Split(stdout.String(), "\n") {
		f := strings.SplitN(line, " ", 3)
		if len(f) != 3 {
			continue
		}
		i, err := strconv.Atoi(f[1])
		if err != nil || i < 0 || i >= len(outcome) {
			continue
		}
		switch f[0] {
		case "R":
			outcome[i] = "ok " + f[2]
		case "P":
			outcome[i] = classifyPanic(f[2])
		}
	}
	return outcome, nil
}
