package main

import (
	"fmt"
	"math/big"
	"strings"

	"verifharness/internal/proto"
)

// A typed random program generator for the gc-differential stream: deterministic Go programs
// (println output only) over a wide part of the language. Top-level identifiers carry the prefix
// "Pq_" so that many programs can live in one gc binary (the prefix is replaced per program).
//
// A program is a list of top-level declaration groups and a list of fragments (blocks of
// statements in main); both are the units of shrinking. Constructs whose behaviour Go leaves
// open are never generated: float→int conversion of out-of-range values, map iteration order,
// capacity after append growth, printing of pointers, goroutines.

type fragment struct {
	kind  string   // name of the generator (histogram, finding classification)
	decls []string // top-level declarations this fragment needs
	lines []string // statements (run inside their own block in main)
}

type program struct {
	frags []fragment
}

func (p *program) text(prefix string, mainName string) string {
	if len(p.frags) == 1 && p.frags[0].kind == "raw" {
		// a complete source text (a recorded finding): `func main()`, top-level names with Pq_
		src := p.frags[0].decls[0]
		if mainName != "main" {
			src = strings.Replace(src, "package main\n", "", 1)
			src = strings.Replace(src, "func main()", "func "+mainName+"()", 1)
		}
		return strings.ReplaceAll(src, "Pq_", prefix)
	}
	var b strings.Builder
	if mainName == "main" {
		b.WriteString("package main\n\n")
	}
	for _, f := range p.frags {
		for _, d := range f.decls {
			b.WriteString(d + "\n")
		}
	}
	fmt.Fprintf(&b, "\nfunc %s() {\n", mainName)
	for _, f := range p.frags {
		if len(f.lines) == 0 {
			continue
		}
		b.WriteString("\t{\n")
		for _, l := range f.lines {
			b.WriteString("\t\t" + l + "\n")
		}
		b.WriteString("\t}\n")
	}
	b.WriteString("}\n")
	return strings.ReplaceAll(b.String(), "Pq_", prefix)
}

func (p *program) kinds() string {
	var ks []string
	for _, f := range p.frags {
		ks = append(ks, f.kind)
	}
	return strings.Join(ks, ",")
}

type pgen struct {
	r     *proto.Rand
	n     int             // unique-name counter
	avoid map[string]bool // features ("<kind>.<variant>") that hit an open recorded finding
	dead  bool            // the fragment being generated has no allowed variant
}

func (g *pgen) id(base string) string { g.n++; return fmt.Sprintf("%s%d", base, g.n) }
func (g *pgen) top(base string) string {
	g.n++
	return fmt.Sprintf("Pq_%s%d", base, g.n)
}

// pickCase chooses one of the n variants of a fragment generator. A variant is the feature
// "<kind>.<index>"; variants that hit an open recorded finding (g.avoid) are not chosen. When every
// variant is avoided the fragment under construction is dropped (g.dead).
func (g *pgen) pickCase(kind string, n int) int {
	var ok []int
	for i := 0; i < n; i++ {
		if !g.avoid[fmt.Sprintf("%s.%d", kind, i)] {
			ok = append(ok, i)
		}
	}
	if len(ok) == 0 {
		g.dead = true
		return 0
	}
	return ok[g.r.Intn(len(ok))]
}

func (g *pgen) pick(ss ...string) string { return ss[g.r.Intn(len(ss))] }
func (g *pgen) rng(lo, hi int) int       { return lo + g.r.Intn(hi-lo+1) }

var intKindNames = []string{"int", "int8", "int16", "int32", "int64", "uint", "uint8", "uint16", "uint32", "uint64"}

func (g *pgen) intKind() kind { k, _ := kindByName(g.pick(intKindNames...)); return k }

// intLit: an in-range boundary-rich literal of kind k, as Go source
func (g *pgen) intLit(k kind) string { return k.random(g.r).String() }

// intTree: variables declarations and a non-constant expression of integer kind (reuses the
// tree generator of stream 2; no negative shift counts, they are a recorded finding)
func (g *pgen) intTree(depth int) (decls []string, expr string) {
	tg := &gen{r: g.r, uintptrNot: true}
	t := tg.tree(depth)
	tc := &tcase{tree: t, vars: tg.vars}
	tc.normalise()
	pre := g.id("t")
	for i, v := range tc.vars {
		decls = append(decls, fmt.Sprintf("var %s_%d %s = %s", pre, i, v.k.name, v.z))
	}
	var b strings.Builder
	tc.tree.goSrc(&b)
	e := b.String()
	// rename v<i> → <pre>_<i> (longest index first so that v1 does not eat v10)
	for i := len(tc.vars) - 1; i >= 0; i-- {
		e = strings.ReplaceAll(e, fmt.Sprintf("v%d", i), fmt.Sprintf("%s_%d", pre, i))
	}
	return decls, e
}

var sampleStrings = []string{`""`, `"a"`, `"hello"`, `"héllo, wörld"`, `"日本語"`, `"a\x80b"`, `"\xff\xfe"`, `"😀 smile"`, `"tab\there"`,
	`"\xed\xa0\x80"`, `"abc\x00def"`, `"ǅ"`, `"é́"`, `"x\xf0\x9f\x98"`, `"0123456789"`}

var codePoints = []int64{0, 0x41, 0x7F, 0x80, 0xE9, 0x7FF, 0x800, 0xD7FF, 0xD800, 0xDFFF, 0xE000, 0xFFFD, 0xFFFF, 0x10000, 0x1F600,
	0x10FFFF, 0x110000, 1<<31 - 1, 1 << 31, 1<<32 + 0x41, 1<<32 - 1, 1<<40 + 0x263A, -1, -0x41, -1 << 31, -1<<32 + 0x41}

func (g *pgen) codePoint(k kind) string {
	for try := 0; try < 20; try++ {
		if z := big.NewInt(codePoints[g.r.Intn(len(codePoints))]); k.inRange(z) {
			return z.String()
		}
	}
	return "65"
}

var floatLits = []string{"0.0", "1.5", "-2.25", "3.141592653589793", "1e10", "-1e-7", "123456.789", "0.1", "2.5e-320", "1.7976931348623157e308", "-0.0", "100.0", "7.0", "0.3333333333333333"}

// dumpBytes: statements printing a string's length and bytes (never the raw text only)
func dumpStr(name string) []string {
	return []string{fmt.Sprintf("print(len(%s), \":\")", name),
		fmt.Sprintf("for i := 0; i < len(%s); i++ { print(\" \", %s[i]) }", name, name), "println()"}
}

// ---------------------------------------------------------------- fragments

type fragGen func(g *pgen) fragment

var fragGens = []struct {
	name string
	f    fragGen
}{
	{"intexpr", fragIntExpr}, {"strconv", fragStrConv}, {"strops", fragStrOps}, {"float", fragFloat},
	{"shortcircuit", fragShortCircuit}, {"slice", fragSlice}, {"map", fragMap}, {"struct", fragStruct},
	{"pointer", fragPointer}, {"iface", fragIface}, {"closure", fragClosure}, {"defer", fragDefer},
	{"control", fragControl}, {"initorder", fragInitOrder}, {"assign", fragAssign}, {"const", fragConst},
	{"func", fragFunc}, {"array", fragArray}, {"rtpanic", fragRuntimePanic},
}

func fragIntExpr(g *pgen) fragment {
	f := fragment{kind: "intexpr"}
	for i := 0; i < g.rng(1, 3); i++ {
		d, e := g.intTree(g.rng(1, 4))
		f.lines = append(f.lines, d...)
		if g.r.Intn(3) == 0 {
			// through a recover, for divisions by zero
			f.lines = append(f.lines, fmt.Sprintf("func() { defer func() { if r := recover(); r != nil { println(\"recovered:\", r.(error).Error()) } }(); println(%s) }()", e))
		} else if strings.Contains(e, "/") || strings.Contains(e, "%") {
			f.lines = append(f.lines, fmt.Sprintf("func() { defer func() { if r := recover(); r != nil { println(\"recovered:\", r.(error).Error()) } }(); println(%s) }()", e))
		} else {
			f.lines = append(f.lines, fmt.Sprintf("println(%s)", e))
		}
	}
	return f
}

func fragStrConv(g *pgen) fragment {
	f := fragment{kind: "strconv"}
	for i := 0; i < g.rng(2, 4); i++ {
		switch g.pickCase("strconv", 7) {
		case 0, 1: // string(integer variable), every kind
			k := g.intKind()
			x, s := g.id("x"), g.id("s")
			f.lines = append(f.lines, fmt.Sprintf("var %s %s = %s", x, k.name, g.codePoint(k)), fmt.Sprintf("%s := string(%s)", s, x))
			f.lines = append(f.lines, dumpStr(s)...)
		case 2: // rune / byte
			x, s := g.id("r"), g.id("s")
			if g.r.Bool() {
				k, _ := kindByName("int32")
				f.lines = append(f.lines, fmt.Sprintf("var %s rune = %s", x, g.codePoint(k)))
			} else {
				f.lines = append(f.lines, fmt.Sprintf("var %s byte = %d", x, g.r.Intn(256)))
			}
			f.lines = append(f.lines, fmt.Sprintf("%s := string(%s) + \"|\"", s, x))
			f.lines = append(f.lines, dumpStr(s)...)
		case 3: // string → []byte → string
			s, b := g.id("s"), g.id("b")
			f.lines = append(f.lines, fmt.Sprintf("%s := %s", s, g.pick(sampleStrings...)), fmt.Sprintf("%s := []byte(%s)", b, s),
				fmt.Sprintf("if len(%s) > 0 { %s[0] = 'Z' }", b, b), fmt.Sprintf("println(len(%s), string(%s) == %s, len(string(%s)))", b, b, s, b))
			f.lines = append(f.lines, fmt.Sprintf("for _, c := range %s { print(c, \" \") }", b), "println()")
		case 4: // string → []rune
			s, rs := g.id("s"), g.id("rs")
			f.lines = append(f.lines, fmt.Sprintf("%s := %s", s, g.pick(sampleStrings...)), fmt.Sprintf("%s := []rune(%s)", rs, s),
				fmt.Sprintf("print(len(%s), \":\")", rs), fmt.Sprintf("for _, r := range %s { print(\" \", r) }", rs), "println()")
			s2 := g.id("s")
			f.lines = append(f.lines, fmt.Sprintf("%s := string(%s)", s2, rs))
			f.lines = append(f.lines, dumpStr(s2)...)
		case 5: // []rune with invalid code points → string
			rs, s := g.id("rs"), g.id("s")
			k, _ := kindByName("int32")
			f.lines = append(f.lines, fmt.Sprintf("%s := []rune{%s, %s, %s}", rs, g.codePoint(k), g.codePoint(k), g.codePoint(k)), fmt.Sprintf("%s := string(%s)", s, rs))
			f.lines = append(f.lines, dumpStr(s)...)
		default: // integer conversions chained with a string conversion
			k1, k2 := g.intKind(), g.intKind()
			x, s := g.id("x"), g.id("s")
			f.lines = append(f.lines, fmt.Sprintf("var %s %s = %s", x, k1.name, g.codePoint(k1)), fmt.Sprintf("%s := string(%s(%s))", s, k2.name, x))
			f.lines = append(f.lines, dumpStr(s)...)
		}
	}
	return f
}

func fragStrOps(g *pgen) fragment {
	f := fragment{kind: "strops"}
	a, b := g.id("a"), g.id("b")
	f.lines = append(f.lines, fmt.Sprintf("%s, %s := %s, %s", a, b, g.pick(sampleStrings...), g.pick(sampleStrings...)), fmt.Sprintf("_, _ = %s, %s", a, b))
	for i := 0; i < g.rng(2, 4); i++ {
		switch g.pickCase("strops", 7) {
		case 0:
			f.lines = append(f.lines, fmt.Sprintf("println(%s < %s, %s == %s, %s >= %s, %s+%s != %s+%s, len(%s+%s))", a, b, a, b, a, b, a, b, b, a, a, b))
		case 1:
			f.lines = append(f.lines, fmt.Sprintf("for i, r := range %s { print(i, \":\", r, \" \") }", g.pick(a, b, a+"+"+b)), "println()")
		case 2:
			i := g.id("i")
			f.lines = append(f.lines, fmt.Sprintf("%s := %d", i, g.r.Intn(8)),
				fmt.Sprintf("func() { defer func() { if r := recover(); r != nil { println(\"recovered:\", r.(error).Error()) } }(); println(%s[%s]) }()", a, i))
		case 3:
			lo, hi := g.id("lo"), g.id("hi")
			f.lines = append(f.lines, fmt.Sprintf("%s, %s := %d, %d", lo, hi, g.r.Intn(4), g.r.Intn(9)),
				fmt.Sprintf("func() { defer func() { if r := recover(); r != nil { println(\"recovered: slice bounds\") } }(); t := %s[%s:%s]; println(len(t), t == %s) }()", b, lo, hi, b))
		case 4:
			s := g.id("s")
			f.lines = append(f.lines, fmt.Sprintf("%s := \"\"", s), fmt.Sprintf("for i := 0; i < %d; i++ { %s += %s; if i%%2 == 0 { %s += \"-\" } }", g.rng(1, 4), s, a, s))
			f.lines = append(f.lines, dumpStr(s)...)
		case 5:
			f.lines = append(f.lines, fmt.Sprintf("switch { case %s == \"\": println(\"empty\"); case %s[0] >= 'a' && %s[0] <= 'z': println(\"lower\", %s[0]); default: println(\"other\", %s[len(%s)-1]) }", a, a, a, a, a, a))
		default:
			n := g.id("n")
			f.lines = append(f.lines, fmt.Sprintf("%s := 0", n), fmt.Sprintf("for range %s { %s++ }", b, n), fmt.Sprintf("println(%s, len(%s), len([]rune(%s)))", n, b, b))
		}
	}
	return f
}

func fragFloat(g *pgen) fragment {
	f := fragment{kind: "float"}
	t := g.pick("float64", "float64", "float32")
	x, y := g.id("x"), g.id("y")
	lits := floatLits
	if t == "float32" {
		lits = floatLits[:9] // the largest float64 overflows float32 (a compile error)
		lits = append(append([]string{}, lits...), floatLits[10:]...)
	}
	f.lines = append(f.lines, fmt.Sprintf("var %s, %s %s = %s, %s", x, y, t, g.pick(lits[:9]...), g.pick(lits...)), fmt.Sprintf("_, _ = %s, %s", x, y))
	for i := 0; i < g.rng(2, 4); i++ {
		switch g.pickCase("float", 7) {
		case 0:
			f.lines = append(f.lines, fmt.Sprintf("println(%s+%s, %s-%s, %s*%s, %s/%s)", x, y, x, y, x, y, x, y))
		case 1:
			f.lines = append(f.lines, fmt.Sprintf("println(%s < %s, %s == %s, %s != %s, -%s, %s/(%s-%s))", x, y, x, y, x, x, x, x, y, y))
		case 2: // int → float
			k := g.intKind()
			n := g.id("n")
			f.lines = append(f.lines, fmt.Sprintf("var %s %s = %s", n, k.name, g.intLit(k)), fmt.Sprintf("println(float64(%s), float32(%s), %s(%s)+%s)", n, n, t, n, x))
		case 3: // float → int, value in range (out-of-range conversions are implementation-defined)
			v := g.id("v")
			val := g.pick("0.0", "1.5", "-1.5", "2.9999", "-2.9999", "126.99", "-127.5", "100.0", "0.9999999", "-0.5")
			f.lines = append(f.lines, fmt.Sprintf("var %s %s = %s", v, t, val), fmt.Sprintf("println(int(%s), int8(%s), int64(%s), int16(%s*2))", v, v, v, v))
			if !strings.HasPrefix(val, "-") {
				f.lines = append(f.lines, fmt.Sprintf("println(uint8(%s), uint(%s), uint64(%s))", v, v, v))
			}
		case 4:
			f.lines = append(f.lines, fmt.Sprintf("println(float32(%s), float64(float32(%s)) == float64(%s), float32(%s)*float32(%s))", x, x, x, x, y))
		case 5:
			z := g.id("z")
			f.lines = append(f.lines, fmt.Sprintf("%s := %s", z, x), fmt.Sprintf("for i := 0; i < %d; i++ { %s = %s*%s + %s }", g.rng(1, 5), z, z, g.pick("0.5", "1.25", "-0.75"), y), fmt.Sprintf("println(%s)", z))
		default:
			k := g.intKind()
			f.lines = append(f.lines, fmt.Sprintf("println(%s + %s, %s * 2, 1 / %s, %s(%s(%d)))", x, g.pick("1", "0.5", "1e3"), y, g.pick(x, y), t, k.name, g.r.Intn(100)))
		}
	}
	return f
}

func fragShortCircuit(g *pgen) fragment {
	f := fragment{kind: "shortcircuit"}
	tr, fa := g.id("T"), g.id("F")
	f.lines = append(f.lines, fmt.Sprintf("%s := func(s string) bool { print(s, \" \"); return true }", tr), fmt.Sprintf("%s := func(s string) bool { print(s, \" \"); return false }", fa))
	var term func(d int) string
	n := 0
	term = func(d int) string {
		n++
		if d == 0 || g.r.Intn(3) == 0 {
			return fmt.Sprintf("%s(\"%c%d\")", g.pick(tr, fa), 'a'+rune(g.r.Intn(4)), n)
		}
		switch g.r.Intn(3) {
		case 0:
			return "(" + term(d-1) + " && " + term(d-1) + ")"
		case 1:
			return "(" + term(d-1) + " || " + term(d-1) + ")"
		}
		return "!" + term(d-1)
	}
	for i := 0; i < g.rng(1, 3); i++ {
		f.lines = append(f.lines, fmt.Sprintf("println(%s)", term(g.rng(1, 3))))
	}
	x := g.id("x")
	f.lines = append(f.lines, fmt.Sprintf("%s := %d", x, g.r.Intn(5)), fmt.Sprintf("if %s > 2 && %s(\"gt\") || %s(\"le\") { println(\"yes\", %s) } else { println(\"no\", %s) }", x, tr, fa, x, x))
	return f
}

func fragSlice(g *pgen) fragment {
	f := fragment{kind: "slice"}
	k := g.intKind()
	s := g.id("s")
	f.lines = append(f.lines, fmt.Sprintf("%s := []%s{%s, %s, %s}", s, k.name, g.intLit(k), g.intLit(k), g.intLit(k)), "_ = "+s)
	dump := func(name string) string {
		return fmt.Sprintf("print(len(%s), \":\"); for _, e := range %s { print(\" \", e) }; println()", name, name)
	}
	for i := 0; i < g.rng(2, 5); i++ {
		switch g.pickCase("slice", 9) {
		case 0:
			f.lines = append(f.lines, fmt.Sprintf("%s = append(%s, %s, %s)", s, s, g.intLit(k), g.intLit(k)), dump(s))
		case 1:
			t := g.id("t")
			f.lines = append(f.lines, fmt.Sprintf("%s := make([]%s, %d, %d)", t, k.name, g.rng(0, 3), g.rng(3, 6)), fmt.Sprintf("println(copy(%s, %s), len(%s), cap(%s))", t, s, t, t), dump(t))
		case 2:
			t := g.id("t")
			f.lines = append(f.lines, fmt.Sprintf("%s := %s[1:%d]", t, s, g.rng(1, 3)), fmt.Sprintf("%s[0] = %s", t, g.intLit(k)), dump(s), dump(t), fmt.Sprintf("println(cap(%s[:0]) >= len(%s))", t, t))
		case 3:
			i := g.id("i")
			f.lines = append(f.lines, fmt.Sprintf("%s := %d", i, g.r.Intn(6)),
				fmt.Sprintf("func() { defer func() { if r := recover(); r != nil { println(\"recovered: index\") } }(); println(%s[%s]) }()", s, i))
		case 4:
			f.lines = append(f.lines, fmt.Sprintf("for i, e := range %s { if i%%2 == 0 { %s[i] = e + 1 } }", s, s), dump(s))
		case 5:
			n := g.id("n")
			f.lines = append(f.lines, fmt.Sprintf("var %s []%s", n, k.name), fmt.Sprintf("println(%s == nil, len(%s), cap(%s))", n, n, n), fmt.Sprintf("%s = append(%s, %s...)", n, n, s), fmt.Sprintf("println(%s == nil, len(%s))", n, n))
		case 6:
			m := g.id("m")
			f.lines = append(f.lines, fmt.Sprintf("%s := [][]%s{{%s}, {%s, %s}, nil}", m, k.name, g.intLit(k), g.intLit(k), g.intLit(k)),
				fmt.Sprintf("for i, row := range %s { print(i, \"/\", len(row), \" \"); for _, e := range row { print(e, \" \") } }; println()", m))
		case 7:
			t := g.id("t")
			f.lines = append(f.lines, fmt.Sprintf("%s := %s[:1:2]", t, s), fmt.Sprintf("%s = append(%s, %s)", t, t, g.intLit(k)), fmt.Sprintf("%s = append(%s, %s)", t, t, g.intLit(k)), dump(s), dump(t))
		default:
			ss := g.id("ss")
			f.lines = append(f.lines, fmt.Sprintf("%s := []string{%s, %s}", ss, g.pick(sampleStrings[:9]...), g.pick(sampleStrings[:9]...)), fmt.Sprintf("%s = append(%s[:1], \"x\")", ss, ss),
				fmt.Sprintf("for _, e := range %s { print(len(e), \" \") }; println(len(%s))", ss, ss))
		}
	}
	return f
}

func fragMap(g *pgen) fragment {
	f := fragment{kind: "map"}
	m := g.id("m")
	kt := g.pick("string", "int", "uint8", "bool")
	key := func() string {
		switch kt {
		case "string":
			return g.pick(`"a"`, `"b"`, `"héllo"`, `""`, `"zz"`)
		case "bool":
			return g.pick("true", "false")
		}
		return fmt.Sprint(g.r.Intn(5))
	}
	f.lines = append(f.lines, fmt.Sprintf("%s := map[%s]int{%s: 1}", m, kt, key()), "_ = "+m)
	for i := 0; i < g.rng(3, 6); i++ {
		switch g.pickCase("map", 8) {
		case 0:
			f.lines = append(f.lines, fmt.Sprintf("%s[%s] = %d", m, key(), g.r.Intn(100)), fmt.Sprintf("println(len(%s))", m))
		case 1:
			f.lines = append(f.lines, fmt.Sprintf("if v, ok := %s[%s]; ok { println(\"has\", v) } else { println(\"no\", v) }", m, key()))
		case 2:
			f.lines = append(f.lines, fmt.Sprintf("delete(%s, %s)", m, key()), fmt.Sprintf("println(len(%s), %s[%s])", m, m, key()))
		case 3:
			f.lines = append(f.lines, fmt.Sprintf("{ sum, n := 0, 0; for _, v := range %s { sum += v; n++ }; println(sum, n) }", m))
		case 4:
			f.lines = append(f.lines, fmt.Sprintf("%s[%s] += %d", m, key(), g.r.Intn(9)), fmt.Sprintf("%s[%s]++", m, key()), fmt.Sprintf("println(%s[%s])", m, key()))
		case 5:
			n := g.id("nm")
			f.lines = append(f.lines, fmt.Sprintf("var %s map[%s]int", n, kt), fmt.Sprintf("println(%s == nil, len(%s), %s[%s])", n, n, n, key()),
				fmt.Sprintf("func() { defer func() { if r := recover(); r != nil { println(\"recovered:\", r.(error).Error()) } }(); %s[%s] = 1; println(\"stored\") }()", n, key()))
		case 6:
			ms := g.id("ms")
			f.lines = append(f.lines, fmt.Sprintf("%s := map[int][]int{}", ms), fmt.Sprintf("%s[1] = append(%s[1], 5, 6)", ms, ms), fmt.Sprintf("%s[2] = append(%s[2], 7)", ms, ms), fmt.Sprintf("println(len(%s), len(%s[1]), len(%s[3]), %s[1][1])", ms, ms, ms, ms))
		default:
			mm := g.id("mk")
			f.lines = append(f.lines, fmt.Sprintf("%s := make(map[%s]string, 4)", mm, kt), fmt.Sprintf("%s[%s] = \"v\"", mm, key()), fmt.Sprintf("println(len(%s), len(%s[%s]), len(%s[%s]))", mm, mm, key(), mm, key()))
		}
	}
	return f
}

func fragStruct(g *pgen) fragment {
	// (Scriggo has no method declarations: plain functions over the struct and its pointer)
	f := fragment{kind: "struct"}
	T, U := g.top("T"), g.top("U")
	sum, bump, with := g.top("sum"), g.top("bump"), g.top("with")
	k := g.intKind()
	f.decls = append(f.decls,
		fmt.Sprintf("type %s struct {\n\tA %s\n\tB string\n\tC [2]int\n}", T, k.name),
		fmt.Sprintf("func %s(t %s) int { return int(t.A) + len(t.B) + t.C[0] + t.C[1] }", sum, T),
		fmt.Sprintf("func %s(t *%s, n %s) { t.A += n; t.C[1]++ }", bump, T, k.name),
		fmt.Sprintf("func %s(t %s, b string) %s { t.B = b; return t }", with, T, T),
		fmt.Sprintf("type %s struct {\n\t%s\n\tP *%s\n\tN int\n}", U, T, T))
	v, w := g.id("v"), g.id("w")
	f.lines = append(f.lines, fmt.Sprintf("%s := %s{A: %s, B: %s}", v, T, g.intLit(k), g.pick(sampleStrings[:8]...)), fmt.Sprintf("%s := %s", w, v), fmt.Sprintf("_, _ = %s, %s", v, w))
	show := func(n string) string {
		return fmt.Sprintf("println(%s.A, len(%s.B), %s.C[0], %s.C[1], %s(%s))", n, n, n, n, sum, n)
	}
	for i := 0; i < g.rng(2, 5); i++ {
		switch g.pickCase("struct", 7) {
		case 0:
			f.lines = append(f.lines, fmt.Sprintf("%s(&%s, %s)", bump, w, g.intLit(k)), show(v), show(w), fmt.Sprintf("println(%s == %s)", v, w))
		case 1:
			f.lines = append(f.lines, fmt.Sprintf("%s = %s(%s, \"zz\")", w, with, v), show(w), fmt.Sprintf("println(%s == %s, %s != %s)", v, w, v, w))
		case 2:
			p := g.id("p")
			f.lines = append(f.lines, fmt.Sprintf("%s := &%s", p, v), fmt.Sprintf("%s.C[0] = %d", p, g.r.Intn(50)), fmt.Sprintf("%s(%s, 1)", bump, p), show(v), fmt.Sprintf("println(%s(*%s), (*%s).A, %s.A)", sum, p, p, p))
		case 3:
			u := g.id("u")
			f.lines = append(f.lines, fmt.Sprintf("%s := %s{%s: %s, P: &%s, N: %d}", u, U, T, v, w, g.r.Intn(9)), fmt.Sprintf("%s(&%s.%s, 2)", bump, u, T), fmt.Sprintf("%s(%s.P, 3)", bump, u),
				fmt.Sprintf("println(%s.A, %s.%s.A, %s.P.A, %s(%s.%s), %s.N, len(%s.B))", u, u, T, u, sum, u, T, u, u), show(v), show(w))
		case 4:
			arr := g.id("arr")
			f.lines = append(f.lines, fmt.Sprintf("%s := []%s{%s, %s, {B: \"lit\"}}", arr, T, v, w), fmt.Sprintf("for i := range %s { %s(&%s[i], %s(i)) }", arr, bump, arr, k.name),
				fmt.Sprintf("for _, e := range %s { %s(&e, 1); print(%s(e), \" \") }; println(%s[2].A)", arr, bump, sum, arr))
		case 5:
			mp := g.id("mp")
			f.lines = append(f.lines, fmt.Sprintf("%s := map[string]%s{\"v\": %s}", mp, T, v), fmt.Sprintf("{ e := %s[\"v\"]; e.A++; %s[\"w\"] = e; println(%s[\"v\"].A, %s[\"w\"].A, %s[\"none\"].A, len(%s)) }", mp, mp, mp, mp, mp, mp))
		default:
			an := g.id("an")
			f.lines = append(f.lines, fmt.Sprintf("%s := struct { X, Y int; S string }{%d, %d, \"q\"}", an, g.r.Intn(9), g.r.Intn(9)), fmt.Sprintf("%s.X, %s.Y = %s.Y, %s.X", an, an, an, an), fmt.Sprintf("println(%s.X, %s.Y, %s.S)", an, an, an))
		}
	}
	return f
}

func fragPointer(g *pgen) fragment {
	f := fragment{kind: "pointer"}
	k := g.intKind()
	x, p := g.id("x"), g.id("p")
	f.lines = append(f.lines, fmt.Sprintf("var %s %s = %s", x, k.name, g.intLit(k)), fmt.Sprintf("%s := &%s", p, x), "_ = "+p)
	for i := 0; i < g.rng(2, 4); i++ {
		switch g.pickCase("pointer", 6) {
		case 0:
			f.lines = append(f.lines, fmt.Sprintf("*%s += %s", p, g.intLit(k)), fmt.Sprintf("println(%s, *%s, %s == &%s)", x, p, p, x))
		case 1:
			q := g.id("q")
			f.lines = append(f.lines, fmt.Sprintf("%s := new(%s)", q, k.name), fmt.Sprintf("println(*%s, %s == %s, %s != nil)", q, q, p, q), fmt.Sprintf("*%s = *%s", q, p), fmt.Sprintf("println(*%s)", q))
		case 2:
			n := g.id("np")
			f.lines = append(f.lines, fmt.Sprintf("var %s *%s", n, k.name),
				fmt.Sprintf("func() { defer func() { if r := recover(); r != nil { println(\"recovered:\", r.(error).Error()) } }(); println(%s == nil); println(*%s) }()", n, n))
		case 3:
			a, e := g.id("a"), g.id("e")
			f.lines = append(f.lines, fmt.Sprintf("%s := [3]%s{%s, %s}", a, k.name, g.intLit(k), g.intLit(k)), fmt.Sprintf("%s := &%s[1]", e, a), fmt.Sprintf("*%s = %s", e, g.intLit(k)), fmt.Sprintf("println(%s[0], %s[1], %s[2])", a, a, a))
		case 4:
			pp := g.id("pp")
			f.lines = append(f.lines, fmt.Sprintf("%s := &%s", pp, p), fmt.Sprintf("**%s = %s", pp, g.intLit(k)), fmt.Sprintf("println(%s, **%s)", x, pp))
		default:
			inc := g.id("inc")
			f.lines = append(f.lines, fmt.Sprintf("%s := func(q *%s) { *q = *q + 1 }", inc, k.name), fmt.Sprintf("%s(%s); %s(&%s)", inc, p, inc, x), fmt.Sprintf("println(%s)", x))
		}
	}
	return f
}

func fragIface(g *pgen) fragment {
	// (Scriggo has neither method declarations nor non-empty interface types: interface{} only)
	f := fragment{kind: "iface"}
	A, B := g.top("A"), g.top("B")
	f.decls = append(f.decls, fmt.Sprintf("type %s struct{ W, H int }", A), fmt.Sprintf("type %s int", B))
	s, b := g.id("vals"), g.id("b")
	k := g.intKind()
	for k.name == "int" {
		k = g.intKind()
	}
	pt := "int" // element 1 points to an int, or (variant iface.7) to a value of a defined type
	if g.pickCase("iface", 8) == 7 {
		pt = B
	}
	g.dead = false
	f.lines = append(f.lines, fmt.Sprintf("%s := %s(%d)", b, pt, g.r.Intn(20)),
		fmt.Sprintf("%s := []interface{}{%s{%d, %d}, &%s, nil, %s(%s), %s, %d, 2.5, true, %s(7)}", s, A, g.r.Intn(9), g.r.Intn(9), b, k.name, g.intLit(k), g.pick(sampleStrings[:5]...), g.r.Intn(99), B), "_ = "+s)
	for i := 0; i < g.rng(2, 4); i++ {
		switch g.pickCase("iface", 6) {
		case 0:
			f.lines = append(f.lines, fmt.Sprintf("for _, x := range %s { switch v := x.(type) { case %s: print(\"A\", v.W*v.H, \" \"); case *%s: print(\"ptr\", int(*v), \" \"); case %s: print(\"B\", int(v), \" \"); case nil: print(\"nil \"); case int: print(\"int\", v, \" \"); case string: print(\"str\", len(v), \" \"); case float64: print(\"f\", v, \" \"); case bool: print(v, \" \"); default: print(\"? \") } }; println()", s, A, pt, B))
		case 1:
			f.lines = append(f.lines, fmt.Sprintf("for _, x := range %s { switch x.(type) { case int, %s, string: print(\"multi \"); case %s, *%s: print(\"user \"); default: print(\"rest \") } }; println()", s, k.name, A, pt))
		case 2:
			f.lines = append(f.lines, fmt.Sprintf("if a, ok := %s[%d].(%s); ok { println(\"is A\", a.H) } else { println(\"not A\", a.W) }", s, g.r.Intn(9), A))
		case 3:
			f.lines = append(f.lines, fmt.Sprintf("func() { defer func() { if r := recover(); r != nil { _, isErr := r.(error); println(\"recovered assertion\", isErr) } }(); a := %s[%d].(%s); println(a.W) }()", s, g.r.Intn(9), A))
		case 4:
			f.lines = append(f.lines, fmt.Sprintf("println(%s[0] == %s[0], %s[2] == nil, %s[3] == %s[4], %s[5] == interface{}(%s[5]), %s[1] == interface{}(&%s), %s[8] == interface{}(%s(7)), %s[8] == interface{}(7))", s, s, s, s, s, s, s, s, b, s, B, s))
		default:
			e := g.id("e")
			f.lines = append(f.lines, fmt.Sprintf("var %s interface{} = %s(%s)", e, k.name, g.intLit(k)),
				fmt.Sprintf("switch v := %s.(type) { case int: println(\"int\", v); case int8: println(\"int8\", v); case uint8: println(\"uint8\", v); case int64: println(\"int64\", v); case string: println(\"string\", v); default: println(\"other\") }", e),
				fmt.Sprintf("{ _, ok := %s.(string); _, ok2 := %s.(%s); println(ok, ok2, %s == interface{}(%s(%s)), %s != nil) }", e, e, k.name, e, k.name, g.intLit(k), e))
		}
	}
	return f
}

func fragClosure(g *pgen) fragment {
	f := fragment{kind: "closure"}
	for i := 0; i < g.rng(1, 3); i++ {
		switch g.pickCase("closure", 5) {
		case 0:
			c, mk := g.id("c"), g.id("mk")
			f.lines = append(f.lines, fmt.Sprintf("%s := func(start int) func() int { n := start; return func() int { n += %d; return n } }", mk, g.rng(1, 5)),
				fmt.Sprintf("%s, %s2 := %s(%d), %s(100)", c, c, mk, g.r.Intn(10), mk), fmt.Sprintf("println(%s(), %s(), %s2(), %s())", c, c, c, c))
		case 1:
			x, fn := g.id("x"), g.id("fn")
			f.lines = append(f.lines, fmt.Sprintf("%s := %d", x, g.r.Intn(10)), fmt.Sprintf("%s := func() { %s *= 2 }", fn, x), fmt.Sprintf("%s(); %s++; %s()", fn, x, fn), fmt.Sprintf("println(%s)", x))
		case 2:
			fs := g.id("fs")
			f.lines = append(f.lines, fmt.Sprintf("var %s []func() int", fs), fmt.Sprintf("for i := 0; i < 3; i++ { j := i * %d; %s = append(%s, func() int { j++; return j }) }", g.rng(1, 4), fs, fs),
				fmt.Sprintf("for _, fn := range %s { print(fn(), fn(), \" \") }; println()", fs))
		case 3:
			acc := g.id("acc")
			f.lines = append(f.lines, fmt.Sprintf("%s := func() (func(int), func() int) { t := 0; return func(d int) { t += d }, func() int { return t } }", acc),
				fmt.Sprintf("{ add, get := %s(); add(%d); add(%d); println(get()) }", acc, g.r.Intn(9), g.r.Intn(9)))
		default:
			s, ap := g.id("s"), g.id("ap")
			f.lines = append(f.lines, fmt.Sprintf("%s := \"\"", s), fmt.Sprintf("%s := func(t string) func() { return func() { %s += t + \";\" } }", ap, s),
				fmt.Sprintf("{ a, b := %s(\"x\"), %s(\"yy\"); b(); a(); b(); println(%s) }", ap, ap, s))
		}
	}
	return f
}

func fragDefer(g *pgen) fragment {
	f := fragment{kind: "defer"}
	for i := 0; i < g.rng(1, 2); i++ {
		switch g.pickCase("defer", 7) {
		case 0:
			f.lines = append(f.lines, fmt.Sprintf("func() { for i := 0; i < %d; i++ { defer func(n int) { print(\"d\", n, \" \") }(i) }; print(\"body \") }(); println()", g.rng(1, 4)))
		case 1:
			fn := g.id("fn")
			f.lines = append(f.lines, fmt.Sprintf("%s := func() (r int) { defer func() { r *= 2 }(); defer func() { r += %d }(); return %d }", fn, g.r.Intn(9), g.r.Intn(9)), fmt.Sprintf("println(%s())", fn))
		case 2:
			fn := g.id("fn")
			f.lines = append(f.lines, fmt.Sprintf("%s := func() (s string) { defer func() { if r := recover(); r != nil { s = \"recovered \" + r.(string) } }(); panic(\"boom%d\") }", fn, g.r.Intn(9)), fmt.Sprintf("println(%s())", fn))
		case 3:
			fn := g.id("fn")
			f.lines = append(f.lines, fmt.Sprintf("%s := func() (out int) { defer func() { r := recover(); if e, ok := r.(error); ok { println(\"runtime:\", e.Error()); out = -1 } }(); var z int; return %d / z }", fn, g.rng(1, 9)), fmt.Sprintf("println(%s())", fn))
		case 4:
			fn := g.id("fn")
			f.lines = append(f.lines, fmt.Sprintf("%s := func() { defer func() { println(\"outer\", recover() != nil) }(); defer func() { defer func() { println(\"inner\", recover().(string)) }(); panic(\"second\") }(); panic(\"first\") }", fn), fmt.Sprintf("%s()", fn))
		case 5:
			x := g.id("x")
			f.lines = append(f.lines, fmt.Sprintf("%s := %d", x, g.r.Intn(9)), fmt.Sprintf("func() { defer println(\"deferred arg\", %s); %s += 10; println(\"now\", %s) }()", x, x, x))
		default:
			fn := g.id("fn")
			f.lines = append(f.lines, fmt.Sprintf("%s := func(n int) (res string) { defer func() { if r := recover(); r != nil { res = \"caught\" } else { res += \"!\" } }(); if n > %d { panic(n) }; return \"fine\" }", fn, g.r.Intn(5)), fmt.Sprintf("println(%s(1), %s(3), %s(7))", fn, fn, fn))
		}
	}
	return f
}

func fragControl(g *pgen) fragment {
	f := fragment{kind: "control"}
	for i := 0; i < g.rng(1, 3); i++ {
		switch g.pickCase("control", 7) {
		case 0:
			L := g.id("Outer")
			f.lines = append(f.lines, fmt.Sprintf("%s: for i := 0; i < 4; i++ { for j := 0; j < 4; j++ { if i*j == %d { break %s }; if j > i { break }; print(i, j, \" \") } }; println()", L, g.rng(1, 6), L))
		case 1:
			L, n := g.id("Loop"), g.id("n")
			f.lines = append(f.lines, fmt.Sprintf("%s := 0", n), L+":", fmt.Sprintf("if %s < %d { %s += 2; print(%s, \" \"); goto %s }", n, g.rng(1, 7), n, n, L), "println()")
		case 2:
			x := g.id("x")
			f.lines = append(f.lines, fmt.Sprintf("for %s := 0; %s < 5; %s++ { switch { case %s == %d: print(\"a \"); fallthrough; case %s == %d: print(\"b \"); case %s > 3: print(\"c \"); default: print(\"d \") } }; println()", x, x, x, x, g.r.Intn(5), x, g.r.Intn(5), x))
		case 3:
			x := g.id("x")
			f.lines = append(f.lines, fmt.Sprintf("switch %s := %d; %s %% 3 { case 0: println(\"zero\"); case 1, 2: println(\"nonzero\", %s) }", x, g.r.Intn(20), x, x))
		case 4:
			f.lines = append(f.lines, fmt.Sprintf("for i := 0; i < 6; i++ { if i%%2 == %d { continue }; if i > 4 { break }; print(i, \" \") }; println()", g.r.Intn(2)))
		case 5:
			s := g.id("s")
			f.lines = append(f.lines, fmt.Sprintf("%s := 0", s), fmt.Sprintf("for i, j := 0, 10; i < j; i, j = i+1, j-%d { %s += i * j }", g.rng(1, 3), s), fmt.Sprintf("println(%s)", s))
		default:
			L := g.id("Sw")
			f.lines = append(f.lines, fmt.Sprintf("%s: switch x := %d; { case x > 2: for i := 0; i < 3; i++ { if i == 1 { break %s }; print(\"in\", i, \" \") }; print(\"unreached \"); default: print(\"small \") }; println()", L, g.r.Intn(6), L))
		}
	}
	return f
}

func fragInitOrder(g *pgen) fragment {
	f := fragment{kind: "initorder"}
	a, b, c, tr, fn, d := g.top("a"), g.top("b"), g.top("c"), g.top("trace"), g.top("f"), g.top("d")
	switch g.pickCase("initorder", 4) {
	case 3:
		f.decls = append(f.decls, fmt.Sprintf("var %s = %s + %d", a, b, g.r.Intn(9)), fmt.Sprintf("var %s = %s * 2", b, c), fmt.Sprintf("var %s = %d", c, g.rng(1, 9)),
			fmt.Sprintf("var %s = \"t\"", tr), fmt.Sprintf("func %s() int { return 1 }", fn), fmt.Sprintf("var %s = len(%s) + %s", d, tr, a))
	case 0:
		f.decls = append(f.decls, fmt.Sprintf("var %s = %s + %d", a, b, g.r.Intn(9)), fmt.Sprintf("var %s = %s(\"b\") * 2", b, fn), fmt.Sprintf("var %s = %d", c, g.rng(1, 9)),
			fmt.Sprintf("var %s = \"\"", tr), fmt.Sprintf("func %s(s string) int { %s += s; return %s }", fn, tr, c), fmt.Sprintf("var %s = %s(\"d\") + %s", d, fn, a))
	case 1:
		f.decls = append(f.decls, fmt.Sprintf("var %s, %s = %s(\"x\"), %s(\"y\")", a, b, fn, fn), fmt.Sprintf("var %s = \"\"", tr),
			fmt.Sprintf("var %s = len(%s)", c, tr), fmt.Sprintf("func %s(s string) int { %s += s; return len(%s) }", fn, tr, tr), fmt.Sprintf("var %s = %s + %s", d, a, b))
	default:
		f.decls = append(f.decls, fmt.Sprintf("var %s = %s(\"a\")", a, fn), fmt.Sprintf("var %s = %s(\"b\")", b, fn), fmt.Sprintf("var %s = %d", c, g.r.Intn(5)),
			fmt.Sprintf("var %s = \"[\"", tr), fmt.Sprintf("func %s(s string) int { %s += s; %s++; return %s }", fn, tr, c, c), fmt.Sprintf("var %s = %s * 10", d, c))
	}
	f.lines = append(f.lines, fmt.Sprintf("println(%s, %s, %s, %s, %s)", a, b, c, d, tr))
	return f
}

func fragAssign(g *pgen) fragment {
	f := fragment{kind: "assign"}
	k := g.intKind()
	a, b := g.id("a"), g.id("b")
	f.lines = append(f.lines, fmt.Sprintf("var %s, %s %s = %s, %s", a, b, k.name, g.intLit(k), g.intLit(k)), fmt.Sprintf("_, _ = %s, %s", a, b))
	for i := 0; i < g.rng(2, 4); i++ {
		switch g.pickCase("assign", 7) {
		case 0:
			f.lines = append(f.lines, fmt.Sprintf("%s, %s = %s, %s", a, b, b, a), fmt.Sprintf("println(%s, %s)", a, b))
		case 1:
			s, i := g.id("s"), g.id("i")
			f.lines = append(f.lines, fmt.Sprintf("%s, %s := []int{10, 20, 30}, 0", s, i), fmt.Sprintf("%s, %s[%s] = 2, 99", i, s, i), fmt.Sprintf("println(%s, %s[0], %s[1], %s[2])", i, s, s, s))
		case 2:
			op := g.pick("+=", "-=", "*=", "&=", "|=", "^=", "&^=")
			f.lines = append(f.lines, fmt.Sprintf("%s %s %s", a, op, b), fmt.Sprintf("%s++; %s--", a, b), fmt.Sprintf("println(%s, %s)", a, b))
		case 3:
			f.lines = append(f.lines, fmt.Sprintf("%s %s %d", a, g.pick("<<=", ">>="), g.r.Intn(k.bits+2)), fmt.Sprintf("println(%s)", a))
		case 4:
			f.lines = append(f.lines, fmt.Sprintf("{ %s := %s + 1; %s := \"shadow\"; println(%s, %s) }", a, a, b, a, b), fmt.Sprintf("println(%s, %s)", a, b))
		case 5:
			f.lines = append(f.lines, fmt.Sprintf("if %s := %s; %s > 0 { %s := %s * 2; println(%s) } else { println(%s) }", a, b, a, a, a, a, a), fmt.Sprintf("println(%s)", a))
		default:
			fn := g.id("two")
			f.lines = append(f.lines, fmt.Sprintf("%s := func() (%s, string) { return %s, \"s\" }", fn, k.name, g.intLit(k)), fmt.Sprintf("{ x, y := %s(); %s, _ = %s(); println(x, y, %s) }", fn, a, fn, a))
		}
	}
	return f
}

func fragConst(g *pgen) fragment {
	f := fragment{kind: "const"}
	E, c1 := g.top("E"), g.top("K")
	f.decls = append(f.decls, fmt.Sprintf("type %s uint8", E),
		fmt.Sprintf("const (\n\t%s0 %s = iota * %d\n\t%s1\n\t%s2\n\t_\n\t%s4\n)", c1, E, g.rng(1, 40), c1, c1, c1),
		fmt.Sprintf("const %sBig = 1 << %d\nconst %sF = 7 / 2.0\nconst %sI = 7 / 2\nconst %sS = \"héllo\"\nconst %sR = 'é'", c1, g.rng(33, 60), c1, c1, c1, c1))
	conv := "uint8" // values of the defined type are printed through a conversion …
	if g.pickCase("const", 2) == 1 {
		conv = "" // … or as they are (variant const.1)
	}
	f.lines = append(f.lines, fmt.Sprintf("println(%s(%s0), %s(%s1), %s(%s2), %s(%s4))", conv, c1, conv, c1, conv, c1, conv, c1),
		fmt.Sprintf("println(%sBig >> %d, %sF, %sI, len(%sS), %sR, %sS[1])", c1, g.rng(20, 32), c1, c1, c1, c1, c1))
	k := g.intKind()
	x := g.id("x")
	f.lines = append(f.lines, fmt.Sprintf("var %s %s = %d", x, k.name, g.r.Intn(100)), fmt.Sprintf("println(%s + 1<<%d, %s * (%sI + 1), float64(%s) * %sF, %s(%s(%s)+%s1))", x, g.r.Intn(k.bits-1), x, c1, x, c1, conv, E, x, c1))
	if g.r.Bool() {
		f.lines = append(f.lines, fmt.Sprintf("{ const local = %sI * 1000; var y int16 = local; var z float32 = local; println(y, z, local/3, local%%7) }", c1))
	}
	return f
}

func fragFunc(g *pgen) fragment {
	f := fragment{kind: "func"}
	fib, sum, div := g.top("fib"), g.top("sum"), g.top("divmod")
	f.decls = append(f.decls, fmt.Sprintf("func %s(n int) int {\n\tif n < 2 {\n\t\treturn n\n\t}\n\treturn %s(n-1) + %s(n-2)\n}", fib, fib, fib),
		fmt.Sprintf("func %s(base int, xs ...int) (total int) {\n\ttotal = base\n\tfor _, x := range xs {\n\t\ttotal += x\n\t}\n\treturn\n}", sum),
		fmt.Sprintf("func %s(a, b int) (q, r int, ok bool) {\n\tif b == 0 {\n\t\treturn 0, 0, false\n\t}\n\treturn a / b, a %% b, true\n}", div))
	for i := 0; i < g.rng(2, 4); i++ {
		switch g.pickCase("func", 6) {
		case 0:
			f.lines = append(f.lines, fmt.Sprintf("println(%s(%d))", fib, g.rng(0, 15)))
		case 1:
			f.lines = append(f.lines, fmt.Sprintf("println(%s(%d), %s(1, 2, 3), %s(0, []int{4, 5}...))", sum, g.r.Intn(9), sum, sum))
		case 2:
			f.lines = append(f.lines, fmt.Sprintf("{ q, r, ok := %s(%d, %d); println(q, r, ok) }", div, g.rng(-20, 20), g.rng(-3, 3)))
		case 3:
			ap := g.id("apply")
			f.lines = append(f.lines, fmt.Sprintf("%s := func(f func(int) int, n int) int { return f(f(n)) }", ap), fmt.Sprintf("println(%s(%s, %d), %s(func(x int) int { return x*x + 1 }, %d))", ap, fib, g.rng(1, 6), ap, g.r.Intn(5)))
		case 4:
			rec := g.id("depth")
			f.lines = append(f.lines, fmt.Sprintf("var %s func(n int) int", rec), fmt.Sprintf("%s = func(n int) int { if n == 0 { return 0 }; return 1 + %s(n-1) }", rec, rec), fmt.Sprintf("println(%s(%d))", rec, g.rng(1, 300)))
		default:
			f.lines = append(f.lines, fmt.Sprintf("{ a, b := %s(3), %s(1, 2); a, b = b, a+b; println(a, b) }", fib, sum))
		}
	}
	return f
}

func fragArray(g *pgen) fragment {
	f := fragment{kind: "array"}
	k := g.intKind()
	a, b := g.id("a"), g.id("b")
	f.lines = append(f.lines, fmt.Sprintf("%s := [4]%s{%s, %s, 2: %s}", a, k.name, g.intLit(k), g.intLit(k), g.intLit(k)), fmt.Sprintf("%s := %s", b, a), fmt.Sprintf("_, _ = %s, %s", a, b))
	for i := 0; i < g.rng(2, 4); i++ {
		switch g.pickCase("array", 5) {
		case 0:
			f.lines = append(f.lines, fmt.Sprintf("%s[%d] = %s", b, g.r.Intn(4), g.intLit(k)), fmt.Sprintf("println(%s == %s, %s[0], %s[3], len(%s))", a, b, a, b, a))
		case 1:
			f.lines = append(f.lines, fmt.Sprintf("for i, e := range %s { %s[len(%s)-1-i] = e }", a, a, a), fmt.Sprintf("println(%s[0], %s[1], %s[2], %s[3])", a, a, a, a))
		case 2:
			i := g.id("i")
			f.lines = append(f.lines, fmt.Sprintf("%s := %d", i, g.r.Intn(7)), fmt.Sprintf("func() { defer func() { if r := recover(); r != nil { println(\"recovered:\", r.(error).Error()) } }(); println(%s[%s]) }()", a, i))
		case 3:
			m := g.id("m")
			f.lines = append(f.lines, fmt.Sprintf("%s := [2][3]int{{1, 2, 3}, {4, 5, 6}}", m), fmt.Sprintf("{ n := %s; n[1][2] = %d; println(%s[1][2], n[1][2], len(%s), len(%s[0]), %s == n) }", m, g.r.Intn(99), m, m, m, m))
		default:
			fn := g.id("mod")
			f.lines = append(f.lines, fmt.Sprintf("%s := func(x [4]%s) %s { x[0] = %s; return x[0] }", fn, k.name, k.name, g.intLit(k)), fmt.Sprintf("println(%s(%s), %s[0])", fn, a, a))
		}
	}
	return f
}

// fragRuntimePanic ends the program with an unrecovered panic (always the last fragment).
func fragRuntimePanic(g *pgen) fragment {
	f := fragment{kind: "rtpanic"}
	switch g.pickCase("rtpanic", 6) {
	case 0:
		f.lines = append(f.lines, "defer println(\"deferred before exit\")", fmt.Sprintf("panic(\"fatal %d\")", g.r.Intn(9)))
	case 1:
		f.lines = append(f.lines, "var z int", "println(1 / z)")
	case 2:
		f.lines = append(f.lines, "var m map[string]int", "m[\"k\"] = 1")
	case 3:
		f.lines = append(f.lines, fmt.Sprintf("s := []int{1, 2}; i := %d", g.rng(2, 5)), "println(s[i])")
	case 4:
		f.lines = append(f.lines, "var p *int", "println(*p)")
	default:
		f.lines = append(f.lines, "var e interface{} = \"str\"", "println(e.(int))")
	}
	return f
}

// genProgram makes one random program.
func (g *pgen) genProgram() *program {
	p := &program{}
	n := g.rng(2, 6)
	for len(p.frags) < n {
		fg := fragGens[g.r.Intn(len(fragGens)-1)] // all but rtpanic
		g.dead = false
		if f := fg.f(g); !g.dead {
			p.frags = append(p.frags, f)
		}
	}
	if g.r.Intn(8) == 0 {
		g.dead = false
		if f := fragRuntimePanic(g); !g.dead {
			p.frags = append(p.frags, f)
		}
	}
	return p
}
