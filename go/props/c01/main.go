// Command c01 is the correspondence harness of property C01, stage one (integer core):
// "interpreted programs behave exactly like the same program compiled by gc".
//
// Public API only: generated Go source → scriggo.Build (fs from scriggo.Files) → Program.Run with
// the Print hook. Three streams:
//
//  1. opcode-level cases `var a, b T = …; println(a OP b)` for every operator × kind × boundary-rich
//     operands: Scriggo vs. the generated VM terms (vmOp … through the Lean driver) vs. Spec/GoInt;
//
//  2. typed expression trees (all widths, nested, shifts with small/huge/negative counts,
//     conversions, division by zero under recover): Scriggo vs. the Lean evaluator Model/Eval;
//
//  3. a sample of 1 and 2 compiled and run by gc (`go run`, offline): validates Spec/GoInt and
//     Model/Eval themselves (spec_validation in the evidence), independent of the model.
//
//  5. the emitter model against the disassembled code (compile.go); 6. conditions (cond.go);
//
//  4. whole programs over a wide part of the language against gc (prog.go, gcdiff.go);
//
//  7. the struct family: embedded structs, promoted fields, selector chains of different depths in
//     different orders inside one function, against gc, the Lean evaluator of Model/Struct.lean
//     and the field-index table model (structs.go, structrun.go).
//
//  8. zero value on the failing / absent path of comma-ok and may-fail forms, the same site executed
//     several times so that stale register contents show (commaok.go); gc, the generator's
//     expectation, the Lean spec and VM model of Model/CommaOk.lean.
//
//  9. the control-flow family: break / continue / return / recovered panics in every nesting of
//     for, for range, switch, type switch, select, if, blocks, function literals (controlflow.go); gc.
//
// Oracle: the Lean evaluator's answer (Go semantics), with gc's own output on the sample.
package main

import (
	"fmt"
	"math/big"
	"os"
	"strings"

	"github.com/open2b/scriggo"

	"verifharness/internal/hx"
	"verifharness/internal/proto"
)

func main() { hx.Main("C01", run) }

const findingNegShift = "neg-shift-count"
const findingUintptrNot = "uintptr-bitnot-build-panic"

// Recorded findings whose `minimal` is a whole program, and the generator variants
// ("<fragment kind>.<variant>", see prog.go) left out of the general stream while they are open.
var findingFeatures = map[string][]string{
	"println-defined-type":           {"const.1"},
	"pointer-compound-assign":        {"pointer.0"},
	"pointer-to-defined-type-iface":  {"iface.7"},
	"range-array-not-copied":         {"array.1"},
	"append-func-literal":            {"closure.2"},
	"assign-index-operand-order":     {"assign.1"},
	"labelled-break-nested-loop":     {"control.0", "control.6", "cf.labelled-break"},
	"deref-address-taken-pointer":    {"pointer.4"},
	"named-result-set-after-recover": {"defer.2", "defer.3", "defer.6"},
	"init-order-through-function":    {"initorder.0", "initorder.1", "initorder.2"},
	// stream 7 (struct family)
	"nonlocal-struct-nested-selector-assign": {"structrole.nonlocal-nested-assign"},
	"range-struct-value-aliases-element":     {"structrole.range-value-modify"},
	"nil-func-field-not-nil":                 {"structrole.nil-func-field", "cok.func-nil"},
	"field-pointer-stale-after-whole-assign": {"structrole.field-pointer-whole-assign"},
	"general-field-read-aliases-field":       {"structrole.general-field-read"},
	"func-field-read-aliases-field":          {"structrole.general-field-read"},
	// stream 8 (zero value on the failing path)
	"range-assign-to-non-local":              {"cok.range-nonlocal"},
	"tuple-assign-fields-of-captured-struct": {"cok.captured-struct-tuple"},
	"indirect-interface-value-compare":       {"cok.iface-indirect"},
	"complex-operand-through-pointer":        {"cok.complex-ptr"},
	// stream 9 (control-flow family)
	"continue-in-for-inside-range":        {"cf.continue-in-for-inside-range"},
	"recovered-panic-in-range":            {"cf.recovered-panic-in-range"},
	"break-in-range-inside-breakable":     {"cf.break-in-range-inside-breakable"},
	"labelled-continue-not-implemented":   {"cf.labelled-continue"},
	"break-in-select-never-lands":         {"cf.break-in-select"},
	"conditionless-for-leaves-jump-label": {"cf.jump-after-conditionless-for"},
}

// ---------------------------------------------------------------- opcode-level cases

// opCase is one opcode-level case; line is the driver request, tc the same thing as a tree.
type opCase struct {
	line string
	tc   *tcase
}

func v(k kind, i int) *node { return &node{op: "var", k: k, idx: i} }

func mkOp(group, sub string, ks []kind, zs []*big.Int) opCase {
	tc := &tcase{tag: "op-" + group}
	for i, z := range zs {
		tc.vars = append(tc.vars, variable{k: ks[i], z: z, place: 0})
	}
	var line string
	switch group {
	case "bin":
		tc.tree = &node{op: "bin", sub: sub, a: v(ks[0], 0), b: v(ks[1], 1)}
		line = fmt.Sprintf("C01 bin %s %s %s %s", sub, ks[0].name, zs[0], zs[1])
	case "sh":
		tc.tree = &node{op: "sh", sub: sub, a: v(ks[0], 0), b: v(ks[1], 1)}
		line = fmt.Sprintf("C01 sh %s %s %s %s %s", sub, ks[0].name, ks[1].name, zs[0], zs[1])
	case "un":
		tc.tree = &node{op: "un", sub: sub, a: v(ks[0], 0)}
		line = fmt.Sprintf("C01 un %s %s %s", sub, ks[0].name, zs[0])
	case "conv":
		tc.tree = &node{op: "conv", k: ks[1], a: v(ks[0], 0)}
		tc.vars = tc.vars[:1]
		line = fmt.Sprintf("C01 conv %s %s %s", ks[0].name, ks[1].name, zs[0])
	case "cmp":
		tc.tree = &node{op: "cmp", sub: sub, a: v(ks[0], 0), b: v(ks[1], 1)}
		line = fmt.Sprintf("C01 cmp %s %s %s %s", sub, ks[0].name, zs[0], zs[1])
	case "convstr":
		tc.tree = &node{op: "str", a: v(ks[0], 0)}
		line = fmt.Sprintf("C01 convstr %s %s", ks[0].name, zs[0])
		tc.opLine = line
	}
	return opCase{line: line, tc: tc}
}

// parseOpLine rebuilds an opcode-level case from its protocol line (replay of findings).
func parseOpLine(line string) (opCase, bool) {
	f := strings.Fields(line)
	bad := opCase{}
	if len(f) < 5 || f[0] != "C01" {
		return bad, false
	}
	num := func(s string) *big.Int { z, _ := new(big.Int).SetString(s, 10); return z }
	switch f[1] {
	case "bin", "cmp":
		k, ok := kindByName(f[3])
		if !ok || len(f) != 6 || num(f[4]) == nil || num(f[5]) == nil {
			return bad, false
		}
		return mkOp(f[1], f[2], []kind{k, k}, []*big.Int{num(f[4]), num(f[5])}), true
	case "sh":
		k, ok := kindByName(f[3])
		if !ok || len(f) != 7 {
			return bad, false
		}
		kc, ok := kindByName(f[4])
		if !ok || num(f[5]) == nil || num(f[6]) == nil {
			return bad, false
		}
		return mkOp("sh", f[2], []kind{k, kc}, []*big.Int{num(f[5]), num(f[6])}), true
	case "un":
		k, ok := kindByName(f[3])
		if !ok || len(f) != 5 || num(f[4]) == nil {
			return bad, false
		}
		return mkOp("un", f[2], []kind{k}, []*big.Int{num(f[4])}), true
	case "conv":
		k, ok := kindByName(f[2])
		if !ok || len(f) != 5 {
			return bad, false
		}
		kd, ok := kindByName(f[3])
		if !ok || num(f[4]) == nil {
			return bad, false
		}
		return mkOp("conv", "", []kind{k, kd}, []*big.Int{num(f[4]), big.NewInt(0)}), true
	}
	return bad, false
}

// the outcome strings of an opcode-level driver answer `ok <vm> <spec>`, as eval-style outcomes
func opAnswer(ans string, resultType string) (vm, spec string, canon bool, ok bool) {
	f := strings.Fields(ans)
	if len(f) != 3 || f[0] != "ok" {
		return "", "", false, false
	}
	conv := func(s string) (string, bool) {
		switch {
		case s == "true" || s == "false":
			return "ok bool " + s, true
		case strings.HasPrefix(s, "ok:"):
			return "ok " + resultType + " " + s[3:], true
		case strings.HasPrefix(s, "okNC:"):
			return "ok " + resultType + " " + s[5:], false
		case strings.HasPrefix(s, "err:"):
			return "err " + s[4:], true
		case resultType == "string":
			return "ok string " + s, true
		}
		return "other: " + s, true
	}
	vm, canon = conv(f[1])
	spec, _ = conv(f[2])
	return vm, spec, canon, true
}

func (o opCase) resultType() string {
	if o.tc.tree.op == "str" {
		return "string"
	}
	if k, ok := o.tc.tree.resultKind(); ok {
		return k.name
	}
	return "bool"
}

func opCases(c *hx.Ctx, uintptrNotOK bool) []opCase {
	var out []opCase
	perKind := c.N(7, 14) // boundary values taken per kind and operand
	pick := func(k kind, n int) []*big.Int {
		b := k.boundaries()
		var zs []*big.Int
		// always the extremes and zero/±1, then random boundaries, then random values
		for _, z := range []*big.Int{k.min(), k.max(), big.NewInt(0), big.NewInt(1), big.NewInt(-1)} {
			if k.inRange(z) {
				zs = append(zs, z)
			}
		}
		for len(zs) < n {
			if c.R.Intn(3) == 0 {
				zs = append(zs, k.random(c.R))
			} else {
				zs = append(zs, b[c.R.Intn(len(b))])
			}
		}
		return zs
	}
	for _, k := range kinds {
		xs, ys := pick(k, perKind), pick(k, perKind)
		for _, op := range binOps {
			for _, x := range xs {
				for _, y := range ys {
					out = append(out, mkOp("bin", op, []kind{k, k}, []*big.Int{x, y}))
				}
			}
		}
		for _, op := range cmpOps {
			for i, x := range xs {
				for j, y := range ys {
					if (i+j)%2 == 0 {
						out = append(out, mkOp("cmp", op, []kind{k, k}, []*big.Int{x, y}))
					}
				}
			}
		}
		for _, op := range unOps {
			if op == "not" && k.name == "uintptr" && !uintptrNotOK {
				continue
			}
			for _, x := range append(xs, ys...) {
				out = append(out, mkOp("un", op, []kind{k}, []*big.Int{x}))
			}
		}
		for _, kd := range kinds {
			for _, x := range xs {
				out = append(out, mkOp("conv", "", []kind{k, kd}, []*big.Int{x, big.NewInt(0)}))
			}
		}
		// string(x): code points around the UTF-8 length boundaries, the surrogates, MaxRune, and
		// values that are valid code points only after truncation to 32 bits
		{
			var zs []*big.Int
			for _, c := range []int64{0, 0x41, 0x7F, 0x80, 0x7FF, 0x800, 0xD7FF, 0xD800, 0xDFFF, 0xE000, 0xFFFD, 0xFFFF,
				0x10000, 0x1F600, 0x10FFFF, 0x110000, 1<<31 - 1, 1 << 31, 1<<32 + 0x41, 1<<32 - 1, 1<<40 + 0x263A, -1, -0x41, -1 << 31, -1<<32 + 0x41} {
				if z := big.NewInt(c); k.inRange(z) {
					zs = append(zs, z)
				}
			}
			zs = append(zs, k.min(), k.max(), k.random(c.R), k.random(c.R))
			for _, z := range zs {
				out = append(out, mkOp("convstr", "", []kind{k}, []*big.Int{z}))
			}
		}
		// shifts: every count kind; counts around 0, the width, 64, the maximum of the count kind
		for _, kc := range kinds {
			var counts []*big.Int
			for _, n := range []int64{0, 1, int64(k.bits) - 1, int64(k.bits), int64(k.bits) + 1, 63, 64, 65, 127} {
				if z := big.NewInt(n); kc.inRange(z) {
					counts = append(counts, z)
				}
			}
			counts = append(counts, kc.max(), kc.random(c.R))
			for _, op := range shOps {
				for i, x := range xs {
					for j, n := range counts {
						if n.Sign() < 0 {
							n = new(big.Int).Neg(n)
							if !kc.inRange(n) {
								n = kc.max()
							}
						}
						if (i+j)%3 == 0 || c.Tier == "thorough" {
							out = append(out, mkOp("sh", op, []kind{k, kc}, []*big.Int{x, n}))
						}
					}
				}
			}
		}
	}
	return out
}

// ---------------------------------------------------------------- comparison and shrinking

type world struct {
	c        *hx.Ctx
	builds   int
	negKnown bool // the negative-shift finding is recorded and reproduces
}

// evalBoth runs cases on Scriggo and on the Lean evaluator.
func (w *world) evalBoth(cases []*tcase) (impl, model []string, err error) {
	impl, err = runScriggo(cases)
	w.builds++
	if err != nil {
		return impl, nil, err
	}
	if w.c.D == nil {
		return impl, nil, nil
	}
	lines := make([]string, len(cases))
	for i, tc := range cases {
		lines[i] = tc.line()
	}
	model, err = w.c.D.Batch(lines)
	return impl, model, err
}

// failing: does Scriggo disagree with the Lean evaluator on this single case?
func (w *world) failing(tc *tcase) (bool, string, string) {
	impl, model, err := w.evalBoth([]*tcase{tc})
	if err != nil {
		return true, "other: " + err.Error(), first(model)
	}
	if model == nil {
		return false, impl[0], ""
	}
	m := tc.modelAnswer(model[0])
	if m == "bad-op" {
		return false, impl[0], m // not a well-formed case: not a counterexample
	}
	return !sameOutcome(impl[0], m), impl[0], m
}

func first(s []string) string {
	if len(s) > 0 {
		return s[0]
	}
	return ""
}

// sameOutcome compares canonical outcomes. Go does not specify which of two different run-time
// panics in one expression comes first, so two faults of different classes are not a difference.
func sameOutcome(impl, model string) bool {
	if impl == model {
		return true
	}
	return strings.HasPrefix(impl, "err ") && strings.HasPrefix(model, "err ")
}

// shrink minimises a failing tree: subtrees as new roots, children in place of nodes, simpler
// variable values.
func (w *world) shrink(tc *tcase) *tcase {
	return w.shrinkWith(tc, func(t *tcase) bool { bad, _, _ := w.failing(t); return bad })
}

// shrinkWith minimises a tree on which the predicate holds.
func (w *world) shrinkWith(tc *tcase, failing func(*tcase) bool) *tcase {
	cur := tc.clone()
	cur.normalise()
	try := func(cand *tcase) bool {
		cand.normalise()
		if len(cand.vars) == 0 {
			return false // a constant expression is another property (C02)
		}
		bad := failing(cand)
		if bad {
			cur = cand
		}
		return bad
	}
	for progress, rounds := true, 0; progress && rounds < 40; rounds++ {
		progress = false
		// 1. a proper subtree as the whole expression
		var subs []*node
		cur.tree.walk(func(n *node) {
			if n != cur.tree && n.op != "lit" && n.op != "var" {
				subs = append(subs, n)
			}
		})
		for i := len(subs) - 1; i >= 0 && !progress; i-- {
			cand := cur.clone()
			var target *node
			j := 0
			cand.tree.walk(func(n *node) {
				if n != cand.tree && n.op != "lit" && n.op != "var" {
					if j == i {
						target = n
					}
					j++
				}
			})
			cand.tree = target
			progress = try(cand)
		}
		if progress {
			continue
		}
		// 2. replace an inner node by a fresh variable of its kind holding a simple value
		var inner int
		cur.tree.walk(func(n *node) {
			if n != cur.tree && n.op != "var" {
				inner++
			}
		})
		for i := 0; i < inner && !progress; i++ {
			for _, val := range []int64{1, 0, -1, 2} {
				cand := cur.clone()
				j := 0
				done := false
				cand.tree.walk(func(n *node) {
					if n != cand.tree && n.op != "var" {
						if j == i && !done {
							if k, ok := n.resultKind(); ok && k.inRange(big.NewInt(val)) {
								cand.vars = append(cand.vars, variable{k: k, z: big.NewInt(val)})
								*n = node{op: "var", k: k, idx: len(cand.vars) - 1}
								done = true
							}
						}
						j++
					}
				})
				if done && try(cand) {
					progress = true
					break
				}
			}
		}
		if progress {
			continue
		}
		// 3. simpler values
		for i := range cur.vars {
			for _, val := range []int64{0, 1, -1} {
				z := big.NewInt(val)
				if cur.vars[i].z.Cmp(z) == 0 || !cur.vars[i].k.inRange(z) || cur.vars[i].z.BitLen() <= 1 {
					continue
				}
				cand := cur.clone()
				cand.vars[i].z = z
				cand.vars[i].place = 0
				if try(cand) {
					progress = true
					break
				}
			}
		}
	}
	for i := range cur.vars {
		cur.vars[i].place = 0
	}
	return cur
}

// isNegShift: the shrunk case is a shift of two variables with a negative count of signed kind
// on which Go panics — the recorded finding (replayed at the start of the run).
func isNegShift(tc *tcase, model string) bool {
	t := tc.tree
	return model == "err negshift" && t.op == "sh" && t.a.op == "var" && t.b.op == "var" &&
		tc.vars[t.b.idx].k.signed && tc.vars[t.b.idx].z.Sign() < 0
}

func (w *world) report(tc *tcase, name string) {
	min := w.shrink(tc)
	_, impl, model := w.failing(min)
	b := proto.Break{Kind: "property", Name: name, Case: min.line(), Human: min.human(), Impl: impl, Model: model}
	if w.negKnown && isNegShift(min, model) {
		// reduce to the recorded minimal itself: same operator shape, the recorded operands
		b.Finding = w.c.Known(findingNegShift)
	}
	w.c.Res.AddBreak(b)
}

// ---------------------------------------------------------------- the run

func run(c *hx.Ctx) error {
	res := c.Res
	if files := os.Getenv("C01_DEV_RUNFILE"); files != "" {
		// development aid: run complete programs (files, comma separated) with Scriggo and with gc
		var progs []*program
		for _, f := range strings.Split(files, ",") {
			src, err := os.ReadFile(f)
			if err != nil {
				return err
			}
			progs = append(progs, rawProgram(string(src)))
			if os.Getenv("C01_DEV_DIS") != "" {
				if pr, err := scriggo.Build(scriggo.Files{"main.go": src}, nil); err == nil {
					asm, _ := pr.Disassemble("main")
					fmt.Printf("%s\n", asm)
				}
			}
		}
		sc, err := runScriggoPrograms(progs)
		if err != nil {
			return err
		}
		gcOut, gerr := runGCPrograms(progs)
		for i := range progs {
			fmt.Printf("---- scriggo %d\n%s", i, sc[i])
			if gerr == nil {
				fmt.Printf("---- gc %d (same=%v)\n%s", i, gcOut[i] == sc[i], gcOut[i])
			} else {
				fmt.Println("gc:", gerr)
			}
		}
		return nil
	}
	if n := os.Getenv("C01_DEV_STRUCT"); n != "" {
		// development aid: only the struct stream, n times the quick size
		if n == "tier" {
			return structStream(c, c.N(2, 4), c.N(1, 2), c.N(300, 1500), c.N(120, 300), c.N(80, 200), c.N(12, 40))
		}
		k := 1
		fmt.Sscan(n, &k)
		return structStream(c, 2*k, k, 300, 120, 80, 12)
	}
	if n := os.Getenv("C01_DEV_COMMAOK"); n != "" {
		// development aid: only the comma-ok / zero-value stream, n extra random cases
		if n == "tier" {
			return commaokStream(c, c.N(3, 1), c.N(0, 1500), c.N(12, 40))
		}
		k := 0
		fmt.Sscan(n, &k)
		return commaokStream(c, 1, k, 30)
	}
	if n := os.Getenv("C01_DEV_CF"); n != "" {
		// development aid: only the control-flow stream, n cases
		if n == "tier" {
			return controlFlowStream(c, c.N(500, 3000), c.N(25, 60))
		}
		k := 0
		fmt.Sscan(n, &k)
		return controlFlowStream(c, k, 40)
	}
	if n := os.Getenv("C01_DEV_PROGRAMS"); n != "" {
		// development aid: only the whole-program stream, no shrinking
		k := 0
		fmt.Sscan(n, &k)
		return programStream(c, k, 0)
	}
	if n := os.Getenv("C01_DEV_COND"); n != "" {
		// development aid: only the condition stream
		k := 0
		fmt.Sscan(n, &k)
		return conditionStream(c, k, os.Getenv("C01_DEV_NOGC") == "")
	}
	if n := os.Getenv("C01_DEV_COMPILE"); n != "" {
		// development aid: only the compile stream
		k := 0
		fmt.Sscan(n, &k)
		return compileStream(c, &world{c: c}, k, false)
	}
	res.Rule = "stream 1: every binary/unary/shift/comparison/conversion operator × every integer kind × boundary-rich operand pairs (extremes, 0, ±1, 2^k±1, random), one tiny program each, three-way: Scriggo / generated VM term / Spec; stream 2: random typed expression trees of depth ≤ 4 over variables (local, parameter, package-level) and typed constants at every width, shifts with counts of every kind (small, ≥ width, huge; negative ones in their own sub-stream), division by zero under recover(); stream 5 (compile): trees of the same generator (no negative counts) as `func e(v0 T0, …) { r := <expr>; println(r) }`, the disassembled code of `r := <expr>` against the emitter model of Model/Compile.lean line by line with the same register numbers, and the outcome against the model VM running the model's code; stream 6 (conditions): boolean expressions of every shape emitCondition distinguishes (len of a string on either side × six operators × variable/constant/expression operand, integer comparisons at every kind, comparison with 0, nil, strings, floats, bools, constants, negations) with operand values at and next to the boundary, in if / if-else / for / switch case / switch tag / && / || / ! / value contexts, against the generator's own expectation, gc, and (shapes of Model/CompileCond.lean) the model's code and VM; stream 7 (struct family): generated hierarchies of struct types (up to four levels, each level embedded or named in the next at a random field position, unique field names) and one function per case over parameters of these types — a matrix of ordered pairs of selector chains of the top type lying on one line (one flattened index path a prefix of the other, or the same place through different promoted/explicit steps) × role (read, assignment, op-assignment / assignment of a composite literal), random bodies of the language of Model/Struct.lean (copies, chains, nested composite literals, +, ==, =, +=, ++ through chains), and the same bodies with snippets outside the model (pointer to struct, address of a field, package-level struct, closure, field of a call result, slice / map / array of structs, range, new, by-value call, interface, comparison, defer, func-typed and pointer fields, embedded pointers with nil), every case against gc, the in-model ones against the Lean evaluator and their Field/SetField paths as disassembled against the model's field-index table trace and against the requested paths; stream 8 (zero value on the failing / absent path): ONE site — comma-ok type assertion, map index (comma-ok and plain), receive from a closed channel (comma-ok and plain), receive clause of a select, type switch with binding, `for _, d = range` over an empty / nil slice — with a value result of each of 30 types (every integer kind, uintptr, floats, string, bool, slices, map, func, pointer, struct, array, interface{}, chan, complex128, and types defined in the program over int / string / float64 / []int / bool) executed 2–5 times with a chosen pattern of successes (with different values, the zero value included) and failures (another type, another type of the same kind, nil; absent key, nil map, empty map; closed channel; empty, nil) that always contains a success directly followed by a failure, in seven contexts (for loop, range loop, range loop over the operands, function literal / declared function called once per execution, sibling blocks, one scope with a variable per execution re-read at the end) × fifteen destinations (`:=`, `var =`, a variable holding a non-zero value, variables declared outside / captured, struct field, slice element, map element, through a pointer, package-level, assigned inside a nested literal, `_` for either result, `if d, ok := …; ok`, the one-result forms), the matrix form × type × context in full and one in three (thorough: all) of form × destination × type, every result read back after every execution; oracles: the generator's expectation, gc, and for assertion / map index / receive the Lean reference semantics and the VM model (regenerated destination code of OpAssert / OpMapIndex / OpReceive on a register file kept between the executions); stream 9 (control flow): random nestings up to four deep of for (three-clause / condition / no condition), for range (slice with index, with value, without variables, string, map, channel), switch (tag / no tag / fallthrough), type switch (with / without binding), select (ready channel / default), if-else, block, function literal called in place, with break / continue (one in three labelled, any enclosing statement of the function as target) and return under conditions on the enclosing loop counter, calls of a function that panics and recovers, literals that recover their own panic; a trace mark at the start of every body and after every statement; the shapes of the recorded control-flow findings are not generated while those are open; gc as oracle; a case is non-trivial when it contains at least one operator applied to a variable; distinct by protocol line"
	w := &world{c: c}

	// known findings: replay the recorded minimal on the real code first
	for _, f := range c.Findings {
		switch f.ID {
		case findingNegShift:
			oc, ok := parseOpLine(f.Minimal)
			if !ok {
				return fmt.Errorf("known finding %s: cannot parse minimal %q", f.ID, f.Minimal)
			}
			bad, impl, model := w.failing(oc.tc)
			if c.D == nil {
				// without the model: Go demands a panic here
				bad, model = !strings.HasPrefix(impl, "err negshift"), "err negshift"
			}
			if bad {
				w.negKnown = true
				res.AddBreak(proto.Break{Kind: "property", Name: "expression-vs-go-semantics", Case: f.Minimal,
					Human: oc.tc.human(), Impl: impl, Model: model, Finding: f.ID})
			}
		}
	}
	// `^x` on uintptr makes Build panic on the unfixed tree (DESIGN §8 row 24, owned by C02/C03):
	// probe once, and leave the construct out of the generated programs while it does.
	uintptrNotOK := false
	{
		k, _ := kindByName("uintptr")
		probe := mkOp("un", "not", []kind{k}, []*big.Int{big.NewInt(3)})
		if out, err := runScriggo([]*tcase{probe.tc}); err == nil && out[0] == "ok uintptr 18446744073709551612" {
			uintptrNotOK = true
		} else {
			res.Notes = append(res.Notes, "`^x` for x of type uintptr does not build/run correctly on this tree (row 24, property C02/C03): left out of the C01 generators")
		}
		w.builds++
	}

	// ---- stream 1: opcode-level
	ops := opCases(c, uintptrNotOK)
	const batch = 3000
	var gcSample []*tcase
	for lo := 0; lo < len(ops); lo += batch {
		hi := min(lo+batch, len(ops))
		cases := make([]*tcase, 0, hi-lo)
		lines := make([]string, 0, hi-lo)
		for _, o := range ops[lo:hi] {
			cases = append(cases, o.tc)
			lines = append(lines, o.line)
		}
		impl, err := runScriggo(cases)
		w.builds++
		if err != nil {
			// find the culprit: run one by one (a host panic or build error is itself a failing input)
			for i, tc := range cases {
				if _, e := runScriggo([]*tcase{tc}); e != nil {
					res.AddBreak(proto.Break{Kind: "property", Name: "builds-and-runs", Case: lines[i], Human: tc.human(), Impl: e.Error(), Model: "builds and runs"})
					break
				}
			}
			return nil
		}
		var model []string
		if c.D != nil {
			if model, err = c.D.Batch(lines); err != nil {
				return err
			}
		}
		for i, o := range ops[lo:hi] {
			res.Count(o.line, true)
			res.Hist("op-" + strings.Fields(o.line)[1])
			if c.R.Intn(60) == 0 {
				gcSample = append(gcSample, o.tc)
			}
			if model == nil {
				continue
			}
			vm, spec, canon, ok := opAnswer(model[i], o.resultType())
			if !ok {
				res.AddBreak(proto.Break{Kind: "correspondence", Name: "driver-answers", Case: o.line, Human: o.tc.human(), Impl: impl[i], Model: model[i]})
				continue
			}
			if i%997 == 0 {
				res.Sample(map[string]string{"line": o.line, "go": o.tc.human(), "scriggo": impl[i], "model": model[i]})
			}
			if !canon {
				res.AddBreak(proto.Break{Kind: "correspondence", Name: "vm-term-result-canonical", Case: o.line, Human: o.tc.human(), Impl: impl[i], Model: model[i]})
			}
			if !sameOutcome(impl[i], spec) {
				b := proto.Break{Kind: "property", Name: "operator-vs-go-semantics", Case: o.line, Human: o.tc.human(), Impl: impl[i], Model: spec}
				if w.negKnown && isNegShift(o.tc, spec) {
					b.Finding = c.Known(findingNegShift)
				}
				res.AddBreak(b)
			}
			if impl[i] != vm {
				// the generated VM term and the real VM differ: the translation (or the hand-written
				// glue of Model/VMInt.lean) no longer describes the code
				res.AddBreak(proto.Break{Kind: "correspondence", Name: "generated-vmOp-vs-scriggo", Case: o.line, Human: o.tc.human(), Impl: impl[i], Model: vm})
			}
		}
	}

	// ---- stream 1b: negative shift counts (Go: run-time panic)
	{
		var cases []opCase
		for _, k := range kinds {
			for _, kc := range kinds {
				if !kc.signed {
					continue
				}
				for _, op := range shOps {
					for _, n := range []*big.Int{big.NewInt(-1), kc.min(), big.NewInt(-int64(1 + c.R.Intn(100)))} {
						cases = append(cases, mkOp("sh", op, []kind{k, kc}, []*big.Int{k.random(c.R), n}))
					}
				}
			}
		}
		tcs := make([]*tcase, len(cases))
		lines := make([]string, len(cases))
		for i, o := range cases {
			tcs[i], lines[i] = o.tc, o.line
		}
		impl, err := runScriggo(tcs)
		w.builds++
		if err != nil {
			res.AddBreak(proto.Break{Kind: "property", Name: "builds-and-runs", Case: lines[0], Human: "negative shift count batch", Impl: err.Error(), Model: "builds and runs"})
		} else {
			var model []string
			if c.D != nil {
				if model, err = c.D.Batch(lines); err != nil {
					return err
				}
			}
			for i, o := range cases {
				res.Count(o.line, true)
				res.Hist("op-sh-negative-count")
				if c.R.Intn(10) == 0 {
					gcSample = append(gcSample, o.tc)
				}
				spec := "err negshift"
				if model != nil {
					_, spec, _, _ = opAnswer(model[i], o.resultType())
				}
				if !sameOutcome(impl[i], spec) {
					b := proto.Break{Kind: "property", Name: "operator-vs-go-semantics", Case: o.line, Human: o.tc.human(), Impl: impl[i], Model: spec}
					if w.negKnown && isNegShift(o.tc, spec) {
						b.Finding = c.Known(findingNegShift)
					}
					res.AddBreak(b)
				}
			}
		}
	}

	// ---- stream 2: expression trees
	nTrees := c.N(6000, 120000)
	const treeBatch = 2000
	for done := 0; done < nTrees; done += treeBatch {
		n := min(treeBatch, nTrees-done)
		cases := make([]*tcase, 0, n)
		for i := 0; i < n; i++ {
			g := &gen{r: c.R, uintptrNot: uintptrNotOK}
			tag := "tree"
			if i%10 == 9 {
				g.negCounts, tag = true, "tree-negcount"
			}
			depth := 1 + c.R.Intn(4)
			t := g.tree(depth)
			tc := &tcase{tree: t, vars: g.vars, tag: tag}
			tc.normalise()
			if len(tc.vars) == 0 {
				i--
				continue
			}
			cases = append(cases, tc)
		}
		impl, model, err := w.evalBoth(cases)
		if err != nil {
			found := false
			for _, tc := range cases {
				if _, e := runScriggo([]*tcase{tc}); e != nil {
					found = true
					w.builds++
					min := w.shrinkErr(tc)
					_, e2 := runScriggo([]*tcase{min})
					res.AddBreak(proto.Break{Kind: "property", Name: "builds-and-runs", Case: min.line(), Human: min.human(), Impl: fmt.Sprint(e2), Model: "builds and runs"})
					break
				}
			}
			if !found {
				return fmt.Errorf("expression batch: %v", err)
			}
			break
		}
		for i, tc := range cases {
			line := tc.line()
			res.Count(line, true)
			res.Hist(fmt.Sprintf("%s-size%02d", tc.tag, min(tc.tree.size()/3*3, 30)))
			if model != nil {
				res.Hist("outcome-" + strings.Join(strings.Fields(model[i])[:min(2, len(strings.Fields(model[i])))], "-"))
			}
			if i%499 == 0 && model != nil {
				res.Sample(map[string]string{"line": line, "go": tc.human(), "scriggo": impl[i], "model": model[i]})
			}
			if c.R.Intn(25) == 0 {
				gcSample = append(gcSample, tc)
			}
			if model == nil {
				continue
			}
			if model[i] == "bad-op" {
				res.AddBreak(proto.Break{Kind: "correspondence", Name: "generated-tree-well-typed", Case: line, Human: tc.human(), Impl: impl[i], Model: model[i]})
				continue
			}
			if !sameOutcome(impl[i], model[i]) {
				w.report(tc, "expression-vs-go-semantics")
			}
		}
	}

	// ---- stream 3: the specification against gc on a sample
	gcRuns := c.N(1, 6)
	per := c.N(400, 600)
	for r := 0; r < gcRuns && len(gcSample) > 0; r++ {
		var cases []*tcase
		for i := 0; i < per && len(gcSample) > 0; i++ {
			j := c.R.Intn(len(gcSample))
			cases = append(cases, gcSample[j])
			gcSample = append(gcSample[:j], gcSample[j+1:]...)
		}
		gcOut, err := runGC(cases)
		if err != nil {
			res.Notes = append(res.Notes, "gc cross-check not run: "+err.Error())
			fmt.Fprintln(os.Stderr, "c01: gc cross-check:", err)
			res.AddBreak(proto.Break{Kind: "correspondence", Name: "spec-vs-gc", Case: "go run", Impl: err.Error(), Model: "the generated sample compiles with gc"})
			break
		}
		// the oracle that does not depend on the model: gc's own output
		implOut, ierr := runScriggo(cases)
		w.builds++
		if ierr == nil {
			for i, tc := range cases {
				res.SpecChecks["scriggo-vs-gc"]++
				if !sameOutcome(implOut[i], gcOut[i]) {
					b := proto.Break{Kind: "property", Name: "scriggo-vs-gc", Case: tc.line(), Human: tc.human(), Impl: implOut[i], Model: "gc: " + gcOut[i]}
					if w.negKnown && isNegShift(tc, gcOut[i]) {
						b.Finding = c.Known(findingNegShift)
					} else if w.negKnown && gcOut[i] == "err negshift" {
						min := w.shrink(tc)
						if _, _, m := w.failing(min); isNegShift(min, m) {
							b.Finding = c.Known(findingNegShift)
						}
					}
					res.AddBreak(b)
				}
			}
		}
		res.SpecChecks["go-run-invocations"]++
		if c.D == nil {
			continue
		}
		lines := make([]string, len(cases))
		for i, tc := range cases {
			lines[i] = tc.line()
		}
		model, err := c.D.Batch(lines)
		if err != nil {
			return err
		}
		for i := range cases {
			model[i] = cases[i].modelAnswer(model[i])
			res.SpecChecks["gc-vs-lean-eval"]++
			if gcOut[i] != model[i] && sameOutcome(gcOut[i], model[i]) {
				res.SpecChecks["gc-raises-the-other-of-two-panics"]++
			}
			if !sameOutcome(gcOut[i], model[i]) {
				// the SPECIFICATION (or its serialisation) is wrong, not the code: make it loud
				res.AddBreak(proto.Break{Kind: "correspondence", Name: "spec-vs-gc", Case: lines[i], Human: cases[i].human(), Impl: "gc: " + gcOut[i], Model: model[i]})
			}
		}
	}
	// ---- stream 5: the emitter model against the real emitter, instruction by instruction
	if err := compileStream(c, w, c.N(3000, 30000), uintptrNotOK); err != nil {
		return err
	}
	// ---- stream 6: conditions (emitCondition) at and around the boundaries, gc as oracle
	if err := conditionStream(c, c.N(2000, 10000), true); err != nil {
		return err
	}
	// ---- stream 7: struct values, embedded structs, promoted fields, selector chains (gc, the Lean
	// evaluator, the field-index table as the disassembler shows it)
	if err := structStream(c, c.N(2, 4), c.N(1, 2), c.N(300, 1500), c.N(120, 300), c.N(80, 200), c.N(12, 40)); err != nil {
		return err
	}
	// ---- stream 8: zero value on the failing / absent path of comma-ok and may-fail forms, the same
	// site executed several times (gc, the generator's expectation, the Lean spec and VM model)
	if err := commaokStream(c, c.N(3, 1), c.N(0, 1500), c.N(12, 40)); err != nil {
		return err
	}
	// ---- stream 9: control flow — break / continue / return / recovered panics in nested
	// for / range / switch / select / literals (gc)
	if err := controlFlowStream(c, c.N(500, 3000), c.N(25, 60)); err != nil {
		return err
	}
	res.Histogram["scriggo-builds"] = w.builds

	// ---- stream 4: whole programs over a wide part of the language, gc against Scriggo
	for batch := 0; batch < c.N(1, 4); batch++ {
		if err := programStream(c, c.N(400, 1000), c.N(12, 40)); err != nil {
			return err
		}
	}
	return nil
}

// shrinkErr minimises a case on which Build or Run fails as a whole (host panic, build error).
func (w *world) shrinkErr(tc *tcase) *tcase {
	cur := tc.clone()
	fails := func(t *tcase) bool {
		t.normalise()
		if len(t.vars) == 0 {
			return false
		}
		_, err := runScriggo([]*tcase{t})
		w.builds++
		return err != nil
	}
	for progress := true; progress; {
		progress = false
		var n int
		cur.tree.walk(func(x *node) {
			if x != cur.tree && x.op != "lit" && x.op != "var" {
				n++
			}
		})
		for i := n - 1; i >= 0 && !progress; i-- {
			cand := cur.clone()
			var target *node
			j := 0
			cand.tree.walk(func(x *node) {
				if x != cand.tree && x.op != "lit" && x.op != "var" {
					if j == i {
						target = x
					}
					j++
				}
			})
			cand.tree = target
			if fails(cand) {
				cur, progress = cand, true
			}
		}
	}
	return cur
}

// ---------------------------------------------------------------- stream 4: whole programs, gc vs Scriggo

// programStream generates n programs, runs them with gc (one binary) and with Scriggo, compares
// the transcripts, shrinks differences.
func programStream(c *hx.Ctx, n int, shrinkBudget int) error {
	res := c.Res
	g := &pgen{r: c.R, avoid: map[string]bool{}}
	var progs []*program
	var findingOf []string
	// recorded findings whose minimal is a whole program: replayed first
	for _, f := range c.Findings {
		if strings.HasPrefix(f.Minimal, "package main") {
			progs = append(progs, rawProgram(f.Minimal))
			findingOf = append(findingOf, f.ID)
			for _, feat := range findingFeatures[f.ID] {
				g.avoid[feat] = true
			}
		}
	}
	nFind := len(progs)
	for i := 0; i < n; i++ {
		progs = append(progs, g.genProgram())
	}
	if dir := os.Getenv("C01_DEV_DUMP"); dir != "" {
		for i, p := range progs {
			os.WriteFile(fmt.Sprintf("%s/p%03d.txt", dir, i), []byte(p.text("P", "main")), 0o644)
		}
		return nil
	}
	gcOut, err := runGCPrograms(progs)
	if err != nil {
		res.AddBreak(proto.Break{Kind: "correspondence", Name: "generated-programs-compile-with-gc", Case: "go run", Impl: err.Error(), Model: "every generated program is valid Go"})
		return nil
	}
	res.SpecChecks["go-run-invocations"]++
	sc, err := runScriggoPrograms(progs)
	if err != nil {
		return err
	}
	var differing []*program
	for i, p := range progs {
		if i < nFind {
			if gcOut[i] != sc[i] {
				res.AddBreak(proto.Break{Kind: "property", Name: "program-vs-gc", Case: p.text("P", "main"), Impl: sc[i], Model: "gc: " + gcOut[i], Finding: findingOf[i]})
			}
			continue
		}
		src := p.text("P", "main")
		res.Count(src, true)
		for _, f := range p.frags {
			res.Hist("prog-" + f.kind)
		}
		switch {
		case strings.Contains(gcOut[i], "=== PANIC"):
			res.Hist("prog-outcome-panic")
		default:
			res.Hist("prog-outcome-normal")
		}
		res.SpecChecks["program-scriggo-vs-gc"]++
		if i%97 == 0 {
			res.Sample(map[string]string{"program": src, "gc": gcOut[i], "scriggo": sc[i]})
		}
		if gcOut[i] != sc[i] {
			res.Hist("prog-differs")
			differing = append(differing, p)
		}
	}
	if len(differing) == 0 {
		return nil
	}
	// isolate: every fragment of a differing program on its own, all in one more gc binary
	// (fragments are independent, so these programs are valid by construction)
	var singles []*program
	var owner []int
	for i, p := range differing {
		if len(p.frags) > 1 {
			for _, f := range p.frags {
				singles = append(singles, &program{frags: []fragment{f}})
				owner = append(owner, i)
			}
		}
	}
	isolated := map[int]*program{}
	isoS, isoG := map[int]string{}, map[int]string{}
	if len(singles) > 0 {
		g1, err := runGCPrograms(singles)
		if err == nil {
			res.SpecChecks["go-run-invocations"]++
			s1, err := runScriggoPrograms(singles)
			if err == nil {
				for j := range singles {
					if g1[j] != s1[j] && isolated[owner[j]] == nil {
						isolated[owner[j]] = singles[j]
						isoS[owner[j]], isoG[owner[j]] = s1[j], g1[j]
					}
				}
			}
		}
	}
	for i, p := range differing {
		if q := isolated[i]; q != nil {
			p = q
		}
		if dump := os.Getenv("C01_DEV_DIFFS"); dump != "" {
			s2, g2 := "(see whole program)", ""
			if q := isolated[i]; q != nil {
				s2, g2 = isoS[i], isoG[i]
			}
			fh, _ := os.OpenFile(dump, os.O_APPEND|os.O_CREATE|os.O_WRONLY, 0o644)
			fmt.Fprintf(fh, "######## %s\n%s\n---- scriggo\n%s\n---- gc\n%s\n", p.kinds(), p.text("P", "main"), s2, g2)
			fh.Close()
			continue
		}
		if i < 2 && shrinkBudget > 0 {
			p = shrinkProgram(p, shrinkBudget)
		}
		_, s2, g2 := programDiffers(p)
		res.AddBreak(proto.Break{Kind: "property", Name: "program-vs-gc", Case: p.text("P", "main"), Human: "fragments: " + p.kinds(), Impl: s2, Model: "gc: " + g2})
		if i >= 4 {
			break
		}
	}
	return nil
}
