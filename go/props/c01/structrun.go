package main

import (
	"fmt"
	"os"
	"strconv"
	"strings"

	"github.com/open2b/scriggo"

	"verifharness/internal/hx"
	"verifharness/internal/proto"
)

// Running stream 7 (see structs.go): Scriggo (transcript and disassembly), gc, the Lean model.

// sTranscript: what every case printed ("C id …" lines; a recovered panic is "P id message"),
// and what went wrong with the program as a whole.
type sTranscript struct {
	outs  map[int][]string
	whole string // BUILD-ERROR / HOST-PANIC / RUN-ERROR / PANIC line of the program, "" when none
}

func parseStructTranscript(text string) sTranscript {
	t := sTranscript{outs: map[int][]string{}}
	for _, line := range strings.Split(text, "\n") {
		f := strings.Fields(line)
		if len(f) == 0 {
			continue
		}
		if f[0] == "===" {
			if t.whole == "" {
				t.whole = line
			}
			continue
		}
		if len(f) < 2 || (f[0] != "C" && f[0] != "P") {
			continue
		}
		id, err := strconv.Atoi(f[1])
		if err != nil {
			continue
		}
		for _, tok := range f[2:] {
			switch tok {
			case "true":
				tok = "1"
			case "false":
				tok = "0"
			}
			t.outs[id] = append(t.outs[id], tok)
		}
		if f[0] == "P" {
			t.outs[id] = append(t.outs[id], "(panic)")
		}
	}
	return t
}

// structTraces cuts the paths of the Field / SetField instructions of every case function out of
// the disassembled package: "F0,1 S2 …" ("-" when the function has none).
func structTraces(asm string) map[int]string {
	out := map[int]string{}
	lines := strings.Split(asm, "\n")
	for at := 0; at < len(lines); at++ {
		var id int
		if _, err := fmt.Sscanf(lines[at], "Func Pc%d(", &id); err != nil {
			continue
		}
		var items []string
		for at++; at < len(lines); at++ {
			f := strings.Fields(lines[at])
			if len(f) == 0 || f[0] == "Func" {
				at--
				break
			}
			switch {
			case f[0] == "Field" && len(f) == 4:
				items = append(items, "F"+f[2])
			case f[0] == "SetField" && len(f) == 4:
				items = append(items, "S"+f[3])
			case len(f) > 1 && strings.HasSuffix(f[0], ":") && f[1] == "Field" && len(f) == 5:
				items = append(items, "F"+f[3])
			case len(f) > 1 && strings.HasSuffix(f[0], ":") && f[1] == "SetField" && len(f) == 5:
				items = append(items, "S"+f[4])
			}
		}
		if len(items) == 0 {
			out[id] = "-"
		} else {
			out[id] = strings.Join(items, " ")
		}
	}
	return out
}

// runStructScriggo runs one program (source with Pq_ names) with Scriggo.
func runStructScriggo(src string, wantAsm bool) (sTranscript, map[int]string) {
	sc, err := runScriggoPrograms([]*program{rawProgram(src)})
	if err != nil {
		return sTranscript{outs: map[int][]string{}, whole: "=== HARNESS " + err.Error()}, nil
	}
	t := parseStructTranscript(sc[0])
	if !wantAsm {
		return t, nil
	}
	var traces map[int]string
	func() {
		defer func() { recover() }()
		prog, err := scriggo.Build(scriggo.Files{"main.go": []byte(strings.ReplaceAll(src, "Pq_", "P"))}, nil)
		if err != nil {
			return
		}
		asm, err := prog.Disassemble("main")
		if err != nil {
			return
		}
		traces = structTraces(string(asm))
	}()
	return t, traces
}

func sameTokens(a, b []string) bool {
	return strings.Join(a, " ") == strings.Join(b, " ")
}

// structStream: nMatrix cases of the matrix family per pure world, nRandom random in-model cases per
// pure world, nRole cases with snippets per world (pure and rich).
func structStream(c *hx.Ctx, pureWorlds, richWorlds, nMatrix, nRandom, nRole, shrinkBudget int) error {
	res := c.Res
	avoid := map[string]bool{}
	for _, f := range c.Findings {
		for _, feat := range findingFeatures[f.ID] {
			avoid[feat] = true
		}
	}
	type worldRun struct {
		w     *sWorld
		cases []*sCase
	}
	var runs []*worldRun
	id := 0
	for wi := 0; wi < pureWorlds+richWorlds; wi++ {
		rich := wi >= pureWorlds
		var w *sWorld
		for {
			w = genWorld(c.R, rich)
			promoted := false
			for _, s := range w.top.selectors() {
				promoted = promoted || len(s.path) > 1
			}
			if w.pure() != rich && promoted {
				break
			}
		}
		w.noNilFuncTest = avoid["structrole.nil-func-field"]
		if len(modelChains(w.top)) == 0 {
			wi--
			continue
		}
		g := &sGen{r: c.R, w: w, avoid: avoid}
		wr := &worldRun{w: w}
		if !rich {
			ms := g.matrixCases(id, nMatrix)
			wr.cases = append(wr.cases, ms...)
			id += len(ms)
			for i := 0; i < nRandom; i++ {
				wr.cases = append(wr.cases, g.randomCase(id, 0))
				id++
			}
		}
		for i := 0; i < nRole; i++ {
			var cs *sCase
			for try := 0; try < 20; try++ {
				cs = g.randomCase(id, 1+c.R.Intn(2))
				ok := cs.tag == "role"
				for _, s := range cs.body {
					if s.op == "raw" && avoid["structrole."+s.role] {
						ok = false
					}
				}
				if ok {
					break
				}
				cs = nil
			}
			if cs != nil {
				wr.cases = append(wr.cases, cs)
				id++
			}
		}
		runs = append(runs, wr)
	}
	var srcs []string
	for _, wr := range runs {
		srcs = append(srcs, structProgram(wr.w, wr.cases))
	}
	if structDevDump(srcs) {
		return nil
	}

	// gc: everything in one binary
	var progs []*program
	for _, s := range srcs {
		progs = append(progs, rawProgram(s))
	}
	gcOut, err := runGCPrograms(progs)
	if err != nil {
		res.AddBreak(proto.Break{Kind: "correspondence", Name: "generated-struct-programs-compile-with-gc", Case: "go run", Impl: err.Error(), Model: "every generated program is valid Go"})
		return nil
	}
	res.SpecChecks["go-run-invocations"]++

	reported := 0
	for wi, wr := range runs {
		gct := parseStructTranscript(gcOut[wi])
		sct, traces := runStructScriggo(srcs[wi], true)
		// the model on the cases of its language
		model := map[int][]string{}
		modelTrace := map[int][2]string{}
		if c.D != nil {
			var lines []string
			var ids []int
			for _, cs := range wr.cases {
				if cs.inModel() {
					lines = append(lines, cs.modelLine())
					ids = append(ids, cs.id)
				}
			}
			ans, err := c.D.Batch(lines)
			if err != nil {
				return err
			}
			for i, a := range ans {
				parts := strings.Split(a, " ; ")
				if len(parts) != 3 || !strings.HasPrefix(parts[0], "ok ") {
					res.AddBreak(proto.Break{Kind: "correspondence", Name: "generated-struct-case-in-model", Case: lines[i], Impl: "", Model: a})
					continue
				}
				if o := strings.TrimPrefix(parts[0], "ok "); o != "-" {
					model[ids[i]] = strings.Fields(o)
				} else {
					model[ids[i]] = []string{}
				}
				modelTrace[ids[i]] = [2]string{parts[1], parts[2]}
			}
		}
		single := func(cs *sCase) (sTranscript, string) {
			src := structProgram(wr.w, []*sCase{cs})
			t, _ := runStructScriggo(src, false)
			return t, src
		}
		for _, cs := range wr.cases {
			res.Count(fmt.Sprintf("struct w%d %s", wi, strings.ReplaceAll(cs.funcText(), fmt.Sprint(cs.id), "#")), true)
			res.Hist("struct-" + cs.tag)
			for _, s := range cs.body {
				if s.op == "raw" {
					res.Hist("struct-role-" + s.role)
				}
			}
			if cs.inModel() {
				res.Hist("struct-in-model")
			}
			want, byGC := gct.outs[cs.id], true
			got := sct.outs[cs.id]
			whole := sct.whole
			if whole != "" {
				// the program as a whole went wrong (a host panic, a build error): this case on its own
				t, _ := single(cs)
				got, whole = t.outs[cs.id], t.whole
			}
			m, inModel := model[cs.id]
			if inModel {
				res.SpecChecks["struct-gc-vs-lean-eval"]++
				if !sameTokens(m, want) {
					// the SPECIFICATION is wrong, not the code
					res.AddBreak(proto.Break{Kind: "correspondence", Name: "struct-spec-vs-gc", Case: cs.modelLine(), Human: cs.funcText(), Impl: "gc: " + strings.Join(want, " "), Model: strings.Join(m, " ")})
					continue
				}
			}
			res.SpecChecks["struct-scriggo-vs-gc"]++
			if cs.id%151 == 0 {
				res.Sample(map[string]string{"case": cs.funcText(), "gc": strings.Join(want, " "), "scriggo": strings.Join(got, " "), "field-trace": traces[cs.id]})
			}
			if whole == "" && sameTokens(got, want) {
				// the emitter's use of the field-index table, as the disassembler shows it
				if tr, ok := traces[cs.id]; ok && inModel {
					mt := modelTrace[cs.id]
					if tr != mt[0] {
						res.AddBreak(proto.Break{Kind: "correspondence", Name: "field-table-vs-emitter", Case: cs.modelLine(), Human: cs.funcText(), Impl: tr, Model: mt[0]})
					}
					if tr != mt[1] {
						res.AddBreak(proto.Break{Kind: "correspondence", Name: "requested-paths-vs-emitter", Case: cs.modelLine(), Human: cs.funcText(), Impl: tr, Model: mt[1]})
					}
				}
				continue
			}
			res.Hist("struct-differs")
			if dump := os.Getenv("C01_DEV_DIFFS"); dump != "" {
				fh, _ := os.OpenFile(dump, os.O_APPEND|os.O_CREATE|os.O_WRONLY, 0o644)
				var roles []string
				for _, s := range cs.body {
					if s.op == "raw" {
						roles = append(roles, s.role)
					}
				}
				fmt.Fprintf(fh, "######## world %d %s %v\n%s---- scriggo %s\n%s\n---- gc\n%s\n", wi, cs.tag, roles, cs.funcText(), whole, strings.Join(got, " "), strings.Join(want, " "))
				fh.Close()
				continue
			}
			if reported >= 3 {
				continue
			}
			reported++
			name := "struct-program-vs-gc"
			if inModel {
				name = "struct-selectors-vs-go-semantics"
			}
			// shrink: in-model cases against the model (no gc run needed), the others against gc
			buildErr := strings.HasPrefix(whole, "=== BUILD-ERROR")
			failing := func(cand *sCase) bool {
				t, _ := single(cand)
				if strings.HasPrefix(t.whole, "=== BUILD-ERROR") && !buildErr {
					return false // the candidate is not a valid program (a local left unused)
				}
				if cand.inModel() && c.D != nil {
					a, err := c.D.Ask(cand.modelLine())
					if err != nil || !strings.HasPrefix(a, "ok ") {
						return false
					}
					o := strings.TrimPrefix(strings.Split(a, " ; ")[0], "ok ")
					exp := strings.Fields(o)
					if o == "-" {
						exp = nil
					}
					return t.whole != "" || !sameTokens(t.outs[cand.id], exp)
				}
				g1, err := runGCPrograms([]*program{rawProgram(structProgram(cand.w, []*sCase{cand}))})
				if err != nil {
					return false
				}
				return t.whole != "" || !sameTokens(t.outs[cand.id], parseStructTranscript(g1[0]).outs[cand.id])
			}
			budget := shrinkBudget
			if inModel && c.D != nil {
				budget = 200
			}
			min := shrinkCase(cs, failing, budget)
			t, src := single(min)
			impl := strings.Join(t.outs[min.id], " ")
			if t.whole != "" {
				impl = t.whole + " " + impl
			}
			exp := want
			if min != cs {
				byGC = false
				if g1, err := runGCPrograms([]*program{rawProgram(src)}); err == nil {
					exp, byGC = parseStructTranscript(g1[0]).outs[min.id], true
				}
			}
			modelStr := "gc: " + strings.Join(exp, " ")
			if !byGC {
				modelStr = "(gc not run on the shrunk program; the original case) gc: " + strings.Join(want, " ")
			}
			res.AddBreak(proto.Break{Kind: "property", Name: name, Case: src, Human: "stream 7 (" + cs.tag + "): " + min.funcText(), Impl: impl, Model: modelStr})
		}
	}
	if os.Getenv("C01_DEV_STRUCT") != "" {
		fmt.Fprintf(os.Stderr, "struct stream: %d cases\n", id)
	}
	return nil
}
