package main

import (
	"fmt"
	"os"
	"strings"

	"verifharness/internal/hx"
	"verifharness/internal/proto"
)

// Stream 8, "zero value on the failing / absent path, after the same site succeeded".
//
// Every Go form whose value result may be "not there" — a comma-ok type assertion, a map index
// (comma-ok and plain), a channel receive from a closed channel (comma-ok and plain), a receive
// clause of a select, a type switch with a binding, a `for _, d = range` over an empty collection
// — must leave the ZERO VALUE of the destination type in the destination (or, for the range, leave
// the destination alone), whatever the destination or the temporary register behind it held
// before. A VM that writes its result register only on the successful path is invisible to a
// program that executes the site once on a fresh frame: registers start zeroed. So a CASE executes
// one SITE several times with a chosen pattern of successes and failures:
//
//	form    assert | mapidx | recv | select | tswitch | rangeassign
//	kind    the static type T of the value result: every integer kind, uintptr, the floats, string,
//	        bool, slices, map, func, pointer, struct, array, interface{}, chan, complex128 and
//	        types DEFINED in the program over int / string / float64 / []int / bool (ScriggoType)
//	inputs  2–5 executions, each a success with one of T's values (the zero value itself included)
//	        or a failure of one of the form's kinds (another dynamic type, another type of the same
//	        kind, nil interface; absent key, nil map, empty map; closed channel; empty / nil slice)
//	ctx     the way the site is executed again: a for loop, a range loop, a range loop whose value
//	        variable is the operand, a function literal called once per input, a declared function
//	        called once per input, the statement written out once per input in sibling blocks, and
//	        written out in ONE scope on different variables (all re-read at the end)
//	dest    where the results go: new variables (`:=`, `var =`), variables that hold a non-zero value,
//	        variables declared outside the loop / captured by the literal, a struct field, a slice
//	        element, a map element, through a pointer, package-level variables, assigned inside a
//	        nested literal, `_` for either result, the `if d, ok := …; ok` header, and the plain
//	        (one-result) forms of map index and receive
//
// with everything READ (printed) after each execution. The expected transcript is known to the
// generator (each execution is independent: the value or the zero value, and ok); oracles:
// that expectation, gc on every case (one binary), and for assert / mapidx / recv the Lean
// reference semantics `CommaOk.spec` together with the VM model `CommaOk.vmRun` (the regenerated
// destination code of OpAssert / OpMapIndex / OpReceive run on a register file that is kept from
// one execution to the next) through the driver op `cok`.

type cokVal struct{ src, printed string }

type cokKind struct {
	name     string   // Go type text
	rkind    string   // reflect kind, as the Lean model names it
	vals     []cokVal // vals[0] is the zero value
	show     string   // println arguments; %s is the (parenthesised) value expression
	same     string   // a value of ANOTHER type of the same kind ("" when there is none)
	noAssert bool     // an assertion to this type fails for the nil interface only
	noMapVal bool     // not used as a map value / channel element here
}

func iv(t string, zs ...string) []cokVal {
	out := []cokVal{{t + "(0)", "0"}}
	for _, z := range zs {
		out = append(out, cokVal{t + "(" + z + ")", z})
	}
	return out
}

// the kinds of stream 8. Printed forms are those of the builtin println (checked against gc on
// every run: a wrong table shows up as commaok-expectation-vs-gc).
var cokKinds = []*cokKind{
	{name: "int", rkind: "int", vals: iv("int", "7", "-3"), show: "%s", same: "Pq_MyInt(7)"},
	{name: "int8", rkind: "int8", vals: iv("int8", "5", "-128"), show: "%s"},
	{name: "int16", rkind: "int16", vals: iv("int16", "300", "-2"), show: "%s"},
	{name: "int32", rkind: "int32", vals: iv("int32", "70000", "-1"), show: "%s"},
	{name: "int64", rkind: "int64", vals: iv("int64", "1099511627776", "-9"), show: "%s"},
	{name: "uint", rkind: "uint", vals: iv("uint", "7", "18446744073709551615"), show: "%s"},
	{name: "uint8", rkind: "uint8", vals: iv("uint8", "200", "1"), show: "%s"},
	{name: "uint16", rkind: "uint16", vals: iv("uint16", "65535", "2"), show: "%s"},
	{name: "uint32", rkind: "uint32", vals: iv("uint32", "4000000000", "3"), show: "%s"},
	{name: "uint64", rkind: "uint64", vals: iv("uint64", "18446744073709551615", "4"), show: "%s"},
	{name: "uintptr", rkind: "uintptr", vals: iv("uintptr", "9", "10"), show: "%s"},
	{name: "float32", rkind: "float32", vals: []cokVal{{"float32(0)", "+0.000000e+000"}, {"float32(1.5)", "+1.500000e+000"}, {"float32(-2.25)", "-2.250000e+000"}}, show: "%s"},
	{name: "float64", rkind: "float64", vals: []cokVal{{"float64(0)", "+0.000000e+000"}, {"float64(1.5)", "+1.500000e+000"}, {"float64(1e10)", "+1.000000e+010"}}, show: "%s", same: "Pq_MyF(1.5)"},
	{name: "string", rkind: "string", vals: []cokVal{{`""`, "[]"}, {`"alpha"`, "[alpha]"}, {`"beta"`, "[beta]"}}, show: `"[" + %s + "]"`, same: `Pq_MyStr("alpha")`},
	{name: "bool", rkind: "bool", vals: []cokVal{{"false", "false"}, {"true", "true"}}, show: "%s", same: "Pq_MyB(true)"},
	{name: "[]int", rkind: "slice", vals: []cokVal{{"[]int(nil)", "0 true"}, {"[]int{4}", "1 false"}, {"[]int{5, 6}", "2 false"}}, show: "len(%s), %s == nil", same: "Pq_MySl{4}"},
	{name: "[]string", rkind: "slice", vals: []cokVal{{"[]string(nil)", "0 true"}, {`[]string{"x"}`, "1 false"}, {`[]string{"y", "z"}`, "2 false"}}, show: "len(%s), %s == nil"},
	{name: "map[string]int", rkind: "map", vals: []cokVal{{"map[string]int(nil)", "0 true"}, {`map[string]int{"k": 1}`, "1 false"}, {`map[string]int{"k": 1, "l": 2}`, "2 false"}}, show: "len(%s), %s == nil"},
	{name: "func() int", rkind: "func", vals: []cokVal{{"(func() int)(nil)", "true"}, {"func() int { return 41 }", "false"}}, show: "%s == nil"},
	{name: "*int", rkind: "ptr", vals: []cokVal{{"(*int)(nil)", "true -1"}, {"Pq_p1", "false 11"}, {"Pq_p2", "false 22"}}, show: "%s == nil, Pq_deref(%s)"},
	{name: "Pq_S", rkind: "struct", vals: []cokVal{{"Pq_S{}", "0 []"}, {`Pq_S{A: 3, B: "x"}`, "3 [x]"}, {`Pq_S{A: -4, B: "yy"}`, "-4 [yy]"}}, show: `%s.A, "[" + %s.B + "]"`, same: "Pq_S2{A: 3}"},
	{name: "[2]int", rkind: "array", vals: []cokVal{{"[2]int{}", "0 0"}, {"[2]int{8, 9}", "8 9"}, {"[2]int{0, 1}", "0 1"}}, show: "%s[0], %s[1]"},
	{name: "interface{}", rkind: "interface", vals: []cokVal{{"interface{}(nil)", "true false"}, {"interface{}(5)", "false true"}, {`interface{}("s")`, "false false"}}, show: "%s == nil, %s == interface{}(5)", noAssert: true},
	{name: "chan int", rkind: "chan", vals: []cokVal{{"(chan int)(nil)", "true"}, {"Pq_ch1", "false"}}, show: "%s == nil", noMapVal: true},
	{name: "complex128", rkind: "complex128", vals: []cokVal{{"complex128(0)", "+0.000000e+000 +0.000000e+000"}, {"complex(1.5, -2.25)", "+1.500000e+000 -2.250000e+000"}}, show: "real(%s), imag(%s)"},
	{name: "Pq_MyInt", rkind: "int", vals: []cokVal{{"Pq_MyInt(0)", "0"}, {"Pq_MyInt(7)", "7"}, {"Pq_MyInt(-3)", "-3"}}, show: "int(%s)", same: "int(7)"},
	{name: "Pq_MyStr", rkind: "string", vals: []cokVal{{`Pq_MyStr("")`, "[]"}, {`Pq_MyStr("alpha")`, "[alpha]"}, {`Pq_MyStr("beta")`, "[beta]"}}, show: `"[" + string(%s) + "]"`, same: `"alpha"`},
	{name: "Pq_MyF", rkind: "float64", vals: []cokVal{{"Pq_MyF(0)", "+0.000000e+000"}, {"Pq_MyF(1.5)", "+1.500000e+000"}}, show: "float64(%s)", same: "float64(1.5)"},
	{name: "Pq_MySl", rkind: "slice", vals: []cokVal{{"Pq_MySl(nil)", "0 true"}, {"Pq_MySl{4}", "1 false"}, {"Pq_MySl{5, 6}", "2 false"}}, show: "len(%s), %s == nil", same: "[]int{4}"},
	{name: "Pq_MyB", rkind: "bool", vals: []cokVal{{"Pq_MyB(false)", "false"}, {"Pq_MyB(true)", "true"}}, show: "bool(%s)", same: "true"},
}

const cokDecls = `type Pq_S struct {
	A int
	B string
}

type Pq_S2 struct{ A int }

type Pq_Other struct{ Z int }

type Pq_MyInt int

type Pq_MyStr string

type Pq_MyF float64

type Pq_MySl []int

type Pq_MyB bool

var Pq_i1, Pq_i2 = 11, 22

var Pq_p1, Pq_p2 = &Pq_i1, &Pq_i2

var Pq_ch1 = make(chan int, 1)

func Pq_deref(p *int) int {
	if p == nil {
		return -1
	}
	return *p
}
`

func (k *cokKind) showOf(x string) string {
	if !isIdent(x) {
		x = "(" + x + ")"
	}
	return strings.ReplaceAll(k.show, "%s", x)
}

func isIdent(s string) bool {
	for _, c := range s {
		if !(c == '_' || c >= 'a' && c <= 'z' || c >= 'A' && c <= 'Z' || c >= '0' && c <= '9') {
			return false
		}
	}
	return s != ""
}

// cokIn is one execution of the site.
type cokIn struct {
	succ bool
	p    int    // index into kind.vals when succ
	fail string // other | same | nil ; absent | nilmap | emptymap ; closed ; empty | nilslice
}

func (in cokIn) token() string {
	if in.succ {
		return fmt.Sprintf("s%d", in.p)
	}
	return "f"
}

type cokCase struct {
	id     int
	form   string
	kind   *cokKind
	ctx    string
	dest   string
	keyInt bool // mapidx: int keys instead of string keys
	deflt  bool // select: with a default clause
	swap   bool // tswitch: the clause of T after the clause of the other type
	inputs []cokIn
}

func (c *cokCase) String() string {
	var ins []string
	for _, in := range c.inputs {
		if in.succ {
			ins = append(ins, fmt.Sprintf("ok:%s", c.kind.vals[in.p].src))
		} else {
			ins = append(ins, "fail:"+in.fail)
		}
	}
	return fmt.Sprintf("form=%s type=%s context=%s destination=%s executions=[%s]", c.form, c.kind.name, c.ctx, c.dest, strings.Join(ins, ", "))
}

// inModel: the Lean model has the form (per-execution semantics and the VM's destination code)
func (c *cokCase) inModel() bool {
	return c.form == "assert" || c.form == "mapidx" || c.form == "recv"
}

func (c *cokCase) modelLine() string {
	var b strings.Builder
	fmt.Fprintf(&b, "C01 cok %s %s %d", c.form, c.kind.rkind, len(c.inputs))
	for _, in := range c.inputs {
		b.WriteString(" " + in.token())
	}
	return b.String()
}

var cokForms = []string{"assert", "mapidx", "recv", "select", "tswitch", "rangeassign"}
var cokCtxs = []string{"loop", "range", "rangeval", "closure", "topfunc", "unrolled", "seq"}
var cokDests = []string{"fresh", "vardecl", "exist", "outer", "field", "elem", "mapelem", "blankv", "blankok", "ifinit", "ptr", "global", "captured", "plain", "plainexist"}

func cokFails(form string, k *cokKind) []string {
	switch form {
	case "assert", "tswitch":
		fs := []string{"nil"}
		if !k.noAssert {
			fs = append(fs, "other")
			if k.same != "" {
				fs = append(fs, "same")
			}
		}
		return fs
	case "mapidx":
		return []string{"absent", "nilmap", "emptymap"}
	case "recv", "select":
		return []string{"closed"}
	}
	return []string{"empty", "nilslice"}
}

// avoided: the combination runs into a recorded open finding of the unchanged tree (the features
// are those of findingFeatures in main.go; each is as narrow as the recorded cause)
func (c *cokCase) avoided(avoid map[string]bool) bool {
	closureCaptures := c.ctx == "closure" // the destination declared outside is captured by the literal
	switch {
	case avoid["cok.func-nil"] && c.kind.rkind == "func":
		return true
	case avoid["cok.range-nonlocal"] && c.form == "rangeassign" &&
		(c.dest == "field" || c.dest == "elem" || c.dest == "global" || (c.dest == "outer" && closureCaptures)):
		return true
	case avoid["cok.captured-struct-tuple"] && c.dest == "field" && closureCaptures:
		return true
	case avoid["cok.iface-indirect"] && c.kind.rkind == "interface" && (c.dest == "ptr" || c.dest == "captured"):
		return true
	case avoid["cok.complex-ptr"] && c.kind.rkind == "complex128" && c.dest == "ptr":
		return true
	}
	return false
}

// valid: does the combination exist in Go (and in this generator)?
func (c *cokCase) valid() bool {
	k := c.kind
	switch c.form {
	case "assert":
		if c.dest == "plain" || c.dest == "plainexist" {
			return false // the one-result assertion panics instead of yielding a zero value
		}
	case "mapidx", "recv":
		if k.noMapVal {
			return false
		}
	case "select":
		if k.noMapVal {
			return false
		}
		switch c.dest {
		case "fresh", "outer", "plain", "plainexist", "blankv", "blankok", "captured":
		default:
			return false
		}
	case "tswitch":
		if c.dest != "fresh" || k.noAssert {
			return false
		}
	case "rangeassign":
		if k.noMapVal || (c.dest != "outer" && c.dest != "exist" && c.dest != "field" && c.dest != "elem" && c.dest != "global") {
			return false
		}
		if c.ctx == "seq" {
			return false
		}
	}
	if c.ctx == "seq" && (c.form == "select" || c.form == "tswitch") {
		return false // nothing outlives the clause: the same as "unrolled"
	}
	if c.ctx == "seq" {
		switch c.dest {
		case "outer", "field", "elem", "mapelem", "ptr", "global", "captured", "plainexist":
			return false // one destination only: the same as "unrolled"
		}
	}
	if c.dest == "ifinit" && c.form != "assert" && c.form != "mapidx" && c.form != "recv" {
		return false
	}
	return true
}

// expected transcript lines (without the leading "C <id> ")
func (c *cokCase) expect() []string {
	k := c.kind
	var out []string
	prev := 0 // rangeassign: what the destination held before
	line := func(i int, p int, ok bool) string {
		parts := []string{fmt.Sprint(i)}
		if c.dest != "blankv" {
			parts = append(parts, k.vals[p].printed)
		}
		if c.dest != "blankok" && c.dest != "plain" && c.dest != "plainexist" {
			parts = append(parts, fmt.Sprint(ok))
		}
		return strings.Join(parts, " ")
	}
	for i, in := range c.inputs {
		switch c.form {
		case "tswitch":
			switch {
			case in.succ:
				out = append(out, fmt.Sprintf("%d T %s", i, k.vals[in.p].printed))
			case in.fail == "nil":
				out = append(out, fmt.Sprintf("%d nil", i))
			case in.fail == "other":
				out = append(out, fmt.Sprintf("%d U 1", i))
			default:
				out = append(out, fmt.Sprintf("%d default false", i))
			}
		case "rangeassign":
			p := prev
			if c.dest == "exist" {
				p = 1 // declared with vals[1] right before the loop
			} else if c.ctx == "topfunc" && c.dest != "global" {
				p = 0 // declared anew in every call
			}
			if in.succ {
				p = in.p
			}
			prev = p
			out = append(out, fmt.Sprintf("%d %s", i, k.vals[p].printed))
		default:
			p := 0
			if in.succ {
				p = in.p
			}
			out = append(out, line(i, p, in.succ))
		}
	}
	if c.ctx == "seq" && c.form != "tswitch" && c.dest != "ifinit" {
		// everything is read again at the end
		for i, in := range c.inputs {
			p := 0
			if in.succ {
				p = in.p
			}
			out = append(out, "again "+line(i, p, in.succ))
		}
	}
	return out
}

// funcText: the declarations and the function `Pq_c<id>()` of the case
func (c *cokCase) funcText() string {
	k := c.kind
	T := k.name
	n := len(c.inputs)
	var top []string   // top-level declarations
	var pre []string   // the operands, before everything
	var outer []string // destination variables that outlive one execution
	id := c.id

	// ---- the operands: element i of some slices; `direct(i)` / through parameters
	var params, opParam, chanParam string
	var args func(i string) string
	var direct func(i string) string
	var chanDirect func(i string) string
	var rangeValHead func() (head, op, ch string) // "for i, x := range xs" and the operand over x
	switch c.form {
	case "assert", "tswitch":
		var es []string
		for _, in := range c.inputs {
			switch {
			case in.succ:
				es = append(es, k.vals[in.p].src)
			case in.fail == "nil":
				es = append(es, "nil")
			case in.fail == "same":
				es = append(es, k.same)
			default:
				es = append(es, "Pq_Other{1}")
			}
		}
		pre = append(pre, fmt.Sprintf("xs := []interface{}{%s}", strings.Join(es, ", ")))
		params, opParam = "x interface{}", "x"
		args = func(i string) string { return "xs[" + i + "]" }
		direct = func(i string) string { return "xs[" + i + "]" }
		rangeValHead = func() (string, string, string) { return "for i, x := range xs", "x", "" }
	case "mapidx":
		kt, key := "string", func(s string) string { return `"` + s + `"` }
		if c.keyInt {
			kt = "int"
			key = func(s string) string {
				switch s {
				case "k0":
					return "10"
				case "k1":
					return "11"
				case "k2":
					return "12"
				}
				return "99"
			}
		}
		var ents []string
		for p, v := range k.vals {
			ents = append(ents, fmt.Sprintf("%s: %s", key(fmt.Sprintf("k%d", p)), v.src))
		}
		pre = append(pre, fmt.Sprintf("ms := []map[%s]%s{{%s}, nil, {}}", kt, T, strings.Join(ents, ", ")))
		var mi, ks []string
		for _, in := range c.inputs {
			switch {
			case in.succ:
				mi, ks = append(mi, "0"), append(ks, key(fmt.Sprintf("k%d", in.p)))
			case in.fail == "nilmap":
				mi, ks = append(mi, "1"), append(ks, key("k1"))
			case in.fail == "emptymap":
				mi, ks = append(mi, "2"), append(ks, key("k1"))
			default:
				mi, ks = append(mi, "0"), append(ks, key("none"))
			}
		}
		pre = append(pre, fmt.Sprintf("mi := []int{%s}", strings.Join(mi, ", ")), fmt.Sprintf("ks := []%s{%s}", kt, strings.Join(ks, ", ")))
		params, opParam = fmt.Sprintf("m map[%s]%s, k %s", kt, T, kt), "m[k]"
		args = func(i string) string { return "ms[mi[" + i + "]], ks[" + i + "]" }
		direct = func(i string) string { return "ms[mi[" + i + "]][ks[" + i + "]]" }
		rangeValHead = func() (string, string, string) { return "for i, k := range ks", "ms[mi[i]][k]", "" }
	case "recv", "select":
		pre = append(pre, fmt.Sprintf("mk := func(vs ...%s) chan %s { c := make(chan %s, 4); for _, v := range vs { c <- v }; close(c); return c }", T, T, T))
		var es []string
		for _, in := range c.inputs {
			if in.succ {
				es = append(es, "mk("+k.vals[in.p].src+")")
			} else {
				es = append(es, "mk()")
			}
		}
		pre = append(pre, fmt.Sprintf("chs := []chan %s{%s}", T, strings.Join(es, ", ")))
		params, opParam, chanParam = "ch chan "+T, "<-ch", "ch"
		args = func(i string) string { return "chs[" + i + "]" }
		direct = func(i string) string { return "<-chs[" + i + "]" }
		chanDirect = func(i string) string { return "chs[" + i + "]" }
		rangeValHead = func() (string, string, string) { return "for i, ch := range chs", "<-ch", "ch" }
	case "rangeassign":
		var es []string
		for _, in := range c.inputs {
			switch {
			case in.succ:
				es = append(es, fmt.Sprintf("{%s, %s}", k.vals[(in.p+1)%len(k.vals)].src, k.vals[in.p].src))
			case in.fail == "nilslice":
				es = append(es, "nil")
			default:
				es = append(es, "{}")
			}
		}
		pre = append(pre, fmt.Sprintf("cs := [][]%s{%s}", T, strings.Join(es, ", ")))
		params, opParam = "c []"+T, "c"
		args = func(i string) string { return "cs[" + i + "]" }
		direct = func(i string) string { return "cs[" + i + "]" }
		rangeValHead = func() (string, string, string) { return "for i, c := range cs", "c", "" }
	}

	// ---- one execution: the statements of the site for operand `op` (channel `ch` for select),
	// index expression `i` (printed), variable suffix `sfx`; `again` collects the re-reads
	var again []string
	site := func(op, ch, i, sfx string) []string {
		d, ok := "d"+sfx, "ok"+sfx
		if c.form == "assert" {
			op += ".(" + T + ")"
		}
		pr := func(dExpr, okExpr, tag string) string {
			parts := []string{`"C"`, fmt.Sprint(id)}
			if tag != "" {
				parts = append(parts, `"`+tag+`"`)
			}
			parts = append(parts, i)
			if dExpr != "" {
				parts = append(parts, k.showOf(dExpr))
			}
			if okExpr != "" {
				parts = append(parts, okExpr)
			}
			return "println(" + strings.Join(parts, ", ") + ")"
		}
		both := func(dExpr, okExpr string) []string {
			if c.ctx == "seq" {
				again = append(again, pr(dExpr, okExpr, "again"))
			}
			return []string{pr(dExpr, okExpr, "")}
		}
		switch c.form {
		case "tswitch":
			tc := fmt.Sprintf("case %s: println(\"C\", %d, %s, \"T\", %s)", T, id, i, k.showOf("d"))
			uc := fmt.Sprintf("case Pq_Other: println(\"C\", %d, %s, \"U\", d.Z)", id, i)
			if c.swap {
				tc, uc = uc, tc
			}
			return []string{fmt.Sprintf("switch d := %s.(type) { %s; %s; case nil: println(\"C\", %d, %s, \"nil\"); default: println(\"C\", %d, %s, \"default\", d == nil) }", op, tc, uc, id, i, id, i)}
		case "rangeassign":
			switch c.dest {
			case "exist":
				return append([]string{fmt.Sprintf("var %s %s = %s", d, T, k.vals[1].src), fmt.Sprintf("for _, %s = range %s {\n\t}", d, op)}, both(d, "")...)
			case "field":
				return append([]string{fmt.Sprintf("for _, st.F = range %s {\n\t}", op)}, both("st.F", "")...)
			case "elem":
				return append([]string{fmt.Sprintf("for _, ds[1] = range %s {\n\t}", op)}, both("ds[1]", "")...)
			case "global":
				return append([]string{fmt.Sprintf("for _, Pq_gd%d = range %s {\n\t}", id, op)}, both(fmt.Sprintf("Pq_gd%d", id), "")...)
			}
			return append([]string{fmt.Sprintf("for _, d = range %s {\n\t}", op)}, both("d", "")...)
		case "select":
			dflt := ""
			if c.deflt {
				dflt = fmt.Sprintf("; default: println(\"C\", %d, %s, \"default\")", id, i)
			}
			switch c.dest {
			case "fresh":
				return []string{fmt.Sprintf("select { case %s, %s := <-%s: %s%s }", d, ok, ch, pr(d, ok, ""), dflt)}
			case "outer":
				return []string{fmt.Sprintf("select { case d, ok = <-%s: %s%s }", ch, pr("d", "ok", ""), dflt)}
			case "captured":
				return []string{fmt.Sprintf("func() { select { case d, ok = <-%s:%s } }()", ch, strings.Replace(dflt, "; ", " ", 1)), pr("d", "ok", "")}
			case "plain":
				return []string{fmt.Sprintf("select { case %s := <-%s: %s%s }", d, ch, pr(d, "", ""), dflt)}
			case "plainexist":
				return []string{fmt.Sprintf("select { case d = <-%s: %s%s }", ch, pr("d", "", ""), dflt)}
			case "blankv":
				return []string{fmt.Sprintf("select { case _, %s := <-%s: %s%s }", ok, ch, pr("", ok, ""), dflt)}
			case "blankok":
				return []string{fmt.Sprintf("select { case %s, _ := <-%s: %s%s }", d, ch, pr(d, "", ""), dflt)}
			}
		}
		switch c.dest {
		case "fresh":
			return append([]string{fmt.Sprintf("%s, %s := %s", d, ok, op)}, both(d, ok)...)
		case "vardecl":
			return append([]string{fmt.Sprintf("var %s, %s = %s", d, ok, op)}, both(d, ok)...)
		case "exist":
			return append([]string{fmt.Sprintf("var %s %s = %s", d, T, k.vals[1].src), fmt.Sprintf("%s := true", ok), fmt.Sprintf("%s, %s = %s", d, ok, op)}, both(d, ok)...)
		case "outer":
			return append([]string{fmt.Sprintf("d, ok = %s", op)}, both("d", "ok")...)
		case "field":
			return append([]string{fmt.Sprintf("st.F, st.OK = %s", op)}, both("st.F", "st.OK")...)
		case "elem":
			return append([]string{fmt.Sprintf("ds[1], oks[1] = %s", op)}, both("ds[1]", "oks[1]")...)
		case "mapelem":
			return append([]string{fmt.Sprintf("dm[\"d\"], ok = %s", op)}, both(`dm["d"]`, "ok")...)
		case "blankv":
			return append([]string{fmt.Sprintf("_, %s := %s", ok, op)}, both("", ok)...)
		case "blankok":
			return append([]string{fmt.Sprintf("%s, _ := %s", d, op)}, both(d, "")...)
		case "ifinit":
			return []string{fmt.Sprintf("if d, ok := %s; ok { %s } else { %s }", op, pr("d", "ok", ""), pr("d", "ok", ""))}
		case "ptr":
			return append([]string{fmt.Sprintf("*pd, ok = %s", op)}, both("*pd", "ok")...)
		case "global":
			return append([]string{fmt.Sprintf("Pq_gd%d, Pq_gok%d = %s", id, id, op)}, both(fmt.Sprintf("Pq_gd%d", id), fmt.Sprintf("Pq_gok%d", id))...)
		case "captured":
			return append([]string{fmt.Sprintf("func() { d, ok = %s }()", op)}, both("d", "ok")...)
		case "plain":
			return append([]string{fmt.Sprintf("%s := %s", d, op)}, both(d, "")...)
		case "plainexist":
			return append([]string{fmt.Sprintf("d = %s", op)}, both("d", "")...)
		}
		return nil
	}

	// ---- destination variables declared once
	noOK := c.form == "rangeassign" || c.dest == "plainexist"
	switch c.dest {
	case "outer", "captured", "plainexist":
		outer = append(outer, fmt.Sprintf("var d %s", T))
		if !noOK {
			outer = append(outer, "var ok bool")
		}
	case "field":
		outer = append(outer, fmt.Sprintf("var st struct {\n\t\tF  %s\n\t\tOK bool\n\t}", T))
	case "elem":
		outer = append(outer, fmt.Sprintf("ds := make([]%s, 2)", T))
		if !noOK {
			outer = append(outer, "oks := make([]bool, 2)")
		}
	case "mapelem":
		outer = append(outer, fmt.Sprintf("dm := map[string]%s{}", T), "var ok bool")
	case "ptr":
		outer = append(outer, fmt.Sprintf("pd := new(%s)", T), "var ok bool")
	case "global":
		top = append(top, fmt.Sprintf("var Pq_gd%d %s", id, T))
		if !noOK {
			top = append(top, fmt.Sprintf("var Pq_gok%d bool", id))
		}
	}

	// ---- the context
	var body []string
	ind := func(ls []string, tabs string) []string {
		var out []string
		for _, l := range ls {
			out = append(out, tabs+l)
		}
		return out
	}
	chOf := func(i string) string {
		if chanDirect != nil {
			return chanDirect(i)
		}
		return ""
	}
	switch c.ctx {
	case "loop":
		body = append(body, pre...)
		body = append(body, outer...)
		body = append(body, fmt.Sprintf("for i := 0; i < %d; i++ {", n))
		body = append(body, ind(site(direct("i"), chOf("i"), "i", ""), "\t")...)
		body = append(body, "}")
	case "range":
		body = append(body, pre...)
		body = append(body, outer...)
		body = append(body, fmt.Sprintf("for i := range make([]int, %d) {", n))
		body = append(body, ind(site(direct("i"), chOf("i"), "i", ""), "\t")...)
		body = append(body, "}")
	case "rangeval":
		head, op, ch := rangeValHead()
		body = append(body, pre...)
		body = append(body, outer...)
		body = append(body, head+" {")
		body = append(body, ind(site(op, ch, "i", ""), "\t")...)
		body = append(body, "}")
	case "closure":
		body = append(body, pre...)
		body = append(body, outer...)
		body = append(body, fmt.Sprintf("f := func(i int, %s) {", params))
		body = append(body, ind(site(opParam, chanParam, "i", ""), "\t")...)
		body = append(body, "}")
		for i := 0; i < n; i++ {
			body = append(body, fmt.Sprintf("f(%d, %s)", i, args(fmt.Sprint(i))))
		}
	case "topfunc":
		var fb []string
		fb = append(fb, fmt.Sprintf("func Pq_f%d(i int, %s) {", id, params))
		fb = append(fb, ind(outer, "\t")...)
		fb = append(fb, ind(site(opParam, chanParam, "i", ""), "\t")...)
		fb = append(fb, "}")
		top = append(top, strings.Join(fb, "\n"))
		body = append(body, pre...)
		for i := 0; i < n; i++ {
			body = append(body, fmt.Sprintf("Pq_f%d(%d, %s)", id, i, args(fmt.Sprint(i))))
		}
	case "unrolled":
		body = append(body, pre...)
		body = append(body, outer...)
		for i := 0; i < n; i++ {
			body = append(body, "{")
			body = append(body, ind(site(direct(fmt.Sprint(i)), chOf(fmt.Sprint(i)), fmt.Sprint(i), ""), "\t")...)
			body = append(body, "}")
		}
	case "seq":
		body = append(body, pre...)
		body = append(body, outer...)
		for i := 0; i < n; i++ {
			body = append(body, site(direct(fmt.Sprint(i)), chOf(fmt.Sprint(i)), fmt.Sprint(i), fmt.Sprint(i))...)
		}
		body = append(body, again...)
	}
	var b strings.Builder
	for _, t := range top {
		b.WriteString(t + "\n\n")
	}
	fmt.Fprintf(&b, "func Pq_c%d() {\n", id)
	for _, l := range body {
		b.WriteString("\t" + strings.ReplaceAll(l, "\n", "\n\t") + "\n")
	}
	b.WriteString("}\n")
	return b.String()
}

// cokProgram: a complete program running the given cases, each under a recover
func cokProgram(cases []*cokCase) string {
	var b strings.Builder
	b.WriteString("package main\n\n")
	var fns strings.Builder
	for _, c := range cases {
		fns.WriteString(c.funcText() + "\n")
	}
	// the shared declarations the cases refer to (directly or through another declaration)
	chunks := strings.Split(strings.TrimSpace(cokDecls), "\n\n")
	used := make([]bool, len(chunks))
	text := fns.String()
	for changed := true; changed; {
		changed = false
		for i, ch := range chunks {
			if used[i] {
				continue
			}
			head := strings.Fields(strings.NewReplacer(",", " ", "(", " ").Replace(ch))
			for _, name := range head[1:] {
				if !strings.HasPrefix(name, "Pq_") {
					break
				}
				if strings.Contains(text, name) {
					used[i], changed = true, true
					text += ch
					break
				}
			}
		}
	}
	for i, ch := range chunks {
		if used[i] {
			b.WriteString(ch + "\n\n")
		}
	}
	b.WriteString(fns.String())
	b.WriteString("func Pq_run(id int, f func()) {\n\tdefer func() {\n\t\tif r := recover(); r != nil {\n\t\t\tif e, ok := r.(error); ok {\n\t\t\t\tprintln(\"P\", id, e.Error())\n\t\t\t} else {\n\t\t\t\tprintln(\"P\", id, \"not-an-error\")\n\t\t\t}\n\t\t}\n\t}()\n\tf()\n}\n\n")
	const groupSize = 100
	ngroups := (len(cases) + groupSize - 1) / groupSize
	for g := 0; g < ngroups; g++ {
		fmt.Fprintf(&b, "func Pq_group%d() {\n", g)
		for i := g * groupSize; i < len(cases) && i < (g+1)*groupSize; i++ {
			fmt.Fprintf(&b, "\tPq_run(%d, Pq_c%d)\n", cases[i].id, cases[i].id)
		}
		b.WriteString("}\n\n")
	}
	b.WriteString("func main() {\n")
	for g := 0; g < ngroups; g++ {
		fmt.Fprintf(&b, "\tPq_group%d()\n", g)
	}
	b.WriteString("}\n")
	return b.String()
}

// lineTranscript: the lines every case printed ("C <id> …" → "…"; a panic that left the case is
// "(panic) message"), and what went wrong with the program as a whole.
type lineTranscript struct {
	outs  map[int][]string
	whole string
}

func parseLineTranscript(text string) lineTranscript {
	t := lineTranscript{outs: map[int][]string{}}
	for _, line := range strings.Split(text, "\n") {
		if strings.HasPrefix(line, "===") {
			if t.whole == "" {
				t.whole = line
			}
			continue
		}
		if !strings.HasPrefix(line, "C ") && !strings.HasPrefix(line, "P ") {
			if strings.TrimSpace(line) != "" {
				t.outs[-1] = append(t.outs[-1], line)
			}
			continue
		}
		var id int
		rest := line[2:]
		sp := strings.IndexByte(rest, ' ')
		if sp < 0 {
			sp = len(rest)
		}
		if _, err := fmt.Sscan(rest[:sp], &id); err != nil {
			continue
		}
		rest = strings.TrimPrefix(rest[sp:], " ")
		if line[0] == 'P' {
			rest = "(panic) " + rest
		}
		t.outs[id] = append(t.outs[id], rest)
	}
	return t
}

func sameLines(a, b []string) bool { return strings.Join(a, "\n") == strings.Join(b, "\n") }

// ---------------------------------------------------------------- generation

// randomInputs: 2–5 executions with at least one success directly followed by a failure
func cokInputs(r *proto.Rand, form string, k *cokKind, pattern int) []cokIn {
	fails := cokFails(form, k)
	succ := func() cokIn {
		p := r.Intn(len(k.vals))
		if (form == "assert" || form == "tswitch") && k.rkind == "interface" && p == 0 {
			p = 1 // a nil interface does not hold an interface{}
		}
		if r.Intn(4) != 0 && p == 0 && len(k.vals) > 1 {
			p = 1 + r.Intn(len(k.vals)-1)
		}
		return cokIn{succ: true, p: p}
	}
	nz := func() cokIn {
		p := 1
		if len(k.vals) > 2 {
			p = 1 + r.Intn(len(k.vals)-1)
		}
		return cokIn{succ: true, p: p}
	}
	fail := func() cokIn { return cokIn{fail: fails[r.Intn(len(fails))]} }
	switch pattern {
	case 0: // success, failure
		return []cokIn{nz(), fail()}
	case 1: // failure, success, failure
		return []cokIn{fail(), nz(), fail()}
	case 2: // success, failure, failure, success, failure
		return []cokIn{nz(), fail(), fail(), succ(), fail()}
	}
	n := 2 + r.Intn(4)
	ins := make([]cokIn, n)
	for i := range ins {
		if r.Bool() {
			ins[i] = succ()
		} else {
			ins[i] = fail()
		}
	}
	j := r.Intn(n - 1)
	ins[j], ins[j+1] = nz(), fail()
	return ins
}

// cokMatrix: every form × kind × context with new variables as destination and a
// success-then-failure pattern, then `extra` random points of the whole space.
func cokGenerate(r *proto.Rand, avoid map[string]bool, destEvery int, extra int, firstID int) []*cokCase {
	kinds := cokKinds
	var out []*cokCase
	id := firstID
	add := func(c *cokCase) bool {
		if !c.valid() || c.avoided(avoid) {
			return false
		}
		c.id = id
		id++
		out = append(out, c)
		return true
	}
	for _, form := range cokForms {
		for _, k := range kinds {
			for ci, ctx := range cokCtxs {
				dest := "fresh"
				if form == "rangeassign" {
					dest = "outer"
				}
				c := &cokCase{form: form, kind: k, ctx: ctx, dest: dest, keyInt: r.Intn(3) == 0, deflt: r.Bool(), swap: r.Bool()}
				c.inputs = cokInputs(r, form, k, ci%3)
				add(c)
			}
		}
	}
	// every form × destination × kind once (one in `destEvery` of them), in a random context
	for _, form := range cokForms {
		for _, dest := range cokDests {
			for _, k := range kinds {
				if destEvery > 1 && r.Intn(destEvery) != 0 {
					continue
				}
				for try := 0; try < 6; try++ {
					c := &cokCase{form: form, kind: k, ctx: cokCtxs[r.Intn(len(cokCtxs))], dest: dest, keyInt: r.Intn(3) == 0, deflt: r.Bool(), swap: r.Bool()}
					c.inputs = cokInputs(r, form, k, r.Intn(5))
					if add(c) {
						break
					}
				}
			}
		}
	}
	for n := 0; n < extra; {
		c := &cokCase{form: cokForms[r.Intn(len(cokForms))], kind: kinds[r.Intn(len(kinds))], ctx: cokCtxs[r.Intn(len(cokCtxs))], dest: cokDests[r.Intn(len(cokDests))],
			keyInt: r.Intn(3) == 0, deflt: r.Bool(), swap: r.Bool()}
		c.inputs = cokInputs(r, c.form, c.kind, 3)
		if add(c) {
			n++
		}
	}
	return out
}

// ---------------------------------------------------------------- the run

// commaokStream: the matrix plus `extra` random cases; gc, the generator's expectation, the Lean
// model (spec and VM model) as oracles.
func commaokStream(c *hx.Ctx, destEvery, extra, shrinkBudget int) error {
	res := c.Res
	avoid := map[string]bool{}
	for _, f := range c.Findings {
		for _, feat := range findingFeatures[f.ID] {
			avoid[feat] = true
		}
	}
	cases := cokGenerate(c.R, avoid, destEvery, extra, 0)
	src := cokProgram(cases)
	if structDevDump([]string{src}) {
		return nil
	}
	gcOut, err := runGCPrograms([]*program{rawProgram(src)})
	if err != nil {
		res.AddBreak(proto.Break{Kind: "correspondence", Name: "generated-commaok-programs-compile-with-gc", Case: "go run", Impl: err.Error(), Model: "every generated program is valid Go"})
		return nil
	}
	res.SpecChecks["go-run-invocations"]++
	gct := parseLineTranscript(gcOut[0])
	run := func(cs []*cokCase) lineTranscript {
		sc, err := runScriggoPrograms([]*program{rawProgram(cokProgram(cs))})
		if err != nil {
			return lineTranscript{outs: map[int][]string{}, whole: "=== HARNESS " + err.Error()}
		}
		return parseLineTranscript(sc[0])
	}
	sct := run(cases)

	// the Lean model: `ok <spec> ; <vm>` with one `<payload>:<ok>` per execution
	specOf, vmOf := map[int][]string{}, map[int][]string{}
	if c.D != nil {
		var lines []string
		var ids []*cokCase
		for _, cs := range cases {
			if cs.inModel() {
				lines = append(lines, cs.modelLine())
				ids = append(ids, cs)
			}
		}
		ans, err := c.D.Batch(lines)
		if err != nil {
			return err
		}
		for i, a := range ans {
			parts := strings.Split(a, " ; ")
			if len(parts) != 2 || !strings.HasPrefix(parts[0], "ok ") {
				res.AddBreak(proto.Break{Kind: "correspondence", Name: "generated-commaok-case-in-model", Case: lines[i], Human: ids[i].String(), Model: a})
				continue
			}
			specOf[ids[i].id] = ids[i].linesOfModel(strings.Fields(strings.TrimPrefix(parts[0], "ok ")))
			vmOf[ids[i].id] = ids[i].linesOfModel(strings.Fields(parts[1]))
		}
	}
	reported := 0
	for _, cs := range cases {
		res.Count(fmt.Sprintf("cok %s %s %s %s %v", cs.form, cs.kind.name, cs.ctx, cs.dest, cs.inputs), true)
		res.Hist("cok-form-" + cs.form)
		res.Hist("cok-ctx-" + cs.ctx)
		res.Hist("cok-dest-" + cs.dest)
		res.Hist("cok-bank-" + cs.kind.rkind)
		want := cs.expect()
		want = cs.canon(want)
		// the generator's expectation (and the Lean specification) against gc: the SPECIFICATION side
		res.SpecChecks["commaok-expectation-vs-gc"]++
		if !sameLines(want, gct.outs[cs.id]) {
			res.AddBreak(proto.Break{Kind: "correspondence", Name: "commaok-expectation-vs-gc", Case: cokProgram([]*cokCase{cs}), Human: cs.String(), Impl: "gc: " + strings.Join(gct.outs[cs.id], " | "), Model: strings.Join(want, " | ")})
			continue
		}
		if spec, ok := specOf[cs.id]; ok {
			res.SpecChecks["commaok-gc-vs-lean-spec"]++
			if !sameLines(cs.canon(spec), want) {
				res.AddBreak(proto.Break{Kind: "correspondence", Name: "commaok-lean-spec-vs-gc", Case: cs.modelLine(), Human: cs.String(), Impl: "gc: " + strings.Join(want, " | "), Model: strings.Join(spec, " | ")})
				continue
			}
		}
		got, whole := sct.outs[cs.id], sct.whole
		if whole != "" {
			t := run([]*cokCase{cs})
			got, whole = t.outs[cs.id], t.whole
		}
		res.SpecChecks["commaok-scriggo-vs-gc"]++
		if cs.id%211 == 0 {
			res.Sample(map[string]string{"case": cs.String(), "function": cs.funcText(), "gc": strings.Join(want, " | "), "scriggo": strings.Join(got, " | ")})
		}
		if vm, ok := vmOf[cs.id]; ok && whole == "" && cs.vmComparable() {
			// the VM model (regenerated destination code on a register file kept between the
			// executions) against the real VM
			if !sameLines(cs.canon(vm), got) {
				res.AddBreak(proto.Break{Kind: "correspondence", Name: "commaok-vm-model-vs-scriggo", Case: cs.modelLine(), Human: cs.String() + "\n" + cs.funcText(), Impl: strings.Join(got, " | "), Model: strings.Join(vm, " | ")})
			}
		}
		if whole == "" && sameLines(got, want) {
			continue
		}
		res.Hist("cok-differs")
		if dump := os.Getenv("C01_DEV_DIFFS"); dump != "" {
			fh, _ := os.OpenFile(dump, os.O_APPEND|os.O_CREATE|os.O_WRONLY, 0o644)
			fmt.Fprintf(fh, "######## %s\n%s---- scriggo %s\n%s\n---- gc\n%s\n", cs.String(), cs.funcText(), whole, strings.Join(got, "\n"), strings.Join(want, "\n"))
			fh.Close()
			continue
		}
		if reported >= 3 {
			continue
		}
		reported++
		failing := func(cand *cokCase) bool {
			t := run([]*cokCase{cand})
			return t.whole != "" || !sameLines(t.outs[cand.id], cand.canon(cand.expect()))
		}
		min := cokShrink(cs, failing, shrinkBudget)
		t := run([]*cokCase{min})
		impl := strings.Join(t.outs[min.id], " | ")
		if t.whole != "" {
			impl = t.whole + " " + impl
		}
		msrc := cokProgram([]*cokCase{min})
		model := "expected: " + strings.Join(min.canon(min.expect()), " | ")
		if g1, err := runGCPrograms([]*program{rawProgram(msrc)}); err == nil {
			model += "; gc: " + strings.Join(parseLineTranscript(g1[0]).outs[min.id], " | ")
		}
		res.AddBreak(proto.Break{Kind: "property", Name: "zero-value-on-failing-path", Case: msrc, Human: "stream 8: " + min.String() + "\n" + min.funcText(), Impl: impl, Model: model})
	}
	if os.Getenv("C01_DEV_COMMAOK") != "" {
		fmt.Fprintf(os.Stderr, "commaok stream: %d cases\n", len(cases))
	}
	return nil
}

// canon: the transcript lines as compared (identity; kept as the single place to normalise)
func (c *cokCase) canon(lines []string) []string { return lines }

// vmComparable: the VM model describes the value the destination REGISTER gets; every destination
// of an in-model form reads it back unchanged
func (c *cokCase) vmComparable() bool { return c.ctx != "seq" }

// linesOfModel: the model's `<payload>:<ok>` per execution as transcript lines of this case
func (c *cokCase) linesOfModel(toks []string) []string {
	var out []string
	for i, t := range toks {
		var p int
		var ok bool
		parts := strings.Split(t, ":")
		if len(parts) != 2 {
			return []string{"unparsable model answer " + t}
		}
		fmt.Sscan(parts[0], &p)
		ok = parts[1] == "true"
		if p < 0 || p >= len(c.kind.vals) {
			return []string{"model payload out of range " + t}
		}
		ps := []string{fmt.Sprint(i)}
		if c.dest != "blankv" {
			ps = append(ps, c.kind.vals[p].printed)
		}
		if c.dest != "blankok" && c.dest != "plain" && c.dest != "plainexist" {
			ps = append(ps, fmt.Sprint(ok))
		}
		out = append(out, strings.Join(ps, " "))
	}
	if c.ctx == "seq" && c.dest != "ifinit" {
		for _, l := range append([]string(nil), out...) {
			out = append(out, "again "+l) // everything is read again at the end
		}
	}
	return out
}

// cokShrink: fewer executions, then the plainest context and destination, while still failing
func cokShrink(c *cokCase, failing func(*cokCase) bool, budget int) *cokCase {
	cur := c
	try := func(cand *cokCase) bool {
		if budget <= 0 || !cand.valid() || len(cand.inputs) == 0 {
			return false
		}
		budget--
		if failing(cand) {
			cur = cand
			return true
		}
		return false
	}
	for progress := true; progress; {
		progress = false
		for i := len(cur.inputs) - 1; i >= 0 && len(cur.inputs) > 1; i-- {
			cand := *cur
			cand.inputs = append(append([]cokIn(nil), cur.inputs[:i]...), cur.inputs[i+1:]...)
			if try(&cand) {
				progress = true
				break
			}
		}
	}
	if cur.ctx != "loop" {
		cand := *cur
		cand.ctx = "loop"
		if !try(&cand) && cur.ctx != "unrolled" {
			cand := *cur
			cand.ctx = "unrolled"
			try(&cand)
		}
	}
	if cur.dest != "fresh" {
		cand := *cur
		cand.dest = "fresh"
		if !try(&cand) && cur.dest != "outer" {
			cand := *cur
			cand.dest = "outer"
			try(&cand)
		}
	}
	return cur
}
