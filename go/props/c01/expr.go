package main

import (
	"fmt"
	"math/big"
	"strings"

	"verifharness/internal/proto"
)

// The typed integer expression language of lean/ScriggoV/Model/Eval.lean, on the Go side:
// generation, printing as Go source, printing as protocol tokens.

type kind struct {
	name   string
	bits   int
	signed bool
}

var kinds = []kind{
	{"int", 64, true}, {"int8", 8, true}, {"int16", 16, true}, {"int32", 32, true}, {"int64", 64, true},
	{"uint", 64, false}, {"uint8", 8, false}, {"uint16", 16, false}, {"uint32", 32, false}, {"uint64", 64, false},
	{"uintptr", 64, false},
}

func kindByName(s string) (kind, bool) {
	for _, k := range kinds {
		if k.name == s {
			return k, true
		}
	}
	return kind{}, false
}

func (k kind) min() *big.Int {
	if !k.signed {
		return big.NewInt(0)
	}
	return new(big.Int).Neg(new(big.Int).Lsh(big.NewInt(1), uint(k.bits-1)))
}

func (k kind) max() *big.Int {
	b := k.bits
	if k.signed {
		b--
	}
	return new(big.Int).Sub(new(big.Int).Lsh(big.NewInt(1), uint(b)), big.NewInt(1))
}

func (k kind) inRange(z *big.Int) bool { return z.Cmp(k.min()) >= 0 && z.Cmp(k.max()) <= 0 }

// wrapTo is only used by the generator to make interesting in-range operands.
func (k kind) wrapTo(z *big.Int) *big.Int {
	m := new(big.Int).Lsh(big.NewInt(1), uint(k.bits))
	r := new(big.Int).Mod(z, m)
	if k.signed && r.Cmp(k.max()) > 0 {
		r.Sub(r, m)
	}
	return r
}

// boundary-rich values of a kind
func (k kind) boundaries() []*big.Int {
	var out []*big.Int
	add := func(z *big.Int) {
		if k.inRange(z) {
			for _, o := range out {
				if o.Cmp(z) == 0 {
					return
				}
			}
			out = append(out, z)
		}
	}
	for _, d := range []int64{0, 1, 2, 3, 7, -1, -2, -3} {
		add(big.NewInt(d))
		add(new(big.Int).Add(k.min(), big.NewInt(d)))
		add(new(big.Int).Add(k.max(), big.NewInt(d)))
	}
	for _, sh := range []uint{7, 8, 15, 16, 31, 32, 62, 63} {
		p := new(big.Int).Lsh(big.NewInt(1), sh)
		for _, d := range []int64{-1, 0, 1} {
			add(new(big.Int).Add(p, big.NewInt(d)))
			add(new(big.Int).Neg(new(big.Int).Add(p, big.NewInt(d))))
		}
	}
	return out
}

func (k kind) random(r *proto.Rand) *big.Int {
	switch r.Intn(4) {
	case 0:
		b := k.boundaries()
		return b[r.Intn(len(b))]
	case 1:
		return k.wrapTo(big.NewInt(int64(r.Intn(41)) - 20))
	default:
		z := new(big.Int).SetUint64(r.U64())
		z.Rsh(z, uint(r.Intn(64)))
		return k.wrapTo(z)
	}
}

type node struct {
	op   string // lit var un bin sh cmp conv
	sub  string // operator name for un/bin/sh/cmp
	k    kind   // lit, var, conv: the kind
	z    *big.Int
	idx  int
	a, b *node
}

var binOps = []string{"add", "sub", "mul", "div", "rem", "and", "or", "xor", "andnot"}
var binGo = map[string]string{"add": "+", "sub": "-", "mul": "*", "div": "/", "rem": "%", "and": "&", "or": "|", "xor": "^", "andnot": "&^"}
var shOps = []string{"shl", "shr"}
var shGo = map[string]string{"shl": "<<", "shr": ">>"}
var unOps = []string{"neg", "not", "plus"}
var unGo = map[string]string{"neg": "-", "not": "^", "plus": "+"}
var cmpOps = []string{"eq", "ne", "lt", "le", "gt", "ge"}
var cmpGo = map[string]string{"eq": "==", "ne": "!=", "lt": "<", "le": "<=", "gt": ">", "ge": ">="}

// resultKind is the static type of an integer-valued tree ("bool" for comparisons).
func (n *node) resultKind() (kind, bool) {
	switch n.op {
	case "lit", "var", "conv":
		return n.k, true
	case "un":
		return n.a.resultKind()
	case "bin", "sh":
		return n.a.resultKind()
	}
	return kind{}, false
}

// isConst: Go folds such trees at compile time (never generated as operands of an operator
// together with another constant)
func (n *node) isConst() bool {
	switch n.op {
	case "lit":
		return true
	case "var":
		return false
	case "un", "conv":
		return n.a.isConst()
	default:
		return n.a.isConst() && n.b.isConst()
	}
}

func (n *node) tokens(b *strings.Builder) {
	switch n.op {
	case "lit":
		fmt.Fprintf(b, " lit %s %s", n.k.name, n.z)
	case "var":
		fmt.Fprintf(b, " var %s %d", n.k.name, n.idx)
	case "un":
		fmt.Fprintf(b, " un %s", n.sub)
		n.a.tokens(b)
	case "conv":
		fmt.Fprintf(b, " conv %s", n.k.name)
		n.a.tokens(b)
	case "str":
		b.WriteString(" str")
		n.a.tokens(b)
	default:
		fmt.Fprintf(b, " %s %s", n.op, n.sub)
		n.a.tokens(b)
		n.b.tokens(b)
	}
}

// goSrc prints the tree as a fully parenthesised Go expression over the variables v0, v1, ….
func (n *node) goSrc(b *strings.Builder) {
	switch n.op {
	case "lit":
		// a typed constant: T(c)
		fmt.Fprintf(b, "%s(%s)", n.k.name, n.z)
	case "var":
		fmt.Fprintf(b, "v%d", n.idx)
	case "un":
		b.WriteString("(" + unGo[n.sub])
		n.a.goSrc(b)
		b.WriteString(")")
	case "conv":
		b.WriteString(n.k.name + "(")
		n.a.goSrc(b)
		b.WriteString(")")
	case "str":
		b.WriteString("string(")
		n.a.goSrc(b)
		b.WriteString(")")
	case "bin":
		b.WriteString("(")
		n.a.goSrc(b)
		b.WriteString(" " + binGo[n.sub] + " ")
		n.b.goSrc(b)
		b.WriteString(")")
	case "sh":
		b.WriteString("(")
		n.a.goSrc(b)
		b.WriteString(" " + shGo[n.sub] + " ")
		n.b.goSrc(b)
		b.WriteString(")")
	case "cmp":
		b.WriteString("(")
		n.a.goSrc(b)
		b.WriteString(" " + cmpGo[n.sub] + " ")
		n.b.goSrc(b)
		b.WriteString(")")
	}
}

func (n *node) size() int {
	s := 1
	if n.a != nil {
		s += n.a.size()
	}
	if n.b != nil {
		s += n.b.size()
	}
	return s
}

func (n *node) walk(f func(*node)) {
	f(n)
	if n.a != nil {
		n.a.walk(f)
	}
	if n.b != nil {
		n.b.walk(f)
	}
}

// a test case: a tree and its variables
type variable struct {
	k     kind
	z     *big.Int
	place int // 0 local variable, 1 parameter, 2 package-level variable
}

type tcase struct {
	tree   *node
	vars   []variable
	tag    string // which stream produced it
	opLine string // for cases the Lean evaluator has no tree for (string results): the driver request
}

// modelAnswer turns the driver's answer to line() into an eval-style outcome.
func (c *tcase) modelAnswer(ans string) string {
	if c.opLine == "" {
		return ans
	}
	f := strings.Fields(ans) // ok <vm hex> <spec hex>
	if len(f) != 3 || f[0] != "ok" {
		return ans
	}
	return "ok string " + f[2]
}

func (c *tcase) line() string {
	if c.opLine != "" {
		return c.opLine
	}
	var b strings.Builder
	fmt.Fprintf(&b, "C01 eval %d", len(c.vars))
	for _, v := range c.vars {
		b.WriteString(" " + v.z.String())
	}
	c.tree.tokens(&b)
	return b.String()
}

func (c *tcase) human() string {
	var b strings.Builder
	for i, v := range c.vars {
		fmt.Fprintf(&b, "var v%d %s = %s; ", i, v.k.name, v.z)
	}
	b.WriteString("println(")
	c.tree.goSrc(&b)
	b.WriteString(")")
	return b.String()
}

func (c *tcase) clone() *tcase {
	var cp func(n *node) *node
	cp = func(n *node) *node {
		if n == nil {
			return nil
		}
		m := *n
		m.a, m.b = cp(n.a), cp(n.b)
		return &m
	}
	return &tcase{tree: cp(c.tree), vars: append([]variable(nil), c.vars...), tag: c.tag, opLine: c.opLine}
}

// normalise renumbers the variables actually used (Go rejects unused variables).
func (c *tcase) normalise() {
	used := map[int]int{}
	var vars []variable
	c.tree.walk(func(n *node) {
		if n.op == "var" {
			if _, ok := used[n.idx]; !ok {
				used[n.idx] = len(vars)
				vars = append(vars, c.vars[n.idx])
			}
		}
	})
	c.tree.walk(func(n *node) {
		if n.op == "var" {
			n.idx = used[n.idx]
		}
	})
	c.vars = vars
}

// ---------------------------------------------------------------- generation

type gen struct {
	r    *proto.Rand
	vars []variable
	// feature switches: constructs that hit a recorded, still open finding are generated only
	// in their own stream
	negCounts  bool
	uintptrNot bool
}

func (g *gen) newVar(k kind, z *big.Int) *node {
	g.vars = append(g.vars, variable{k: k, z: z, place: g.r.Intn(3)})
	return &node{op: "var", k: k, idx: len(g.vars) - 1}
}

func (g *gen) leaf(k kind, allowConst bool) *node {
	if allowConst && g.r.Intn(4) == 0 {
		return &node{op: "lit", k: k, z: k.random(g.r)}
	}
	if len(g.vars) > 0 && g.r.Intn(3) == 0 {
		// reuse a variable of this kind
		var same []int
		for i, v := range g.vars {
			if v.k == k {
				same = append(same, i)
			}
		}
		if len(same) > 0 {
			return &node{op: "var", k: k, idx: same[g.r.Intn(len(same))]}
		}
	}
	return g.newVar(k, k.random(g.r))
}

// count generates a shift count expression: small, around the width, huge, (negative)
func (g *gen) count(depth int, width int) *node {
	kc := kinds[g.r.Intn(len(kinds))]
	var z *big.Int
	switch g.r.Intn(8) {
	case 0, 1, 2:
		z = big.NewInt(int64(g.r.Intn(width + 1)))
	case 3:
		z = big.NewInt(int64(width - 2 + g.r.Intn(5)))
	case 4:
		z = big.NewInt(int64(g.r.Intn(130)))
	case 5:
		z = kc.max()
	case 6:
		z = kc.random(g.r)
		if z.Sign() < 0 {
			z.Neg(z)
		}
	default:
		if g.negCounts && kc.signed {
			z = big.NewInt(-int64(1 + g.r.Intn(70)))
		} else {
			z = big.NewInt(int64(g.r.Intn(9)))
		}
	}
	z = new(big.Int).Set(z)
	if !kc.inRange(z) {
		z = kc.max()
	}
	if !g.negCounts && z.Sign() < 0 {
		z.Neg(z)
		if !kc.inRange(z) {
			z = kc.max()
		}
	}
	if g.r.Intn(5) == 0 && z.Sign() >= 0 {
		return &node{op: "lit", k: kc, z: z} // constant count (must not be negative: compile error)
	}
	if depth > 0 && g.r.Intn(6) == 0 && !g.negCounts {
		// a computed count, kept non-negative by masking: (e & 63)
		e := g.expr(kc, depth-1)
		return &node{op: "bin", sub: "and", a: e, b: &node{op: "lit", k: kc, z: big.NewInt(63)}}
	}
	return g.newVar(kc, z)
}

// expr generates an integer-valued tree of kind k.
func (g *gen) expr(k kind, depth int) *node {
	if depth <= 0 || g.r.Intn(6) == 0 {
		return g.leaf(k, false)
	}
	switch c := g.r.Intn(20); {
	case c < 9: // binary
		op := binOps[g.r.Intn(len(binOps))]
		a := g.expr(k, depth-1)
		var b *node
		if g.r.Intn(4) == 0 {
			b = g.leaf(k, true)
		} else {
			b = g.expr(k, depth-1)
		}
		if a.isConst() && b.isConst() {
			b = g.newVar(k, k.random(g.r))
		}
		if (op == "div" || op == "rem") && b.op == "lit" && b.z.Sign() == 0 {
			b = g.newVar(k, big.NewInt(0)) // constant zero divisor is a compile error; a variable is a panic
		}
		if g.r.Intn(6) == 0 && !b.isConst() {
			a, b = b, a
			if (op == "div" || op == "rem") && b.op == "lit" && b.z.Sign() == 0 {
				a, b = b, a
			}
		}
		return &node{op: "bin", sub: op, a: a, b: b}
	case c < 12: // shift
		a := g.expr(k, depth-1)
		n := g.count(depth-1, k.bits)
		return &node{op: "sh", sub: shOps[g.r.Intn(2)], a: a, b: n}
	case c < 15: // unary
		op := unOps[g.r.Intn(len(unOps))]
		if op == "not" && k.name == "uintptr" && !g.uintptrNot {
			op = "neg"
		}
		a := g.expr(k, depth-1)
		if a.isConst() {
			a = g.newVar(k, k.random(g.r))
		}
		return &node{op: "un", sub: op, a: a}
	default: // conversion from another kind
		src := kinds[g.r.Intn(len(kinds))]
		a := g.expr(src, depth-1)
		if a.isConst() {
			a = g.newVar(src, src.random(g.r))
		}
		return &node{op: "conv", k: k, a: a}
	}
}

func (g *gen) tree(depth int) *node {
	k := kinds[g.r.Intn(len(kinds))]
	for try := 0; try < 8; try++ {
		// the root is an operator
		if t := g.tree1(k, depth); t.op != "var" && t.op != "lit" {
			return t
		}
		g.vars = nil
	}
	return &node{op: "un", sub: "neg", a: g.newVar(k, k.random(g.r))}
}

func (g *gen) tree1(k kind, depth int) *node {
	if g.r.Intn(5) == 0 {
		a := g.expr(k, depth-1)
		b := g.expr(k, depth-1)
		if a.isConst() && b.isConst() {
			b = g.newVar(k, k.random(g.r))
		}
		return &node{op: "cmp", sub: cmpOps[g.r.Intn(len(cmpOps))], a: a, b: b}
	}
	return g.expr(k, depth)
}
