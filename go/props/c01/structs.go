package main

import (
	"fmt"
	"os"
	"strings"

	"verifharness/internal/proto"
)

// Stream 7, "struct family": struct values, embedded structs, promoted fields, selector chains.
//
// A WORLD is a small hierarchy of struct types (up to four levels; every level embeds or names
// the level below at a random field position; field names are unique in the world, so every
// promoted selector is unambiguous). A CASE is one function over parameters of these types whose
// body is a sequence of statements with selectors of different depths in different orders — each
// function has its own field-index table. Three families:
//
//   - matrix: for ordered pairs of access chains of the top type that select along one line (one
//     flattened path is a prefix of the other, or they are the same place reached by different
//     selector steps) × the role of each (read into a local, assignment, op-assignment or
//     assignment of a composite literal): two statements, then everything is printed;
//   - random: bodies of 2–7 statements of the language of lean/ScriggoV/Model/Struct.lean
//     (declarations, copies, selector chains, nested composite literals, +, ==, assignment and +=
//     and ++ through chains);
//   - roles: the same bodies with snippets the model does not have (pointer to a struct, address
//     of a field, package-level struct, closure, field of a call result, slices / maps / arrays of
//     structs, range copies, new, struct returned from a function, interface, comparison, defer,
//     function-typed fields reached through embedding, pointer fields and embedded pointers with
//     nil) — on "rich" worlds too (other integer kinds, strings, pointer and func fields).
//
// Oracles: gc on every case (one binary for everything); the Lean evaluator on the cases that are
// in the model's language ("pure" world, no snippet): printed values; and for those also the
// `Field`/`SetField` paths of the disassembled function against the model's table trace
// (compileEvents over the regenerated sameFieldIndex/makeFieldIndex) and against the paths the
// source requests.

// ---------------------------------------------------------------- types

type sType struct {
	name   string
	fields []sField
}

type sField struct {
	name     string
	st       *sType // nil: a primitive type
	ptr      bool   // *st
	embedded bool
	prim     string
}

func (f sField) typeText() string {
	if f.st != nil {
		if f.ptr {
			return "*" + f.st.name
		}
		return f.st.name
	}
	return f.prim
}

func (f sField) isFunc() bool    { return f.st == nil && strings.HasPrefix(f.prim, "func") }
func (f sField) isInt() bool     { return f.st == nil && f.prim == "int" }
func (f sField) isNumeric() bool { return f.st == nil && !f.isFunc() && f.prim != "string" }
func (f sField) isValueStruct() bool {
	return f.st != nil && !f.ptr
}

func (t *sType) decl() string {
	var b strings.Builder
	fmt.Fprintf(&b, "type %s struct {\n", t.name)
	for _, f := range t.fields {
		if f.embedded {
			fmt.Fprintf(&b, "\t%s\n", f.typeText())
		} else {
			fmt.Fprintf(&b, "\t%s %s\n", f.name, f.typeText())
		}
	}
	b.WriteString("}")
	return b.String()
}

// pure: int fields and pure structs by value only (the value language of the model)
func (t *sType) pure() bool {
	for _, f := range t.fields {
		if f.st == nil && f.prim != "int" {
			return false
		}
		if f.st != nil && (f.ptr || !f.st.pure()) {
			return false
		}
	}
	return true
}

func (t *sType) comparable() bool {
	for _, f := range t.fields {
		if f.isFunc() {
			return false
		}
		if f.isValueStruct() && !f.st.comparable() {
			return false
		}
	}
	return true
}

// sSel is one Go selector available on a struct type: a field of the type or a field promoted
// through embedded structs; path is its reflect index path.
type sSel struct {
	name   string
	path   []int
	f      sField
	viaPtr bool // the path goes through an embedded pointer
}

func cloneInts(p []int) []int { return append([]int(nil), p...) }

func (t *sType) selectors() []sSel {
	var out []sSel
	var walk func(t *sType, prefix []int, viaPtr bool)
	walk = func(t *sType, prefix []int, viaPtr bool) {
		for i, f := range t.fields {
			out = append(out, sSel{name: f.name, path: append(cloneInts(prefix), i), f: f, viaPtr: viaPtr})
		}
		for i, f := range t.fields {
			if f.embedded && f.st != nil {
				walk(f.st, append(cloneInts(prefix), i), viaPtr || f.ptr)
			}
		}
	}
	walk(t, nil, false)
	return out
}

// sChain is a chain of selectors x.a.b.c
type sChain struct{ sels []sSel }

func (c sChain) text() string {
	var b strings.Builder
	for _, s := range c.sels {
		b.WriteString("." + s.name)
	}
	return b.String()
}

func (c sChain) res() sField { return c.sels[len(c.sels)-1].f }

func (c sChain) flat() []int {
	var p []int
	for _, s := range c.sels {
		p = append(p, s.path...)
	}
	return p
}

// crossesPtr: some step dereferences a pointer (an embedded pointer, or a pointer field that is
// selected through)
func (c sChain) crossesPtr() bool {
	for i, s := range c.sels {
		if s.viaPtr || (s.f.ptr && i < len(c.sels)-1) {
			return true
		}
	}
	return false
}

// chainsOf lists the selector chains of at most maxSteps steps from a value of type t.
func chainsOf(t *sType, maxSteps int, allowPtr bool) []sChain {
	if maxSteps == 0 {
		return nil
	}
	var out []sChain
	for _, s := range t.selectors() {
		if s.viaPtr && !allowPtr {
			continue
		}
		out = append(out, sChain{[]sSel{s}})
		if s.f.st != nil && (allowPtr || !s.f.ptr) {
			for _, rest := range chainsOf(s.f.st, maxSteps-1, allowPtr) {
				out = append(out, sChain{append([]sSel{s}, rest.sels...)})
			}
		}
	}
	return out
}

func pathTokens(p []int) string {
	var b strings.Builder
	fmt.Fprintf(&b, "%d", len(p))
	for _, i := range p {
		fmt.Fprintf(&b, " %d", i)
	}
	return b.String()
}

func isPrefix(a, b []int) bool {
	if len(a) > len(b) {
		return false
	}
	for i := range a {
		if a[i] != b[i] {
			return false
		}
	}
	return true
}

// ---------------------------------------------------------------- worlds

type sWorld struct {
	types  []*sType
	top    *sType
	rich   bool
	fieldN int
	// while the finding nil-func-field-not-nil is open nothing asks whether a func field is nil
	noNilFuncTest bool
}

func genWorld(r *proto.Rand, rich bool) *sWorld {
	w := &sWorld{rich: rich}
	newT := func() *sType {
		t := &sType{name: fmt.Sprintf("Pq_T%d", len(w.types)+1)}
		w.types = append(w.types, t)
		return t
	}
	fname := func() string { w.fieldN++; return fmt.Sprintf("F%d", w.fieldN) }
	intField := func() sField {
		prim := "int"
		if rich && r.Intn(3) == 0 {
			prim = r.Pick([]string{"int8", "uint16", "int64", "string"})
		}
		return sField{name: fname(), prim: prim}
	}
	structField := func(t *sType, embedded, ptr bool) sField {
		if embedded {
			return sField{name: t.name, st: t, embedded: true, ptr: ptr}
		}
		return sField{name: fname(), st: t, ptr: ptr}
	}
	shuffle := func(fs []sField) []sField {
		for i := len(fs) - 1; i > 0; i-- {
			j := r.Intn(i + 1)
			fs[i], fs[j] = fs[j], fs[i]
		}
		return fs
	}
	leafA := newT()
	for i := 0; i < 2+r.Intn(2); i++ {
		leafA.fields = append(leafA.fields, intField())
	}
	leafB := newT()
	for i := 0; i < 1+r.Intn(2); i++ {
		leafB.fields = append(leafB.fields, intField())
	}
	if rich && r.Intn(4) > 0 {
		leafB.fields = append(leafB.fields, sField{name: fname(), prim: "func() int"})
	}
	l1 := newT()
	{
		fs := []sField{structField(leafA, r.Bool(), false), intField()}
		if r.Bool() {
			fs = append(fs, structField(leafB, r.Bool(), false))
		}
		if r.Bool() {
			fs = append(fs, intField())
		}
		l1.fields = shuffle(fs)
	}
	l2 := newT()
	{
		fs := []sField{structField(l1, r.Intn(3) > 0, false), intField()}
		if r.Bool() {
			fs = append(fs, structField(leafA, false, false))
		}
		if r.Bool() {
			fs = append(fs, intField())
		}
		if rich && r.Intn(4) > 0 {
			fs = append(fs, structField([]*sType{leafB, l1}[r.Intn(2)], false, true))
		}
		l2.fields = shuffle(fs)
	}
	w.top = l2
	if r.Bool() || (rich && r.Bool()) {
		l3 := newT()
		fs := []sField{structField(l2, r.Intn(3) > 0, false), intField()}
		if r.Intn(3) == 0 || rich {
			fs = append(fs, structField(leafB, false, false))
		}
		if rich && r.Intn(4) > 0 {
			// an embedded pointer to a type that is embedded nowhere else
			leafC := newT()
			leafC.fields = []sField{intField(), intField()}
			fs = append(fs, structField(leafC, true, true))
		}
		l3.fields = shuffle(fs)
		w.top = l3
	}
	return w
}

func (w *sWorld) pure() bool { return w.top.pure() }

// dump functions: Pq_d<type>(id, v) prints every leaf of v, depth first, as "C id …" lines
func (w *sWorld) dumpName(t *sType) string { return "Pq_d" + strings.TrimPrefix(t.name, "Pq_") }

func (w *sWorld) decls() string {
	var b strings.Builder
	for _, t := range w.types {
		b.WriteString(t.decl() + "\n\n")
	}
	for _, t := range w.types {
		fmt.Fprintf(&b, "func %s(id int, v %s) {\n", w.dumpName(t), t.name)
		var pending []string
		flush := func() {
			if len(pending) > 0 {
				fmt.Fprintf(&b, "\tprintln(\"C\", id, %s)\n", strings.Join(pending, ", "))
				pending = nil
			}
		}
		for _, f := range t.fields {
			switch {
			case f.isFunc() && w.noNilFuncTest:
			case f.isFunc():
				flush()
				fmt.Fprintf(&b, "\tif v.%s != nil {\n\t\tprintln(\"C\", id, v.%s())\n\t} else {\n\t\tprintln(\"C\", id, \"nofunc\")\n\t}\n", f.name, f.name)
			case f.st == nil:
				pending = append(pending, "v."+f.name)
			case f.ptr:
				flush()
				fmt.Fprintf(&b, "\tif v.%s != nil {\n\t\t%s(id, *v.%s)\n\t} else {\n\t\tprintln(\"C\", id, \"nil\")\n\t}\n", f.name, w.dumpName(f.st), f.name)
			default:
				flush()
				fmt.Fprintf(&b, "\t%s(id, v.%s)\n", w.dumpName(f.st), f.name)
			}
		}
		flush()
		b.WriteString("}\n\n")
	}
	return b.String()
}

// dumpLines prints the value of a Go expression whose type is described by f
func (w *sWorld) dumpLines(expr string, f sField) []string {
	switch {
	case f.isFunc() && w.noNilFuncTest:
		return []string{"_ = " + expr}
	case f.isFunc():
		return []string{fmt.Sprintf("println(\"C\", $ID, %s != nil)", expr)}
	case f.st == nil:
		return []string{fmt.Sprintf("println(\"C\", $ID, %s)", expr)}
	case f.ptr:
		return []string{fmt.Sprintf("if %s != nil { %s($ID, *%s) } else { println(\"C\", $ID, \"nil\") }", expr, w.dumpName(f.st), expr)}
	}
	return []string{fmt.Sprintf("%s($ID, %s)", w.dumpName(f.st), expr)}
}

// ---------------------------------------------------------------- values

type sVal struct {
	z  int64
	fs []*sVal // nil: an int
}

func randVal(r *proto.Rand, t *sType) *sVal {
	if t == nil {
		return &sVal{z: int64(r.Intn(109)) - 9}
	}
	v := &sVal{fs: []*sVal{}}
	for _, f := range t.fields {
		v.fs = append(v.fs, randVal(r, f.st))
	}
	return v
}

func (v *sVal) goText(t *sType) string {
	if t == nil {
		return fmt.Sprint(v.z)
	}
	var parts []string
	for i, f := range t.fields {
		parts = append(parts, v.fs[i].goText(f.st))
	}
	return t.name + "{" + strings.Join(parts, ", ") + "}"
}

func (v *sVal) tokens() string {
	if v.fs == nil {
		return fmt.Sprintf("i %d", v.z)
	}
	var b strings.Builder
	fmt.Fprintf(&b, "n %d", len(v.fs))
	for _, c := range v.fs {
		b.WriteString(" " + c.tokens())
	}
	return b.String()
}

func primLit(r *proto.Rand, prim string) string {
	switch prim {
	case "string":
		return r.Pick([]string{`"a"`, `"bc"`, `""`, `"xyz"`})
	case "int8":
		return fmt.Sprint(r.Intn(256) - 128)
	case "uint16":
		return fmt.Sprint(r.Intn(70000) % 65536)
	case "func() int":
		return fmt.Sprintf("func() int { return %d }", r.Intn(90))
	}
	return fmt.Sprint(r.Intn(109) - 9)
}

// richLit: a keyed composite literal of any world type (some fields left to their zero value)
func richLit(r *proto.Rand, t *sType, depth int) string {
	var parts []string
	for _, f := range t.fields {
		if r.Intn(5) == 0 {
			continue
		}
		switch {
		case f.st == nil:
			parts = append(parts, f.name+": "+primLit(r, f.prim))
		case f.ptr:
			if depth > 0 && r.Intn(3) > 0 {
				parts = append(parts, f.name+": &"+richLit(r, f.st, depth-1))
			}
		default:
			parts = append(parts, f.name+": "+richLit(r, f.st, depth-1))
		}
	}
	return t.name + "{" + strings.Join(parts, ", ") + "}"
}

// ---------------------------------------------------------------- expressions and statements

type sLocal struct {
	name string
	st   *sType // nil: int
	idx  int    // number in the model's environment (assigned when the case is rendered)
}

type sExpr struct {
	op    string // lit loc sel mk add eq
	z     int64
	loc   *sLocal
	a, b  *sExpr
	chain sChain
	st    *sType
	args  []*sExpr
}

func (e *sExpr) goText() string {
	switch e.op {
	case "lit":
		return fmt.Sprint(e.z)
	case "loc":
		return e.loc.name
	case "sel":
		return e.a.goText() + e.chain.text()
	case "mk":
		var parts []string
		for _, a := range e.args {
			parts = append(parts, a.goText())
		}
		return e.st.name + "{" + strings.Join(parts, ", ") + "}"
	case "add":
		return "(" + e.a.goText() + " + " + e.b.goText() + ")"
	case "eq":
		return e.a.goText() + " == " + e.b.goText()
	}
	return "?"
}

func (e *sExpr) tokens() string {
	switch e.op {
	case "lit":
		return fmt.Sprintf("lit %d", e.z)
	case "loc":
		return fmt.Sprintf("var %d", e.loc.idx)
	case "sel":
		var b strings.Builder
		for i := len(e.chain.sels) - 1; i >= 0; i-- {
			b.WriteString("sel " + pathTokens(e.chain.sels[i].path) + " ")
		}
		return b.String() + e.a.tokens()
	case "mk":
		var b strings.Builder
		fmt.Fprintf(&b, "mk %d", len(e.args))
		for _, a := range e.args {
			b.WriteString(" " + a.tokens())
		}
		return b.String()
	case "add":
		return "add " + e.a.tokens() + " " + e.b.tokens()
	case "eq":
		return "eq " + e.a.tokens() + " " + e.b.tokens()
	}
	return "?"
}

func (e *sExpr) uses(l *sLocal) bool {
	if e == nil {
		return false
	}
	if e.op == "loc" && e.loc == l {
		return true
	}
	if e.a.uses(l) || e.b.uses(l) {
		return true
	}
	for _, a := range e.args {
		if a.uses(l) {
			return true
		}
	}
	return false
}

type sStmt struct {
	op    string // decl asg opa pr dump raw
	loc   *sLocal
	chain sChain
	e     *sExpr
	inc   bool
	raw   []string // snippet statements ($ID = the case number)
	dumps []string // what the snippet prints at the end of the function
	decls []string // top-level declarations of the snippet
	role  string
}

func (s *sStmt) uses(l *sLocal) bool {
	if (s.op == "asg" || s.op == "opa" || s.op == "dump") && s.loc == l {
		return true
	}
	return s.e.uses(l)
}

type sCase struct {
	w      *sWorld
	id     int
	params []*sLocal
	args   []*sVal  // pure worlds: the argument values
	argTxt []string // rich worlds: the argument expressions
	body   []*sStmt
	tag    string
}

func (c *sCase) inModel() bool {
	if !c.w.pure() {
		return false
	}
	for _, s := range c.body {
		if s.op == "raw" {
			return false
		}
	}
	return true
}

func (c *sCase) number() {
	n := 0
	for _, p := range c.params {
		p.idx = n
		n++
	}
	for _, s := range c.body {
		if s.op == "decl" {
			s.loc.idx = n
			n++
		}
	}
}

func (c *sCase) typeOfLocal(l *sLocal) string {
	if l.st == nil {
		return "int"
	}
	return l.st.name
}

// funcText: top-level declarations of the case: snippets' declarations, the function, its wrapper
func (c *sCase) funcText() string {
	var b strings.Builder
	id := fmt.Sprint(c.id)
	sub := func(s string) string { return strings.ReplaceAll(s, "$ID", id) }
	for _, s := range c.body {
		for _, d := range s.decls {
			b.WriteString(sub(d) + "\n\n")
		}
	}
	fmt.Fprintf(&b, "func Pq_c%d(", c.id)
	for i, p := range c.params {
		if i > 0 {
			b.WriteString(", ")
		}
		fmt.Fprintf(&b, "%s %s", p.name, c.typeOfLocal(p))
	}
	b.WriteString(") {\n")
	var dumps []string
	for _, s := range c.body {
		switch s.op {
		case "decl":
			fmt.Fprintf(&b, "\t%s := %s\n", s.loc.name, s.e.goText())
		case "asg":
			fmt.Fprintf(&b, "\t%s%s = %s\n", s.loc.name, chainText(s.chain), s.e.goText())
		case "opa":
			if s.inc {
				fmt.Fprintf(&b, "\t%s%s++\n", s.loc.name, chainText(s.chain))
			} else {
				fmt.Fprintf(&b, "\t%s%s += %s\n", s.loc.name, chainText(s.chain), s.e.goText())
			}
		case "pr":
			fmt.Fprintf(&b, "\tprintln(\"C\", %d, %s)\n", c.id, s.e.goText())
		case "dump":
			if s.loc.st == nil {
				fmt.Fprintf(&b, "\tprintln(\"C\", %d, %s)\n", c.id, s.loc.name)
			} else {
				fmt.Fprintf(&b, "\t%s(%d, %s)\n", c.w.dumpName(s.loc.st), c.id, s.loc.name)
			}
		case "raw":
			for _, l := range s.raw {
				b.WriteString("\t" + sub(l) + "\n")
			}
			for _, l := range s.dumps {
				dumps = append(dumps, sub(l))
			}
		}
	}
	for _, l := range dumps {
		b.WriteString("\t" + l + "\n")
	}
	b.WriteString("}\n\n")
	fmt.Fprintf(&b, "func Pq_w%d() {\n\tdefer func() {\n\t\tif r := recover(); r != nil {\n\t\t\tif e, ok := r.(error); ok {\n\t\t\t\tprintln(\"P\", %d, e.Error())\n\t\t\t} else {\n\t\t\t\tprintln(\"P\", %d, \"not-an-error\")\n\t\t\t}\n\t\t}\n\t}()\n\tPq_c%d(", c.id, c.id, c.id, c.id)
	for i, p := range c.params {
		if i > 0 {
			b.WriteString(", ")
		}
		if c.argTxt != nil {
			b.WriteString(c.argTxt[i])
		} else {
			b.WriteString(c.args[i].goText(p.st))
		}
	}
	b.WriteString(")\n}\n")
	return b.String()
}

func chainText(c sChain) string {
	if len(c.sels) == 0 {
		return ""
	}
	return c.text()
}

// modelLine: the driver request of an in-model case
func (c *sCase) modelLine() string {
	c.number()
	var b strings.Builder
	fmt.Fprintf(&b, "C01 srun %d", len(c.params))
	for _, a := range c.args {
		b.WriteString(" " + a.tokens())
	}
	fmt.Fprintf(&b, " %d", len(c.body))
	for _, s := range c.body {
		switch s.op {
		case "decl":
			b.WriteString(" decl " + s.e.tokens())
		case "asg", "opa":
			fmt.Fprintf(&b, " %s %d %d", s.op, s.loc.idx, len(s.chain.sels))
			for _, sel := range s.chain.sels {
				b.WriteString(" " + pathTokens(sel.path))
			}
			b.WriteString(" " + s.e.tokens())
		case "pr":
			b.WriteString(" pr " + s.e.tokens())
		case "dump":
			fmt.Fprintf(&b, " dump %d", s.loc.idx)
		}
	}
	return b.String()
}

// programText: a complete program with the given cases of one world
func structProgram(w *sWorld, cases []*sCase) string {
	var b strings.Builder
	b.WriteString("package main\n\n")
	b.WriteString(w.decls())
	for _, c := range cases {
		b.WriteString(c.funcText() + "\n")
	}
	const groupSize = 100
	ngroups := (len(cases) + groupSize - 1) / groupSize
	for g := 0; g < ngroups; g++ {
		fmt.Fprintf(&b, "func Pq_group%d() {\n", g)
		for i := g * groupSize; i < len(cases) && i < (g+1)*groupSize; i++ {
			fmt.Fprintf(&b, "\tPq_w%d()\n", cases[i].id)
		}
		b.WriteString("}\n\n")
	}
	b.WriteString("func main() {\n")
	for g := 0; g < ngroups; g++ {
		fmt.Fprintf(&b, "\tPq_group%d()\n", g)
	}
	b.WriteString("}\n")
	return b.String()
}

// ---------------------------------------------------------------- case generators

type sGen struct {
	r      *proto.Rand
	w      *sWorld
	locals []*sLocal
	n      int
	avoid  map[string]bool // constructs that hit an open recorded finding (see findingFeatures)
}

func (g *sGen) fresh(base string) string { g.n++; return fmt.Sprintf("%s%d", base, g.n) }

func (g *sGen) lit() *sExpr { return &sExpr{op: "lit", z: int64(g.r.Intn(60)) - 5} }

func (g *sGen) structLocals() []*sLocal {
	var out []*sLocal
	for _, l := range g.locals {
		if l.st != nil {
			out = append(out, l)
		}
	}
	return out
}

// modelChains: chains the model has (no pointer crossed, result an int or a struct by value)
func modelChains(t *sType) []sChain {
	var out []sChain
	for _, c := range chainsOf(t, 3, false) {
		f := c.res()
		if !c.crossesPtr() && (f.isInt() || f.isValueStruct()) {
			out = append(out, c)
		}
	}
	return out
}

// chainExpr: a random selector chain on a local with a result of the wanted type (st == nil: int)
func (g *sGen) chainExpr(st *sType) *sExpr {
	type cand struct {
		l *sLocal
		c sChain
	}
	var cs []cand
	for _, l := range g.structLocals() {
		for _, c := range modelChains(l.st) {
			f := c.res()
			if (st == nil && f.isInt()) || (st != nil && f.isValueStruct() && f.st == st) {
				cs = append(cs, cand{l, c})
			}
		}
	}
	if len(cs) == 0 {
		return nil
	}
	k := cs[g.r.Intn(len(cs))]
	return &sExpr{op: "sel", a: &sExpr{op: "loc", loc: k.l}, chain: k.c}
}

func (g *sGen) intExpr(depth int) *sExpr {
	for try := 0; try < 4; try++ {
		switch g.r.Intn(6) {
		case 0:
			return g.lit()
		case 1:
			var ints []*sLocal
			for _, l := range g.locals {
				if l.st == nil {
					ints = append(ints, l)
				}
			}
			if len(ints) > 0 {
				return &sExpr{op: "loc", loc: ints[g.r.Intn(len(ints))]}
			}
		case 2, 3, 4:
			if e := g.chainExpr(nil); e != nil {
				return e
			}
		default:
			if depth > 0 {
				return &sExpr{op: "add", a: g.intExpr(depth - 1), b: g.intExpr(depth - 1)}
			}
		}
	}
	return g.lit()
}

func (g *sGen) structExpr(t *sType, depth int) *sExpr {
	for try := 0; try < 4; try++ {
		switch g.r.Intn(4) {
		case 0:
			var same []*sLocal
			for _, l := range g.locals {
				if l.st == t {
					same = append(same, l)
				}
			}
			if len(same) > 0 {
				return &sExpr{op: "loc", loc: same[g.r.Intn(len(same))]}
			}
		case 1, 2:
			if e := g.chainExpr(t); e != nil {
				return e
			}
		default:
			if t.pure() {
				return g.mk(t, depth)
			}
		}
	}
	if t.pure() {
		return g.mk(t, 0)
	}
	return nil
}

// mk: a composite literal with every field given (nested literals, chains, locals, ints)
func (g *sGen) mk(t *sType, depth int) *sExpr {
	e := &sExpr{op: "mk", st: t}
	for _, f := range t.fields {
		switch {
		case f.st == nil && depth > 0:
			e.args = append(e.args, g.intExpr(depth-1))
		case f.st == nil:
			e.args = append(e.args, g.lit())
		case depth > 0:
			e.args = append(e.args, g.structExpr(f.st, depth-1))
		default:
			e.args = append(e.args, g.mk(f.st, 0))
		}
	}
	return e
}

// stmt: one random statement of the model's language; nil when the pick is not possible
func (g *sGen) stmt() *sStmt {
	sl := g.structLocals()
	switch g.r.Intn(10) {
	case 0: // int declaration
		l := &sLocal{name: g.fresh("n")}
		s := &sStmt{op: "decl", loc: l, e: g.intExpr(2)}
		g.locals = append(g.locals, l)
		return s
	case 1, 2: // struct declaration: a part of a struct, a copy, a literal
		t := g.w.types[g.r.Intn(len(g.w.types))]
		e := g.structExpr(t, 2)
		if e == nil {
			return nil
		}
		l := &sLocal{name: g.fresh("x"), st: t}
		g.locals = append(g.locals, l)
		return &sStmt{op: "decl", loc: l, e: e}
	case 3, 4, 5: // assignment through a chain
		l := sl[g.r.Intn(len(sl))]
		cs := modelChains(l.st)
		if len(cs) == 0 {
			return nil
		}
		c := cs[g.r.Intn(len(cs))]
		var e *sExpr
		if c.res().st == nil {
			e = g.intExpr(2)
		} else {
			e = g.structExpr(c.res().st, 2)
		}
		if e == nil {
			return nil
		}
		return &sStmt{op: "asg", loc: l, chain: c, e: e}
	case 6: // assignment of a whole struct variable
		l := sl[g.r.Intn(len(sl))]
		e := g.structExpr(l.st, 2)
		if e == nil {
			return nil
		}
		return &sStmt{op: "asg", loc: l, e: e}
	case 7, 8: // += and ++ through a chain
		l := sl[g.r.Intn(len(sl))]
		var cs []sChain
		for _, c := range modelChains(l.st) {
			if c.res().isInt() {
				cs = append(cs, c)
			}
		}
		if len(cs) == 0 {
			return nil
		}
		c := cs[g.r.Intn(len(cs))]
		if g.r.Intn(3) == 0 {
			return &sStmt{op: "opa", loc: l, chain: c, e: &sExpr{op: "lit", z: 1}, inc: true}
		}
		return &sStmt{op: "opa", loc: l, chain: c, e: g.intExpr(1)}
	default: // print an int or a comparison
		if g.r.Bool() {
			return &sStmt{op: "pr", e: g.intExpr(2)}
		}
		t := g.w.types[g.r.Intn(len(g.w.types))]
		if !t.comparable() {
			return nil
		}
		a, b := g.structExpr(t, 1), g.structExpr(t, 1)
		if a == nil || b == nil {
			return nil
		}
		return &sStmt{op: "pr", e: &sExpr{op: "eq", a: a, b: b}}
	}
}

// newCase: parameters o, w of struct types (the first one of the top type) and k int
func (g *sGen) newCase(id int, tag string, sameTypes bool) *sCase {
	c := &sCase{w: g.w, id: id, tag: tag}
	g.locals, g.n = nil, 0
	t2 := g.w.top
	if !sameTypes && g.r.Intn(3) == 0 {
		t2 = g.w.types[g.r.Intn(len(g.w.types))]
	}
	for i, t := range []*sType{g.w.top, t2, nil} {
		l := &sLocal{name: []string{"o", "w", "k"}[i], st: t}
		c.params = append(c.params, l)
		g.locals = append(g.locals, l)
		if g.w.pure() {
			c.args = append(c.args, randVal(g.r, t))
		} else if t == nil {
			c.argTxt = append(c.argTxt, fmt.Sprint(g.r.Intn(40)-3))
		} else {
			c.argTxt = append(c.argTxt, richLit(g.r, t, 2))
		}
	}
	return c
}

// finish: everything is printed at the end (helper functions: no selector in this body)
func (g *sGen) finish(c *sCase) {
	for _, l := range g.locals {
		c.body = append(c.body, &sStmt{op: "dump", loc: l})
	}
}

func (g *sGen) randomCase(id int, nSnippets int) *sCase {
	c := g.newCase(id, "random", nSnippets > 0)
	n := 2 + g.r.Intn(6)
	for len(c.body) < n {
		if s := g.stmt(); s != nil {
			c.body = append(c.body, s)
		}
	}
	for i := 0; i < nSnippets; i++ {
		if s := g.snippet(); s != nil {
			at := g.r.Intn(len(c.body) + 1)
			c.body = append(c.body[:at], append([]*sStmt{s}, c.body[at:]...)...)
			c.tag = "role"
		}
	}
	g.finish(c)
	return c
}

// matrixCases: ordered pairs of chains of the top type along one line × roles
func (g *sGen) matrixCases(firstID, limit int) []*sCase {
	chains := modelChains(g.w.top)
	type pair struct{ a, b sChain }
	var pairs []pair
	for _, a := range chains {
		for _, b := range chains {
			fa, fb := a.flat(), b.flat()
			if isPrefix(fa, fb) || isPrefix(fb, fa) {
				pairs = append(pairs, pair{a, b})
			}
		}
	}
	type combo struct {
		p      pair
		r1, r2 int
	}
	var combos []combo
	for _, p := range pairs {
		for r1 := 0; r1 < 3; r1++ {
			for r2 := 0; r2 < 3; r2++ {
				combos = append(combos, combo{p, r1, r2})
			}
		}
	}
	// a deterministic sample when there are more than the budget allows
	for i := len(combos) - 1; i > 0; i-- {
		j := g.r.Intn(i + 1)
		combos[i], combos[j] = combos[j], combos[i]
	}
	if len(combos) > limit {
		combos = combos[:limit]
	}
	var out []*sCase
	for i, cb := range combos {
		c := &sCase{w: g.w, id: firstID + i, tag: "matrix"}
		g.locals, g.n = nil, 0
		for j, t := range []*sType{g.w.top, g.w.top, nil} {
			l := &sLocal{name: []string{"o", "w", "k"}[j], st: t}
			c.params = append(c.params, l)
			g.locals = append(g.locals, l)
			c.args = append(c.args, randVal(g.r, t))
		}
		o, w, k := c.params[0], c.params[1], c.params[2]
		role := func(r int, ch sChain) *sStmt {
			f := ch.res()
			switch {
			case r == 0: // read into a local
				l := &sLocal{name: g.fresh("x"), st: f.st}
				g.locals = append(g.locals, l)
				return &sStmt{op: "decl", loc: l, e: &sExpr{op: "sel", a: &sExpr{op: "loc", loc: o}, chain: ch}}
			case r == 1: // assignment from the same place of the other parameter
				return &sStmt{op: "asg", loc: o, chain: ch, e: &sExpr{op: "sel", a: &sExpr{op: "loc", loc: w}, chain: ch}}
			case f.st == nil: // op-assignment
				return &sStmt{op: "opa", loc: o, chain: ch, e: &sExpr{op: "loc", loc: k}}
			}
			return &sStmt{op: "asg", loc: o, chain: ch, e: g.mk(f.st, 1)} // assignment of a literal
		}
		c.body = append(c.body, role(cb.r1, cb.p.a), role(cb.r2, cb.p.b))
		g.finish(c)
		out = append(out, c)
	}
	return out
}

// ---------------------------------------------------------------- snippets outside the model

// snippet: statements over the parameters o (top type), w, k that the model does not have
func (g *sGen) snippet() *sStmt {
	r, w := g.r, g.w
	T := w.top
	sfx := g.fresh("")
	all := chainsOf(T, 3, false)
	pickChain := func(from []sChain, ok func(sChain) bool) (sChain, bool) {
		var cs []sChain
		for _, c := range from {
			if ok(c) {
				cs = append(cs, c)
			}
		}
		if len(cs) == 0 {
			return sChain{}, false
		}
		return cs[r.Intn(len(cs))], true
	}
	noPtr := func(c sChain) bool { return !c.crossesPtr() }
	numeric := func(c sChain) bool { return noPtr(c) && c.res().isNumeric() }
	dumpable := func(c sChain) bool { return noPtr(c) }
	valStruct := func(c sChain) bool { return noPtr(c) && c.res().isValueStruct() }
	// what is read into a local: while the finding general-field-read-aliases-field is open, not a
	// pointer or func field (the local would alias the field)
	readable := dumpable
	if g.avoid["structrole.general-field-read"] {
		readable = func(c sChain) bool { return noPtr(c) && !c.res().ptr && !c.res().isFunc() }
	}
	ci, ok1 := pickChain(all, numeric)
	c2, ok2 := pickChain(all, readable)
	c3, ok3 := pickChain(all, dumpable)
	if !ok1 || !ok2 || !ok3 {
		return nil
	}
	// while the recorded findings are open: no assignment through two or more selectors on a
	// package-level or captured struct, no write to the value variable of a range over structs,
	// no op-assignment through a pointer indirection
	oneStep := func(c sChain) bool { return len(c.sels) == 1 }
	wi, w3 := ci, c3 // the chains written through on a non-local struct
	if g.avoid["structrole.nonlocal-nested-assign"] {
		var oka, okb bool
		wi, oka = pickChain(all, func(c sChain) bool { return numeric(c) && oneStep(c) })
		w3, okb = pickChain(all, func(c sChain) bool { return dumpable(c) && oneStep(c) })
		if !oka || !okb {
			return nil
		}
	}
	incDeref := func(p string) string {
		if g.avoid["pointer.0"] {
			return "*" + p + " = *" + p + " + 1"
		}
		return "*" + p + "++"
	}
	// a second selector on the line of ci: a prefix of it when there is one
	cpre := c2
	if len(ci.sels) > 1 && r.Bool() {
		cpre = sChain{ci.sels[:1+r.Intn(len(ci.sels)-1)]}
	}
	s := &sStmt{op: "raw"}
	x, y := "x"+sfx, "y"+sfx
	dump := func(expr string, f sField) { s.dumps = append(s.dumps, w.dumpLines(expr, f)...) }
	top := sField{st: T}
	kinds := 16
	if !w.rich {
		kinds = 14
	}
	k := r.Intn(kinds)
	if w.rich && r.Intn(3) == 0 {
		k = 14 + r.Intn(2) // the roles only a rich world has
	}
	switch k {
	case 0: // pointer to a struct
		s.role = "pointer"
		q := "q" + sfx
		s.raw = []string{q + " := &w", q + ci.text() + "++", x + " := " + q + cpre.text(), "(*" + q + ")" + c3.text() + " = o" + c3.text(), y + " := " + q + c2.text()}
		dump(x, cpre.res())
		dump(y, c2.res())
	case 1: // address of a field
		s.role = "addr"
		p := "p" + sfx
		s.raw = []string{p + " := &o" + ci.text(), incDeref(p), x + " := o" + cpre.text()}
		dump(x, cpre.res())
		if g.avoid["structrole.field-pointer-whole-assign"] {
			// (a pointer to a field goes stale when the struct variable is assigned as a whole later)
			s.raw = append(s.raw, w.dumpLines("*"+p, ci.res())...)
		} else {
			dump("*"+p, ci.res())
		}
		if cs, ok := pickChain(all, valStruct); ok {
			inner := chainsOf(cs.res().st, 2, false)
			if c, ok := pickChain(inner, numeric); ok {
				ps := "ps" + sfx
				s.raw = append(s.raw, ps+" := &o"+cs.text(), ps+c.text()+"++", y+" := o"+cs.text()+c.text())
				dump(y, c.res())
			}
		}
	case 2: // package-level struct
		s.role = "global"
		gname := "Pq_g$ID_" + sfx
		lit := richLit(r, T, 2)
		if w.pure() {
			lit = randVal(r, T).goText(T)
		}
		s.decls = []string{"var " + gname + " = " + lit}
		s.raw = []string{gname + wi.text() + "++", x + " := " + gname + cpre.text(), gname + w3.text() + " = o" + w3.text(), y + " := " + gname + c2.text(), "println(\"C\", $ID, " + gname + ci.text() + ")"}
		dump(x, cpre.res())
		dump(y, c2.res())
		dump(gname, top)
	case 3: // closure over the parameters
		s.role = "closure"
		s.raw = []string{"func() { o" + wi.text() + "++; w" + w3.text() + " = o" + w3.text() + "; println(\"C\", $ID, o" + ci.text() + ") }()", x + " := o" + cpre.text()}
		dump(x, cpre.res())
		if readable(w3) {
			s.raw = append(s.raw, y+" := w"+w3.text())
			dump(y, w3.res())
		} else {
			s.raw = append(s.raw, w.dumpLines("w"+w3.text(), w3.res())...)
		}
	case 4: // field of a call result
		s.role = "callresult"
		mk := "Pq_mk$ID_" + sfx
		lit := richLit(r, T, 2)
		if w.pure() {
			lit = randVal(r, T).goText(T)
		}
		s.decls = []string{"func " + mk + "() " + T.name + " { return " + lit + " }"}
		s.raw = []string{x + " := " + mk + "()" + ci.text(), y + " := " + mk + "()" + cpre.text()}
		dump(x, ci.res())
		dump(y, cpre.res())
	case 5: // slice of structs
		s.role = "slice"
		sl := "s" + sfx
		s.raw = []string{sl + " := []" + T.name + "{o, w}", sl + "[1]" + ci.text() + "++", sl + "[0]" + c3.text() + " = w" + c3.text(), x + " := " + sl + "[1]" + cpre.text()}
		dump(x, cpre.res())
		dump(sl+"[0]", top)
		dump(sl+"[1]", top)
	case 6: // map of structs
		s.role = "map"
		m, e := "m"+sfx, "e"+sfx
		s.raw = []string{m + " := map[string]" + T.name + "{\"a\": o}", x + " := " + m + "[\"a\"]" + c2.text(), e + " := " + m + "[\"a\"]", e + ci.text() + "++", m + "[\"b\"] = " + e,
			"println(\"C\", $ID, len(" + m + "))", y + " := " + m + "[\"none\"]" + cpre.text()}
		dump(x, c2.res())
		dump(y, cpre.res())
		dump(m+"[\"a\"]", top)
		dump(m+"[\"b\"]", top)
	case 7: // range: by value (copies), by index
		s.role = "range"
		sl := "s" + sfx
		byValue := "for _, e := range " + sl + " { e" + ci.text() + "++; println(\"C\", $ID, e" + ci.text() + ") }"
		if g.avoid["structrole.range-value-modify"] {
			byValue = "for _, e := range " + sl + " { println(\"C\", $ID, e" + ci.text() + ") }"
		}
		seq := "[2]" + T.name
		if r.Bool() {
			seq = "[]" + T.name
		}
		s.raw = []string{sl + " := " + seq + "{o, w}", byValue, "for i := range " + sl + " { " + sl + "[i]" + ci.text() + "++ }"}
		dump(sl+"[0]", top)
		dump(sl+"[1]", top)
	case 8: // new
		s.role = "new"
		p := "p" + sfx
		s.raw = []string{p + " := new(" + T.name + ")", p + ci.text() + "++", p + c3.text() + " = o" + c3.text(), x + " := (*" + p + ")" + cpre.text()}
		dump(x, cpre.res())
		dump("*"+p, top)
	case 9: // a struct goes through a function and comes back modified: the argument is a copy
		s.role = "byvalue"
		mod := "Pq_mod$ID_" + sfx
		s.decls = []string{"func " + mod + "(v " + T.name + ") " + T.name + " { v" + ci.text() + "++; return v }"}
		s.raw = []string{x + " := " + mod + "(o)", y + " := " + mod + "(" + x + ")" + cpre.text()}
		dump(x, top)
		dump(y, cpre.res())
	case 10: // interface holding a struct
		s.role = "iface"
		e := "e" + sfx
		other := w.types[0]
		s.raw = []string{"var " + e + " interface{} = o", x + " := " + e + ".(" + T.name + ")" + cpre.text(), "_, ok" + sfx + " := " + e + ".(" + other.name + ")", "println(\"C\", $ID, ok" + sfx + ")", "o" + ci.text() + "++", y + " := " + e + ".(" + T.name + ")" + ci.text()}
		dump(x, cpre.res())
		dump(y, ci.res())
	case 11: // comparison of copies
		s.role = "compare"
		if !T.comparable() {
			return nil
		}
		c := "c" + sfx
		s.raw = []string{c + " := o", "println(\"C\", $ID, " + c + " == o, o != w)", c + ci.text() + "++", "println(\"C\", $ID, " + c + " == o, " + c + " != o)"}
		if cs, ok := pickChain(all, valStruct); ok && cs.res().st.comparable() {
			s.raw = append(s.raw, "println(\"C\", $ID, "+c+cs.text()+" == o"+cs.text()+", w"+cs.text()+" != o"+cs.text()+")")
		}
	case 12: // deferred call with a struct argument (evaluated at the defer statement)
		s.role = "defer"
		s.raw = []string{"func() { defer " + w.dumpName(T) + "($ID, o); o" + wi.text() + "++ }()", x + " := o" + cpre.text()}
		dump(x, cpre.res())
	case 13: // pointer to a literal, nested literal with &
		s.role = "ptrlit"
		p := "p" + sfx
		s.raw = []string{p + " := &" + T.name + "{}", p + c3.text() + " = w" + c3.text(), p + ci.text() + "++", x + " := " + p + cpre.text()}
		dump(x, cpre.res())
		dump("*"+p, top)
	case 14: // function-typed field, reached through embedding when it is promoted
		s.role = "funcfield"
		cf, ok := pickChain(all, func(c sChain) bool { return noPtr(c) && c.res().isFunc() })
		if !ok {
			return nil
		}
		f := "f" + sfx
		s.raw = []string{f + " := o" + cf.text(), "if " + f + " != nil { println(\"C\", $ID, " + f + "()) }", "o" + cf.text() + " = func() int { return k + 1 }", "println(\"C\", $ID, o" + cf.text() + "())"}
		if w.noNilFuncTest {
			s.raw[1] = "_ = " + f
		}
	default: // through pointer fields and embedded pointers (nil: a run-time panic, recovered by the wrapper)
		s.role = "ptrfield"
		cp, ok := pickChain(chainsOf(T, 3, true), func(c sChain) bool { return c.crossesPtr() && c.res().isNumeric() })
		if !ok {
			return nil
		}
		s.raw = []string{x + " := o" + cp.text(), "println(\"C\", $ID, " + x + ")", "o" + cp.text() + "++", "println(\"C\", $ID, o" + cp.text() + ")"}
	}
	return s
}

// ---------------------------------------------------------------- shrinking

// shrinkCase deletes statements while the predicate holds: snippets, prints, assignments, and
// declarations (with their final print) nothing else refers to.
func shrinkCase(c *sCase, failing func(*sCase) bool, budget int) *sCase {
	cur := c
	for progress := true; progress && budget > 0; {
		progress = false
		for i := len(cur.body) - 1; i >= 0 && budget > 0; i-- {
			s := cur.body[i]
			var drop []int
			if s.op == "decl" {
				used := false
				for j, t := range cur.body {
					if j == i {
						continue
					}
					if t.op == "dump" && t.loc == s.loc {
						drop = append(drop, j)
					} else if t.uses(s.loc) {
						used = true
					}
				}
				if used {
					continue
				}
			}
			drop = append(drop, i)
			cand := &sCase{w: cur.w, id: cur.id, params: cur.params, args: cur.args, argTxt: cur.argTxt, tag: cur.tag}
			for j, t := range cur.body {
				keep := true
				for _, d := range drop {
					if d == j {
						keep = false
					}
				}
				if keep {
					cand.body = append(cand.body, t)
				}
			}
			budget--
			if failing(cand) {
				cur, progress = cand, true
				break
			}
		}
	}
	return cur
}

func structDevDump(progs []string) bool {
	dir := os.Getenv("C01_DEV_DUMP")
	if dir == "" {
		return false
	}
	for i, p := range progs {
		os.WriteFile(fmt.Sprintf("%s/s%03d.go", dir, i), []byte(p), 0o644)
	}
	return true
}
