package main

import (
	"fmt"
	"strings"

	"github.com/open2b/scriggo"

	"verifharness/internal/hx"
	"verifharness/internal/proto"
)

// Stream 5, "compile": the emitter model of lean/ScriggoV/Model/Compile.lean against the real
// emitter, instruction by instruction.
//
// Every generated tree becomes
//
//	func eN(v0 T0, …, v(n-1) T(n-1)) { r := <expr>; println("R", N, r) }
//
// so that variable i is integer register i+1, r is register n+1 and the body starts with the code
// of `r := <expr>` (emitExprK followed by the move into r). The text Program.Disassemble prints for
// that code (everything before the first Typify of the println) must be, line by line and with the
// same register numbers, what the driver's `compile` answers — a disagreement is a correspondence
// break "compile-vs-emitter". The program is also run (wN() calls eN under a deferred recover) and
// the outcome compared with the model VM executing the model's code (`crun`:
// "model-vm-vs-scriggo") and with the reference evaluator (property "expression-vs-go-semantics").
//
// What the disassembler does not show is not compared here: the index of a constant in the Int
// table (Load prints the value) and the signedness of an ordering condition (LessU prints "Less").

func compileProgram(cases []*tcase) string {
	var b strings.Builder
	b.WriteString("package main\n")
	for i, c := range cases {
		fmt.Fprintf(&b, "\nfunc e%d(", i)
		for j, v := range c.vars {
			if j > 0 {
				b.WriteString(", ")
			}
			fmt.Fprintf(&b, "v%d %s", j, v.k.name)
		}
		b.WriteString(") {\n\tr := ")
		c.tree.goSrc(&b)
		fmt.Fprintf(&b, "\n\tprintln(\"R\", %d, r)\n}\n", i)
		fmt.Fprintf(&b, "\nfunc w%d() {\n\tdefer func() {\n\t\tif r := recover(); r != nil {\n\t\t\tprintln(\"P\", %d, r.(error).Error())\n\t\t}\n\t}()\n\te%d(", i, i, i)
		for j, v := range c.vars {
			if j > 0 {
				b.WriteString(", ")
			}
			b.WriteString(v.z.String())
		}
		b.WriteString(")\n}\n")
	}
	// groups of 100: Program.Disassemble indexes fn.Functions with an int8 (funcNameType) and
	// panics on a function that calls more than 128 different functions
	const groupSize = 100
	ngroups := (len(cases) + groupSize - 1) / groupSize
	for g := 0; g < ngroups; g++ {
		fmt.Fprintf(&b, "\nfunc group%d() {\n", g)
		for i := g * groupSize; i < len(cases) && i < (g+1)*groupSize; i++ {
			fmt.Fprintf(&b, "\tw%d()\n", i)
		}
		b.WriteString("}\n")
	}
	b.WriteString("\nfunc main() {\n")
	for g := 0; g < ngroups; g++ {
		fmt.Fprintf(&b, "\tgroup%d()\n", g)
	}
	b.WriteString("}\n")
	return b.String()
}

// expressionCode cuts the code of `r := <expr>` of every eN out of the disassembled package.
func expressionCode(asm string, n int) []string {
	out := make([]string, n)
	for i := range out {
		out[i] = "no such function"
	}
	lines := strings.Split(asm, "\n")
	for at := 0; at < len(lines); at++ {
		l := lines[at]
		if !strings.HasPrefix(l, "Func e") {
			continue
		}
		var idx int
		if _, err := fmt.Sscanf(l, "Func e%d(", &idx); err != nil || idx < 0 || idx >= n {
			continue
		}
		var code []string
		for at++; at < len(lines); at++ {
			t := strings.TrimSpace(lines[at])
			if t == "" || strings.HasPrefix(t, "Func ") || strings.HasPrefix(t, "Typify") {
				break
			}
			if strings.HasPrefix(t, ";") {
				continue // ; regs(…)
			}
			code = append(code, strings.Join(strings.Fields(t), " "))
		}
		out[idx] = strings.Join(code, "; ")
	}
	return out
}

// compileReal builds the batch; code[i] is the disassembled code of `r := <expr>` of case i and
// outcome[i] the canonical outcome of running it.
func compileReal(cases []*tcase) (code, outcome []string, err error) {
	src := compileProgram(cases)
	outcome = make([]string, len(cases))
	for i := range outcome {
		outcome[i] = "other: no output"
	}
	defer func() {
		if r := recover(); r != nil {
			err = fmt.Errorf("host panic: %v", r)
		}
	}()
	prog, berr := scriggo.Build(scriggo.Files{"main.go": []byte(src)}, nil)
	if berr != nil {
		return nil, outcome, fmt.Errorf("build: %v", berr)
	}
	asm, derr := prog.Disassemble("main")
	if derr != nil {
		return nil, outcome, fmt.Errorf("disassemble: %v", derr)
	}
	code = expressionCode(string(asm), len(cases))
	var cur []any
	flush := func() {
		if len(cur) == 5 {
			tag, _ := cur[0].(string)
			i, ok := cur[2].(int)
			if ok && i >= 0 && i < len(outcome) {
				switch tag {
				case "R":
					outcome[i] = fmt.Sprintf("ok %T %v", cur[4], cur[4])
				case "P":
					s, _ := cur[4].(string)
					outcome[i] = classifyPanic(s)
				}
			}
		}
		cur = cur[:0]
	}
	rerr := prog.Run(&scriggo.RunOptions{Print: func(v any) {
		if s, ok := v.(string); ok && s == "\n" {
			flush()
			return
		}
		cur = append(cur, v)
	}})
	if rerr != nil {
		return code, outcome, fmt.Errorf("run: %v", rerr)
	}
	return code, outcome, nil
}

func (c *tcase) compileLine() string {
	var b strings.Builder
	fmt.Fprintf(&b, "C01 compile %d", len(c.vars))
	c.tree.tokens(&b)
	return b.String()
}

func (c *tcase) crunLine() string {
	var b strings.Builder
	fmt.Fprintf(&b, "C01 crun %d", len(c.vars))
	for _, v := range c.vars {
		b.WriteString(" " + v.z.String())
	}
	c.tree.tokens(&b)
	return b.String()
}

func (c *tcase) compileHuman() string {
	var b strings.Builder
	b.WriteString("func e(")
	for i, v := range c.vars {
		if i > 0 {
			b.WriteString(", ")
		}
		fmt.Fprintf(&b, "v%d %s", i, v.k.name)
	}
	b.WriteString(") { r := ")
	c.tree.goSrc(&b)
	b.WriteString("; println(r) }  // e(")
	for i, v := range c.vars {
		if i > 0 {
			b.WriteString(", ")
		}
		b.WriteString(v.z.String())
	}
	b.WriteString(")")
	return b.String()
}

// compileDisagrees: on this single case, does the real emitter's code differ from the model's
// (what == "code"), or the real outcome from the model VM's (what == "run")?
func (w *world) compileDisagrees(tc *tcase, what string) (bool, string, string) {
	code, outcome, err := compileReal([]*tcase{tc})
	w.builds++
	if err != nil {
		return true, "other: " + err.Error(), ""
	}
	line := tc.compileLine()
	impl := code[0]
	if what == "run" {
		line, impl = tc.crunLine(), outcome[0]
	}
	model, err := w.c.D.Batch([]string{line})
	if err != nil || model[0] == "bad-op" {
		return false, impl, first(model)
	}
	if what == "run" {
		return !sameOutcome(impl, model[0]), impl, model[0]
	}
	return "ok "+impl != model[0], impl, model[0]
}

func codeFeatures(code string) []string {
	var fs []string
	has := func(s string) bool { return strings.Contains("; "+code, "; "+s) }
	if has("Load ") {
		fs = append(fs, "const-table")
	}
	if has("Convert") {
		fs = append(fs, "convert")
	}
	if has("If ") {
		fs = append(fs, "comparison")
	}
	if has("Neg ") {
		fs = append(fs, "neg")
	}
	imm := false
	for _, ins := range strings.Split(code, "; ") {
		f := strings.Fields(ins)
		if len(f) < 3 || f[0] == "Load" || f[0] == "Move" || strings.HasPrefix(f[0], "Convert") {
			continue
		}
		// an operand that is neither a register nor a kind/condition name: an immediate
		for _, o := range f[1:] {
			if o[0] == '-' || (o[0] >= '0' && o[0] <= '9') {
				imm = true
			}
		}
	}
	if imm {
		fs = append(fs, "immediate-operand")
	}
	return fs
}

func compileStream(c *hx.Ctx, w *world, n int, uintptrNotOK bool) error {
	res := c.Res
	if c.D == nil {
		return nil
	}
	const batch = 1500
	for done := 0; done < n; done += batch {
		m := min(batch, n-done)
		cases := make([]*tcase, 0, m)
		for len(cases) < m {
			g := &gen{r: c.R, uintptrNot: uintptrNotOK}
			t := g.tree(1 + c.R.Intn(4))
			tc := &tcase{tree: t, vars: g.vars, tag: "compile"}
			tc.normalise()
			if len(tc.vars) == 0 {
				continue
			}
			for i := range tc.vars {
				tc.vars[i].place = 1
			}
			cases = append(cases, tc)
		}
		code, outcome, err := compileReal(cases)
		w.builds++
		if err != nil {
			for _, tc := range cases {
				if _, _, e := compileReal([]*tcase{tc}); e != nil {
					w.builds++
					res.AddBreak(proto.Break{Kind: "property", Name: "builds-and-runs", Case: tc.compileLine(), Human: tc.compileHuman(), Impl: e.Error(), Model: "builds and runs"})
					return nil
				}
			}
			return fmt.Errorf("compile batch: %v", err)
		}
		lines := make([]string, 0, 3*m)
		for _, tc := range cases {
			lines = append(lines, tc.compileLine(), tc.crunLine(), tc.line())
		}
		model, err := c.D.Batch(lines)
		if err != nil {
			return err
		}
		reported := map[string]bool{}
		for i, tc := range cases {
			mCode, mRun, mEval := model[3*i], model[3*i+1], model[3*i+2]
			res.Count(lines[3*i], true)
			res.Hist(fmt.Sprintf("compile-instructions-%02d", min(strings.Count(code[i], ";")+1, 30)/3*3))
			for _, f := range codeFeatures(code[i]) {
				res.Hist("compile-" + f)
			}
			if i%499 == 0 {
				res.Sample(map[string]string{"line": lines[3*i], "go": tc.compileHuman(), "emitter": code[i], "model": mCode, "scriggo": outcome[i], "model-vm": mRun})
			}
			if mCode == "bad-op" || mRun == "bad-op" || mEval == "bad-op" {
				res.AddBreak(proto.Break{Kind: "correspondence", Name: "generated-tree-well-typed", Case: lines[3*i], Human: tc.compileHuman(), Impl: code[i], Model: mCode + " / " + mRun + " / " + mEval})
				continue
			}
			if "ok "+code[i] != mCode && !reported["code"] {
				reported["code"] = true
				min := w.shrinkWith(tc, func(t *tcase) bool { bad, _, _ := w.compileDisagrees(t, "code"); return bad })
				for j := range min.vars {
					min.vars[j].place = 1
				}
				_, impl, mod := w.compileDisagrees(min, "code")
				res.AddBreak(proto.Break{Kind: "correspondence", Name: "compile-vs-emitter", Case: min.compileLine(), Human: min.compileHuman(), Impl: impl, Model: strings.TrimPrefix(mod, "ok ")})
			}
			if !sameOutcome(outcome[i], mRun) && !reported["run"] {
				reported["run"] = true
				min := w.shrinkWith(tc, func(t *tcase) bool { bad, _, _ := w.compileDisagrees(t, "run"); return bad })
				_, impl, mod := w.compileDisagrees(min, "run")
				res.AddBreak(proto.Break{Kind: "correspondence", Name: "model-vm-vs-scriggo", Case: min.crunLine(), Human: min.compileHuman(), Impl: impl, Model: mod})
			}
			if !sameOutcome(outcome[i], mEval) && !reported["eval"] {
				reported["eval"] = true
				w.report(tc, "expression-vs-go-semantics")
			}
		}
	}
	return nil
}
