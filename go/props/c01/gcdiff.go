package main

import (
	"bytes"
	"context"
	"fmt"
	"os"
	"os/exec"
	"path/filepath"
	"strings"
	"syscall"
	"time"

	"github.com/open2b/scriggo"
)

// gc-differential stream: whole generated programs, gc against Scriggo. Everything a program
// prints (builtin print/println → standard error on both sides), whether it ends by an
// unrecovered panic and with which message.

// runGCPrograms compiles all the programs into ONE gc binary (a dispatcher calling every
// program's main under a recover) and returns the transcript of each program.
func runGCPrograms(progs []*program) ([]string, error) {
	var b strings.Builder
	b.WriteString("package main\n\nimport \"fmt\"\n\n")
	b.WriteString("func describePanic(r any) string {\n\tif e, ok := r.(error); ok {\n\t\treturn e.Error()\n\t}\n\treturn fmt.Sprint(r)\n}\n\n")
	b.WriteString("func runProgram(i int, f func()) {\n\tprintln(\"=== BEGIN\", i)\n\tdefer func() {\n\t\tif r := recover(); r != nil {\n\t\t\tprintln(\"=== PANIC\", describePanic(r))\n\t\t}\n\t\tprintln(\"=== END\", i)\n\t}()\n\tf()\n}\n\n")
	for i, p := range progs {
		b.WriteString(p.text(fmt.Sprintf("p%d_", i), fmt.Sprintf("p%d_main", i)))
		b.WriteString("\n")
	}
	b.WriteString("func main() {\n")
	for i := range progs {
		fmt.Fprintf(&b, "\trunProgram(%d, p%d_main)\n", i, i)
	}
	b.WriteString("}\n")
	dir, err := os.MkdirTemp("", "c01gcp")
	if err != nil {
		return nil, err
	}
	defer os.RemoveAll(dir)
	file := filepath.Join(dir, "main.go")
	if err := os.WriteFile(file, []byte(b.String()), 0o644); err != nil {
		return nil, err
	}
	if keep := os.Getenv("C01_DEV_KEEP"); keep != "" {
		os.WriteFile(keep, []byte(b.String()), 0o644)
	}
	ctx, cancel := context.WithTimeout(context.Background(), 5*time.Minute)
	defer cancel()
	cmd := exec.CommandContext(ctx, "go", "run", file)
	cmd.Dir = dir
	cmd.Env = append(os.Environ(), "GOFLAGS=-mod=mod", "GOPROXY=off", "GO111MODULE=off")
	var stdout, stderr bytes.Buffer
	cmd.Stdout, cmd.Stderr = &stdout, &stderr
	if err := cmd.Run(); err != nil {
		msg := stderr.String()
		if i := strings.Index(msg, "=== BEGIN"); i > 0 {
			msg = msg[:i]
		}
		if len(msg) > 3000 {
			msg = msg[:3000]
		}
		return nil, fmt.Errorf("go run: %v: %s", err, msg)
	}
	return splitTranscripts(stderr.String(), len(progs)), nil
}

func splitTranscripts(all string, n int) []string {
	out := make([]string, n)
	for i := range out {
		out[i] = "(no transcript)"
	}
	for i := 0; i < n; i++ {
		begin := fmt.Sprintf("=== BEGIN %d\n", i)
		end := fmt.Sprintf("=== END %d\n", i)
		s := strings.Index(all, begin)
		if s < 0 {
			continue
		}
		rest := all[s+len(begin):]
		e := strings.Index(rest, end)
		if e < 0 {
			out[i] = rest + "(unterminated)"
			continue
		}
		out[i] = rest[:e]
	}
	return out
}

func describePanic(r any) string {
	if e, ok := r.(error); ok {
		return e.Error()
	}
	return fmt.Sprint(r)
}

// scriggoRunTimeout bounds one Program.Run (streams whose generated programs cannot loop for long
// lower it: a defect that makes a program spin is then found quickly)
var scriggoRunTimeout = 10 * time.Second

// runScriggoPrograms runs every program with Scriggo; standard error (file descriptor 2, where
// the builtin print writes) is redirected into a file for the duration.
func runScriggoPrograms(progs []*program) ([]string, error) {
	tmp, err := os.CreateTemp("", "c01scr")
	if err != nil {
		return nil, err
	}
	defer os.Remove(tmp.Name())
	defer tmp.Close()
	saved, err := syscall.Dup(2)
	if err != nil {
		return nil, err
	}
	if err := syscall.Dup2(int(tmp.Fd()), 2); err != nil {
		syscall.Close(saved)
		return nil, err
	}
	restore := func() {
		syscall.Dup2(saved, 2)
		syscall.Close(saved)
	}
	emit := func(s string) { syscall.Write(2, []byte(s)) }
	for i, p := range progs {
		emit(fmt.Sprintf("=== BEGIN %d\n", i))
		func() {
			defer func() {
				if r := recover(); r != nil {
					emit(fmt.Sprintf("=== HOST-PANIC %v\n", r))
				}
			}()
			prog, err := scriggo.Build(scriggo.Files{"main.go": []byte(p.text("P", "main"))}, nil)
			if err != nil {
				emit("=== BUILD-ERROR " + err.Error() + "\n")
				return
			}
			ctx, cancel := context.WithTimeout(context.Background(), scriggoRunTimeout)
			defer cancel()
			err = prog.Run(&scriggo.RunOptions{Context: ctx})
			switch e := err.(type) {
			case nil:
			case *scriggo.PanicError:
				emit("=== PANIC " + describePanic(e.Message()) + "\n")
			default:
				emit("=== RUN-ERROR " + err.Error() + "\n")
			}
		}()
		emit(fmt.Sprintf("=== END %d\n", i))
	}
	restore()
	data, err := os.ReadFile(tmp.Name())
	if err != nil {
		return nil, err
	}
	return splitTranscripts(string(data), len(progs)), nil
}

// differs: one program, gc against Scriggo (used by the shrinker; one `go run` per call)
func programDiffers(p *program) (bool, string, string) {
	gcOut, err := runGCPrograms([]*program{p})
	if err != nil {
		return false, "", "" // does not compile with gc: not a candidate
	}
	sc, err := runScriggoPrograms([]*program{p})
	if err != nil {
		return false, "", ""
	}
	return gcOut[0] != sc[0], sc[0], gcOut[0]
}

// shrinkProgram: delete fragments, then statements and declarations, while gc still compiles the
// program and the two transcripts still differ.
func shrinkProgram(p *program, budget int) *program {
	cur := &program{frags: append([]fragment(nil), p.frags...)}
	try := func(cand *program) bool {
		if budget <= 0 {
			return false
		}
		budget--
		if bad, _, _ := programDiffers(cand); bad {
			cur = cand
			return true
		}
		return false
	}
	// fragments
	for i := len(cur.frags) - 1; i >= 0 && len(cur.frags) > 1; i-- {
		if i >= len(cur.frags) {
			continue
		}
		cand := &program{frags: append(append([]fragment(nil), cur.frags[:i]...), cur.frags[i+1:]...)}
		try(cand)
	}
	// statements, last first (later statements depend on earlier ones)
	for progress := true; progress && budget > 0; {
		progress = false
		for fi := range cur.frags {
			for li := len(cur.frags[fi].lines) - 1; li >= 0; li-- {
				cand := &program{frags: append([]fragment(nil), cur.frags...)}
				f := cand.frags[fi]
				f.lines = append(append([]string(nil), f.lines[:li]...), f.lines[li+1:]...)
				cand.frags[fi] = f
				if try(cand) {
					progress = true
				}
			}
			for di := len(cur.frags[fi].decls) - 1; di >= 0; di-- {
				cand := &program{frags: append([]fragment(nil), cur.frags...)}
				f := cand.frags[fi]
				f.decls = append(append([]string(nil), f.decls[:di]...), f.decls[di+1:]...)
				cand.frags[fi] = f
				if try(cand) {
					progress = true
				}
			}
		}
	}
	return cur
}

// rawProgram wraps a complete source text (the `minimal` of a known finding) as a program.
func rawProgram(src string) *program {
	// the text is used verbatim for Scriggo; for gc its main is renamed by the dispatcher prefix
	return &program{frags: []fragment{{kind: "raw", decls: []string{src}}}}
}
