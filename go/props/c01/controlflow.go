package main

import (
	"fmt"
	"os"
	"sort"
	"strings"
	"time"

	"verifharness/internal/hx"
	"verifharness/internal/proto"
)

// Stream 9, the control-flow family: break / continue (with and without labels), return, and
// panics recovered in a callee, in every nesting of
//
//	for (three-clause, condition only, no condition), for range (slice with index, with value,
//	without variables; string; map; channel), switch (tag / no tag / fallthrough), type switch
//	(with and without binding), select (ready channel / default), if / else, blocks, and function
//	literals called in place (which break/continue must not cross),
//
// up to four levels deep. Every body starts with a trace mark; a jump stands under a condition on
// the counter of an enclosing loop, so the same statement is executed with both outcomes; the
// whole case prints ONE line of marks. Oracle: gc (all cases in one binary).
//
// The emitter keeps its notion of "where does break/continue go" in a few fields that are saved
// and restored by hand per statement kind (breakable, breakLabel, rangeLabels, inForRange) and the
// VM runs a range body in a nested run loop: the defects of that bookkeeping need a loop of one
// kind INSIDE a body of another kind and a jump that is actually taken, which hand-written
// fragments (prog.go, fragControl) do not enumerate.

type cfNode struct {
	kind   string      // for3 forcond forever range rangeval rangebare rangestr rangemap rangechan switch switchtag tswitch tswitchbind select selectdef if block funclit | mark break continue return callrec panicrec
	id     int         // also the label L<id> when a jump refers to it
	target int         // break/continue: id of the labelled statement, 0 = no label
	cond   string      // jump: the condition it stands under ("" = unconditional)
	n      int         // loop bound
	kids   [][]*cfNode // bodies / clauses
	fall   bool        // switch: first clause ends in fallthrough
}

type cfGen struct {
	r     *proto.Rand
	n     int
	avoid map[string]bool
}

// cfFrame: what encloses the statement being generated, innermost last, within one function
type cfFrame struct {
	kind    string
	id      int
	counter string // loop counter (loops only)
	tainted *bool  // loops: a condition-less for has been completed inside the body so far
}

func (g *cfGen) id() int { g.n++; return g.n }

var cfLoopKinds = []string{"for3", "forcond", "forever", "range", "rangeval", "rangebare", "rangestr", "rangemap", "rangechan"}
var cfOtherKinds = []string{"switch", "switchtag", "tswitch", "tswitchbind", "select", "selectdef", "if", "block", "funclit"}

func cfIsLoop(k string) bool {
	for _, l := range cfLoopKinds {
		if l == k {
			return true
		}
	}
	return false
}

func cfIsRange(k string) bool { return strings.HasPrefix(k, "range") }

func cfBreakable(k string) bool {
	return cfIsLoop(k) || k == "switch" || k == "switchtag" || k == "tswitch" || k == "tswitchbind" || k == "select" || k == "selectdef"
}

// cfInFunc: the frames of the innermost function (after the last function literal)
func cfInFunc(chain []cfFrame) []cfFrame {
	for i := len(chain) - 1; i >= 0; i-- {
		if chain[i].kind == "funclit" {
			return chain[i+1:]
		}
	}
	return chain
}

// innermost loop counter of the current function ("" when there is none)
func cfCounter(chain []cfFrame) string {
	stack := cfInFunc(chain)
	for i := len(stack) - 1; i >= 0; i-- {
		if stack[i].counter != "" {
			return stack[i].counter
		}
	}
	return ""
}

// cfLeafFeatures: which recorded defects of the unchanged tree (see findingFeatures in main.go) a
// jump / recovered panic at this place runs into. `chain` is everything that encloses it,
// function literals included: the emitter does not reset `breakable` and `inForRange` when it
// enters a function literal, and the VM's nested run loops of active range statements belong to the
// whole call stack. Each feature is the CAUSE as the code has it:
//
//	cf.labelled-continue                 `continue L`: emitter panics "not implemented"
//	cf.continue-in-for-inside-range      unlabelled continue of a plain for while em.inForRange is
//	                                     still set by an enclosing range: OpContinue instead of Goto
//	cf.labelled-break                    `break L`: the label is ignored (or "not implemented" inside a
//	                                     range); right only when L is the innermost breakable statement
//	                                     of the function and that is a for / switch
//	cf.break-in-range-inside-breakable   break of a range loop while em.breakable is still set by an
//	                                     enclosing for / switch / select: Goto to THAT statement's end
//	cf.break-in-select                   break whose innermost breakable statement is a select: the break
//	                                     label is never placed
//	cf.jump-after-conditionless-for      unlabelled continue, or break of a range loop, after a `for {}`
//	                                     was completed in the body of the jump's loop: the emitter never
//	                                     pops the label `for {}` pushed on em.rangeLabels
//	cf.recovered-panic-in-range          a panic recovered below a frame with an active range loop: the
//	                                     nested run loops are gone, the function ends after the body
func cfLeafFeatures(kind string, target int, chain []cfFrame) []string {
	fn := cfInFunc(chain)
	anyRange, anyPlainBreakable := false, false
	for _, f := range chain {
		if cfIsRange(f.kind) {
			anyRange = true
		} else if cfBreakable(f.kind) {
			anyPlainBreakable = true
		}
	}
	var innerLoop, innerBrk *cfFrame
	for i := len(fn) - 1; i >= 0; i-- {
		if innerLoop == nil && cfIsLoop(fn[i].kind) {
			innerLoop = &fn[i]
		}
		if innerBrk == nil && cfBreakable(fn[i].kind) {
			innerBrk = &fn[i]
		}
	}
	var out []string
	stale := innerLoop != nil && innerLoop.tainted != nil && *innerLoop.tainted
	switch kind {
	case "continue":
		if target != 0 {
			out = append(out, "cf.labelled-continue")
		} else if innerLoop != nil && !cfIsRange(innerLoop.kind) && anyRange {
			out = append(out, "cf.continue-in-for-inside-range")
		}
		if target == 0 && stale {
			out = append(out, "cf.jump-after-conditionless-for")
		}
	case "break":
		if innerBrk == nil {
			break
		}
		isSelect := innerBrk.kind == "select" || innerBrk.kind == "selectdef"
		if target != 0 && !(innerBrk.id == target && !cfIsRange(innerBrk.kind) && !isSelect) {
			out = append(out, "cf.labelled-break")
			break
		}
		if cfIsRange(innerBrk.kind) && anyPlainBreakable {
			out = append(out, "cf.break-in-range-inside-breakable")
		}
		if cfIsRange(innerBrk.kind) && !anyPlainBreakable && stale {
			out = append(out, "cf.jump-after-conditionless-for")
		}
		if isSelect {
			out = append(out, "cf.break-in-select")
		}
	case "callrec", "panicrec":
		if anyRange {
			out = append(out, "cf.recovered-panic-in-range")
		}
	}
	return out
}

func (g *cfGen) cond(stack []cfFrame) string {
	c := cfCounter(stack)
	if c == "" {
		return g.r.Pick([]string{"z > 0", "z == 0", ""})
	}
	return g.r.Pick([]string{c + " == 0", c + " == 1", c + " >= 1", c + "%2 == 0", c + " == 2", ""})
}

// body: 1–3 statements
func (g *cfGen) body(depth int, stack []cfFrame) []*cfNode {
	var out []*cfNode
	for i, n := 0, 1+g.r.Intn(3); i < n; i++ {
		out = append(out, g.stmt(depth, stack))
	}
	return out
}

// leaf: a mark, a jump or a recovered panic; a choice that runs into an open recorded finding is
// drawn again (a few times, then a mark)
func (g *cfGen) leaf(chain []cfFrame) *cfNode {
	for try := 0; try < 6; try++ {
		n := g.leaf1(chain)
		ok := true
		for _, f := range cfLeafFeatures(n.kind, n.target, chain) {
			if g.avoid[f] {
				ok = false
			}
		}
		if ok {
			return n
		}
	}
	return &cfNode{kind: "mark", id: g.id()}
}

func (g *cfGen) leaf1(chain []cfFrame) *cfNode {
	stack := cfInFunc(chain)
	inLoop, inBreakable := false, false
	var labelled []cfFrame // enclosing statements a label may refer to
	for _, f := range stack {
		if cfIsLoop(f.kind) {
			inLoop = true
		}
		if cfBreakable(f.kind) {
			inBreakable = true
			labelled = append(labelled, f)
		}
	}
	// weights: break 5 (inside a breakable statement), continue 5 (inside a loop), return 1,
	// callee that recovers 2, literal that recovers its own panic 1, mark 6
	type choice struct {
		kind string
		w    int
	}
	choices := []choice{{"return", 1}, {"callrec", 2}, {"panicrec", 1}, {"mark", 6}}
	if inBreakable {
		choices = append(choices, choice{"break", 5})
	}
	if inLoop {
		choices = append(choices, choice{"continue", 5})
	}
	total := 0
	for _, c := range choices {
		total += c.w
	}
	x := g.r.Intn(total)
	kind := "mark"
	for _, c := range choices {
		if x < c.w {
			kind = c.kind
			break
		}
		x -= c.w
	}
	switch kind {
	case "break":
		n := &cfNode{kind: "break", id: g.id(), cond: g.cond(chain)}
		if g.r.Intn(3) == 0 {
			n.target = labelled[g.r.Intn(len(labelled))].id
		}
		return n
	case "continue":
		n := &cfNode{kind: "continue", id: g.id(), cond: g.cond(chain)}
		if g.r.Intn(3) == 0 {
			var loops []cfFrame
			for _, f := range labelled {
				if cfIsLoop(f.kind) {
					loops = append(loops, f)
				}
			}
			n.target = loops[g.r.Intn(len(loops))].id
		}
		return n
	case "return":
		return &cfNode{kind: "return", id: g.id(), cond: g.r.Pick([]string{g.cond(chain), "z == 0"})}
	case "callrec":
		return &cfNode{kind: "callrec", id: g.id()}
	case "panicrec":
		return &cfNode{kind: "panicrec", id: g.id(), cond: g.cond(chain)}
	}
	return &cfNode{kind: "mark", id: g.id()}
}

func (g *cfGen) stmt(depth int, stack []cfFrame) *cfNode {
	if depth <= 0 || g.r.Intn(5) < 2 {
		return g.leaf(stack)
	}
	var kind string
	if g.r.Intn(2) == 0 {
		kind = cfLoopKinds[g.r.Intn(len(cfLoopKinds))]
	} else {
		kind = cfOtherKinds[g.r.Intn(len(cfOtherKinds))]
	}
	n := &cfNode{kind: kind, id: g.id(), n: 2 + g.r.Intn(2)}
	fr := cfFrame{kind: kind, id: n.id}
	if cfIsLoop(kind) {
		fr.counter = fmt.Sprintf("i%d", n.id)
		fr.tainted = new(bool)
	}
	inner := append(append([]cfFrame(nil), stack...), fr)
	clauses := 1
	switch kind {
	case "funclit":
		// (jumps do not cross a function boundary: cfInFunc)
	case "switch", "switchtag", "tswitch", "tswitchbind":
		clauses = 2 + g.r.Intn(2)
		n.fall = (kind == "switch" || kind == "switchtag") && g.r.Intn(3) == 0
	case "select":
		clauses = 1
	case "selectdef", "if":
		clauses = 2
	}
	for i := 0; i < clauses; i++ {
		n.kids = append(n.kids, g.body(depth-1, inner))
	}
	if kind == "forever" {
		cfTaint(stack)
	}
	return n
}

// cfTaint: a condition-less for has just been completed inside every loop of the chain
func cfTaint(chain []cfFrame) {
	for _, f := range chain {
		if f.tainted != nil {
			*f.tainted = true
		}
	}
}

// ---------------------------------------------------------------- rendering

func (n *cfNode) walk(f func(*cfNode)) {
	f(n)
	for _, b := range n.kids {
		for _, k := range b {
			k.walk(f)
		}
	}
}

type cfCase struct {
	id   int
	body []*cfNode
}

func (c *cfCase) walk(f func(*cfNode)) {
	for _, n := range c.body {
		n.walk(f)
	}
}

// used labels (a label that is defined and not used is a compile error)
func (c *cfCase) usedLabels() map[int]bool {
	used := map[int]bool{}
	c.walk(func(n *cfNode) {
		if (n.kind == "break" || n.kind == "continue") && n.target != 0 {
			used[n.target] = true
		}
	})
	return used
}

func cfRenderBody(b *strings.Builder, body []*cfNode, ind string, used map[int]bool, enclosingCounter string) {
	for _, n := range body {
		cfRender(b, n, ind, used, enclosingCounter)
	}
}

func cfRender(b *strings.Builder, n *cfNode, ind string, used map[int]bool, counter string) {
	w := func(format string, a ...any) { fmt.Fprintf(b, ind+format+"\n", a...) }
	mark := func(tag string) string { return fmt.Sprintf("print(\"%s%d \")", tag, n.id) }
	under := func(stmt string) {
		if n.cond == "" {
			w("%s", stmt)
		} else {
			w("if %s {", n.cond)
			w("\t%s", stmt)
			w("}")
		}
	}
	i := fmt.Sprintf("i%d", n.id)
	switch n.kind {
	case "forcond", "forever", "rangebare":
		w("%s := -1", i) // the counter, before the label: a label stands directly before its statement
	}
	if used[n.id] {
		w("L%d:", n.id)
	}
	sub := func(body []*cfNode, c string) { cfRenderBody(b, body, ind+"\t", used, c) }
	tagOf := counter
	if tagOf == "" {
		tagOf = "z"
	}
	switch n.kind {
	case "mark":
		w("%s", mark("m"))
	case "break", "continue":
		s := n.kind
		if n.target != 0 {
			s += fmt.Sprintf(" L%d", n.target)
		}
		w("%s", mark("j"))
		under(s)
	case "return":
		w("%s", mark("r"))
		under("return")
	case "callrec":
		w("Pq_rec()")
		w("%s", mark("c"))
	case "panicrec":
		w("func() {")
		w("\tdefer func() { recover(); %s }()", mark("d"))
		if n.cond == "" {
			w("\tif z > 0 {")
		} else {
			w("\tif %s {", n.cond)
		}
		w("\t\tpanic(\"p\")")
		w("\t}")
		w("\t%s", mark("n"))
		w("}()")
	case "for3":
		w("for %s := 0; %s < %d; %s++ {", i, i, n.n, i)
		w("\t%s", mark("f"))
		sub(n.kids[0], i)
		w("}")
	case "forcond":
		w("for %s < %d {", i, n.n-1)
		w("\t%s++", i)
		w("\t%s", mark("f"))
		sub(n.kids[0], i)
		w("}")
	case "forever":
		w("for {")
		w("\t%s++", i)
		w("\tif %s >= %d {", i, n.n)
		w("\t\tbreak")
		w("\t}")
		w("\t%s", mark("f"))
		sub(n.kids[0], i)
		w("}")
	case "range":
		w("for %s := range make([]int, %d) {", i, n.n)
		w("\t_ = %s", i)
		w("\t%s", mark("f"))
		sub(n.kids[0], i)
		w("}")
	case "rangeval":
		w("for _, %s := range []int{0, 1, 2}[:%d] {", i, n.n)
		w("\t_ = %s", i)
		w("\t%s", mark("f"))
		sub(n.kids[0], i)
		w("}")
	case "rangebare":
		w("for range make([]int, %d) {", n.n)
		w("\t%s++", i)
		w("\t%s", mark("f"))
		sub(n.kids[0], i)
		w("}")
	case "rangestr":
		w("for %s := range \"abc\"[:%d] {", i, n.n)
		w("\t_ = %s", i)
		w("\t%s", mark("f"))
		sub(n.kids[0], i)
		w("}")
	case "rangemap":
		w("for %s := range map[int]bool{1: true} {", i)
		w("\t_ = %s", i)
		w("\t%s", mark("f"))
		sub(n.kids[0], i)
		w("}")
	case "rangechan":
		w("for %s := range Pq_chan(%d) {", i, n.n)
		w("\t_ = %s", i)
		w("\t%s", mark("f"))
		sub(n.kids[0], i)
		w("}")
	case "switch", "switchtag":
		if n.kind == "switch" {
			w("switch {")
		} else {
			w("switch %s {", tagOf)
		}
		for ci, body := range n.kids {
			switch {
			case ci == len(n.kids)-1:
				w("default:")
			case n.kind == "switch":
				w("case %s == %d:", tagOf, ci)
			default:
				w("case %d:", ci)
			}
			w("\tprint(\"s%d.%d \")", n.id, ci)
			sub(body, counter)
			if n.fall && ci == 0 {
				w("\tfallthrough")
			}
		}
		w("}")
	case "tswitch", "tswitchbind":
		if n.kind == "tswitch" {
			w("switch Pq_any(%s).(type) {", tagOf)
		} else {
			w("switch x%d := Pq_any(%s).(type) {", n.id, tagOf)
		}
		for ci, body := range n.kids {
			switch {
			case ci == len(n.kids)-1:
				w("default:")
			case ci == 0:
				w("case int:")
			default:
				w("case string:")
			}
			if n.kind == "tswitchbind" {
				w("\t_ = x%d", n.id)
			}
			w("\tprint(\"t%d.%d \")", n.id, ci)
			sub(body, counter)
		}
		w("}")
	case "select":
		w("select {")
		w("case <-Pq_ready:")
		w("\t%s", mark("q"))
		sub(n.kids[0], counter)
		w("}")
	case "selectdef":
		w("select {")
		w("case v%d := <-Pq_never:", n.id)
		w("\t_ = v%d", n.id)
		w("\t%s", mark("q"))
		sub(n.kids[0], counter)
		w("default:")
		w("\t%s", mark("u"))
		sub(n.kids[1], counter)
		w("}")
	case "if":
		c := "z > 0"
		if counter != "" {
			c = counter + "%2 == 0"
		}
		w("if %s {", c)
		w("\t%s", mark("y"))
		sub(n.kids[0], counter)
		w("} else {")
		w("\t%s", mark("e"))
		sub(n.kids[1], counter)
		w("}")
	case "block":
		w("{")
		w("\t%s", mark("b"))
		sub(n.kids[0], counter)
		w("}")
	case "funclit":
		w("func() {")
		w("\t%s", mark("l"))
		sub(n.kids[0], "")
		w("}()")
	}
	if cfBreakable(n.kind) || n.kind == "if" || n.kind == "block" || n.kind == "funclit" {
		w("print(\"a%d \")", n.id)
	}
}

const cfDecls = `func Pq_rec() {
	defer func() { recover() }()
	panic("p")
}

func Pq_any(x int) interface{} {
	if x%2 == 0 {
		return x
	}
	return "s"
}

func Pq_chan(n int) chan int {
	c := make(chan int, 4)
	for i := 0; i < n; i++ {
		c <- i
	}
	close(c)
	return c
}

var Pq_ready = Pq_chan(0)

var Pq_never = make(chan int)
`

func (c *cfCase) funcText() string {
	var b strings.Builder
	fmt.Fprintf(&b, "func Pq_k%d() {\n\tz := 1\n\t_ = z\n", c.id)
	cfRenderBody(&b, c.body, "\t", c.usedLabels(), "")
	b.WriteString("\tprint(\"end\")\n}\n")
	return b.String()
}

func cfProgram(cases []*cfCase) string {
	var b strings.Builder
	b.WriteString("package main\n\n")
	b.WriteString(cfDecls)
	b.WriteString("\n")
	for _, c := range cases {
		b.WriteString(c.funcText() + "\n")
	}
	b.WriteString("func Pq_run(id int, f func()) {\n\tdefer func() {\n\t\tif r := recover(); r != nil {\n\t\t\tprint(\" PANIC\")\n\t\t}\n\t\tprintln()\n\t}()\n\tprint(\"C \", id, \" \")\n\tf()\n}\n\n")
	const groupSize = 100
	ngroups := (len(cases) + groupSize - 1) / groupSize
	for g := 0; g < ngroups; g++ {
		fmt.Fprintf(&b, "func Pq_group%d() {\n", g)
		for i := g * groupSize; i < len(cases) && i < (g+1)*groupSize; i++ {
			fmt.Fprintf(&b, "\tPq_run(%d, Pq_k%d)\n", cases[i].id, cases[i].id)
		}
		b.WriteString("}\n\n")
	}
	b.WriteString("func main() {\n")
	for g := 0; g < ngroups; g++ {
		fmt.Fprintf(&b, "\tPq_group%d()\n", g)
	}
	b.WriteString("}\n")
	return b.String()
}

// ---------------------------------------------------------------- features of recorded findings

// features: the recorded defects of the unchanged tree the case runs into (cfLeafFeatures of
// every leaf; computed from the generated tree alone)
func (c *cfCase) features() map[string]bool {
	out := map[string]bool{}
	var visit func(body []*cfNode, chain []cfFrame)
	visit = func(body []*cfNode, chain []cfFrame) {
		for _, n := range body {
			for _, f := range cfLeafFeatures(n.kind, n.target, chain) {
				out[f] = true
			}
			fr := cfFrame{kind: n.kind, id: n.id}
			if cfIsLoop(n.kind) {
				fr.tainted = new(bool)
			}
			for _, kb := range n.kids {
				visit(kb, append(append([]cfFrame(nil), chain...), fr))
			}
			if n.kind == "forever" {
				cfTaint(chain)
			}
		}
	}
	visit(c.body, nil)
	return out
}

func (c *cfCase) avoided(avoid map[string]bool) bool {
	for f := range c.features() {
		if avoid[f] {
			return true
		}
	}
	return false
}

// ---------------------------------------------------------------- the run

func parseCFTranscript(text string) (map[int]string, string) {
	outs := map[int]string{}
	whole := ""
	for _, line := range strings.Split(text, "\n") {
		if strings.HasPrefix(line, "===") {
			if whole == "" {
				whole = line
			}
			continue
		}
		if !strings.HasPrefix(line, "C ") {
			continue
		}
		var id int
		rest := line[2:]
		sp := strings.IndexByte(rest, ' ')
		if sp < 0 {
			continue
		}
		if _, err := fmt.Sscan(rest[:sp], &id); err != nil {
			continue
		}
		outs[id] = strings.TrimSpace(rest[sp:])
	}
	return outs, whole
}

func controlFlowStream(c *hx.Ctx, n, shrinkBudget int) error {
	res := c.Res
	avoid := map[string]bool{}
	for _, f := range c.Findings {
		for _, feat := range findingFeatures[f.ID] {
			avoid[feat] = true
		}
	}
	saved := scriggoRunTimeout
	scriggoRunTimeout = 2 * time.Second // every generated loop is bounded: a program that runs longer spins
	defer func() { scriggoRunTimeout = saved }()
	// the recorded finding whose program never returns is replayed here, under the short limit
	for _, f := range c.Findings {
		if f.ID == "break-in-select-never-lands" {
			if i := strings.Index(f.Minimal, "package main"); i >= 0 {
				p := rawProgram(f.Minimal[i:])
				if bad, s, g := programDiffers(p); bad {
					res.AddBreak(proto.Break{Kind: "property", Name: "control-flow-vs-gc", Case: f.Minimal, Impl: s, Model: "gc: " + g, Finding: f.ID})
				}
			}
		}
	}
	g := &cfGen{r: c.R, avoid: avoid}
	var cases []*cfCase
	skipped := 0
	for len(cases) < n && skipped < 50*n {
		depth := 2 + c.R.Intn(3)
		cs := &cfCase{id: len(cases), body: g.body(depth, nil)}
		jumps, nest := 0, 0
		cs.walk(func(x *cfNode) {
			if x.kind == "break" || x.kind == "continue" || x.kind == "callrec" || x.kind == "panicrec" || x.kind == "return" {
				jumps++
			}
			if len(x.kids) > 0 {
				nest++
			}
		})
		size := 0
		cs.walk(func(*cfNode) { size++ })
		if jumps == 0 || nest < 2 || size > 70 {
			// (a function with more than 256 distinct string constants is beyond a documented limit
			// of the compiler: every mark is one)
			skipped++
			continue
		}
		if cs.avoided(avoid) {
			skipped++
			res.Hist("cf-avoided-open-finding")
			continue
		}
		cases = append(cases, cs)
	}
	src := cfProgram(cases)
	if structDevDump([]string{src}) {
		return nil
	}
	gcOut, err := runGCPrograms([]*program{rawProgram(src)})
	if err != nil {
		res.AddBreak(proto.Break{Kind: "correspondence", Name: "generated-control-flow-programs-compile-with-gc", Case: "go run", Impl: err.Error(), Model: "every generated program is valid Go"})
		return nil
	}
	res.SpecChecks["go-run-invocations"]++
	gco, _ := parseCFTranscript(gcOut[0])
	run := func(cs []*cfCase) (map[int]string, string) {
		sc, err := runScriggoPrograms([]*program{rawProgram(cfProgram(cs))})
		if err != nil {
			return map[int]string{}, "=== HARNESS " + err.Error()
		}
		return parseCFTranscript(sc[0])
	}
	sco, whole := run(cases)
	reported := 0
	for _, cs := range cases {
		text := cs.funcText()
		res.Count("cf "+strings.ReplaceAll(text, fmt.Sprint(cs.id), "#"), true)
		cs.walk(func(x *cfNode) {
			if len(x.kids) > 0 || x.kind != "mark" {
				res.Hist("cf-" + x.kind)
			}
		})
		res.SpecChecks["control-flow-scriggo-vs-gc"]++
		want := gco[cs.id]
		got, ok := sco[cs.id]
		if whole != "" || !ok || got != want {
			// on its own (an earlier case may have taken the whole program down)
			o, w := run([]*cfCase{cs})
			got = o[cs.id]
			if w != "" {
				got = w + " " + got
			}
		}
		if cs.id%173 == 0 {
			res.Sample(map[string]string{"case": text, "gc": want, "scriggo": got})
		}
		if got == want {
			continue
		}
		res.Hist("cf-differs")
		if dump := os.Getenv("C01_DEV_DIFFS"); dump != "" {
			fh, _ := os.OpenFile(dump, os.O_APPEND|os.O_CREATE|os.O_WRONLY, 0o644)
			var fs []string
			for f := range cs.features() {
				fs = append(fs, f)
			}
			fmt.Fprintf(fh, "######## %v\n%s---- scriggo\n%s\n---- gc\n%s\n", fs, text, got, want)
			fh.Close()
			continue
		}
		if reported >= 3 {
			continue
		}
		reported++
		failing := func(cand *cfCase) (bool, string, string) {
			if cand.avoided(avoid) {
				return false, "", "" // a recorded defect of the unchanged tree, not this one
			}
			src := cfProgram([]*cfCase{cand})
			g1, err := runGCPrograms([]*program{rawProgram(src)})
			if err != nil {
				return false, "", ""
			}
			w1, _ := parseCFTranscript(g1[0])
			o, w := run([]*cfCase{cand})
			got := o[cand.id]
			if w != "" {
				got = w + " " + got
			}
			return got != w1[cand.id], got, w1[cand.id]
		}
		min := cfShrink(cs, failing, shrinkBudget)
		_, got2, want2 := failing(min)
		res.AddBreak(proto.Break{Kind: "property", Name: "control-flow-vs-gc", Case: cfProgram([]*cfCase{min}), Human: "stream 9: " + min.funcText(), Impl: got2, Model: "gc: " + want2})
	}
	if os.Getenv("C01_DEV_CF") != "" {
		fmt.Fprintf(os.Stderr, "control-flow stream: %d cases, %d candidates skipped\n", len(cases), skipped)
	}
	return nil
}

// ---------------------------------------------------------------- shrinking

func cfClone(body []*cfNode) []*cfNode {
	var out []*cfNode
	for _, n := range body {
		m := *n
		m.kids = nil
		for _, kb := range n.kids {
			m.kids = append(m.kids, cfClone(kb))
		}
		out = append(out, &m)
	}
	return out
}

// cfEdits: all one-step simplifications of a body: delete a statement, replace a compound
// statement by one of its bodies, make a jump unconditional, lower a loop bound
func cfEdits(body []*cfNode) [][]*cfNode {
	var out [][]*cfNode
	for i, n := range body {
		del := append(append([]*cfNode(nil), body[:i]...), body[i+1:]...)
		out = append(out, cfClone(del))
		for _, kb := range n.kids {
			hoist := append(append(append([]*cfNode(nil), body[:i]...), kb...), body[i+1:]...)
			out = append(out, cfClone(hoist))
		}
		if n.cond != "" && (n.kind == "break" || n.kind == "continue" || n.kind == "return") {
			c := cfClone(body)
			c[i].cond = ""
			out = append(out, c)
		}
		if cfIsLoop(n.kind) && n.n > 2 {
			c := cfClone(body)
			c[i].n = 2
			out = append(out, c)
		}
		for ki, kb := range n.kids {
			for _, e := range cfEdits(kb) {
				c := cfClone(body)
				c[i].kids[ki] = e
				out = append(out, c)
			}
		}
	}
	return out
}

func cfShrink(c *cfCase, failing func(*cfCase) (bool, string, string), budget int) *cfCase {
	cur := c
	for progress := true; progress && budget > 0; {
		progress = false
		edits := cfEdits(cur.body)
		// the edits that remove most first
		size := func(b []*cfNode) int {
			n := 0
			for _, x := range b {
				x.walk(func(*cfNode) { n++ })
			}
			return n
		}
		sort.SliceStable(edits, func(i, j int) bool { return size(edits[i]) < size(edits[j]) })
		for _, e := range edits {
			if budget <= 0 {
				break
			}
			cand := &cfCase{id: cur.id, body: e}
			budget--
			if bad, _, _ := failing(cand); bad {
				cur, progress = cand, true
				break
			}
		}
	}
	return cur
}
