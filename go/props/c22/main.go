package main

import (
	"encoding/json"
	"fmt"
	"os"
	"sort"
	"strconv"
	"strings"

	"github.com/open2b/scriggo/native"

	"verifharness/internal/hx"
	"verifharness/internal/proto"
)

// C22: native.Package / CombinedPackage Lookup and LookupFunc, native.Packages /
// CombinedImporter Import vs. the Lean model (Model/Packages.lean), with the property's own
// oracle: a reference on ordered slices plus the clauses of the doc comments checked directly
// on the real code's behaviour.
//
// Go's map order: the real code runs first; from the callback sequence it produced the harness
// rebuilds, per native.Package, an iteration order that explains it (entries the callback saw, in
// that order, then the others) and gives the model the package maps in that order. A correct
// implementation is reproduced exactly by the model; a wrong one (callback called twice for a
// name, not the first occurrence, wrong return value, calls after an error) cannot be.
func main() { hx.Main("C22", run) }

// ---- packages --------------------------------------------------------------------------

type kv struct {
	name int
	decl int // -1 = nil Declaration
}

type pkg struct {
	leaf  bool
	decls []kv
	kids  []*pkg
}

type outcome struct {
	kind byte // 'c' continue (nil), 's' StopLookup, 'e' error n
	n    int
}

type namedOut struct {
	name int
	out  outcome
}

type cbSpec struct {
	byIdx  []outcome
	byName []namedOut
}

var errTable = map[int]error{}

func errOf(n int) error {
	if e, ok := errTable[n]; ok {
		return e
	}
	e := fmt.Errorf("E%d", n)
	errTable[n] = e
	return e
}

func (o outcome) err() error {
	switch o.kind {
	case 's':
		return native.StopLookup
	case 'e':
		return errOf(o.n)
	}
	return nil
}

func (o outcome) String() string {
	if o.kind == 'e' {
		return "e" + strconv.Itoa(o.n)
	}
	return string(o.kind)
}

func showErr(err error) string {
	if err == nil {
		return "nil"
	}
	if err == native.StopLookup {
		return "stop"
	}
	for n, e := range errTable {
		if e == err {
			return "e" + strconv.Itoa(n)
		}
	}
	return "e?" + strings.ReplaceAll(err.Error(), " ", "_")
}

func (c cbSpec) at(i, name int) outcome {
	if i < len(c.byIdx) && c.byIdx[i].kind != 'c' {
		return c.byIdx[i]
	}
	for _, no := range c.byName {
		if no.name == name {
			return no.out
		}
	}
	return outcome{kind: 'c'}
}

func (c cbSpec) enc() string {
	var b strings.Builder
	fmt.Fprintf(&b, "%d", len(c.byIdx))
	for _, o := range c.byIdx {
		b.WriteString(" " + o.String())
	}
	fmt.Fprintf(&b, " %d", len(c.byName))
	for _, no := range c.byName {
		fmt.Fprintf(&b, " %d %s", no.name, no.out)
	}
	return b.String()
}

func declTok(d int) string {
	if d < 0 {
		return "n"
	}
	return strconv.Itoa(d)
}

func (p *pkg) enc(b *strings.Builder) {
	if p.leaf {
		fmt.Fprintf(b, "p %d", len(p.decls))
		for _, e := range p.decls {
			fmt.Fprintf(b, " %d %s", e.name, declTok(e.decl))
		}
		return
	}
	fmt.Fprintf(b, "c %d", len(p.kids))
	for _, k := range p.kids {
		b.WriteByte(' ')
		k.enc(b)
	}
}

func (p *pkg) String() string {
	var b strings.Builder
	p.enc(&b)
	return b.String()
}

func (p *pkg) clone() *pkg {
	q := &pkg{leaf: p.leaf, decls: append([]kv(nil), p.decls...)}
	for _, k := range p.kids {
		q.kids = append(q.kids, k.clone())
	}
	return q
}

func (p *pkg) leaves(out []*pkg) []*pkg {
	if p.leaf {
		return append(out, p)
	}
	for _, k := range p.kids {
		out = k.leaves(out)
	}
	return out
}

func nameStr(n int) string { return "N" + strconv.Itoa(n) }

func nameID(s string) int {
	n, err := strconv.Atoi(strings.TrimPrefix(s, "N"))
	if err != nil {
		return -2
	}
	return n
}

func declVal(d int) native.Declaration {
	if d < 0 {
		return nil
	}
	return d
}

func declID(d native.Declaration) int {
	if d == nil {
		return -1
	}
	if v, ok := d.(int); ok {
		return v
	}
	return -3
}

// real builds the library's own values.
func (p *pkg) real() native.ImportablePackage {
	if p.leaf {
		m := native.Declarations{}
		for _, e := range p.decls {
			m[nameStr(e.name)] = declVal(e.decl)
		}
		return native.Package{Name: "pkg", Declarations: m}
	}
	c := native.CombinedPackage{}
	for _, k := range p.kids {
		c = append(c, k.real())
	}
	return c
}

type lfResult struct {
	trace    []kv
	outs     []outcome
	ret      error
	panicked string
}

func runLookupFunc(p *pkg, cb cbSpec) (r lfResult) {
	defer func() {
		if x := recover(); x != nil {
			r.panicked = fmt.Sprint(x)
		}
	}()
	real := p.real()
	r.ret = real.LookupFunc(func(name string, decl native.Declaration) error {
		o := cb.at(len(r.trace), nameID(name))
		r.trace = append(r.trace, kv{nameID(name), declID(decl)})
		r.outs = append(r.outs, o)
		if len(r.trace) > 10000 {
			panic("callback called more than 10000 times")
		}
		return o.err()
	})
	return r
}

func showPairs(t []kv) string {
	if len(t) == 0 {
		return "-"
	}
	s := make([]string, len(t))
	for i, e := range t {
		s[i] = strconv.Itoa(e.name) + ":" + declTok(e.decl)
	}
	return strings.Join(s, ",")
}

func (r lfResult) line() string {
	if r.panicked != "" {
		return "err panic"
	}
	return "ok " + showErr(r.ret) + " " + showPairs(r.trace)
}

// reorder returns a copy of p whose leaves list first the entries the callback saw, in the
// order it saw them (each trace element is attributed to the first leaf, in combination order,
// holding exactly that pair and not yet used), then the remaining entries.
func reorder(p *pkg, trace []kv) *pkg {
	q := p.clone()
	ls := q.leaves(nil)
	pos := make([]map[int]int, len(ls)) // leaf -> entry index -> trace position
	for i := range pos {
		pos[i] = map[int]int{}
	}
	for ti, t := range trace {
	search:
		for li, l := range ls {
			for ei, e := range l.decls {
				if e == t {
					if _, used := pos[li][ei]; !used {
						pos[li][ei] = ti
						break search
					}
				}
			}
		}
	}
	for li, l := range ls {
		idx := make([]int, len(l.decls))
		for i := range idx {
			idx[i] = i
		}
		key := func(i int) int {
			if tp, ok := pos[li][i]; ok {
				return tp
			}
			return len(trace) + i
		}
		sort.SliceStable(idx, func(a, b int) bool { return key(idx[a]) < key(idx[b]) })
		nd := make([]kv, len(idx))
		for i, j := range idx {
			nd[i] = l.decls[j]
		}
		l.decls = nd
	}
	return q
}

// refDecls is the reference enumeration on ordered slices: all entries in combination order,
// first occurrence of every name.
func refDecls(p *pkg) []kv {
	seen := map[int]bool{}
	var out []kv
	for _, l := range p.leaves(nil) {
		for _, e := range l.decls {
			if !seen[e.name] {
				seen[e.name] = true
				out = append(out, e)
			}
		}
	}
	return out
}

// refLookupFunc is the reference LookupFunc on ordered slices.
func refLookupFunc(p *pkg, cb cbSpec) (trace []kv, ret error) {
	for i, e := range refDecls(p) {
		trace = append(trace, e)
		if err := cb.at(i, e.name).err(); err != nil {
			if err == native.StopLookup {
				return trace, nil
			}
			return trace, err
		}
	}
	return trace, nil
}

// lfOracle evaluates the property on the real code: the clauses of the doc comments of
// native.LookupFunc / ImportablePackage.LookupFunc / CombinedPackage.LookupFunc, none of which
// depends on the map iteration order, then the ordered reference under the reconstructed order.
func lfOracle(p *pkg, cb cbSpec) (clause string, r lfResult) {
	r = runLookupFunc(p, cb)
	if r.panicked != "" {
		return "panics", r
	}
	first := map[int]int{} // name -> declaration of its first occurrence in combination order
	for _, l := range p.leaves(nil) {
		for _, e := range l.decls {
			if _, ok := first[e.name]; !ok {
				first[e.name] = e.decl
			}
		}
	}
	seen := map[int]bool{}
	for i, t := range r.trace {
		if seen[t.name] {
			return "called-once-per-name", r
		}
		seen[t.name] = true
		if d, ok := first[t.name]; !ok || d != t.decl {
			return "first-occurrence", r
		}
		if r.outs[i].kind != 'c' && i != len(r.trace)-1 {
			return "stops-at-first-error", r
		}
	}
	var last outcome = outcome{kind: 'c'}
	if n := len(r.outs); n > 0 {
		last = r.outs[n-1]
	}
	switch last.kind {
	case 'c':
		if len(seen) != len(first) {
			return "visits-every-name", r
		}
		if r.ret != nil {
			return "returns-nil-without-error", r
		}
	case 's':
		if r.ret != nil {
			return "returns-nil-for-StopLookup", r
		}
	case 'e':
		if r.ret != last.err() {
			return "returns-the-error", r
		}
	}
	wt, wret := refLookupFunc(reorder(p, r.trace), cb)
	if showPairs(wt) != showPairs(r.trace) || wret != r.ret {
		return "ordered-reference", r
	}
	return "", r
}

// shrinkPkg removes entries, children and nesting while failing stays true.
func shrinkPkg(p *pkg, failing func(*pkg) bool) *pkg {
	cur := p.clone()
	for progress := true; progress; {
		progress = false
		var cands []*pkg
		var walk func(path []int, n *pkg)
		edit := func(path []int, f func(n *pkg) *pkg) *pkg {
			c := cur.clone()
			if len(path) == 0 {
				return f(c)
			}
			n := c
			for _, i := range path[:len(path)-1] {
				n = n.kids[i]
			}
			last := path[len(path)-1]
			n.kids[last] = f(n.kids[last])
			return c
		}
		walk = func(path []int, n *pkg) {
			pth := append([]int(nil), path...)
			if n.leaf {
				for i := range n.decls {
					i := i
					cands = append(cands, edit(pth, func(m *pkg) *pkg {
						m.decls = append(append([]kv(nil), m.decls[:i]...), m.decls[i+1:]...)
						return m
					}))
				}
				return
			}
			for i := range n.kids {
				i := i
				cands = append(cands, edit(pth, func(m *pkg) *pkg {
					m.kids = append(append([]*pkg(nil), m.kids[:i]...), m.kids[i+1:]...)
					return m
				}))
				cands = append(cands, edit(pth, func(m *pkg) *pkg { return m.kids[i] }))
				walk(append(pth, i), n.kids[i])
			}
		}
		walk(nil, cur)
		for _, c := range cands {
			if failing(c) {
				cur = c
				progress = true
				break
			}
		}
	}
	return cur
}

func shrinkCb(cb cbSpec, failing func(cbSpec) bool) cbSpec {
	cur := cb
	for progress := true; progress; {
		progress = false
		for i := range cur.byName {
			c := cbSpec{byIdx: cur.byIdx, byName: append(append([]namedOut(nil), cur.byName[:i]...), cur.byName[i+1:]...)}
			if failing(c) {
				cur, progress = c, true
				break
			}
		}
		if n := len(cur.byIdx); n > 0 && !progress {
			c := cbSpec{byIdx: cur.byIdx[:n-1], byName: cur.byName}
			if failing(c) {
				cur, progress = c, true
			}
		}
	}
	return cur
}

// ---- Lookup ------------------------------------------------------------------------------

func realLookup(p *pkg, name int) (d int, panicked string) {
	defer func() {
		if x := recover(); x != nil {
			panicked = fmt.Sprint(x)
		}
	}()
	return declID(p.real().Lookup(nameStr(name))), ""
}

// refLookup: as documented on CombinedPackage, the first not-nil value in combination order.
func refLookup(p *pkg, name int) int {
	for _, l := range p.leaves(nil) {
		for _, e := range l.decls {
			if e.name == name && e.decl >= 0 {
				return e.decl
			}
		}
	}
	return -1
}

// ---- importers -----------------------------------------------------------------------------

type impRow struct {
	path, pkg, err int // -1 = nil
}

type imp struct {
	kind string // "pk", "cu", "co"
	id   int
	rows []impRow
	kids []*imp
}

func (i *imp) enc(b *strings.Builder) {
	switch i.kind {
	case "pk":
		fmt.Fprintf(b, "pk %d", len(i.rows))
		for _, r := range i.rows {
			fmt.Fprintf(b, " %d %s", r.path, declTok(r.pkg))
		}
	case "cu":
		fmt.Fprintf(b, "cu %d %d", i.id, len(i.rows))
		for _, r := range i.rows {
			fmt.Fprintf(b, " %d %s %s", r.path, declTok(r.pkg), declTok(r.err))
		}
	default:
		fmt.Fprintf(b, "co %d", len(i.kids))
		for _, k := range i.kids {
			b.WriteByte(' ')
			k.enc(b)
		}
	}
}

func (i *imp) String() string {
	var b strings.Builder
	i.enc(&b)
	return b.String()
}

func (i *imp) clone() *imp {
	q := &imp{kind: i.kind, id: i.id, rows: append([]impRow(nil), i.rows...)}
	for _, k := range i.kids {
		q.kids = append(q.kids, k.clone())
	}
	return q
}

type customImporter struct {
	id   int
	rows []impRow
	log  *[]int
}

func pkgVal(n int) native.ImportablePackage {
	if n < 0 {
		return nil
	}
	return native.Package{Name: "P" + strconv.Itoa(n)}
}

func (c customImporter) Import(path string) (native.ImportablePackage, error) {
	*c.log = append(*c.log, c.id)
	for _, r := range c.rows {
		if "path"+strconv.Itoa(r.path) == path {
			var err error
			if r.err >= 0 {
				err = errOf(r.err)
			}
			return pkgVal(r.pkg), err
		}
	}
	return nil, nil
}

func (i *imp) real(log *[]int) native.Importer {
	switch i.kind {
	case "pk":
		m := native.Packages{}
		for _, r := range i.rows {
			m["path"+strconv.Itoa(r.path)] = pkgVal(r.pkg)
		}
		return m
	case "cu":
		return customImporter{id: i.id, rows: i.rows, log: log}
	}
	c := native.CombinedImporter{}
	for _, k := range i.kids {
		c = append(c, k.real(log))
	}
	return c
}

func showIDs(l []int) string {
	if len(l) == 0 {
		return "-"
	}
	s := make([]string, len(l))
	for i, v := range l {
		s[i] = strconv.Itoa(v)
	}
	return strings.Join(s, ",")
}

func realImport(i *imp, path int) (line string) {
	defer func() {
		if x := recover(); x != nil {
			line = "err panic"
		}
	}()
	var log []int
	p, err := i.real(&log).Import("path" + strconv.Itoa(path))
	ps := "n"
	if p != nil {
		ps = strings.TrimPrefix(p.PackageName(), "P")
	}
	es := "n"
	if err != nil {
		es = strings.TrimPrefix(showErr(err), "e")
	}
	return "ok " + ps + " " + es + " " + showIDs(log)
}

// refImport: the first result that is not (nil, nil), asking the non-combined importers in
// order and none after the hit.
func refImport(i *imp, path int) string {
	var log []int
	var leaves func(i *imp, out []*imp) []*imp
	leaves = func(i *imp, out []*imp) []*imp {
		if i.kind != "co" {
			return append(out, i)
		}
		for _, k := range i.kids {
			out = leaves(k, out)
		}
		return out
	}
	for _, l := range leaves(i, nil) {
		if l.kind == "cu" {
			log = append(log, l.id)
		}
		for _, r := range l.rows {
			if r.path == path {
				p, e := r.pkg, r.err
				if l.kind == "pk" {
					e = -1
				}
				if p >= 0 || e >= 0 {
					return "ok " + declTok(p) + " " + declTok(e) + " " + showIDs(log)
				}
				break
			}
		}
	}
	return "ok n n " + showIDs(log)
}

// ---- parsing (replays) -----------------------------------------------------------------------

type toks struct {
	t []string
	i int
}

func (t *toks) next() string {
	if t.i >= len(t.t) {
		panic("replay: truncated case")
	}
	t.i++
	return t.t[t.i-1]
}
func (t *toks) num() int {
	s := t.next()
	if s == "n" {
		return -1
	}
	n, err := strconv.Atoi(s)
	if err != nil {
		panic("replay: bad number " + s)
	}
	return n
}

func parsePkg(t *toks) *pkg {
	switch t.next() {
	case "p":
		p := &pkg{leaf: true}
		for k := t.num(); k > 0; k-- {
			n := t.num()
			p.decls = append(p.decls, kv{n, t.num()})
		}
		return p
	case "c":
		p := &pkg{}
		for k := t.num(); k > 0; k-- {
			p.kids = append(p.kids, parsePkg(t))
		}
		return p
	}
	panic("replay: bad package")
}

func parseOut(s string) outcome {
	if s == "c" || s == "s" {
		return outcome{kind: s[0]}
	}
	n, err := strconv.Atoi(strings.TrimPrefix(s, "e"))
	if err != nil {
		panic("replay: bad outcome " + s)
	}
	return outcome{kind: 'e', n: n}
}

func parseCb(t *toks) cbSpec {
	var cb cbSpec
	for k := t.num(); k > 0; k-- {
		cb.byIdx = append(cb.byIdx, parseOut(t.next()))
	}
	for k := t.num(); k > 0; k-- {
		n := t.num()
		cb.byName = append(cb.byName, namedOut{n, parseOut(t.next())})
	}
	return cb
}

func parseImp(t *toks) *imp {
	switch kind := t.next(); kind {
	case "pk":
		i := &imp{kind: kind}
		for k := t.num(); k > 0; k-- {
			p := t.num()
			i.rows = append(i.rows, impRow{p, t.num(), -1})
		}
		return i
	case "cu":
		i := &imp{kind: kind, id: t.num()}
		for k := t.num(); k > 0; k-- {
			p := t.num()
			v := t.num()
			i.rows = append(i.rows, impRow{p, v, t.num()})
		}
		return i
	case "co":
		i := &imp{kind: kind}
		for k := t.num(); k > 0; k-- {
			i.kids = append(i.kids, parseImp(t))
		}
		return i
	}
	panic("replay: bad importer")
}

// ---- cases -----------------------------------------------------------------------------------

type pending struct {
	line, impl, human, tie string
}

type runner struct {
	c    *hx.Ctx
	pend []pending
}

func (r *runner) caseLookupFunc(p *pkg, cb cbSpec) {
	res := r.c.Res
	clause, got := lfOracle(p, cb)
	if clause != "" {
		sp := shrinkPkg(p, func(q *pkg) bool { cl, _ := lfOracle(q, cb); return cl == clause })
		scb := shrinkCb(cb, func(c cbSpec) bool { cl, _ := lfOracle(sp, c); return cl == clause })
		_, g := lfOracle(sp, scb)
		ro := reorder(sp, g.trace)
		wt, wret := refLookupFunc(ro, scb)
		res.AddBreak(proto.Break{Kind: "property", Name: "LookupFunc/" + clause,
			Case:  "C22 lookupfunc " + ro.String() + " " + scb.enc(),
			Human: fmt.Sprintf("LookupFunc on %s with callback %s (names N<i>, declarations ints, callback outcomes by call index then by name)", sp, scb.enc()),
			Impl:  g.line(), Model: "ok " + showErr(wret) + " " + showPairs(wt)})
	}
	ro := reorder(p, got.trace)
	r.pend = append(r.pend, pending{line: "C22 lookupfunc " + ro.String() + " " + cb.enc(), impl: got.line(),
		human: fmt.Sprintf("LookupFunc on %s with callback %s", p, cb.enc()), tie: "lookupFunc-model-vs-native.LookupFunc"})
	key := p.String() + "|" + cb.enc()
	nontrivial := len(got.trace) > 0 && len(p.leaves(nil)) > 0
	res.Count(key, nontrivial)
	res.Hist(fmt.Sprintf("lookupfunc-calls%02d", min(len(got.trace), 12)))
	if len(got.outs) > 0 {
		res.Hist("lookupfunc-last-outcome-" + string(got.outs[len(got.outs)-1].kind))
	}
}

func (r *runner) caseLookup(p *pkg, name int) {
	res := r.c.Res
	oracle := func(q *pkg) (string, int) {
		d, pan := realLookup(q, name)
		if pan != "" {
			return "panics", d
		}
		if d != refLookup(q, name) {
			return "first-non-nil", d
		}
		return "", d
	}
	clause, d := oracle(p)
	if clause != "" {
		sp := shrinkPkg(p, func(q *pkg) bool { cl, _ := oracle(q); return cl == clause })
		_, g := oracle(sp)
		res.AddBreak(proto.Break{Kind: "property", Name: "Lookup/" + clause,
			Case:  fmt.Sprintf("C22 lookup %s %d", sp, name),
			Human: fmt.Sprintf("Lookup(%q) on %s", nameStr(name), sp),
			Impl:  "ok " + declTok(g), Model: "ok " + declTok(refLookup(sp, name))})
	}
	impl := "ok " + declTok(d)
	if clause == "panics" {
		impl = "err panic"
	}
	r.pend = append(r.pend, pending{line: fmt.Sprintf("C22 lookup %s %d", p, name), impl: impl,
		human: fmt.Sprintf("Lookup(%q) on %s", nameStr(name), p), tie: "lookup-model-vs-native.Lookup"})
	res.Count(fmt.Sprintf("lookup|%s|%d", p, name), d >= 0)
	res.Hist("lookup")
}

func (r *runner) caseImport(i *imp, path int) {
	res := r.c.Res
	got := realImport(i, path)
	if want := refImport(i, path); got != want {
		// shrink: drop children / rows while the two still differ
		cur := i.clone()
		for progress := true; progress; {
			progress = false
			var try func(n *imp) bool
			try = func(n *imp) bool {
				for k := range n.kids {
					save := n.kids
					n.kids = append(append([]*imp(nil), save[:k]...), save[k+1:]...)
					if realImport(cur, path) != refImport(cur, path) {
						return true
					}
					n.kids = save
					if try(n.kids[k]) {
						return true
					}
				}
				for k := range n.rows {
					save := n.rows
					n.rows = append(append([]impRow(nil), save[:k]...), save[k+1:]...)
					if realImport(cur, path) != refImport(cur, path) {
						return true
					}
					n.rows = save
				}
				return false
			}
			progress = try(cur)
		}
		res.AddBreak(proto.Break{Kind: "property", Name: "Import/first-result-in-order",
			Case:  fmt.Sprintf("C22 import %s %d", cur, path),
			Human: fmt.Sprintf("Import(\"path%d\") on %s (answer: package, error, custom importers called)", path, cur),
			Impl:  realImport(cur, path), Model: refImport(cur, path)})
		_ = want
	}
	r.pend = append(r.pend, pending{line: fmt.Sprintf("C22 import %s %d", i, path), impl: got,
		human: fmt.Sprintf("Import(path%d) on %s", path, i), tie: "import-model-vs-native.Import"})
	res.Count(fmt.Sprintf("import|%s|%d", i, path), got != "ok n n -")
	res.Hist("import")
}

func (r *runner) flush() error {
	if r.c.D == nil || len(r.pend) == 0 {
		r.pend = nil
		return nil
	}
	lines := make([]string, len(r.pend))
	for i, p := range r.pend {
		lines[i] = p.line
	}
	model, err := r.c.D.Batch(lines)
	if err != nil {
		return err
	}
	for i, p := range r.pend {
		if i%997 == 0 {
			r.c.Res.Sample(map[string]string{"line": p.line, "impl": p.impl, "model": model[i]})
		}
		if model[i] != p.impl {
			r.c.Res.AddBreak(proto.Break{Kind: "correspondence", Name: p.tie, Case: p.line, Human: p.human, Impl: p.impl, Model: model[i]})
		}
	}
	r.pend = nil
	return nil
}

func (r *runner) replayCase(line string) (err error) {
	defer func() {
		if x := recover(); x != nil {
			err = fmt.Errorf("%v", x)
		}
	}()
	t := &toks{t: strings.Fields(line)}
	t.next()
	switch op := t.next(); op {
	case "lookupfunc":
		p := parsePkg(t)
		r.caseLookupFunc(p, parseCb(t))
	case "lookup":
		p := parsePkg(t)
		r.caseLookup(p, t.num())
	case "import":
		i := parseImp(t)
		r.caseImport(i, t.num())
	case "decls":
	default:
		return fmt.Errorf("replay: unknown op %q", op)
	}
	return r.flush()
}

// ---- generators --------------------------------------------------------------------------------

const nNames = 7

func genPkg(c *hx.Ctx, depth int, leafNo *int) *pkg {
	if depth == 0 || c.R.Intn(2+depth) == 0 {
		p := &pkg{leaf: true}
		*leafNo++
		for n := 0; n < nNames; n++ {
			if c.R.Intn(5) < 2 {
				d := *leafNo*100 + n // distinct per (package, name)
				if c.R.Intn(10) == 0 {
					d = -1
				}
				p.decls = append(p.decls, kv{n, d})
			}
		}
		// the generated order is not the iteration order; shuffle anyway
		for i := len(p.decls) - 1; i > 0; i-- {
			j := c.R.Intn(i + 1)
			p.decls[i], p.decls[j] = p.decls[j], p.decls[i]
		}
		return p
	}
	p := &pkg{}
	for k := c.R.Intn(4) + c.R.Intn(2); k > 0; k-- {
		p.kids = append(p.kids, genPkg(c, depth-1, leafNo))
	}
	return p
}

func genOutcome(c *hx.Ctx) outcome {
	if c.R.Bool() {
		return outcome{kind: 's'}
	}
	return outcome{kind: 'e', n: 1 + c.R.Intn(3)}
}

func genImp(c *hx.Ctx, depth int, id *int) *imp {
	switch k := c.R.Intn(4); {
	case depth > 0 && k < 2:
		i := &imp{kind: "co"}
		for n := c.R.Intn(4); n > 0; n-- {
			i.kids = append(i.kids, genImp(c, depth-1, id))
		}
		return i
	case k == 2 || (depth == 0 && k == 0):
		i := &imp{kind: "pk"}
		for p := 0; p < 3; p++ {
			if c.R.Intn(3) == 0 {
				v := 10*len(i.rows) + c.R.Intn(50)
				if c.R.Intn(6) == 0 {
					v = -1
				}
				i.rows = append(i.rows, impRow{p, v, -1})
			}
		}
		return i
	default:
		i := &imp{kind: "cu", id: *id}
		*id++
		for p := 0; p < 3; p++ {
			if c.R.Intn(3) == 0 {
				row := impRow{p, -1, -1}
				switch c.R.Intn(4) {
				case 0:
					row.pkg = c.R.Intn(50)
				case 1:
					row.err = 1 + c.R.Intn(3)
				case 2:
					row.pkg, row.err = c.R.Intn(50), 1+c.R.Intn(3)
				}
				i.rows = append(i.rows, row)
			}
		}
		return i
	}
}

func run(c *hx.Ctx) error {
	res := c.Res
	res.Rule = "random trees of native.Package/CombinedPackage (depth ≤ 3, ≤ 4 children, 7 names, declarations distinct per package, 10% nil) each with the callback failing (error) and stopping (StopLookup) at every call index 0..#distinct names, plus callbacks failing by name; Lookup of every name and an absent one; random importer trees (Packages with nil entries, custom importers returning package/error/both/neither, CombinedImporter nesting) on every path; non-trivial: LookupFunc cases with at least one callback invocation, Lookup cases returning a declaration, Import cases returning something; distinct by tree+callback"
	r := &runner{c: c}
	for n := 1; n <= 3; n++ {
		errOf(n)
	}

	if c.Replay != "" {
		// re-run exactly the recorded case first, then the recorded tier/seed as usual
		path := c.Replay
		if _, err := os.Stat(path); err != nil && !strings.HasPrefix(path, "/") {
			path = "../" + path // ./check runs the harness in go/
		}
		data, err := os.ReadFile(path)
		if err != nil {
			return err
		}
		var rp struct {
			Case   string          `json:"case"`
			Detail json.RawMessage `json:"detail"`
		}
		if err := json.Unmarshal(data, &rp); err != nil {
			return err
		}
		if rp.Case == "" && len(rp.Detail) > 0 {
			var d struct {
				Case string `json:"case"`
			}
			if json.Unmarshal(rp.Detail, &d) == nil {
				rp.Case = d.Case
			}
		}
		if strings.HasPrefix(rp.Case, "C22 ") {
			if err := r.replayCase(rp.Case); err != nil {
				return err
			}
		}
	}

	// fixed small cases first: the one-declaration witnesses
	one := &pkg{leaf: true, decls: []kv{{0, 1}}}
	for _, o := range []outcome{{kind: 'e', n: 1}, {kind: 's'}, {kind: 'c'}} {
		r.caseLookupFunc(one, cbSpec{byIdx: []outcome{o}})
		r.caseLookupFunc(&pkg{kids: []*pkg{one}}, cbSpec{byIdx: []outcome{o}})
	}

	specLines, specWant := []string{}, []string{}
	for i := 0; i < c.N(300, 6000); i++ {
		leafNo := 0
		p := genPkg(c, 3, &leafNo)
		if i%4 == 0 && !p.leaf { // make sure deep nesting with duplicates is common
			p = &pkg{kids: []*pkg{p, genPkg(c, 2, &leafNo)}}
		}
		d := len(refDecls(p))
		for k := 0; k <= d; k++ {
			for _, o := range []outcome{{kind: 's'}, {kind: 'e', n: 1 + c.R.Intn(3)}} {
				idx := make([]outcome, k+1)
				for j := range idx {
					idx[j] = outcome{kind: 'c'}
				}
				idx[k] = o
				r.caseLookupFunc(p, cbSpec{byIdx: idx})
			}
		}
		for k := 0; k < 3; k++ {
			var cb cbSpec
			for n := c.R.Intn(3) + 1; n > 0; n-- {
				cb.byName = append(cb.byName, namedOut{c.R.Intn(nNames + 1), genOutcome(c)})
			}
			if c.R.Intn(3) == 0 {
				cb.byIdx = []outcome{{kind: 'c'}, {kind: 'c'}, genOutcome(c)}
			}
			r.caseLookupFunc(p, cb)
		}
		for n := 0; n <= nNames; n++ {
			r.caseLookup(p, n)
		}
		specLines = append(specLines, "C22 decls "+p.String())
		specWant = append(specWant, "ok "+showPairs(refDecls(p)))
		res.Hist(fmt.Sprintf("tree-leaves%02d", min(len(p.leaves(nil)), 12)))
	}
	for i := 0; i < c.N(600, 12000); i++ {
		id := 0
		im := genImp(c, 3, &id)
		for path := 0; path < 3; path++ {
			r.caseImport(im, path)
		}
	}
	if err := r.flush(); err != nil {
		return err
	}
	// spec validation: the Lean specification's enumeration `Pkg.decls` against the Go reference
	if c.D != nil {
		got, err := c.D.Batch(specLines)
		if err != nil {
			return err
		}
		for i := range got {
			res.SpecChecks["decls-spec-vs-go-reference"]++
			if got[i] != specWant[i] {
				res.AddBreak(proto.Break{Kind: "correspondence", Name: "spec-decls-vs-go-reference", Case: specLines[i], Impl: specWant[i], Model: got[i]})
			}
		}
	}
	return nil
}
