package main

import (
	"bytes"
	"fmt"
	goast "go/ast"
	goparser "go/parser"
	gotoken "go/token"
	"os"
	"path/filepath"
	"reflect"
	"regexp"
	"sort"
	"strconv"
	"strings"

	"github.com/open2b/scriggo/ast"
	"github.com/open2b/scriggo/ast/astutil"
	c27 "github.com/open2b/scriggo/verifhook/c27"

	"verifharness/internal/hx"
	"verifharness/internal/proto"
)

// C27: printing a parsed syntax tree gives source that parses back to the same tree.
//
//   - oracle on the real code (independent of the model): random real trees and the expressions
//     of the corpora: real String() → real parser → same structure (positions and parentheses
//     counts ignored; astutil.Dump equal once positions are removed), and printing the re-parsed
//     tree and parsing again is exact (parentheses counts included);
//   - correspondence: real lexer(real String(e)) = model print e, real parse = model parse
//     (also on malformed token streams), through the Lean driver in prefix notation;
//   - specification validation: on pure Go expressions the real parser groups as go/parser does;
//   - statements (stmt.go): source → tree → String() → tree in every position of the grammar, and
//     the regenerated operator tables against the real printer, lexer and parser.
func main() { hx.Main("C27", run) }

func repoDir() string {
	if d := os.Getenv("VERIF_REPO"); d != "" {
		return d
	}
	return "/repo"
}

func isNil(e ast.Expression) bool { return e == nil || reflect.ValueOf(e).IsNil() }

func parseReal(src string, d dialect) (e ast.Expression, err error) {
	defer func() {
		if r := recover(); r != nil {
			e, err = nil, fmt.Errorf("host panic: %v", r)
		}
	}()
	return c27.ParseExpr(src, d == template)
}

func stringReal(e ast.Expression) (s string, err error) {
	defer func() {
		if r := recover(); r != nil {
			err = fmt.Errorf("host panic: %v", r)
		}
	}()
	return e.String(), nil
}

var dumpPos = regexp.MustCompile(`(?m)^((?:│    )*\S+) \([^)]*\) `)

// dumpNoPos is astutil.Dump with the positions removed.
func dumpNoPos(n ast.Node) string {
	var b bytes.Buffer
	func() {
		defer func() {
			if r := recover(); r != nil {
				fmt.Fprintf(&b, "dump panic: %v", r)
			}
		}()
		if err := astutil.Dump(&b, n); err != nil {
			fmt.Fprintf(&b, "dump error: %v", err)
		}
	}()
	return dumpPos.ReplaceAllString(b.String(), "$1 ")
}

// walkAll calls f on every ast node reachable from v through exported fields (astutil.Walk does
// not descend into every child, e.g. Call.Func), parents before children.
func walkAll(v reflect.Value, f func(ast.Node)) {
	if !v.IsValid() {
		return
	}
	switch v.Kind() {
	case reflect.Interface, reflect.Pointer:
		if v.IsNil() || v.Type() == positionType {
			return
		}
		if v.Kind() == reflect.Pointer && v.Elem().Kind() == reflect.Struct {
			if n, ok := v.Interface().(ast.Node); ok {
				f(n)
			}
		}
		walkAll(v.Elem(), f)
	case reflect.Struct:
		t := v.Type()
		for i := 0; i < t.NumField(); i++ {
			fd := t.Field(i)
			if !fd.IsExported() || fd.Anonymous || fd.Name == "IR" || fd.Name == "Tree" || fd.Name == "Reflect" || fd.Name == "Upvars" {
				continue
			}
			walkAll(v.Field(i), f)
		}
	case reflect.Slice:
		if v.Type().Elem().Kind() == reflect.Uint8 {
			return
		}
		for i := 0; i < v.Len(); i++ {
			walkAll(v.Index(i), f)
		}
	}
}

// setPositions gives every node of a generated tree a position (Dump and the parser's error
// paths dereference them).
func setPositions(e ast.Expression) {
	walkAll(reflect.ValueOf(e), func(n ast.Node) {
		v := reflect.ValueOf(n)
		f := v.Elem().FieldByName("Position")
		if f.IsValid() && f.CanSet() && f.Type() == positionType && f.IsNil() {
			f.Set(reflect.ValueOf(&ast.Position{Line: 1, Column: 1}))
		}
	})
}

// roundTrip is the property on the real code for one tree. It returns the failing clause ("" if
// the property holds), and what was observed / expected.
func roundTrip(e ast.Expression, d dialect) (clause, got, want string) {
	s, err := stringReal(e)
	if err != nil {
		return "string-panics", err.Error(), ""
	}
	e1, err := parseReal(s, d)
	if err != nil {
		return "printed-source-does-not-parse", fmt.Sprintf("%q: %v", s, err), shape(e, false)
	}
	if a, b := shape(e1, false), shape(e, false); a != b {
		return "reparsed-tree-differs", fmt.Sprintf("%q parses to %s", s, a), b
	}
	if a, b := dumpNoPos(e1), dumpNoPos(e); a != b {
		return "reparsed-dump-differs", a, b
	}
	// the tree the parser gave prints and parses back exactly (parentheses counts included)
	s1, err := stringReal(e1)
	if err != nil {
		return "string-panics", err.Error(), ""
	}
	if s1 != s {
		return "second-print-differs", s1, s
	}
	return "", s, ""
}

type caseInfo struct {
	e ast.Expression
	d dialect
	s string
}

func dialectName(d dialect) string {
	if d == template {
		return "template"
	}
	return "program"
}

func run(c *hx.Ctx) error {
	res := c.Res
	res.Rule = "random real ast expression trees of depth ≤ 6 (all unary and binary operators, call, index, slicing, selector, type assertion, conversions, default; template and program dialects; random parentheses counts), three quarters of them outside the known finding postfix-operand-parens and one quarter in a separate stream that may contain it; half of them restricted to the Lean fragment (identifier, int literal, unary, binary, call, index, selector, parentheses); the expressions and statements of the corpus files under test/; mutated token streams; statements: every statement node with a source String form (assignments with each of the 15 operators and 1..4 sides, var, type, send, go, defer, goto, show, extends, import, render, text) written with go/token's spellings, in every position of the grammar that admits it (25 positions of program and template syntax), operands from fixed lists plus printed random expressions — a sample per cell in quick, the full product in thorough; the statements of the corpus files in the kind of position they stand in; the operator tables of the Lean side against the real printer, lexer and parser. A case is non-trivial when its tree has at least one operator or postfix node; distinct by printed source and dialect"

	// ---- known findings are replayed first
	for _, f := range c.Findings {
		if !replayStmtFinding(c, f) {
			replayFinding(c, f)
		}
	}

	// ---- 1. random trees: the oracle on the real code
	nTrees := c.N(6000, 120000)
	var fragment, nonplain []caseInfo
	seen := map[string]bool{}
	for i := 0; i < nTrees; i++ {
		d := dialect(c.R.Intn(2))
		depth := 1 + c.R.Intn(6)
		// two trees in eight (one of them in the Lean fragment) are from the separate stream that may contain the known finding
		// postfix-operand-parens (an operator as bare operand of a postfix expression)
		g := &gen{r: c.R, cfg: genCfg{d: d, modelOnly: i%2 == 0}, top: depth, plain: i%8 < 6}
		e := g.expr(depth)
		setPositions(e)
		s, _ := stringReal(e)
		key := dialectName(d) + ":" + s
		nontrivial := len(children(e)) > 0
		res.Count(key, nontrivial)
		res.Hist(fmt.Sprintf("tree-%s-%T", dialectName(d), e)[0:])
		if seen[key] {
			continue
		}
		seen[key] = true
		if clause, got, want := roundTrip(e, d); clause != "" {
			known := nonPlain(e)
			if known {
				res.Hist("tree-in-known-class-postfix-operand-parens")
				if inFragment(e) {
					nonplain = append(nonplain, caseInfo{e, d, s})
				}
			}
			min := shrinkExpr(e, func(x ast.Expression) bool {
				if numberBeforeDot(x) || defaultBelowRoot(x) || !known && nonPlain(x) {
					return false // do not slip into a recorded finding while shrinking
				}
				setPositions(x)
				cl, _, _ := roundTrip(x, d)
				return cl == clause
			})
			setPositions(min)
			_, got, want = roundTrip(min, d)
			ms, _ := stringReal(min)
			res.AddBreak(proto.Break{Kind: "property", Name: clause,
				Case:  "C27 tree " + dialectName(d) + " " + shape(min, true),
				Human: fmt.Sprintf("tree %s prints as %q (%s)", shape(min, true), ms, dialectName(d)),
				Impl:  got, Model: want, Finding: classify(c, min, d)})
			continue
		}
		if inFragment(e) {
			fragment = append(fragment, caseInfo{e, d, s})
			if len(res.Samples) < 4 && depth >= 3 {
				enc, _ := encodeExpr(e, true)
				res.Sample(map[string]string{"tree": enc, "printed": s, "dialect": dialectName(d)})
			}
		}
	}
	res.Histogram["fragment-trees"] = len(fragment)

	// ---- 2. correspondence with the Lean model
	if c.D != nil {
		if err := correspond(c, fragment, true); err != nil {
			return err
		}
		// the model mirrors the printer as it is: print and parse tie on the known class too
		if err := correspond(c, nonplain, false); err != nil {
			return err
		}
		if err := malformed(c, fragment); err != nil {
			return err
		}
	} else {
		res.Notes = append(res.Notes, "no driver: correspondence skipped")
	}

	// ---- 3. specification validation against go/parser
	specGoParser(c, fragment)

	// ---- 3b. statements in every position of the grammar; the operator tables
	if err := statements(c); err != nil {
		return err
	}
	if err := operatorTables(c); err != nil {
		return err
	}
	strContentsStream(c)

	// ---- 4. corpus
	corpus(c)
	return nil
}

// classify gives the known finding a shrunk failing tree belongs to: exactly the class
// postfix-operand-parens (a bare unary/binary operator as operand of a selector, index, slicing,
// type assertion or call), or the recorded minimal input of another finding.
func classify(c *hx.Ctx, min ast.Expression, d dialect) string {
	if nonPlain(min) && c.HasFinding("postfix-operand-parens") {
		return "postfix-operand-parens"
	}
	return matchFinding(c, min, d)
}

// matchFinding returns the id of the known finding whose minimal input is exactly this case.
func matchFinding(c *hx.Ctx, e ast.Expression, d dialect) string {
	for _, f := range c.Findings {
		parts := strings.SplitN(f.Minimal, " ", 3)
		if len(parts) != 3 || parts[1] != "source" || parts[0] != dialectName(d) {
			continue
		}
		if fe, err := parseReal(parts[2], d); err == nil && shape(fe, false) == shape(e, false) {
			return f.ID
		}
	}
	return ""
}

// replayFinding replays the minimal input of a known finding: "<dialect> source <expression source>".
func replayFinding(c *hx.Ctx, f hx.Finding) {
	parts := strings.SplitN(f.Minimal, " ", 3)
	if len(parts) != 3 || parts[1] != "source" {
		return
	}
	d := program
	if parts[0] == "template" {
		d = template
	}
	e, err := parseReal(parts[2], d)
	if err != nil {
		return
	}
	if clause, got, want := roundTrip(e, d); clause != "" {
		c.Res.AddBreak(proto.Break{Kind: "property", Name: clause, Case: "C27 source " + f.Minimal,
			Human: parts[2], Impl: got, Model: want, Finding: f.ID})
	}
}

// ---------------------------------------------------------------------------------------------
// correspondence

func realTokens(src string, d dialect) (string, bool) {
	types, texts, err := c27.Tokens(src, d == template)
	if err != nil {
		return "", false
	}
	words := make([]string, len(types))
	for i := range types {
		w, ok := tokenWord(types[i], texts[i])
		if !ok {
			return "", false
		}
		words[i] = w
	}
	return strings.Join(words, " "), true
}

func correspond(c *hx.Ctx, cases []caseInfo, plain bool) error {
	res := c.Res
	var lines []string
	for _, k := range cases {
		enc, _ := encodeExpr(k.e, true)
		lines = append(lines, "C27 print "+enc, "C27 norm "+enc)
	}
	ans, err := c.D.Batch(lines)
	if err != nil {
		return err
	}
	var parseLines []string
	var parseIdx []int
	for i, k := range cases {
		enc, _ := encodeExpr(k.e, true)
		if !plain {
			// In the known class the printed operators can glue: `-(-x).y` prints `--x.y`, `(^6).x`
			// prints `^6.x`. There the tie is on the character sequence of the tokens only.
			_, texts, err := c27.Tokens(k.s, k.d == template)
			mw := strings.Fields(strings.TrimPrefix(ans[2*i], "ok "))
			for j := range mw {
				mw[j] = wordSource(mw[j])
			}
			if toks, ok := realTokens(k.s, k.d); err != nil || !ok || "ok "+toks != ans[2*i] {
				if err == nil && strings.HasPrefix(ans[2*i], "ok ") && strings.Join(texts, "") == strings.Join(mw, "") {
					res.Hist("tie-print-known-class-glued-tokens")
				} else {
					res.AddBreak(proto.Break{Kind: "correspondence", Name: "print-model-vs-ast.String (known class, characters)", Case: lines[2*i], Human: k.s, Impl: strings.Join(texts, ""), Model: strings.Join(mw, "")})
				}
				continue
			}
		}
		toks, ok := realTokens(k.s, k.d)
		if !ok {
			res.AddBreak(proto.Break{Kind: "correspondence", Name: "real-lexer-on-printed-source", Case: lines[2*i], Human: k.s, Impl: "tokens outside the model's alphabet", Model: ans[2*i]})
			continue
		}
		if ans[2*i] != "ok "+toks {
			res.AddBreak(proto.Break{Kind: "correspondence", Name: "print-model-vs-ast.String", Case: lines[2*i], Human: enc, Impl: "ok " + toks, Model: ans[2*i]})
			continue
		}
		res.Hist("tie-print")
		// the real parser on the printed source against the model's normal form and the model's parser
		e1, err := parseReal(k.s, k.d)
		if err != nil {
			continue // reported by the oracle
		}
		enc1, ok := encodeExpr(e1, true)
		if !ok {
			res.AddBreak(proto.Break{Kind: "correspondence", Name: "real-parse-outside-fragment", Case: lines[2*i], Human: k.s, Impl: shape(e1, true), Model: ans[2*i+1]})
			continue
		}
		if !plain {
			// outside `Plain` norm is not what the parser returns; only print and parse are tied
			res.Hist("tie-print-known-class")
			parseLines = append(parseLines, "C27 parse "+toks)
			parseIdx = append(parseIdx, i)
			ans[2*i+1] = "ok " + enc1
			continue
		}
		if ans[2*i+1] != "ok "+enc1 {
			res.AddBreak(proto.Break{Kind: "correspondence", Name: "norm-model-vs-parser(String)", Case: lines[2*i+1], Human: k.s, Impl: "ok " + enc1, Model: ans[2*i+1]})
			continue
		}
		res.Hist("tie-norm")
		parseLines = append(parseLines, "C27 parse "+toks)
		parseIdx = append(parseIdx, i)
		_ = enc
	}
	pans, err := c.D.Batch(parseLines)
	if err != nil {
		return err
	}
	for j, i := range parseIdx {
		if pans[j] != ans[2*i+1] {
			res.AddBreak(proto.Break{Kind: "correspondence", Name: "parse-model-vs-parseExpr", Case: parseLines[j], Human: cases[i].s, Impl: ans[2*i+1], Model: pans[j]})
			continue
		}
		res.Hist("tie-parse")
	}
	return nil
}

var alphabet = []string{"i0", "i1", "n1", "f0", "s0", "r0", "m0", "(", ")", "[", "]", ".", ",", "...", ":", ":", "map", "chan", "interface", "{", "}", "default", "[", "]", "*", "<-", "==", "!=", "<", "<=", ">", ">=", "!", "&", "|", "&&", "||",
	"+", "-", "*", "/", "%", "^", "&^", "<<", ">>", "<-", "contains", "not", "and", "or"}

func wordSource(w string) string {
	if len(w) > 1 {
		if n, err := strconv.Atoi(w[1:]); err == nil && strconv.Itoa(n) == w[1:] {
			if w[0] == 'i' {
				return "x" + w[1:]
			}
			for _, t := range litTables {
				if t.letter == w[:1] {
					if t.texts == nil {
						return w[1:]
					}
					if n < len(t.texts) {
						return t.texts[n]
					}
				}
			}
		}
	}
	return w
}

// malformed mutates printed token streams (delete, insert, replace, swap) and compares the real
// parser's verdict and tree with the model's.
func malformed(c *hx.Ctx, cases []caseInfo) error {
	res := c.Res
	n := c.N(4000, 60000)
	if len(cases) == 0 {
		return nil
	}
	type mcase struct {
		words []string
		d     dialect
	}
	var ms []mcase
	var lines []string
	for i := 0; i < n; i++ {
		k := cases[c.R.Intn(len(cases))]
		toks, ok := realTokens(k.s, k.d)
		if !ok {
			continue
		}
		w := strings.Fields(toks)
		if len(w) > 24 {
			continue
		}
		for m := 1 + c.R.Intn(2); m > 0 && len(w) > 0; m-- {
			p := c.R.Intn(len(w))
			switch c.R.Intn(4) {
			case 0:
				w = append(w[:p:p], w[p+1:]...)
			case 1:
				w = append(w[:p:p], append([]string{c.R.Pick(alphabet)}, w[p:]...)...)
			case 2:
				w[p] = c.R.Pick(alphabet)
			default:
				q := c.R.Intn(len(w))
				w[p], w[q] = w[q], w[p]
			}
		}
		if len(w) == 0 {
			continue
		}
		skip := false
		for j := range w {
			// template-only words are identifiers in programs; `default` is a keyword in both but an
			// operator in templates only
			if k.d == program && (w[j] == "contains" || w[j] == "not" || w[j] == "and" || w[j] == "or" || w[j] == "default") {
				skip = true
			}
		}
		if skip {
			continue
		}
		ms = append(ms, mcase{w, k.d})
		lines = append(lines, "C27 parse "+strings.Join(w, " "))
	}
	ans, err := c.D.Batch(lines)
	if err != nil {
		return err
	}
	for i, m := range ms {
		src := make([]string, len(m.words))
		for j, w := range m.words {
			src[j] = wordSource(w)
		}
		s := strings.Join(src, " ")
		// the mutated stream must lex to the same words (e.g. `& &` must not have become `&&`)
		if toks, ok := realTokens(s, m.d); !ok || toks != strings.Join(m.words, " ") {
			res.Hist("malformed-skipped-relex")
			continue
		}
		impl := "err syntax"
		e, err := parseReal(s, m.d)
		if err == nil {
			enc, ok := encodeExpr(e, true)
			if !ok {
				res.Hist("malformed-skipped-outside")
				continue
			}
			impl = "ok " + enc
			res.Hist("malformed-accepted")
		} else {
			if strings.Contains(err.Error(), "host panic") {
				res.AddBreak(proto.Break{Kind: "correspondence", Name: "parseExpr-panics", Case: lines[i], Human: s, Impl: err.Error(), Model: ans[i]})
				continue
			}
			res.Hist("malformed-rejected")
		}
		res.Count("tokens:"+dialectName(m.d)+":"+s, true)
		if impl != ans[i] {
			res.AddBreak(proto.Break{Kind: "correspondence", Name: "parse-model-vs-parseExpr-on-mutated-tokens", Case: lines[i], Human: s + " (" + dialectName(m.d) + ")", Impl: impl, Model: ans[i]})
		}
	}
	return nil
}

// ---------------------------------------------------------------------------------------------
// specification validation: pure Go expressions group as go/parser groups them

func goShape(e goast.Expr) (string, bool) {
	switch n := e.(type) {
	case *goast.Ident:
		return "I " + strings.TrimPrefix(n.Name, "x"), true
	case *goast.BasicLit:
		return "L " + n.Value, true
	case *goast.ParenExpr:
		s, ok := goShape(n.X)
		return "P " + s, ok
	case *goast.UnaryExpr:
		s, ok := goShape(n.X)
		return "U" + n.Op.String() + " " + s, ok
	case *goast.StarExpr:
		s, ok := goShape(n.X)
		return "U* " + s, ok
	case *goast.BinaryExpr:
		a, ok1 := goShape(n.X)
		b, ok2 := goShape(n.Y)
		return "B" + n.Op.String() + " " + a + " " + b, ok1 && ok2
	case *goast.CallExpr:
		s, ok := goShape(n.Fun)
		v := "0"
		if n.Ellipsis.IsValid() {
			v = "1"
		}
		out := "C " + v + " " + strconv.Itoa(len(n.Args)) + " " + s
		for _, a := range n.Args {
			as, aok := goShape(a)
			out += " " + as
			ok = ok && aok
		}
		return out, ok
	case *goast.IndexExpr:
		a, ok1 := goShape(n.X)
		b, ok2 := goShape(n.Index)
		return "X " + a + " " + b, ok1 && ok2
	case *goast.SelectorExpr:
		a, ok := goShape(n.X)
		return "S " + a + " " + strings.TrimPrefix(n.Sel.Name, "x"), ok
	}
	return "", false
}

func scriggoGoShape(e ast.Expression) (string, bool) {
	if isNil(e) {
		return "", false
	}
	pre := strings.Repeat("P ", e.Parenthesis())
	switch n := e.(type) {
	case *ast.Identifier:
		return pre + "I " + strings.TrimPrefix(n.Name, "x"), true
	case *ast.BasicLiteral:
		return pre + "L " + n.Value, true
	case *ast.UnaryOperator:
		s, ok := scriggoGoShape(n.Expr)
		return pre + "U" + n.Op.String() + " " + s, ok
	case *ast.BinaryOperator:
		a, ok1 := scriggoGoShape(n.Expr1)
		b, ok2 := scriggoGoShape(n.Expr2)
		return pre + "B" + n.Op.String() + " " + a + " " + b, ok1 && ok2
	case *ast.Call:
		s, ok := scriggoGoShape(n.Func)
		v := "0"
		if n.IsVariadic {
			v = "1"
		}
		out := pre + "C " + v + " " + strconv.Itoa(len(n.Args)) + " " + s
		for _, a := range n.Args {
			as, aok := scriggoGoShape(a)
			out += " " + as
			ok = ok && aok
		}
		return out, ok
	case *ast.Index:
		a, ok1 := scriggoGoShape(n.Expr)
		b, ok2 := scriggoGoShape(n.Index)
		return pre + "X " + a + " " + b, ok1 && ok2
	case *ast.Selector:
		a, ok := scriggoGoShape(n.Expr)
		return pre + "S " + a + " " + strings.TrimPrefix(n.Ident, "x"), ok
	}
	return "", false
}

func specGoParser(c *hx.Ctx, cases []caseInfo) {
	res := c.Res
	for _, k := range cases {
		if k.d != program {
			continue
		}
		// print without the redundant parentheses rule in the way: use the printed source itself
		ge, err := goparser.ParseExprFrom(gotoken.NewFileSet(), "", k.s, 0)
		if err != nil {
			res.SpecChecks["go/parser-rejects"]++
			continue
		}
		e1, err := parseReal(k.s, program)
		if err != nil {
			continue
		}
		a, ok1 := goShape(ge)
		b, ok2 := scriggoGoShape(e1)
		if !ok1 || !ok2 {
			res.SpecChecks["go/parser-outside"]++
			continue
		}
		res.SpecChecks["go/parser-agrees-checked"]++
		if a != b {
			res.AddBreak(proto.Break{Kind: "correspondence", Name: "parseExpr-vs-go/parser (operator precedence of the Go specification)",
				Case: "C27 source program source " + k.s, Human: k.s, Impl: b, Model: a})
		}
	}
	// unparenthesised mixes, where only the precedence table decides the grouping
	ops := []string{"||", "&&", "==", "!=", "<", "<=", ">", ">=", "+", "-", "|", "^", "*", "/", "%", "<<", ">>", "&", "&^"}
	for _, o1 := range ops {
		for _, o2 := range ops {
			src := "x0 " + o1 + " x1 " + o2 + " x2"
			ge, err := goparser.ParseExprFrom(gotoken.NewFileSet(), "", src, 0)
			e1, err2 := parseReal(src, program)
			if err != nil || err2 != nil {
				continue
			}
			a, _ := goShape(ge)
			b, _ := scriggoGoShape(e1)
			res.SpecChecks["go/parser-agrees-checked"]++
			if a != b {
				res.AddBreak(proto.Break{Kind: "correspondence", Name: "parseExpr-vs-go/parser (operator precedence of the Go specification)",
					Case: "C27 source program source " + src, Human: src, Impl: b, Model: a})
			}
		}
	}
}

// ---------------------------------------------------------------------------------------------
// corpus: every expression of every file that parses, and the statements that have a String form

type exprCollector struct {
	exprs []ast.Expression
}

func (v *exprCollector) visit(n ast.Node) {
	if e, ok := n.(ast.Expression); ok && !isNil(e) {
		v.exprs = append(v.exprs, e)
	}
}

// abbreviated reports whether the printed form of e contains a node that String() abbreviates by
// design (composite literals with elements, function literals): DESIGN §8 row 30.
func abbreviated(n ast.Node) (found bool) {
	defer func() {
		if recover() != nil {
			found = true
		}
	}()
	walkAll(reflect.ValueOf(n), func(n ast.Node) {
		switch x := n.(type) {
		case *ast.CompositeLiteral:
			if len(x.KeyValues) > 0 || x.Type == nil {
				found = true
			}
		case *ast.Func, *ast.Block, *ast.StructType, *ast.Placeholder:
			found = true
		case *ast.TypeAssertion:
			if x.Type == nil {
				found = true // `x.(type)`: only the guard of a type switch, not an expression
			}
		}
	})
	return
}

func corpus(c *hx.Ctx) {
	res := c.Res
	root := filepath.Join(repoDir(), "test", "compare", "testdata")
	var files []string
	filepath.Walk(root, func(p string, info os.FileInfo, err error) error {
		if err != nil || info.IsDir() {
			return nil
		}
		switch filepath.Ext(p) {
		case ".go", ".html", ".md", ".txt", ".css", ".js", ".json":
			files = append(files, p)
		}
		return nil
	})
	sort.Strings(files)
	maxGo := c.N(250, 1<<30)
	stride := 1
	nGo := 0
	for _, f := range files {
		if filepath.Ext(f) == ".go" {
			nGo++
		}
	}
	if nGo > maxGo {
		stride = (nGo + maxGo - 1) / maxGo
	}
	off := int(c.Seed) % stride
	goSeen := 0
	for _, f := range files {
		ext := filepath.Ext(f)
		if ext == ".go" {
			goSeen++
			if (goSeen+off)%stride != 0 {
				continue
			}
		}
		src, err := os.ReadFile(f)
		if err != nil || len(src) > 200000 {
			continue
		}
		var tree *ast.Tree
		d := program
		format := ast.FormatText
		func() {
			defer func() {
				if r := recover(); r != nil {
					err = fmt.Errorf("panic: %v", r)
				}
			}()
			if ext == ".go" {
				tree, err = c27.ParseProgramSource(src, false)
			} else {
				d = template
				format = ast.FormatHTML
				switch ext {
				case ".md":
					format = ast.FormatMarkdown
				case ".txt":
					format = ast.FormatText
				case ".css":
					format = ast.FormatCSS
				case ".js":
					format = ast.FormatJS
				case ".json":
					format = ast.FormatJSON
				}
				tree, err = c27.ParseTemplateSource(src, format)
			}
		}()
		if err != nil || tree == nil {
			res.Hist("corpus-file-does-not-parse")
			continue
		}
		res.Hist("corpus-file-" + dialectName(d))
		col := &exprCollector{}
		walkAll(reflect.ValueOf(tree), col.visit)
		rel, _ := filepath.Rel(repoDir(), f)
		for _, e := range col.exprs {
			if abbreviated(e) {
				res.Hist("corpus-expr-abbreviated-by-design")
				continue
			}
			if id, ok := e.(*ast.Identifier); ok && (strings.HasPrefix(id.Name, "$") || id.Name == ".") {
				continue // internal names; the "." of `import . "p"`
			}
			if numberBeforeDot(e) {
				res.Hist("corpus-expr-known-literal-dot")
				continue
			}
			if nonPlain(e) {
				res.Hist("corpus-expr-known-postfix-operand-parens")
				continue
			}
			if invalidFullSlice(e) {
				// `a[i::]`, `a[::]`: accepted by the parser, rejected by the type checker (errorcheck files)
				res.Hist("corpus-expr-invalid-3-index-slice")
				continue
			}
			if defaultBelowRoot(e) {
				res.Hist("corpus-expr-known-default-operand")
				continue
			}
			s, _ := stringReal(e)
			res.Count("corpus:"+dialectName(d)+":"+s, len(children(e)) > 0)
			clause, got, want := roundTrip(e, d)
			if clause == "" {
				res.Hist(fmt.Sprintf("corpus-expr-ok-%T", e))
				continue
			}
			if isTypeOnly(e) {
				// type syntax that parseExpr only accepts in type position; not an expression of the property
				if _, err := parseReal(s, d); err != nil {
					res.Hist(fmt.Sprintf("corpus-type-not-reparsed-as-expression-%T", e))
					if os.Getenv("C27_DEBUG") != "" {
						fmt.Fprintf(os.Stderr, "TYPE %s %q: %v\n", rel, s, err)
					}
					continue
				}
			}
			res.Hist(fmt.Sprintf("corpus-expr-FAIL-%T", e))
			if os.Getenv("C27_DEBUG") != "" {
				fmt.Fprintf(os.Stderr, "FAIL %s %s %T %q: %s WANT %s\n", rel, clause, e, s, got, want)
			}
			res.AddBreak(proto.Break{Kind: "property", Name: clause, Case: "C27 source " + dialectName(d) + " source " + s,
				Human: fmt.Sprintf("%s: expression %q", rel, s), Impl: got, Model: want, Finding: matchFinding(c, e, d)})
		}
		for _, at := range collectStmts(tree, d) {
			corpusStmt(c, at, rel)
		}
	}
}

func invalidFullSlice(e ast.Expression) (found bool) {
	walkAll(reflect.ValueOf(e), func(n ast.Node) {
		if x, ok := n.(*ast.Slicing); ok && x.IsFull && (isNil(x.High) || isNil(x.Max)) {
			found = true
		}
	})
	return
}

func isTypeOnly(e ast.Expression) bool {
	switch e.(type) {
	case *ast.FuncType, *ast.ChanType, *ast.StructType, *ast.Interface, *ast.MapType, *ast.ArrayType, *ast.SliceType:
		return true
	}
	return false
}
