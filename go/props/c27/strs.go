package main

import (
	"fmt"
	"strconv"
	"strings"
	"unicode/utf8"

	"github.com/open2b/scriggo/ast"

	"verifharness/internal/hx"
	"verifharness/internal/proto"
)

// ---------------------------------------------------------------------------------------------
// The string-content dimension: every node that prints a string it stores unquoted (render,
// extends and import paths, struct tags) or verbatim (string and rune literals, identifiers) is
// parsed from source whose string has a content of the family below, written both as an
// interpreted literal (strconv.Quote / QuoteToASCII: the specification's quoting, never the
// printer under test) and as a raw literal, in every position the node has; printed; parsed again:
// the field must have the same value (structural equality of the node).

// strContents is the family of contents. Every content is used inside `p<content>.html` for
// paths so that it is a valid path element.
func strContents() []string {
	var out []string
	for c := 'a'; c <= 'z'; c++ {
		out = append(out, `\`+string(c)) // backslash + each letter
	}
	out = append(out, `\`, `\\`, `\0`, `\1`, `\x41`, `é`, `\ud800`, `\U0001F600`, `\"`, `\'`, "\\`",
		`"`, `""`, "`", "'", `a"b`, "a`b", `a'b`,
		"\t", "\n", "\r", "\r\n", "\x00", "\x01", "\x07", "\x1b", "\x7f", "\u0085", "\u00a0", "\u2028", "\ufeff", "\u2029",
		"\xff", "\xc3", "a\xe2\x82b", "\xed\xa0\x80",
		"é", "世界", "😀", "\u3000", "a b", "%}", "}}", "{{", "{%", "#}", "$", "%", "{",
		strings.Repeat("ab", 200), strings.Repeat(`\n`, 80), strings.Repeat(`"`, 50))
	return out
}

// writings of a content as a Go string literal
func strWritings(content string) map[string]string {
	w := map[string]string{
		"interpreted": strconv.Quote(content),
		"ascii":       strconv.QuoteToASCII(content),
	}
	if !strings.ContainsAny(content, "`\r\x00\ufeff") && utf8.ValidString(content) {
		w["raw"] = "`" + content + "`"
	}
	return w
}

type strPoint struct {
	node string // histogram name
	cx   string // position id
	kind string
	src  func(lit string) string
	path bool // the content stands inside a path
	tag  bool
}

var strPoints = []strPoint{
	{"render", "template/show-braces", "expr", func(l string) string { return "render " + l }, true, false},
	{"render-default", "template/show-braces", "expr", func(l string) string { return "render " + l + ` default "x"` }, true, false},
	{"render-argument", "template/show-braces", "expr", func(l string) string { return "f(a, render " + l + ")" }, true, false},
	{"render-show", "template/stmt", "show", func(l string) string { return "show x, render " + l }, true, false},
	{"render-assign", "template/stmts", "assign", func(l string) string { return "x = render " + l }, true, false},
	{"extends", "template/stmt", "extends", func(l string) string { return "extends " + l }, true, false},
	{"import", "template/stmt", "import", func(l string) string { return "import " + l }, true, false},
	{"import-for", "template/stmt", "import", func(l string) string { return "import " + l + " for A, B" }, true, false},
	{"import-name", "template/stmt", "import", func(l string) string { return "import x " + l }, true, false},
	{"import", "program/top-level", "import", func(l string) string { return "import " + l }, true, false},
	{"import-name", "program/top-level", "import", func(l string) string { return "import x " + l }, true, false},
	{"string-literal", "template/show-braces", "expr", func(l string) string { return l }, false, false},
	{"string-literal", "template/stmt", "assign", func(l string) string { return "x, y = " + l + ", f(" + l + ")" }, false, false},
	{"string-literal", "program/body", "assign", func(l string) string { return "x = a[" + l + "] + " + l }, false, false},
	{"string-literal", "program/top-level", "var", func(l string) string { return "var s string = " + l }, false, false},
	{"string-literal", "program/body", "send", func(l string) string { return "c <- " + l }, false, false},
	{"struct-tag", "program/body", "type", func(l string) string { return "type T struct { a int " + l + " }" }, false, true},
	{"struct-tag", "program/top-level", "var", func(l string) string { return "var v struct { a, b int " + l + "; c string }" }, false, true},
}

// tagFindingClass: Field.String writes the tag between backquotes whatever it contains; a tag
// that this lexer does not accept inside a raw string literal (it contains a backquote, a byte
// order mark or invalid UTF-8; carriage return and NUL are kept by this lexer) does not come back. Predicted from the content alone; the precision is recorded in the histogram.
func tagFindingClass(content string) bool {
	return strings.ContainsAny(content, "`\ufeff") || !utf8.ValidString(content)
}

func strContentsStream(c *hx.Ctx) {
	res := c.Res
	contents := strContents()
	for _, pt := range strPoints {
		cx := ctxByID(pt.cx)
		if cx == nil {
			continue
		}
		for ci, content := range contents {
			if c.Quick() && !pt.path && !pt.tag && ci%2 == int(c.Seed)%2 && ci > 40 {
				continue
			}
			value := content
			if pt.path {
				value = "p" + content + ".html"
			}
			for style, lit := range strWritings(value) {
				src := pt.src(lit)
				key := "str-" + pt.node + "-" + style
				t1, err := parseIn(cx, src)
				if err != nil {
					if strings.Contains(err.Error(), "host panic") {
						res.AddBreak(proto.Break{Kind: "property", Name: "parser-panics-on-statement", Case: "C27 stmt " + cx.id() + " " + src, Human: cx.wrap(src), Impl: err.Error()})
					}
					res.Hist(key + "-source-rejected")
					continue
				}
				n1 := locate(t1)
				if n1 == nil {
					res.Hist(key + "-no-node")
					continue
				}
				rcx := cx
				if cx.name == "show-braces" {
					rcx = ctxByID("template/stmt")
				}
				res.Count("str:"+cx.id()+":"+src, true)
				if !pt.tag {
					if k := stmtInKnownClass(n1); k != "" {
						res.Hist(key + "-" + k)
						continue
					}
				}
				clause, got, want := stmtRoundTrip(rcx, n1)
				if pt.tag && tagFindingClass(value) {
					res.Hist("class-precision/struct-tag-backquote/predicted")
					if clause != "" {
						res.Hist("class-precision/struct-tag-backquote/fail-as-predicted")
					}
				}
				if clause == "" {
					res.Hist(key + "-ok")
					continue
				}
				res.Hist(key + "-FAIL")
				if debug {
					fmt.Fprintf(debugOut, "STRFAIL %s %s %q: %s\n", pt.node, style, value, got)
				}
				finding := ""
				if pt.tag && tagFindingClass(value) {
					finding = c.Known("struct-tag-backquote")
				}
				cs := "C27 stmt " + rcx.id() + " " + src
				if reportedStmt[cs] {
					continue
				}
				reportedStmt[cs] = true
				res.AddBreak(proto.Break{Kind: "property", Name: clause, Case: cs,
					Human: fmt.Sprintf("%s with the string content %q written as %s literal: %s", pt.node, value, style, strings.TrimSpace(cx.wrap(src))),
					Impl:  got, Model: want, Finding: finding})
			}
		}
	}
	// rune literals
	for _, lit := range []string{`'a'`, `'\n'`, `'\''`, `'"'`, `'\\'`, `'\x00'`, `'\x7f'`, `'\377'`, `'é'`, `'\U0001F600'`, `'é'`, `'世'`, "'`'", `'\a'`, `'\v'`, "'\u2028'"} {
		for _, id := range []string{"template/stmt", "program/body"} {
			cx := ctxByID(id)
			runOne(c, cx, "rune-literal", "x = f("+lit+") + "+lit)
		}
	}
	// identifiers
	for _, name := range []string{"é", "世界", "_", "_1", "a1", "Ł", "x_y", "ñandú", "αβγ", "ǅ", "ª"} {
		for _, id := range []string{"template/stmt", "program/body"} {
			cx := ctxByID(id)
			runOne(c, cx, "identifier", name+" := "+name+"."+name+"("+name+")")
			runOne(c, cx, "identifier", "var "+name+", x "+name)
		}
		runOne(c, ctxByID("program/body"), "identifier", "goto "+name)
		runOne(c, ctxByID("program/body"), "identifier", "type "+name+" = "+name)
		runOne(c, ctxByID("template/stmt"), "identifier", `import `+name+` "p.html"`)
	}
}

func runOne(c *hx.Ctx, cx *sctx, node, src string) {
	res := c.Res
	t1, err := parseIn(cx, src)
	if err != nil {
		res.Hist("str-" + node + "-source-rejected")
		if debug {
			fmt.Fprintf(debugOut, "REJECT %s %q: %v\n", cx.id(), src, err)
		}
		return
	}
	n1 := locate(t1)
	if n1 == nil {
		return
	}
	res.Count("str:"+cx.id()+":"+src, true)
	if k := stmtInKnownClass(n1); k != "" {
		res.Hist("str-" + node + "-" + k)
		return
	}
	clause, got, want := stmtRoundTrip(cx, n1)
	if clause == "" {
		res.Hist("str-" + node + "-ok")
		return
	}
	res.Hist("str-" + node + "-FAIL")
	res.AddBreak(proto.Break{Kind: "property", Name: clause, Case: "C27 stmt " + cx.id() + " " + src,
		Human: node + ": " + strings.TrimSpace(cx.wrap(src)), Impl: got, Model: want})
}

var _ = ast.FormatHTML
