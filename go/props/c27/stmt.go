package main

import (
	"fmt"
	goast "go/ast"
	goparser "go/parser"
	gotoken "go/token"
	"os"
	"reflect"
	"regexp"
	"sort"
	"strings"

	"github.com/open2b/scriggo/ast"
	c27 "github.com/open2b/scriggo/verifhook/c27"

	"verifharness/internal/hx"
	"verifharness/internal/proto"
)

// ---------------------------------------------------------------------------------------------
// Statements: every node type of ast.go that has a String method meant as source (the list comes
// from the Lean side: Model/OpTables.lean `roundTripStmt`, proved to classify every String method
// of the regenerated list) is parsed from source in every position the grammar has for it, printed,
// and the printed text is parsed again in the same position: the two trees must be structurally
// identical (positions and parentheses counts ignored), and printing the second tree must give
// the same text.
//
// The sources are written by this file with its own spelling of every operator and keyword (the
// Go specification's, through go/token), never with the printer under test; for program syntax
// go/parser says what the statement is (specification validation of the first parse).

// a position of the grammar in which a statement can stand
type sctx struct {
	name      string
	d         dialect
	pre, post string
	admits    string // blank separated statement kinds (see stmtSrc.kind)
}

var reportedStmt = map[string]bool{}

var wordY = regexp.MustCompile(`\by\b`)

var debug = os.Getenv("C27_DEBUG") != ""
var debugOut = os.Stderr

const (
	progHead = "package p\nfunc f() {\n"
	progTail = "\n}\n"
)

var stmtContexts = []sctx{
	{"body", program, progHead, progTail, "assign incdec define send go defer goto var type"},
	{"top-level", program, "package p\n", "\n", "var type import"},
	{"if-init", program, progHead + "if ", "; c {\n}" + progTail, "assign incdec define send"},
	{"for-init", program, progHead + "for ", "; c; {\n}" + progTail, "assign incdec define send"},
	{"for-post", program, progHead + "for ; c; ", " {\n}" + progTail, "assign incdec send"},
	{"switch-init", program, progHead + "switch ", "; x {\n}" + progTail, "assign incdec define"},
	{"type-switch-init", program, progHead + "switch ", "; v := x.(type) {\n}" + progTail, "assign incdec define"},
	{"type-switch-guard", program, progHead + "switch ", " {\n}" + progTail, "guard"},
	{"select-comm", program, progHead + "select {\ncase ", ":\n}" + progTail, "comm"},
	{"case-body", program, progHead + "switch {\ncase c:\n", "\n}" + progTail, "assign incdec define send go defer goto var type"},
	{"label", program, progHead + "L:\n", progTail, "assign incdec define send go defer goto"},
	{"block", program, progHead + "{\n", "\n}" + progTail, "assign incdec define send go defer goto var type"},
	{"func-literal-body", program, progHead + "f(func() {\n", "\n})" + progTail, "assign incdec define send go defer goto var type"},

	{"stmt", template, "{% ", " %}", "assign incdec define send go defer var type show extends import"},
	{"stmts", template, "{%%\n", "\n%%}", "assign incdec define send go defer var type show"},
	{"show-braces", template, "{{ ", " }}", "expr"},
	{"if-init", template, "{% if ", "; c %}{% end %}", "assign incdec define send"},
	{"for-init", template, "{% for ", "; c; %}{% end %}", "assign incdec define send"},
	{"for-post", template, "{% for ; c; ", " %}{% end %}", "assign incdec send"},
	{"switch-init", template, "{% switch ", "; x %}{% end %}", "assign incdec define"},
	{"type-switch-guard", template, "{% switch ", " %}{% end %}", "guard"},
	{"select-comm", template, "{% select %}{% case ", " %}{% end %}", "comm"},
	{"using", template, "{% ", "; using %}a{% end %}", "assign define send var show"},
	{"macro-body", template, "{% macro M %}{% ", " %}{% end %}", "assign incdec define send go defer var type show"},
	{"func-literal-body", template, "{%% f(func() {\n", "\n}) %%}", "assign incdec define send go defer goto var type"},
}

func (cx *sctx) wrap(s string) string { return cx.pre + s + cx.post }
func (cx *sctx) id() string           { return dialectName(cx.d) + "/" + cx.name }

func ctxByID(id string) *sctx {
	for i := range stmtContexts {
		if stmtContexts[i].id() == id {
			return &stmtContexts[i]
		}
	}
	return nil
}

func parseIn(cx *sctx, s string) (tree *ast.Tree, err error) {
	defer func() {
		if r := recover(); r != nil {
			tree, err = nil, fmt.Errorf("host panic: %v", r)
		}
	}()
	if cx.d == program {
		return c27.ParseProgramSource([]byte(cx.wrap(s)), false)
	}
	return c27.ParseTemplateSource([]byte(cx.wrap(s)), ast.FormatHTML)
}

// isStmtNode: the statement node types with a String method that is source.
func isStmtNode(n ast.Node) bool {
	switch n.(type) {
	case *ast.Assignment, *ast.Defer, *ast.Extends, *ast.Go, *ast.Goto, *ast.Import, *ast.Send, *ast.Show,
		*ast.TypeDeclaration, *ast.Var:
		return true
	}
	return false
}

func nodeTypeName(n ast.Node) string { return strings.TrimPrefix(fmt.Sprintf("%T", n), "*ast.") }

// locate returns the statement in the hole of a context: the first statement node in pre-order.
func locate(tree *ast.Tree) (found ast.Node) {
	if tree == nil {
		return nil
	}
	walkAll(reflect.ValueOf(tree), func(n ast.Node) {
		if found == nil && isStmtNode(n) {
			found = n
		}
	})
	return
}

func stringNode(n ast.Node) (s string, err error) {
	defer func() {
		if r := recover(); r != nil {
			err = fmt.Errorf("host panic: %v", r)
		}
	}()
	return n.(fmt.Stringer).String(), nil
}

// stmtRoundTrip is the property on the real code for one statement node n1 that the parser
// produced in position cx.
func stmtRoundTrip(cx *sctx, n1 ast.Node) (clause, got, want string) {
	s, err := stringNode(n1)
	if err != nil {
		return "statement-string-panics", err.Error(), ""
	}
	t2, err := parseIn(cx, s)
	if err != nil {
		return "statement-printed-source-does-not-parse", fmt.Sprintf("%q: %v", s, err), shape(n1, false)
	}
	n2 := locate(t2)
	if n2 == nil {
		return "statement-reparsed-tree-differs", fmt.Sprintf("%q parses to no statement", s), shape(n1, false)
	}
	if x1, ok := n1.(*ast.Show); ok {
		if x2, ok := n2.(*ast.Show); ok {
			// the context of a show statement is where it stands (attribute, script, …), not what it says
			x2.Context = x1.Context
		}
	}
	if x1, ok := n1.(*ast.Extends); ok {
		if x2, ok := n2.(*ast.Extends); ok {
			x2.Format = x1.Format // the format of the extending file
		}
	}
	if a, b := shape(n2, false), shape(n1, false); a != b {
		return "statement-reparsed-tree-differs", fmt.Sprintf("%q parses to %s", s, a), b
	}
	s2, err := stringNode(n2)
	if err != nil {
		return "statement-string-panics", err.Error(), ""
	}
	if s2 != s {
		return "statement-second-print-differs", s2, s
	}
	return "", s, ""
}

// stmtInKnownClass says whether a statement contains an expression of a class that is a recorded
// finding of the expression printer, or that String() abbreviates by design.
func stmtInKnownClass(n ast.Node) string {
	probe := n
	if a, ok := n.(*ast.Assignment); ok && len(a.Rhs) == 1 {
		// `v := x.(type)`, the guard of a type switch: `.(type)` is source there
		if ta, ok := a.Rhs[0].(*ast.TypeAssertion); ok && ta.Type == nil && !isNil(ta.Expr) {
			probe = ast.NewAssignment(a.Position, a.Lhs, a.Type, []ast.Expression{ta.Expr})
		}
	}
	if abbreviated(probe) {
		return "abbreviated-by-design"
	}
	invalid := false
	walkAll(reflect.ValueOf(n), func(x ast.Node) {
		if e, ok := x.(*ast.Slicing); ok && invalidFullSlice(e) {
			invalid = true
		}
	})
	if invalid {
		// `a[i::]`, `a[i:j:]`: accepted by the parser, not valid source (rejected by the type checker)
		return "invalid-3-index-slice"
	}
	if numberBeforeDot(n) {
		return "known-literal-dot"
	}
	if nonPlain(n) {
		return "known-postfix-operand-parens"
	}
	bad := false
	root := func(es ...ast.Expression) {
		for _, e := range es {
			if !isNil(e) && defaultBelowRoot(e) {
				bad = true
			}
		}
	}
	switch x := n.(type) {
	case *ast.Assignment:
		root(x.Lhs...)
		root(x.Rhs...)
	case *ast.Var:
		root(x.Rhs...)
		root(x.Type)
	case *ast.Send:
		root(x.Channel, x.Value)
	case *ast.Show:
		root(x.Expressions...)
	case *ast.Defer:
		root(x.Call)
	case *ast.Go:
		root(x.Call)
	case *ast.TypeDeclaration:
		root(x.Type)
	}
	if bad {
		return "known-default-operand"
	}
	return ""
}

// ---------------------------------------------------------------------------------------------
// the matrix

type stmtSrc struct {
	kind string // assign, incdec, define, send, go, defer, goto, var, type, show, extends, import, guard, comm, expr
	src  string
	op   string // the operator or keyword of the statement layer (histogram)
	// components, for shrinking: src = join(lhs, ", ") + op + join(rhs, ", ") for assignments
	lhs, rhs []string
}

// the assignment operators, in the spelling of the Go specification (go/token), with the
// AssignmentType the parser must give
var assignOps = []struct {
	tok  gotoken.Token
	typ  ast.AssignmentType
	name string
}{
	{gotoken.ASSIGN, ast.AssignmentSimple, "Simple"},
	{gotoken.DEFINE, ast.AssignmentDeclaration, "Declaration"},
	{gotoken.ADD_ASSIGN, ast.AssignmentAddition, "Addition"},
	{gotoken.SUB_ASSIGN, ast.AssignmentSubtraction, "Subtraction"},
	{gotoken.MUL_ASSIGN, ast.AssignmentMultiplication, "Multiplication"},
	{gotoken.QUO_ASSIGN, ast.AssignmentDivision, "Division"},
	{gotoken.REM_ASSIGN, ast.AssignmentModulo, "Modulo"},
	{gotoken.AND_ASSIGN, ast.AssignmentAnd, "And"},
	{gotoken.OR_ASSIGN, ast.AssignmentOr, "Or"},
	{gotoken.XOR_ASSIGN, ast.AssignmentXor, "Xor"},
	{gotoken.AND_NOT_ASSIGN, ast.AssignmentAndNot, "AndNot"},
	{gotoken.SHL_ASSIGN, ast.AssignmentLeftShift, "LeftShift"},
	{gotoken.SHR_ASSIGN, ast.AssignmentRightShift, "RightShift"},
	{gotoken.INC, ast.AssignmentIncrement, "Increment"},
	{gotoken.DEC, ast.AssignmentDecrement, "Decrement"},
}

var (
	lhsOperands  = []string{"x", "a[i]", "a[i].f", "*p", "m[k]", "s.f", "(x)", "_", "a[i + 1][j]", "f().g"}
	lhsIdents    = []string{"x", "_", "y1", "é"}
	rhsOperands  = []string{"y", "2", "n + 1", "a >> b << c", "f(x, y...)", "<-c", "-x", "x.(T)", "a[1:2]", `"s"`, "T(x)", "a && b || !c", "(a + b) * c", "&v", "'c'", "1.5", "a[i][j]", "f()(g)", "x == y", "*p", "a &^ b", "[]int(v)", "a % b / c", "m[k].f(1)"}
	rhsTemplate  = []string{"a and not b", "x contains y", "a not contains b", "a default 3", "f() default g(1)", "not a or b"}
	chanOperands = []string{"c", "a.c[i]", "f()", "(c)"}
	callOperands = []string{"f()", "f(x, y)", "a.b(c...)", "m[k](1)", "f()()", "pkg.F(a + b)"}
	typeOperands = []string{"int", "[]T", "map[string][]int", "*pkg.T", "chan int", "<-chan T", "chan<- T", "[3]int", "[...]T", "interface{}", "func(int) string", "func(a, b int, c ...string) (x int, err error)", "[]*T", "chan (<-chan T)"}
)

// pick returns up to n elements of list: all of them when n <= 0 (thorough), otherwise a random
// selection (always containing the first).
func pick(r *proto.Rand, list []string, n int) []string {
	if n <= 0 || n >= len(list) {
		return list
	}
	out := []string{list[0]}
	for len(out) < n {
		out = append(out, list[r.Intn(len(list))])
	}
	return out
}

// stmtMatrix writes the statement sources of one run. width bounds the number of operand choices
// per dimension (0 = all); extra are printed random expressions used as additional right sides.
func stmtMatrix(r *proto.Rand, width int, d dialect, extra []string) []stmtSrc {
	var out []stmtSrc
	rhsAll := append([]string(nil), rhsOperands...)
	if d == template {
		rhsAll = append(rhsAll, rhsTemplate...)
	}
	rhsAll = append(rhsAll, extra...)
	join := func(xs []string) string { return strings.Join(xs, ", ") }
	assign := func(kind string, lhs []string, op string, rhs []string) {
		src := join(lhs)
		switch {
		case len(rhs) == 0:
			src += op
		default:
			src += " " + op + " " + join(rhs)
		}
		out = append(out, stmtSrc{kind: kind, src: src, op: op, lhs: lhs, rhs: rhs})
	}
	for _, ao := range assignOps {
		op := ao.tok.String()
		switch ao.typ {
		case ast.AssignmentIncrement, ast.AssignmentDecrement:
			for _, l := range pick(r, lhsOperands, width) {
				assign("incdec", []string{l}, op, nil)
			}
		case ast.AssignmentSimple, ast.AssignmentDeclaration:
			kind, ls := "assign", lhsOperands
			if ao.typ == ast.AssignmentDeclaration {
				kind, ls = "define", lhsIdents
			}
			for _, l := range pick(r, ls, width) {
				for _, v := range pick(r, rhsAll, 2*width) {
					assign(kind, []string{l}, op, []string{v})
				}
			}
			// n = n, n = 1 (call or receive, map index, type assertion with two results)
			for n := 2; n <= 4; n++ {
				for rep := 0; rep < 2+2*boolToInt(width <= 0); rep++ {
					var lhs, rhs []string
					for i := 0; i < n; i++ {
						lhs = append(lhs, ls[r.Intn(len(ls))])
						rhs = append(rhs, rhsAll[r.Intn(len(rhsAll))])
					}
					assign(kind, lhs, op, rhs)
					assign(kind, lhs, op, []string{r.Pick([]string{"f()", "<-c", "m[k]", "x.(T)", "f(a, b)"})})
				}
			}
		default:
			for _, l := range pick(r, lhsOperands, width) {
				for _, v := range pick(r, rhsAll, 2*width) {
					assign("assign", []string{l}, op, []string{v})
				}
			}
		}
	}
	// send
	for _, ch := range pick(r, chanOperands, width) {
		for _, v := range pick(r, rhsAll, 2*width) {
			out = append(out, stmtSrc{kind: "send", src: ch + " <- " + v, op: "<-", lhs: []string{ch}, rhs: []string{v}})
		}
	}
	// go, defer
	for _, kw := range []string{"go", "defer"} {
		for _, f := range callOperands {
			out = append(out, stmtSrc{kind: kw, src: kw + " " + f, op: kw, rhs: []string{f}})
		}
	}
	out = append(out, stmtSrc{kind: "goto", src: "goto L", op: "goto"}, stmtSrc{kind: "goto", src: "goto é1", op: "goto"})
	// var
	for _, t := range pick(r, typeOperands, 2*width) {
		out = append(out, stmtSrc{kind: "var", src: "var x " + t, op: "var"})
		out = append(out, stmtSrc{kind: "var", src: "var x, _, z " + t, op: "var"})
		out = append(out, stmtSrc{kind: "var", src: "var x " + t + " = " + r.Pick(rhsAll), op: "var"})
		out = append(out, stmtSrc{kind: "var", src: "var x, y " + t + " = " + r.Pick(rhsAll) + ", " + r.Pick(rhsAll), op: "var"})
		out = append(out, stmtSrc{kind: "type", src: "type T " + t, op: "type"})
		out = append(out, stmtSrc{kind: "type", src: "type T = " + t, op: "type="})
	}
	for _, v := range pick(r, rhsAll, 2*width) {
		out = append(out, stmtSrc{kind: "var", src: "var x = " + v, op: "var"})
		out = append(out, stmtSrc{kind: "var", src: "var x, y = " + v + ", " + r.Pick(rhsAll), op: "var"})
		out = append(out, stmtSrc{kind: "var", src: "var x, y, z = f()", op: "var"})
	}
	// type switch guards, select communications
	for _, v := range []string{"x", "f()", "a[i]", "x.y", "(x)", "m[k].f"} {
		out = append(out, stmtSrc{kind: "guard", src: "v := " + v + ".(type)", op: ".(type)"})
	}
	for _, ch := range chanOperands {
		out = append(out, stmtSrc{kind: "comm", src: "v := <-" + ch, op: ":=<-"})
		out = append(out, stmtSrc{kind: "comm", src: "v, ok := <-" + ch, op: ":=<-"})
		out = append(out, stmtSrc{kind: "comm", src: "v = <-" + ch, op: "=<-"})
		out = append(out, stmtSrc{kind: "comm", src: "a[i], ok = <-" + ch, op: "=<-"})
		out = append(out, stmtSrc{kind: "comm", src: ch + " <- " + r.Pick(rhsAll), op: "<-"})
	}
	// imports
	if d == program {
		for _, s := range []string{`import "p"`, `import x "p/q"`, `import . "p"`, `import _ "p"`, "import `p`"} {
			out = append(out, stmtSrc{kind: "import", src: s, op: "import"})
		}
	} else {
		for _, s := range []string{`import "p.html"`, `import x "/a/p.html"`, `import "p.html" for A`, `import "p.html" for A, B, Cé`, `import _ "p.html"`, `import . "p.html"`} {
			out = append(out, stmtSrc{kind: "import", src: s, op: "import"})
		}
		for _, s := range []string{`extends "l.html"`, `extends "/a/b/l.html"`, `extends "../l.md"`} {
			out = append(out, stmtSrc{kind: "extends", src: s, op: "extends"})
		}
		for _, v := range pick(r, rhsAll, 2*width) {
			out = append(out, stmtSrc{kind: "show", src: "show " + v, op: "show", rhs: []string{v}})
			v2 := r.Pick(rhsAll)
			out = append(out, stmtSrc{kind: "show", src: "show " + v + ", " + v2, op: "show", rhs: []string{v, v2}})
			out = append(out, stmtSrc{kind: "expr", src: v, op: "{{}}"})
		}
		for _, s := range []string{`render "p.html"`, `render "/a/p.html"`, `render "p.html" default "x"`, `render "p.html" default render "q.html"`} {
			out = append(out, stmtSrc{kind: "show", src: "show " + s, op: "render"})
			out = append(out, stmtSrc{kind: "expr", src: s, op: "render"})
		}
	}
	return out
}

func boolToInt(b bool) int {
	if b {
		return 1
	}
	return 0
}

// goStatementOperator gives, for program syntax, the operator go/parser sees in the statement in
// the hole (the first assignment, inc/dec or send statement of the file).
func goStatementOperator(src string) (string, bool) {
	f, err := goparser.ParseFile(gotoken.NewFileSet(), "", src, goparser.SkipObjectResolution)
	if err != nil {
		return "", false
	}
	op, found := "", false
	goast.Inspect(f, func(n goast.Node) bool {
		if found {
			return false
		}
		switch s := n.(type) {
		case *goast.AssignStmt:
			op, found = s.Tok.String(), true
		case *goast.IncDecStmt:
			op, found = s.Tok.String(), true
		case *goast.SendStmt:
			op, found = "<-", true
		}
		return !found
	})
	return op, found
}

func assignOpOf(t ast.AssignmentType) string {
	for _, ao := range assignOps {
		if ao.typ == t {
			return ao.tok.String()
		}
	}
	return fmt.Sprintf("AssignmentType(%d)", int(t))
}

// statements runs the statement streams.
func statements(c *hx.Ctx) error {
	res := c.Res
	width := c.N(3, 0)
	// printed random expressions as additional right sides (outside the recorded findings)
	extras := map[dialect][]string{}
	for _, d := range []dialect{program, template} {
		for len(extras[d]) < c.N(12, 120) {
			g := &gen{r: c.R, cfg: genCfg{d: d}, top: -1, plain: true, noFunc: true}
			e := g.expr(1 + c.R.Intn(3))
			setPositions(e)
			if numberBeforeDot(e) || nonPlain(e) || defaultBelowRoot(e) || abbreviated(e) {
				continue
			}
			if cl, _, _ := roundTrip(e, d); cl != "" {
				continue // reported by the expression stream
			}
			s, _ := stringReal(e)
			extras[d] = append(extras[d], s)
		}
	}
	okTypes := map[string]int{}
	accepted := map[string]int{}
	matrices := map[dialect][]stmtSrc{}
	for _, d := range []dialect{program, template} {
		matrices[d] = stmtMatrix(c.R, width, d, extras[d])
	}
	for ci := range stmtContexts {
		cx := &stmtContexts[ci]
		admits := map[string]bool{}
		for _, k := range strings.Fields(cx.admits) {
			admits[k] = true
		}
		for _, st := range matrices[cx.d] {
			if !admits[st.kind] {
				continue
			}
			src := st.src
			if cx.name == "using" {
				// the statement before `using` must use the predeclared identifier itea
				loc := wordY.FindStringIndex(src)
				if loc == nil {
					continue
				}
				src = src[:loc[0]] + "itea" + src[loc[1]:]
			}
			cell := cx.id() + " " + st.kind
			if stmtCase(c, cx, st, src, okTypes) {
				accepted[cell]++
			} else if _, seen := accepted[cell]; !seen {
				accepted[cell] = 0
			}
		}
	}
	// a cell of the matrix (position × statement kind) none of whose sources the parser accepts
	// would silently lose coverage
	var cells []string
	for cell, n := range accepted {
		if n == 0 {
			cells = append(cells, cell)
		}
	}
	sort.Strings(cells)
	for _, cell := range cells {
		res.AddBreak(proto.Break{Kind: "correspondence", Name: "statement-matrix-cell-never-accepted-by-the-parser", Case: "C27 stmt " + cell, Human: cell, Impl: "every source rejected", Model: "accepted"})
	}
	// text between statements
	for _, text := range []string{"a", "a b\n c", "<b>é</b>", "{ %", "} }", " x "} {
		t1, err := c27.ParseTemplateSource([]byte(text), ast.FormatHTML)
		if err != nil || len(t1.Nodes) != 1 {
			res.Hist("stmt-source-rejected-template/text")
			continue
		}
		n1, ok := t1.Nodes[0].(*ast.Text)
		if !ok {
			continue
		}
		res.Count("stmt:template/text:"+text, true)
		s := n1.String()
		t2, err := c27.ParseTemplateSource([]byte(s), ast.FormatHTML)
		if err != nil || len(t2.Nodes) != 1 || shape(t2.Nodes[0], false) != shape(n1, false) {
			res.AddBreak(proto.Break{Kind: "property", Name: "statement-reparsed-tree-differs", Case: "C27 stmt template/text " + text, Human: text, Impl: fmt.Sprintf("%q: %v", s, err), Model: shape(n1, false)})
			continue
		}
		okTypes["Text"]++
	}
	// every statement type of the classification must have been round-tripped
	if c.D != nil {
		ans, err := c.D.Batch([]string{"C27 classes stmt", "C27 classes expr"})
		if err != nil {
			return err
		}
		for _, t := range strings.Fields(strings.TrimPrefix(ans[0], "ok ")) {
			if okTypes[t] == 0 {
				res.AddBreak(proto.Break{Kind: "correspondence", Name: "statement-stream-has-no-case-for-node-type", Case: "C27 classes stmt", Human: t, Impl: "0 round trips of " + t, Model: ans[0]})
			}
		}
	}
	var ts []string
	for t := range okTypes {
		ts = append(ts, t)
	}
	sort.Strings(ts)
	for _, t := range ts {
		res.Histogram["stmt-ok-type-"+t] = okTypes[t]
	}
	return nil
}

// stmtCase runs one point of the matrix; it reports whether the parser accepted the source.
func stmtCase(c *hx.Ctx, cx *sctx, st stmtSrc, src string, okTypes map[string]int) (acceptedSrc bool) {
	res := c.Res
	t1, err := parseIn(cx, src)
	if err != nil {
		if strings.Contains(err.Error(), "host panic") {
			res.AddBreak(proto.Break{Kind: "property", Name: "parser-panics-on-statement", Case: "C27 stmt " + cx.id() + " " + src, Human: cx.wrap(src), Impl: err.Error()})
			return false
		}
		res.Hist("stmt-source-rejected-" + cx.id() + "-" + st.kind)
		if debug {
			fmt.Fprintf(debugOut, "REJECT %s %q: %v\n", cx.id(), src, err)
		}
		return false
	}
	n1 := locate(t1)
	if n1 == nil {
		res.Hist("stmt-source-has-no-statement-node-" + cx.id() + "-" + st.kind)
		return false
	}
	if cx.name == "show-braces" {
		// `{{ e }}`: the Show node prints as `show e`, a statement
		cx = ctxByID("template/stmt")
	}
	typ := nodeTypeName(n1)
	key := "stmt:" + cx.id() + ":" + src
	res.Count(key, true)
	if k := stmtInKnownClass(n1); k != "" {
		res.Hist("stmt-" + k)
		return true
	}
	// specification validation of the first parse: go/parser sees the same operator
	if cx.d == program && (st.kind == "assign" || st.kind == "incdec" || st.kind == "define" || st.kind == "send" || st.kind == "comm") {
		if op, ok := goStatementOperator(cx.wrap(src)); ok {
			res.SpecChecks["go/parser-statement-operator-checked"]++
			mine := ""
			switch x := n1.(type) {
			case *ast.Assignment:
				mine = assignOpOf(x.Type)
			case *ast.Send:
				mine = "<-"
			}
			if mine != op {
				res.AddBreak(proto.Break{Kind: "correspondence", Name: "parser-vs-go/parser (statement operator)", Case: "C27 stmt " + cx.id() + " " + src, Human: src, Impl: mine, Model: op})
			}
		} else {
			res.SpecChecks["go/parser-rejects-statement"]++
		}
	}
	clause, got, want := stmtRoundTrip(cx, n1)
	if clause == "" {
		res.Hist("stmt-ok-" + cx.id() + "-" + st.kind)
		res.Hist("stmt-ok-op " + st.op)
		okTypes[typ]++
		walkAll(reflect.ValueOf(n1), func(n ast.Node) {
			if _, ok := n.(*ast.Render); ok {
				okTypes["Render"]++
			}
		})
		return true
	}
	// shrink: simpler position, simpler operands
	min, mcx := src, cx
	if len(st.lhs) > 0 || len(st.rhs) > 0 {
		fails := func(cx *sctx, s string) bool {
			t, err := parseIn(cx, s)
			if err != nil {
				return false
			}
			n := locate(t)
			if n == nil || stmtInKnownClass(n) != "" {
				return false
			}
			cl, _, _ := stmtRoundTrip(cx, n)
			return cl == clause
		}
		build := func(lhs, rhs []string) string {
			s := strings.Join(lhs, ", ")
			switch {
			case st.kind == "go" || st.kind == "defer" || st.kind == "show":
				return st.op + " " + strings.Join(rhs, ", ")
			case len(rhs) == 0:
				return s + st.op
			}
			return s + " " + st.op + " " + strings.Join(rhs, ", ")
		}
		base := ctxByID(dialectName(cx.d) + "/body")
		if cx.d == template {
			base = ctxByID("template/stmt")
		}
		lhs, rhs := append([]string(nil), st.lhs...), append([]string(nil), st.rhs...)
		if base != nil && cx.name != "using" && fails(base, build(lhs, rhs)) {
			mcx = base
		}
		for progress := true; progress; {
			progress = false
			if len(lhs) > 1 && len(lhs) == len(rhs) && fails(mcx, build(lhs[:1], rhs[:1])) {
				lhs, rhs, progress = lhs[:1], rhs[:1], true
			}
			for i := range lhs {
				if lhs[i] != "x" {
					old := lhs[i]
					lhs[i] = "x"
					if fails(mcx, build(lhs, rhs)) {
						progress = true
					} else {
						lhs[i] = old
					}
				}
			}
			for i := range rhs {
				simple := "y"
				if st.kind == "go" || st.kind == "defer" {
					simple = "f()"
				}
				if rhs[i] != simple {
					old := rhs[i]
					rhs[i] = simple
					if fails(mcx, build(lhs, rhs)) {
						progress = true
					} else {
						rhs[i] = old
					}
				}
			}
		}
		if s := build(lhs, rhs); fails(mcx, s) {
			min = s
		} else {
			mcx = cx
		}
		if t, err := parseIn(mcx, min); err == nil {
			if n := locate(t); n != nil {
				_, got, want = stmtRoundTrip(mcx, n)
			}
		}
	}
	res.Hist("stmt-FAIL-" + typ)
	if reportedStmt["C27 stmt "+mcx.id()+" "+min] {
		return true
	}
	reportedStmt["C27 stmt "+mcx.id()+" "+min] = true
	res.AddBreak(proto.Break{Kind: "property", Name: clause,
		Case:  "C27 stmt " + mcx.id() + " " + min,
		Human: fmt.Sprintf("statement %q in position %s: %s", min, mcx.id(), strings.TrimSpace(mcx.wrap(min))),
		Impl:  got, Model: want, Finding: matchStmtFinding(c, mcx, min)})
	return true
}

// matchStmtFinding returns the id of the known finding whose minimal input is exactly this case:
// "stmt <dialect>/<position> <statement source>".
func matchStmtFinding(c *hx.Ctx, cx *sctx, src string) string {
	for _, f := range c.Findings {
		if f.Minimal == "stmt "+cx.id()+" "+src {
			return f.ID
		}
	}
	return ""
}

// replayStmtFinding replays a recorded statement finding.
func replayStmtFinding(c *hx.Ctx, f hx.Finding) bool {
	parts := strings.SplitN(f.Minimal, " ", 3)
	if len(parts) != 3 || parts[0] != "stmt" {
		return false
	}
	cx := ctxByID(parts[1])
	if cx == nil {
		return true
	}
	t, err := parseIn(cx, parts[2])
	if err != nil {
		return true
	}
	n := locate(t)
	if n == nil {
		return true
	}
	if clause, got, want := stmtRoundTrip(cx, n); clause != "" {
		c.Res.AddBreak(proto.Break{Kind: "property", Name: clause, Case: "C27 " + f.Minimal,
			Human: strings.TrimSpace(cx.wrap(parts[2])), Impl: got, Model: want, Finding: f.ID})
	}
	return true
}

// ---------------------------------------------------------------------------------------------
// the operator tables of the Lean side against the real printer, lexer and parser

func operatorTables(c *hx.Ctx) error {
	res := c.Res
	if c.D == nil {
		return nil
	}
	ans, err := c.D.Batch([]string{"C27 assigns", "C27 table emits", "C27 table keywords", "C27 table template"})
	if err != nil {
		return err
	}
	for _, a := range ans {
		if !strings.HasPrefix(a, "ok ") {
			res.AddBreak(proto.Break{Kind: "correspondence", Name: "operator-tables-protocol", Case: "C27 assigns", Impl: "", Model: a})
			return nil
		}
	}
	unhex := func(h string) string {
		b, _ := proto.UnHex(h)
		return string(b)
	}
	// 1. AssignmentType constants: what the model says String() writes is what it writes, and the
	// model's way back (lexer table, assignmentType) is the real parser's
	names := strings.Fields(ans[0][3:])
	var lines []string
	for _, n := range names {
		lines = append(lines, "C27 assign "+n)
	}
	printed, err := c.D.Batch(lines)
	if err != nil {
		return err
	}
	if len(names) != len(assignOps) {
		res.AddBreak(proto.Break{Kind: "correspondence", Name: "assignment-constants-model-vs-harness", Case: "C27 assigns", Impl: fmt.Sprint(len(assignOps)), Model: ans[0]})
	}
	for i, n := range names {
		var ao *struct {
			tok  gotoken.Token
			typ  ast.AssignmentType
			name string
		}
		for j := range assignOps {
			if assignOps[j].name == n {
				ao = &assignOps[j]
			}
		}
		if ao == nil || int(ao.typ) != i {
			res.AddBreak(proto.Break{Kind: "correspondence", Name: "assignment-constants-model-vs-harness", Case: lines[i], Human: n, Impl: "not the constant #" + fmt.Sprint(i) + " of the harness", Model: ans[0]})
			continue
		}
		text := unhex(strings.TrimPrefix(printed[i], "ok "))
		x, y := ast.NewIdentifier(nil, "x"), ast.NewIdentifier(nil, "y")
		want := "x" + text
		var rhs []ast.Expression
		if ao.typ != ast.AssignmentIncrement && ao.typ != ast.AssignmentDecrement {
			rhs = []ast.Expression{y}
			want += "y"
		}
		got, _ := stringNode(ast.NewAssignment(nil, []ast.Expression{x}, ao.typ, rhs))
		res.Hist("tie-assign-print")
		if got != want {
			res.AddBreak(proto.Break{Kind: "correspondence", Name: "assign-print-model-vs-Assignment.String", Case: lines[i], Human: n, Impl: got, Model: want})
		}
		// the specification's spelling
		res.SpecChecks["assignment-spelling-is-go/token"]++
		if strings.TrimSpace(text) != ao.tok.String() {
			res.AddBreak(proto.Break{Kind: "correspondence", Name: "assignment-spelling-vs-go/token", Case: lines[i], Human: n, Impl: strings.TrimSpace(text), Model: ao.tok.String()})
		}
		// back: the real parser on the real printed text against parseAssignOp
		for _, d := range []dialect{program, template} {
			cx := ctxByID(dialectName(d) + "/body")
			if d == template {
				cx = ctxByID("template/stmt")
			}
			impl := "err none"
			if t, err := parseIn(cx, got); err == nil {
				if a, ok := locate(t).(*ast.Assignment); ok {
					impl = "err unknown-constant"
					for _, o := range assignOps {
						if o.typ == a.Type {
							impl = "ok " + o.name
						}
					}
				}
			}
			flag := "0"
			if d == template {
				flag = "1"
			}
			line := "C27 assignparse " + flag + " " + proto.Hex([]byte(text))
			m, err := c.D.Ask(line)
			if err != nil {
				return err
			}
			res.Hist("tie-assign-parse")
			if m != impl {
				res.AddBreak(proto.Break{Kind: "correspondence", Name: "parseAssignOp-model-vs-parser", Case: line, Human: got, Impl: impl, Model: m})
			}
		}
	}
	// 2. the lexer tables: every text lexes, alone, to exactly the token the table says
	for ti, tmpl := range []bool{false, false, true} {
		for _, h := range strings.Fields(ans[1+ti][3:]) {
			text := unhex(h)
			flag := "0"
			if tmpl {
				flag = "1"
			}
			line := "C27 lexword " + flag + " " + h
			m, err := c.D.Ask(line)
			if err != nil {
				return err
			}
			impl := "err none"
			types, _, err := c27.Tokens(text, tmpl)
			if err == nil && len(types) == 1 {
				impl = "ok " + proto.Hex([]byte(types[0]))
			} else if err == nil {
				impl = fmt.Sprintf("err %d tokens", len(types))
			}
			res.Hist("tie-lex-table")
			if impl != m {
				res.AddBreak(proto.Break{Kind: "correspondence", Name: "lexer-table-model-vs-lexer", Case: line, Human: text, Impl: impl, Model: m})
			}
			if ti == 2 {
				// a template keyword is an identifier in program syntax
				types, _, err := c27.Tokens(text, false)
				if err != nil || len(types) != 1 || types[0] != "identifier" {
					res.AddBreak(proto.Break{Kind: "correspondence", Name: "lexer-table-model-vs-lexer", Case: line, Human: text + " (program syntax)", Impl: strings.Join(types, " "), Model: "identifier"})
				}
			}
		}
	}
	// 3. operators of expressions: printed by the real String(), parsed by the real parser,
	// against parseUnaryOp / parseBinaryOp
	var allOps []ast.OperatorType
	for op := range opNames {
		allOps = append(allOps, op)
	}
	sort.Slice(allOps, func(i, j int) bool { return allOps[i] < allOps[j] })
	for _, op := range allOps {
		name := opNames[op]
		isUnary, isBinary := false, false
		for _, o := range append(append([]ast.OperatorType(nil), unaryOps...), unaryOpsTemplate...) {
			isUnary = isUnary || o == op
		}
		for _, o := range append(append([]ast.OperatorType(nil), binaryOps...), binaryOpsTemplate...) {
			isBinary = isBinary || o == op
		}
		text := op.String()
		if isUnary {
			line := "C27 unaryop " + proto.Hex([]byte(text))
			m, err := c.D.Ask(line)
			if err != nil {
				return err
			}
			impl := "err none"
			if e, err := parseReal(text+" x", template); err == nil {
				if u, ok := e.(*ast.UnaryOperator); ok {
					impl = "ok " + opNames[u.Op]
				}
			}
			res.Hist("tie-operator-parse")
			if impl != m || m != "ok "+name {
				res.AddBreak(proto.Break{Kind: "correspondence", Name: "parseUnaryOp-model-vs-parser", Case: line, Human: text + " x", Impl: impl, Model: m})
			}
		}
		if isBinary {
			line := "C27 binaryop " + proto.Hex([]byte(text))
			m, err := c.D.Ask(line)
			if err != nil {
				return err
			}
			impl := "err none"
			if e, err := parseReal("x "+text+" y", template); err == nil {
				if b, ok := e.(*ast.BinaryOperator); ok {
					impl = "ok " + opNames[b.Op]
				}
			}
			res.Hist("tie-operator-parse")
			if impl != m || m != "ok "+name {
				res.AddBreak(proto.Break{Kind: "correspondence", Name: "parseBinaryOp-model-vs-parser", Case: line, Human: "x " + text + " y", Impl: impl, Model: m})
			}
		}
	}
	return nil
}

// ---------------------------------------------------------------------------------------------
// the statements of the corpus files, each re-parsed in the kind of position it was found in

type stmtAt struct {
	n    ast.Node
	cx   *sctx
	skip string // not a statement of its own (the clause of a range loop)
}

// inFunc: 0 outside functions, 1 in the body of a macro, 2 in the body of a function
func walkCtx(v reflect.Value, parent ast.Node, field string, inFunc int, f func(n, parent ast.Node, field string, inFunc int)) {
	if !v.IsValid() {
		return
	}
	switch v.Kind() {
	case reflect.Interface, reflect.Pointer:
		if v.IsNil() || v.Type() == positionType {
			return
		}
		if v.Kind() == reflect.Pointer && v.Elem().Kind() == reflect.Struct {
			if n, ok := v.Interface().(ast.Node); ok {
				f(n, parent, field, inFunc)
				if fn, isFunc := n.(*ast.Func); isFunc {
					inFunc = 2
					if fn.Type != nil && fn.Type.Macro {
						inFunc = 1
					}
				}
				t := v.Elem().Type()
				for i := 0; i < t.NumField(); i++ {
					fd := t.Field(i)
					if !fd.IsExported() || fd.Anonymous || fd.Name == "IR" || fd.Name == "Tree" || fd.Name == "Reflect" || fd.Name == "Upvars" {
						continue
					}
					walkCtx(v.Elem().Field(i), n, fd.Name, inFunc, f)
				}
				return
			}
		}
		walkCtx(v.Elem(), parent, field, inFunc, f)
	case reflect.Struct:
		t := v.Type()
		for i := 0; i < t.NumField(); i++ {
			fd := t.Field(i)
			if !fd.IsExported() || fd.Anonymous || fd.Name == "IR" || fd.Name == "Tree" || fd.Name == "Reflect" || fd.Name == "Upvars" {
				continue
			}
			walkCtx(v.Field(i), parent, field, inFunc, f)
		}
	case reflect.Slice:
		if v.Type().Elem().Kind() == reflect.Uint8 {
			return
		}
		for i := 0; i < v.Len(); i++ {
			walkCtx(v.Index(i), parent, field, inFunc, f)
		}
	}
}

func collectStmts(tree *ast.Tree, d dialect) []stmtAt {
	var out []stmtAt
	dn := dialectName(d)
	walkCtx(reflect.ValueOf(tree), nil, "", 0, func(n, parent ast.Node, field string, inFunc int) {
		if !isStmtNode(n) {
			return
		}
		at := stmtAt{n: n}
		switch parent.(type) {
		case *ast.ForRange:
			at.skip = "range-clause"
		case *ast.TypeSwitch:
			if field == "Assignment" {
				at.cx = ctxByID(dn + "/type-switch-guard")
			}
		case *ast.SelectCase:
			if field == "Comm" {
				at.cx = ctxByID(dn + "/select-comm")
			}
		}
		if at.cx == nil && at.skip == "" {
			switch {
			case d == program && inFunc != 0:
				at.cx = ctxByID("program/body")
			case d == program:
				at.cx = ctxByID("program/top-level")
			case inFunc == 1:
				at.cx = ctxByID("template/macro-body")
			case inFunc == 2:
				at.cx = ctxByID("template/func-literal-body")
			default:
				at.cx = ctxByID("template/stmt")
			}
		}
		out = append(out, at)
	})
	return out
}

func corpusStmt(c *hx.Ctx, at stmtAt, rel string) {
	res := c.Res
	name := nodeTypeName(at.n)
	if at.skip != "" {
		res.Hist("corpus-stmt-" + at.skip)
		return
	}
	if k := stmtInKnownClass(at.n); k != "" {
		res.Hist("corpus-stmt-" + k + "-" + name)
		return
	}
	s, _ := stringNode(at.n)
	res.Count("corpus-stmt:"+at.cx.id()+":"+s, true)
	clause, got, want := stmtRoundTrip(at.cx, at.n)
	if clause == "" {
		res.Hist("corpus-stmt-ok-" + name)
		return
	}
	res.Hist("corpus-stmt-FAIL-" + name)
	if debug {
		fmt.Fprintf(debugOut, "STMT %s %s %s %q: %s WANT %s\n", rel, at.cx.id(), clause, s, got, want)
	}
	res.AddBreak(proto.Break{Kind: "property", Name: clause, Case: "C27 stmt " + at.cx.id() + " " + s,
		Human: fmt.Sprintf("%s: statement %q (%s)", rel, s, at.cx.id()), Impl: got, Model: want, Finding: matchStmtFinding(c, at.cx, s)})
}
