package main

import (
	"fmt"
	"reflect"
	"strconv"
	"strings"

	"github.com/open2b/scriggo/ast"
	c27 "github.com/open2b/scriggo/verifhook/c27"

	"verifharness/internal/proto"
)

// ---------------------------------------------------------------------------------------------
// random real syntax trees

type dialect int

const (
	program dialect = iota
	template
)

var unaryOps = []ast.OperatorType{ast.OperatorNot, ast.OperatorAddition, ast.OperatorSubtraction, ast.OperatorXor,
	ast.OperatorPointer, ast.OperatorAddress, ast.OperatorReceive}
var unaryOpsTemplate = []ast.OperatorType{ast.OperatorExtendedNot}

var binaryOps = []ast.OperatorType{ast.OperatorEqual, ast.OperatorNotEqual, ast.OperatorLess, ast.OperatorLessEqual,
	ast.OperatorGreater, ast.OperatorGreaterEqual, ast.OperatorBitAnd, ast.OperatorBitOr, ast.OperatorAnd, ast.OperatorOr,
	ast.OperatorAddition, ast.OperatorSubtraction, ast.OperatorMultiplication, ast.OperatorDivision, ast.OperatorModulo,
	ast.OperatorXor, ast.OperatorAndNot, ast.OperatorLeftShift, ast.OperatorRightShift}
var binaryOpsTemplate = []ast.OperatorType{ast.OperatorContains, ast.OperatorNotContains, ast.OperatorExtendedAnd, ast.OperatorExtendedOr}

var opNames = map[ast.OperatorType]string{
	ast.OperatorEqual: "Equal", ast.OperatorNotEqual: "NotEqual", ast.OperatorLess: "Less", ast.OperatorLessEqual: "LessEqual",
	ast.OperatorGreater: "Greater", ast.OperatorGreaterEqual: "GreaterEqual", ast.OperatorNot: "Not", ast.OperatorBitAnd: "BitAnd",
	ast.OperatorBitOr: "BitOr", ast.OperatorAnd: "And", ast.OperatorOr: "Or", ast.OperatorAddition: "Addition",
	ast.OperatorSubtraction: "Subtraction", ast.OperatorMultiplication: "Multiplication", ast.OperatorDivision: "Division",
	ast.OperatorModulo: "Modulo", ast.OperatorXor: "Xor", ast.OperatorAndNot: "AndNot", ast.OperatorLeftShift: "LeftShift",
	ast.OperatorRightShift: "RightShift", ast.OperatorContains: "Contains", ast.OperatorNotContains: "NotContains",
	ast.OperatorReceive: "Receive", ast.OperatorAddress: "Address", ast.OperatorPointer: "Pointer",
	ast.OperatorExtendedAnd: "ExtendedAnd", ast.OperatorExtendedOr: "ExtendedOr", ast.OperatorExtendedNot: "ExtendedNot",
}

// genCfg says which node kinds the generator may use.
type genCfg struct {
	d         dialect
	modelOnly bool // only the node kinds of the Lean fragment (ident, int, unary, binary, call, index, selector, parens)
}

type gen struct {
	r      *proto.Rand
	cfg    genCfg
	noFunc bool
	plain  bool // keep out of the known finding postfix-operand-parens
	top    int  // depth of the root: `default` is generated at the root only (known finding default-operand)
}

// noNumber replaces a number literal (whose printed form would be glued to a following `.` or
// `...`: known finding literal-dot) by an identifier.
func (g *gen) noNumber(e ast.Expression) ast.Expression {
	if l, ok := e.(*ast.BasicLiteral); ok && l.Type != ast.StringLiteral && l.Type != ast.RuneLiteral {
		return g.ident()
	}
	return e
}

// numberBeforeDot reports whether the tree contains a number literal directly followed by `.` or
// `...` in the printed form (selector / type assertion operand, last argument of a variadic call).
func numberBeforeDot(n ast.Node) (found bool) {
	isNum := func(e ast.Expression) bool {
		l, ok := e.(*ast.BasicLiteral)
		return ok && l.Type != ast.StringLiteral && l.Type != ast.RuneLiteral
	}
	walkAll(reflect.ValueOf(n), func(n ast.Node) {
		switch x := n.(type) {
		case *ast.Selector:
			found = found || isNum(x.Expr)
		case *ast.TypeAssertion:
			found = found || isNum(x.Expr)
		case *ast.Call:
			found = found || x.IsVariadic && len(x.Args) > 0 && endsWithNumber(x.Args[len(x.Args)-1])
		}
	})
	return
}

// bareOperatorOperand reports whether e, as the operand of a postfix expression, is printed
// without the parentheses it needs (known finding postfix-operand-parens): a unary or binary
// operator, except `*x` and `<-x` as the function of a call.
func bareOperatorOperand(e ast.Expression, ofCall bool) bool {
	switch x := e.(type) {
	case *ast.BinaryOperator:
		return true
	case *ast.UnaryOperator:
		return !(ofCall && (x.Op == ast.OperatorPointer || x.Op == ast.OperatorReceive))
	}
	return false
}

// nonPlain reports whether the tree contains a postfix expression with a bare operator operand.
func nonPlain(n any) (found bool) {
	walkAll(reflect.ValueOf(n), func(n ast.Node) {
		switch x := n.(type) {
		case *ast.Selector:
			found = found || bareOperatorOperand(x.Expr, false)
		case *ast.Index:
			found = found || bareOperatorOperand(x.Expr, false)
		case *ast.Slicing:
			found = found || bareOperatorOperand(x.Expr, false)
		case *ast.TypeAssertion:
			found = found || bareOperatorOperand(x.Expr, false)
		case *ast.Call:
			found = found || bareOperatorOperand(x.Func, true)
		}
	})
	return
}

// operandOf generates the operand of a postfix expression.
func (g *gen) operandOf(depth int, ofCall bool) ast.Expression {
	for i := 0; i < 8; i++ {
		e := g.expr(depth)
		if !g.plain || !bareOperatorOperand(e, ofCall) {
			return e
		}
	}
	return g.ident()
}

// endsWithNumber reports whether the last token of the printed form of e is a number literal.
func endsWithNumber(e ast.Expression) (yes bool) {
	defer func() {
		if recover() != nil {
			yes = false
		}
	}()
	types, _, err := c27.Tokens(e.String(), false)
	if err != nil || len(types) == 0 {
		return false
	}
	switch types[len(types)-1] {
	case "int", "float", "imaginary":
		return true
	}
	return false
}

// defaultBelowRoot reports whether the tree has a `default` expression in a position where the
// printer loses it (known finding default-operand): anywhere but the root of a parseExpr call
// (whole expression, argument, index, bound, array length, right side of another `default`).
func defaultBelowRoot(e ast.Expression) bool { return dfltBad(e, true) }

func dfltBad(e ast.Expression, root bool) bool {
	if e == nil || reflect.ValueOf(e).IsNil() {
		return false
	}
	switch n := e.(type) {
	case *ast.Default:
		return !root || dfltBad(n.Expr1, false) || dfltBad(n.Expr2, true)
	case *ast.UnaryOperator:
		return dfltBad(n.Expr, false)
	case *ast.BinaryOperator:
		return dfltBad(n.Expr1, false) || dfltBad(n.Expr2, false)
	case *ast.Call:
		bad := dfltBad(n.Func, false)
		for _, a := range n.Args {
			bad = bad || dfltBad(a, true)
		}
		return bad
	case *ast.Index:
		return dfltBad(n.Expr, false) || dfltBad(n.Index, true)
	case *ast.Slicing:
		return dfltBad(n.Expr, false) || dfltBad(n.Low, true) || dfltBad(n.High, true) || dfltBad(n.Max, true)
	case *ast.Selector:
		return dfltBad(n.Expr, false)
	case *ast.TypeAssertion:
		return dfltBad(n.Expr, false) || dfltBad(n.Type, false)
	case *ast.ArrayType:
		return dfltBad(n.Len, true) || dfltBad(n.ElementType, false)
	case *ast.SliceType:
		return dfltBad(n.ElementType, false)
	case *ast.MapType:
		return dfltBad(n.KeyType, false) || dfltBad(n.ValueType, false)
	case *ast.ChanType:
		return dfltBad(n.ElementType, false)
	}
	found := false
	walkAll(reflect.ValueOf(e), func(x ast.Node) {
		if _, ok := x.(*ast.Default); ok {
			found = true
		}
	})
	return found
}

func (g *gen) ident() *ast.Identifier {
	if g.cfg.modelOnly {
		return ast.NewIdentifier(nil, "x"+strconv.Itoa(g.r.Intn(6)))
	}
	return ast.NewIdentifier(nil, g.r.Pick([]string{"a", "b", "c", "f", "x", "y", "T", "pkg", "x1", "_x", "é"}))
}

// the literals of the Lean fragment: kind, protocol letter, texts (the index is the model's n;
// int literals are their own decimal value)
var litTables = []struct {
	typ    ast.LiteralType
	name   string // Go constant, protocol word of the kind
	letter string
	token  string // token type name of the real lexer
	texts  []string
}{
	{ast.StringLiteral, "StringLiteral", "s", "string", []string{`"s"`, `""`, "`r`", `"a b"`}},
	{ast.RuneLiteral, "RuneLiteral", "r", "rune", []string{`'c'`, `'\n'`}},
	{ast.IntLiteral, "IntLiteral", "n", "int", nil},
	{ast.FloatLiteral, "FloatLiteral", "f", "float", []string{"1.5", "0.", "2.5e3", ".5"}},
	{ast.ImaginaryLiteral, "ImaginaryLiteral", "m", "imaginary", []string{"2i", "1.5i"}},
}

// litIndex gives the model's index of a literal text of the given kind.
func litIndex(typ ast.LiteralType, text string) (int, bool) {
	for _, t := range litTables {
		if t.typ != typ {
			continue
		}
		if t.texts == nil {
			v, err := strconv.Atoi(text)
			return v, err == nil && strconv.Itoa(v) == text
		}
		for i, x := range t.texts {
			if x == text {
				return i, true
			}
		}
	}
	return 0, false
}

func (g *gen) literal() *ast.BasicLiteral {
	if g.cfg.modelOnly {
		t := litTables[g.r.Intn(len(litTables))]
		if g.r.Bool() || t.texts == nil {
			return ast.NewBasicLiteral(nil, ast.IntLiteral, strconv.Itoa(g.r.Intn(10)))
		}
		return ast.NewBasicLiteral(nil, t.typ, t.texts[g.r.Intn(len(t.texts))])
	}
	switch g.r.Intn(7) {
	case 0:
		return ast.NewBasicLiteral(nil, ast.FloatLiteral, g.r.Pick([]string{"1.5", "0.", ".5", "1e3", "0x1p-2"}))
	case 1:
		return ast.NewBasicLiteral(nil, ast.StringLiteral, g.r.Pick([]string{`"s"`, `""`, `"a b"`, `"\""`, "`r`", "`a\"b`"}))
	case 2:
		return ast.NewBasicLiteral(nil, ast.RuneLiteral, g.r.Pick([]string{`'c'`, `'\n'`, `'\''`, `'\x3c'`}))
	case 3:
		return ast.NewBasicLiteral(nil, ast.ImaginaryLiteral, g.r.Pick([]string{"2i", "1.5i"}))
	default:
		return ast.NewBasicLiteral(nil, ast.IntLiteral, g.r.Pick([]string{"0", "1", "42", "0x1F", "0b101", "0o17", "1_000", "9223372036854775808"}))
	}
}

// convType generates the type of a conversion `T(x)`: no function type below the top (a printed
// type that ends in a result-less function type swallows the argument list: known finding
// conversion-func-type).
func (g *gen) convType() ast.Expression {
	if g.cfg.modelOnly {
		return g.typ(2)
	}
	g.noFunc = true
	defer func() { g.noFunc = false }()
	if g.r.Intn(5) == 0 {
		var params, result []*ast.Parameter
		for i := g.r.Intn(3); i > 0; i-- {
			params = append(params, ast.NewParameter(nil, g.typ(1)))
		}
		if g.r.Bool() {
			result = append(result, ast.NewParameter(nil, g.typ(0)))
		}
		return ast.NewFuncType(nil, false, params, result, false)
	}
	return g.typ(2)
}

// typ generates a type expression.
func (g *gen) typ(depth int) ast.Expression {
	t := g.typ0(depth)
	if g.r.Intn(10) == 0 {
		t.SetParenthesis(1)
	}
	return t
}

func (g *gen) typeName() *ast.Identifier {
	if g.cfg.modelOnly {
		return g.ident()
	}
	return ast.NewIdentifier(nil, g.r.Pick([]string{"int", "string", "T", "bool"}))
}

func (g *gen) typ0(depth int) ast.Expression {
	if depth <= 0 {
		return g.typeName()
	}
	switch g.r.Intn(9) {
	case 0:
		if g.cfg.modelOnly {
			return ast.NewSelector(nil, g.ident(), g.ident().Name)
		}
		return ast.NewSelector(nil, ast.NewIdentifier(nil, "pkg"), "T")
	case 1:
		return ast.NewUnaryOperator(nil, ast.OperatorPointer, g.typ(depth-1))
	case 2:
		return ast.NewSliceType(nil, g.typ(depth-1))
	case 3:
		return ast.NewMapType(nil, g.typ(depth-1), g.typ(depth-1))
	case 4:
		if g.cfg.modelOnly {
			return ast.NewChanType(nil, ast.ChanDirection(g.r.Intn(3)), g.typ(depth-1))
		}
		return ast.NewChanType(nil, ast.ChanDirection(g.r.Intn(3)), g.typ(0))
	case 5:
		if g.r.Bool() {
			return ast.NewArrayType(nil, nil, g.typ(depth-1))
		}
		if g.cfg.modelOnly {
			return ast.NewArrayType(nil, g.rootExpr(1), g.typ(depth-1))
		}
		return ast.NewArrayType(nil, ast.NewBasicLiteral(nil, ast.IntLiteral, "3"), g.typ(depth-1))
	case 6:
		return ast.NewInterface(nil)
	case 7:
		if g.noFunc || g.cfg.modelOnly {
			return g.typeName()
		}
		var params, result []*ast.Parameter
		for i := g.r.Intn(3); i > 0; i-- {
			params = append(params, ast.NewParameter(nil, g.typ(depth-1)))
		}
		if g.r.Bool() {
			result = append(result, ast.NewParameter(nil, g.typ(0)))
		}
		return ast.NewFuncType(nil, false, params, result, false)
	default:
		return g.typeName()
	}
}

// rootExpr generates an expression for a position that is the root of a parseExpr call of its
// own (argument, index, bound, array length, right side of `default`): a `default` expression
// is allowed there.
func (g *gen) rootExpr(depth int) ast.Expression {
	if g.cfg.d == template && depth > 0 && g.r.Intn(8) == 0 {
		var left ast.Expression = g.ident()
		if g.r.Bool() {
			left = ast.NewCall(nil, g.ident(), nil, false)
		}
		if g.r.Intn(4) == 0 {
			left.SetParenthesis(1)
		}
		d := ast.NewDefault(nil, left, g.rootExpr(depth-1))
		if g.r.Intn(6) == 0 {
			d.SetParenthesis(1)
		}
		return d
	}
	if depth > 0 && g.r.Intn(12) == 0 {
		return g.typ(2) // a type as a value, as in make([]T, n)
	}
	return g.expr(depth)
}

func (g *gen) unaryOp() ast.OperatorType {
	ops := unaryOps
	if g.cfg.d == template && g.r.Intn(5) == 0 {
		ops = unaryOpsTemplate
	}
	return ops[g.r.Intn(len(ops))]
}

func (g *gen) binaryOp() ast.OperatorType {
	ops := binaryOps
	if g.cfg.d == template && g.r.Intn(4) == 0 {
		ops = binaryOpsTemplate
	}
	return ops[g.r.Intn(len(ops))]
}

// expr generates an expression tree of depth ≤ depth.
func (g *gen) expr(depth int) ast.Expression {
	e := g.expr0(depth)
	if g.r.Intn(8) == 0 {
		// the parser records parentheses as a count on the node
		e.SetParenthesis(1 + g.r.Intn(2))
	}
	return e
}

func (g *gen) expr0(depth int) ast.Expression {
	if depth <= 0 || g.r.Intn(9) == 0 {
		if g.r.Intn(3) == 0 {
			return g.literal()
		}
		return g.ident()
	}
	n := 14
	switch k := g.r.Intn(n); k {
	case 0, 1, 2:
		return ast.NewBinaryOperator(nil, g.binaryOp(), g.expr(depth-1), g.expr(depth-1))
	case 3, 4:
		return ast.NewUnaryOperator(nil, g.unaryOp(), g.expr(depth-1))
	case 5:
		var args []ast.Expression
		for i := g.r.Intn(4); i > 0; i-- {
			args = append(args, g.rootExpr(depth-1))
		}
		variadic := len(args) > 0 && g.r.Intn(4) == 0
		if variadic && endsWithNumber(args[len(args)-1]) {
			variadic = false
		}
		return ast.NewCall(nil, g.operandOf(depth-1, true), args, variadic)
	case 6:
		return ast.NewIndex(nil, g.operandOf(depth-1, false), g.rootExpr(depth-1))
	case 7:
		name := g.r.Pick([]string{"F", "g", "x1"})
		if g.cfg.modelOnly {
			name = "x" + strconv.Itoa(g.r.Intn(6))
		}
		return ast.NewSelector(nil, g.noNumber(g.operandOf(depth-1, false)), name)
	case 8:
		return ast.NewBinaryOperator(nil, g.binaryOp(), g.expr(depth-1), g.expr(depth-1))
	case 9:
		var lo, hi, max ast.Expression
		full := g.r.Intn(3) == 0
		if g.r.Bool() {
			lo = g.rootExpr(depth - 1)
		}
		if full || g.r.Bool() {
			hi = g.rootExpr(depth - 1)
		}
		if full {
			max = g.rootExpr(depth - 1)
		}
		return ast.NewSlicing(nil, g.operandOf(depth-1, false), lo, hi, max, full)
	case 10:
		return ast.NewTypeAssertion(nil, g.noNumber(g.operandOf(depth-1, false)), g.typ(2))
	case 11:
		// conversion: type used as the function of a call
		return ast.NewCall(nil, g.convType(), []ast.Expression{g.rootExpr(depth - 1)}, false)
	case 12:
		if g.cfg.d == template && depth == g.top {
			// `a default e`: the left operand must be an identifier or a call
			var left ast.Expression = g.ident()
			if g.r.Bool() {
				left = ast.NewCall(nil, g.ident(), nil, false)
			}
			return ast.NewDefault(nil, left, g.rootExpr(depth-1))
		}
		return ast.NewBinaryOperator(nil, g.binaryOp(), g.expr(depth-1), g.expr(depth-1))
	default:
		return ast.NewUnaryOperator(nil, g.unaryOp(), g.expr(depth-1))
	}
}

// ---------------------------------------------------------------------------------------------
// structure of a real tree, positions ignored

var positionType = reflect.TypeOf((*ast.Position)(nil))
var nodeType = reflect.TypeOf((*ast.Node)(nil)).Elem()

// shape renders any ast node (or slice of nodes) as an s-expression of its exported structure.
// Positions, IR fields, expanded trees and reflect types are left out; the parentheses count
// of an expression is included only if parens is true.
func shape(v any, parens bool) string {
	var b strings.Builder
	writeShape(&b, reflect.ValueOf(v), parens)
	return b.String()
}

func writeShape(b *strings.Builder, v reflect.Value, parens bool) {
	if !v.IsValid() {
		b.WriteString("nil")
		return
	}
	switch v.Kind() {
	case reflect.Interface, reflect.Pointer:
		if v.IsNil() {
			b.WriteString("nil")
			return
		}
		if v.Kind() == reflect.Pointer && v.Type() == positionType {
			return
		}
		writeShape(b, v.Elem(), parens)
	case reflect.Struct:
		t := v.Type()
		b.WriteString("(" + t.Name())
		if parens {
			if e, ok := v.Addr().Interface().(ast.Expression); ok && e.Parenthesis() > 0 {
				fmt.Fprintf(b, " parens=%d", e.Parenthesis())
			}
		}
		for i := 0; i < t.NumField(); i++ {
			f := t.Field(i)
			if !f.IsExported() || f.Type == positionType || f.Name == "IR" || f.Name == "Tree" || f.Name == "Reflect" || f.Name == "Upvars" || f.Name == "DistFree" {
				continue
			}
			if f.Anonymous {
				continue
			}
			b.WriteString(" " + f.Name + "=")
			writeShape(b, v.Field(i), parens)
		}
		b.WriteString(")")
	case reflect.Slice:
		if v.Type().Elem().Kind() == reflect.Uint8 {
			b.WriteString(strconv.Quote(string(v.Bytes())))
			return
		}
		b.WriteString("[")
		for i := 0; i < v.Len(); i++ {
			if i > 0 {
				b.WriteString(" ")
			}
			writeShape(b, v.Index(i), parens)
		}
		b.WriteString("]")
	case reflect.String:
		b.WriteString(strconv.Quote(v.String()))
	case reflect.Bool:
		b.WriteString(strconv.FormatBool(v.Bool()))
	case reflect.Int, reflect.Int8, reflect.Int16, reflect.Int32, reflect.Int64:
		b.WriteString(strconv.FormatInt(v.Int(), 10))
	case reflect.Uint, reflect.Uint8, reflect.Uint16, reflect.Uint32, reflect.Uint64:
		b.WriteString(strconv.FormatUint(v.Uint(), 10))
	case reflect.Map:
		b.WriteString("map")
	default:
		b.WriteString("?" + v.Kind().String())
	}
}

// children returns the expression children of an expression node (used by the shrinker).
func children(e ast.Expression) []ast.Expression {
	var out []ast.Expression
	add := func(x ast.Expression) {
		if x != nil && !reflect.ValueOf(x).IsNil() {
			out = append(out, x)
		}
	}
	switch n := e.(type) {
	case *ast.UnaryOperator:
		add(n.Expr)
	case *ast.BinaryOperator:
		add(n.Expr1)
		add(n.Expr2)
	case *ast.Call:
		add(n.Func)
		for _, a := range n.Args {
			add(a)
		}
	case *ast.Index:
		add(n.Expr)
		add(n.Index)
	case *ast.Slicing:
		add(n.Expr)
		add(n.Low)
		add(n.High)
		add(n.Max)
	case *ast.Selector:
		add(n.Expr)
	case *ast.TypeAssertion:
		add(n.Expr)
	case *ast.Default:
		add(n.Expr1)
		add(n.Expr2)
	}
	return out
}

// replaceChild returns a copy of e's node with the i-th child (in children order) replaced.
func withChild(e ast.Expression, i int, c ast.Expression) ast.Expression {
	switch n := e.(type) {
	case *ast.UnaryOperator:
		return ast.NewUnaryOperator(nil, n.Op, c)
	case *ast.BinaryOperator:
		if i == 0 {
			return ast.NewBinaryOperator(nil, n.Op, c, n.Expr2)
		}
		return ast.NewBinaryOperator(nil, n.Op, n.Expr1, c)
	case *ast.Call:
		if i == 0 {
			return ast.NewCall(nil, c, n.Args, n.IsVariadic)
		}
		args := append([]ast.Expression(nil), n.Args...)
		args[i-1] = c
		return ast.NewCall(nil, n.Func, args, n.IsVariadic)
	case *ast.Index:
		if i == 0 {
			return ast.NewIndex(nil, c, n.Index)
		}
		return ast.NewIndex(nil, n.Expr, c)
	case *ast.Slicing:
		parts := []*ast.Expression{&n.Expr, &n.Low, &n.High, &n.Max}
		m := ast.NewSlicing(nil, n.Expr, n.Low, n.High, n.Max, n.IsFull)
		mparts := []*ast.Expression{&m.Expr, &m.Low, &m.High, &m.Max}
		k := 0
		for j, p := range parts {
			if *p != nil && !reflect.ValueOf(*p).IsNil() {
				if k == i {
					*mparts[j] = c
				}
				k++
			}
		}
		return m
	case *ast.Selector:
		return ast.NewSelector(nil, c, n.Ident)
	case *ast.TypeAssertion:
		return ast.NewTypeAssertion(nil, c, n.Type)
	case *ast.Default:
		if i == 0 {
			return ast.NewDefault(nil, c, n.Expr2)
		}
		return ast.NewDefault(nil, n.Expr1, c)
	}
	return e
}

// shrinkExpr returns a smaller tree that still fails.
func shrinkExpr(e ast.Expression, failing func(ast.Expression) bool) ast.Expression {
	for progress := true; progress; {
		progress = false
		// 1. replace the whole tree by one of its children
		for _, c := range children(e) {
			if failing(c) {
				e, progress = c, true
				break
			}
		}
		if progress {
			continue
		}
		// 2. shrink inside a child; replace a child by a leaf
		for i, c := range children(e) {
			if _, isIdent := c.(*ast.Identifier); !isIdent {
				leaf := ast.NewIdentifier(nil, "a")
				if cand := withChild(e, i, leaf); failing(cand) {
					e, progress = cand, true
					break
				}
			}
			small := shrinkExpr(c, func(x ast.Expression) bool { return failing(withChild(e, i, x)) })
			if shape(small, true) != shape(c, true) {
				e, progress = withChild(e, i, small), true
				break
			}
		}
		if !progress && e.Parenthesis() > 0 {
			p := e.Parenthesis()
			e.SetParenthesis(0)
			if failing(e) {
				progress = true
			} else {
				e.SetParenthesis(p)
			}
		}
	}
	return e
}

// ---------------------------------------------------------------------------------------------
// protocol encodings (prefix notation, fixed arity) of the trees of the Lean fragment

// inFragment reports whether e only uses node kinds of the Lean model.
func inFragment(e ast.Expression) bool {
	_, ok := encodeExpr(e, false)
	return ok
}

func identIndex(name string) (int, bool) {
	if len(name) < 2 || name[0] != 'x' {
		return 0, false
	}
	n, err := strconv.Atoi(name[1:])
	if err != nil || n < 0 || strconv.Itoa(n) != name[1:] {
		return 0, false
	}
	return n, true
}

// encodeExpr gives the prefix notation of a real tree; parentheses counts become P wrappers when
// parens is true and are dropped otherwise.
func encodeExpr(e ast.Expression, parens bool) (string, bool) {
	var b []string
	ok := true
	var enc func(e ast.Expression)
	encOpt := func(e ast.Expression) {
		if e == nil || reflect.ValueOf(e).IsNil() {
			b = append(b, "O0")
			return
		}
		b = append(b, "O1")
		enc(e)
	}
	enc = func(e ast.Expression) {
		if e == nil || reflect.ValueOf(e).IsNil() {
			ok = false
			return
		}
		if parens {
			for i := 0; i < e.Parenthesis(); i++ {
				b = append(b, "P")
			}
		}
		switch n := e.(type) {
		case *ast.Identifier:
			i, isx := identIndex(n.Name)
			if !isx {
				ok = false
				return
			}
			b = append(b, "I", strconv.Itoa(i))
		case *ast.BasicLiteral:
			idx, found := litIndex(n.Type, n.Value)
			if !found {
				ok = false
				return
			}
			for _, t := range litTables {
				if t.typ == n.Type {
					b = append(b, "L", t.name, strconv.Itoa(idx))
				}
			}
		case *ast.UnaryOperator:
			b = append(b, "U", opNames[n.Op])
			enc(n.Expr)
		case *ast.BinaryOperator:
			b = append(b, "B", opNames[n.Op])
			enc(n.Expr1)
			enc(n.Expr2)
		case *ast.Call:
			v := "0"
			if n.IsVariadic {
				v = "1"
			}
			b = append(b, "C", v, strconv.Itoa(len(n.Args)))
			enc(n.Func)
			for _, a := range n.Args {
				enc(a)
			}
		case *ast.Index:
			b = append(b, "X")
			enc(n.Expr)
			enc(n.Index)
		case *ast.Selector:
			i, isx := identIndex(n.Ident)
			if !isx {
				ok = false
				return
			}
			b = append(b, "S")
			enc(n.Expr)
			b = append(b, strconv.Itoa(i))
		case *ast.Slicing:
			v := "0"
			if n.IsFull {
				v = "1"
			}
			b = append(b, "Z", v)
			enc(n.Expr)
			encOpt(n.Low)
			encOpt(n.High)
			encOpt(n.Max)
		case *ast.TypeAssertion:
			b = append(b, "T")
			enc(n.Expr)
			enc(n.Type)
		case *ast.Default:
			b = append(b, "D")
			enc(n.Expr1)
			enc(n.Expr2)
		case *ast.SliceType:
			b = append(b, "TS")
			enc(n.ElementType)
		case *ast.ArrayType:
			b = append(b, "TA")
			encOpt(n.Len)
			enc(n.ElementType)
		case *ast.MapType:
			b = append(b, "TM")
			enc(n.KeyType)
			enc(n.ValueType)
		case *ast.ChanType:
			b = append(b, "TC", []string{"NoDirection", "ReceiveDirection", "SendDirection"}[n.Direction])
			enc(n.ElementType)
		case *ast.Interface:
			b = append(b, "TI")
		default:
			ok = false
		}
	}
	enc(e)
	return strings.Join(b, " "), ok
}

// tokenWord maps a token of the real lexer to its protocol word.
func tokenWord(typ, text string) (string, bool) {
	switch typ {
	case "identifier":
		i, ok := identIndex(text)
		if !ok {
			return "", false
		}
		return "i" + strconv.Itoa(i), true
	}
	for _, t := range litTables {
		if t.token == typ {
			i, ok := litIndex(t.typ, text)
			if !ok {
				return "", false
			}
			return t.letter + strconv.Itoa(i), true
		}
	}
	if strings.ContainsAny(text, " \t\r\n") || text == "" {
		return "", false
	}
	return text, true
}
