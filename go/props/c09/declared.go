package main

import (
	"reflect"
	"strings"

	"verifharness/internal/hx"
)

// Third stream: types DECLARED IN THE TEMPLATE.
//
// `{% type T X %}` defines a new type whose method set is empty whatever X's methods are (Go
// drops the methods of the underlying type; internal/compiler/types answers Implements for every
// type created in template code with "only the empty interface"), `{% type T = X %}` is X itself.
// X ranges over the native type classes (basic kinds, named variants, a type with each of the
// stringer / error method sets, trusted format types, []byte, time.Time, slices, arrays, maps,
// pointers, structs of those); T is used directly, through `type U T`, and inside template-made
// composites ([]T, [1]T, map[string]T, struct{ F T }, *T); the value comes from a conversion
// `T(x)` of a global x of type X and is shown as a conversion, a local variable, a declared
// variable, the right of a default — in every placement. The descriptor the model gets says what
// the checker may know of such a type: the kind and the components of X, none of the exact types,
// no method. Oracle = the property.

// the native classes a template type is declared over (interfaces and recursive types left out:
// a defined interface type and the `seen` bookkeeping of a renamed recursive type are not described)
var declaredOver = []string{
	"bool", "int", "uint8", "uintptr", "float64", "complex128", "string", "namedString", "namedInt", "[]byte", "namedBytes", "time.Time",
	"[]int", "[]string", "[2]int", "[]chan", "chan", "func",
	"namedStruct", "strStruct", "strInt", "errInt", "errStruct", "strAndErr", "envStr", "htmlStr", "htmlEnv", "cssStr", "cssEnv",
	"jsStr", "jsEnv", "jsonStr", "jsonEnv", "mdStr", "mdEnv", "mdAndStr", "*ptrStr", "ptrStr",
	"native.HTML", "native.CSS", "native.JS", "native.JSON", "native.Markdown",
	"map[string]int", "map[[2]int]int", "map[uintptr]int", "map[keyStr]int", "mapWithStr", "mapNamed",
	"*int", "*chan", "*struct", "*time.Time", "withChan", "withUnexported", "withTags", "deep", "holder{chan}", "holder", "struct{}",
	"[]any{chan}", "[]any", "map[string]any{uintptr}", "[]fmt.Stringer", "[]error",
}

// declaredDescr is the descriptor of a value of a type defined over e's type: e's descriptor with
// the top node stripped of exact type and methods.
func declaredDescr(e entry) descr {
	d := describeEntry(e)
	f := strings.Fields(d.s)
	// <tag> <kind> <ident> <flags> …
	f[2], f[3] = "none", "-"
	d.s = strings.Join(f, " ")
	return d
}

func wrapDescr(d descr, head string, tail string) *descr {
	d.s = head + d.s + tail
	return &d
}

func declaredForms(x entry) []formSpec {
	g := gl("x", x, "X", x.val.Type())
	dd := declaredDescr(x)
	plain := describeEntry(x)
	var fs []formSpec
	add := func(form, prefix, pre, show string, d *descr) {
		o := typed(x)
		o.d = d
		fs = append(fs, formSpec{form: form, class: x.name, prefix: prefix, pre: pre, show: show, globals: g, exprs: [][]opnd{{opAbsent, o}},
			dynLoose: d != &plain})
	}
	def := "{% type T X %}"
	add("declared-conversion", def, "", "{{ T(x) }}", &dd)
	add("declared-local", def, "{% v := T(x) %}", "{{ v }}", &dd)
	add("declared-var", def, "{% var v T = T(x) %}", "{{ v }}", &dd)
	add("declared-show-stmt", def, "", "{% show T(x) %}", &dd)
	add("declared-default-right", def, "", "{{ missing default T(x) }}", &dd)
	add("declared-of-declared", def+"{% type U T %}", "", "{{ U(T(x)) }}", &dd)
	add("declared-of-declared-direct", def+"{% type U T %}", "", "{{ U(x) }}", &dd)
	add("declared-back-to-native", def, "", "{{ X(T(x)) }}", &plain)
	add("alias", "{% type T = X %}", "", "{{ T(x) }}", &plain)
	add("alias-local", "{% type T = X %}", "{% var v T = x %}", "{{ v }}", &plain)
	add("alias-of-declared", def+"{% type A = T %}", "", "{{ A(x) }}", &dd)
	// template-made composites of T
	add("slice-of-declared", def, "", "{{ []T{T(x)} }}", wrapDescr(dd, "elem slice none - ", ""))
	add("array-of-declared", def, "", "{{ [1]T{T(x)} }}", wrapDescr(dd, "elem array none - ", ""))
	add("map-of-declared", def, "", `{{ map[string]T{"k": T(x)} }}`, wrapDescr(dd, "map map none - basic string none - ", ""))
	add("struct-of-declared", def, "", "{{ struct{ F T }{T(x)} }}", wrapDescr(dd, "struct struct none - 1 1 ", ""))
	add("pointer-to-declared", def, "{% v := T(x) %}", "{{ &v }}", wrapDescr(dd, "elem pointer none - ", ""))
	add("declared-slice-of-declared", def+"{% type S []T %}", "", "{{ S{T(x)} }}", wrapDescr(dd, "elem slice none - ", ""))
	add("declared-struct-of-declared", def+"{% type S struct{ F T } %}", "", "{{ S{T(x)} }}", wrapDescr(dd, "struct struct none - 1 1 ", ""))
	add("selector-of-declared", def+"{% type S struct{ F T } %}", "{% s := S{T(x)} %}", "{{ s.F }}", &dd)
	add("index-of-declared", def, "{% s := []T{T(x)} %}", "{{ s[0] }}", &dd)
	// a declared type as map key (comparable X only)
	if x.val.Type().Comparable() {
		kd := dd
		add("map-keyed-by-declared", def, "", `{{ map[T]int{T(x): 1} }}`, wrapDescr(descr{s: "map map none - " + kd.s + " basic int none -", full: kd.full, hasValues: kd.hasValues, dynTypes: kd.dynTypes}, "", ""))
	}
	// boxed in an interface: the dynamic type is the declared one
	direct := fs[0]
	add("declared-in-any", def, "{% var i interface{} = T(x) %}", "{{ i }}", wrapDescr(dd, "val interface emptyInterface - ", ""))
	fs[len(fs)-1].heldDirect = &direct
	add("declared-in-any-slice", def, "", "{{ []interface{}{T(x)} }}", wrapDescr(dd, "elem slice none - val interface emptyInterface - ", ""))
	fs[len(fs)-1].heldDirect = &direct
	return fs
}

func runDeclared(c *hx.Ctx) error {
	over := pick(catalogue(), declaredOver)
	var cases []*nodeCase
	for _, p := range positions {
		for _, x := range over {
			if x.val.Kind() == reflect.Interface {
				continue
			}
			for _, f := range declaredForms(x) {
				cases = append(cases, p.place(f))
			}
		}
	}
	return evalNodeCases(c, cases)
}
