package main

import (
	"errors"
	"fmt"
	"io"
	"reflect"
	"sort"
	"strings"
	"time"
	"unsafe"

	"github.com/open2b/scriggo"
	"github.com/open2b/scriggo/native"

	"verifharness/internal/hx"
	"verifharness/internal/proto"
)

// C09: a show accepted by the type checker never fails at run time for its static type.
//
// For every type of the catalogue (every kind, named variants, implementations of each of the
// thirteen interfaces, the trusted format types, []byte, time.Time, pointers, composites,
// recursive types, the same values boxed in interfaces) plus seeded random composite types, and
// for every position a show can stand in (the fourteen contexts, three of them also inside a
// URL), a tiny template is built with scriggo.BuildTemplate and run with Template.Run:
//
//   - correspondence: build outcome (ok / *BuildError "cannot show" / panic) against the model's
//     staticTop, run outcome (ok / "cannot show value" / panic) against dynTop, the descriptor
//     being computed here from reflect (kind, Implements, exact types, components);
//   - oracle (independent of the model): build ok and static type not an interface ⇒ Run does
//     not fail; a value held in an interface fails only if its dynamic type, shown by itself in
//     the same position, is rejected by the build.
func main() { hx.Main("C09", run) }

// ---------------------------------------------------------------------------------------------
// positions

type position struct {
	name   string // model context
	inURL  bool
	file   string
	before string
	after  string
	ctxMsg string // how checkShow names the context in its error
}

var positions = []position{
	{"text", false, "a.txt", "x ", " y", "as text"},
	{"html", false, "a.html", "<p>", "</p>", "as HTML"},
	{"tag", false, "a.html", "<div ", ">", "as tag"},
	{"quotedAttr", false, "a.html", `<div title="`, `">`, "as quoted attribute"},
	{"unquotedAttr", false, "a.html", `<div title=`, `>`, "as unquoted attribute"},
	{"quotedAttr", true, "a.html", `<a href="`, `">`, "as quoted attribute"},
	{"unquotedAttr", true, "a.html", `<a href=`, `>`, "as unquoted attribute"},
	{"css", false, "a.html", `<style>p{color:`, `}</style>`, "as CSS"},
	{"css", false, "a.css", `p{color:`, `}`, "as CSS"},
	{"cssString", false, "a.html", `<style>p{font:"`, `"}</style>`, "as CSS string"},
	{"js", false, "a.html", `<script>var x = `, `;</script>`, "as JavaScript"},
	{"js", false, "a.js", `var x = `, `;`, "as JavaScript"},
	{"jsString", false, "a.html", `<script>var x = "`, `";</script>`, "as JavaScript string"},
	{"json", false, "a.html", `<script type="application/ld+json">`, `</script>`, "as JSON"},
	{"json", false, "a.json", `{"a":`, `}`, "as JSON"},
	{"jsonString", false, "a.json", `{"a":"`, `"}`, "as JSON string"},
	{"markdown", false, "a.md", "# ", "\n", "as Markdown"},
	{"markdown", true, "a.md", "see http://example.com/", " ok\n", "as Markdown"},
	{"tabCodeBlock", false, "a.md", "text\n\n\t", "\n", "as tab code block"},
	{"spacesCodeBlock", false, "a.md", "text\n\n    ", "\n", "as spaces code block"},
}

func (p position) key() string {
	if p.inURL {
		return "url-" + p.name + "@" + p.file
	}
	return p.name + "@" + p.file
}

func (p position) template(expr string) string { return p.before + "{{ " + expr + " }}" + p.after }

// ---------------------------------------------------------------------------------------------
// the catalogue of types

type (
	namedBool    bool
	namedInt     int
	namedUint8   uint8
	namedUintptr uintptr
	namedFloat   float64
	namedComplex complex128
	namedString  string
	namedBytes   []byte
	namedSlice   []int
	namedStruct  struct{ A int }

	strInt    int
	strStruct struct{ A chan int }
	envStr    struct{ A chan int }
	errStruct struct{ A chan int }
	errInt    int
	htmlStr   struct{ A chan int }
	htmlEnv   struct{ A chan int }
	cssStr    struct{ A chan int }
	cssEnv    struct{ A chan int }
	jsStr     struct{ A chan int }
	jsEnv     struct{ A chan int }
	jsonStr   struct{ A chan int }
	jsonEnv   struct{ A chan int }
	mdStr     struct{ A chan int }
	mdEnv     struct{ A chan int }
	mdAndStr  struct{ A chan int }
	strAndErr struct{ A chan int }
	ptrStr    struct{ A chan int }

	keyStr     struct{ N int }
	keyEnv     struct{ N int }
	mapWithStr map[[2]int]int // a map type that itself implements fmt.Stringer
	mapNamed   map[string]int

	withUnexported struct {
		A int
		b chan int
		C string
	}
	withChan struct{ A chan int }
	withTags struct {
		A int    `json:"a"`
		B string `json:"-"`
		C []int  `json:"c,omitempty"`
	}
	deep struct {
		U uintptr
		M map[uintptr]string
		S []map[string][2]*int
	}
	node struct {
		V    int
		Next *node
		M    map[uintptr]*node
	}
	tree struct {
		Name string
		Kids []tree
	}
	badNode struct {
		Next *badNode
		M    map[[1]int]int
	}
	holder struct {
		X any
		E error
	}
)

func (strInt) String() string               { return "strInt" }
func (strStruct) String() string            { return "strStruct" }
func (envStr) String(native.Env) string     { return "envStr" }
func (errStruct) Error() string             { return "errStruct" }
func (errInt) Error() string                { return "errInt" }
func (htmlStr) HTML() native.HTML           { return "<b>h</b>" }
func (htmlEnv) HTML(native.Env) native.HTML { return "<b>h</b>" }
func (cssStr) CSS() native.CSS              { return "red" }
func (cssEnv) CSS(native.Env) native.CSS    { return "red" }
func (jsStr) JS() native.JS                 { return "1" }
func (jsEnv) JS(native.Env) native.JS       { return "1" }
func (jsonStr) JSON() native.JSON           { return "1" }
func (jsonEnv) JSON(native.Env) native.JSON { return "1" }
func (mdStr) Markdown() native.Markdown     { return "*m*" }
func (mdEnv) Markdown(native.Env) native.Markdown {
	return "*m*"
}
func (mdAndStr) Markdown() native.Markdown { return "*m*" }
func (mdAndStr) String() string            { return "mdAndStr" }
func (strAndErr) String() string           { return "s" }
func (strAndErr) Error() string            { return "e" }
func (*ptrStr) String() string             { return "ptrStr" }
func (keyStr) String() string              { return "keyStr" }
func (keyEnv) String(native.Env) string    { return "keyEnv" }
func (mapWithStr) String() string          { return "mapWithStr" }

type entry struct {
	name string
	val  reflect.Value // addressable value of the static type
}

// decl wraps a value of static type T.
func decl[T any](name string, v T) entry {
	p := new(T)
	*p = v
	return entry{name, reflect.ValueOf(p).Elem()}
}

func catalogue() []entry {
	one, x := 1, 7
	pone := &one
	n2 := &node{V: 2, M: map[uintptr]*node{3: nil}}
	tm := time.Date(2024, 2, 29, 12, 0, 0, 0, time.UTC)
	es := []entry{
		decl("bool", true), decl("int", -3), decl("int8", int8(-8)), decl("int16", int16(16)),
		decl("int32", int32(32)), decl("int64", int64(64)), decl("uint", uint(1)), decl("uint8", uint8(8)),
		decl("uint16", uint16(16)), decl("uint32", uint32(32)), decl("uint64", uint64(64)),
		decl("uintptr", uintptr(5)), decl("float32", float32(1.5)), decl("float64", 2.5),
		decl("complex64", complex64(1+2i)), decl("complex128", 3+4i), decl("string", "a<b c"),
		decl("chan", make(chan int)), decl("func", func() {}), decl("unsafe.Pointer", unsafe.Pointer(&x)),
		decl("namedBool", namedBool(true)), decl("namedInt", namedInt(4)), decl("namedUint8", namedUint8(4)),
		decl("namedUintptr", namedUintptr(4)), decl("namedFloat", namedFloat(4)),
		decl("namedComplex", namedComplex(4)), decl("namedString", namedString("n")),
		decl("namedBytes", namedBytes("nb")), decl("namedSlice", namedSlice{1}), decl("namedStruct", namedStruct{1}),
		decl("strInt", strInt(1)), decl("strStruct", strStruct{}), decl("envStr", envStr{}),
		decl("errStruct", errStruct{}), decl("errInt", errInt(1)), decl("htmlStr", htmlStr{}),
		decl("htmlEnv", htmlEnv{}), decl("cssStr", cssStr{}), decl("cssEnv", cssEnv{}), decl("jsStr", jsStr{}),
		decl("jsEnv", jsEnv{}), decl("jsonStr", jsonStr{}), decl("jsonEnv", jsonEnv{}), decl("mdStr", mdStr{}),
		decl("mdEnv", mdEnv{}), decl("mdAndStr", mdAndStr{}), decl("strAndErr", strAndErr{}),
		decl("ptrStr", ptrStr{}), decl("*ptrStr", &ptrStr{}),
		decl("native.HTML", native.HTML("<i>x</i>")), decl("native.CSS", native.CSS("red")),
		decl("native.JS", native.JS("1+1")), decl("native.JSON", native.JSON(`{"a":1}`)),
		decl("native.Markdown", native.Markdown("*x*")),
		decl("[]byte", []byte("by<te")), decl("time.Time", tm), decl("*time.Time", &tm),
		decl("[]int", []int{1, 2}), decl("[2]int", [2]int{1, 2}), decl("[]string", []string{"a"}),
		decl("[]uintptr", []uintptr{1}), decl("[][]byte", [][]byte{[]byte("x")}), decl("[]chan", []chan int{make(chan int)}),
		decl("[]complex", []complex128{1}), decl("[1]func", [1]func(){func() {}}),
		decl("*int", pone), decl("**int", &pone), decl("*struct", &namedStruct{2}), decl("*chan", new(chan int)),
		decl("map[string]int", map[string]int{"a": 1}), decl("mapNamed", mapNamed{"a": 1}),
		decl("map[bool]int", map[bool]int{true: 1}), decl("map[int]int", map[int]int{1: 1}),
		decl("map[int8]int", map[int8]int{1: 1}), decl("map[uint64]int", map[uint64]int{1: 1}),
		decl("map[uintptr]int", map[uintptr]int{1: 1}), decl("map[float64]int", map[float64]int{1.5: 1}),
		decl("map[complex128]int", map[complex128]int{2i: 1}), decl("map[namedString]int", map[namedString]int{"k": 1}),
		decl("map[[2]int]int", map[[2]int]int{{1, 2}: 1}), decl("map[namedStruct]int", map[namedStruct]int{{1}: 1}),
		decl("map[keyStr]int", map[keyStr]int{{1}: 1}), decl("map[keyEnv]int", map[keyEnv]int{{1}: 1}),
		decl("map[strInt]int", map[strInt]int{1: 1}), decl("map[*int]int", map[*int]int{pone: 1}),
		decl("map[any]int", map[any]int{"k": 1}), decl("map[fmt.Stringer]int", map[fmt.Stringer]int{keyStr{1}: 1}),
		decl("map[error]int", map[error]int{errInt(1): 1}), decl("map[chan]int", map[chan int]int{make(chan int): 1}),
		decl("mapWithStr", mapWithStr{{1, 2}: 3}),
		decl("map[string]chan", map[string]chan int{"a": nil}), decl("map[string]any", map[string]any{"a": 1}),
		decl("map[string]any{map[[2]int]int}", map[string]any{"a": map[[2]int]int{{1, 2}: 3}}),
		decl("map[string]any{uintptr}", map[string]any{"a": uintptr(1)}),
		decl("map[any]int{[2]int}", map[any]int{[2]int{1, 2}: 1}),
		decl("map[any]int{nil}", map[any]int{nil: 1}),
		decl("[]any", []any{1}), decl("[]any{nil}", []any{nil}), decl("[]any{chan}", []any{make(chan int)}),
		decl("[]any{map[[2]int]int}", []any{map[[2]int]int{{1, 2}: 3}}), decl("[]any{[]any{uintptr}}", []any{[]any{uintptr(1)}}),
		decl("[]error", []error{errInt(1)}), decl("[]fmt.Stringer", []fmt.Stringer{strInt(1)}),
		decl("withUnexported", withUnexported{A: 1, C: "c"}), decl("withChan", withChan{}),
		decl("withTags", withTags{A: 1, B: "b", C: []int{1}}),
		decl("deep", deep{U: 1, M: map[uintptr]string{1: "a"}, S: []map[string][2]*int{{"k": {pone, pone}}}}),
		decl("node", node{V: 1, Next: n2, M: map[uintptr]*node{1: n2}}), decl("*node", n2),
		decl("tree", tree{"r", []tree{{"k", nil}}}), decl("badNode", badNode{Next: &badNode{}, M: map[[1]int]int{{1}: 1}}),
		decl("holder", holder{X: uintptr(1), E: errInt(1)}), decl("holder{chan}", holder{X: make(chan int)}),
		decl("holder{badmap}", holder{X: map[[2]int]int{{1, 2}: 3}}),
		decl("struct{}", struct{}{}), decl("struct{A,b}", struct {
			A []int
			b func()
		}{A: []int{1}}),
	}
	// static interface types: nil, and every value above boxed
	es = append(es, decl[any]("any(nil)", nil), decl[error]("error(nil)", nil), decl[fmt.Stringer]("fmt.Stringer(nil)", nil),
		decl[error]("error(errInt)", errInt(1)), decl[error]("error(errStruct)", errStruct{}),
		decl[fmt.Stringer]("fmt.Stringer(strStruct)", strStruct{}), decl[fmt.Stringer]("fmt.Stringer(time.Time)", tm),
		decl[native.MarkdownStringer]("MarkdownStringer(mdStr)", mdStr{}),
		decl[native.JSStringer]("JSStringer(jsStr)", jsStr{}),
		decl[interface{ Foo() }]("interface{Foo()}(nil)", nil))
	n := len(es)
	for _, e := range es[:n] {
		if e.val.Kind() == reflect.Interface {
			continue
		}
		p := new(any)
		*p = e.val.Interface()
		es = append(es, entry{"any(" + e.name + ")", reflect.ValueOf(p).Elem()})
	}
	return es
}

// ---------------------------------------------------------------------------------------------
// descriptors (protocol form) from reflect

var ifaceTypes = []struct {
	name string
	t    reflect.Type
}{
	{"stringer", reflect.TypeFor[fmt.Stringer]()}, {"envStringer", reflect.TypeFor[native.EnvStringer]()},
	{"error", reflect.TypeFor[error]()}, {"htmlStringer", reflect.TypeFor[native.HTMLStringer]()},
	{"htmlEnvStringer", reflect.TypeFor[native.HTMLEnvStringer]()}, {"cssStringer", reflect.TypeFor[native.CSSStringer]()},
	{"cssEnvStringer", reflect.TypeFor[native.CSSEnvStringer]()}, {"jsStringer", reflect.TypeFor[native.JSStringer]()},
	{"jsEnvStringer", reflect.TypeFor[native.JSEnvStringer]()}, {"jsonStringer", reflect.TypeFor[native.JSONStringer]()},
	{"jsonEnvStringer", reflect.TypeFor[native.JSONEnvStringer]()}, {"mdStringer", reflect.TypeFor[native.MarkdownStringer]()},
	{"mdEnvStringer", reflect.TypeFor[native.MarkdownEnvStringer]()},
}

var identTypes = map[reflect.Type]string{
	reflect.TypeFor[any](): "emptyInterface", reflect.TypeFor[[]byte](): "byteSlice", reflect.TypeFor[time.Time](): "time",
	reflect.TypeFor[native.HTML](): "html", reflect.TypeFor[native.CSS](): "css", reflect.TypeFor[native.JS](): "js",
	reflect.TypeFor[native.JSON](): "json", reflect.TypeFor[native.Markdown](): "markdown",
}

var kindNames = map[reflect.Kind]string{
	reflect.Invalid: "invalid", reflect.Bool: "bool", reflect.Int: "int", reflect.Int8: "int8", reflect.Int16: "int16",
	reflect.Int32: "int32", reflect.Int64: "int64", reflect.Uint: "uint", reflect.Uint8: "uint8", reflect.Uint16: "uint16",
	reflect.Uint32: "uint32", reflect.Uint64: "uint64", reflect.Uintptr: "uintptr", reflect.Float32: "float32",
	reflect.Float64: "float64", reflect.Complex64: "complex64", reflect.Complex128: "complex128", reflect.Array: "array",
	reflect.Chan: "chan", reflect.Func: "func", reflect.Interface: "interface", reflect.Map: "map", reflect.Pointer: "pointer",
	reflect.Slice: "slice", reflect.String: "string", reflect.Struct: "struct", reflect.UnsafePointer: "unsafePointer",
}

func info(t reflect.Type) string {
	ident := identTypes[t]
	if ident == "" {
		ident = "none"
	}
	var fl []string
	for _, i := range ifaceTypes {
		if t.Implements(i.t) {
			fl = append(fl, i.name)
		}
	}
	flags := "-"
	if len(fl) > 0 {
		flags = strings.Join(fl, ",")
	}
	return kindNames[t.Kind()] + " " + ident + " " + flags
}

type descr struct {
	s         string
	dynTypes  []reflect.Value // values held in interfaces (shown value included), for the oracle
	full      bool            // no nil pointer/map/slice, no empty container on the way: the worst case the model describes
	hasValues bool            // some interface holds a value
}

// describe gives the descriptor of a value of static type t. v may be invalid (no value at
// hand: an element type of an empty container), then interfaces hold nil.
func describe(t reflect.Type, v reflect.Value, seen []reflect.Type, d *descr) string {
	for _, s := range seen {
		if s == t {
			return "seen " + info(t)
		}
	}
	inner := append(seen[:len(seen):len(seen)], t)
	switch t.Kind() {
	case reflect.Interface:
		if !v.IsValid() || v.IsNil() {
			return "nil " + info(t)
		}
		e := v.Elem()
		d.dynTypes = append(d.dynTypes, e)
		d.hasValues = true
		// the dynamic value is shown with a fresh `types` list
		return "val " + info(t) + " " + describe(e.Type(), e, nil, d)
	case reflect.Array, reflect.Slice:
		var ev reflect.Value
		if v.IsValid() && v.Len() > 0 && !(t.Kind() == reflect.Slice && v.IsNil()) {
			ev = v.Index(0)
		} else if t != reflect.TypeFor[[]byte]() {
			d.full = false
		}
		return "elem " + info(t) + " " + describe(t.Elem(), ev, inner, d)
	case reflect.Pointer:
		var ev reflect.Value
		if v.IsValid() && !v.IsNil() {
			ev = v.Elem()
		} else {
			d.full = false
		}
		return "elem " + info(t) + " " + describe(t.Elem(), ev, inner, d)
	case reflect.Chan:
		return "elem " + info(t) + " " + describe(t.Elem(), reflect.Value{}, inner, d)
	case reflect.Map:
		var kv, ev reflect.Value
		if v.IsValid() && v.Len() > 0 {
			it := v.MapRange()
			it.Next()
			kv, ev = it.Key(), it.Value()
		} else {
			d.full = false
		}
		return "map " + info(t) + " " + describe(t.Key(), kv, inner, d) + " " + describe(t.Elem(), ev, inner, d)
	case reflect.Struct:
		s := "struct " + info(t) + " " + fmt.Sprint(t.NumField())
		for i := 0; i < t.NumField(); i++ {
			f := t.Field(i)
			var fv reflect.Value
			if v.IsValid() && f.PkgPath == "" {
				fv = v.Field(i)
			}
			exp := " 0 "
			if f.PkgPath == "" {
				exp = " 1 "
			}
			s += exp + describe(f.Type, fv, inner, d)
		}
		return s
	}
	return "basic " + info(t)
}

func describeEntry(e entry) descr {
	d := descr{full: true}
	d.s = describe(e.val.Type(), e.val, nil, &d)
	return d
}

// ---------------------------------------------------------------------------------------------
// the real code

type outcome struct {
	class string // ok | fail | panic | other
	msg   string
}

func build(p position, name string, v reflect.Value) (t *scriggo.Template, o outcome) {
	defer func() {
		if r := recover(); r != nil {
			t, o = nil, outcome{"panic", fmt.Sprint(r)}
		}
	}()
	fsys := scriggo.Files{p.file: []byte(p.template("v"))}
	t, err := scriggo.BuildTemplate(fsys, p.file, &scriggo.BuildOptions{Globals: native.Declarations{"v": v.Addr().Interface()}})
	if err != nil {
		var be *scriggo.BuildError
		if errors.As(err, &be) && strings.Contains(err.Error(), "cannot show") {
			return nil, outcome{"fail", err.Error()}
		}
		return nil, outcome{"other", err.Error()}
	}
	return t, outcome{"ok", ""}
}

func runT(t *scriggo.Template, out io.Writer) (o outcome) {
	defer func() {
		if r := recover(); r != nil {
			o = outcome{"panic", fmt.Sprint(r)}
		}
	}()
	err := t.Run(out, nil, nil)
	if err == nil {
		return outcome{"ok", ""}
	}
	var pe *scriggo.PanicError
	if errors.As(err, &pe) {
		return outcome{"panic", err.Error()}
	}
	if strings.Contains(err.Error(), "cannot show") {
		return outcome{"fail", err.Error()}
	}
	return outcome{"other", err.Error()}
}

// ---------------------------------------------------------------------------------------------

type kase struct {
	p position
	e entry
	d descr
}

func (k kase) line() string {
	u := "0"
	if k.p.inURL {
		u = "1"
	}
	return "C09 show " + k.p.name + " " + u + " " + k.d.s
}

func (k kase) human() string {
	return fmt.Sprintf("%s: %q with v of type %s = %#v", k.p.file, k.p.template("v"), k.e.val.Type(), k.e.val.Interface())
}

func run(c *hx.Ctx) error {
	res := c.Res
	res.Rule = "every type of a fixed catalogue (all kinds, named variants, implementations of each of the 13 interfaces, trusted format types, []byte, time.Time, pointers, maps with each key kind, structs, recursive types, and each of them boxed in `any`) and seeded random composite types (reflect.SliceOf/ArrayOf/MapOf/PointerTo/StructOf, depth ≤ 3), each shown in every one of 20 placements covering the 17 model positions; one template built and run per case; a case is non-trivial when the build accepts it (so that the run side is exercised); distinct by (placement, type). Second stream (forms.go): the form of the shown expression varies — identifier, parenthesised, show statement, conversion, index, map index, selector, call, call with (T, error), dereference, address, local variable, type assertion, function literal call, two expressions in one show, `x default y` with x declared / not declared and every pairing of type classes, macro call results, render expressions (also left of default, present or missing), itea with using, constant and composite literals, untyped nil — over ~65 type classes × the 20 placements; the model answers with the regenerated Show case run over the operand pairs; non-trivial when the build accepts; distinct by (form, placement, type classes)"

	// 0. the model's own table check and reflect.Kind numbering
	if c.D != nil {
		var lines []string
		kinds := make([]reflect.Kind, 0, len(kindNames))
		for k := range kindNames {
			kinds = append(kinds, k)
		}
		sort.Slice(kinds, func(i, j int) bool { return kinds[i] < kinds[j] })
		for _, k := range kinds {
			lines = append(lines, "C09 kindord "+kindNames[k])
		}
		lines = append(lines, "C09 table")
		ans, err := c.D.Batch(lines)
		if err != nil {
			return err
		}
		for i, k := range kinds {
			res.SpecChecks["kind-ordinals"]++
			if ans[i] != fmt.Sprintf("ok %d", int(k)) {
				res.AddBreak(proto.Break{Kind: "correspondence", Name: "reflect.Kind-ordinal", Case: lines[i],
					Impl: fmt.Sprintf("ok %d", int(k)), Model: ans[i]})
			}
		}
		if t := ans[len(ans)-1]; t != "ok -" {
			res.Notes = append(res.Notes, "model table facts fail at: "+t)
		}
	}

	// 1. the placements are what the model takes them for
	for _, p := range positions {
		ch := decl("chan", make(chan int))
		_, o := build(p, "chan", ch.val)
		if o.class != "fail" || !strings.HasSuffix(strings.TrimSuffix(o.msg, ")"), p.ctxMsg) {
			res.AddBreak(proto.Break{Kind: "correspondence", Name: "placement-context", Case: p.key(),
				Human: p.template("v"), Impl: o.class + " " + o.msg, Model: "cannot show … " + p.ctxMsg})
		}
		s := decl("string", "é")
		t, o := build(p, "string", s.val)
		if t != nil {
			var b strings.Builder
			runT(t, &b)
			if got := strings.Contains(strings.ToUpper(b.String()), "%C3%A9"); got != p.inURL {
				res.AddBreak(proto.Break{Kind: "correspondence", Name: "placement-url", Case: p.key(),
					Human: p.template("v"), Impl: b.String(), Model: fmt.Sprint("inURL=", p.inURL)})
			}
		} else {
			res.AddBreak(proto.Break{Kind: "correspondence", Name: "placement-context", Case: p.key(), Impl: o.msg, Model: "string accepted"})
		}
		res.SpecChecks["placements"]++
	}

	// 2. cases
	var cases []kase
	for _, e := range catalogue() {
		d := describeEntry(e)
		for _, p := range positions {
			cases = append(cases, kase{p, e, d})
		}
	}
	nrand := c.N(400, 6000)
	for i := 0; i < nrand; i++ {
		e, ok := randomEntry(c.R, i)
		if !ok {
			continue
		}
		d := describeEntry(e)
		// composites matter in JS and JSON; now and then anywhere
		var ps []position
		for _, p := range positions {
			if p.name == "js" || p.name == "json" || c.R.Intn(6) == 0 {
				ps = append(ps, p)
			}
		}
		for _, p := range ps {
			cases = append(cases, kase{p, e, d})
		}
	}

	lines := make([]string, len(cases))
	for i, k := range cases {
		lines[i] = k.line()
	}
	var model []string
	if c.D != nil {
		var err error
		if model, err = c.D.Batch(lines); err != nil {
			return err
		}
	}

	for i, k := range cases {
		t, bo := build(k.p, k.e.name, k.e.val)
		ro := outcome{class: "-"}
		if t != nil {
			ro = runT(t, io.Discard)
		}
		res.Count(k.p.key()+"|"+k.e.val.Type().String()+"|"+k.e.name, bo.class == "ok")
		res.Hist("pos:" + k.p.key())
		res.Hist("build:" + bo.class)
		res.Hist("run:" + ro.class)
		if i%997 == 0 && bo.class == "ok" {
			res.Sample(map[string]string{"case": k.human(), "line": lines[i], "build": bo.class, "run": ro.class})
		}

		// the property itself, on the real outcomes
		if bo.class == "ok" && (ro.class == "fail" || ro.class == "panic") {
			if clause := oracle(k, ro); clause != "" {
				m := ""
				if model != nil {
					m = model[i]
				}
				res.AddBreak(proto.Break{Kind: "property", Name: clause, Case: lines[i], Human: k.human(),
					Impl: "build ok; run: " + ro.class + " " + ro.msg, Model: m})
			}
		}
		if bo.class == "other" || ro.class == "other" {
			res.AddBreak(proto.Break{Kind: "correspondence", Name: "unexpected-error", Case: lines[i], Human: k.human(),
				Impl: bo.class + " " + bo.msg + " / " + ro.class + " " + ro.msg, Model: "build error other than cannot show"})
		}

		// correspondence with the model
		if model == nil {
			continue
		}
		f := strings.Fields(model[i])
		if len(f) != 5 || f[0] != "ok" {
			res.AddBreak(proto.Break{Kind: "correspondence", Name: "driver-answer", Case: lines[i], Human: k.human(), Impl: "-", Model: model[i]})
			continue
		}
		if f[3] != "1" {
			res.AddBreak(proto.Break{Kind: "correspondence", Name: "descriptor-not-wf", Case: lines[i], Human: k.human(), Impl: "-", Model: model[i]})
		}
		if f[1] != bo.class {
			res.AddBreak(proto.Break{Kind: "correspondence", Name: "staticOK-vs-BuildTemplate", Case: lines[i], Human: k.human(),
				Impl: bo.class + " " + bo.msg, Model: f[1]})
			continue
		}
		// the model describes the worst case over values of the type: compare when the value
		// is full (no nil or empty container cuts the walk short)
		if bo.class == "ok" && k.d.full && f[2] != ro.class {
			res.AddBreak(proto.Break{Kind: "correspondence", Name: "dynOK-vs-Template.Run", Case: lines[i], Human: k.human(),
				Impl: ro.class + " " + ro.msg, Model: f[2]})
		}
		if bo.class == "ok" && !k.d.full && f[2] == "ok" && ro.class != "ok" {
			res.AddBreak(proto.Break{Kind: "correspondence", Name: "dynOK-vs-Template.Run", Case: lines[i], Human: k.human(),
				Impl: ro.class + " " + ro.msg, Model: f[2]})
		}
	}

	// 3. the expression-form dimension (forms.go)
	if err := runForms(c); err != nil {
		return err
	}
	// 4. types declared in the template (declared.go)
	return runDeclared(c)
}

// oracle says which clause of the property a failing run of a built template breaks ("" if
// the property allows the failure).
func oracle(k kase, ro outcome) string {
	if !k.d.hasValues {
		if k.e.val.Kind() == reflect.Interface {
			return "nil-interface-fails"
		}
		return "accepted-static-type-fails-at-run-time"
	}
	// some interface holds a value: the failure is allowed only if one of the dynamic types,
	// shown by itself in the same position, is rejected by the build
	for _, dv := range k.d.dynTypes {
		p := reflect.New(dv.Type()).Elem()
		p.Set(dv)
		_, bo := build(k.p, "dyn", p)
		if bo.class != "ok" {
			return ""
		}
	}
	if k.e.val.Kind() == reflect.Interface {
		return "interface-value-fails-though-dynamic-type-accepted"
	}
	return "held-value-fails-though-dynamic-type-accepted"
}

// ---------------------------------------------------------------------------------------------
// random composite types

var randBase = []reflect.Type{
	reflect.TypeFor[bool](), reflect.TypeFor[int](), reflect.TypeFor[int8](), reflect.TypeFor[uint16](),
	reflect.TypeFor[uint64](), reflect.TypeFor[uintptr](), reflect.TypeFor[float32](), reflect.TypeFor[float64](),
	reflect.TypeFor[complex64](), reflect.TypeFor[complex128](), reflect.TypeFor[string](), reflect.TypeFor[[]byte](),
	reflect.TypeFor[time.Time](), reflect.TypeFor[chan int](), reflect.TypeFor[func()](), reflect.TypeFor[any](),
	reflect.TypeFor[error](), reflect.TypeFor[fmt.Stringer](), reflect.TypeFor[strInt](), reflect.TypeFor[strStruct](),
	reflect.TypeFor[errStruct](), reflect.TypeFor[jsStr](), reflect.TypeFor[jsonEnv](), reflect.TypeFor[htmlStr](),
	reflect.TypeFor[mdStr](), reflect.TypeFor[keyStr](), reflect.TypeFor[keyEnv](), reflect.TypeFor[namedStruct](),
	reflect.TypeFor[namedUintptr](), reflect.TypeFor[native.HTML](), reflect.TypeFor[native.JS](), reflect.TypeFor[native.JSON](),
	reflect.TypeFor[*int](), reflect.TypeFor[[2]int](), reflect.TypeFor[node](), reflect.TypeFor[withUnexported](),
}

func randomType(r *proto.Rand, depth int) (t reflect.Type) {
	defer func() {
		if recover() != nil {
			t = reflect.TypeFor[int]()
		}
	}()
	if depth == 0 || r.Intn(4) == 0 {
		return randBase[r.Intn(len(randBase))]
	}
	switch r.Intn(6) {
	case 0:
		return reflect.SliceOf(randomType(r, depth-1))
	case 1:
		return reflect.ArrayOf(1+r.Intn(2), randomType(r, depth-1))
	case 2:
		return reflect.PointerTo(randomType(r, depth-1))
	case 3, 4:
		for tries := 0; tries < 8; tries++ {
			k := randomType(r, depth-1)
			if k.Comparable() && k.Kind() != reflect.Interface || (k.Kind() == reflect.Interface && r.Intn(2) == 0) {
				return reflect.MapOf(k, randomType(r, depth-1))
			}
		}
		return reflect.MapOf(reflect.TypeFor[string](), randomType(r, depth-1))
	default:
		n := 1 + r.Intn(3)
		fs := make([]reflect.StructField, n)
		for i := range fs {
			fs[i] = reflect.StructField{Name: fmt.Sprintf("F%d", i), Type: randomType(r, depth-1)}
		}
		return reflect.StructOf(fs)
	}
}

var randDyn = []any{1, "s", uintptr(3), 2.5, 1i, []int{1}, map[string]int{"a": 1}, map[uintptr]int{1: 1},
	map[[2]int]int{{1, 2}: 3}, strInt(1), errInt(1), keyStr{1}, jsStr{}, make(chan int), []any{uintptr(1)},
	namedStruct{1}, [2]int{1, 2}, true, native.HTML("<b>")}

// fill builds a value of type t with no nil and no empty container (as far as comparable keys allow).
func fill(r *proto.Rand, t reflect.Type, depth int) reflect.Value {
	v := reflect.New(t).Elem()
	if depth > 6 {
		return v
	}
	switch t.Kind() {
	case reflect.Interface:
		if r.Intn(5) == 0 {
			return v
		}
		for tries := 0; tries < 20; tries++ {
			d := reflect.ValueOf(randDyn[r.Intn(len(randDyn))])
			if d.Type().Implements(t) {
				v.Set(d)
				break
			}
		}
	case reflect.Slice:
		v.Set(reflect.MakeSlice(t, 1, 1))
		v.Index(0).Set(fill(r, t.Elem(), depth+1))
	case reflect.Array:
		for i := 0; i < t.Len(); i++ {
			v.Index(i).Set(fill(r, t.Elem(), depth+1))
		}
		// the descriptor is taken from element 0: keep the others of the same shape
		for i := 1; i < t.Len(); i++ {
			v.Index(i).Set(v.Index(0))
		}
	case reflect.Pointer:
		p := reflect.New(t.Elem())
		p.Elem().Set(fill(r, t.Elem(), depth+1))
		v.Set(p)
	case reflect.Map:
		v.Set(reflect.MakeMap(t))
		k := fill(r, t.Key(), depth+1)
		func() {
			defer func() { recover() }() // unhashable dynamic key
			v.SetMapIndex(k, fill(r, t.Elem(), depth+1))
		}()
	case reflect.Struct:
		if t == reflect.TypeFor[time.Time]() {
			v.Set(reflect.ValueOf(time.Unix(1700000000, 0).UTC()))
			break
		}
		for i := 0; i < t.NumField(); i++ {
			if t.Field(i).PkgPath == "" {
				v.Field(i).Set(fill(r, t.Field(i).Type, depth+1))
			}
		}
	case reflect.Chan:
		v.Set(reflect.MakeChan(t, 0))
	case reflect.Func:
		v.Set(reflect.MakeFunc(t, func([]reflect.Value) []reflect.Value { return nil }))
	case reflect.String:
		v.SetString("s<")
	case reflect.Bool:
		v.SetBool(true)
	case reflect.Int, reflect.Int8, reflect.Int16, reflect.Int32, reflect.Int64:
		v.SetInt(3)
	case reflect.Uint, reflect.Uint8, reflect.Uint16, reflect.Uint32, reflect.Uint64, reflect.Uintptr:
		v.SetUint(4)
	case reflect.Float32, reflect.Float64:
		v.SetFloat(1.5)
	case reflect.Complex64, reflect.Complex128:
		v.SetComplex(1 + 2i)
	}
	return v
}

func randomEntry(r *proto.Rand, i int) (e entry, ok bool) {
	defer func() {
		if recover() != nil {
			ok = false
		}
	}()
	t := randomType(r, 1+r.Intn(3))
	v := fill(r, t, 0)
	return entry{fmt.Sprintf("rand%d", i), v}, true
}
