package main

import (
	"errors"
	"fmt"
	"io"
	"path/filepath"
	"reflect"
	"strings"
	"time"

	"github.com/open2b/scriggo"
	"github.com/open2b/scriggo/native"

	"verifharness/internal/hx"
	"verifharness/internal/proto"
)

// The expression-form dimension of the C09 matrix.
//
// The first stream (main.go) shows a global `v` of every type in every placement: one form of
// shown expression. Here the *form* varies: identifier, parenthesised, `{% show … %}`, conversion,
// index / map index / selector / call / call with (T, error) / dereference / address / local
// variable / type assertion / function literal call, several expressions in one show, `x default y`
// with x declared or not and every combination of type classes on both sides, macro call results,
// `render` expressions (also on the left of default, present or missing), `itea` with `using`,
// constant and composite literals, the untyped nil — each with operands of every type class, in
// every placement. For every case the checker sees, per shown expression, a *pair* of operand
// type infos; the model (`shownode`) runs the regenerated Show case over those lists.
//
//   - correspondence: build outcome (ok / cannot show / use of untyped nil / panic) against the
//     model's verdict; run outcome against what the model says showing the evaluated operand does;
//   - oracle (the property, independent of the model): a show that builds does not fail at run
//     time — unless a value held in an interface inside an operand has a dynamic type that the
//     build rejects when shown by itself in the same placement.

type opnd struct {
	kind string // absent | nil | typed
	e    entry  // typed: an addressable value of the operand's static type, as it is at run time
	d    *descr // typed: the descriptor, when it is not that of e (types declared in the template)
}

func typed(e entry) opnd { return opnd{kind: "typed", e: e} }

var (
	opAbsent = opnd{kind: "absent"}
	opNil    = opnd{kind: "nil"}
)

type formSpec struct {
	form    string
	class   string
	inBody     bool // the operands are those of a show at the top of a file of the placement's format (rendered file, macro body)
	oracleOnly bool // the build outcome depends on more than this show node: no correspondence
	dynLoose   bool // the model's dynamic side does not describe the value exactly (Scriggo type wrappers): only "model ok ⇒ run ok"
	heldDirect *formSpec // the shown interface holds a value of a type only a template can name: the show of that value by itself
	prefix  string // at the very start of the file that holds the show (declarations)
	pre     string // right before the show, at the same place
	show    string
	globals native.Declarations
	files   map[string]string
	extends bool   // the show stands in layout<ext>; the built file index<ext> extends it
	index   string // what index<ext> declares after its extends statement
	exprs   [][]opnd
}

type nodeCase struct {
	formSpec
	p     position
	all   scriggo.Files
	main  string
	descs [][]descr
}

func (nc *nodeCase) human() string {
	var ts []string
	for _, ops := range nc.exprs {
		var os []string
		for _, o := range ops {
			switch o.kind {
			case "typed":
				os = append(os, fmt.Sprintf("%s = %#v", o.e.val.Type(), o.e.val.Interface()))
			default:
				os = append(os, o.kind)
			}
		}
		ts = append(ts, "("+strings.Join(os, " | ")+")")
	}
	var fs []string
	for name, src := range nc.all {
		fs = append(fs, fmt.Sprintf("%s: %q", name, src))
	}
	sortStrings(fs)
	return fmt.Sprintf("form %s; build %s; files %s; operands of the shown expressions %s", nc.form, nc.main, strings.Join(fs, ", "), strings.Join(ts, " "))
}

func sortStrings(s []string) {
	for i := 1; i < len(s); i++ {
		for j := i; j > 0 && s[j] < s[j-1]; j-- {
			s[j], s[j-1] = s[j-1], s[j]
		}
	}
}

func (nc *nodeCase) line() string {
	u := "0"
	if nc.p.inURL {
		u = "1"
	}
	var b strings.Builder
	fmt.Fprintf(&b, "C09 shownode %s %s %d", nc.p.name, u, len(nc.exprs))
	for i, ops := range nc.exprs {
		fmt.Fprintf(&b, " %d", len(ops))
		for j, o := range ops {
			switch o.kind {
			case "typed":
				b.WriteString(" typed " + nc.descs[i][j].s)
			default:
				b.WriteString(" " + o.kind)
			}
		}
	}
	return b.String()
}

func (p position) place(f formSpec) *nodeCase {
	ext := filepath.Ext(p.file)
	nc := &nodeCase{formSpec: f, p: p, all: scriggo.Files{}}
	src := f.prefix + p.before + f.pre + f.show + p.after
	if f.extends {
		nc.main = "index" + ext
		nc.all["layout"+ext] = []byte(src)
		nc.all[nc.main] = []byte(`{% extends "layout` + ext + `" %}` + f.index)
	} else {
		nc.main = p.file
		nc.all[p.file] = []byte(src)
	}
	for name, s := range f.files {
		nc.all[name] = []byte(s)
	}
	for _, ops := range f.exprs {
		ds := make([]descr, len(ops))
		for j, o := range ops {
			if o.kind == "typed" && o.d != nil {
				ds[j] = *o.d
			} else if o.kind == "typed" {
				ds[j] = describeEntry(o.e)
			}
		}
		nc.descs = append(nc.descs, ds)
	}
	return nc
}

// mdConverter stands for a Markdown converter (needed to render Markdown in HTML; what it
// writes is of no concern here)
func mdConverter(src []byte, out io.Writer) error {
	_, err := out.Write(src)
	return err
}

// derefComplexFinding: known finding C09-deref-complex-emitter-panic — the emitter takes every
// unary operator on an operand of complex type for a negation, so `*p` with p a pointer to a
// complex type panics the build ("bug: expected operator subtraction") wherever the show of a
// complex value is accepted. Predicted from the input: the form is a dereference and the operand
// is of complex kind.
func derefComplexFinding(nc *nodeCase, bo outcome) bool {
	if nc.form != "deref" || bo.msg != "bug: expected operator subtraction" {
		return false
	}
	k := nc.exprs[0][1].e.val.Kind()
	return k == reflect.Complex64 || k == reflect.Complex128
}

// renderInMdURLFinding: known finding C09-render-in-markdown-url-shows-in-url — the shows of a
// rendered file are type checked where they stand (top of the file, outside any URL) but, when the
// render expression stands inside a Markdown URL, they are emitted with the URL flag of that site.
// Predicted from the input alone: the form is the render of a file that shows v, the site is the
// Markdown URL placement, and v shown by itself at the site is rejected by the build (the case
// itself having built, v is accepted where the show stands).
func renderInMdURLFinding(nc *nodeCase) bool {
	if nc.form != "render-of-file-showing" || !nc.p.inURL || nc.p.name != "markdown" {
		return false
	}
	_, bo := build(nc.p, "v", nc.exprs[0][1].e.val)
	return bo.class == "fail"
}

func buildNode(nc *nodeCase) (t *scriggo.Template, o outcome) {
	defer func() {
		if r := recover(); r != nil {
			t, o = nil, outcome{"panic", fmt.Sprint(r)}
		}
	}()
	t, err := scriggo.BuildTemplate(nc.all, nc.main, &scriggo.BuildOptions{Globals: nc.globals, MarkdownConverter: mdConverter})
	if err != nil {
		var be *scriggo.BuildError
		if errors.As(err, &be) {
			switch {
			case strings.Contains(err.Error(), "cannot show"):
				return nil, outcome{"fail", err.Error()}
			case strings.Contains(err.Error(), "use of untyped nil"):
				return nil, outcome{"nil", err.Error()}
			}
		}
		return nil, outcome{"other", err.Error()}
	}
	return t, outcome{"ok", ""}
}

// ---------------------------------------------------------------------------------------------
// the type classes of the operands

var classNames = []string{
	"bool", "int", "uint8", "uintptr", "float64", "complex128", "string", "namedString", "[]byte", "time.Time",
	"[]int", "[]string", "[2]int", "[]chan", "chan", "func", "unsafe.Pointer",
	"namedStruct", "strStruct", "strInt", "errInt", "errStruct", "envStr", "htmlStr", "htmlEnv", "cssStr", "cssEnv",
	"jsStr", "jsEnv", "jsonStr", "jsonEnv", "mdStr", "mdEnv", "*ptrStr",
	"native.HTML", "native.CSS", "native.JS", "native.JSON", "native.Markdown",
	"map[string]int", "map[[2]int]int", "map[uintptr]int", "map[keyStr]int", "map[error]int", "mapWithStr",
	"*int", "*chan", "*struct", "withChan", "withUnexported", "node", "badNode", "holder{chan}",
	"any(nil)", "error(nil)", "error(errInt)", "fmt.Stringer(strStruct)", "interface{Foo()}(nil)",
	"any(int)", "any(chan)", "any(map[[2]int]int)", "any([]string)", "[]any{chan}", "map[string]any{uintptr}",
	"any(uintptr)", "any(strStruct)", "any(namedStruct)", "any(native.HTML)", "any(*int)", "any(func)", "any(time.Time)", "any([]byte)",
}

// nilClasses: values the catalogue does not hold — nil pointers, slices, maps, channels, functions
// (the static type decides; the renderer must cope with the nil). Not among them: a nil pointer
// to a type with value-receiver String/Error methods (`(*time.Time)(nil)`): Go itself panics in the
// method wrapper — a panic of user code for a reason of the value, which C09 leaves to C05/C13.
func nilClasses() []entry {
	return []entry{
		decl("(*int)(nil)", (*int)(nil)), decl("(*namedStruct)(nil)", (*namedStruct)(nil)), decl("(*ptrStr)(nil)", (*ptrStr)(nil)),
		decl("[]int(nil)", []int(nil)), decl("[]byte(nil)", []byte(nil)),
		decl("map[string]int(nil)", map[string]int(nil)), decl("map[[2]int]int(nil)", map[[2]int]int(nil)),
		decl("(chan int)(nil)", (chan int)(nil)), decl("(func())(nil)", (func())(nil)), decl("[]any(nil)", []any(nil)),
		decl("[]any{nil}", []any{nil}), decl("map[string]any{nil}", map[string]any{"a": nil}), decl("[]*int{nil}", []*int{nil}),
	}
}

// the right-hand sides every left operand of `default` is paired with in the quick tier
var rightNames = []string{"int", "string", "chan", "[]string", "namedStruct", "map[[2]int]int", "strStruct", "any(nil)", "any(chan)", "native.HTML"}

func pick(cat []entry, names []string) []entry {
	var out []entry
	for _, n := range names {
		found := false
		for _, e := range cat {
			if e.name == n {
				out = append(out, e)
				found = true
				break
			}
		}
		if !found {
			panic("c09 forms: no catalogue entry " + n)
		}
	}
	return out
}

// a fresh addressable value of type t holding v
func cell(t reflect.Type, v reflect.Value) reflect.Value {
	p := reflect.New(t).Elem()
	if v.IsValid() {
		p.Set(v)
	}
	return p
}

func gl(kv ...any) native.Declarations {
	d := native.Declarations{}
	for i := 0; i < len(kv); i += 2 {
		switch v := kv[i+1].(type) {
		case entry:
			d[kv[i].(string)] = v.val.Addr().Interface()
		case reflect.Value:
			d[kv[i].(string)] = v.Addr().Interface()
		default:
			d[kv[i].(string)] = v
		}
	}
	return d
}

// formatEntry is the value a macro, a rendered file or an implicit `using` body of the format
// named by a file extension evaluates to.
func formatEntry(ext, s string) entry {
	switch ext {
	case ".html":
		return decl("html", native.HTML(s))
	case ".css":
		return decl("css", native.CSS(s))
	case ".js":
		return decl("js", native.JS(s))
	case ".json":
		return decl("json", native.JSON(s))
	case ".md":
		return decl("markdown", native.Markdown(s))
	}
	return decl("string", s)
}

var allExts = []string{".txt", ".html", ".css", ".js", ".json", ".md"}

// usingTypes: the type names a `using` statement may name, with the value of the body "1"
var usingTypes = []struct {
	name string
	e    entry
}{
	{"string", decl("string", "1")}, {"html", decl("html", native.HTML("1"))}, {"css", decl("css", native.CSS("1"))},
	{"js", decl("js", native.JS("1"))}, {"json", decl("json", native.JSON("1"))}, {"markdown", decl("markdown", native.Markdown("1"))},
}

// ---------------------------------------------------------------------------------------------
// the forms

// unaryForms: forms whose single operand has the type (and value) of the entry a
func unaryForms(a entry) []formSpec {
	t := a.val.Type()
	cls := a.name
	one := [][]opnd{{opAbsent, typed(a)}}
	var fs []formSpec
	add := func(form, pre, show string, g native.Declarations) {
		fs = append(fs, formSpec{form: form, class: cls, pre: pre, show: show, globals: g, exprs: one})
	}
	add("ident", "", "{{ v }}", gl("v", a))
	add("paren", "", "{{ (v) }}", gl("v", a))
	add("show-stmt", "", "{% show v %}", gl("v", a))
	add("conversion", "", "{{ T(v) }}", gl("v", a, "T", t))
	sl := reflect.MakeSlice(reflect.SliceOf(t), 1, 1)
	sl.Index(0).Set(a.val)
	add("index", "", "{{ s[0] }}", gl("s", cell(sl.Type(), sl)))
	mp := reflect.MakeMap(reflect.MapOf(reflect.TypeFor[string](), t))
	mp.SetMapIndex(reflect.ValueOf("k"), a.val)
	add("map-index", "", `{{ m["k"] }}`, gl("m", cell(mp.Type(), mp)))
	st := reflect.New(reflect.StructOf([]reflect.StructField{{Name: "F", Type: t}})).Elem()
	st.Field(0).Set(a.val)
	add("selector", "", "{{ st.F }}", gl("st", st))
	ft := reflect.FuncOf(nil, []reflect.Type{t}, false)
	fn := reflect.MakeFunc(ft, func([]reflect.Value) []reflect.Value { return []reflect.Value{a.val} })
	add("call", "", "{{ f() }}", gl("f", cell(ft, fn)))
	gt := reflect.FuncOf(nil, []reflect.Type{t, reflect.TypeFor[error]()}, false)
	gn := reflect.MakeFunc(gt, func([]reflect.Value) []reflect.Value {
		return []reflect.Value{a.val, reflect.Zero(reflect.TypeFor[error]())}
	})
	add("call-with-error", "", "{{ g() }}", gl("g", cell(gt, gn)))
	add("deref", "", "{{ *p }}", gl("p", cell(reflect.PointerTo(t), a.val.Addr())))
	add("local-var", "{% x := v %}", "{{ x }}", gl("v", a))
	add("func-literal-call", "", "{{ func() T { return v }() }}", gl("v", a, "T", t))
	add("default-undeclared-left", "", "{{ missing default v }}", gl("v", a))
	add("default-undeclared-left-paren", "", "{{ missing default (v) }}", gl("v", a))
	if t.Kind() != reflect.Interface {
		i := decl[any]("i", a.val.Interface())
		add("type-assertion", "", "{{ i.(T) }}", gl("i", i, "T", t))
	}
	// the address of v: an operand of type *T
	pe := entry{"&" + a.name, cell(reflect.PointerTo(t), a.val.Addr())}
	fs = append(fs, formSpec{form: "address", class: cls, show: "{{ &v }}", globals: gl("v", a), exprs: [][]opnd{{opAbsent, typed(pe)}}})
	// several expressions
	fs = append(fs, formSpec{form: "show-two", class: cls, show: "{% show v, v %}", globals: gl("v", a),
		exprs: [][]opnd{{opAbsent, typed(a)}, {opAbsent, typed(a)}}})
	// default with a constant on the right
	fs = append(fs, formSpec{form: "default-string-literal", class: cls, show: `{{ v default "none" }}`, globals: gl("v", a),
		exprs: [][]opnd{{typed(a), typed(decl("string", "none"))}}})
	fs = append(fs, formSpec{form: "default-int-literal", class: cls, show: `{{ v default 0 }}`, globals: gl("v", a),
		exprs: [][]opnd{{typed(a), typed(decl("int", 0))}}})
	fs = append(fs, formSpec{form: "default-nil-right", class: cls, show: `{{ v default nil }}`, globals: gl("v", a),
		exprs: [][]opnd{{typed(a), opNil}}})
	return fs
}

// pairForms: two operands / two expressions of the types of a and b
func pairForms(a, b entry) []formSpec {
	cls := a.name + " / " + b.name
	g := gl("v", a, "w", b)
	return []formSpec{
		{form: "default", class: cls, show: "{{ v default w }}", globals: g, exprs: [][]opnd{{typed(a), typed(b)}}},
		{form: "default-show-stmt", class: cls, show: "{% show v default w %}", globals: g, exprs: [][]opnd{{typed(a), typed(b)}}},
		{form: "show-two-types", class: cls, show: "{% show v, w %}", globals: g, exprs: [][]opnd{{opAbsent, typed(a)}, {opAbsent, typed(b)}}},
		{form: "show-two-defaults", class: cls, show: "{% show w default v, v default w %}", globals: g,
			exprs: [][]opnd{{typed(b), typed(a)}, {typed(a), typed(b)}}},
	}
}

// formatForms: macro calls, render expressions, itea — whose type comes from a format — alone
// and as the left operand of default with b on the right
func formatForms(p position, rights []entry) []formSpec {
	ext := filepath.Ext(p.file)
	f := formatEntry(ext, "1")
	var fs []formSpec
	one := [][]opnd{{opAbsent, typed(f)}}
	macro := "{% macro M %}1{% end macro %}"
	fs = append(fs,
		formSpec{form: "macro-call", class: f.name, prefix: macro, show: "{{ M() }}", exprs: one},
		formSpec{form: "macro-call-show-stmt", class: f.name, prefix: macro, show: "{% show M() %}", exprs: one},
		formSpec{form: "macro-call-paren", class: f.name, prefix: macro, show: "{{ (M()) }}", exprs: one},
		formSpec{form: "macro-value", class: f.name, prefix: macro, pre: "{% x := M() %}", show: "{{ x }}", exprs: one},
		formSpec{form: "itea-implicit", class: f.name, show: "{% show itea; using %}1{% end using %}", exprs: one},
	)
	for _, e2 := range allExts {
		r := formatEntry(e2, "1")
		fs = append(fs, formSpec{form: "render", class: r.name, show: `{{ render "part` + e2 + `" }}`,
			files: map[string]string{"part" + e2: "1"}, exprs: [][]opnd{{opAbsent, typed(r)}}})
	}
	for _, u := range usingTypes {
		fs = append(fs,
			formSpec{form: "itea-typed", class: u.name, show: "{% show itea; using " + u.name + " %}1{% end using %}",
				exprs: [][]opnd{{opAbsent, typed(u.e)}}},
			formSpec{form: "itea-macro", class: u.name, show: "{% show itea(); using macro() " + u.name + " %}1{% end using %}",
				exprs: [][]opnd{{opAbsent, typed(u.e)}}},
			formSpec{form: "default-itea-right", class: u.name, show: "{% show missing default itea; using " + u.name + " %}1{% end using %}",
				exprs: [][]opnd{{opAbsent, typed(u.e)}}},
		)
	}
	for _, b := range rights {
		g := gl("w", b)
		cls := f.name + " / " + b.name
		fs = append(fs,
			formSpec{form: "default-macro-declared", class: cls, extends: true, index: macro, show: "{{ M() default w }}", globals: g,
				exprs: [][]opnd{{typed(f), typed(b)}}},
			formSpec{form: "default-macro-undeclared", class: cls, extends: true, show: "{{ M() default w }}", globals: g,
				exprs: [][]opnd{{opAbsent, typed(b)}}},
			formSpec{form: "default-render-present", class: cls, show: `{{ render "part` + ext + `" default w }}`, globals: g,
				files: map[string]string{"part" + ext: "1"}, exprs: [][]opnd{{typed(f), typed(b)}}},
			formSpec{form: "default-render-missing", class: cls, show: `{{ render "nopart` + ext + `" default w }}`, globals: g,
				exprs: [][]opnd{{opAbsent, typed(b)}}},
		)
		for _, u := range usingTypes[:2] {
			fs = append(fs, formSpec{form: "default-declared-itea-right", class: b.name + " / " + u.name,
				show: "{% show w default itea; using " + u.name + " %}1{% end using %}", globals: g,
				exprs: [][]opnd{{typed(b), typed(u.e)}}})
		}
	}
	return fs
}

type (
	litStruct struct{ A int }
)

// literalForms: constants and composite literals, written in the template
func literalForms() []formSpec {
	one := 1
	lits := []struct {
		src string
		e   entry
	}{
		{"5", decl("int", 5)}, {"-5", decl("int", -5)}, {"5.5", decl("float64", 5.5)}, {`"s"`, decl("string", "s")},
		{"`s`", decl("string", "s")}, {"'a'", decl("rune", 'a')}, {"2i", decl("complex128", 2i)}, {"true", decl("bool", true)},
		{"1 << 3", decl("int", 8)}, {`"a" + "b"`, decl("string", "ab")}, {"1 < 2", decl("bool", true)}, {"7 / 2.0", decl("float64", 3.5)},
		{"uc", decl("int", 5)}, {"us", decl("string", "s")}, {"ub", decl("bool", true)}, {"uf", decl("float64", 1.5)},
		{"int8(5)", decl("int8", int8(5))}, {"uint8(5)", decl("uint8", uint8(5))}, {"uintptr(5)", decl("uintptr", uintptr(5))},
		{"float32(1.5)", decl("float32", float32(1.5))}, {"complex64(1)", decl("complex64", complex64(1))},
		{`html("<b>")`, decl("html", native.HTML("<b>"))}, {`css("red")`, decl("css", native.CSS("red"))},
		{`js("1")`, decl("js", native.JS("1"))}, {`json("1")`, decl("json", native.JSON("1"))},
		{`markdown("*a*")`, decl("markdown", native.Markdown("*a*"))},
		{`[]byte("s")`, decl("[]byte", []byte("s"))}, {`[]int{1}`, decl("[]int", []int{1})}, {`[]string{"a"}`, decl("[]string", []string{"a"})},
		{`[2]int{1, 2}`, decl("[2]int", [2]int{1, 2})}, {`map[string]int{"a": 1}`, decl("map[string]int", map[string]int{"a": 1})},
		{`map[[2]int]int{{1, 2}: 3}`, decl("map[[2]int]int", map[[2]int]int{{1, 2}: 3})},
		{`map[uintptr]int{1: 1}`, decl("map[uintptr]int", map[uintptr]int{1: 1})},
		{`struct{ A int }{1}`, decl("struct{A int}", struct{ A int }{1})}, {`&struct{ A int }{1}`, decl("*struct{A int}", &struct{ A int }{1})},
		{`S{1}`, decl("litStruct", litStruct{1})}, {`[]S{{1}}`, decl("[]litStruct", []litStruct{{1}})},
		{`[]interface{}{1}`, decl("[]any", []any{1})}, {`interface{}(1)`, decl[any]("any(int)", 1)}, {`interface{}(nil)`, decl[any]("any(nil)", nil)},
		{`error(nil)`, decl[error]("error(nil)", nil)}, {`[]string(nil)`, decl("[]string(nil)", []string(nil))},
		{`(*int)(nil)`, decl("(*int)(nil)", (*int)(nil))}, {`new(int)`, decl("*int", new(int))}, {`pone`, decl("*int", &one)},
		{`make(chan int)`, decl("chan int", make(chan int))}, {`func() {}`, decl("func()", func() {})},
		{`len("abc")`, decl("int", 3)}, {`!ub`, decl("bool", false)}, {`uc + 1`, decl("int", 6)}, {`us + "x"`, decl("string", "sx")},
		{`tm`, decl("time.Time", time.Date(2024, 2, 29, 12, 0, 0, 0, time.UTC))},
	}
	g := native.Declarations{
		"uc": native.UntypedNumericConst("5"), "us": native.UntypedStringConst("s"), "ub": native.UntypedBooleanConst(true),
		"uf": native.UntypedNumericConst("1.5"), "S": reflect.TypeFor[litStruct](), "pone": &[]*int{&one}[0],
		"tm": &[]time.Time{time.Date(2024, 2, 29, 12, 0, 0, 0, time.UTC)}[0],
	}
	var fs []formSpec
	for _, l := range lits {
		fs = append(fs,
			formSpec{form: "literal", class: l.src, show: "{{ " + l.src + " }}", globals: g, exprs: [][]opnd{{opAbsent, typed(l.e)}}},
			formSpec{form: "default-undeclared-literal", class: l.src, show: "{{ missing default " + l.src + " }}", globals: g,
				exprs: [][]opnd{{opAbsent, typed(l.e)}}},
			formSpec{form: "default-const-left", class: l.src, show: "{{ uc default " + l.src + " }}", globals: g,
				exprs: [][]opnd{{typed(decl("int", 5)), typed(l.e)}}},
		)
	}
	fs = append(fs,
		formSpec{form: "nil", class: "nil", show: "{{ nil }}", exprs: [][]opnd{{opAbsent, opNil}}},
		formSpec{form: "nil", class: "(nil)", show: "{{ (nil) }}", exprs: [][]opnd{{opAbsent, opNil}}},
		formSpec{form: "nil", class: "missing default nil", show: "{{ missing default nil }}", exprs: [][]opnd{{opAbsent, opNil}}},
		formSpec{form: "nil", class: "5, nil", show: "{% show 5, nil %}", exprs: [][]opnd{{opAbsent, typed(decl("int", 5))}, {opAbsent, opNil}}},
	)
	return fs
}

// ---------------------------------------------------------------------------------------------

func runForms(c *hx.Ctx) error {
	cat := catalogue()
	classes := append(pick(cat, classNames), nilClasses()...)
	rights := pick(cat, rightNames)
	lefts := classes
	if !c.Quick() {
		rights = classes
	}

	var cases []*nodeCase
	for _, p := range positions {
		for _, a := range classes {
			for _, f := range unaryForms(a) {
				cases = append(cases, p.place(f))
			}
		}
		// a show inside a rendered file / a macro body is checked where it stands and runs where the
		// render expression / the call stands
		ext := filepath.Ext(p.file)
		for _, a := range classes {
			one := [][]opnd{{opAbsent, typed(a)}}
			cases = append(cases,
				p.place(formSpec{form: "render-of-file-showing", class: a.name, oracleOnly: true, inBody: true, show: `{{ render "part` + ext + `" }}`,
					files: map[string]string{"part" + ext: "{{ v }}"}, globals: gl("v", a), exprs: one}),
				p.place(formSpec{form: "macro-showing", class: a.name, oracleOnly: true, inBody: true, prefix: "{% macro M %}{{ v }}{% end macro %}",
					show: "{{ M() }}", globals: gl("v", a), exprs: one}))
		}
		for _, a := range lefts {
			for _, b := range rights {
				for _, f := range pairForms(a, b) {
					cases = append(cases, p.place(f))
				}
			}
		}
		for _, f := range formatForms(p, rights) {
			cases = append(cases, p.place(f))
		}
		for _, f := range literalForms() {
			cases = append(cases, p.place(f))
		}
	}

	return evalNodeCases(c, cases)
}

// evalNodeCases builds and runs every case, compares with the model and evaluates the oracle.
func evalNodeCases(c *hx.Ctx, cases []*nodeCase) error {
	res := c.Res
	lines := make([]string, len(cases))
	for i, nc := range cases {
		lines[i] = nc.line()
	}
	var model []string
	if c.D != nil {
		var err error
		if model, err = c.D.Batch(lines); err != nil {
			return err
		}
	}

	applicable := map[string]int{}
	seenForm := map[string]bool{}
	var formOrder []string
	for i, nc := range cases {
		if !seenForm[nc.form] {
			seenForm[nc.form] = true
			formOrder = append(formOrder, nc.form)
		}
		t, bo := buildNode(nc)
		ro := outcome{class: "-"}
		if t != nil {
			ro = runT(t, io.Discard)
		}
		res.Count("form|"+nc.form+"|"+nc.p.key()+"|"+nc.class, bo.class == "ok")
		res.Hist("form:" + nc.form)
		res.Hist("form-build:" + bo.class)
		if bo.class == "ok" {
			res.Hist("form-run:" + ro.class)
		}
		if bo.class != "other" {
			applicable[nc.form]++
		}
		if i%1999 == 0 && bo.class == "ok" {
			res.Sample(map[string]string{"case": nc.human(), "line": lines[i], "build": bo.class, "run": ro.class})
		}
		m := ""
		if model != nil {
			m = model[i]
		}

		// the property itself, on the real outcomes
		if bo.class == "ok" && ro.class != "ok" {
			if clause := nodeOracle(nc, ro); clause != "" {
				b := proto.Break{Kind: "property", Name: clause, Case: lines[i], Human: nc.human(),
					Impl: "build ok; run: " + ro.class + " " + ro.msg, Model: m}
				if renderInMdURLFinding(nc) {
					b.Finding = c.Known("C09-render-in-markdown-url-shows-in-url")
				}
				res.AddBreak(b)
			}
		}
		if bo.class == "other" {
			// the form cannot be written in this placement (or with operands of this type): not a case
			res.Hist("form-not-applicable:" + nc.form)
			continue
		}
		if bo.class == "panic" && !strings.HasPrefix(bo.msg, "reflect:") {
			// a Go panic of the build that does not come from checkShow's use of reflect (which the
			// model describes as `crash`): the compiler fell over the expression itself
			res.Hist("form-build:panic-outside-checkShow")
			b := proto.Break{Kind: "property", Name: "build-panics-on-shown-expression", Case: lines[i], Human: nc.human(),
				Impl: bo.class + " " + bo.msg, Model: m}
			if derefComplexFinding(nc, bo) {
				if b.Finding = c.Known("C09-deref-complex-emitter-panic"); b.Finding != "" {
					res.AddBreak(b)
					continue
				}
			}
			b.Kind = "correspondence"
			res.AddBreak(b)
			continue
		}
		if model == nil || nc.oracleOnly {
			continue
		}
		f := strings.Fields(m)
		if len(f) != 3 || f[0] != "ok" {
			res.AddBreak(proto.Break{Kind: "correspondence", Name: "driver-answer", Case: lines[i], Human: nc.human(), Impl: "-", Model: m})
			continue
		}
		want := map[string]string{"accepted": "ok", "cannot-show": "fail", "untyped-nil": "nil", "crash": "panic"}[f[1]]
		if want != bo.class {
			res.AddBreak(proto.Break{Kind: "correspondence", Name: "checkShowNode-vs-BuildTemplate", Case: lines[i], Human: nc.human(),
				Impl: bo.class + " " + bo.msg, Model: f[1]})
			continue
		}
		if bo.class != "ok" {
			continue
		}
		// run outcome against the model's dynTop of the evaluated operand of each expression
		full, dyn := true, "ok"
		for j, ops := range nc.exprs {
			for k, o := range ops {
				if o.kind == "typed" { // the evaluated operand: the first that is there
					full = full && nc.descs[j][k].full
					break
				}
			}
		}
		for _, d := range strings.Split(f[2], ",") {
			if d != "ok" && dyn == "ok" {
				dyn = d
			}
		}
		if nc.dynLoose {
			full = false
		}
		if (full && dyn != ro.class) || (!full && dyn == "ok" && ro.class != "ok") {
			res.AddBreak(proto.Break{Kind: "correspondence", Name: "dynOK(evaluated operand)-vs-Template.Run", Case: lines[i], Human: nc.human(),
				Impl: ro.class + " " + ro.msg, Model: f[2]})
		}
	}
	for _, form := range formOrder {
		res.SpecChecks["forms-applicable"]++
		if applicable[form] == 0 {
			res.AddBreak(proto.Break{Kind: "correspondence", Name: "form-never-applicable", Case: form,
				Impl: "every template of this form is rejected for a reason other than the show", Model: "-"})
		}
	}
	return nil
}

// nodeOracle says which clause of the property a failing run of a built template breaks ("" if
// the property allows the failure): every operand that can be evaluated is looked at.
func nodeOracle(nc *nodeCase, ro outcome) string {
	hasValues := false
	var dyn []reflect.Value
	for _, ds := range nc.descs {
		for _, d := range ds {
			hasValues = hasValues || d.hasValues
			dyn = append(dyn, d.dynTypes...)
		}
	}
	if ro.class == "other" {
		return "accepted-show-fails-at-run-time-with-unexpected-error"
	}
	if nc.heldDirect != nil {
		if _, bo := buildNode(nc.p.place(*nc.heldDirect)); bo.class != "ok" {
			return "" // the dynamic type, shown by itself in the same placement, is rejected
		}
		return "held-value-fails-though-dynamic-type-accepted"
	}
	if !hasValues {
		return "accepted-show-fails-at-run-time"
	}
	at := nc.p
	if nc.inBody {
		at = topOf(filepath.Ext(nc.p.file))
	}
	for _, dv := range dyn {
		p := cell(dv.Type(), dv)
		if _, bo := build(at, "dyn", p); bo.class != "ok" {
			return ""
		}
	}
	return "held-value-fails-though-dynamic-type-accepted"
}

// topOf is the placement that stands for the top level of a file with the given extension
func topOf(ext string) position {
	want := map[string]string{".txt": "text", ".html": "html", ".css": "css", ".js": "js", ".json": "json", ".md": "markdown"}[ext]
	for _, p := range positions {
		if p.name == want && !p.inURL && filepath.Ext(p.file) == ext {
			return p
		}
	}
	panic("c09 forms: no top-level placement for " + ext)
}
