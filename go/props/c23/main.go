package main

import (
	"encoding/json"
	"errors"
	"fmt"
	"io"
	"io/fs"
	"os"
	"path"
	"sort"
	"strconv"
	"strings"
	"testing/fstest"
	"time"
	"unicode/utf8"

	"github.com/open2b/scriggo"

	"verifharness/internal/hx"
	"verifharness/internal/proto"
)

// C23: scriggo.Files (files.go) vs. the Lean model (Model/Files.lean) on random trees and random
// operation sequences, with the property's own oracle on the real code: testing/fstest.TestFS
// passes, and the clauses of the property checked directly (every file and implied directory
// opens, ReadDir(-1) lists exactly the children once, sorted, consistent with Stat of the child,
// paging concatenates to the full listing and ends with io.EOF, Read after Close errs).
func main() { hx.Main("C23", run) }

type file struct {
	name string
	data []byte
}

type op struct {
	kind byte // o d s r c
	name string
	h    int
	n    int
}

func encCase(files []file, ops []op) string {
	var b strings.Builder
	fmt.Fprintf(&b, "C23 run %d", len(files))
	for _, f := range files {
		fmt.Fprintf(&b, " %s %s", proto.Hex([]byte(f.name)), proto.Hex(f.data))
	}
	fmt.Fprintf(&b, " %d", len(ops))
	for _, o := range ops {
		switch o.kind {
		case 'o':
			fmt.Fprintf(&b, " o %s", proto.Hex([]byte(o.name)))
		case 'd', 'r':
			fmt.Fprintf(&b, " %c %d %d", o.kind, o.h, o.n)
		default:
			fmt.Fprintf(&b, " %c %d", o.kind, o.h)
		}
	}
	return b.String()
}

func humanCase(files []file, ops []op) string {
	var b strings.Builder
	b.WriteString("Files{")
	for i, f := range files {
		if i > 0 {
			b.WriteString(", ")
		}
		fmt.Fprintf(&b, "%q: %q", f.name, f.data)
	}
	b.WriteString("};")
	for _, o := range ops {
		switch o.kind {
		case 'o':
			fmt.Fprintf(&b, " Open(%q)", o.name)
		case 'd':
			fmt.Fprintf(&b, " h%d.ReadDir(%d)", o.h, o.n)
		case 's':
			fmt.Fprintf(&b, " h%d.Stat()", o.h)
		case 'r':
			fmt.Fprintf(&b, " h%d.Read(%d bytes)", o.h, o.n)
		case 'c':
			fmt.Fprintf(&b, " h%d.Close()", o.h)
		}
	}
	return b.String()
}

func mkFiles(files []file) scriggo.Files {
	m := scriggo.Files{}
	for _, f := range files {
		m[f.name] = f.data
	}
	return m
}

func modeStr(m fs.FileMode) string {
	switch m {
	case fs.ModeDir:
		return "d"
	case 0:
		return "-"
	}
	return fmt.Sprintf("mode%o", uint32(m))
}

func b01(b bool) string {
	if b {
		return "1"
	}
	return "0"
}

func showInfo(i fs.FileInfo) string {
	return proto.Hex([]byte(i.Name())) + "/" + strconv.FormatInt(i.Size(), 10) + "/" + modeStr(i.Mode()) + "/" + b01(i.IsDir())
}

func showEntry(e fs.DirEntry) string {
	info, err := e.Info()
	if err != nil {
		return "INFOERR"
	}
	if e.Name() != info.Name() || e.IsDir() != info.IsDir() || e.Type() != info.Mode().Type() {
		return fmt.Sprintf("INCONSISTENT(%q,%v,%v;%q,%v,%v)", e.Name(), e.IsDir(), e.Type(), info.Name(), info.IsDir(), info.Mode())
	}
	return showInfo(info)
}

// runReal performs the operations on the real Files; one output token per operation.
func runReal(files []file, ops []op) (outs []string) {
	fsys := mkFiles(files)
	var handles []fs.File
	one := func(o op) (out string) {
		defer func() {
			if x := recover(); x != nil {
				out = "PANIC"
			}
		}()
		if o.kind != 'o' && (o.h < 0 || o.h >= len(handles)) {
			return "badh"
		}
		switch o.kind {
		case 'o':
			f, err := fsys.Open(o.name)
			if err != nil {
				if errors.Is(err, fs.ErrNotExist) {
					return "ENOENT"
				}
				return "E?"
			}
			handles = append(handles, f)
			_, isDir := f.(fs.ReadDirFile)
			return fmt.Sprintf("h%d:%s", len(handles)-1, b01(isDir))
		case 'd':
			d, ok := handles[o.h].(fs.ReadDirFile)
			if !ok {
				return "notdir"
			}
			es, err := d.ReadDir(o.n)
			if err == io.EOF {
				if len(es) != 0 {
					return fmt.Sprintf("EOF+%d", len(es))
				}
				return "EOF"
			}
			if err != nil {
				return "E?"
			}
			s := make([]string, len(es))
			for i, e := range es {
				s[i] = showEntry(e)
			}
			return "[" + strings.Join(s, ",") + "]"
		case 's':
			i, err := handles[o.h].Stat()
			if err != nil {
				return "E?"
			}
			return showInfo(i)
		case 'r':
			buf := make([]byte, o.n)
			n, err := handles[o.h].Read(buf)
			switch {
			case err == nil:
				return proto.Hex(buf[:n]) + "|nil"
			case err == io.EOF:
				return proto.Hex(buf[:n]) + "|EOF"
			case errors.Is(err, fs.ErrInvalid):
				if n != 0 {
					return "EINVAL+n"
				}
				return "EINVAL"
			}
			return "E?"
		case 'c':
			if err := handles[o.h].Close(); err != nil {
				return "E?"
			}
			return "nil"
		}
		return "?"
	}
	for _, o := range ops {
		outs = append(outs, one(o))
	}
	return outs
}

// ---- the property's oracle ----------------------------------------------------------------------

// refTree is the tree the map denotes, computed on path elements (no string prefix logic):
// directory -> child name -> isDir.
func refTree(files []file) map[string]map[string]bool {
	t := map[string]map[string]bool{".": {}}
	for _, f := range files {
		elems := strings.Split(f.name, "/")
		dir := "."
		for i, e := range elems {
			isDir := i < len(elems)-1
			t[dir][e] = isDir
			if isDir {
				if dir == "." {
					dir = e
				} else {
					dir = dir + "/" + e
				}
				if t[dir] == nil {
					t[dir] = map[string]bool{}
				}
			}
		}
	}
	return t
}

// wellFormed: valid slash paths, none ".", no name both a file and a directory.
func wellFormed(files []file) bool {
	seen := map[string]bool{}
	for _, f := range files {
		if !fs.ValidPath(f.name) || f.name == "." || seen[f.name] {
			return false
		}
		seen[f.name] = true
	}
	for _, f := range files {
		for i := 0; i < len(f.name); i++ {
			if f.name[i] == '/' && seen[f.name[:i]] {
				return false
			}
		}
	}
	return true
}

func join(dir, name string) string {
	if dir == "." {
		return name
	}
	return dir + "/" + name
}

// oracle returns the first clause of the property the real Files breaks on this map ("" if
// none) with a short operation sequence that shows it. pages: page sizes to try.
func oracle(files []file, pages []int, withTestFS bool) (clause string, ops []op, detail string) {
	defer func() {
		if x := recover(); x != nil {
			clause, detail = "panics", fmt.Sprint(x)
		}
	}()
	fsys := mkFiles(files)
	tree := refTree(files)
	// files
	for _, f := range files {
		show := []op{{kind: 'o', name: f.name}, {kind: 's', h: 0}, {kind: 'r', h: 0, n: len(f.data) + 1}, {kind: 'r', h: 0, n: 1}, {kind: 'c', h: 0}, {kind: 'r', h: 0, n: 1}}
		h, err := fsys.Open(f.name)
		if err != nil {
			return "file-opens", show, err.Error()
		}
		if _, isDir := h.(fs.ReadDirFile); isDir {
			return "file-opens", show, "opened as a directory"
		}
		st, err := h.Stat()
		if err != nil || st.Name() != path.Base(f.name) || st.Size() != int64(len(f.data)) || st.IsDir() || st.Mode() != 0 {
			return "file-stat", show, fmt.Sprint(st, err)
		}
		data, err := io.ReadAll(h)
		if err != nil || string(data) != string(f.data) {
			return "file-read", show, fmt.Sprintf("%q %v", data, err)
		}
		if err := h.Close(); err != nil {
			return "file-close", show, err.Error()
		}
		if n, err := h.Read(make([]byte, 1)); err == nil || err == io.EOF || n != 0 {
			return "read-after-close-errs", show, fmt.Sprint(n, err)
		}
	}
	// directories
	var dirs []string
	for d := range tree {
		dirs = append(dirs, d)
	}
	sort.Strings(dirs)
	for _, d := range dirs {
		show := []op{{kind: 'o', name: d}, {kind: 's', h: 0}, {kind: 'd', h: 0, n: -1}, {kind: 'd', h: 0, n: -1}, {kind: 'd', h: 0, n: 1}}
		h, err := fsys.Open(d)
		if err != nil {
			return "dir-opens", show, err.Error()
		}
		rd, ok := h.(fs.ReadDirFile)
		if !ok {
			return "dir-opens", show, "not a ReadDirFile"
		}
		st, err := h.Stat()
		if err != nil || !st.IsDir() || st.Mode() != fs.ModeDir || st.Name() != path.Base(d) {
			return "dir-stat", show, fmt.Sprint(st, err)
		}
		es, err := rd.ReadDir(-1)
		if err != nil {
			return "readdir-all", show, err.Error()
		}
		var want []string
		for c := range tree[d] {
			want = append(want, c)
		}
		sort.Strings(want)
		var got []string
		for _, e := range es {
			got = append(got, e.Name())
		}
		if strings.Join(got, "\x00") != strings.Join(want, "\x00") {
			return "readdir-lists-children-once-sorted", show, fmt.Sprintf("got %q want %q", got, want)
		}
		for _, e := range es {
			showc := append(append([]op(nil), show[:3]...), op{kind: 'o', name: join(d, e.Name())}, op{kind: 's', h: 1})
			ch, err := fsys.Open(join(d, e.Name()))
			if err != nil {
				return "entry-opens", showc, err.Error()
			}
			cst, err := ch.Stat()
			if err != nil {
				return "entry-stat", showc, err.Error()
			}
			info, err := e.Info()
			if err != nil {
				return "entry-info", showc, err.Error()
			}
			if e.IsDir() != cst.IsDir() || e.IsDir() != tree[d][e.Name()] || e.Type() != cst.Mode().Type() ||
				info.Size() != cst.Size() || info.Mode() != cst.Mode() || info.IsDir() != cst.IsDir() || info.Name() != cst.Name() {
				return "entry-agrees-with-stat", showc, fmt.Sprintf("entry %s, stat %s", showEntry(e), showInfo(cst))
			}
		}
		if es2, err := rd.ReadDir(-1); err != nil || len(es2) != 0 {
			return "readdir-all-at-end-is-empty", show, fmt.Sprint(len(es2), err)
		}
		if es2, err := rd.ReadDir(1); err != io.EOF || len(es2) != 0 {
			return "readdir-n-at-end-is-EOF", show, fmt.Sprint(len(es2), err)
		}
		// paging on a fresh handle
		h2, err := fsys.Open(d)
		if err != nil {
			return "dir-opens", show, err.Error()
		}
		rd2 := h2.(fs.ReadDirFile)
		showp := []op{{kind: 'o', name: d}}
		var paged []string
		total := 0
		for i := 0; ; i++ {
			n := pages[i%len(pages)]
			showp = append(showp, op{kind: 'd', h: 0, n: n})
			page, err := rd2.ReadDir(n)
			if total >= len(want) {
				if err != io.EOF || len(page) != 0 {
					return "paging-ends-with-EOF", showp, fmt.Sprint(len(page), err)
				}
				break
			}
			if err != nil || len(page) == 0 || len(page) > n || (len(page) < n && total+len(page) != len(want)) {
				return "paging-page-size", showp, fmt.Sprint(len(page), err)
			}
			for _, e := range page {
				paged = append(paged, e.Name())
			}
			total += len(page)
			if i > len(want)+2 {
				return "paging-terminates", showp, ""
			}
		}
		if strings.Join(paged, "\x00") != strings.Join(want, "\x00") {
			return "paging-concatenates-to-listing", showp, fmt.Sprintf("got %q want %q", paged, want)
		}
		// some pages, then the rest with ReadDir(-1)
		if len(want) >= 2 {
			h3, _ := fsys.Open(d)
			rd3 := h3.(fs.ReadDirFile)
			showr := []op{{kind: 'o', name: d}, {kind: 'd', h: 0, n: 1}, {kind: 'd', h: 0, n: 0}}
			p1, err1 := rd3.ReadDir(1)
			rest, err2 := rd3.ReadDir(0)
			if err1 != nil || err2 != nil || len(p1) != 1 || len(rest) != len(want)-1 || p1[0].Name() != want[0] || rest[0].Name() != want[1] {
				return "readdir-rest-after-page", showr, fmt.Sprint(len(p1), err1, len(rest), err2)
			}
		}
	}
	// nothing else opens: a string prefix or extension of a name is not a name
	isName := func(n string) bool {
		if _, ok := tree[n]; ok {
			return true
		}
		for _, f := range files {
			if f.name == n {
				return true
			}
		}
		return false
	}
	var all []string
	all = append(all, dirs...)
	for _, f := range files {
		all = append(all, f.name)
	}
	for _, n := range all {
		for _, cand := range []string{n[:len(n)-1], n + "x", n + "/x", "x/" + n} {
			if cand == "" || isName(cand) || !fs.ValidPath(cand) {
				continue
			}
			if h, err := fsys.Open(cand); err == nil || !errors.Is(err, fs.ErrNotExist) {
				_ = h
				return "missing-name-does-not-open", []op{{kind: 'o', name: cand}}, fmt.Sprint(err)
			}
		}
	}
	if withTestFS {
		var names []string
		for _, f := range files {
			names = append(names, f.name)
		}
		if err := fstest.TestFS(fsys, names...); err != nil {
			root := ""
			if len(files) > 0 {
				root = files[0].name
			}
			return "fstest.TestFS", []op{{kind: 'o', name: "."}, {kind: 'd', h: 0, n: -1}, {kind: 'd', h: 0, n: -1}, {kind: 'o', name: root}, {kind: 's', h: 1}}, firstLines(err.Error(), 4)
		}
	}
	return "", nil, ""
}


// ---- the oracle across time and handles ----------------------------------------------------------
//
// "stat-ing gives consistent results", evaluated on the real Files alone (no model): an operation
// sequence is executed and after EVERY operation (a "moment")
//   * for every open handle, Stat().{Name,Size,Mode,IsDir,ModTime,Sys} equals fs.Stat(fsys, name)
//     taken on a fresh handle (stat-independent-of-handle-state) and the Info() of the entry the
//     parent directory lists for it on a fresh handle (stat-agrees-with-parent-entry); for a regular
//     file Size() == len(content) == number of bytes a fresh handle delivers up to EOF
//     (size-equals-content-length);
//   * every FileInfo / DirEntry value obtained earlier (right after Open, by a Stat operation, by a
//     ReadDir operation) still reports what it reported when it was obtained
//     (returned-info-immutable).

type snap struct {
	name  string
	size  int64
	mode  fs.FileMode
	isDir bool
	mt    time.Time
	sys   bool
}

func snapOf(i fs.FileInfo) snap {
	return snap{i.Name(), i.Size(), i.Mode(), i.IsDir(), i.ModTime(), i.Sys() != nil}
}

func (a snap) eq(b snap) bool {
	return a.name == b.name && a.size == b.size && a.mode == b.mode && a.isDir == b.isDir && a.mt.Equal(b.mt) && a.sys == b.sys
}

func (a snap) String() string {
	mt := "zero"
	if !a.mt.IsZero() {
		mt = a.mt.UTC().Format(time.RFC3339Nano)
	}
	return fmt.Sprintf("(Name %q, Size %d, Mode %s, IsDir %v, ModTime %s)", a.name, a.size, modeStr(a.mode), a.isDir, mt)
}

type heldInfo struct {
	info  fs.FileInfo
	entry fs.DirEntry // nil for the result of a Stat
	was   snap
	from  string
}

// timeline runs ops on the real Files and evaluates the clauses above at every moment. at is the
// index of the operation after which the first clause failed.
func timeline(files []file, ops []op) (clause string, at int, detail string) {
	at = -1
	defer func() {
		if x := recover(); x != nil {
			clause, detail = "panics", fmt.Sprint(x)
		}
	}()
	fsys := mkFiles(files)
	content := map[string][]byte{}
	for _, f := range files {
		content[f.name] = f.data
	}
	type hnd struct {
		f      fs.File
		name   string
		closed bool
	}
	var hs []hnd
	var held []heldInfo
	check := func(k int) (string, string) {
		for i, h := range hs {
			if h.closed {
				continue
			}
			st, err := h.f.Stat()
			if err != nil {
				return "stat-of-open-handle", fmt.Sprintf("h%d.Stat() of %q: %v", i, h.name, err)
			}
			got := snapOf(st)
			fi, err := fs.Stat(fsys, h.name)
			if err != nil {
				return "stat-independent-of-handle-state", fmt.Sprintf("fs.Stat(fsys, %q): %v", h.name, err)
			}
			if want := snapOf(fi); !got.eq(want) {
				return "stat-independent-of-handle-state", fmt.Sprintf("after operation #%d: h%d.Stat() = %s, but fs.Stat(fsys, %q) on a fresh handle = %s", k+1, i, got, h.name, want)
			}
			if h.name != "." {
				es, err := fs.ReadDir(fsys, path.Dir(h.name))
				if err != nil {
					return "stat-agrees-with-parent-entry", fmt.Sprintf("fs.ReadDir(fsys, %q): %v", path.Dir(h.name), err)
				}
				found := false
				for _, e := range es {
					if e.Name() != path.Base(h.name) {
						continue
					}
					found = true
					info, err := e.Info()
					if err != nil {
						return "stat-agrees-with-parent-entry", err.Error()
					}
					if want := snapOf(info); !got.eq(want) || e.IsDir() != got.isDir || e.Type() != got.mode.Type() {
						return "stat-agrees-with-parent-entry", fmt.Sprintf("after operation #%d: h%d.Stat() = %s, but the entry of %q in fs.ReadDir(fsys, %q) has Info() = %s, IsDir %v, Type %s", k+1, i, got, h.name, path.Dir(h.name), want, e.IsDir(), modeStr(e.Type()))
					}
				}
				if !found {
					return "stat-agrees-with-parent-entry", fmt.Sprintf("%q is open but not listed by fs.ReadDir(fsys, %q)", h.name, path.Dir(h.name))
				}
			}
			if data, isFile := content[h.name]; isFile {
				b, err := fs.ReadFile(fsys, h.name)
				if err != nil || got.size != int64(len(data)) || len(b) != len(data) {
					return "size-equals-content-length", fmt.Sprintf("after operation #%d: h%d.Stat().Size() = %d, len(content) = %d, a fresh handle of %q delivers %d bytes (%v)", k+1, i, got.size, len(data), h.name, len(b), err)
				}
			}
		}
		for _, h := range held {
			now := snapOf(h.info)
			if !now.eq(h.was) {
				return "returned-info-immutable", fmt.Sprintf("the FileInfo from %s reported %s; after operation #%d the same value reports %s", h.from, h.was, k+1, now)
			}
			if h.entry != nil {
				info, err := h.entry.Info()
				if err != nil {
					return "returned-info-immutable", fmt.Sprintf("the DirEntry from %s: Info() after operation #%d: %v", h.from, k+1, err)
				}
				if now := snapOf(info); !now.eq(h.was) || h.entry.Name() != h.was.name || h.entry.IsDir() != h.was.isDir || h.entry.Type() != h.was.mode.Type() {
					return "returned-info-immutable", fmt.Sprintf("the DirEntry from %s reported %s; after operation #%d it reports %s, Name %q, IsDir %v, Type %s", h.from, h.was, k+1, now, h.entry.Name(), h.entry.IsDir(), modeStr(h.entry.Type()))
				}
			}
		}
		return "", ""
	}
	for k, o := range ops {
		if o.kind != 'o' && (o.h < 0 || o.h >= len(hs)) {
			continue
		}
		switch o.kind {
		case 'o':
			f, err := fsys.Open(o.name)
			if err != nil {
				continue
			}
			hs = append(hs, hnd{f: f, name: o.name})
			if st, err := f.Stat(); err == nil {
				held = append(held, heldInfo{info: st, was: snapOf(st), from: fmt.Sprintf("h%d.Stat() right after Open(%q) (operation #%d)", len(hs)-1, o.name, k+1)})
			}
		case 'd':
			if d, ok := hs[o.h].f.(fs.ReadDirFile); ok {
				es, _ := d.ReadDir(o.n)
				for _, e := range es {
					if info, err := e.Info(); err == nil {
						held = append(held, heldInfo{info: info, entry: e, was: snapOf(info), from: fmt.Sprintf("h%d.ReadDir(%d) (operation #%d), entry %q", o.h, o.n, k+1, e.Name())})
					}
				}
			}
		case 's':
			if st, err := hs[o.h].f.Stat(); err == nil && !hs[o.h].closed {
				held = append(held, heldInfo{info: st, was: snapOf(st), from: fmt.Sprintf("h%d.Stat() (operation #%d)", o.h, k+1)})
			}
		case 'r':
			hs[o.h].f.Read(make([]byte, o.n))
		case 'c':
			hs[o.h].f.Close()
			hs[o.h].closed = true
		}
		if cl, det := check(k); cl != "" {
			return cl, k, det
		}
	}
	return "", -1, ""
}

// opened tells for every operation whether it is an Open that succeeded on the real Files.
func opened(files []file, ops []op) []bool {
	outs := runReal(files, ops)
	ok := make([]bool, len(ops))
	for i := range ops {
		ok[i] = ops[i].kind == 'o' && i < len(outs) && strings.HasPrefix(outs[i], "h")
	}
	return ok
}

// dropOp removes operation i; if it is a successful Open, the operations on its handle go too
// and the later handles are renumbered.
func dropOp(files []file, ops []op, i int) []op {
	ok := opened(files, ops)
	hidx := -1
	if ok[i] {
		hidx = 0
		for j := 0; j < i; j++ {
			if ok[j] {
				hidx++
			}
		}
	}
	var out []op
	for j, o := range ops {
		if j == i {
			continue
		}
		if hidx >= 0 && o.kind != 'o' {
			if o.h == hidx {
				continue
			}
			if o.h > hidx {
				o.h--
			}
		}
		out = append(out, o)
	}
	return out
}

// shrinkTimeline: the shortest prefix, then single operations, files, contents and read sizes,
// keeping the clause that failed.
func shrinkTimeline(files []file, ops []op, clause string) ([]file, []op) {
	failing := func(fl []file, os []op) bool {
		if !wellFormed(fl) {
			return false
		}
		cl, _, _ := timeline(fl, os)
		return cl == clause
	}
	if _, at, _ := timeline(files, ops); at >= 0 {
		ops = append([]op(nil), ops[:at+1]...)
	}
	for progress := true; progress; {
		progress = false
		for i := len(ops) - 1; i >= 0; i-- {
			c := dropOp(files, ops, i)
			if failing(files, c) {
				ops, progress = c, true
				break
			}
		}
	}
	// a file that an Open names must stay: renaming would change the sequence's meaning
	files = shrinkFiles(files, func(fl []file) bool { return failing(fl, ops) })
	for i := range ops {
		if (ops[i].kind == 'r' || ops[i].kind == 'd') && ops[i].n > 1 {
			c := append([]op(nil), ops...)
			c[i].n = 1
			if failing(files, c) {
				ops = c
			}
		}
	}
	return files, ops
}

// the operations of the family: every pair of them is applied to two handles of the same name
var famAlpha = []op{{kind: 's'}, {kind: 'r', n: 0}, {kind: 'r', n: 1}, {kind: 'r', n: 3}, {kind: 'r', n: 100}, {kind: 'd', n: 1}, {kind: 'd', n: -1}, {kind: 'c'}}

// family: for a name, Open it twice and apply every pair (a, b) of famAlpha, a to the first handle
// and b to the first or the second; the clauses are evaluated at every moment on both handles.
func family(name string) [][]op {
	var out [][]op
	for _, a := range famAlpha {
		for _, b := range famAlpha {
			for hb := 0; hb < 2; hb++ {
				a.h, b.h = 0, hb
				out = append(out, []op{{kind: 'o', name: name}, {kind: 'o', name: name}, a, b})
			}
		}
	}
	return out
}

func allNames(files []file) []string {
	var names []string
	for d := range refTree(files) {
		names = append(names, d)
	}
	for _, f := range files {
		names = append(names, f.name)
	}
	sort.Strings(names)
	return names
}

func firstLines(s string, n int) string {
	l := strings.Split(s, "\n")
	if len(l) > n {
		l = l[:n]
	}
	return strings.Join(l, " | ")
}

func shrinkFiles(files []file, failing func([]file) bool) []file {
	cur := append([]file(nil), files...)
	for progress := true; progress; {
		progress = false
		for i := range cur {
			c := append(append([]file(nil), cur[:i]...), cur[i+1:]...)
			if failing(c) {
				cur, progress = c, true
				break
			}
		}
	}
	for i := range cur {
		if len(cur[i].data) > 1 {
			c := append([]file(nil), cur...)
			c[i].data = []byte("x")
			if failing(c) {
				cur = c
			}
		}
	}
	return cur
}

// ---- generators ------------------------------------------------------------------------------------

var segs = []string{"a", "b", "c", "a.b", "a-b", "é", "d.txt", "ab", "a0", "Z", "..a", "a..", "日本", "_"}

func genFiles(c *hx.Ctx) []file {
	n := c.R.Intn(9)
	if c.R.Intn(12) == 0 {
		n = 10 + c.R.Intn(20)
	}
	used := map[string]bool{}
	var files []file
	for len(files) < n {
		depth := 1 + c.R.Intn(3)
		if c.R.Intn(8) == 0 {
			depth = 4 + c.R.Intn(2)
		}
		var el []string
		for i := 0; i < depth; i++ {
			el = append(el, segs[c.R.Intn(min(len(segs), 3+c.R.Intn(len(segs))))])
		}
		name := strings.Join(el, "/")
		if used[name] {
			n--
			continue
		}
		used[name] = true
		var data []byte
		switch c.R.Intn(4) {
		case 0:
		case 1:
			data = []byte{byte('0' + c.R.Intn(10))}
		default:
			data = c.R.Bytes(1 + c.R.Intn(12))
		}
		files = append(files, file{name, data})
	}
	// remove conflicts (a name that is both a file and a directory) unless this is a malformed case
	if c.R.Intn(10) != 0 {
		var out []file
		for _, f := range files {
			ok := true
			for _, g := range files {
				if strings.HasPrefix(g.name, f.name+"/") {
					ok = false
				}
			}
			if ok {
				out = append(out, f)
			}
		}
		files = out
	} else if c.R.Bool() && len(files) > 0 {
		bad := []string{"", ".", "/a", "a/", "a//b", "./a", "a/../b", "a\xffb", "a/.", ".."}
		files[c.R.Intn(len(files))].name = bad[c.R.Intn(len(bad))]
		seen := map[string]bool{}
		var out []file
		for _, f := range files {
			if !seen[f.name] {
				seen[f.name] = true
				out = append(out, f)
			}
		}
		files = out
	}
	return files
}

func genOps(c *hx.Ctx, files []file) []op {
	var cands []string
	cands = append(cands, ".")
	for _, f := range files {
		cands = append(cands, f.name)
		for i := 0; i < len(f.name); i++ {
			if f.name[i] == '/' {
				cands = append(cands, f.name[:i])
			}
		}
	}
	bad := []string{"", "/", "nope", "a/nope", "/a", "a/", "a//b", "./a", "a/.", "..", "a/../a", "a\xff", "a\\b"}
	var ops []op
	nh := 0
	for i, n := 0, 10+c.R.Intn(40); i < n; i++ {
		k := c.R.Intn(10)
		if nh == 0 || k < 2 {
			name := cands[c.R.Intn(len(cands))]
			if c.R.Intn(5) == 0 {
				name = bad[c.R.Intn(len(bad))]
			} else if c.R.Intn(12) == 0 {
				name += "/" + segs[c.R.Intn(len(segs))]
			} else if c.R.Intn(12) == 0 && len(name) > 1 {
				name = name[:len(name)-1] // a proper string prefix of a name is not a directory
			} else if c.R.Intn(16) == 0 {
				name += "x"
			}
			ops = append(ops, op{kind: 'o', name: name})
			// handle numbering needs the real outcome; computed below by a dry run
			nh = -1
			ops2 := runReal(files, ops)
			nh = 0
			for _, o := range ops2 {
				if strings.HasPrefix(o, "h") {
					nh++
				}
			}
			continue
		}
		h := c.R.Intn(nh)
		if c.R.Intn(3) > 0 {
			h = nh - 1
		}
		switch {
		case k < 6:
			ns := []int{-1, 0, 1, 1, 2, 2, 3, 5, 100, -7}
			ops = append(ops, op{kind: 'd', h: h, n: ns[c.R.Intn(len(ns))]})
		case k < 7:
			ops = append(ops, op{kind: 's', h: h})
		case k < 9:
			ks := []int{0, 1, 1, 2, 3, 5, 100}
			ops = append(ops, op{kind: 'r', h: h, n: ks[c.R.Intn(len(ks))]})
		default:
			ops = append(ops, op{kind: 'c', h: h})
		}
	}
	return ops
}

// ---- replays -----------------------------------------------------------------------------------------

func parseCase(line string) (files []file, ops []op, err error) {
	defer func() {
		if x := recover(); x != nil {
			err = fmt.Errorf("replay: %v", x)
		}
	}()
	t := strings.Fields(line)
	i := 0
	next := func() string { i++; return t[i-1] }
	num := func() int {
		n, e := strconv.Atoi(next())
		if e != nil {
			panic(e)
		}
		return n
	}
	hexs := func() []byte {
		b, e := proto.UnHex(next())
		if e != nil {
			panic(e)
		}
		return b
	}
	if next() != "C23" || next() != "run" {
		return nil, nil, fmt.Errorf("replay: not a C23 run case")
	}
	for k := num(); k > 0; k-- {
		n := string(hexs())
		files = append(files, file{n, hexs()})
	}
	for k := num(); k > 0; k-- {
		switch kind := next(); kind {
		case "o":
			ops = append(ops, op{kind: 'o', name: string(hexs())})
		case "d", "r":
			h := num()
			ops = append(ops, op{kind: kind[0], h: h, n: num()})
		case "s", "c":
			ops = append(ops, op{kind: kind[0], h: num()})
		default:
			panic("bad op " + kind)
		}
	}
	return files, ops, nil
}

// ---- run -----------------------------------------------------------------------------------------------

type pending struct {
	files []file
	ops   []op
	impl  string
}

type runner struct {
	c     *hx.Ctx
	pend  []pending
	tlRep map[string]int // timeline clause -> failing inputs reported (the first three are shrunk)
}

func (r *runner) correspond(files []file, ops []op) {
	impl := "ok"
	for _, o := range runReal(files, ops) {
		impl += " " + o
	}
	r.pend = append(r.pend, pending{files, ops, impl})
}

func (r *runner) flush() error {
	if r.c.D == nil || len(r.pend) == 0 {
		r.pend = nil
		return nil
	}
	lines := make([]string, len(r.pend))
	for i, p := range r.pend {
		lines[i] = encCase(p.files, p.ops)
	}
	model, err := r.c.D.Batch(lines)
	if err != nil {
		return err
	}
	for i, p := range r.pend {
		if i%211 == 0 && len(p.ops) > 3 {
			r.c.Res.Sample(map[string]string{"human": humanCase(p.files, p.ops), "impl": p.impl, "model": model[i]})
		}
		if model[i] != p.impl {
			// shorten: the shortest prefix of the operations that still differs
			ops := p.ops
			mt, it := strings.Fields(model[i]), strings.Fields(p.impl)
			for k := 1; k < len(mt) && k < len(it); k++ {
				if mt[k] != it[k] {
					ops = p.ops[:k]
					mt, it = mt[:k+1], it[:k+1]
					break
				}
			}
			r.c.Res.AddBreak(proto.Break{Kind: "correspondence", Name: "files-model-vs-scriggo.Files", Case: encCase(p.files, ops),
				Human: humanCase(p.files, ops), Impl: strings.Join(it, " "), Model: strings.Join(mt, " ")})
		}
	}
	r.pend = nil
	return nil
}

func (r *runner) property(files []file, pages []int, withTestFS bool) {
	clause, _, _ := oracle(files, pages, withTestFS)
	if clause == "" {
		return
	}
	min := shrinkFiles(files, func(fl []file) bool {
		if !wellFormed(fl) {
			return false
		}
		cl, _, _ := oracle(fl, pages, withTestFS)
		return cl == clause
	})
	_, ops, detail := oracle(min, pages, withTestFS)
	impl := "ok"
	for _, o := range runReal(min, ops) {
		impl += " " + o
	}
	model := "(the clause " + clause + " holds)"
	if r.c.D != nil {
		if m, err := r.c.D.Ask(encCase(min, ops)); err == nil {
			model = m
		}
	}
	r.c.Res.AddBreak(proto.Break{Kind: "property", Name: clause, Case: encCase(min, ops),
		Human: humanCase(min, ops) + "  -- " + detail, Impl: impl, Model: model})
}

// timeline evaluates the oracle across time and handles on one sequence; a failure is shrunk and
// reported as a failing input of the property.
func (r *runner) timeline(files []file, ops []op) {
	clause, _, _ := timeline(files, ops)
	if clause == "" {
		return
	}
	if r.tlRep == nil {
		r.tlRep = map[string]int{}
	}
	r.tlRep[clause]++
	r.c.Res.Hist("timeline-fails:" + clause)
	if r.tlRep[clause] > 3 {
		return
	}
	mf, mo := shrinkTimeline(files, ops, clause)
	_, _, detail := timeline(mf, mo)
	// make the moment visible in the recorded answers: Stat every handle at the end
	nh := 0
	for _, ok := range opened(mf, mo) {
		if ok {
			mo = append(mo, op{kind: 's', h: nh})
			nh++
		}
	}
	impl := "ok"
	for _, o := range runReal(mf, mo) {
		impl += " " + o
	}
	model := "(the clause " + clause + " holds: stat_independent_of_handle_state)"
	if r.c.D != nil {
		if m, err := r.c.D.Ask(encCase(mf, mo)); err == nil {
			model = m
		}
	}
	r.c.Res.AddBreak(proto.Break{Kind: "property", Name: clause, Case: encCase(mf, mo),
		Human: humanCase(mf, mo) + "  -- " + detail, Impl: impl, Model: model})
}

func run(c *hx.Ctx) error {
	res := c.Res
	res.Rule = "random maps of ≤ 8 (sometimes 30) slash paths over 14 path elements (dots, dashes, 2- and 3-byte UTF-8), depth ≤ 5, contents empty/1 byte/random; 10% malformed maps (name both file and directory, invalid names) used for the correspondence only; per map one random sequence of 10–50 Open/ReadDir(n)/Stat/Read(k)/Close operations (names: files, directories, missing and invalid paths; n in -7…100) compared with the model, and on well-formed maps the oracle: fstest.TestFS plus the direct clauses with random page sizes, and the oracle across time and handles (after every operation of the same sequence, and of the family {two handles of one name} x {pairs of Stat/Read 0,1,3,100/ReadDir 1,-1/Close} for the names of every 10th map: Stat of every open handle = fs.Stat on a fresh handle = the parent's entry Info, Size = len(content) = bytes a fresh handle delivers, every FileInfo/DirEntry returned earlier still reports the same); non-trivial: maps with at least one directory below the root; distinct by map+operations"
	r := &runner{c: c}

	if c.Replay != "" {
		p := c.Replay
		if _, err := os.Stat(p); err != nil && !strings.HasPrefix(p, "/") {
			p = "../" + p
		}
		data, err := os.ReadFile(p)
		if err != nil {
			return err
		}
		var rp struct {
			Case   string          `json:"case"`
			Detail json.RawMessage `json:"detail"`
		}
		if err := json.Unmarshal(data, &rp); err != nil {
			return err
		}
		if rp.Case == "" && len(rp.Detail) > 0 {
			var d struct {
				Case string `json:"case"`
			}
			if json.Unmarshal(rp.Detail, &d) == nil {
				rp.Case = d.Case
			}
		}
		if strings.HasPrefix(rp.Case, "C23 run ") {
			files, ops, err := parseCase(rp.Case)
			if err != nil {
				return err
			}
			r.correspond(files, ops)
			if wellFormed(files) {
				r.property(files, []int{1, 2}, true)
				r.timeline(files, ops)
			}
			if err := r.flush(); err != nil {
				return err
			}
		}
	}

	// the recorded three-file map first
	three := []file{{"a.txt", []byte("x")}, {"d/b.txt", []byte("yy")}, {"d/e/c.txt", nil}}
	r.property(three, []int{1, 2}, true)
	r.correspond(three, []op{{kind: 'o', name: "."}, {kind: 'd', h: 0, n: -1}, {kind: 'd', h: 0, n: -1}, {kind: 'd', h: 0, n: 1},
		{kind: 'o', name: "d"}, {kind: 'd', h: 1, n: 1}, {kind: 'd', h: 1, n: 1}, {kind: 'd', h: 1, n: 1}, {kind: 's', h: 1},
		{kind: 'o', name: "a.txt"}, {kind: 's', h: 2}, {kind: 'r', h: 2, n: 4}, {kind: 'r', h: 2, n: 4}, {kind: 'c', h: 2}, {kind: 'r', h: 2, n: 4}})

	runFamily := func(files []file) {
		names := allNames(files)
		if len(names) > 6 {
			for i := len(names) - 1; i > 0; i-- {
				j := c.R.Intn(i + 1)
				names[i], names[j] = names[j], names[i]
			}
			names = names[:6]
		}
		for _, n := range names {
			for _, ops := range family(n) {
				r.timeline(files, ops)
				res.Count("T "+encCase(files, ops), true)
				res.Hist("timeline-family")
			}
		}
	}
	runFamily(three)

	for i := 0; i < c.N(3000, 60000); i++ {
		files := genFiles(c)
		ops := genOps(c, files)
		r.correspond(files, ops)
		wf := wellFormed(files)
		if wf {
			pages := []int{1 + c.R.Intn(3), 1 + c.R.Intn(4), 1 + c.R.Intn(2)}
			r.property(files, pages, true)
			r.timeline(files, ops)
			res.Hist("timeline-random")
			if i%10 == 0 {
				runFamily(files)
			}
			res.Hist("well-formed-map")
		} else {
			res.Hist("malformed-map")
		}
		ndirs := len(refTree(files))
		if !wf {
			ndirs = 0
		}
		res.Count(encCase(files, ops), ndirs > 1)
		res.Hist(fmt.Sprintf("files%02d", min(len(files)/2*2, 12)))
		res.Hist(fmt.Sprintf("dirs%02d", min(ndirs, 8)))
		if len(r.pend) >= 500 {
			if err := r.flush(); err != nil {
				return err
			}
		}
	}
	if err := r.flush(); err != nil {
		return err
	}

	// spec validation: the model's ValidPath / utf8 / Base / sort against the standard library
	if c.D != nil {
		var lines, want []string
		add := func(l, w string) { lines = append(lines, l); want = append(want, w) }
		pool := []string{"", ".", "..", "/", "a", "a/b", "a//b", "/a", "a/", "./a", "a/.", "a/..", "a/../b", "...", "a/...", "é", "\xc3", "a\xffb",
			"\xe0\x80\x80", "\xed\xa0\x80", "\xf4\x90\x80\x80", "\xf0\x90\x80\x80", "\xc0\x80", "\xef\xbf\xbd", "a/\xe6\x97\xa5", "\xe6\x97", "a///", "//", "a/b/", "a/b//"}
		for i := 0; i < c.N(1500, 20000); i++ {
			var s string
			if i < len(pool) {
				s = pool[i]
			} else {
				alpha := []byte{'a', '.', '/', '/', '.', 'b', 0xc3, 0xa9, 0xe6, 0x97, 0xa5, 0xf0, 0x9f, 0x98, 0x80, 0xed, 0xa0, 0x80, 0xff, 0xc0, 0xf4, 0x90}
				b := make([]byte, c.R.Intn(8))
				for j := range b {
					b[j] = alpha[c.R.Intn(len(alpha))]
				}
				s = string(b)
			}
			add("C23 validpath "+proto.Hex([]byte(s)), "ok "+b01(fs.ValidPath(s)))
			add("C23 utf8 "+proto.Hex([]byte(s)), "ok "+b01(utf8.ValidString(s)))
			add("C23 base "+proto.Hex([]byte(s)), "ok "+proto.Hex([]byte(path.Base(s))))
		}
		for i := 0; i < c.N(200, 2000); i++ {
			n := c.R.Intn(8)
			ss := make([]string, n)
			l := fmt.Sprintf("C23 sort %d", n)
			for j := range ss {
				ss[j] = string(c.R.Bytes(c.R.Intn(3))) + segs[c.R.Intn(len(segs))][:1+c.R.Intn(1)]
				l += " " + proto.Hex([]byte(ss[j]))
			}
			sort.Strings(ss)
			hs := make([]string, n)
			for j := range ss {
				hs[j] = proto.Hex([]byte(ss[j]))
			}
			add(l, "ok "+strings.Join(hs, ","))
		}
		got, err := c.D.Batch(lines)
		if err != nil {
			return err
		}
		for i := range got {
			res.SpecChecks[strings.Fields(lines[i])[1]+"-vs-stdlib"]++
			if got[i] != want[i] {
				res.AddBreak(proto.Break{Kind: "correspondence", Name: "spec-" + strings.Fields(lines[i])[1] + "-vs-stdlib", Case: lines[i], Impl: want[i], Model: got[i]})
			}
		}
	}
	return nil
}
