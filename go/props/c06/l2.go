package main

// Layer-2 validation (spec validation + correspondence), on the prefixes of the generated
// documents up to their first hole:
//
//   - Spec/HtmlTok.lean's reference tokenizer + abstraction (driver `C06 tok`) against an
//     independent reading of the same prefix by x/net/html (where does a marker appended to the
//     prefix land: text, tag / attribute name, attribute value quoted or not, script / style text)
//     refined inside script / style by the harness's JS lexer / CSS tokenizer (string or code);
//   - Model/LexCtx.lean's projected context machine (driver `C06 lexctx`) against the REAL lexer:
//     the context the real parser attaches to the first show statement (hook Holes).

import (
	"fmt"
	"strings"

	hook6 "github.com/open2b/scriggo/verifhook/c06"

	html "verifharness/internal/xnethtml"

	"verifharness/internal/hx"
	"verifharness/internal/proto"
)

const l2marker = "xq7x"

// where the marker lands for x/net/html when `suffix` is appended to the prefix
func markerLanding(doc string) (where string, sub string, raw string) {
	z := html.NewTokenizer(strings.NewReader(doc))
	sub = ""
	for {
		tt := z.Next()
		if tt == html.ErrorToken {
			return "", "", ""
		}
		switch tt {
		case html.TextToken:
			r := string(z.Raw())
			if strings.Contains(r, l2marker) {
				if sub != "" {
					return "rawtext", sub, r
				}
				return "text", "", r
			}
		case html.StartTagToken, html.SelfClosingTagToken:
			t := z.Token()
			if strings.Contains(t.Data, l2marker) {
				return "tagname", "", ""
			}
			for _, a := range t.Attr {
				if strings.Contains(a.Key, l2marker) {
					return "attrname", "", ""
				}
				if strings.Contains(a.Val, l2marker) {
					return "attrval", "", a.Val
				}
			}
			switch t.Data {
			case "script":
				sub = "js"
			case "style":
				sub = "css"
			default:
				sub = ""
			}
		case html.EndTagToken:
			t := z.Token()
			if strings.Contains(t.Data, l2marker) {
				return "endtag", "", ""
			}
			sub = ""
		case html.CommentToken, html.DoctypeToken:
			if strings.Contains(string(z.Raw()), l2marker) {
				return "comment", "", ""
			}
		}
	}
}

// refCtx: the context a value shown right after the prefix p is in, according to x/net/html and the
// harness's JS / CSS tokenizers; "" = cannot tell
func refCtx(p string) string {
	where, sub, raw := markerLanding(p + l2marker + ">")
	switch where {
	case "text":
		return "html"
	case "tagname", "attrname":
		return "tag"
	case "attrval":
		return "unquotedAttr"
	case "rawtext":
		content := raw[:strings.Index(raw, l2marker)+len(l2marker)]
		var toks []tok
		if sub == "js" {
			toks = jsTokens(content)
		} else {
			toks = cssTokens(content)
		}
		if len(toks) == 0 {
			return ""
		}
		last := toks[len(toks)-1]
		isStr := strings.Contains(last.sig, ":string") && strings.Contains(last.val, l2marker)
		if strings.Contains(last.sig, "regex") || strings.Contains(last.sig, "tmpl") {
			return ""
		}
		if sub == "js" {
			if isStr {
				return "jsString"
			}
			return "js"
		}
		if isStr {
			return "cssString"
		}
		return "css"
	case "":
		// the tag did not close: inside a quoted attribute value?
		for _, q := range []string{`"`, `'`} {
			if w, _, _ := markerLanding(p + l2marker + q + ">"); w == "attrval" {
				return "quotedAttr"
			}
		}
	}
	return ""
}

var ctxNumber = map[string]int{"text": 0, "HTML": 1, "CSS": 2, "JavaScript": 3, "JSON": 4, "Markdown": 5, "tag": 6,
	"quoted attribute": 7, "unquoted attribute": 8, "CSS string": 9, "JavaScript string": 10, "JSON string": 11,
	"tab code block": 12, "spaces code block": 13}

// layer2Validation runs both comparisons on the prefixes (up to the first `{{`) of the documents.
func layer2Validation(c *hx.Ctx, docs []*built) error {
	if c.D == nil {
		return nil
	}
	type item struct {
		b   *built
		p   string
		src string
		h   hook6.Hole
	}
	var items []item
	var lines []string
	for _, b := range docs {
		if b.d.format != "html" || len(b.holes) == 0 {
			continue
		}
		// variant k: the first k holes replaced by a benign literal, so that hole k is the first one
		src := b.d.src
		for k := 0; k < 4; k++ {
			i := strings.Index(src, "{{")
			if i < 0 {
				break
			}
			stop := false
			for _, d := range []string{"{%", "{#", "#}"} {
				if j := strings.Index(src, d); j >= 0 && j < i {
					stop = true
				}
			}
			if stop {
				break
			}
			hs, err := hook6.Holes([]byte(src), formatOf("html"))
			if err != nil || len(hs) == 0 {
				break
			}
			items = append(items, item{b, src[:i], src, hs[0]})
			lines = append(lines, "C06 tok "+proto.Hex([]byte(src[:i])), fmt.Sprintf("C06 lexctx %s %d", proto.Hex([]byte(src)), i))
			j := strings.Index(src[i:], "}}")
			if j < 0 {
				break
			}
			src = src[:i] + "x" + src[i+j+2:]
		}
	}
	ans, err := c.D.Batch(lines)
	if err != nil {
		return err
	}
	for k, it := range items {
		tokAns, lexAns := ans[2*k], ans[2*k+1]
		// (b) correspondence: projected context machine vs the real lexer
		h := it.h
		u := "0"
		if h.InURL {
			u = "1"
		}
		want := fmt.Sprintf("ok %d %d %s", len(it.p), ctxNumber[h.Context], u)
		c.Res.Hist("correspondence:lexctx-vs-real-lexer")
		if lexAns != want {
			c.Res.AddBreak(proto.Break{Kind: "correspondence", Name: "Model.LexCtx-vs-real-lexer-context-at-first-hole", Case: lines[2*k+1],
				Human: it.src, Impl: want, Model: lexAns})
		}
		// (a) spec validation: reference tokenizer + abstraction vs x/net/html (+ JS / CSS tokenizers)
		f := strings.Fields(tokAns)
		if len(f) != 3 || f[0] != "ok" {
			return fmt.Errorf("driver: %q -> %q", lines[2*k], tokAns)
		}
		if f[1] == "bad" || f[1] == "none" {
			c.Res.SpecChecks["htmltok:no-claim-("+f[1]+")"]++
			continue
		}
		ref := refCtx(it.p)
		if ref == "" {
			c.Res.SpecChecks["htmltok:x/net/html-cannot-tell"]++
			continue
		}
		c.Res.SpecChecks["htmltok-abs-agrees-with-x/net/html:"+f[1]]++
		if ref != f[1] {
			c.Res.AddBreak(proto.Break{Kind: "correspondence", Name: "spec-validation-HtmlTok-vs-x/net/html", Case: lines[2*k],
				Human: fmt.Sprintf("prefix %q: Spec/HtmlTok says %s, x/net/html (+JS/CSS tokenizers) says %s", it.p, f[1], ref), Impl: ref, Model: tokAns})
		}
		// and, inside class D, the real lexer must agree with the reference (the theorem's claim, end to end)
		c.Res.SpecChecks["class-D-real-lexer-agrees-with-reference"]++
		wantD := map[string]int{"html": 1, "tag": 6, "quotedAttr": 7, "unquotedAttr": 8, "js": 3, "jsString": 10, "css": 2, "cssString": 9}[f[1]]
		if wantD != ctxNumber[h.Context] || (f[2] == "1") != h.InURL {
			c.Res.AddBreak(proto.Break{Kind: "correspondence", Name: "ctx_agree-statement-false-on-real-lexer", Case: lines[2*k],
				Human: fmt.Sprintf("prefix %q is in class D with reference context %s url=%s, the real lexer says %s url=%v\n%s", it.p, f[1], f[2], h.Context, h.InURL, it.src),
				Impl:  fmt.Sprintf("%s %v", h.Context, h.InURL), Model: tokAns})
		}
	}
	return nil
}
