// C06: autoescaping confines every shown untrusted value to its syntactic slot.
//
// End-to-end oracle (independent of every model): grammar-generated template documents (gen.go)
// are built and run by the real engine (scriggo.BuildTemplate + Template.Run) once with a benign
// value and once with each value drawn from a context-breaking dictionary plus random Unicode /
// random bytes (vars.go). Both outputs are tokenised with reference tokenizers of the enclosing
// languages (tok.go: x/net/html, encoding/json, goldmark, a JS lexer and a CSS tokenizer) and must
// have the SAME token structure; the content of the slot tokens, decoded, must be the benign
// content with the marker replaced by the shown value.
//
// Correspondence: the real escapers (through the C07 bridge) vs. Model/Escape through the driver,
// on the values used. Spec validation: the slot scanners of Spec/Slots.lean vs. the reference
// tokenizers ("confined" implies "same structure").
//
// Constructs with a recorded known finding live in a separate RISKY stream; a failure there is
// shrunk (value, then template) and must match its finding's class exactly, anything else is a
// violation.
package main

import (
	"bytes"
	"fmt"
	"io"
	"os"
	"regexp"
	"sort"
	"strings"
	"unicode/utf8"

	"github.com/open2b/scriggo"
	"github.com/open2b/scriggo/ast"
	hook6 "github.com/open2b/scriggo/verifhook/c06"
	hook7 "github.com/open2b/scriggo/verifhook/c07"
	"github.com/yuin/goldmark"
	gast "github.com/yuin/goldmark/ast"
	"github.com/yuin/goldmark/text"

	"verifharness/internal/hx"
	"verifharness/internal/proto"
	html "verifharness/internal/xnethtml"
)

func main() { hx.Main("C06", run) }

var md = goldmark.New()

// mdTokens: the block / inline structure goldmark sees (node kinds; text content is the slot)
func mdTokens(s string) []tok {
	src := []byte(s)
	root := md.Parser().Parse(text.NewReader(src))
	var out []tok
	gast.Walk(root, func(n gast.Node, entering bool) (gast.WalkStatus, error) {
		if !entering {
			out = append(out, tok{sig: "md:/" + n.Kind().String()})
			return gast.WalkContinue, nil
		}
		switch n.Kind() {
		case gast.KindText, gast.KindString:
			// adjacent text nodes are one slot
			if len(out) > 0 && out[len(out)-1].sig == "md:text" {
				return gast.WalkSkipChildren, nil
			}
			out = append(out, tok{sig: "md:text", slot: true})
			return gast.WalkSkipChildren, nil
		}
		out = append(out, tok{sig: "md:" + n.Kind().String()})
		return gast.WalkContinue, nil
	})
	// text nodes are split arbitrarily (escapes, soft breaks): collapse "/Text" closers and repeats
	var res []tok
	for _, t := range out {
		if t.sig == "md:/Text" || t.sig == "md:/String" {
			continue
		}
		if t.sig == "md:text" && len(res) > 0 && res[len(res)-1].sig == "md:text" {
			continue
		}
		res = append(res, t)
	}
	return res
}

func formatOf(f string) ast.Format {
	switch f {
	case "html":
		return ast.FormatHTML
	case "css":
		return ast.FormatCSS
	case "js":
		return ast.FormatJS
	case "json":
		return ast.FormatJSON
	case "md":
		return ast.FormatMarkdown
	}
	return ast.FormatText
}

var urlAttrs = map[string]bool{"href": true, "src": true, "srcset": true, "action": true, "formaction": true, "cite": true,
	"data": true, "longdesc": true, "manifest": true, "poster": true, "xmlns": true}

// structure tokenises rendered output. subAttr additionally sub-tokenises event-handler and
// style attribute values as JS / CSS (risky stream only).
func structure(format, out string, subAttr bool) []tok {
	switch format {
	case "html":
		ts := htmlTokens(out)
		if !subAttr {
			return ts
		}
		var res []tok
		name := ""
		for _, t := range ts {
			res = append(res, t)
			if t.sig == "html:attr-name" {
				name = t.val
			}
			if t.sig == "html:attr-value" {
				if strings.HasPrefix(name, "on") {
					res = append(res, jsTokens(t.val)...)
				} else if name == "style" {
					res = append(res, cssTokens(t.val)...)
				}
			}
		}
		return res
	case "js":
		return jsTokens(out)
	case "css":
		return cssTokens(out)
	case "json":
		return jsonTokens(out)
	case "md":
		return mdTokens(out)
	}
	return []tok{{sig: "text", slot: true, val: out}}
}

type built struct {
	tagSlots  []int // slots of the variables shown in Tag-context holes
	usedSlots [3]bool
	d         doc
	t         *scriggo.Template
	benign    string
	toks      []tok
	sig       string
	holes     []hook6.Hole
	sub       bool
	// structOnly: compare the token structure only (macro-matrix stream: a content of one format
	// shown in a context of another is escaped twice, so a decoded slot is not the raw value)
	structOnly bool
}

func runTemplate(t *scriggo.Template, vars map[string]any) (out string, err error) {
	defer func() {
		if r := recover(); r != nil {
			err = fmt.Errorf("host panic: %v", r)
		}
	}()
	var b bytes.Buffer
	err = t.Run(&b, vars, nil)
	return b.String(), err
}

// mdConverter: goldmark, the converter an embedder would plug in (Markdown shown in HTML)
func mdConverter(src []byte, out io.Writer) error { return md.Convert(src, out) }

func build(d doc) (*built, error) {
	files := scriggo.Files{d.fileName(): []byte(d.src)}
	for n, s := range d.extra {
		files[n] = []byte(s)
	}
	t, err := scriggo.BuildTemplate(files, d.fileName(), &scriggo.BuildOptions{Globals: globals, MarkdownConverter: mdConverter})
	if err != nil {
		return nil, err
	}
	b := &built{d: d, t: t, sub: d.risky == "attr-subcontext"}
	if b.benign, err = runTemplate(t, varsFor(benign)); err != nil {
		return nil, fmt.Errorf("benign run: %v", err)
	}
	b.toks = structure(d.format, b.benign, b.sub)
	b.sig = sigOf(b.toks)
	b.holes, _ = hook6.Holes([]byte(d.src), formatOf(d.format))
	for _, h := range b.holes {
		if h.Context == "tag" && h.Start >= 0 && h.End < len(d.src) && h.Start <= h.End {
			for _, v := range holeVarRe(d.src[h.Start : h.End+1]) {
				if sl, ok := slotOf[v]; ok {
					b.tagSlots = append(b.tagSlots, sl)
				}
			}
		}
	}
	all := d.src
	for _, x := range d.extra {
		all += x
	}
	for _, v := range holeVarRe(all) {
		if sl, ok := slotOf[v]; ok {
			b.usedSlots[sl] = true
		}
	}
	if strings.Contains(all, "M(s)") {
		b.usedSlots[0] = true
	}
	return b, nil
}

// kindOf: the token kind of a signature ("css:ident:xq7x" -> "css:ident:")
func kindOf(sig string) string {
	if i := strings.Index(sig, ":"); i >= 0 {
		if j := strings.Index(sig[i+1:], ":"); j >= 0 {
			return sig[:i+1+j+1]
		}
		if k := strings.IndexAny(sig[i+1:], "<"); k >= 0 {
			return sig[:i+1+k+1]
		}
	}
	return sig
}

// structDiff compares token structures. Where the benign marker itself sits in a non-slot token
// (a tag name `<{{ s }}>`, an identifier because the context is already wrong) that token is the
// slot and only its kind is compared.
func (b *built) structDiff(toks []tok) string {
	for i := 0; i < len(toks) || i < len(b.toks); i++ {
		var x, y string
		if i < len(b.toks) {
			x = b.toks[i].sig
		}
		if i < len(toks) {
			y = toks[i].sig
		}
		if x == y {
			continue
		}
		if i < len(b.toks) && i < len(toks) && hasMarker(x) && kindOf(x) == kindOf(y) {
			continue
		}
		return fmt.Sprintf("token %d: benign %q, with the value %q (benign has %d tokens, this run %d)", i, x, y, len(b.toks), len(toks))
	}
	return ""
}

func normNL(s string) string {
	return strings.ReplaceAll(strings.ReplaceAll(s, "\r\n", "\n"), "\r", "\n")
}

// check runs the template with val and compares with the benign run. clause "" = holds.
func (b *built) check(val vec) (clause, detail, out string) {
	out, err := runTemplate(b.t, varsFor(val))
	if err != nil {
		return "run-error", err.Error(), out
	}
	for _, sl := range b.tagSlots {
		if val[sl] == "" {
			return "", "", out // an empty attribute-name slot is no attribute at all: allowed
		}
	}
	toks := structure(b.d.format, out, b.sub)
	if d := b.structDiff(toks); d != "" {
		return "token-structure-differs", d, out
	}
	if b.structOnly {
		return "", "", out
	}
	// same structure: the decoded slot content must be the benign content with the marker replaced
	attrName := ""
	id := func(x string) string { return x }
	for i, t := range toks {
		bt := b.toks[i]
		if t.sig == "html:attr-name" {
			attrName = t.val
			if t.val != bt.val && !hasMarker(bt.val) {
				return "attribute-name-changed", fmt.Sprintf("%q -> %q", bt.val, t.val), out
			}
			continue
		}
		if !t.slot || !hasMarker(bt.val) {
			continue
		}
		var want string
		switch t.sig {
		case "html:text", "js:string":
			want = substitute(bt.val, val, id)
		case "html:attr-value":
			if urlAttrs[attrName] {
				continue
			}
			want = substitute(bt.val, val, id)
		case "json:string":
			if !utf8.ValidString(val[0]) || !utf8.ValidString(val[1]) || !utf8.ValidString(val[2]) {
				continue
			}
			want = substitute(bt.val, val, id)
		case "css:string":
			want = substitute(bt.val, val, func(x string) string { return strings.ReplaceAll(x, "\x00", "\uFFFD") })
		default:
			continue
		}
		if t.sig == "html:text" { // x/net/html turns NUL into U+FFFD in the RCDATA states only; a browser everywhere
			t.val, want = strings.ReplaceAll(t.val, "\x00", "\uFFFD"), strings.ReplaceAll(want, "\x00", "\uFFFD")
		}
		if normNL(t.val) != normNL(want) {
			return "slot-content-differs", fmt.Sprintf("%s: decoded %q, want %q", t.sig, t.val, want), out
		}
	}
	return "", "", out
}

// ---------------------------------------------------------------- shrinking and classification

type failure struct {
	b      *built
	val    vec
	clause string
	detail string
	out    string
}

// shrink minimises the value (bytes), then the document (whole parts: blocks, statements, rules —
// never single bytes, so that the shrunk document is still one the grammar generates and the
// failure cannot drift to a different construct), then the value again. The clause is kept.
func shrink(f failure) failure {
	shrinkVals := func(b *built, val vec) vec {
		for pass := 0; pass < 2; pass++ {
			for sl := 0; sl < 3; sl++ {
				if !b.usedSlots[sl] {
					val[sl] = "a"
					continue
				}
				val[sl] = string(hx.ShrinkBytes([]byte(val[sl]), func(v []byte) bool {
					cand := val
					cand[sl] = string(v)
					c, _, _ := b.check(cand)
					return c == f.clause
				}))
			}
		}
		return val
	}
	val := shrinkVals(f.b, f.val)
	if c, _, _ := f.b.check(val); c != f.clause {
		val = f.val
	}
	cur := f.b
	parts := append([]string(nil), f.b.d.parts...)
	for i := 0; i < len(parts) && len(parts) > 1; {
		cand := append(append([]string(nil), parts[:i]...), parts[i+1:]...)
		d := cur.d
		d.parts = cand
		d.src = strings.Join(cand, "")
		nb, err := build(d)
		if err == nil {
			if c, _, _ := nb.check(val); c == f.clause {
				parts, cur = cand, nb
				continue
			}
		}
		i++
	}
	if v2 := shrinkVals(cur, val); true {
		if c, _, _ := cur.check(v2); c == f.clause {
			val = v2
		}
	}
	c, det, out := cur.check(val)
	if c != f.clause {
		return f
	}
	return failure{b: cur, val: val, clause: c, detail: det, out: out}
}

// usedVals: the values of the slots that some hole of the document shows
func (f failure) usedVals() []string {
	var vs []string
	for sl, u := range f.b.usedSlots {
		if u {
			vs = append(vs, f.val[sl])
		}
	}
	return vs
}

func anyVal(vs []string, p func(string) bool) bool {
	for _, v := range vs {
		if p(v) {
			return true
		}
	}
	return false
}

// the hole whose lexer context explains the failure: with one hole left after shrinking, that one
func (f failure) holeContexts() []string {
	var cs []string
	for _, h := range f.b.holes {
		c := h.Context
		if h.InURL {
			c += "+URL"
		}
		cs = append(cs, c)
	}
	return cs
}

var holeVarRe = func(src string) []string {
	var vs []string
	for {
		i := strings.Index(src, "{{")
		if i < 0 {
			return vs
		}
		j := strings.Index(src[i:], "}}")
		if j < 0 {
			return vs
		}
		vs = append(vs, strings.TrimSpace(src[i+2:i+j]))
		src = src[i+j+2:]
	}
}

// classify maps a SHRUNK failure to the id of the known finding it is an instance of, or "".
// Each rule states the whole class; anything outside is a new violation.
func classify(f failure) string {
	src := f.b.d.src
	ctxs := f.holeContexts()
	vars := holeVarRe(src)
	only := func(ctx string) bool {
		if len(ctxs) == 0 {
			return false
		}
		for _, c := range ctxs {
			if c != ctx {
				return false
			}
		}
		return true
	}
	switch {
	case strings.Contains(src, "{{ render ") || strings.Contains(src, "{{render "):
		// {{ render "f" }} of a file whose format differs from the context is written raw
		for n := range f.b.d.extra {
			if strings.Contains(src, `"`+n+`"`) && !strings.HasSuffix(n, "."+f.b.d.format) {
				return "render-fastpath-format"
			}
		}
		return ""
	case len(vars) > 0 && allEqual(vars, "bs") && only("HTML"):
		return "bytes-raw-in-html"
	case only("tag"):
		// the Tag context does not replace U+0020 (nor `<`): the value adds attributes
		if anyVal(f.usedVals(), func(v string) bool { return strings.ContainsAny(v, " <") }) {
			return "tag-context-space"
		}
		return ""
	case jsHTMLLikeCommentWithDelimiter(f.b.d):
		return "js-html-like-comment"
	case cssCommentHasQuote(src):
		return "css-comment-quote"
	case strings.Contains(src, "</script/") || strings.Contains(src, "</script\f") || strings.Contains(src, "</style/") || strings.Contains(src, "</style\f"):
		return "script-end-tag-slash"
	case strings.Contains(src, "<!--") && commentHasMarkup(src):
		return "html-comment-desync"
	case strings.Contains(src, "`") && (f.b.d.format == "js" || inScript(src, "`")):
		// (a standalone .js file is in the lexer's JS context from its first byte)
		return "js-template-literal"
	case scriptHasRegexWithQuote(src, f.b.d.format == "js"):
		return "js-regex-literal-quote"
	case holeInJSBlockComment(src) && anyVal(f.usedVals(), func(v string) bool { return strings.Contains(v, "*/") }):
		return "js-block-comment-breakout"
	case adjacentHoles.MatchString(src) && formsLineSeparator(f.usedVals()):
		return "js-string-split-line-separator"
	case (only("unquoted attribute") || only("unquoted attribute+URL")) && anyVal(f.usedVals(), func(v string) bool { return v == "" }) && f.b.d.format == "html":
		return "unquoted-attr-empty-value"
	case f.b.sub && (only("quoted attribute") || only("unquoted attribute")) && attrIsEventOrStyle(src):
		return "attr-js-css-not-contextual"
	}
	return ""
}

// scriptTexts: the JavaScript of a document with its holes replaced by 0 — the content of the first
// script element of a page (to its end tag, or to the end if shrinking removed it), or a whole .js file
func scriptTexts(d doc) []string {
	body := d.src
	switch d.format {
	case "js":
	case "html":
		// the text of the first JavaScript script element, as x/net/html delimits it
		body = ""
		z := html.NewTokenizer(strings.NewReader(d.src))
		in, found := false, false
	scan:
		for {
			switch z.Next() {
			case html.ErrorToken:
				break scan
			case html.StartTagToken:
				t := z.Token()
				if t.Data == "script" && scriptKind(t.Attr) == "js" {
					in, found = true, true
				}
			case html.TextToken:
				if in {
					body += string(z.Raw())
				}
			case html.EndTagToken:
				if in {
					break scan
				}
			}
		}
		if !found {
			return nil
		}
	default:
		return nil
	}
	for {
		a := strings.Index(body, "{{")
		if a < 0 {
			break
		}
		b := strings.Index(body[a:], "}}")
		if b < 0 {
			break
		}
		body = body[:a] + "\x00" + body[a+b+2:]
	}
	return []string{body}
}

// the reference tokenizer reads an HTML-like comment (`<!--`, or `-->` at the start of a line:
// ECMAScript Annex B.1.1) whose text holds a quote, a backtick or a comment opener: for the lexer
// that text is code (finding js-html-like-comment)
func jsHTMLLikeCommentWithDelimiter(d doc) bool {
	for _, body := range scriptTexts(d) {
		for _, t := range jsTokens(strings.ReplaceAll(body, "\x00", "0")) {
			if (t.sig == "js:html-open-comment" || t.sig == "js:html-close-comment") &&
				(strings.ContainsAny(t.val, "\"'`") || strings.Contains(t.val, "/*") || strings.Contains(t.val, "//")) {
				return true
			}
		}
	}
	return false
}

// the value contains no U+2028 / U+2029 but two copies of it side by side do (it ends with a
// truncated E2 / E2 80 and starts with the missing continuation bytes)
// two holes with nothing between them in the OUTPUT: adjacent in the source, or separated only by
// statements / comments that write nothing (the generator's `{% if false %}zz{% end %}` included)
var adjacentHoles = regexp.MustCompile(`\}\}(\{%[^%]*%\}|\{#[^#]*#\}|zz)*\{\{`)

func formsLineSeparator(vs []string) bool {
	has := func(s string) bool { return strings.Contains(s, "\u2028") || strings.Contains(s, "\u2029") }
	for _, v := range vs {
		if has(v) {
			return false
		}
	}
	for _, v := range vs {
		for _, w := range vs {
			if has(v + w) {
				return true
			}
		}
	}
	return false
}

// describe prints a value assignment with the variables built from each slot
func describe(v vec, used [3]bool) string {
	names := [3]string{"s, ls, ps, bs", "ns, er, arr, pp", "st, any, ms"}
	var parts []string
	for i := range v {
		if used[i] {
			parts = append(parts, fmt.Sprintf("%s = %q", names[i], v[i]))
		}
	}
	return strings.Join(parts, ";  ")
}

func allEqual(ss []string, want string) bool {
	for _, s := range ss {
		if s != want {
			return false
		}
	}
	return true
}

// an HTML comment in the template text contains `<`: the lexer, which has no comment state,
// starts a tag there
func commentHasMarkup(src string) bool {
	i := strings.Index(src, "<!--")
	if i < 0 {
		return false
	}
	rest := src[i+4:]
	if j := strings.Index(rest, "-->"); j >= 0 {
		rest = rest[:j]
	}
	return strings.Contains(rest, "<")
}

// a CSS comment inside a style element contains a quote character
func cssCommentHasQuote(src string) bool {
	i := strings.Index(strings.ToLower(src), "<style")
	if i < 0 {
		return false
	}
	rest := src[i:]
	a := strings.Index(rest, "/*")
	if a < 0 {
		return false
	}
	b := strings.Index(rest[a+2:], "*/")
	if b < 0 {
		return false
	}
	return strings.ContainsAny(rest[a+2:a+2+b], `"'`)
}

func inScript(src, what string) bool {
	i := strings.Index(strings.ToLower(src), "<script")
	return i >= 0 && strings.Contains(src[i:], what)
}

// the script text of the template (holes replaced by 0) contains a regular-expression literal
// with a quote character in it
func scriptHasRegexWithQuote(src string, jsFile bool) bool {
	body := src // a standalone .js file: all of it
	if !jsFile {
		low := strings.ToLower(src)
		i := strings.Index(low, "<script")
		if i < 0 {
			return false
		}
		j := strings.Index(src[i:], ">")
		if j < 0 {
			return false
		}
		body = src[i+j+1:]
		if k := strings.Index(strings.ToLower(body), "</script"); k >= 0 {
			body = body[:k]
		}
	}
	for {
		a := strings.Index(body, "{{")
		if a < 0 {
			break
		}
		b := strings.Index(body[a:], "}}")
		if b < 0 {
			break
		}
		body = body[:a] + "0" + body[a+b+2:]
	}
	for _, t := range jsTokens(body) {
		if t.sig == "js:regex" && (strings.ContainsAny(t.val, `"'`) || strings.HasSuffix(t.val, "/") || strings.HasSuffix(t.val, `\/`) || strings.Contains(t.val, "/*") || strings.HasPrefix(t.val, "*")) {
			// a quote, or a `//` / `/*` formed with or inside the literal's delimiters
			return true
		}
	}
	return false
}

// a hole between `/*` and `*/` in JavaScript code (context JS: the value is written as a quoted
// literal in which `*/` is not escaped)
func holeInJSBlockComment(src string) bool {
	i := strings.Index(src, "/*")
	if i < 0 {
		return false
	}
	rest := src[i+2:]
	j := strings.Index(rest, "*/")
	if j < 0 {
		return false
	}
	return strings.Contains(rest[:j], "{{")
}

// the (first) hole of the template sits in the value of an on* or style attribute
func attrIsEventOrStyle(src string) bool {
	hole := strings.Index(src, "{{")
	if hole < 0 {
		return false
	}
	lt := strings.LastIndex(src[:hole], "<")
	if lt < 0 {
		return false
	}
	i := lt + 1
	for i < hole && !strings.ContainsRune(" \t\n/>", rune(src[i])) { // tag name
		i++
	}
	for i < hole {
		for i < hole && strings.ContainsRune(" \t\n/", rune(src[i])) {
			i++
		}
		st := i
		for i < hole && !strings.ContainsRune(" \t\n=>", rune(src[i])) {
			i++
		}
		name := strings.ToLower(src[st:i])
		for i < hole && (src[i] == ' ' || src[i] == '\t' || src[i] == '\n') {
			i++
		}
		if i >= hole || src[i] != '=' {
			continue
		}
		i++
		for i < hole && (src[i] == ' ' || src[i] == '\t' || src[i] == '\n') {
			i++
		}
		if i >= hole {
			return strings.HasPrefix(name, "on") || name == "style"
		}
		if q := src[i]; q == '"' || q == '\'' {
			j := strings.IndexByte(src[i+1:], q)
			if j < 0 || i+1+j >= hole {
				return strings.HasPrefix(name, "on") || name == "style"
			}
			i += j + 2
		} else {
			for i < hole && !strings.ContainsRune(" \t\n>", rune(src[i])) {
				i++
			}
			if i >= hole {
				return strings.HasPrefix(name, "on") || name == "style"
			}
		}
	}
	return false
}

// ---------------------------------------------------------------- known findings (replayed first)

type knownCase struct {
	id    string
	d     doc
	val   string
	human string
}

func knownCases() []knownCase {
	h := func(src string) doc {
		return doc{format: "html", src: src, parts: []string{src}, extra: map[string]string{}}
	}
	kc := []knownCase{
		{id: "js-regex-literal-quote", d: h(`<script>var r = /"/; var x = {{ s }};</script>`), val: "alert(1)"},
		{id: "js-template-literal", d: h("<script>var x = `{{ s }}`;</script>"), val: "`+alert(1)+`"},
		{id: "html-comment-desync", d: h(`<!-- <script> --><a title="{{ s }}">`), val: `" onclick="alert(1)`},
		{id: "tag-context-space", d: h(`<div {{ s }}>`), val: "a onclick"},
		{id: "bytes-raw-in-html", d: h(`<p>{{ bs }}</p>`), val: "<b>"},
		{id: "unquoted-attr-empty-value", d: h(`<input value={{ s }} disabled>`), val: ""},
		{id: "attr-js-css-not-contextual", d: func() doc { d := h(`<a onclick="go({{ s }})">`); d.risky = "attr-subcontext"; return d }(), val: "alert(1)"},
	}
	kc = append(kc,
		knownCase{id: "js-string-split-line-separator", d: h(`<script>var b = "{{ s }}{{ s }}";</script>`), val: "\xa8\xe2\x80"},
		knownCase{id: "css-comment-quote", d: h(`<style>/* it's */ a { color: {{ s }} }</style>`), val: "a b"},
		knownCase{id: "script-end-tag-slash", d: h(`<script>var x = 1;</script/><a title="{{ s }}">`), val: `" onclick="alert(1)`},
		knownCase{id: "js-block-comment-breakout", d: h(`<script>/* {{ s }} */</script>`), val: "*/alert(1)/*"})
	kc = append(kc,
		knownCase{id: "js-html-like-comment", d: h("<script>x <!-- it's\n var name = {{ s }};</script>"), val: "alert(1)"})
	r := h(`<p>{{ render "x.txt" }}</p>`)
	r.extra["x.txt"] = "{{ s }}"
	kc = append(kc, knownCase{id: "render-fastpath-format", d: r, val: "<b>"})
	for i := range kc {
		kc[i].human = fmt.Sprintf("%svalue (s, bs, …) = %q", kc[i].d.human(), kc[i].val)
	}
	return kc
}

// curedCases: the recorded minimal cases of findings that have been repaired in the library (second fix
// series). They are replayed on every run like the open ones, but with no finding behind them: if one
// fails again the check reports a VIOLATION.
func curedCases() []knownCase {
	h := func(src string) doc {
		return doc{format: "html", src: src, parts: []string{src}, extra: map[string]string{}}
	}
	kc := []knownCase{
		{id: "string-escaped-backslash-desync", d: h(`<script>var p = "C:\\"; var x = {{ s }};</script>`), val: "alert(1)"},
		{id: "string-escaped-backslash-desync", d: h(`<style>a::before { content: "\\"; } b { color: {{ s }}; }</style>`), val: "red;} body{display:none"},
		{id: "string-escaped-backslash-desync", d: h(`<script type="application/ld+json">{"p": "C:\\", "x": {{ s }}}</script>`), val: "alert(1)"},
		{id: "js-line-comment-ls-ps", d: h("<script>// a\u2028 var str = \"{{ s }}\";</script>"), val: "a a"},
		{id: "js-line-comment-ls-ps", d: h("<script>// a\u2029 var str = \"{{ s }}\";</script>"), val: "a a"},
		{id: "typed-macro-context-after-raw", d: h(`{% macro M(v string) js %}{% raw %} {% end %}f({{ v }}, "x{{ v }}"){% end %}<script>var a = {{ M(s) }};</script>`), val: "alert(1)"},
		{id: "typed-macro-context-after-raw", d: h(`{% macro M(v string) css %}{% raw %} {% end %}a{color:{{ v }}}{% end %}<style>{{ M(s) }}</style>`), val: "red;} body{display:none"},
	}
	for i := range kc {
		kc[i].human = fmt.Sprintf("%svalue (s, bs, …) = %q", kc[i].d.human(), kc[i].val)
	}
	return kc
}

// ---------------------------------------------------------------- run

func run(c *hx.Ctx) error {
	res := c.Res
	res.Rule = "a case is one (template document, value assignment) pair rendered by the real engine and compared, token structure and decoded slot content, with the rendering of the same document for the benign markers; documents come from a grammar over HTML (text, RCDATA, raw text, comments, quoted/unquoted/URL/srcset/event/style attributes with one or SEVERAL holes — adjacent, separated by a short literal, or separated only by statements that write nothing —, script and style elements with type variants) and standalone JS, CSS, JSON and Markdown files with holes of 15 variable types at every slot; a value assignment gives the variables of one document three independent values (slots): the same value everywhere, or a state-establishing value (`?`, `#`, `,`, trailing `&`, open character reference, truncated UTF-8, pending escape) in one slot and breakers in the others, each drawn from a 230-entry context-breaking dictionary, fragment concatenations, random Unicode and random bytes. Non-trivial = some value contains a byte outside [A-Za-z0-9]; distinct by (document, assignment). MACRO-MATRIX stream (macro.go), enumerated completely on every run: 16 contents of the six result formats (string, html, css, js, json, markdown) x 9 constructs standing before the content in a macro body (none, raw, raw with marker, if, if-else, for, switch, comment, raw inside if) x {macro declared locally with an explicit result type, macro imported from a file of that format, file rendered with render} x 25 showing contexts of html / css / js / json / md / txt pages; a case is one (matrix point, value) with the page built twice, the content shown as `{{ X }}` (the emitter's fast path where it takes it) and as `{% var r = X %}{{ r }}` (renderer.Show): both forms must print the same bytes and both must have the token structure of the rendering with the benign marker; values per point: the benign marker, two context-breaking strings for each format that meets at the point (page, content, context) and dictionary draws; values of Markdown-involved points are valid UTF-8 without U+FFFD, TAB, CR, LF, FF, VT; render x URL contexts excluded (C16/render-inherits-inurl)"

	if err := specValidation(c); err != nil {
		return err
	}
	used := map[string]bool{}

	report := func(f failure, stream string) {
		sf := shrink(f)
		id := classify(sf)
		human := fmt.Sprintf("%sshown values: %s\nbenign output:  %s\noutput:         %s\n%s\nlexer contexts of the holes: %v\n[before shrinking: values %s in]\n%s",
			sf.b.d.human(), describe(sf.val, sf.b.usedSlots), sf.b.benign, sf.out, sf.detail, sf.holeContexts(), describe(f.val, f.b.usedSlots), f.b.d.human())
		br := proto.Break{Kind: "property", Name: sf.clause + " (" + stream + " stream)", Case: fmt.Sprintf("C06 doc %s %s values %s %s %s", sf.b.d.format, proto.Hex([]byte(sf.b.d.src)), proto.Hex([]byte(sf.val[0])), proto.Hex([]byte(sf.val[1])), proto.Hex([]byte(sf.val[2]))),
			Human: human, Impl: sf.out, Model: sf.b.benign}
		if id != "" {
			br.Finding = c.Known(id)
			if br.Finding == "" {
				br.Name += " [class " + id + " — not listed in known_findings.json]"
			}
		}
		if os.Getenv("VERIF_C06_DEBUG") != "" {
			fmt.Fprintf(os.Stderr, "FAILING [%s] class=%q %q values %s\n", stream, id, sf.b.d.src, describe(sf.val, sf.b.usedSlots))
		}
		res.AddBreak(br)
	}

	// 1. known findings: replay each recorded minimal case on the real engine
	for _, k := range knownCases() {
		if !c.HasFinding(k.id) {
			continue
		}
		b, err := build(k.d)
		if err != nil {
			res.Notes = append(res.Notes, "known finding "+k.id+": template no longer builds: "+err.Error())
			continue
		}
		clause, detail, out := b.check(same(k.val))
		res.Count("known:"+k.id, true)
		if clause == "" {
			res.Notes = append(res.Notes, "known finding "+k.id+" no longer reproduces")
			continue
		}
		f := failure{b: b, val: same(k.val), clause: clause, detail: detail, out: out}
		if got := classify(f); got != k.id {
			return fmt.Errorf("classifier maps the recorded case of %s to %q", k.id, got)
		}
		res.AddBreak(proto.Break{Kind: "property", Name: clause + " (recorded minimal case)", Case: "C06 known " + k.id,
			Human: k.human + "\nbenign output: " + b.benign + "\noutput:        " + out + "\n" + detail, Impl: out, Model: b.benign, Finding: k.id})
	}

	// 1b. repaired findings: their minimal cases must not fail any more
	for _, k := range curedCases() {
		b, err := build(k.d)
		if err != nil {
			return fmt.Errorf("minimal case of the repaired finding %s does not build: %v", k.id, err)
		}
		clause, detail, out := b.check(same(k.val))
		res.Count("cured:"+k.id+":"+k.d.src, true)
		if clause != "" {
			res.AddBreak(proto.Break{Kind: "property", Name: clause + " (minimal case of the repaired finding " + k.id + ")",
				Case:  fmt.Sprintf("C06 doc %s %s values %s %s %s", k.d.format, proto.Hex([]byte(k.d.src)), proto.Hex([]byte(k.val)), proto.Hex([]byte(k.val)), proto.Hex([]byte(k.val))),
				Human: k.human + "\nbenign output: " + b.benign + "\noutput:        " + out + "\n" + detail, Impl: out, Model: b.benign})
		}
	}

	// 2. the two streams
	g := &gen{r: c.R}
	nDocs := c.N(6000, 60000)
	nVals := c.N(9, 14)
	built6, buildErr := 0, 0
	var l2docs []*built
	// process builds one document, records it, and checks it with nVals value assignments
	process := func(d doc, stream string, sample bool) {
		b, err := build(d)
		if err != nil {
			buildErr++
			res.Hist("build-error:" + stream)
			if buildErr <= 3 {
				res.Notes = append(res.Notes, "generator produced a document that does not build: "+err.Error()+"\n"+d.human())
			}
			return
		}
		built6++
		if len(l2docs) < 4000 || stream == "delimiters" {
			l2docs = append(l2docs, b)
		}
		for _, f := range d.feats {
			res.Hist("feature:" + f)
		}
		for _, h := range b.holes {
			k := "hole-context:" + h.Context
			if h.InURL {
				k += "+URL"
			}
			res.Hist(k)
		}
		if sample {
			res.Sample(map[string]any{"stream": stream, "file": d.fileName(), "template": d.src, "benign_output": b.benign})
		}
		reported := false
		for j := 0; j < nVals; j++ {
			val := randVec(c.R)
			joined := val[0] + "\x00" + val[1] + "\x00" + val[2]
			if d.format == "md" && strings.ContainsAny(joined, "\t\r\n\f\v") {
				continue // line structure of Markdown values is property C26
			}
			if val[0] == val[1] && val[1] == val[2] {
				res.Hist("values:same-in-every-slot")
			} else {
				res.Hist("values:different-per-variable")
			}
			used[val[0]], used[val[1]], used[val[2]] = true, true, true
			nontrivial := strings.IndexFunc(strings.ReplaceAll(joined, "\x00", ""), func(r rune) bool {
				return !('a' <= r && r <= 'z' || 'A' <= r && r <= 'Z' || '0' <= r && r <= '9')
			}) >= 0
			res.Count(d.src+"\x00"+joined, nontrivial)
			clause, detail, out := b.check(val)
			if clause == "run-error" {
				res.Hist("run-error")
				if res.Histogram["run-error"] <= 3 {
					res.Notes = append(res.Notes, "run error (outside this property): "+detail+"\n"+d.human())
				}
				continue
			}
			if clause != "" {
				res.Hist("failing:" + stream)
				if !reported { // one report per document is enough; shrinking is the expensive part
					reported = true
					report(failure{b: b, val: val, clause: clause, detail: detail, out: out}, stream)
				}
			}
		}
	}
	for i := 0; i < nDocs; i++ {
		if i%8 == 7 {
			process(g.riskyDoc(), "risky", i%100 == 0)
		} else {
			process(g.mainDoc(), "main", i%100 == 0)
		}
	}
	// 2b. adversarial comment / string delimiters (delims.go): the whole family, then random pairs
	for i, d := range g.delimiterDocs(c.N(400, 4000)) {
		nDocs++
		process(d, "delimiters", i%50 == 0)
	}
	res.Histogram["documents-built"] = built6
	if built6 < nDocs*9/10 {
		return fmt.Errorf("only %d of %d generated documents build — generator is broken\n%s", built6, nDocs, strings.Join(res.Notes, "\n"))
	}

	// 3. layer 2: reference tokenizer vs x/net/html, projected context machine vs the real lexer
	if err := layer2Validation(c, l2docs); err != nil {
		return err
	}

	// 4. correspondence of the escapers on the values used
	if err := correspondence(c, used); err != nil {
		return err
	}

	// 5. the typed-macro-result x showing-context matrix (macro.go); last, so that the draws of the
	// streams above do not depend on it
	if err := specFastPath(c); err != nil {
		return err
	}
	macroMatrix(c)
	return nil
}

// ---------------------------------------------------------------- correspondence and spec validation

func correspondence(c *hx.Ctx, used map[string]bool) error {
	if c.D == nil {
		c.Res.Notes = append(c.Res.Notes, "driver not built: escaper correspondence skipped")
		return nil
	}
	var vals []string
	for v := range used {
		vals = append(vals, v)
	}
	sort.Strings(vals)
	type esc struct {
		op, which string
		ee, q     bool
	}
	escs := []esc{{"html", "html", false, false}, {"attr11", "attr", true, true}, {"attr10", "attr", true, false}, {"attr01", "attr", false, true},
		{"attr00", "attr", false, false}, {"js", "js", false, false}, {"css", "css", false, false}, {"path0", "path", false, false}, {"path1", "path", false, true}, {"query", "query", false, false}}
	var lines []string
	for _, v := range vals {
		for _, e := range escs {
			lines = append(lines, "C06 esc "+e.op+" "+proto.Hex([]byte(v)))
		}
	}
	model, err := c.D.Batch(lines)
	if err != nil {
		return err
	}
	k := 0
	for _, v := range vals {
		for _, e := range escs {
			chunks, _, err := hook7.Escape(e.which, v, e.ee, e.q)
			impl := "ok " + proto.Hex([]byte(strings.Join(chunks, "")))
			if err != nil {
				impl = "err " + err.Error()
			}
			c.Res.Hist("correspondence:escaper-output")
			// the model answer is `ok <out> <confined flags>`; the flags are the theorems' claims evaluated
			m := model[k]
			fields := strings.Fields(m)
			if len(fields) < 2 || fields[0]+" "+fields[1] != impl {
				c.Res.AddBreak(proto.Break{Kind: "correspondence", Name: "escaper-" + e.op + "-vs-Model.Escape", Case: lines[k],
					Human: fmt.Sprintf("%s(%q)", e.op, v), Impl: impl, Model: m})
			} else if len(fields) >= 3 && strings.Contains(fields[2], "0") && !(v == "" && (e.op == "attr10" || e.op == "attr00" || e.op == "path0")) {
				c.Res.AddBreak(proto.Break{Kind: "correspondence", Name: "model-output-not-confined-" + e.op, Case: lines[k],
					Human: fmt.Sprintf("%s(%q): the Lean slot scanners reject the model's own output (a Layer-1 theorem would be false)", e.op, v), Impl: impl, Model: m})
			}
			k++
		}
	}
	return nil
}

// htmlLevel: the HTML-level tokens only (script content not sub-tokenised)
func htmlLevel(doc string) string {
	var b strings.Builder
	for _, t := range htmlTokens(doc) {
		if strings.HasPrefix(t.sig, "html:") {
			b.WriteString(t.sig + "\n")
		}
	}
	return b.String()
}

// specValidation: "confined" according to Spec/Slots.lean implies that the reference tokenizer of
// the enclosing language sees the same structure as for a benign content.
func specValidation(c *hx.Ctx) error {
	if c.D == nil {
		return nil
	}
	type probe struct {
		which  string
		render func(s string) string
		format string
	}
	probes := []probe{
		{"data", func(s string) string { return "<p>" + s + "</p><i>" }, "html"},
		{"dq", func(s string) string { return `<p a="` + s + `" b=c><i>` }, "html"},
		{"sq", func(s string) string { return `<p a='` + s + `' b=c><i>` }, "html"},
		{"unq", func(s string) string { return `<p a=` + s + ` b=c><i>` }, "html"},
		{"name", func(s string) string { return `<p ` + s + ` b=c><i>` }, "html"},
		{"raw", func(s string) string { return `<script>"` + s + `"</script><i>` }, "html-rawonly"},
		{"jsdq", func(s string) string { return `a = "` + s + `"; b` }, "js"},
		{"jssq", func(s string) string { return `a = '` + s + `'; b` }, "js"},
		{"json", func(s string) string { return `["` + s + `", 1]` }, "json"},
		{"cssdq", func(s string) string { return `a { b: "` + s + `"; c: d }` }, "css"},
		{"csssq", func(s string) string { return `a { b: '` + s + `'; c: d }` }, "css"},
	}
	n := c.N(2500, 20000)
	var vals []string
	for i := 0; i < n; i++ {
		v := randValue(c.R)
		if i%3 == 0 {
			// escaped forms, so that "confined" is not rare
			ch, _, _ := hook7.Escape([]string{"html", "js", "css", "attr"}[i%4], v, true, i%2 == 0)
			v = strings.Join(ch, "")
		}
		vals = append(vals, v)
	}
	var lines []string
	for _, v := range vals {
		for _, p := range probes {
			lines = append(lines, "C06 scan "+p.which+" "+proto.Hex([]byte(v)))
		}
	}
	ans, err := c.D.Batch(lines)
	if err != nil {
		return err
	}
	jsLenientEscapes = true
	defer func() { jsLenientEscapes = false }()
	k := 0
	for _, v := range vals {
		for _, p := range probes {
			a := ans[k]
			k++
			if a != "ok 1" {
				if a != "ok 0" {
					return fmt.Errorf("driver: %q -> %q", lines[k-1], a)
				}
				c.Res.SpecChecks["slot-scanner-says-not-confined"]++
				continue
			}
			if p.which == "json" && !utf8.ValidString(v) {
				continue
			}
			var same bool
			if p.format == "html-rawonly" {
				same = htmlLevel(p.render(v)) == htmlLevel(p.render("x"))
			} else {
				same = sigOf(structure(p.format, p.render(v), false)) == sigOf(structure(p.format, p.render("x"), false))
			}
			c.Res.SpecChecks["confined-implies-same-structure:"+p.which]++
			if !same {
				c.Res.AddBreak(proto.Break{Kind: "correspondence", Name: "spec-validation-" + p.which, Case: lines[k-1],
					Human: fmt.Sprintf("Spec/Slots says %q is confined in slot %s, the reference tokenizer sees a different structure for %q", v, p.which, p.render(v)),
					Impl:  "different structure", Model: a})
			}
		}
	}
	return nil
}
