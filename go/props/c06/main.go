package main

import (
	"fmt"
	"strings"

	"golang.org/x/net/html"
)

func main() {
	z := html.NewTokenizer(strings.NewReader("<p a=b>x</p>"))
	for z.Next() != html.ErrorToken {
		fmt.Println(z.Token())
	}
}
