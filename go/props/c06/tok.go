package main

// Reference tokenizers of the enclosing languages used by the C06 oracle. HTML is
// golang.org/x/net/html's tokenizer; JSON is encoding/json; Markdown is goldmark. JavaScript and
// CSS are small byte-level lexers written here from ECMAScript §12 and CSS Syntax Level 3 §4 — only
// the token STRUCTURE matters (kinds, and the text of identifiers / punctuators), not values.

import (
	"bytes"
	"encoding/json"
	"fmt"
	"io"
	"strings"

	html "verifharness/internal/xnethtml"
)

// tok is one token of a structure signature. slot tokens (text, attribute values, strings,
// numbers, comments …) compare by kind only; their content is kept for the decode check.
type tok struct {
	sig  string // compared exactly
	slot bool   // val is slot content (not compared structurally)
	val  string // decoded content for slot tokens
}

func sigOf(ts []tok) string {
	var b strings.Builder
	for _, t := range ts {
		b.WriteString(t.sig)
		b.WriteByte('\n')
	}
	return b.String()
}

// ---------------------------------------------------------------- JavaScript

var jsPuncts = []string{
	">>>=", "...", "===", "!==", "**=", "<<=", ">>=", ">>>", "&&=", "||=", "??=",
	"=>", "==", "!=", "<=", ">=", "&&", "||", "??", "?.", "++", "--", "+=", "-=", "*=", "/=", "%=",
	"&=", "|=", "^=", "<<", ">>", "**",
	"{", "}", "(", ")", "[", "]", ";", ",", "<", ">", "+", "-", "*", "/", "%", "&", "|", "^", "!", "~",
	"?", ":", "=", ".", "@", "#",
}

func jsIdentStart(c byte) bool {
	return c == '$' || c == '_' || c >= 0x80 || 'a' <= c && c <= 'z' || 'A' <= c && c <= 'Z' || c == '\\'
}
func jsIdentPart(c byte) bool { return jsIdentStart(c) || '0' <= c && c <= '9' }

func isHexByte(c byte) bool {
	return '0' <= c && c <= '9' || 'a' <= c && c <= 'f' || 'A' <= c && c <= 'F'
}

func hexVal(c byte) int {
	switch {
	case '0' <= c && c <= '9':
		return int(c - '0')
	case 'a' <= c && c <= 'f':
		return int(c-'a') + 10
	default:
		return int(c-'A') + 10
	}
}

// jsString scans a string literal body starting after the opening quote q; it returns the
// decoded value, the index after the closing quote, and ok=false for an unterminated literal.
// jsLenientEscapes: a malformed `\x` / `\u` escape is the character itself instead of ending the
// literal as invalid. Set only while validating Spec/Slots' string scanner, which models where
// the literal ends, not which escapes are well-formed; the oracle proper is strict.
var jsLenientEscapes = false

// jsHTMLLikeComments: `<!--` and (at the start of a line) `-->` begin a single-line comment (Annex
// B.1.1; what a browser does in a classic script)
var jsHTMLLikeComments = true

func jsString(s string, i int, q byte) (val string, end int, ok bool) {
	var b []byte
	for i < len(s) {
		c := s[i]
		switch {
		case c == q:
			return string(b), i + 1, true
		case c == '\n' || c == '\r':
			return string(b), i, false
		case strings.HasPrefix(s[i:], "\u2028") || strings.HasPrefix(s[i:], "\u2029"):
			return string(b), i, false // pre-ES2019 reading: a line terminator ends the literal
		case c == '\\':
			i++
			if i >= len(s) {
				return string(b), i, false
			}
			e := s[i]
			i++
			switch e {
			case 'n':
				b = append(b, '\n')
			case 'r':
				b = append(b, '\r')
			case 't':
				b = append(b, '\t')
			case 'b':
				b = append(b, '\b')
			case 'f':
				b = append(b, '\f')
			case 'v':
				b = append(b, '\v')
			case '0':
				b = append(b, 0)
			case '\r':
				if i < len(s) && s[i] == '\n' {
					i++
				}
			case '\n':
			case 'x':
				if i+1 < len(s) && isHexByte(s[i]) && isHexByte(s[i+1]) {
					b = append(b, string(rune(hexVal(s[i])*16+hexVal(s[i+1])))...)
					i += 2
				} else if jsLenientEscapes {
					b = append(b, e)
				} else {
					return string(b), i, false
				}
			case 'u':
				if i+3 < len(s) && isHexByte(s[i]) && isHexByte(s[i+1]) && isHexByte(s[i+2]) && isHexByte(s[i+3]) {
					r := hexVal(s[i])<<12 | hexVal(s[i+1])<<8 | hexVal(s[i+2])<<4 | hexVal(s[i+3])
					b = append(b, string(rune(r))...)
					i += 4
				} else if jsLenientEscapes {
					b = append(b, e)
				} else {
					return string(b), i, false
				}
			default:
				b = append(b, e)
			}
		default:
			b = append(b, c)
			i++
		}
	}
	return string(b), i, false
}

// jsTokens lexes JavaScript source. html=true applies the restrictions of an inline script (the
// caller has already cut the element at `</script`).
func jsTokens(s string) []tok {
	var out []tok
	regexAllowed := true // whether a `/` here starts a regular-expression literal
	var braces []int     // template-literal nesting: brace depth at each `${`
	depth := 0
	i := 0
	// lineStart: only white space and comments since the last line terminator (or the start): a
	// `-->` here is a SingleLineHTMLCloseComment (ECMAScript Annex B.1.1, scripts that are not modules)
	lineStart := true
	add := func(t tok, reAfter bool) {
		out = append(out, t)
		regexAllowed = reAfter
		lineStart = false
	}
	lineEnd := func(j int) int {
		for j < len(s) && s[j] != '\n' && s[j] != '\r' && !strings.HasPrefix(s[j:], "\u2028") && !strings.HasPrefix(s[j:], "\u2029") {
			j++
		}
		return j
	}
	// scans template characters from i (after a backtick or a closing `}`)
	template := func() {
		var b []byte
		for i < len(s) {
			c := s[i]
			if c == '`' {
				i++
				add(tok{sig: "js:tmpl-end", slot: true, val: string(b)}, false)
				return
			}
			if c == '$' && i+1 < len(s) && s[i+1] == '{' {
				i += 2
				braces = append(braces, depth)
				depth++
				add(tok{sig: "js:tmpl-${", slot: true, val: string(b)}, true)
				return
			}
			if c == '\\' && i+1 < len(s) {
				b = append(b, s[i+1])
				i += 2
				continue
			}
			b = append(b, c)
			i++
		}
		add(tok{sig: "js:tmpl-UNTERMINATED", slot: true, val: string(b)}, false)
	}
	for i < len(s) {
		c := s[i]
		switch {
		case c == '\n' || c == '\r':
			lineStart = true
			i++
		case c == ' ' || c == '\t' || c == '\f' || c == '\v':
			i++
		case strings.HasPrefix(s[i:], "\u2028") || strings.HasPrefix(s[i:], "\u2029"):
			lineStart = true
			i += 3
		case strings.HasPrefix(s[i:], "\ufeff"):
			i += 3
		case strings.HasPrefix(s[i:], "//"):
			j := lineEnd(i)
			out = append(out, tok{sig: "js:line-comment", slot: true, val: s[i+2 : j]})
			i = j
		case jsHTMLLikeComments && strings.HasPrefix(s[i:], "<!--"):
			j := lineEnd(i)
			out = append(out, tok{sig: "js:html-open-comment", slot: true, val: s[i+4 : j]})
			i = j
		case jsHTMLLikeComments && lineStart && strings.HasPrefix(s[i:], "-->"):
			j := lineEnd(i)
			out = append(out, tok{sig: "js:html-close-comment", slot: true, val: s[i+3 : j]})
			i = j
		case strings.HasPrefix(s[i:], "/*"):
			j := strings.Index(s[i+2:], "*/")
			if j < 0 {
				out = append(out, tok{sig: "js:block-comment-UNTERMINATED", slot: true, val: s[i+2:]})
				i = len(s)
			} else {
				body := s[i+2 : i+2+j]
				if strings.ContainsAny(body, "\n\r") || strings.Contains(body, "\u2028") || strings.Contains(body, "\u2029") {
					lineStart = true // a multi-line comment counts as a line terminator
				}
				out = append(out, tok{sig: "js:block-comment", slot: true, val: body})
				i += j + 4
			}
		case c == '"' || c == '\'':
			v, end, ok := jsString(s, i+1, c)
			if ok {
				add(tok{sig: "js:string", slot: true, val: v}, false)
			} else {
				add(tok{sig: "js:string-UNTERMINATED", slot: true, val: v}, false)
			}
			i = end
		case c == '`':
			i++
			template()
		case c == '}' && len(braces) > 0 && braces[len(braces)-1] == depth-1:
			braces = braces[:len(braces)-1]
			depth--
			i++
			template()
		case '0' <= c && c <= '9' || c == '.' && i+1 < len(s) && '0' <= s[i+1] && s[i+1] <= '9':
			j := i
			for j < len(s) && (jsIdentPart(s[j]) && s[j] != '\\' && s[j] < 0x80 || s[j] == '.' ||
				(s[j] == '+' || s[j] == '-') && (s[j-1] == 'e' || s[j-1] == 'E') && !(j > i+1 && s[i] == '0' && (s[i+1] == 'x' || s[i+1] == 'X'))) {
				j++
			}
			add(tok{sig: "js:number", slot: true, val: s[i:j]}, false)
			i = j
		case jsIdentStart(c):
			j := i
			for j < len(s) && jsIdentPart(s[j]) {
				j++
			}
			w := s[i:j]
			switch w {
			case "return", "typeof", "instanceof", "in", "of", "new", "delete", "void", "throw", "case", "do", "else", "yield", "await":
				add(tok{sig: "js:kw:" + w}, true)
			default:
				add(tok{sig: "js:id:" + w}, false)
			}
			i = j
		case c == '/' && regexAllowed:
			j := i + 1
			inClass := false
			ok := false
			for j < len(s) {
				d := s[j]
				if d == '\n' || d == '\r' {
					break
				}
				if d == '\\' && j+1 < len(s) {
					j += 2
					continue
				}
				if d == '[' {
					inClass = true
				} else if d == ']' {
					inClass = false
				} else if d == '/' && !inClass {
					ok = true
					break
				}
				j++
			}
			if !ok {
				add(tok{sig: "js:regex-UNTERMINATED", slot: true, val: s[i:]}, false)
				i = len(s)
				break
			}
			body := s[i+1 : j]
			j++
			for j < len(s) && jsIdentPart(s[j]) {
				j++
			}
			add(tok{sig: "js:regex", slot: true, val: body}, false)
			i = j
		default:
			matched := false
			for _, p := range jsPuncts {
				if strings.HasPrefix(s[i:], p) {
					switch p {
					case "{":
						depth++
					case "}":
						depth--
					}
					after := !(p == ")" || p == "]" || p == "}" || p == "++" || p == "--")
					add(tok{sig: "js:p:" + p}, after)
					i += len(p)
					matched = true
					break
				}
			}
			if !matched {
				add(tok{sig: fmt.Sprintf("js:byte:%02x", c)}, true)
				i++
			}
		}
	}
	return out
}

// ---------------------------------------------------------------- CSS

func cssNameStart(c byte) bool {
	return c == '_' || c >= 0x80 || 'a' <= c && c <= 'z' || 'A' <= c && c <= 'Z'
}
func cssNameChar(c byte) bool { return cssNameStart(c) || '0' <= c && c <= '9' || c == '-' }
func cssWS(c byte) bool {
	return c == ' ' || c == '\t' || c == '\n' || c == '\r' || c == '\f'
}
func cssNL(c byte) bool { return c == '\n' || c == '\r' || c == '\f' }

// cssEscape consumes an escaped code point; i is the index after the backslash.
func cssEscape(s string, i int) (string, int) {
	if i >= len(s) {
		return "�", i
	}
	if isHexByte(s[i]) {
		v := 0
		n := 0
		for i < len(s) && n < 6 && isHexByte(s[i]) {
			v = v*16 + hexVal(s[i])
			i++
			n++
		}
		if i < len(s) && cssWS(s[i]) {
			if s[i] == '\r' && i+1 < len(s) && s[i+1] == '\n' {
				i++
			}
			i++
		}
		if v == 0 || v > 0x10FFFF || 0xD800 <= v && v <= 0xDFFF {
			v = 0xFFFD
		}
		return string(rune(v)), i
	}
	// any other byte (of a possibly multi-byte character) is itself
	return s[i : i+1], i + 1
}

func cssValidEscape(s string, i int) bool { // s[i] == '\\'
	return i+1 < len(s) && !cssNL(s[i+1])
}

func cssName(s string, i int) (string, int) {
	var b []byte
	for i < len(s) {
		c := s[i]
		if cssNameChar(c) {
			b = append(b, c)
			i++
		} else if c == '\\' && cssValidEscape(s, i) {
			var e string
			e, i = cssEscape(s, i+1)
			b = append(b, e...)
		} else {
			break
		}
	}
	return string(b), i
}

func cssStartsIdent(s string, i int) bool {
	if i >= len(s) {
		return false
	}
	c := s[i]
	if c == '-' {
		if i+1 < len(s) && (cssNameStart(s[i+1]) || s[i+1] == '-' || s[i+1] == '\\' && cssValidEscape(s, i+1)) {
			return true
		}
		return false
	}
	return cssNameStart(c) || c == '\\' && cssValidEscape(s, i)
}

func cssStartsNumber(s string, i int) bool {
	if i >= len(s) {
		return false
	}
	c := s[i]
	if c == '+' || c == '-' {
		if i+1 < len(s) && ('0' <= s[i+1] && s[i+1] <= '9') {
			return true
		}
		return i+2 < len(s) && s[i+1] == '.' && '0' <= s[i+2] && s[i+2] <= '9'
	}
	if c == '.' {
		return i+1 < len(s) && '0' <= s[i+1] && s[i+1] <= '9'
	}
	return '0' <= c && c <= '9'
}

func cssTokens(s string) []tok {
	var out []tok
	i := 0
	for i < len(s) {
		c := s[i]
		switch {
		case cssWS(c):
			for i < len(s) && cssWS(s[i]) {
				i++
			}
		case strings.HasPrefix(s[i:], "/*"):
			j := strings.Index(s[i+2:], "*/")
			if j < 0 {
				out = append(out, tok{sig: "css:comment-UNTERMINATED", slot: true, val: s[i+2:]})
				i = len(s)
			} else {
				out = append(out, tok{sig: "css:comment", slot: true, val: s[i+2 : i+2+j]})
				i += j + 4
			}
		case c == '"' || c == '\'':
			var b []byte
			j := i + 1
			kind := "css:string-UNTERMINATED" // EOF: the standard returns the string, but what follows the slot is swallowed
			for j < len(s) {
				d := s[j]
				if d == c {
					kind = "css:string"
					j++
					break
				}
				if cssNL(d) {
					kind = "css:bad-string"
					break
				}
				if d == '\\' {
					if j+1 >= len(s) {
						j++
						continue
					}
					if cssNL(s[j+1]) {
						if s[j+1] == '\r' && j+2 < len(s) && s[j+2] == '\n' {
							j++
						}
						j += 2
						continue
					}
					var e string
					e, j = cssEscape(s, j+1)
					b = append(b, e...)
					continue
				}
				b = append(b, d)
				j++
			}
			out = append(out, tok{sig: kind, slot: true, val: string(b)})
			i = j
		case c == '#':
			if i+1 < len(s) && (cssNameChar(s[i+1]) || s[i+1] == '\\' && cssValidEscape(s, i+1)) {
				n, j := cssName(s, i+1)
				out = append(out, tok{sig: "css:hash:" + n})
				i = j
			} else {
				out = append(out, tok{sig: "css:delim:#"})
				i++
			}
		case cssStartsNumber(s, i):
			j := i
			if s[j] == '+' || s[j] == '-' {
				j++
			}
			for j < len(s) && '0' <= s[j] && s[j] <= '9' {
				j++
			}
			if j+1 < len(s) && s[j] == '.' && '0' <= s[j+1] && s[j+1] <= '9' {
				j++
				for j < len(s) && '0' <= s[j] && s[j] <= '9' {
					j++
				}
			}
			if j+1 < len(s) && (s[j] == 'e' || s[j] == 'E') {
				k := j + 1
				if k < len(s) && (s[k] == '+' || s[k] == '-') {
					k++
				}
				if k < len(s) && '0' <= s[k] && s[k] <= '9' {
					for k < len(s) && '0' <= s[k] && s[k] <= '9' {
						k++
					}
					j = k
				}
			}
			num := s[i:j]
			if cssStartsIdent(s, j) {
				unit, k := cssName(s, j)
				out = append(out, tok{sig: "css:dimension:" + unit, slot: true, val: num})
				j = k
			} else if j < len(s) && s[j] == '%' {
				out = append(out, tok{sig: "css:percentage", slot: true, val: num})
				j++
			} else {
				out = append(out, tok{sig: "css:number", slot: true, val: num})
			}
			i = j
		case cssStartsIdent(s, i):
			n, j := cssName(s, i)
			if j < len(s) && s[j] == '(' {
				if strings.EqualFold(n, "url") {
					k := j + 1
					for k < len(s) && cssWS(s[k]) {
						k++
					}
					if k < len(s) && (s[k] == '"' || s[k] == '\'') {
						out = append(out, tok{sig: "css:function:url"})
						i = j + 1
						continue
					}
					// unquoted url token
					var b []byte
					kind := "css:url-UNTERMINATED"
					for k < len(s) {
						d := s[k]
						if d == ')' {
							kind = "css:url"
							k++
							break
						}
						if d == '"' || d == '\'' || d == '(' || cssWS(d) && strings.TrimLeft(s[k:], " \t\n\r\f")[:min(1, len(strings.TrimLeft(s[k:], " \t\n\r\f")))] != ")" {
							kind = "css:bad-url"
							for k < len(s) && s[k] != ')' {
								if s[k] == '\\' {
									k++
								}
								k++
							}
							if k < len(s) {
								k++
							}
							break
						}
						if cssWS(d) {
							k++
							continue
						}
						if d == '\\' && cssValidEscape(s, k) {
							var e string
							e, k = cssEscape(s, k+1)
							b = append(b, e...)
							continue
						}
						b = append(b, d)
						k++
					}
					out = append(out, tok{sig: kind, slot: true, val: string(b)})
					i = k
					continue
				}
				out = append(out, tok{sig: "css:function:" + n})
				i = j + 1
			} else {
				out = append(out, tok{sig: "css:ident:" + n})
				i = j
			}
		case c == '@':
			if cssStartsIdent(s, i+1) {
				n, j := cssName(s, i+1)
				out = append(out, tok{sig: "css:at:" + n})
				i = j
			} else {
				out = append(out, tok{sig: "css:delim:@"})
				i++
			}
		case strings.HasPrefix(s[i:], "<!--"):
			out = append(out, tok{sig: "css:CDO"})
			i += 4
		case strings.HasPrefix(s[i:], "-->"):
			out = append(out, tok{sig: "css:CDC"})
			i += 3
		default:
			out = append(out, tok{sig: "css:delim:" + string(rune(c))})
			i++
		}
	}
	return out
}

// ---------------------------------------------------------------- JSON

func jsonTokens(s string) []tok {
	dec := json.NewDecoder(strings.NewReader(s))
	dec.UseNumber()
	var out []tok
	for {
		t, err := dec.Token()
		if err == io.EOF {
			break
		}
		if err != nil {
			out = append(out, tok{sig: fmt.Sprintf("json:INVALID@%d", dec.InputOffset())})
			return out
		}
		switch v := t.(type) {
		case json.Delim:
			out = append(out, tok{sig: "json:" + v.String()})
		case string:
			out = append(out, tok{sig: "json:string", slot: true, val: v})
		case json.Number:
			out = append(out, tok{sig: "json:number", slot: true, val: v.String()})
		case bool:
			out = append(out, tok{sig: fmt.Sprintf("json:%v", v)})
		case nil:
			out = append(out, tok{sig: "json:null"})
		}
	}
	// Token() accepts a stream of values; a document is one value
	var any interface{}
	if err := json.Unmarshal([]byte(s), &any); err != nil {
		out = append(out, tok{sig: "json:NOT-ONE-VALUE"})
	}
	return out
}

// ---------------------------------------------------------------- HTML

var rawTextElems = map[string]bool{"xmp": true, "iframe": true, "noembed": true, "noframes": true, "plaintext": true, "noscript": true}

// scriptKind decides how a browser treats the content of <script type=…>.
func scriptKind(attrs []html.Attribute) string {
	typ, has := "", false
	for _, a := range attrs {
		if a.Key == "type" {
			typ, has = strings.ToLower(strings.TrimSpace(a.Val)), true
		}
	}
	switch {
	case !has || typ == "" || typ == "text/javascript" || typ == "module" || typ == "application/javascript":
		return "js"
	case typ == "application/ld+json" || typ == "application/json" || typ == "importmap":
		return "json"
	default:
		return "data"
	}
}

// htmlTokens tokenises a document with x/net/html and sub-tokenises script and style content.
// Text tokens are merged into one slot token between two markup tokens (possibly empty), so that
// an empty value and a benign value give the same structure.
func htmlTokens(doc string) []tok {
	z := html.NewTokenizer(strings.NewReader(doc))
	var out []tok
	var text bytes.Buffer
	textKind := "html:text"
	flush := func() {
		out = append(out, tok{sig: textKind, slot: true, val: text.String()})
		text.Reset()
	}
	sub := "" // "js", "json", "css", "data" while inside script/style
	var subText bytes.Buffer
	flushSub := func() {
		raw := subText.String()
		subText.Reset()
		switch sub {
		case "js":
			out = append(out, jsTokens(raw)...)
		case "json":
			out = append(out, jsonTokens(raw)...)
		case "css":
			out = append(out, cssTokens(raw)...)
		default:
			out = append(out, tok{sig: "html:rawtext", slot: true, val: raw})
		}
	}
	for {
		tt := z.Next()
		if tt == html.ErrorToken {
			break
		}
		switch tt {
		case html.TextToken:
			if sub != "" {
				subText.Write(z.Raw())
				continue
			}
			text.Write(z.Text()) // entity-decoded, except inside raw-text elements
		case html.StartTagToken, html.SelfClosingTagToken:
			flush()
			t := z.Token()
			// start and self-closing tags are one kind: x/net/html takes `<a b=/>` (an unquoted value ending
			// in `/`) for a self-closing tag, WHATWG §13.2.5.37 does not
			out = append(out, tok{sig: "html:<" + t.Data})
			for _, a := range t.Attr {
				out = append(out, tok{sig: "html:attr-name", slot: true, val: a.Key})
				out = append(out, tok{sig: "html:attr-value", slot: true, val: a.Val})
			}
			textKind = "html:text"
			{ // start and self-closing alike (see above)
				switch t.Data {
				case "script":
					sub = scriptKind(t.Attr)
				case "style":
					sub = "css"
					for _, a := range t.Attr {
						if a.Key == "type" && strings.TrimSpace(a.Val) != "" && !strings.EqualFold(strings.TrimSpace(a.Val), "text/css") {
							sub = "data"
						}
					}
				}
				if rawTextElems[t.Data] {
					textKind = "html:rawtext"
				}
			}
		case html.EndTagToken:
			t := z.Token()
			if sub != "" && (t.Data == "script" || t.Data == "style") {
				flushSub()
				sub = ""
			} else {
				flush()
			}
			textKind = "html:text"
			out = append(out, tok{sig: "html:</" + t.Data})
		case html.CommentToken:
			flush()
			out = append(out, tok{sig: "html:comment", slot: true, val: string(z.Text())})
		case html.DoctypeToken:
			flush()
			out = append(out, tok{sig: "html:doctype"})
		}
	}
	if sub != "" {
		flushSub()
		out = append(out, tok{sig: "html:UNCLOSED-" + sub})
	} else {
		flush()
	}
	return out
}

func min(a, b int) int {
	if a < b {
		return a
	}
	return b
}
