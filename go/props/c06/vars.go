package main

import (
	"errors"
	"strings"

	"github.com/open2b/scriggo/native"

	"verifharness/internal/proto"
)

// the untrusted types of the property text: strings, numbers, booleans, Stringers, errors and
// slices / maps / structs of them
type NS string // a defined string type: must be escaped like string

type Str struct{ v string }

func (s Str) String() string { return s.v }

type PS struct {
	A string
	B int `json:"b"`
}

var globals = native.Declarations{
	"s":   (*string)(nil),
	"ns":  (*NS)(nil),
	"st":  (*Str)(nil),
	"er":  (*error)(nil),
	"any": (*any)(nil),
	"n":   (*int)(nil),
	"f":   (*float64)(nil),
	"b":   (*bool)(nil),
	"ls":  (*[]string)(nil),
	"arr": (*[2]string)(nil),
	"ms":  (*map[string]string)(nil),
	"ps":  (*PS)(nil),
	"pp":  (**PS)(nil),
	"bs":  (*[]byte)(nil),
	"h":   (*native.HTML)(nil),
}

// vec is one value assignment: three independent strings. Every string-carrying variable is
// built from one of them (its SLOT), so that the holes of one document show DIFFERENT values —
// one value can establish state (a `?` in a URL, a trailing truncated UTF-8 sequence) and the
// next one carry the breaker.
type vec [3]string

// slotOf: which component of a vec a variable is built from
var slotOf = map[string]int{"s": 0, "ns": 1, "st": 2, "er": 1, "any": 2, "ls": 0, "arr": 1, "ms": 2, "ps": 0, "pp": 1, "bs": 0}

// varsFor binds every variable to (a value built from) its component of v.
func varsFor(v vec) map[string]any {
	p := PS{A: v[0], B: 7}
	pq := PS{A: v[1], B: 7}
	var e error = errors.New(v[1])
	var a any = v[2]
	return map[string]any{
		"s": v[0], "ns": NS(v[1]), "st": Str{v[2]}, "er": &e, "any": &a,
		"n": 42, "f": 1.5, "b": true,
		"ls": []string{v[0], "k"}, "arr": [2]string{v[1], v[1]}, "ms": map[string]string{v[2]: v[2]},
		"ps": p, "pp": &pq, "bs": []byte(v[0]), "h": native.HTML("<i>t</i>"),
	}
}

// benign is the assignment of the reference run: one marker per slot; the markers survive every
// escaper unchanged and do not occur in the generated template text.
var benign = vec{"xq1x", "xq2x", "xq3x"}

func same(v string) vec { return vec{v, v, v} }

// hasMarker: s contains one of the benign markers
func hasMarker(s string) bool {
	return strings.Contains(s, benign[0]) || strings.Contains(s, benign[1]) || strings.Contains(s, benign[2])
}

// substitute replaces each marker by the slot's value (after f)
func substitute(s string, v vec, f func(string) string) string {
	for i := range benign {
		s = strings.ReplaceAll(s, benign[i], f(v[i]))
	}
	return s
}

// the context-breaking dictionary
var dictionary = []string{
	"", " ", "a b", " a", "a ", "\t", "\n", "\r", "\r\n", "\f", "\v", "\x00", "a\x00b",
	`"`, `'`, "`", `\`, `\"`, `\'`, `\\`, `"a`, `'a`, `a"`, `a'`, `" x="y`, `' x='y`, `" onclick="alert(1)`, `' onmouseover='alert(1)`,
	"<", ">", "&", "</", "<!--", "-->", "--!>", "]]>", "<![CDATA[", "<b>", "</b>", "<script>", "</script>", "</SCRIPT >", "</script", "</style>", "</title>", "</textarea>", "</xmp>",
	"<script>alert(1)</script>", "<img src=x onerror=alert(1)>", "<a", "<a ", "<a href", "<!", "<?", "</", "< /p>",
	"&quot;", "&#34;", "&#x22;", "&apos;", "&lt;", "&amp;quot;", "&quot", "&#34", "&", "&a", "&#", "&lt",
	"javascript:alert(1)", "JaVaScRiPt:alert(1)", "data:text/html,<script>alert(1)</script>", "vbscript:x", "//evil.example", "/\\evil", "http://a b/", "?a=b&c=d", "#frag", "%", "%2", "%zz", "%22", "%3c", "a%20b",
	"=", ">", "/>", "/", "a=b", "a =b", "x y=z", "=x", "a/b", "/ onclick=x",
	"*/", "/*", "//", "*/alert(1)/*", "\n//", "*/</script>", "/*</style>*/",
	"${", "${alert(1)}", "`+alert(1)+`", "}", "{", "};alert(1);{", ";", ";alert(1)//", ")", "(", "');alert('1", `");alert("1`, "\\');alert(1)//", `\");alert(1)//`, "alert(1)", "a,b", ",", "1,2", "[", "]",
	"\u2028", "\u2029", "a\u2028b", "\u0085", "\u00a0", "\ufeff", "\u200b", "\ufffd", "\U0001F600", "é", "日本",
	"\xff", "\xc0\xaf", "\xe2\x80", "\xe2", "\xe2\x80\xa8", "a\xffb", "\xed\xa0\x80", "\xf4\x90\x80\x80", "\x80", "\xc3", "\xc3(", "\x1b[0m", "\x7f", "\x01", "\x1f",
	"red;}", "red;} body{display:none", "expression(alert(1))", "url(javascript:alert(1))", "\\22", "\\3c", "\\\n", "\\a", "\\", "a\\", "@import 'x'", "!important", ":", "}</style><script>alert(1)</script>",
	`{"a":1}`, `","x":"`, `"}`, `\u0022`, `\u003c`, "null", "true", "1e999", "-1", "NaN", "Infinity", "undefined", "__proto__",
	"*", "_", "#", "# h", "[x](y)", "![i](u)", "<http://x>", "1. x", "- x", "> q", "```", "~~~", "***", "___", "|", "a|b", "&copy;", "\\*", "<!-- c -->", "<b>x</b>", "http://x.y", "www.x.y", "a@b.c", "  ", "    code", "=== ", "---",
	"x" + strings.Repeat("<", 5), strings.Repeat("a", 300), strings.Repeat("\"", 40), strings.Repeat("&", 33), strings.Repeat("\\", 17),
}

var fragments = []string{`"`, `'`, "`", `\`, "<", ">", "&", "/", "=", " ", "\n", "\r", "\t", ";", ":", "{", "}", "(", ")", "*", "-", "!", "#", "%", "$", "\x00", "\xff", "\xe2\x80", "\xa8", "\u2028", "\u2029", "é", "a", "b", "script", "style", "x"}

// values that establish state for what follows them: URL query / fragment / srcset state, an open
// character reference, a truncated UTF-8 sequence, a pending escape
var stateValues = []string{"/p?x=1", "?", "x?y", "a?b=c&", "/p?x=1&", "?a=b&c=d", "#f", "a#", "a,b", ",", "a, ", "/a b?c", "&", "&amp", "&#3", "&#", "&l",
	"\xe2", "\xe2\x80", "\xc3", "\xf0\x9f", "\\", "<", "</", "<!-", "-", "--", "]]", "*", "/", "$", "%", "%2", "%c3", "\r", "http:", "javascript", "a:", "//"}

// randVec draws a value assignment: the same value in every slot, or a state-establishing value
// in one slot and breakers in the others, or three independent values.
func randVec(r *proto.Rand) vec {
	switch r.Intn(5) {
	case 0, 1:
		return same(randValue(r))
	case 2, 3:
		v := vec{randValue(r), randValue(r), randValue(r)}
		v[r.Intn(3)] = stateValues[r.Intn(len(stateValues))]
		if r.Intn(3) == 0 {
			v[r.Intn(3)] = stateValues[r.Intn(len(stateValues))]
		}
		return v
	default:
		return vec{randValue(r), randValue(r), randValue(r)}
	}
}

// randValue draws a random value: dictionary entry, concatenation of breaking fragments, or random Unicode.
func randValue(r *proto.Rand) string {
	switch r.Intn(10) {
	case 0, 1, 2, 3, 4:
		return dictionary[r.Intn(len(dictionary))]
	case 5, 6, 7:
		var b strings.Builder
		n := 1 + r.Intn(6)
		for i := 0; i < n; i++ {
			b.WriteString(fragments[r.Intn(len(fragments))])
		}
		return b.String()
	case 8:
		var b strings.Builder
		n := 1 + r.Intn(5)
		for i := 0; i < n; i++ {
			switch r.Intn(4) {
			case 0:
				b.WriteRune(rune(r.Intn(0x80)))
			case 1:
				b.WriteRune(rune(0x80 + r.Intn(0x780)))
			case 2:
				b.WriteRune(rune(0x800 + r.Intn(0xF800)))
			default:
				b.WriteRune(rune(0x10000 + r.Intn(0x100000)))
			}
		}
		return b.String()
	default:
		return string(r.Bytes(1 + r.Intn(6)))
	}
}
