package main

import (
	"errors"
	"strings"

	"github.com/open2b/scriggo/native"

	"verifharness/internal/proto"
)

// the untrusted types of the property text: strings, numbers, booleans, Stringers, errors and
// slices / maps / structs of them
type NS string // a defined string type: must be escaped like string

type Str struct{ v string }

func (s Str) String() string { return s.v }

type PS struct {
	A string
	B int `json:"b"`
}

var globals = native.Declarations{
	"s":   (*string)(nil),
	"ns":  (*NS)(nil),
	"st":  (*Str)(nil),
	"er":  (*error)(nil),
	"any": (*any)(nil),
	"n":   (*int)(nil),
	"f":   (*float64)(nil),
	"b":   (*bool)(nil),
	"ls":  (*[]string)(nil),
	"arr": (*[2]string)(nil),
	"ms":  (*map[string]string)(nil),
	"ps":  (*PS)(nil),
	"pp":  (**PS)(nil),
	"bs":  (*[]byte)(nil),
	"h":   (*native.HTML)(nil),
}

// varsFor binds every variable to (a value built from) the string v.
func varsFor(v string) map[string]any {
	p := PS{A: v, B: 7}
	var e error = errors.New(v)
	var a any = v
	return map[string]any{
		"s": v, "ns": NS(v), "st": Str{v}, "er": &e, "any": &a,
		"n": 42, "f": 1.5, "b": true,
		"ls": []string{v, "k"}, "arr": [2]string{v, v}, "ms": map[string]string{v: v},
		"ps": p, "pp": &p, "bs": []byte(v), "h": native.HTML("<i>t</i>"),
	}
}

// benign is the marker shown in the reference run; it survives every escaper unchanged and
// does not occur in the generated template text.
const benign = "xq7x"

// the context-breaking dictionary
var dictionary = []string{
	"", " ", "a b", " a", "a ", "\t", "\n", "\r", "\r\n", "\f", "\v", "\x00", "a\x00b",
	`"`, `'`, "`", `\`, `\"`, `\'`, `\\`, `"a`, `'a`, `a"`, `a'`, `" x="y`, `' x='y`, `" onclick="alert(1)`, `' onmouseover='alert(1)`,
	"<", ">", "&", "</", "<!--", "-->", "--!>", "]]>", "<![CDATA[", "<b>", "</b>", "<script>", "</script>", "</SCRIPT >", "</script", "</style>", "</title>", "</textarea>", "</xmp>",
	"<script>alert(1)</script>", "<img src=x onerror=alert(1)>", "<a", "<a ", "<a href", "<!", "<?", "</", "< /p>",
	"&quot;", "&#34;", "&#x22;", "&apos;", "&lt;", "&amp;quot;", "&quot", "&#34", "&", "&a", "&#", "&lt",
	"javascript:alert(1)", "JaVaScRiPt:alert(1)", "data:text/html,<script>alert(1)</script>", "vbscript:x", "//evil.example", "/\\evil", "http://a b/", "?a=b&c=d", "#frag", "%", "%2", "%zz", "%22", "%3c", "a%20b",
	"=", ">", "/>", "/", "a=b", "a =b", "x y=z", "=x", "a/b", "/ onclick=x",
	"*/", "/*", "//", "*/alert(1)/*", "\n//", "*/</script>", "/*</style>*/",
	"${", "${alert(1)}", "`+alert(1)+`", "}", "{", "};alert(1);{", ";", ";alert(1)//", ")", "(", "');alert('1", `");alert("1`, "\\');alert(1)//", `\");alert(1)//`, "alert(1)", "a,b", ",", "1,2", "[", "]",
	"\u2028", "\u2029", "a\u2028b", "\u0085", "\u00a0", "\ufeff", "\u200b", "\ufffd", "\U0001F600", "é", "日本",
	"\xff", "\xc0\xaf", "\xe2\x80", "\xe2", "\xe2\x80\xa8", "a\xffb", "\xed\xa0\x80", "\xf4\x90\x80\x80", "\x80", "\xc3", "\xc3(", "\x1b[0m", "\x7f", "\x01", "\x1f",
	"red;}", "red;} body{display:none", "expression(alert(1))", "url(javascript:alert(1))", "\\22", "\\3c", "\\\n", "\\a", "\\", "a\\", "@import 'x'", "!important", ":", "}</style><script>alert(1)</script>",
	`{"a":1}`, `","x":"`, `"}`, `\u0022`, `\u003c`, "null", "true", "1e999", "-1", "NaN", "Infinity", "undefined", "__proto__",
	"*", "_", "#", "# h", "[x](y)", "![i](u)", "<http://x>", "1. x", "- x", "> q", "```", "~~~", "***", "___", "|", "a|b", "&copy;", "\\*", "<!-- c -->", "<b>x</b>", "http://x.y", "www.x.y", "a@b.c", "  ", "    code", "=== ", "---",
	"x" + strings.Repeat("<", 5), strings.Repeat("a", 300), strings.Repeat("\"", 40), strings.Repeat("&", 33), strings.Repeat("\\", 17),
}

var fragments = []string{`"`, `'`, "`", `\`, "<", ">", "&", "/", "=", " ", "\n", "\r", "\t", ";", ":", "{", "}", "(", ")", "*", "-", "!", "#", "%", "$", "\x00", "\xff", "\xe2\x80", "\xa8", "\u2028", "\u2029", "é", "a", "b", "script", "style", "x"}

// randValue draws a random value: dictionary entry, concatenation of breaking fragments, or random Unicode.
func randValue(r *proto.Rand) string {
	switch r.Intn(10) {
	case 0, 1, 2, 3, 4:
		return dictionary[r.Intn(len(dictionary))]
	case 5, 6, 7:
		var b strings.Builder
		n := 1 + r.Intn(6)
		for i := 0; i < n; i++ {
			b.WriteString(fragments[r.Intn(len(fragments))])
		}
		return b.String()
	case 8:
		var b strings.Builder
		n := 1 + r.Intn(5)
		for i := 0; i < n; i++ {
			switch r.Intn(4) {
			case 0:
				b.WriteRune(rune(r.Intn(0x80)))
			case 1:
				b.WriteRune(rune(0x80 + r.Intn(0x780)))
			case 2:
				b.WriteRune(rune(0x800 + r.Intn(0xF800)))
			default:
				b.WriteRune(rune(0x10000 + r.Intn(0x100000)))
			}
		}
		return b.String()
	default:
		return string(r.Bytes(1 + r.Intn(6)))
	}
}
