package main

// Finding classes of the macro-matrix stream that concern the LEXER CONTEXT inside a macro body
// with an explicit result type (macro.go holds the stream; fixes/FINDING-CLASSES.md the rules).
//
// BOTH CLASSES ARE CLOSED: the defects were repaired in the library (d06bcc1: tokenRaw pushes the
// context; fe116bb: l.base / l.bases) and their entries have left known_findings.json, so macroMatrix
// drops every prediction made here (`!c.HasFinding(cc.id)`) and a matrix point that fails as described
// below is a VIOLATION. The prediction machinery is kept: it is what a reopened class would need.
//
//	typed-macro-context-after-raw   `{% raw %}…{% end %}` in the body: its `{% end %}` pops the context the
//	                                lexer saved at `{% macro %}`, so the rest of the body is lexed in the
//	                                context the declaration stands in (the page's), not the macro's.
//	typed-macro-context-after-tag   in an html / markdown macro body the end of a tag sets the context to
//	                                the FILE's context (lexer.scan takes `fileContext` once, at the start).
//
// Both only show where the page's format differs from the macro's. A class is a prediction made
// from the input and from the lexing / rendering of OTHER documents:
//
//  1. cause (input): a locally declared macro whose result format is not the page's, with a raw
//     block — resp. a tag — before some show of the body; the reset point r is the end of that construct;
//  2. contexts (lexer on other documents): the shows of body[:r] as lexed in a file of the macro's
//     format, followed by the shows of body[r:] as lexed in a file of the PAGE's format. The class
//     applies only if these differ from the contexts of the body lexed on its own and are exactly the
//     contexts the lexer gives the shows of the macro in the page;
//  3. output (renderings of other documents): the macro's result is the body with every show
//     replaced by the value escaped for its context of (2) (a one-show document per context); the page
//     prints what it prints for a global of the macro's result type holding that result.
//
// A failing case is attributed to the class only if BOTH call forms print exactly (3). The
// prediction is evaluated for every value on every document it applies to, failing or not, and the
// share that comes true is recorded (class-precision/<id>/…).

import (
	"strings"

	"github.com/open2b/scriggo"
	"github.com/open2b/scriggo/native"
	hook6 "github.com/open2b/scriggo/verifhook/c06"
)

// one-show documents: the escaping of a value in each context
var escDocs = map[string]struct{ format, pre, post string }{
	"text":               {"txt", "", ""},
	"HTML":               {"html", "", ""},
	"CSS":                {"css", "", ""},
	"JavaScript":         {"js", "", ""},
	"JSON":               {"json", "", ""},
	"Markdown":           {"md", "", ""},
	"tag":                {"html", "<a ", ">"},
	"quoted attribute":   {"html", `<a title="`, `">`},
	"unquoted attribute": {"html", `<a title=`, `>`},
	"CSS string":         {"css", `a{b:"`, `"}`},
	"JavaScript string":  {"js", `"`, `"`},
	"JSON string":        {"json", `"`, `"`},
}

var escBuilt = map[string]*scriggo.Template{}

func escIn(ctx, v string) (string, bool) {
	e, ok := escDocs[ctx]
	if !ok {
		return "", false
	}
	t := escBuilt[ctx]
	if t == nil {
		b, err := build(doc{format: e.format, src: e.pre + "{{ s }}" + e.post, extra: map[string]string{}})
		if err != nil {
			return "", false
		}
		t = b.t
		escBuilt[ctx] = t
	}
	out, err := runTemplate(t, varsFor(same(v)))
	if err != nil || !strings.HasPrefix(out, e.pre) || !strings.HasSuffix(out, e.post) || len(out) < len(e.pre)+len(e.post) {
		return "", false
	}
	return out[len(e.pre) : len(out)-len(e.post)], true
}

// typed globals that carry a predicted macro result
var resultGlobals = map[string]string{"string": "gstr", "html": "ghtml", "css": "gcss", "js": "gjs", "json": "gjson", "markdown": "gmd"}

func init() {
	globals["gstr"] = (*string)(nil)
	globals["ghtml"] = (*native.HTML)(nil)
	globals["gcss"] = (*native.CSS)(nil)
	globals["gjs"] = (*native.JS)(nil)
	globals["gjson"] = (*native.JSON)(nil)
	globals["gmd"] = (*native.Markdown)(nil)
}

func typedResult(res, p string) any {
	switch res {
	case "html":
		return native.HTML(p)
	case "css":
		return native.CSS(p)
	case "js":
		return native.JS(p)
	case "json":
		return native.JSON(p)
	case "markdown":
		return native.Markdown(p)
	}
	return p
}

func holeCtxs(src, format string) ([]string, bool) {
	hs, err := hook6.Holes([]byte(src), formatOf(format))
	if err != nil {
		return nil, false
	}
	var out []string
	for _, h := range hs {
		if h.InURL {
			out = append(out, h.Context+"+URL") // no one-show document: a prediction with it fails
		} else {
			out = append(out, h.Context)
		}
	}
	return out, true
}

func eqStrings(a, b []string) bool {
	if len(a) != len(b) {
		return false
	}
	for i := range a {
		if a[i] != b[i] {
			return false
		}
	}
	return true
}

// ctxClass is the prediction of a context class for one matrix document (nil = no class applies)
type ctxClass struct {
	id    string
	ctxs  []string          // predicted (wrong) context of each show of the body
	page  *scriggo.Template // pre {{ g<res> }} post
	gname string
}

var rawPrefixes = map[string]bool{"raw": true, "raw-marker": true, "raw-in-if": true}

// predictCtxClass: steps 1 and 2
func predictCtxClass(m matrixDoc) *ctxClass {
	if m.decl != "local" || m.ctx.url {
		return nil
	}
	pageFormat := m.ctx.format
	if pageFormat == m.con.ext {
		return nil
	}
	body := strings.ReplaceAll(m.pfx.src+m.con.body, "§", "{{ v }}")
	var r int
	var id string
	switch {
	case rawPrefixes[m.pfx.name]:
		r, id = len(m.pfx.src), "typed-macro-context-after-raw"
	case m.con.res == "html" || m.con.res == "markdown":
		lt := strings.Index(body, "<")
		if lt < 0 {
			return nil
		}
		gt := strings.Index(body[lt:], ">")
		if gt < 0 {
			return nil
		}
		r, id = lt+gt+1, "typed-macro-context-after-tag"
	default:
		return nil
	}
	ref, ok0 := holeCtxs(body, m.con.ext)
	c1, ok1 := holeCtxs(body[:r], m.con.ext)
	c2, ok2 := holeCtxs(body[r:], pageFormat)
	if !ok0 || !ok1 || !ok2 {
		return nil
	}
	model := append(append([]string(nil), c1...), c2...)
	if eqStrings(model, ref) {
		return nil // the defect changes nothing here
	}
	// the contexts the lexer gives the shows of the macro body in the page
	head := "{% macro M(v string) " + m.con.res + " %}"
	hs, err := hook6.Holes([]byte(m.fast.src), formatOf(pageFormat))
	if err != nil {
		return nil
	}
	var actual []string
	for _, h := range hs {
		if h.Start >= len(head) && h.Start < len(head)+len(body) {
			if h.InURL {
				actual = append(actual, h.Context+"+URL")
			} else {
				actual = append(actual, h.Context)
			}
		}
	}
	if !eqStrings(actual, model) {
		return nil
	}
	g := resultGlobals[m.con.res]
	pb, err := build(doc{format: pageFormat, src: m.ctx.pre + "{{ " + g + " }}" + m.ctx.post, extra: map[string]string{}})
	if err != nil {
		return nil
	}
	return &ctxClass{id: id, ctxs: model, page: pb.t, gname: g}
}

// predictOutput: step 3
func (cc *ctxClass) predictOutput(m matrixDoc, v string) (string, bool) {
	parts := strings.Split(m.con.body, "§")
	if len(parts)-1 != len(cc.ctxs) {
		return "", false
	}
	var p strings.Builder
	if m.pfx.src != "" {
		p.WriteString(" ") // every construct of `prefixes` writes one space
	}
	for i, lit := range parts {
		p.WriteString(lit)
		if i < len(cc.ctxs) {
			e, ok := escIn(cc.ctxs[i], v)
			if !ok {
				return "", false
			}
			p.WriteString(e)
		}
	}
	vars := varsFor(same(v))
	vars[cc.gname] = typedResult(m.con.res, p.String())
	out, err := runTemplate(cc.page, vars)
	if err != nil {
		return "", false
	}
	return out, true
}
