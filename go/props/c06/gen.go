package main

// Grammar-based generator of template documents with show holes (property C06).
//
// A document is template source in one format (html, css, js, json, md). Holes are `{{ var }}`
// over the globals of vars.go; which variable may appear depends on the slot (the checker rejects
// e.g. a slice in an attribute). The MAIN stream contains only constructs for which Scriggo's lexer
// is expected to agree with a browser; constructs with a recorded known finding (HTML comments
// containing markup, JS regular-expression and template literals, the Tag context, []byte in HTML,
// `{{ render }}` of another format, an empty unquoted attribute value followed by another
// attribute, JS/CSS inside event/style attributes) are generated only by the RISKY stream.

import (
	"fmt"
	"strings"

	"verifharness/internal/proto"
)

type doc struct {
	format string            // "html", "css", "js", "json", "md"
	src    string            // main file source (= the concatenation of parts)
	parts  []string          // top-level blocks / statements / rules; shrinking removes whole parts
	extra  map[string]string // other files (rendered / imported)
	feats  []string          // generator features, for the histogram
	risky  string            // "" for the main stream, else the construct family
}

func (d doc) fileName() string { return "index." + d.format }

type gen struct {
	r     *proto.Rand
	feats []string
}

func (g *gen) feat(f string) { g.feats = append(g.feats, f) }
func (g *gen) pick(ss ...string) string {
	return ss[g.r.Intn(len(ss))]
}

// variables by slot class
var (
	textVars   = []string{"s", "s", "s", "ns", "st", "er", "any", "n", "f", "b"} // string-like slots
	valueVars  = []string{"s", "s", "ns", "er", "any", "ls", "ms", "ps", "pp", "n", "f", "b", "bs", "arr"}
	cssValVars = []string{"s", "s", "ns", "st", "er", "any", "n", "f"}
	mdVars     = []string{"s", "s", "ns", "st", "er", "n"}
)

func (g *gen) hole(vars []string) string {
	v := vars[g.r.Intn(len(vars))]
	switch g.r.Intn(6) {
	case 0:
		return "{{" + v + "}}"
	case 1:
		return "{{  " + v + " }}"
	default:
		return "{{ " + v + " }}"
	}
}

var words = []string{"alpha", "beta", "Hello world", "it is", "a b", "x1", "42", "ok", "café", "日本", "A&amp;B", "1 + 2", "q", "-", "_"}

func (g *gen) word() string { return words[g.r.Intn(len(words))] }

// stmtSep: statements that write nothing, so that two holes are adjacent in the OUTPUT although
// separated in the source
func (g *gen) stmtSep() string {
	return g.pick("{% if true %}{% end %}", "{% if false %}zz{% end %}", "{# c #}", "{% if true %}{% end if %}")
}

// holes: 2..3 holes of (mostly) different variables — adjacent, separated by a short literal, or
// separated only by statements
func (g *gen) holes(vars []string, lits ...string) string {
	if len(lits) == 0 {
		lits = []string{"-", "a", "/", "1"}
	}
	var b strings.Builder
	n := 2 + g.r.Intn(2)
	for i := 0; i < n; i++ {
		if i > 0 {
			switch g.r.Intn(5) {
			case 0, 1:
				g.feat("holes:adjacent")
			case 2:
				g.feat("holes:literal-between")
				b.WriteString(lits[g.r.Intn(len(lits))])
			default:
				g.feat("holes:statement-between")
				b.WriteString(g.stmtSep())
			}
		}
		b.WriteString(g.hole(vars))
	}
	return b.String()
}

// text with 0..3 holes
func (g *gen) text(vars []string, lits ...string) string {
	if len(lits) == 0 {
		lits = words
	}
	if g.r.Intn(4) == 0 {
		return g.pick("", lits[g.r.Intn(len(lits))]) + g.holes(vars, lits...) + g.pick("", lits[g.r.Intn(len(lits))])
	}
	var b strings.Builder
	n := 1 + g.r.Intn(3)
	for i := 0; i < n; i++ {
		switch g.r.Intn(3) {
		case 0:
			b.WriteString(lits[g.r.Intn(len(lits))])
		default:
			b.WriteString(g.hole(vars))
		}
		switch g.r.Intn(6) {
		case 0, 1:
			b.WriteString(" ")
		case 2:
			b.WriteString(g.stmtSep())
		}
	}
	return b.String()
}

var plainLits = []string{"alpha", "beta", "a b", "x1", "42", "ok", "q", "-", "_", "café"}
var urlLits = []string{"/p/", "/a?b=1&amp;c=", "https://ex.org/", "img", ".png", "?q=", "&amp;r=", "#", "/"}

// ---- JavaScript code (main stream: strings, comments, value holes; no regex, no template literals)

func (g *gen) jsStmt() string {
	v := func() string { return g.hole(valueVars) }
	s := func() string { return g.text(textVars, plainLits...) }
	switch g.r.Intn(12) {
	case 0:
		g.feat("js:var-value")
		return "var a = " + v() + ";"
	case 1:
		g.feat("js:dq-string")
		return `var b = "` + s() + `";`
	case 2:
		g.feat("js:sq-string")
		return `let c = '` + s() + `';`
	case 3:
		g.feat("js:call-args")
		return "f(" + v() + `, "` + s() + `", ` + v() + ");"
	case 4:
		g.feat("js:object-literal")
		return "var o = {k: " + v() + `, "k2": [` + v() + `, 1], 'k3': "` + s() + `"};`
	case 5:
		g.feat("js:line-comment")
		return "// note: " + g.word() + " " + g.hole(textVars) + "\nvar d = 1;"
	case 6:
		g.feat("js:block-comment")
		return "/* " + g.word() + " */ var e = 2; /* " + g.word() + " */"
	case 7:
		g.feat("js:if-compare")
		return "if (a < " + v() + " && b >= 1) { g(" + v() + "); }"
	case 8:
		g.feat("js:escaped-quote-in-string")
		return `var q = "a\"` + g.hole(textVars) + `\"b"; var r = 'it\'s ` + g.hole(textVars) + `';`
	case 9:
		g.feat("js:division")
		return "var h = (a + 1) / 2 / x; var k = " + v() + ";"
	case 10:
		g.feat("js:return-value")
		return "function m() { return " + v() + "; }"
	default:
		g.feat("js:array")
		return "var l = [" + v() + ", " + v() + `, "` + s() + `"];`
	}
}

func (g *gen) jsCode() string {
	var b strings.Builder
	n := 1 + g.r.Intn(3)
	for i := 0; i < n; i++ {
		b.WriteString(g.jsStmt())
		b.WriteString(g.pick("\n", " ", "\n  "))
	}
	return b.String()
}

// ---- JSON

func (g *gen) jsonValue(depth int) string {
	v := func() string { return g.hole(valueVars) }
	switch g.r.Intn(7 - depth) {
	case 0:
		g.feat("json:value-hole")
		return v()
	case 1:
		g.feat("json:string-hole")
		return `"` + g.text(textVars, plainLits...) + `"`
	case 2:
		return g.pick("1", "-2.5e3", "true", "null", `"lit"`)
	case 3:
		g.feat("json:string-escaped-quote")
		return `"a\"` + g.hole(textVars) + `\" b"`
	case 4:
		g.feat("json:array")
		return "[" + g.jsonValue(depth+1) + ", " + g.jsonValue(depth+1) + "]"
	default:
		g.feat("json:object")
		return `{"k": ` + g.jsonValue(depth+1) + `, "` + g.text(textVars, plainLits...) + `": ` + g.jsonValue(depth+1) + `}`
	}
}

// ---- CSS

func (g *gen) cssRule() string {
	switch g.r.Intn(9) {
	case 0:
		g.feat("css:value-hole")
		return "a { color: " + g.hole(cssValVars) + "; }"
	case 1:
		g.feat("css:dq-string")
		return `a::before { content: "` + g.text(textVars, plainLits...) + `"; }`
	case 2:
		g.feat("css:sq-string")
		return `q::after { content: '` + g.text(textVars, plainLits...) + `' }`
	case 3:
		g.feat("css:url-string")
		return `.c { background: url("` + g.text(textVars, "/img/", "a.png") + `") no-repeat; width: ` + g.hole([]string{"n", "f"}) + `px }`
	case 4:
		g.feat("css:comment")
		return "/* " + g.word() + " */ b { margin: 0 }"
	case 5:
		g.feat("css:import-string")
		return `@import "` + g.text(textVars, "x.css", "/c/") + `";`
	case 6:
		g.feat("css:escaped-quote-in-string")
		return `i::before { content: "a\"` + g.hole(textVars) + `\" b"; }`
	case 7:
		g.feat("css:font-family-values")
		return "p { font-family: " + g.hole(cssValVars) + ", serif; font-size: " + g.hole([]string{"n", "f"}) + "em }"
	default:
		g.feat("css:attr-selector-string")
		return `a[href="` + g.text(textVars, plainLits...) + `"] { top: 0 }`
	}
}

func (g *gen) cssCode() string {
	var b strings.Builder
	n := 1 + g.r.Intn(3)
	for i := 0; i < n; i++ {
		b.WriteString(g.cssRule())
		b.WriteString(g.pick("\n", " "))
	}
	return b.String()
}

// ---- HTML

func (g *gen) attr() string {
	h := func() string { return g.hole(textVars) }
	switch g.r.Intn(22) {
	case 16:
		g.feat("attr:unquoted-multi-hole")
		return "\x01data-y=" + g.holes(textVars)
	case 17:
		g.feat("attr:url-unquoted-multi-hole")
		return "\x01href=" + g.pick("", "", "/p/") + g.holes(textVars, "/", "?", "&amp;", "=", "#", "a")
	case 18:
		g.feat("attr:url-dq-multi-hole")
		return `href="` + g.pick("", "", "/p/") + g.holes(textVars, "/", "?", "&amp;", "=", "#", "a", " ") + `"`
	case 19:
		g.feat("attr:url-sq-multi-hole")
		return `src='` + g.pick("", "", "/p/") + g.holes(textVars, "/", "?", "&amp;", "=", "#", "a", " ") + `'`
	case 20:
		g.feat("attr:srcset-multi-hole")
		return `srcset="` + g.holes(textVars, "/", ", ", " 1x, ", "?") + g.pick("", " 2x") + `"`
	case 21:
		g.feat("attr:sq-multi-hole")
		return `title='` + g.holes(textVars) + `'`
	case 0:
		g.feat("attr:dq")
		return `title="` + g.text(textVars) + `"`
	case 1:
		g.feat("attr:sq")
		return `alt='` + g.text(textVars) + `'`
	case 2:
		g.feat("attr:unquoted")
		if pre, suf := g.pick("", "a", "1"), g.pick("", "z"); pre+suf != "" {
			return "data-x=" + pre + h() + suf
		}
		return "\x01data-x=" + h()
	case 3:
		g.feat("attr:unquoted-whole")
		return "\x01value=" + h()
	case 4:
		g.feat("attr:url-dq")
		return `href="` + g.text(textVars, urlLits...) + `"`
	case 5:
		g.feat("attr:url-sq")
		return `src='` + g.text(textVars, urlLits...) + `'`
	case 6:
		g.feat("attr:url-unquoted")
		if pre := g.pick("", "/p/", "x?y="); pre != "" {
			return "href=" + pre + h()
		}
		return "\x01href=" + h()
	case 7:
		g.feat("attr:url-query")
		return `href="/s?q=` + h() + `&amp;r=` + h() + `#` + h() + `"`
	case 8:
		g.feat("attr:srcset")
		return `srcset="` + h() + ` 1x, /b` + h() + `.png 2x"`
	case 9:
		g.feat("attr:event")
		return `onclick="go('` + h() + `')"`
	case 10:
		g.feat("attr:style")
		return `style="color: red; background: url('` + h() + `')"`
	case 11:
		g.feat("attr:boolean")
		return g.pick("disabled", "hidden", "checked")
	case 12:
		g.feat("attr:literal")
		return g.pick(`class="c d"`, `id=i1`, `lang='en'`, `data-q="it's"`, `data-r='say "hi"'`)
	case 13:
		g.feat("attr:dq-spaces-around-eq")
		return `title = "` + h() + `"`
	case 14:
		g.feat("attr:class-multi")
		return `class="a ` + h() + ` b"`
	default:
		g.feat("attr:data-sq")
		return `data-v='[` + h() + `]'`
	}
}

func (g *gen) tagFor(attrs string) string {
	// URL attributes are recognised per (tag, attribute) pair; choose a tag that fits
	switch {
	case strings.Contains(attrs, "srcset"):
		return g.pick("img", "source")
	case strings.Contains(attrs, "src="):
		return g.pick("img", "iframe", "script", "video", "input")
	case strings.Contains(attrs, "href"):
		return g.pick("a", "link", "area", "base")
	}
	return g.pick("div", "span", "p", "input", "a", "button", "td", "x-y")
}

func (g *gen) htmlBlock() string {
	switch g.r.Intn(20) {
	case 0, 1, 2:
		g.feat("html:text")
		tag := g.pick("p", "div", "li", "b")
		return "<" + tag + ">" + g.text(textVars) + "</" + tag + ">"
	case 3:
		g.feat("html:rcdata-title")
		return "<title>" + g.text(textVars) + "</title>"
	case 4:
		g.feat("html:rcdata-textarea")
		return `<textarea name="t">` + g.text(textVars) + "</textarea>"
	case 5, 6, 7, 8, 9:
		n := 1 + g.r.Intn(3)
		var as []string
		// an unquoted attribute whose whole value is a hole can be empty: it then takes the NEXT
		// attribute as its value (known finding unquoted-attr-empty-value, risky stream) — in the
		// main stream at most one such attribute, placed last
		last := ""
		for i := 0; i < n; i++ {
			a := g.attr()
			if strings.HasPrefix(a, "\x01") {
				last = a[1:]
			} else {
				as = append(as, a)
			}
		}
		if last != "" {
			as = append(as, last)
		}
		attrs := strings.Join(as, g.pick(" ", " ", "  ", "\n ", "\t", "\f", "\r\n"))
		tag := g.tagFor(attrs)
		if tag == "script" || tag == "iframe" {
			return "<" + tag + " " + attrs + "></" + tag + ">"
		}
		switch g.r.Intn(3) {
		case 0:
			return "<" + tag + " " + attrs + ">"
		case 1:
			if last != "" {
				return "<" + tag + " " + attrs + ">"
			}
			return "<" + tag + " " + attrs + " />"
		default:
			return "<" + tag + " " + attrs + ">" + g.text(textVars) + "</" + tag + ">"
		}
	case 10, 11, 12:
		typ := g.pick("", "", ` type="text/javascript"`, ` type=module`, ` type='module'`, ` TYPE="text/javascript"`, ` defer`, ` data-k="v"`)
		g.feat("html:script" + strings.ToLower(strings.TrimSpace(typ)))
		return "<script" + typ + ">" + g.pick("", "\n") + g.jsCode() + "</script>"
	case 13:
		typ := g.pick(` type="application/ld+json"`, ` type='application/ld+json'`, ` type=application/ld+json`)
		g.feat("html:script-ld+json")
		return "<script" + typ + ">" + g.jsonValue(0) + "</script>"
	case 14:
		g.feat("html:script-unknown-type")
		return `<script type="text/x-tmpl">` + g.text(textVars) + `</script>`
	case 15, 16:
		typ := g.pick("", "", ` type="text/css"`, ` media="screen"`)
		g.feat("html:style" + strings.TrimSpace(typ))
		return "<style" + typ + ">" + g.cssCode() + "</style>"
	case 17:
		g.feat("html:comment")
		return "<!-- " + g.pick("note", "it's", `say "x"`, "a - b", "TODO") + " " + g.hole(textVars) + " -->"
	case 18:
		g.feat("html:rawtext-xmp")
		return "<xmp>" + g.text(textVars) + "</xmp>"
	default:
		g.feat("html:doctype+entities")
		return "<!DOCTYPE html>\n<p>&lt;" + g.hole(textVars) + "&gt; &amp; &#39;" + g.hole(textVars) + "&#39;</p>"
	}
}

func (g *gen) mainDoc() doc {
	g.feats = nil
	d := doc{extra: map[string]string{}}
	n := 1 + g.r.Intn(4)
	switch g.r.Intn(10) {
	case 0:
		d.format = "js"
		for i := 0; i < n; i++ {
			d.parts = append(d.parts, g.jsStmt()+g.pick("\n", " ", "\n  "))
		}
		g.feat("file:js")
	case 1:
		d.format = "css"
		for i := 0; i < n; i++ {
			d.parts = append(d.parts, g.cssRule()+g.pick("\n", " "))
		}
		g.feat("file:css")
	case 2:
		d.format = "json"
		d.parts = []string{g.jsonValue(0)}
		g.feat("file:json")
	case 3:
		d.format = "md"
		for i := 0; i < n; i++ {
			d.parts = append(d.parts, g.mdBlock())
		}
		g.feat("file:md")
	default:
		d.format = "html"
		macro := g.r.Intn(8) == 0
		if macro {
			// macros and rendered files of the same format
			g.feat("html:macro+render-same-format")
			d.extra["part.html"] = "<i title=\"{{ s }}\">" + g.text(textVars) + "</i>"
			d.parts = append(d.parts, `{% macro M(x string) %}<b class='{{ x }}'>{{ x }}</b>{% end %}`)
		}
		for i := 0; i < n; i++ {
			d.parts = append(d.parts, g.htmlBlock()+g.pick("", "\n", " ", " text "))
		}
		if macro {
			d.parts = append(d.parts, `{{ render "part.html" }}`, "{{ M(s) }}")
		}
	}
	d.src = strings.Join(d.parts, "")
	d.feats = g.feats
	return d
}

func (g *gen) mdBlock() string {
	switch g.r.Intn(5) {
	case 0:
		g.feat("md:paragraph")
		return "Some " + g.hole(mdVars) + " text and " + g.hole(mdVars) + ".\n\n"
	case 1:
		g.feat("md:heading")
		return "# Title " + g.hole(mdVars) + "\n\n"
	case 2:
		g.feat("md:list")
		return "- item " + g.hole(mdVars) + "\n- two\n\n"
	case 3:
		g.feat("md:emphasis")
		return "*em* **strong** " + g.hole(mdVars) + " `code`\n\n"
	default:
		g.feat("md:link")
		return "[label](https://ex.org/" + g.hole(mdVars) + ") tail\n\n"
	}
}

// ---- the RISKY stream: one construct family per document

var riskyFamilies = []string{"js-regex", "js-template-literal", "html-comment-markup", "tag-context", "bytes-in-html",
	"render-other-format", "unquoted-empty", "attr-subcontext", "string-escaped-backslash", "js-block-comment", "css-comment-quote", "script-end-tag-slash"}

func (g *gen) riskyDoc() doc {
	g.feats = nil
	d := doc{format: "html", extra: map[string]string{}}
	fam := riskyFamilies[g.r.Intn(len(riskyFamilies))]
	d.risky = fam
	g.feat("risky:" + fam)
	v := func() string { return g.hole(valueVars) }
	h := func() string { return g.hole(textVars) }
	switch fam {
	case "js-regex":
		re := g.pick(`/"/`, `/'/g`, `/a"b/`, `/[^"]+/`, `/\//`, `/x/`, `/it's/i`)
		d.src = "<script>var r = " + re + "; var x = " + v() + `; var y = "` + h() + `";</script>`
	case "js-template-literal":
		d.src = "<script>var t = `" + g.pick("a", `"`, "it's", "a ${b} c", "") + g.pick("", h()) + "`; var x = " + v() + `; var y = '` + h() + `';</script>`
	case "html-comment-markup":
		d.src = "<!-- " + g.pick("<script>", "<style>", "<a href=\"", "<div ", "<b title='", "a < b", "<p>") + " -->" +
			g.pick(h(), `<a title="`+h()+`">`+h()+"</a>", "<p>"+h()+"</p>")
	case "tag-context":
		d.src = "<" + g.pick("div", "input", "a") + " " + g.pick("", `id="i" `) + h() + g.pick("", ` class="c"`) + ">" + g.pick("", "x</div>")
	case "bytes-in-html":
		d.src = "<p>" + g.pick("{{ bs }}", "{{ bs }} {{bs}}", "a {{ bs }} b") + "</p>"
	case "render-other-format":
		d.extra["x.txt"] = g.pick("plain {{ s }}", "<b>bold</b>", "{{ s }}")
		d.src = `<p>{{ render "x.txt" }}</p>`
	case "unquoted-empty":
		d.src = "<input value=" + h() + g.pick(" disabled>", " type=text>", ` class="c">`)
	case "css-comment-quote":
		d.src = "<style>/* " + g.pick("it's", `say "x"`, "don't") + " */ a { color: " + g.hole(cssValVars) + `; } b::after { content: "` + h() + `" }</style>`
	case "script-end-tag-slash":
		d.src = "<script>var x = 1;" + g.pick("</script/>", "</script\f>", "</style/>") + g.pick(`<a title="`+h()+`">`, "<p>"+h()+"</p>")
		if strings.Contains(d.src, "</style/>") {
			d.src = strings.Replace(d.src, "<script>var x = 1;", "<style>a{}", 1)
		}
	case "js-block-comment":
		d.src = "<script>/* " + g.word() + " " + h() + " */ var e = " + v() + ";</script>"
	case "string-escaped-backslash":
		switch g.r.Intn(3) {
		case 0:
			d.src = `<script>var p = "C:\\"; var x = ` + v() + `; var y = "` + h() + `";</script>`
		case 1:
			d.src = `<style>a::before { content: "\\"; } b { color: ` + g.hole(cssValVars) + `; } i::after { content: "` + h() + `" }</style>`
		default:
			d.src = `<script type="application/ld+json">{"p": "C:\\", "x": ` + v() + `, "y": "` + h() + `"}</script>`
		}
	default: // attr-subcontext: JS / CSS inside event and style attributes (not sub-tokenised in the main stream)
		d.src = g.pick(`<a onclick="go(`+h()+`)">x</a>`, `<a onclick='f("`+h()+`")'>x</a>`, `<p style="color: `+h()+`">x</p>`,
			`<p style='background: url("`+h()+`")'>x</p>`)
	}
	d.parts = []string{d.src}
	d.feats = g.feats
	return d
}

func (d doc) human() string {
	var b strings.Builder
	fmt.Fprintf(&b, "--- %s ---\n%s\n", d.fileName(), d.src)
	for n, s := range d.extra {
		fmt.Fprintf(&b, "--- %s ---\n%s\n", n, s)
	}
	return b.String()
}
