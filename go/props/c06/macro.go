package main

// The typed-macro-result × showing-context matrix (property C06, "directly or through macros,
// imports and rendered files").
//
// A CONTENT is a piece of template text of one result format (string/text, html, css, js, json,
// markdown) that shows an untrusted string in the contexts of that format. It reaches the page
//
//   - as the body of a macro of that result format, declared LOCALLY with an explicit result type
//     (`{% macro M(v string) html %}…{% end %}`) or in an IMPORTED file of that format
//     (`{% import "m.html" %}`, implicit result type), and called
//     directly in a show `{{ M(s) }}`               — the emitter's fast path (canOptimizeShowMacro),
//     or through a variable `{% var r = M(s) %}{{ r }}` — the generic path (renderer.Show);
//   - as a file of that format shown with `{{ render "p.html" }}` (fast path) or
//     `{% var r = render "p.html" %}{{ r }}` (generic path).
//
// The show stands in every context of every file format (HTML text, attributes, script / style
// elements and their strings, JSON scripts; CSS, JS, JSON files; Markdown paragraphs, headings,
// link destinations, code blocks; text files).
//
// Oracles, per (content, declaration, context, value):
//
//	fast-path-differs-from-generic-path   the two call forms must give byte-identical output;
//	token-structure-differs               both outputs must have the token structure (x/net/html,
//	                                      goldmark, encoding/json, JS / CSS tokenizers) of the
//	                                      rendering with the benign marker.
//
// The whole matrix is enumerated on every run; the values are, per document, context-breaking
// strings for the formats involved plus draws from the dictionary of vars.go.

import (
	"fmt"
	"os"
	"sort"
	"strings"
	"unicode/utf8"

	"verifharness/internal/hx"
	"verifharness/internal/proto"
)

// showCtx is one showing context: the file format and the literal text around the show.
type showCtx struct {
	format    string // file format: html, css, js, json, md, txt
	name      string
	pre, post string
	// the format of the Scriggo context when it is one of the six top-level contexts ("" for
	// attributes, strings and code blocks, where no fast path exists)
	top string
	// the show stands in a URL (the emitter's inURL flag is set)
	url bool
}

var showCtxs = []showCtx{
	{"html", "html:text", "<p>A ", " B</p>", "html", false},
	{"html", "html:attr-dq", `<a title="x `, `">t</a>`, "", false},
	{"html", "html:attr-sq", `<a title='x `, `'>t</a>`, "", false},
	{"html", "html:attr-unquoted", `<a data-x=a`, ` id=i>t</a>`, "", false},
	{"html", "html:attr-url", `<a href="/p/`, `">t</a>`, "", true},
	{"html", "html:script", "<script>var a = ", ";</script>", "js", false},
	{"html", "html:script-string", `<script>var a = "x`, `";</script>`, "", false},
	{"html", "html:style", "<style>a { color: ", " }</style>", "css", false},
	{"html", "html:style-string", `<style>a::before { content: "x`, `" }</style>`, "", false},
	{"html", "html:ld+json", `<script type="application/ld+json">{"k": `, `}</script>`, "json", false},
	{"html", "html:ld+json-string", `<script type="application/ld+json">{"k": "x`, `"}</script>`, "", false},
	{"css", "css:value", "a { color: ", " }\n", "css", false},
	{"css", "css:string", `a::before { content: "x`, "\" }\n", "", false},
	{"js", "js:value", "var a = ", ";\n", "js", false},
	{"js", "js:string", `var a = "x`, "\";\n", "", false},
	{"json", "json:value", `{"k": `, `}`, "json", false},
	{"json", "json:string", `{"k": "x`, `"}`, "", false},
	{"md", "md:paragraph", "Some ", " text.\n\n", "md", false},
	{"md", "md:heading", "# Title ", "\n\ntail\n", "md", false},
	{"md", "md:list", "- item ", "\n- two\n\n", "md", false},
	{"md", "md:emphasis", "*em* **strong** ", " `code`\n\n", "md", false},
	{"md", "md:link-destination", "[label](https://ex.org/", ") tail\n\n", "md", true},
	{"md", "md:tab-code-block", "para\n\n\tcode ", " x\n\ntail\n", "", false},
	{"md", "md:spaces-code-block", "para\n\n    code ", " x\n\ntail\n", "", false},
	{"txt", "txt:text", "A ", " B\n", "text", false},
}

// content is one body: `§` stands for the shown string (the macro's parameter, or the global `s`
// in a rendered file).
type content struct {
	res  string // result type as written in a macro declaration
	ext  string // extension of a file of that format
	name string
	body string
}

var contents = []content{
	{"string", "txt", "string:value", "§"},
	{"string", "txt", "string:bracketed", "[§] and §"},
	{"html", "html", "html:value-before-tag", "§<i>t</i>"},
	{"html", "html", "html:attr+text", `<b title="§">t§</b>`},
	{"html", "html", "html:script-in-body", `<u>t§</u><script>var q = §;</script>`},
	{"css", "css", "css:value", `§ !important`},
	{"css", "css", "css:string", `url("x§") §`},
	{"js", "js", "js:call", `f(§, "x§")`},
	{"js", "js", "js:object", `{k: §, 'j': 'x§'}`},
	{"json", "json", "json:object", `{"k": §, "s": "x§"}`},
	{"json", "json", "json:array", `[§, "x§", 1]`},
	{"markdown", "md", "markdown:value", `x§`}, // never empty: an empty Markdown document converts to nothing
	{"markdown", "md", "markdown:emphasis", `*em* § tail`},
	{"markdown", "md", "markdown:link", `[l](https://ex.org/§) t§`}, // a show never makes up a text node on its own: an empty value must not remove a node
	{"markdown", "md", "markdown:after-inline-html", `<b>t</b> § tail`},
}

// prefix is a template construct standing in a macro body before the content; each writes one space
type prefix struct{ name, src string }

var prefixes = []prefix{
	{"none", ""},
	{"raw", "{% raw %} {% end %}"},
	{"raw-marker", "{% raw m %} {% end raw m %}"},
	{"if", "{% if true %} {% end %}"},
	{"if-else", "{% if false %}{% else %} {% end if %}"},
	{"for", "{% for i := 0; i < 1; i++ %} {% end %}"},
	{"switch", "{% switch %}{% default %} {% end %}"},
	{"comment", "{# c #} "},
	{"raw-in-if", "{% if true %}{% raw %} {% end %}{% end %}"},
}

func formatOfRes(res string) string {
	switch res {
	case "string":
		return "text"
	case "markdown":
		return "md"
	}
	return res
}

// compatible: the pairs (result format, top-level context) for which writing the content straight
// into the page is what renderer.Show does with the collected result: the same format, and
// Markdown in HTML (converted). The specification of the fast paths (cf. Props/C06.lean
// macro_fast_path_sound, stated over the regenerated tables).
func compatible(resFormat, top string) bool {
	return top != "" && (resFormat == top || resFormat == "md" && top == "html")
}

// breakers: per format, strings that change the structure of a document of that format when they
// are written without the escaping of that format
var breakers = map[string][]string{
	"html": {`<b>"x'&`, `"><script>alert(1)</script>`},
	"css":  {`red;} body{display:none`, `"}</style><b>`},
	"js":   {`";alert(1)//`, `'</script><b>`},
	"json": {`","x":"`, `"}, {"a": [1]`},
	"md":   {"[t](javascript:alert(1)) *b* `c`", `![i](http://evil.example/p.png) **a** _e_`},
	"text": {`<i>*x*</i>`},
	"txt":  {`<i>*x*</i>`},
}

type matrixDoc struct {
	ctx    showCtx
	con    content
	decl   string // "local", "import", "render"
	pfx    prefix // the construct before the content in the macro body
	fast   doc
	slow   doc
	pre    string // text of the fast document before the show
	post   string
	partFn string // render: name of the rendered file
}

// declPrefixes: the declaration forms x the constructs before the content (a rendered file has no
// result type of its own to lose: plain only)
var declPrefixes = func() (out []struct {
	decl string
	pfx  prefix
}) {
	for _, d := range []string{"local", "import"} {
		for _, p := range prefixes {
			out = append(out, struct {
				decl string
				pfx  prefix
			}{d, p})
		}
	}
	return append(out, struct {
		decl string
		pfx  prefix
	}{"render", prefixes[0]})
}()

func matrixDocs() []matrixDoc {
	var out []matrixDoc
	for _, cx := range showCtxs {
		for _, cn := range contents {
			for _, dp := range declPrefixes {
				decl, pf := dp.decl, dp.pfx
				if decl == "render" && cx.url {
					// a file first rendered inside a URL is compiled in URL mode for all its uses
					// (C16 / render-inherits-inurl): no prediction for the fast path there
					continue
				}
				m := matrixDoc{ctx: cx, con: cn, decl: decl, pfx: pf}
				body := pf.src + cn.body
				extra := map[string]string{}
				var head, call string
				switch decl {
				case "local":
					head = "{% macro M(v string) " + cn.res + " %}" + strings.ReplaceAll(body, "§", "{{ v }}") + "{% end %}"
					call = "M(s)"
				case "import":
					extra["m."+cn.ext] = "{% macro M(v string) %}" + strings.ReplaceAll(body, "§", "{{ v }}") + "{% end %}"
					head = `{% import "m.` + cn.ext + `" %}`
					call = "M(s)"
				default:
					m.partFn = "p." + cn.ext
					extra[m.partFn] = strings.ReplaceAll(body, "§", "{{ s }}")
					call = `render "` + m.partFn + `"`
				}
				mk := func(parts ...string) doc {
					return doc{format: cx.format, src: strings.Join(parts, ""), parts: parts, extra: extra,
						feats: []string{"matrix:" + cx.name + " <- " + cn.name + " (" + decl + ", " + pf.name + ")"}, risky: "macro-matrix"}
				}
				m.pre, m.post = head+cx.pre, cx.post
				m.fast = mk(head, cx.pre, "{{ "+call+" }}", cx.post)
				m.slow = mk(head, "{% var r = "+call+" %}", cx.pre, "{{ r }}", cx.post)
				out = append(out, m)
			}
		}
	}
	return out
}

// matrixFailure is one failing (document pair, value)
type matrixFailure struct {
	m      matrixDoc
	fb, sb *built
	val    string
	clause string
	detail string
	fout   string
	sout   string
}

// checkPair: clause "" = holds. A broken structure of the directly shown form is reported before
// a mere difference between the two forms.
func checkPair(m matrixDoc, fb, sb *built, v string) (clause, detail, fout, sout string) {
	val := same(v)
	fc, fd, fout := fb.check(val)
	sc, sd, sout := sb.check(val)
	if fc == "run-error" || sc == "run-error" {
		if fc != sc {
			return "fast-path-differs-from-generic-path", "one form fails at run time: fast: " + fd + "; generic: " + sd, fout, sout
		}
		return "", "", fout, sout
	}
	switch {
	case fc != "":
		if fout != sout {
			fd += fmt.Sprintf("\n(and the form {%% var r = X %%}{{ r }} prints %q)", sout)
		}
		return fc, fd, fout, sout
	case fout != sout:
		return "fast-path-differs-from-generic-path", fmt.Sprintf("{{ X }} and {%% var r = X %%}{{ r }} differ:\n  fast:    %q\n  generic: %q", fout, sout), fout, sout
	case sc != "":
		return sc, "(generic path) " + sd, fout, sout
	}
	return "", "", fout, sout
}

// rawSplice: what the page prints when the content is written as it is — its own rendering as a
// standalone file of its format — in place of the show, with no conversion for the context. A
// prediction from the input and the rendering of ANOTHER document (the content on its own).
func rawSplice(m matrixDoc, v string) (string, bool) {
	pb, err := build(doc{format: m.con.ext, src: strings.ReplaceAll(m.pfx.src+m.con.body, "§", "{{ s }}"), extra: map[string]string{}})
	if err != nil {
		return "", false
	}
	pout, err := runTemplate(pb.t, varsFor(same(v)))
	if err != nil {
		return "", false
	}
	return m.ctx.pre + pout + m.ctx.post, true
}

// classifyMatrix maps a failing matrix case to the known finding it is an instance of. A class is a
// prediction of the wrong output computed from the input (and from renderings of OTHER documents),
// never from the failing output itself: both classes say "the fast path writes the content with no
// conversion where the generic path converts", for the matrix points where the unchanged tree does so.
func classifyMatrix(f matrixFailure, cc *ctxClass) string {
	if cc != nil {
		// the lexer-context classes (macroclass.go): both forms print exactly the predicted page
		if want, ok := cc.predictOutput(f.m, f.val); ok && f.fout == want && f.sout == want {
			return cc.id
		}
		return ""
	}
	if f.fout == f.sout {
		return "" // the two classes below are about the directly shown form deviating from the generic one
	}
	resFormat := formatOfRes(f.m.con.res)
	var id string
	switch {
	case f.m.decl == "render" && !f.m.ctx.url && !compatible(resFormat, f.m.ctx.top):
		// the *ast.Render fast path has no format / context test
		id = "render-fastpath-format"
		// (a class macro-fastpath-ignores-url — canOptimizeShowMacro did not look at the emitter's inURL
		// flag — stood here until 173b2b7 repaired it; a `{{ M() }}` in a URL that deviates from the
		// variable form is a violation now)
	default:
		return ""
	}
	if want, ok := rawSplice(f.m, f.val); ok && f.fout == want {
		return id
	}
	return ""
}

// formatCode: ast.Format / the first six ast.Context codes
var formatCode = map[string]int{"text": 0, "html": 1, "css": 2, "js": 3, "json": 4, "md": 5}

// specFastPath: the harness's own statement of where a fast path is right (`compatible`, used to
// delimit the finding classes) against Model/MacroFast.lean evaluated over the regenerated
// dispatch tables of renderer.go: the generic path leaves a result of format f as it is, or hands
// it to the converter, in a format context c  <=>  compatible(f, c) or c is Text.
func specFastPath(c *hx.Ctx) error {
	if c.D == nil {
		return nil
	}
	names := []string{"text", "html", "css", "js", "json", "md"}
	var lines []string
	for f := 0; f < 6; f++ {
		for cx := 0; cx < 14; cx++ {
			lines = append(lines, fmt.Sprintf("C06 fastpath %d %d", f, cx))
		}
	}
	ans, err := c.D.Batch(lines)
	if err != nil {
		return err
	}
	k := 0
	for f := 0; f < 6; f++ {
		for cx := 0; cx < 14; cx++ {
			a := strings.Fields(ans[k])
			k++
			if len(a) != 6 || a[0] != "ok" {
				return fmt.Errorf("driver: %q -> %q", lines[k-1], ans[k-1])
			}
			model := cx < 6 && (a[4] == "identity" || a[4] == "converter")
			spec := cx < 6 && (compatible(names[f], names[cx]) || cx == 0)
			c.Res.SpecChecks["fast-path-spec-agrees-with-dispatch-tables"]++
			if a[1] == "1" {
				c.Res.Hist("model:macro-fast-path-accepts:" + names[f] + "->" + fmt.Sprint(cx))
			}
			if model != spec {
				c.Res.AddBreak(proto.Break{Kind: "correspondence", Name: "spec-validation-fastpath", Case: lines[k-1],
					Human: fmt.Sprintf("result format %s in context %d: the harness's specification says written-as-is/converted = %v, the regenerated dispatch tables say %s", names[f], cx, spec, a[4]),
					Impl:  fmt.Sprint(spec), Model: ans[k-1]})
			}
		}
	}
	return nil
}

func macroMatrix(c *hx.Ctx) {
	res := c.Res
	docs := matrixDocs()
	nRand := c.N(3, 16)
	reported := map[string]int{}
	for _, m := range docs {
		fb, ferr := build(m.fast)
		sb, serr := build(m.slow)
		key := "matrix:" + formatOfRes(m.con.res) + "->" + m.ctx.name + ":" + m.decl
		pkey := key + "\x00" + m.con.name + "\x00" + m.pfx.name
		if ferr != nil || serr != nil {
			res.Hist("matrix-build-error:" + m.ctx.name + " <- " + m.con.res)
			if (ferr == nil) != (serr == nil) {
				res.AddBreak(proto.Break{Kind: "property", Name: "fast-path-differs-from-generic-path (macro-matrix stream)",
					Case:  "C06 matrix " + m.fast.format + " " + proto.Hex([]byte(m.fast.src)),
					Human: fmt.Sprintf("one call form builds, the other does not:\n%s-> %v\n%s-> %v", m.fast.human(), ferr, m.slow.human(), serr),
					Impl:  fmt.Sprint(ferr), Model: fmt.Sprint(serr)})
			}
			continue
		}
		fb.structOnly, sb.structOnly = true, true
		cc := predictCtxClass(m)
		if cc != nil && !c.HasFinding(cc.id) {
			cc = nil // a class that is not recorded as open explains nothing
		}
		res.Hist(key)
		// values: breakers of the formats that meet here, then random draws
		var vals []string
		seen := map[string]bool{}
		add := func(v string) {
			if !seen[v] {
				seen[v] = true
				vals = append(vals, v)
			}
		}
		add(benign[0])
		add("") // always: an empty value must not remove a node of the document
		fmts := []string{m.ctx.format, formatOfRes(m.con.res)}
		if m.ctx.top != "" {
			fmts = append(fmts, m.ctx.top)
		}
		sort.Strings(fmts)
		for _, f := range fmts {
			for _, v := range breakers[f] {
				add(v)
			}
		}
		for i := 0; i < nRand; i++ {
			add(randValue(c.R))
		}
		mdish := m.ctx.format == "md" || m.con.ext == "md"
		admissible := func(v string) bool {
			if mdish && strings.ContainsAny(v, "\t\r\n\f\v") {
				return false // line structure of Markdown values is property C26
			}
			if mdish && (!utf8.ValidString(v) || strings.ContainsRune(v, '\uFFFD')) {
				// CommonMark is defined over characters; goldmark on invalid UTF-8 is no reference, and
				// it does not recognise inline HTML whose attribute value holds U+FFFD (cmark does)
				return false
			}
			return true
		}
		for _, v := range vals {
			if !admissible(v) {
				continue
			}
			nontrivial := strings.IndexFunc(v, func(r rune) bool {
				return !('a' <= r && r <= 'z' || 'A' <= r && r <= 'Z' || '0' <= r && r <= '9')
			}) >= 0
			res.Count("matrix\x00"+m.fast.src+"\x00"+m.con.body+"\x00"+v, nontrivial)
			clause, detail, fout, sout := checkPair(m, fb, sb, v)
			if cc != nil {
				// precision of the class's prediction, on every value (failing or not)
				res.Hist("class-precision/" + cc.id + "/cases")
				if want, ok := cc.predictOutput(m, v); ok && fout == want && sout == want {
					res.Hist("class-precision/" + cc.id + "/as-predicted")
				}
			}
			if clause == "" {
				continue
			}
			res.Hist("matrix-failing:" + clause)
			f := matrixFailure{m: m, fb: fb, sb: sb, val: v, clause: clause, detail: detail, fout: fout, sout: sout}
			id := classifyMatrix(f, cc)
			if id == "" || !c.HasFinding(id) {
				res.Hist("matrix-unexplained:" + clause + ": " + m.ctx.name + " <- " + m.con.name + " (" + m.decl + ", " + m.pfx.name + ")")
			}
			rk := pkey + "\x00" + clause + "\x00" + id
			if reported[rk] > 0 {
				continue // one report per (pair, declaration, clause, class)
			}
			reported[rk]++
			// shrink the value, keeping clause and attribution
			sv := string(hx.ShrinkBytes([]byte(v), func(b []byte) bool {
				if !admissible(string(b)) {
					return false
				}
				cl, de, fo, so := checkPair(m, fb, sb, string(b))
				if cl != clause {
					return false
				}
				return classifyMatrix(matrixFailure{m: m, fb: fb, sb: sb, val: string(b), clause: cl, detail: de, fout: fo, sout: so}, cc) == id
			}))
			cl, de, fo, so := checkPair(m, fb, sb, sv)
			if cl != clause {
				sv, de, fo, so = v, detail, fout, sout
			}
			shown := m.fast
			if fo == so && strings.HasPrefix(de, "(generic path)") {
				shown = m.slow
			}
			human := fmt.Sprintf("%sshown value s = %q\nbenign output:           %q\noutput, {{ X }}:         %q\noutput, via a variable: %q\n%s\n[matrix point: %s content %q after %q, %s, in context %s; value before shrinking %q]",
				shown.human(), sv, fb.benign, fo, so, de, m.con.res, m.con.body, m.pfx.src, m.decl, m.ctx.name, v)
			br := proto.Break{Kind: "property", Name: clause + " (macro-matrix stream)",
				Case:  fmt.Sprintf("C06 matrix %s %s value %s", shown.format, proto.Hex([]byte(shown.src)), proto.Hex([]byte(sv))),
				Human: human, Impl: fo, Model: so}
			if id != "" {
				br.Finding = c.Known(id)
				if br.Finding == "" {
					br.Name += " [class " + id + " — not listed in known_findings.json]"
				}
			}
			if os.Getenv("VERIF_C06_DEBUG") != "" && br.Finding == "" {
				fmt.Fprintf(os.Stderr, "UNEXPLAINED %s\n%s\n\n", br.Name, br.Human)
			}
			res.AddBreak(br)
		}
	}
}
