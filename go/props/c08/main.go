package main

import (
	"context"
	"encoding/json"
	"fmt"
	"math"
	"os"
	"os/exec"
	"reflect"
	"regexp"
	"runtime/debug"
	"sort"
	"strconv"
	"strings"
	"time"
	"unicode/utf8"

	"github.com/open2b/scriggo"
	"github.com/open2b/scriggo/native"
	hook "github.com/open2b/scriggo/verifhook/c08"

	"verifharness/internal/hx"
	"verifharness/internal/proto"
)

// C08: values shown as JavaScript or JSON are valid literals for the same data.
//
//   - correspondence: showInJS / showInJSON (called through the verif hook, and through real
//     templates: .js, .json, <script> and <script type="application/ld+json"> in HTML with the
//     value as a global variable) against Model/ShowValue.lean as exact strings; parseTagValue
//     against the model; absScriggo (Spec/ShowAbs.lean) against the decoded real output;
//   - the property's oracle on the real output, independent of the model: encoding/json.Valid
//     and the data json.Marshal defines (member order included) for JSON; a JS literal
//     recogniser written from ECMA-262 and the same data for JS;
//   - validation of the specification: Spec/JSON.lean against encoding/json, absStd against
//     json.Marshal, and the float-formatting assumption (strconv.FormatFloat 'f' -1 yields an
//     RFC 8259 number for every finite float).
//
// Known differences (known_findings.json) are attributed by repair: the shrunk failing case
// must stop failing when exactly that feature is removed. Anything else is a violation.
func main() {
	if len(os.Args) > 2 && os.Args[1] == "-c08child" {
		child(os.Args[2])
		return
	}
	hx.Main("C08", run)
}

func strconvQuote(s string) string { return strconv.Quote(s) }

// ---------------------------------------------------------------- real code

type templ struct {
	t        *scriggo.Template
	pre, suf string
	js       bool
}

var tmplVar any
var templates = map[string]*templ{}

func buildTemplates() error {
	for _, d := range []struct {
		ctx, file, pre, suf string
		js                  bool
	}{
		{"tjs", "index.js", "var v = ", ";\n", true},
		{"tjson", "index.json", "[", "]", false},
		{"tscript", "index.html", "<script>f(", ")</script>", true},
		{"tldjson", "index.html", `<script type="application/ld+json">{"v":`, "}</script>", false},
	} {
		fsys := scriggo.Files{d.file: []byte(d.pre + "{{ v }}" + d.suf)}
		t, err := scriggo.BuildTemplate(fsys, d.file, &scriggo.BuildOptions{Globals: native.Declarations{"v": &tmplVar}})
		if err != nil {
			return fmt.Errorf("template %s: %v", d.ctx, err)
		}
		templates[d.ctx] = &templ{t: t, pre: d.pre, suf: d.suf, js: d.js}
	}
	return nil
}

func ctxIsJS(ctx string) bool { return ctx == "js" || ctx == "tjs" || ctx == "tscript" }

type outcome struct {
	out      string
	err      string
	panicked string
}

func (o outcome) line() string {
	switch {
	case o.panicked != "":
		return "err panic"
	case o.err != "":
		return "err error"
	}
	return "ok " + hexs(o.out)
}

// runReal shows x in the context on the real code.
func runReal(ctx string, x any) (o outcome) {
	defer func() {
		if r := recover(); r != nil {
			o.panicked = fmt.Sprint(r)
		}
	}()
	if t, ok := templates[ctx]; ok {
		tmplVar = x
		var b strings.Builder
		err := t.t.Run(&b, nil, nil)
		tmplVar = nil
		if err != nil {
			o.err = err.Error()
			return
		}
		s := b.String()
		if !strings.HasPrefix(s, t.pre) || !strings.HasSuffix(s, t.suf) || len(s) < len(t.pre)+len(t.suf) {
			o.err = "template text around the value changed: " + s
			return
		}
		o.out = s[len(t.pre) : len(s)-len(t.suf)]
		return
	}
	out, err := hook.Show(ctx == "js", x)
	o.out = out
	if err != nil {
		o.err = err.Error()
	}
	return
}

// ---------------------------------------------------------------- the property's oracle

type evaluated struct {
	x      any
	desc   string
	f      features
	o      outcome
	clause string // "" or the clause of the property that fails
	detail string
	std    *data // what encoding/json gives, when comparable
}

func describeCase(tc tcase) (x any, desc string, f features, ok bool) {
	defer func() {
		if r := recover(); r != nil {
			ok = false
		}
	}()
	x = build(anyType, tc.v).Interface()
	d := &describer{}
	desc = d.value(x)
	return x, desc, d.f, true
}

func comparable_(f features) bool {
	return !f.envelope && !f.errorValue && !f.yearRange && !f.keyNotStd && !f.other &&
		!f.badTagName && !f.dupNames && !f.dupKeys && !f.unsafeAny
}

// evaluate runs the real code on the case and applies the oracle.
func evaluate(tc tcase) (e evaluated, ok bool) {
	e.x, e.desc, e.f, ok = describeCase(tc)
	if !ok {
		return e, false
	}
	e.o = runReal(tc.ctx, e.x)
	js := ctxIsJS(tc.ctx)
	switch {
	case e.o.panicked != "":
		e.clause, e.detail = "does-not-panic", e.o.panicked
		return
	case e.o.err != "":
		e.clause, e.detail = "returns-no-error", e.o.err
		return
	}
	if (js && e.f.rawBadJS) || (!js && e.f.rawBadJSON) {
		return // an envelope type supplied text that is not a literal: the host's business
	}
	var got *data
	var err error
	if js {
		got, err = decodeJS(e.o.out)
		if err != nil {
			e.clause, e.detail = "js-output-is-one-literal-expression", err.Error()
			return
		}
	} else {
		got, err = decodeJSON([]byte(e.o.out))
		if err != nil {
			e.clause, e.detail = "json-output-is-valid-json", err.Error()
			return
		}
	}
	if t, isTime := e.x.(time.Time); isTime && js && got.kind == "date" && t.Year() >= 0 && t.Year() <= 9999 {
		// the Date constructor's argument must denote the instant of the value (to the millisecond)
		p, err := time.Parse("2006-01-02T15:04:05.000Z07:00", got.s)
		if err != nil || !p.Equal(t.Truncate(time.Millisecond)) {
			e.clause = "js-date-denotes-the-same-instant"
			e.detail = fmt.Sprintf("value %s, Date argument %q parsed as %v (%v)", t.Format(time.RFC3339Nano), got.s, p, err)
			return
		}
	}
	if !comparable_(e.f) || (js && e.f.timeValue) {
		return
	}
	m, err := marshalStd(e.x)
	if err != nil {
		return // encoding/json does not accept the value: nothing to compare with
	}
	e.std, err = decodeJSON(m)
	if err != nil {
		return
	}
	if !dataEq(got, e.std, true) {
		if js {
			e.clause = "js-output-is-the-data-encoding/json-defines"
		} else {
			e.clause = "json-output-is-the-data-encoding/json-defines"
		}
		e.detail = "encoding/json: " + string(m)
	}
	return
}

func marshalStd(x any) (b []byte, err error) {
	defer func() {
		if r := recover(); r != nil {
			err = fmt.Errorf("panic: %v", r)
		}
	}()
	return json.Marshal(x)
}

// ---------------------------------------------------------------- classification

var classFinding = map[string]string{
	"nonfinite":  "nonfinite-float-not-a-literal",
	"unsafe":     "unsafe-pointer-host-panic",
	"stringopt":  "json-string-option-ignored",
	"nilbytes":   "nil-byte-slice-shown-as-empty-string",
	"embedded":   "embedded-struct-not-flattened",
	"omitzero":   "json-omitzero-option-ignored",
	"namedbytes": "named-byte-slice-shown-as-array",
	"subsecond":  "json-time-fraction-dropped",
	"offsetsec":  "js-date-offset-seconds-dropped",
	"utcnamed":   "js-date-zone-named-utc-shown-as-z",
}

func hasClass(f features, class string) bool {
	switch class {
	case "nonfinite":
		return f.nonFinite
	case "unsafe":
		return f.unsafeNonNil
	case "stringopt":
		return f.stringOpt
	case "nilbytes":
		return f.nilBytes
	case "embedded":
		return f.embedded
	case "omitzero":
		return f.omitzero
	case "namedbytes":
		return f.namedBytes
	case "subsecond":
		return f.subSecond
	case "offsetsec":
		return f.offsetSeconds
	case "utcnamed":
		return f.utcNamed
	}
	return false
}

// attribute: the known class the (shrunk) failing case belongs to, or "".
func attribute(tc tcase, e evaluated) string {
	passes := func(c tcase) bool {
		r, ok := evaluate(c)
		return ok && r.clause == ""
	}
	var present []string
	for _, cl := range repairClasses {
		if hasClass(e.f, cl) {
			present = append(present, cl)
			if r, ok := repair(cl, tc); ok && passes(r) {
				return cl
			}
		}
	}
	if len(present) > 1 {
		cur, ok := tc, true
		for _, cl := range present {
			if ok {
				cur, ok = repair(cl, cur)
			}
		}
		if ok && passes(cur) {
			return present[0]
		}
	}
	return ""
}

// ---------------------------------------------------------------- child process (stack overflow)

type cycNode struct{ Next *cycNode }

func child(what string) {
	debug.SetMaxStack(32 << 20)
	if err := buildTemplates(); err != nil {
		fmt.Println("build:", err)
		os.Exit(3)
	}
	switch what {
	case "cyclic-json", "cyclic-js":
		n := &cycNode{}
		n.Next = n
		ctx := "tjson"
		if what == "cyclic-js" {
			ctx = "tjs"
		}
		o := runReal(ctx, n)
		fmt.Printf("returned: out=%d bytes err=%q panic=%q\n", len(o.out), o.err, o.panicked)
		if o.panicked != "" {
			os.Exit(4)
		}
	default:
		os.Exit(5)
	}
}

func runChild(what string) (failing bool, detail string) {
	ctx, cancel := context.WithTimeout(context.Background(), 60*time.Second)
	defer cancel()
	cmd := exec.CommandContext(ctx, os.Args[0], "-c08child", what)
	out, err := cmd.CombinedOutput()
	s := string(out)
	if err == nil {
		return false, strings.TrimSpace(s)
	}
	if i := strings.Index(s, "\n\n"); i > 0 {
		s = s[:i]
	}
	if len(s) > 300 {
		s = s[:300]
	}
	return true, fmt.Sprintf("child process: %v: %s", err, s)
}

// ---------------------------------------------------------------- run

var ecmaRe = regexp.MustCompile(`^([0-9]{4}|[+-][0-9]{6})-([0-9]{2})-([0-9]{2})T([0-9]{2}):([0-9]{2}):([0-9]{2})\.([0-9]{3})(Z|[+-][0-9]{2}:[0-9]{2})$`)
var rfcRe = regexp.MustCompile(`^([0-9]{4})-([0-9]{2})-([0-9]{2})T([0-9]{2}):([0-9]{2}):([0-9]{2})(Z|[+-][0-9]{2}:[0-9]{2})$`)
var rfc8259Number = regexp.MustCompile(`^-?(0|[1-9][0-9]*)(\.[0-9]+)?([eE][+-]?[0-9]+)?$`)

func run(c *hx.Ctx) error {
	res := c.Res
	res.Rule = "random Go values of random types (reflect.StructOf/SliceOf/MapOf/ArrayOf/PointerTo over all basic kinds, named types, " +
		"[]byte, time.Time, error and JS/JSON envelope types, declared structs with unexported and embedded fields; json tags with " +
		"-, omitempty, string, omitzero, odd option lists; nil at every level; extreme ints and floats incl. NaN/±Inf) held in an `any`, " +
		"shown by showInJS and showInJSON directly and (every 6th) through .js/.json/<script>/ld+json templates; a case (context, value) is " +
		"non-trivial when the value is a container or a string with a byte that needs escaping; distinct by (context, value text)"
	if err := buildTemplates(); err != nil {
		return err
	}
	g := &gen{r: c.R}

	report := func(tc tcase, e evaluated, model string) {
		failing := func(c tcase) bool {
			r, ok := evaluate(c)
			return ok && r.clause == e.clause
		}
		min := shrink(tc, failing)
		me, _ := evaluate(min)
		b := proto.Break{Kind: "property", Name: me.clause, Case: "C08 " + min.String(),
			Human: fmt.Sprintf("%s of %#v; driver: C08 show %s %s", min.ctx, me.x, modeOf(min.ctx), me.desc),
			Impl:  me.o.line() + "  " + strconv.Quote(me.o.out) + "  " + me.detail, Model: model}
		if mm, err := c08ask("C08 show " + modeOf(min.ctx) + " " + me.desc); err == nil {
			b.Model = mm
		}
		if cl := attribute(min, me); cl != "" {
			b.Finding = c.Known(classFinding[cl])
			if b.Finding == "" {
				b.Name += " (class " + cl + ", not listed in known_findings.json)"
			}
		}
		res.AddBreak(b)
	}

	// 0. replay of a recorded case
	var cases []tcase
	if c.Replay != "" {
		if data, err := os.ReadFile(c.Replay); err == nil {
			var rp struct {
				Case string `json:"case"`
			}
			if json.Unmarshal(data, &rp) == nil && strings.HasPrefix(rp.Case, "C08 ") {
				if tc, err := parseCase(strings.TrimPrefix(rp.Case, "C08 ")); err == nil {
					cases = append(cases, tc)
					res.Notes = append(res.Notes, "replaying "+tc.String()+" first")
				} else {
					res.Notes = append(res.Notes, "replay case not parsed: "+err.Error())
				}
			}
		}
	}

	// 1. recorded findings: replay `minimal` on the real code
	for _, f := range c.Findings {
		if strings.HasPrefix(f.Minimal, "child ") {
			what := strings.TrimPrefix(f.Minimal, "child ")
			if failing, detail := runChild(what); failing {
				res.AddBreak(proto.Break{Kind: "property", Name: "does-not-crash-the-process", Case: "C08 " + f.Minimal,
					Human: "a pointer cycle (n.Next = n) shown in a template", Impl: detail, Model: "-", Finding: f.ID})
			}
			res.Hist("finding-replays")
			continue
		}
		tc, err := parseCase(f.Minimal)
		if err != nil {
			return fmt.Errorf("known_findings.json: %s: %v", f.ID, err)
		}
		e, ok := evaluate(tc)
		res.Hist("finding-replays")
		if ok && e.clause != "" {
			res.AddBreak(proto.Break{Kind: "property", Name: e.clause, Case: "C08 " + tc.String(),
				Human: fmt.Sprintf("%s of %#v", tc.ctx, e.x), Impl: e.o.line() + "  " + strconv.Quote(e.o.out) + "  " + e.detail,
				Model: "-", Finding: f.ID})
		}
	}

	// 2. specification checks
	if err := specChecks(c, g); err != nil {
		return err
	}

	// 3. random values
	n := c.N(2500, 60000)
	for i := 0; i < n; i++ {
		depth := 1 + c.R.Intn(4)
		t := g.typ(depth)
		for t.Kind() == reflect.Interface {
			t = g.typ(depth)
		}
		v := &val{Dyn: t, Elems: []*val{g.value(t, depth+1)}}
		if c.R.Intn(60) == 0 {
			v = &val{Nil: true}
		}
		cases = append(cases, tcase{ctx: "js", v: v}, tcase{ctx: "json", v: v})
		if i%6 == 0 {
			for _, ctx := range []string{"tjs", "tjson", "tscript", "tldjson"} {
				cases = append(cases, tcase{ctx: ctx, v: v})
			}
		}
	}

	for i := 0; i < c.N(300, 5000); i++ { // times on their own: the instant oracle looks at top-level times
		v := &val{Dyn: timeType, Elems: []*val{g.value(timeType, 1)}}
		cases = append(cases, tcase{ctx: "js", v: v}, tcase{ctx: "json", v: v})
		if i%4 == 0 {
			cases = append(cases, tcase{ctx: "tscript", v: v})
		}
	}

	type pending struct {
		tc tcase
		e  evaluated
	}
	const batch = 4000
	mismatches := 0
	for lo := 0; lo < len(cases); lo += batch {
		hi := min(lo+batch, len(cases))
		var ps []pending
		var lines []string
		for _, tc := range cases[lo:hi] {
			e, ok := evaluate(tc)
			if !ok {
				res.Hist("skipped-method-panics-on-nil-receiver")
				continue
			}
			ps = append(ps, pending{tc, e})
			lines = append(lines, "C08 show "+modeOf(tc.ctx)+" "+e.desc, "C08 abs "+modeOf(tc.ctx)+" "+e.desc)
		}
		var model []string
		if c.D != nil {
			var err error
			model, err = c.D.Batch(lines)
			if err != nil {
				return err
			}
		}
		for i, p := range ps {
			tc, e := p.tc, p.e
			text := tc.String()
			res.Count(text, nontrivial(tc.v))
			res.Hist("ctx-" + tc.ctx)
			histFeatures(res, e.f, tc.ctx)
			if len(res.Samples) < 8 && i%97 == 0 && nontrivial(tc.v) && len(text) < 400 {
				res.Sample(map[string]string{"case": text, "real": e.o.out})
			}
			m, mabs := "-", ""
			if model != nil {
				m, mabs = model[2*i], model[2*i+1]
			}
			if e.clause != "" {
				report(tc, e, m)
			} else if e.std != nil {
				res.Hist("compared-with-encoding/json")
			}
			if model == nil {
				continue
			}
			// model vs real, exact strings (maps with equal stringified keys: up to the order of those)
			same := m == e.o.line()
			if !same && e.f.dupKeys && strings.HasPrefix(m, "ok ") && e.o.panicked == "" {
				same = sortedBytes(m) == sortedBytes(e.o.line())
				res.Hist("duplicate-keys-compared-up-to-order")
			}
			if !same {
				if os.Getenv("C08_DEBUG") != "" {
					fmt.Fprintf(os.Stderr, "mismatch: %s\n  real  %s\n  model %s\n", tc.String(), e.o.line(), m)
				}
				failing := func(c tcase) bool {
					r, ok := evaluate(c)
					if !ok || r.f.dupKeys {
						return false
					}
					a, err := c08ask("C08 show " + modeOf(c.ctx) + " " + r.desc)
					return err == nil && a != r.o.line()
				}
				min := tc
				mismatches++
				if !e.f.dupKeys && mismatches <= 3 { // a broken driver must not cost a shrink per case
					min = shrink(tc, failing)
				}
				me, _ := evaluate(min)
				mm, _ := c08ask("C08 show " + modeOf(min.ctx) + " " + me.desc)
				res.AddBreak(proto.Break{Kind: "correspondence", Name: "showV-model-vs-" + map[bool]string{true: "showInJS", false: "showInJSON"}[ctxIsJS(tc.ctx)],
					Case: "C08 " + min.String(), Human: "driver: C08 show " + modeOf(min.ctx) + " " + me.desc,
					Impl: me.o.line() + "  " + strconv.Quote(me.o.out), Model: mm})
			}
			// absScriggo vs the real output decoded by the harness's decoders
			if e.o.panicked == "" && e.o.err == "" && !e.f.dupKeys && !e.f.rawNotJSON && strings.HasPrefix(mabs, "ok ") {
				var got *data
				var err error
				if ctxIsJS(tc.ctx) {
					got, err = decodeJS(e.o.out)
				} else {
					got, err = decodeJSON([]byte(e.o.out))
				}
				if err == nil {
					want, perr := parseCanon(strings.TrimPrefix(mabs, "ok "))
					if perr != nil || !dataEq(got, want, true) {
						res.AddBreak(proto.Break{Kind: "correspondence", Name: "absScriggo-vs-decoded-real-output",
							Case: "C08 " + tc.String(), Human: "driver: C08 abs " + modeOf(tc.ctx) + " " + e.desc,
							Impl: got.canon(), Model: mabs})
					}
					res.Hist("abs-compared")
				}
			}
		}
	}
	return nil
}

var c08driver *hx.Ctx

func c08ask(line string) (string, error) {
	if c08driver == nil || c08driver.D == nil {
		return "", fmt.Errorf("no driver")
	}
	return c08driver.D.Ask(line)
}

func modeOf(ctx string) string {
	if ctxIsJS(ctx) {
		return "js"
	}
	return "json"
}

func sortedBytes(s string) string {
	b := []byte(s)
	sort.Slice(b, func(i, j int) bool { return b[i] < b[j] })
	return string(b)
}

func nontrivial(v *val) bool {
	if v.Nil {
		return false
	}
	switch v.Dyn.Kind() {
	case reflect.Slice, reflect.Array, reflect.Map, reflect.Struct, reflect.Pointer:
		return true
	case reflect.String:
		return strings.ContainsAny(v.Elems[0].S, "\"\\<>&'\n\r\t\x00\u2028\u2029") || !utf8.ValidString(v.Elems[0].S)
	}
	return false
}

func histFeatures(res *proto.Result, f features, ctx string) {
	if ctx != "json" {
		return
	}
	for name, on := range map[string]bool{"has-nonfinite-float": f.nonFinite, "has-string-option": f.stringOpt, "has-nil-[]byte": f.nilBytes,
		"has-embedded-struct": f.embedded, "has-omitzero": f.omitzero, "has-named-byte-slice": f.namedBytes, "has-unsafe-pointer": f.unsafeAny,
		"has-envelope": f.envelope, "has-error-value": f.errorValue, "has-time": f.timeValue, "has-other-kind": f.other,
		"has-duplicate-keys": f.dupKeys, "has-stringer-or-odd-key": f.keyNotStd} {
		if on {
			res.Hist(name)
		}
	}
}

// ---------------------------------------------------------------- specification checks

func specChecks(c *hx.Ctx, g *gen) error {
	res := c.Res
	c08driver = c
	// a. the assumption about strconv.FormatFloat(f, 'f', -1, bits)
	var floats []float64
	floats = append(floats, floatCorners...)
	for i := 0; i < c.N(20000, 400000); i++ {
		f := g.float(64)
		if math.IsNaN(f) || math.IsInf(f, 0) {
			continue
		}
		floats = append(floats, f)
	}
	for e := -1074; e <= 1023; e++ {
		floats = append(floats, math.Ldexp(1, e), -math.Ldexp(1.5, e))
	}
	var lines []string
	var texts []string
	for _, f := range floats {
		for _, bits := range []int{64, 32} {
			x := f
			if bits == 32 {
				x = float64(float32(f))
				if math.IsInf(x, 0) {
					continue
				}
			}
			s := strconv.FormatFloat(x, 'f', -1, bits)
			back, err := strconv.ParseFloat(s, bits)
			if !rfc8259Number.MatchString(s) || err != nil || back != x {
				res.AddBreak(proto.Break{Kind: "correspondence", Name: "assumption-FormatFloat-f-is-an-RFC-8259-number",
					Case: fmt.Sprintf("FormatFloat(%b, 'f', -1, %d)", x, bits), Impl: s, Model: "an RFC 8259 number that parses back"})
			}
			res.SpecChecks["FormatFloat-f--1-is-RFC-8259-number-and-parses-back"]++
			if len(lines) < c.N(3000, 40000) {
				lines = append(lines, "C08 isnum "+hexs(s))
				texts = append(texts, s)
			}
		}
	}
	// b. Spec/JSON.lean against encoding/json and the harness's JS recogniser
	var docs []string
	for i := 0; i < c.N(1500, 30000); i++ {
		docs = append(docs, randomDoc(c.R))
	}
	for _, d := range docs {
		lines = append(lines, "C08 parse json "+hexs(d), "C08 parse js "+hexs(d))
	}
	// c. parseTagValue: model against the real function
	var tags []string
	for i := 0; i < c.N(1500, 20000); i++ {
		var parts []string
		for n := c.R.Intn(5); n > 0; n-- {
			parts = append(parts, c.R.Pick([]string{"", "a", "omitempty", "omitempt", "omitemptyy", "string", "-", "x y", "é", "Omitempty", " omitempty"}))
		}
		tags = append(tags, strings.Join(parts, ","))
	}
	for _, t := range tags {
		lines = append(lines, "C08 tag "+hexs(t))
	}
	if c.D == nil {
		return nil
	}
	ans, err := c.D.Batch(lines)
	if err != nil {
		return err
	}
	for i, s := range texts {
		if ans[i] != "ok 1" {
			res.AddBreak(proto.Break{Kind: "correspondence", Name: "assumption-FormatFloat-f-is-an-RFC-8259-number (Spec/JSON.lean isNumber)",
				Case: lines[i], Impl: s, Model: ans[i]})
		}
		res.SpecChecks["isNumber-accepts-FormatFloat-output"]++
	}
	ans = ans[len(texts):]
	for i, d := range docs {
		aj, ajs := ans[2*i], ans[2*i+1]
		want := "err invalid"
		std, err := decodeJSON([]byte(d))
		if err == nil {
			want = "ok " + std.canon()
		}
		if utf8.ValidString(d) || err != nil {
			ok := aj == want
			if !ok && err == nil && strings.HasPrefix(aj, "ok ") {
				// strings: encoding/json replaces lone surrogates and invalid UTF-8 alike
				if got, perr := parseCanon(aj[3:]); perr == nil {
					ok = dataEq(got, std, true) && got.canon() == std.canon()
				}
			}
			if !ok {
				res.AddBreak(proto.Break{Kind: "correspondence", Name: "Spec/JSON.lean-vs-encoding/json", Case: lines[len(texts)+2*i],
					Human: strconv.Quote(d), Impl: want, Model: aj})
			}
			res.SpecChecks["lean-json-decoder-vs-encoding/json"]++
		}
		// JS: every JSON text the harness's JS recogniser takes, Lean's takes too, with the same data;
		// the Lean one accepts the emitted subset only, so the other direction is checked
		if strings.HasPrefix(ajs, "ok ") {
			jd, jerr := decodeJS(d)
			if jerr != nil {
				res.AddBreak(proto.Break{Kind: "correspondence", Name: "Spec/JSON.lean(js)-accepts-only-JS-literals", Case: lines[len(texts)+2*i+1],
					Human: strconv.Quote(d), Impl: "harness JS recogniser: " + jerr.Error(), Model: ajs})
			} else if got, perr := parseCanon(ajs[3:]); perr != nil || !dataEq(got, jd, true) {
				res.AddBreak(proto.Break{Kind: "correspondence", Name: "Spec/JSON.lean(js)-same-data-as-the-JS-recogniser", Case: lines[len(texts)+2*i+1],
					Human: strconv.Quote(d), Impl: jd.canon(), Model: ajs})
			}
			res.SpecChecks["lean-js-recogniser-vs-harness-js-recogniser"]++
		}
	}
	ans = ans[2*len(docs):]
	for i, t := range tags {
		name, omit := hook.ParseTagValue(t)
		want := "ok " + hexs(name) + " " + bit(omit)
		if ans[i] != want {
			res.AddBreak(proto.Break{Kind: "correspondence", Name: "parseTagValue-model-vs-real", Case: "C08 tag " + hexs(t),
				Human: strconv.Quote(t), Impl: want, Model: ans[i]})
		}
		res.Hist("parseTagValue-compared")
	}
	// c2. Spec/DateTime.lean against time.Parse
	{
		var dl []string
		var ds []string
		for i := 0; i < c.N(1500, 20000); i++ {
			t := g.time()
			var s string
			switch c.R.Intn(4) {
			case 0:
				s = t.Format("2006-01-02T15:04:05.000Z07:00")
			case 1:
				s = t.Format(time.RFC3339)
			case 2:
				s = fmt.Sprintf("%+07d", t.Year()*(1-2*c.R.Intn(2))) + t.Format("-01-02T15:04:05.000Z07:00")
			default:
				s = t.Format("2006-01-02T15:04:05.000Z07:00")
			}
			if c.R.Intn(3) == 0 && len(s) > 0 { // damage it
				b := []byte(s)
				j := c.R.Intn(len(b))
				switch c.R.Intn(3) {
				case 0:
					b[j] = "0123456789-+:.TZ x"[c.R.Intn(18)]
				case 1:
					b = append(b[:j], b[j+1:]...)
				default:
					b = append(b[:j], append([]byte{"0123456789-+:.TZ"[c.R.Intn(16)]}, b[j:]...)...)
				}
				s = string(b)
			}
			ds = append(ds, s)
			dl = append(dl, "C08 parsedate ecma "+hexs(s), "C08 parsedate rfc3339 "+hexs(s))
		}
		ans, err := c.D.Batch(dl)
		if err != nil {
			return err
		}
		// the reference reader: a regular expression for each format and the plain range rules
		// (month 1-12, day 1-31, hour 0-23, minute/second 0-59, offset hours 0-23, minutes 0-59)
		ref := func(re *regexp.Regexp, s string, hasMs bool) string {
			m := re.FindStringSubmatch(s)
			if m == nil {
				return "err invalid"
			}
			n := func(x string) int { v, _ := strconv.Atoi(x); return v }
			y := n(strings.TrimLeft(m[1], "+-"))
			if strings.HasPrefix(m[1], "-") {
				if y == 0 {
					return "err invalid"
				}
				y = -y
			}
			mo, d, h, mi, sc := n(m[2]), n(m[3]), n(m[4]), n(m[5]), n(m[6])
			ms, z := 0, m[7]
			if hasMs {
				ms, z = n(m[7]), m[8]
			}
			off := 0
			if z != "Z" {
				oh, om := n(z[1:3]), n(z[4:6])
				if oh > 23 || om > 59 {
					return "err invalid"
				}
				off = oh*60 + om
				if z[0] == '-' {
					off = -off
				}
			}
			if mo < 1 || mo > 12 || d < 1 || d > 31 || h > 23 || mi > 59 || sc > 59 {
				return "err invalid"
			}
			return fmt.Sprintf("ok %d %d %d %d %d %d %d %d", y, mo, d, h, mi, sc, ms, off)
		}
		for i, s := range ds {
			want := ref(ecmaRe, s, true)
			if ans[2*i] != want {
				res.AddBreak(proto.Break{Kind: "correspondence", Name: "Spec/DateTime.lean(ecma)-vs-reference-reader", Case: dl[2*i], Human: strconv.Quote(s), Impl: want, Model: ans[2*i]})
			}
			if t, err := time.Parse("2006-01-02T15:04:05.000Z07:00", s); err == nil && want != "err invalid" && len(s) <= 29 {
				// where Go's parser and the reference both accept, they agree on the instant
				_, off := t.Zone()
				if g := fmt.Sprintf("ok %d %d %d %d %d %d %d %d", t.Year(), int(t.Month()), t.Day(), t.Hour(), t.Minute(), t.Second(), t.Nanosecond()/1000000, off/60); g != want {
					res.AddBreak(proto.Break{Kind: "correspondence", Name: "reference-date-reader-vs-time.Parse", Case: dl[2*i], Human: strconv.Quote(s), Impl: g, Model: want})
				}
				res.SpecChecks["ecma-date-reference-vs-time.Parse"]++
			}
			res.SpecChecks["lean-ecma-date-parser-vs-reference"]++
			want = ref(rfcRe, s, false)
			if ans[2*i+1] != want {
				res.AddBreak(proto.Break{Kind: "correspondence", Name: "Spec/DateTime.lean(rfc3339)-vs-reference-reader", Case: dl[2*i+1], Human: strconv.Quote(s), Impl: want, Model: ans[2*i+1]})
			}
			res.SpecChecks["lean-rfc3339-parser-vs-reference"]++
		}
	}
	// d. absStd against json.Marshal
	var als []string
	var stds []*data
	var txt []string
	for i := 0; i < c.N(1500, 30000); i++ {
		depth := 1 + c.R.Intn(3)
		t := g.typ(depth)
		if t.Kind() == reflect.Interface {
			continue
		}
		tc := tcase{ctx: "json", v: &val{Dyn: t, Elems: []*val{g.value(t, depth+1)}}}
		x, desc, f, ok := describeCase(tc)
		if !ok || !comparable_(f) || f.nonFinite || f.stringOptUnmodelled {
			continue
		}
		m, err := marshalStd(x)
		if err != nil {
			continue
		}
		d, err := decodeJSON(m)
		if err != nil {
			continue
		}
		als = append(als, "C08 absstd json "+desc)
		stds = append(stds, d)
		txt = append(txt, tc.String())
	}
	ans, err = c.D.Batch(als)
	if err != nil {
		return err
	}
	for i := range als {
		got, perr := parseCanon(strings.TrimPrefix(ans[i], "ok "))
		if perr != nil || !dataEq(got, stds[i], true) {
			res.AddBreak(proto.Break{Kind: "correspondence", Name: "absStd-vs-json.Marshal", Case: "C08 " + txt[i], Human: als[i],
				Impl: stds[i].canon(), Model: ans[i]})
		}
		res.SpecChecks["absStd-vs-json.Marshal"]++
	}
	return nil
}

// randomDoc: JSON-ish texts, mostly valid, some broken, some with JS-only syntax.
func randomDoc(r *proto.Rand) string {
	var gen func(d int) string
	ws := func() string { return r.Pick([]string{"", "", "", " ", "\n", "\t ", "\r\n"}) }
	str := func() string {
		var b strings.Builder
		b.WriteByte('"')
		for n := r.Intn(5); n > 0; n-- {
			b.WriteString(r.Pick([]string{"a", "b", " ", "\\\"", "\\\\", "\\/", "\\b", "\\f", "\\n", "\\r", "\\t", "\\u0041", "\\u00e9", "\\u2028",
				"\\ud83d\\ude00", "\\ud800", "\\udc00", "\\ud800\\u0041", "\\uD83D", "é", "€", "😀", "\u2028", "<", "'", "\\u000", "\\x", "\\'", "\t", "\x00",
				"\\u12G4", "\x7f", "\\ud83d\\n"}))
		}
		b.WriteByte('"')
		return b.String()
	}
	num := func() string {
		return r.Pick([]string{"0", "-0", "1", "-1", "12", "0.5", "-0.25", "1e5", "1E+5", "1e-5", "1.5e300", "10", "9007199254740993",
			"01", "1.", ".5", "+1", "-", "1e", "1e+", "0x10", "--1", "1.2.3", "00", "-01", "0e0", "0.0", "123456789012345678901234567890"})
	}
	gen = func(d int) string {
		switch n := r.Intn(16); {
		case n < 2:
			return r.Pick([]string{"null", "true", "false", "nul", "True", "undefined", "NaN", "nulll", "new Date(\"2020-01-01T00:00:00.000Z\")",
				"undefined/* c */", "/* c */1", "1/* c", "new Date(\"x\"", "new  Date(\"x\")"})
		case n < 5:
			return num()
		case n < 8:
			return str()
		case n < 12 && d > 0:
			var parts []string
			for k := r.Intn(4); k > 0; k-- {
				parts = append(parts, ws()+gen(d-1)+ws())
			}
			s := "[" + strings.Join(parts, ",") + r.Pick([]string{"", "", "", "", ws(), ","}) + "]"
			if r.Intn(25) == 0 {
				s = s[:len(s)-1]
			}
			return s
		case d > 0:
			var parts []string
			for k := r.Intn(4); k > 0; k-- {
				key := str()
				if r.Intn(20) == 0 {
					key = r.Pick([]string{"a", "1", "'a'"})
				}
				parts = append(parts, ws()+key+ws()+r.Pick([]string{":", ":", ":", ":", ":", "", "::"})+ws()+gen(d-1)+ws())
			}
			return "{" + strings.Join(parts, ",") + r.Pick([]string{"", "", "", "", ws()}) + "}"
		}
		return num()
	}
	return ws() + gen(3) + r.Pick([]string{"", "", "", " ", "\n", "x", " 1", ","})
}
