package main

import (
	"bytes"
	"encoding/json"
	"fmt"
	"math/big"
	"strconv"
	"strings"
	"unicode/utf8"
)

// ---------------------------------------------------------------- data trees

// data is decoded JSON / a decoded JS literal, members in source order, numbers as text.
type data struct {
	kind string // null bool num str arr obj undefined date
	b    bool
	s    string // num text, str bytes, date body
	xs   []*data
	ks   []string
}

// canon prints d in the notation of Data.canon (Spec/JSON.lean).
func (d *data) canon() string {
	switch d.kind {
	case "null", "undefined":
		return d.kind
	case "bool":
		return strconv.FormatBool(d.b)
	case "num", "str", "date":
		return d.kind + " " + hexs(d.s)
	case "arr":
		var b strings.Builder
		fmt.Fprintf(&b, "arr %d", len(d.xs))
		for _, x := range d.xs {
			b.WriteString(" " + x.canon())
		}
		return b.String()
	case "obj":
		var b strings.Builder
		fmt.Fprintf(&b, "obj %d", len(d.xs))
		for i, x := range d.xs {
			b.WriteString(" " + hexs(d.ks[i]) + " " + x.canon())
		}
		return b.String()
	}
	panic("canon")
}

// parseCanon reads Data.canon back.
func parseCanon(s string) (*data, error) {
	toks := strings.Fields(s)
	d, rest, err := parseCanonToks(toks)
	if err != nil {
		return nil, err
	}
	if len(rest) != 0 {
		return nil, fmt.Errorf("canon: trailing tokens")
	}
	return d, nil
}

func parseCanonToks(t []string) (*data, []string, error) {
	if len(t) == 0 {
		return nil, nil, fmt.Errorf("canon: short")
	}
	unhex := func(h string) (string, error) {
		if h == "-" {
			return "", nil
		}
		b := make([]byte, len(h)/2)
		for i := range b {
			x, err := strconv.ParseUint(h[2*i:2*i+2], 16, 8)
			if err != nil {
				return "", err
			}
			b[i] = byte(x)
		}
		return string(b), nil
	}
	switch t[0] {
	case "null", "undefined":
		return &data{kind: t[0]}, t[1:], nil
	case "true", "false":
		return &data{kind: "bool", b: t[0] == "true"}, t[1:], nil
	case "num", "str", "date":
		if len(t) < 2 {
			break
		}
		s, err := unhex(t[1])
		if err != nil {
			return nil, nil, err
		}
		return &data{kind: t[0], s: s}, t[2:], nil
	case "arr", "obj":
		if len(t) < 2 {
			break
		}
		n, err := strconv.Atoi(t[1])
		if err != nil {
			return nil, nil, err
		}
		d := &data{kind: t[0]}
		t = t[2:]
		for i := 0; i < n; i++ {
			if d.kind == "obj" {
				if len(t) == 0 {
					return nil, nil, fmt.Errorf("canon: short")
				}
				k, err := unhex(t[0])
				if err != nil {
					return nil, nil, err
				}
				d.ks = append(d.ks, k)
				t = t[1:]
			}
			var x *data
			x, t, err = parseCanonToks(t)
			if err != nil {
				return nil, nil, err
			}
			d.xs = append(d.xs, x)
		}
		return d, t, nil
	}
	return nil, nil, fmt.Errorf("canon: token %q", t[0])
}

func numEq(a, b string) bool {
	if a == b {
		return true
	}
	x, ok1 := new(big.Rat).SetString(a)
	y, ok2 := new(big.Rat).SetString(b)
	return ok1 && ok2 && x.Cmp(y) == 0
}

// dataEq compares two trees; numbers by value, strings after the replacement of invalid
// UTF-8 that encoding/json applies on both sides when coerce is set.
func dataEq(a, b *data, coerce bool) bool {
	if a.kind != b.kind || len(a.xs) != len(b.xs) {
		return false
	}
	str := func(s string) string {
		if coerce {
			return coerceUTF8(s)
		}
		return s
	}
	switch a.kind {
	case "bool":
		return a.b == b.b
	case "num":
		return numEq(a.s, b.s)
	case "str", "date":
		if coerce {
			return coerceUTF8(a.s) == coerceUTF8(b.s)
		}
		return a.s == b.s
	}
	for i := range a.xs {
		if a.kind == "obj" && str(a.ks[i]) != str(b.ks[i]) {
			if !(coerce && coerceUTF8(a.ks[i]) == coerceUTF8(b.ks[i])) {
				return false
			}
		}
		if !dataEq(a.xs[i], b.xs[i], coerce) {
			return false
		}
	}
	return true
}

// coerceUTF8 replaces every invalid byte by U+FFFD, one per byte, as encoding/json does.
func coerceUTF8(s string) string {
	if utf8.ValidString(s) {
		return s
	}
	var b strings.Builder
	for i := 0; i < len(s); {
		r, w := utf8.DecodeRuneInString(s[i:])
		if r == utf8.RuneError && w == 1 {
			b.WriteString("�")
		} else {
			b.WriteString(s[i : i+w])
		}
		i += w
	}
	return b.String()
}

// decodeJSON decodes with encoding/json's tokenizer, keeping member order and number text.
func decodeJSON(src []byte) (*data, error) {
	if !json.Valid(src) {
		return nil, fmt.Errorf("encoding/json.Valid: false")
	}
	dec := json.NewDecoder(bytes.NewReader(src))
	dec.UseNumber()
	d, err := decodeTok(dec)
	if err != nil {
		return nil, err
	}
	if _, err := dec.Token(); err == nil {
		return nil, fmt.Errorf("trailing tokens")
	}
	return d, nil
}

func decodeTok(dec *json.Decoder) (*data, error) {
	tok, err := dec.Token()
	if err != nil {
		return nil, err
	}
	switch t := tok.(type) {
	case nil:
		return &data{kind: "null"}, nil
	case bool:
		return &data{kind: "bool", b: t}, nil
	case json.Number:
		return &data{kind: "num", s: string(t)}, nil
	case string:
		return &data{kind: "str", s: t}, nil
	case json.Delim:
		switch t {
		case '[':
			d := &data{kind: "arr"}
			for dec.More() {
				x, err := decodeTok(dec)
				if err != nil {
					return nil, err
				}
				d.xs = append(d.xs, x)
			}
			_, err := dec.Token()
			return d, err
		case '{':
			d := &data{kind: "obj"}
			for dec.More() {
				k, err := dec.Token()
				if err != nil {
					return nil, err
				}
				ks, ok := k.(string)
				if !ok {
					return nil, fmt.Errorf("key %v", k)
				}
				x, err := decodeTok(dec)
				if err != nil {
					return nil, err
				}
				d.ks = append(d.ks, ks)
				d.xs = append(d.xs, x)
			}
			_, err := dec.Token()
			return d, err
		}
	}
	return nil, fmt.Errorf("token %v", tok)
}

// ---------------------------------------------------------------- JavaScript literals

// jsParser recognises the JavaScript expressions that are literals (ECMA-262 §13.2: null,
// booleans, decimal numeric literals with an optional minus, double- or single-quoted strings
// with every escape sequence, array and object literals with string keys, `undefined`, `NaN`,
// `Infinity`, `new Date("…")`), with white space, line terminators and comments between
// tokens. It is the harness's own oracle for JS output, independent of the Lean recogniser.
type jsParser struct {
	s string
	i int
}

func (p *jsParser) ws() error {
	for p.i < len(p.s) {
		rest := p.s[p.i:]
		switch {
		case strings.ContainsRune(" \t\n\r\v\f", rune(rest[0])):
			p.i++
		case strings.HasPrefix(rest, "\u00a0"):
			p.i += 2
		case strings.HasPrefix(rest, "\ufeff"), strings.HasPrefix(rest, "\u2028"), strings.HasPrefix(rest, "\u2029"):
			p.i += 3
		case strings.HasPrefix(rest, "/*"):
			j := strings.Index(rest[2:], "*/")
			if j < 0 {
				return fmt.Errorf("unterminated comment")
			}
			p.i += j + 4
		case strings.HasPrefix(rest, "//"):
			for p.i < len(p.s) && p.s[p.i] != '\n' && p.s[p.i] != '\r' &&
				!strings.HasPrefix(p.s[p.i:], "\u2028") && !strings.HasPrefix(p.s[p.i:], "\u2029") {
				p.i++
			}
		default:
			return nil
		}
	}
	return nil
}

func isIdentPart(c byte) bool {
	return c == '_' || c == '$' || '0' <= c && c <= '9' || 'a' <= c && c <= 'z' || 'A' <= c && c <= 'Z' || c >= 0x80
}

func (p *jsParser) keyword(k string) bool {
	if strings.HasPrefix(p.s[p.i:], k) && (p.i+len(k) == len(p.s) || !isIdentPart(p.s[p.i+len(k)])) {
		p.i += len(k)
		return true
	}
	return false
}

func (p *jsParser) str() (string, error) {
	q := p.s[p.i]
	p.i++
	var b strings.Builder
	for {
		if p.i >= len(p.s) {
			return "", fmt.Errorf("unterminated string")
		}
		c := p.s[p.i]
		switch {
		case c == q:
			p.i++
			return b.String(), nil
		case c == '\n' || c == '\r':
			return "", fmt.Errorf("line terminator in string")
		case c == '\\':
			p.i++
			if p.i >= len(p.s) {
				return "", fmt.Errorf("unterminated escape")
			}
			e := p.s[p.i]
			p.i++
			switch e {
			case 'b':
				b.WriteByte('\b')
			case 'f':
				b.WriteByte('\f')
			case 'n':
				b.WriteByte('\n')
			case 'r':
				b.WriteByte('\r')
			case 't':
				b.WriteByte('\t')
			case 'v':
				b.WriteByte('\v')
			case '0':
				if p.i < len(p.s) && '0' <= p.s[p.i] && p.s[p.i] <= '9' {
					return "", fmt.Errorf("octal escape")
				}
				b.WriteByte(0)
			case '1', '2', '3', '4', '5', '6', '7', '8', '9':
				return "", fmt.Errorf("octal escape")
			case 'x':
				if p.i+2 > len(p.s) {
					return "", fmt.Errorf("\\x")
				}
				n, err := strconv.ParseUint(p.s[p.i:p.i+2], 16, 8)
				if err != nil {
					return "", fmt.Errorf("\\x")
				}
				b.WriteRune(rune(n))
				p.i += 2
			case 'u':
				r, err := p.hex4()
				if err != nil {
					return "", err
				}
				if 0xD800 <= r && r < 0xDC00 && strings.HasPrefix(p.s[p.i:], "\\u") {
					save := p.i
					p.i += 2
					lo, err := p.hex4()
					if err == nil && 0xDC00 <= lo && lo < 0xE000 {
						r = 0x10000 + (r-0xD800)<<10 + (lo - 0xDC00)
					} else {
						p.i = save
					}
				}
				b.WriteRune(r) // lone surrogates become U+FFFD
			case '\r':
				if p.i < len(p.s) && p.s[p.i] == '\n' {
					p.i++
				}
			case '\n':
			default:
				b.WriteByte(e) // NonEscapeCharacter (also \" \' \\ \/ and the first byte of a multi-byte one)
			}
		default:
			b.WriteByte(c)
			p.i++
		}
	}
}

func (p *jsParser) hex4() (rune, error) {
	if p.i+4 > len(p.s) {
		return 0, fmt.Errorf("\\u")
	}
	n, err := strconv.ParseUint(p.s[p.i:p.i+4], 16, 16)
	if err != nil {
		return 0, fmt.Errorf("\\u")
	}
	p.i += 4
	return rune(n), nil
}

func (p *jsParser) number() (string, error) {
	start := p.i
	digits := func() int {
		n := 0
		for p.i < len(p.s) && '0' <= p.s[p.i] && p.s[p.i] <= '9' {
			p.i++
			n++
		}
		return n
	}
	if p.i < len(p.s) && p.s[p.i] == '0' {
		p.i++
		if p.i < len(p.s) && '0' <= p.s[p.i] && p.s[p.i] <= '9' {
			return "", fmt.Errorf("leading zero")
		}
	} else if digits() == 0 && !(p.i < len(p.s) && p.s[p.i] == '.') {
		return "", fmt.Errorf("number expected")
	}
	intDigits := p.i - start
	if p.i < len(p.s) && p.s[p.i] == '.' {
		p.i++
		if digits() == 0 && intDigits == 0 {
			return "", fmt.Errorf("lone dot")
		}
	}
	if p.i < len(p.s) && (p.s[p.i] == 'e' || p.s[p.i] == 'E') {
		p.i++
		if p.i < len(p.s) && (p.s[p.i] == '+' || p.s[p.i] == '-') {
			p.i++
		}
		if digits() == 0 {
			return "", fmt.Errorf("exponent")
		}
	}
	if p.i < len(p.s) && isIdentPart(p.s[p.i]) {
		return "", fmt.Errorf("identifier after number")
	}
	return p.s[start:p.i], nil
}

func (p *jsParser) value(depth int) (*data, error) {
	if depth > 200 {
		return nil, fmt.Errorf("too deep")
	}
	if err := p.ws(); err != nil {
		return nil, err
	}
	if p.i >= len(p.s) {
		return nil, fmt.Errorf("unexpected end")
	}
	switch c := p.s[p.i]; {
	case c == '[':
		p.i++
		d := &data{kind: "arr"}
		for {
			if err := p.ws(); err != nil {
				return nil, err
			}
			if p.i < len(p.s) && p.s[p.i] == ']' {
				p.i++
				return d, nil
			}
			if len(d.xs) > 0 {
				if p.i >= len(p.s) || p.s[p.i] != ',' {
					return nil, fmt.Errorf("expected , or ]")
				}
				p.i++
			}
			if err := p.ws(); err != nil {
				return nil, err
			}
			if p.i < len(p.s) && (p.s[p.i] == ',' || p.s[p.i] == ']') {
				return nil, fmt.Errorf("elision / trailing comma (not produced data)")
			}
			x, err := p.value(depth + 1)
			if err != nil {
				return nil, err
			}
			d.xs = append(d.xs, x)
		}
	case c == '{':
		p.i++
		d := &data{kind: "obj"}
		for {
			if err := p.ws(); err != nil {
				return nil, err
			}
			if p.i < len(p.s) && p.s[p.i] == '}' {
				p.i++
				return d, nil
			}
			if len(d.xs) > 0 {
				if p.i >= len(p.s) || p.s[p.i] != ',' {
					return nil, fmt.Errorf("expected , or }")
				}
				p.i++
				if err := p.ws(); err != nil {
					return nil, err
				}
			}
			if p.i >= len(p.s) || (p.s[p.i] != '"' && p.s[p.i] != '\'') {
				return nil, fmt.Errorf("expected a string key")
			}
			k, err := p.str()
			if err != nil {
				return nil, err
			}
			if err := p.ws(); err != nil {
				return nil, err
			}
			if p.i >= len(p.s) || p.s[p.i] != ':' {
				return nil, fmt.Errorf("expected :")
			}
			p.i++
			x, err := p.value(depth + 1)
			if err != nil {
				return nil, err
			}
			d.ks = append(d.ks, k)
			d.xs = append(d.xs, x)
		}
	case c == '"' || c == '\'':
		s, err := p.str()
		if err != nil {
			return nil, err
		}
		return &data{kind: "str", s: s}, nil
	case c == '-' || c == '+':
		p.i++
		if err := p.ws(); err != nil {
			return nil, err
		}
		if p.keyword("Infinity") {
			return &data{kind: "num", s: string(c) + "Infinity"}, nil
		}
		n, err := p.number()
		if err != nil {
			return nil, err
		}
		if c == '-' {
			n = "-" + n
		}
		return &data{kind: "num", s: n}, nil
	case '0' <= c && c <= '9' || c == '.':
		n, err := p.number()
		if err != nil {
			return nil, err
		}
		return &data{kind: "num", s: n}, nil
	case p.keyword("null"):
		return &data{kind: "null"}, nil
	case p.keyword("true"):
		return &data{kind: "bool", b: true}, nil
	case p.keyword("false"):
		return &data{kind: "bool"}, nil
	case p.keyword("undefined"):
		return &data{kind: "undefined"}, nil
	case p.keyword("NaN"):
		return &data{kind: "num", s: "NaN"}, nil
	case p.keyword("Infinity"):
		return &data{kind: "num", s: "Infinity"}, nil
	case p.keyword("new"):
		if err := p.ws(); err != nil {
			return nil, err
		}
		if !p.keyword("Date") {
			return nil, fmt.Errorf("new of something else than Date")
		}
		p.ws()
		if p.i >= len(p.s) || p.s[p.i] != '(' {
			return nil, fmt.Errorf("expected (")
		}
		p.i++
		p.ws()
		if p.i >= len(p.s) || (p.s[p.i] != '"' && p.s[p.i] != '\'') {
			return nil, fmt.Errorf("expected a string argument")
		}
		s, err := p.str()
		if err != nil {
			return nil, err
		}
		p.ws()
		if p.i >= len(p.s) || p.s[p.i] != ')' {
			return nil, fmt.Errorf("expected )")
		}
		p.i++
		return &data{kind: "date", s: s}, nil
	}
	return nil, fmt.Errorf("not a literal at %d: %.20q", p.i, p.s[p.i:])
}

// decodeJS decodes one JavaScript literal expression.
func decodeJS(src string) (*data, error) {
	p := &jsParser{s: src}
	d, err := p.value(0)
	if err != nil {
		return nil, err
	}
	if err := p.ws(); err != nil {
		return nil, err
	}
	if p.i != len(p.s) {
		return nil, fmt.Errorf("trailing %.20q", p.s[p.i:])
	}
	return d, nil
}
