package main

import (
	"encoding/json"
	"reflect"
	"strconv"
	"time"
	"unsafe"

	"github.com/open2b/scriggo/native"
)

// Declared types that reflect.StructOf cannot make: unexported fields, embedded structs,
// methods (Stringer keys, error, the JS/JSON envelope interfaces), named byte slices.

type NB []byte
type U8 uint8
type MyInt int
type MyStr string
type MyFloat float64
type MyBool bool

// map key types with String methods
type SKey struct{ S string }

func (k SKey) String() string { return "s:" + k.S }

type IKey int

func (k IKey) String() string { return "k" + strconv.Itoa(int(k)/2) } // IKey(2), IKey(3) collide

type EKey string

func (k EKey) String(native.Env) string { return "e:" + string(k) }

// error types
type ErrS struct{ Msg string }

func (e ErrS) Error() string { return "ErrS: " + e.Msg }

type ErrP struct{ Msg string }

func (e *ErrP) Error() string {
	if e == nil {
		return "ErrP: <nil>"
	}
	return "ErrP: " + e.Msg
}

type ErrStr string

func (e ErrStr) Error() string { return string(e) }

// envelope types
type JSer struct{ X int }

func (j JSer) JS() native.JS { return native.JS("jser(" + strconv.Itoa(j.X) + ")") }

type JSONer struct{ X int }

func (j JSONer) JSON() native.JSON { return native.JSON(`{"jsoner":` + strconv.Itoa(j.X) + `}`) }

type Both string

func (b Both) JS() native.JS     { return native.JS(`["js",` + jsonQuote(string(b)) + `]`) }
func (b Both) JSON() native.JSON { return native.JSON(`["json",` + jsonQuote(string(b)) + `]`) }

func jsonQuote(s string) string {
	b, _ := json.Marshal(s)
	return string(b)
}

type JSEnv struct{ X int }

func (j JSEnv) JS(native.Env) native.JS { return native.JS("-" + strconv.Itoa(j.X&0xff)) }
func (j JSEnv) JSON(native.Env) native.JSON {
	return native.JSON(" [ " + strconv.Itoa(j.X&0xff) + " ] ")
}

// JSONErr implements JSONStringer and error, not JSStringer: JSON() in JSON, Error() in JS.
type JSONErr struct{ X int }

func (j JSONErr) JSON() native.JSON { return native.JSON(strconv.Itoa(j.X)) }
func (j JSONErr) Error() string     { return "JSONErr " + strconv.Itoa(j.X) }

// structs
type Inner struct {
	A int
	B string `json:"b,omitempty"`
}
type inner struct {
	X int
	Y any
}
type ZEmb struct {
	Inner
	C int
}
type ZEmbU struct {
	inner
	C int
}
type ZEmbP struct {
	*Inner
	C any `json:"c"`
}
type ZUnexp struct {
	A int
	b string
	C any
	d []int
	E *int `json:"e,omitempty"`
	f any
}
type ZNode struct {
	V    int
	Next *ZNode
	Kids []ZNode `json:"kids,omitempty"`
	Any  any     `json:",omitempty"`
}
type ZTags struct {
	Skip    int            `json:"-"`
	Dash    int            `json:"-,"`
	Ren     string         `json:"renamed"`
	OmitI   int            `json:",omitempty"`
	OmitS   string         `json:"os,omitempty"`
	OmitF   float64        `json:"of,omitempty"`
	OmitB   bool           `json:"ob,omitempty"`
	OmitP   *int           `json:"op,omitempty"`
	OmitA   any            `json:"oa,omitempty"`
	OmitSl  []int          `json:"osl,omitempty"`
	OmitM   map[string]int `json:"om,omitempty"`
	OmitArr [0]int         `json:"oarr,omitempty"`
	OmitSt  Inner          `json:"ost,omitempty"`
	OmitT   time.Time      `json:"ot,omitempty"`
	OmitBy  []byte         `json:"oby,omitempty"`
	Other   int            `xml:"x" json:"other,omitempty,foo"`
	Last    int            `json:"last,foo,omitempty"`
	NoJSON  int            `xml:"nj"`
}

var zoo = map[string]reflect.Type{}

func reg(v any) { t := reflect.TypeOf(v); zoo[t.String()] = t }

func init() {
	for _, v := range []any{NB(nil), U8(0), MyInt(0), MyStr(""), MyFloat(0), MyBool(false), SKey{}, IKey(0), EKey(""),
		ErrS{}, ErrP{}, ErrStr(""), JSer{}, JSONer{}, Both(""), JSEnv{}, JSONErr{}, Inner{}, inner{}, ZEmb{}, ZEmbU{}, ZEmbP{},
		ZUnexp{}, ZNode{}, ZTags{}, time.Time{}, native.JS(""), native.JSON(""), native.HTML(""), unsafe.Pointer(nil)} {
		reg(v)
	}
}

var (
	anyType    = reflect.TypeOf((*any)(nil)).Elem()
	errorType  = reflect.TypeOf((*error)(nil)).Elem()
	bytesType  = reflect.TypeOf([]byte(nil))
	timeType   = reflect.TypeOf(time.Time{})
	unsafeType = reflect.TypeOf(unsafe.Pointer(nil))
)

var basicTypes = map[string]reflect.Type{
	"bool": reflect.TypeOf(false), "int": reflect.TypeOf(int(0)), "int8": reflect.TypeOf(int8(0)),
	"int16": reflect.TypeOf(int16(0)), "int32": reflect.TypeOf(int32(0)), "int64": reflect.TypeOf(int64(0)),
	"uint": reflect.TypeOf(uint(0)), "uint8": reflect.TypeOf(uint8(0)), "uint16": reflect.TypeOf(uint16(0)),
	"uint32": reflect.TypeOf(uint32(0)), "uint64": reflect.TypeOf(uint64(0)), "uintptr": reflect.TypeOf(uintptr(0)),
	"float32": reflect.TypeOf(float32(0)), "float64": reflect.TypeOf(float64(0)),
	"complex64": reflect.TypeOf(complex64(0)), "complex128": reflect.TypeOf(complex128(0)),
	"string": reflect.TypeOf(""), "error": errorType, "any": anyType,
}
