package main

import (
	"fmt"
	"math"
	"reflect"
	"strconv"
	"strings"
	"time"
	"unicode"
	"unsafe"

	"github.com/open2b/scriggo/native"

	"verifharness/internal/proto"
)

// describe turns a Go value into the prefix serialisation of the model's GoVal
// (lean/ScriggoV/Drv/C08.lean). It is written against the documentation of reflect and of
// the native interfaces, not against renderer.go: what each type yields for JS()/JSON()/Error()/
// String(), the kind, the struct fields with their json tag, the float's class and its
// strconv.FormatFloat(f,'f',-1,bits) digits (a parameter of the model), stringified map keys.

type features struct {
	offsetSeconds                    bool // a time whose zone offset is not a whole number of minutes
	utcNamed                         bool // a time in a zone named "UTC" whose offset is not zero
	keyFails                         bool // a map key toString has no case for
	nonFinite, nonFiniteInf          bool
	stringOpt                        bool // a serialised field whose tag has the `string` option
	nilBytes                         bool // a nil []byte
	embedded                         bool // an embedded struct field
	omitzero                         bool // a field whose tag has the `omitzero` option
	namedBytes                       bool // a non-nil slice with uint8-kind elements whose type is not []byte
	unsafeNonNil                     bool
	envelope                         bool // native.JS/JSON, …Stringer
	errorValue                       bool
	subSecond                        bool // a time.Time with a fraction of a second
	yearRange                        bool
	keyNotStd                        bool // a map key encoding/json does not take or spells differently
	other                            bool // complex, chan, func
	badTagName                       bool // a tag name encoding/json ignores
	dupNames                         bool // two serialised fields of a struct with the same name
	dupKeys                          bool // two keys of a map with the same string
	timeValue                        bool
	unsafeAny                        bool
	stringOptUnmodelled              bool
	rawNotJSON, rawBadJSON, rawBadJS bool // what an envelope type yields is not JSON / not a JS literal
}

type describer struct {
	f features
}

func hexs(s string) string { return proto.Hex([]byte(s)) }

func bit(b bool) string {
	if b {
		return "1"
	}
	return "0"
}

var kindNames = map[reflect.Kind]string{}

func init() {
	for k := reflect.Invalid; k <= reflect.UnsafePointer; k++ {
		kindNames[k] = k.String()
	}
	kindNames[reflect.Pointer] = "Pointer"
	kindNames[reflect.Invalid] = "Invalid"
	for k, n := range kindNames {
		kindNames[k] = strings.ToUpper(n[:1]) + n[1:]
	}
	kindNames[reflect.UnsafePointer] = "UnsafePointer"
}

// key describes a map key (GoKey of the model) and returns the text the harness expects it to
// be spelled as (to detect keys that collide): fmt.Stringer, then native.EnvStringer, else by kind.
func (d *describer) key(k reflect.Value) (desc string, text string) {
	kn := kindNames[k.Kind()]
	switch x := k.Interface().(type) {
	case fmt.Stringer:
		d.f.keyNotStd = true
		return "ks " + hexs(x.String()), x.String()
	case native.EnvStringer:
		d.f.keyNotStd = true
		return "ke " + hexs(x.String(nil)), x.String(nil)
	}
	switch k.Kind() {
	case reflect.String:
		return "kstr " + hexs(k.String()), k.String()
	case reflect.Int, reflect.Int8, reflect.Int16, reflect.Int32, reflect.Int64:
		s := strconv.FormatInt(k.Int(), 10)
		return "ki " + kn + " " + s, s
	case reflect.Uint, reflect.Uint8, reflect.Uint16, reflect.Uint32, reflect.Uint64, reflect.Uintptr:
		s := strconv.FormatUint(k.Uint(), 10)
		return "ku " + kn + " " + s, s
	case reflect.Bool:
		d.f.keyNotStd = true
		return "kb " + bit(k.Bool()), strconv.FormatBool(k.Bool())
	case reflect.Float32, reflect.Float64:
		d.f.keyNotStd = true
		s := strconv.FormatFloat(k.Float(), 'f', -1, k.Type().Bits())
		return "kf " + kn + " " + hexs(s), s
	}
	d.f.keyNotStd = true
	d.f.keyFails = true
	return "ko " + kn, k.Type().String()
}

// value describes a dynamic value (the content of an interface).
func (d *describer) value(x any) string {
	if x == nil {
		return "nil"
	}
	js, json := "~", "~"
	switch v := x.(type) {
	case native.JS:
		js = hexs(string(v))
	case native.JSStringer:
		js = hexs(string(v.JS()))
	case native.JSEnvStringer:
		js = hexs(string(v.JS(nil)))
	}
	switch v := x.(type) {
	case native.JSON:
		json = hexs(string(v))
	case native.JSONStringer:
		json = hexs(string(v.JSON()))
	case native.JSONEnvStringer:
		json = hexs(string(v.JSON(nil)))
	}
	pre := ""
	if js != "~" || json != "~" {
		d.f.envelope = true
		pre = "verb " + js + " " + json + " "
		for _, h := range []string{js, json} {
			if h == "~" {
				continue
			}
			raw, _ := proto.UnHex(h)
			if _, err := decodeJSON(raw); err != nil {
				d.f.rawNotJSON = true
				if h == json {
					d.f.rawBadJSON = true
				}
			}
		}
		if js != "~" {
			raw, _ := proto.UnHex(js)
			if _, err := decodeJS(string(raw)); err != nil {
				d.f.rawBadJS = true
			}
		}
	}
	if t, ok := x.(time.Time); ok {
		d.f.timeValue = true
		if t.Nanosecond() != 0 {
			d.f.subSecond = true
		}
		if t.Year() < 0 || t.Year() > 9999 {
			d.f.yearRange = true
		}
		name, off := t.Zone()
		if off%60 != 0 {
			d.f.offsetSeconds = true
		}
		if name == "UTC" && off != 0 {
			d.f.utcNamed = true
		}
		return pre + fmt.Sprintf("time %d %d %d %d %d %d %d %s %d", t.Year(), int(t.Month()), t.Day(), t.Hour(), t.Minute(),
			t.Second(), t.Nanosecond(), bit(name == "UTC"), off)
	}
	if e, ok := x.(error); ok {
		d.f.errorValue = true
		pre += "err " + hexs(e.Error()) + " "
	}
	return pre + d.kinded(reflect.ValueOf(x))
}

// position describes the reflect.Value at a typed position (struct field, element).
func (d *describer) position(rv reflect.Value) string {
	if !rv.CanInterface() {
		rv = reflect.NewAt(rv.Type(), unsafe.Pointer(rv.UnsafeAddr())).Elem()
	}
	if rv.Kind() == reflect.Interface {
		if rv.IsNil() {
			return "iface nil"
		}
		return "iface " + d.value(rv.Elem().Interface())
	}
	return d.value(rv.Interface())
}

func (d *describer) kinded(rv reflect.Value) string {
	t := rv.Type()
	k := kindNames[rv.Kind()]
	switch rv.Kind() {
	case reflect.Bool:
		return "bool " + bit(rv.Bool())
	case reflect.Int, reflect.Int8, reflect.Int16, reflect.Int32, reflect.Int64:
		return "int " + k + " " + strconv.FormatInt(rv.Int(), 10)
	case reflect.Uint, reflect.Uint8, reflect.Uint16, reflect.Uint32, reflect.Uint64, reflect.Uintptr:
		return "uint " + k + " " + strconv.FormatUint(rv.Uint(), 10)
	case reflect.Float32, reflect.Float64:
		f := rv.Float()
		class := "f"
		switch {
		case math.IsNaN(f):
			class = "nan"
			d.f.nonFinite = true
		case math.IsInf(f, 1):
			class = "pinf"
			d.f.nonFinite, d.f.nonFiniteInf = true, true
		case math.IsInf(f, -1):
			class = "ninf"
			d.f.nonFinite, d.f.nonFiniteInf = true, true
		}
		return "float " + k + " " + class + " " + bit(f == 0) + " " + hexs(strconv.FormatFloat(f, 'f', -1, t.Bits()))
	case reflect.String:
		return "str " + hexs(rv.String())
	case reflect.Slice:
		if t == bytesType {
			if rv.IsNil() {
				d.f.nilBytes = true
			}
			return "bytes " + bit(rv.IsNil()) + " " + proto.Hex(rv.Bytes())
		}
		if t.Elem().Kind() == reflect.Uint8 && t.Elem().NumMethod() == 0 {
			if !rv.IsNil() {
				d.f.namedBytes = true
			}
			b := make([]byte, rv.Len())
			for i := range b {
				b[i] = byte(rv.Index(i).Uint())
			}
			return "nbytes " + bit(rv.IsNil()) + " " + proto.Hex(b)
		}
		var b strings.Builder
		fmt.Fprintf(&b, "slice %s %d", bit(rv.IsNil()), rv.Len())
		for i := 0; i < rv.Len(); i++ {
			b.WriteString(" " + d.position(rv.Index(i)))
		}
		return b.String()
	case reflect.Array:
		var b strings.Builder
		fmt.Fprintf(&b, "array %d", rv.Len())
		if !rv.CanAddr() {
			c := reflect.New(t).Elem()
			c.Set(rv)
			rv = c
		}
		for i := 0; i < rv.Len(); i++ {
			b.WriteString(" " + d.position(rv.Index(i)))
		}
		return b.String()
	case reflect.Map:
		var b strings.Builder
		fmt.Fprintf(&b, "map %s %d", bit(rv.IsNil()), rv.Len())
		seen := map[string]bool{}
		it := rv.MapRange()
		for it.Next() {
			kd, ks := d.key(it.Key())
			if seen[ks] {
				d.f.dupKeys = true
			}
			seen[ks] = true
			b.WriteString(" " + kd + " " + d.position(it.Value()))
		}
		return b.String()
	case reflect.Struct:
		if !rv.CanAddr() {
			c := reflect.New(t).Elem()
			c.Set(rv)
			rv = c
		}
		var b strings.Builder
		fmt.Fprintf(&b, "struct %d", t.NumField())
		names := map[string]bool{}
		for i := 0; i < t.NumField(); i++ {
			f := t.Field(i)
			tag := f.Tag.Get("json")
			exported := f.PkgPath == ""
			if f.Anonymous {
				d.f.embedded = true
			}
			if exported && tag != "-" {
				name, opts, _ := strings.Cut(tag, ",")
				for _, o := range strings.Split(opts, ",") {
					switch o {
					case "string":
						d.f.stringOpt = true
						if k := f.Type.Kind(); k == reflect.String || k == reflect.Pointer || k == reflect.Float32 || k == reflect.Float64 {
							d.f.stringOptUnmodelled = true // absStd (Spec/ShowAbs.lean) leaves these out; a quoted float keeps FormatFloat 'f' digits there, encoding/json quotes its own 'g'/'e' spelling
						}
					case "omitzero":
						d.f.omitzero = true
					}
				}
				if name != "" && !stdValidTagName(name) {
					d.f.badTagName = true
				}
				if name == "" {
					name = f.Name
				}
				if names[name] {
					d.f.dupNames = true
				}
				names[name] = true
			}
			val := d.position(rv.Field(i)) // unexported ones too: encoding/json's omitzero and promotion look at them
			b.WriteString(" " + hexs(f.Name) + " " + hexs(tag) + " " + bit(exported) + " " + bit(f.Anonymous) + " " + val)
		}
		return b.String()
	case reflect.Pointer:
		if rv.IsNil() {
			return "ptr 0 1 nil"
		}
		return "ptr 0 0 " + d.position(rv.Elem())
	case reflect.UnsafePointer:
		d.f.unsafeAny = true
		if rv.IsNil() {
			return "ptr 1 1 nil"
		}
		d.f.unsafeNonNil = true
		return "ptr 1 0 nil"
	default:
		d.f.other = true
		return "other " + k + " " + hexs(t.String())
	}
}

// stdValidTagName is encoding/json's rule for a usable tag name (documented under Marshal:
// "Unicode letters, digits, and ASCII punctuation except quotation marks, backslash, and comma").
func stdValidTagName(s string) bool {
	if s == "" {
		return false
	}
	for _, c := range s {
		switch {
		case strings.ContainsRune("!#$%&()*+-./:;<=>?@[]^_{|}~ ", c):
		case !unicode.IsLetter(c) && !unicode.IsDigit(c):
			return false
		}
	}
	return true
}
