package main

import (
	"fmt"
	"go/ast"
	"go/parser"
	"go/token"
	"math"
	"reflect"
	"strconv"
	"strings"
	"time"
	"unsafe"

	"verifharness/internal/proto"
)

// val is a value tree interpreted against a reflect.Type (see build).
type val struct {
	Nil   bool
	B     bool
	I     int64
	U     uint64
	F     float64
	C     complex128
	S     string       // string kinds; the content of a slice of a uint8-kind element
	T     time.Time    // time.Time
	Dyn   reflect.Type // interface: dynamic type
	Elems []*val       // slice/array elements, struct fields (all of them), pointer/interface content, map values
	Keys  []*val       // map keys
}

func isByteSlice(t reflect.Type) bool {
	return t.Kind() == reflect.Slice && t.Elem().Kind() == reflect.Uint8
}

// build makes the Go value of type t that v describes.
func build(t reflect.Type, v *val) reflect.Value {
	p := reflect.New(t).Elem()
	switch t.Kind() {
	case reflect.Bool:
		p.SetBool(v.B)
	case reflect.Int, reflect.Int8, reflect.Int16, reflect.Int32, reflect.Int64:
		p.SetInt(v.I)
	case reflect.Uint, reflect.Uint8, reflect.Uint16, reflect.Uint32, reflect.Uint64, reflect.Uintptr:
		p.SetUint(v.U)
	case reflect.Float32, reflect.Float64:
		p.SetFloat(v.F)
	case reflect.Complex64, reflect.Complex128:
		p.SetComplex(v.C)
	case reflect.String:
		p.SetString(v.S)
	case reflect.Slice:
		if v.Nil {
			break
		}
		if isByteSlice(t) {
			s := reflect.MakeSlice(t, len(v.S), len(v.S))
			for i := 0; i < len(v.S); i++ {
				s.Index(i).SetUint(uint64(v.S[i]))
			}
			p.Set(s)
			break
		}
		s := reflect.MakeSlice(t, len(v.Elems), len(v.Elems))
		for i, e := range v.Elems {
			s.Index(i).Set(build(t.Elem(), e))
		}
		p.Set(s)
	case reflect.Array:
		for i := 0; i < t.Len() && i < len(v.Elems); i++ {
			p.Index(i).Set(build(t.Elem(), v.Elems[i]))
		}
	case reflect.Map:
		if v.Nil {
			break
		}
		m := reflect.MakeMap(t)
		for i, k := range v.Keys {
			m.SetMapIndex(build(t.Key(), k), build(t.Elem(), v.Elems[i]))
		}
		p.Set(m)
	case reflect.Struct:
		if t == timeType {
			p.Set(reflect.ValueOf(v.T))
			break
		}
		for i := 0; i < t.NumField() && i < len(v.Elems); i++ {
			f := p.Field(i)
			x := build(t.Field(i).Type, v.Elems[i])
			if f.CanSet() {
				f.Set(x)
			} else {
				reflect.NewAt(f.Type(), unsafe.Pointer(f.UnsafeAddr())).Elem().Set(x)
			}
		}
	case reflect.Pointer:
		if v.Nil {
			break
		}
		q := reflect.New(t.Elem())
		q.Elem().Set(build(t.Elem(), v.Elems[0]))
		p.Set(q)
	case reflect.Interface:
		if v.Nil {
			break
		}
		p.Set(build(v.Dyn, v.Elems[0]))
	case reflect.UnsafePointer:
		if !v.Nil {
			x := new(int)
			p.SetPointer(unsafe.Pointer(x))
		}
	case reflect.Chan:
		if !v.Nil {
			p.Set(reflect.MakeChan(reflect.ChanOf(reflect.BothDir, t.Elem()), 0).Convert(t))
		}
	case reflect.Func:
		if !v.Nil {
			p.Set(reflect.MakeFunc(t, func([]reflect.Value) []reflect.Value { panic("not called") }))
		}
	default:
		panic("build: kind " + t.Kind().String())
	}
	return p
}

// zero is the val of the zero value of t.
func zero(t reflect.Type) *val {
	switch t.Kind() {
	case reflect.Slice, reflect.Map, reflect.Pointer, reflect.Interface, reflect.UnsafePointer, reflect.Chan, reflect.Func:
		return &val{Nil: true}
	case reflect.Array:
		v := &val{}
		for i := 0; i < t.Len(); i++ {
			v.Elems = append(v.Elems, zero(t.Elem()))
		}
		return v
	case reflect.Struct:
		v := &val{}
		if t == timeType {
			return v
		}
		for i := 0; i < t.NumField(); i++ {
			v.Elems = append(v.Elems, zero(t.Field(i).Type))
		}
		return v
	}
	return &val{}
}

// ---------------------------------------------------------------- generation

type gen struct {
	r *proto.Rand
}

var intKinds = []string{"int", "int8", "int16", "int32", "int64"}
var uintKinds = []string{"uint", "uint8", "uint16", "uint32", "uint64", "uintptr"}
var zooStructs = []string{"main.Inner", "main.ZEmb", "main.ZEmbU", "main.ZEmbP", "main.ZUnexp", "main.ZNode", "main.ZTags"}
var zooScalars = []string{"main.MyInt", "main.MyStr", "main.MyFloat", "main.MyBool", "main.U8", "main.IKey", "main.EKey", "native.HTML"}
var zooEnvelopes = []string{"native.JS", "native.JSON", "main.JSer", "main.JSONer", "main.Both", "main.JSEnv", "main.JSONErr"}
var zooErrors = []string{"main.ErrS", "*main.ErrP", "main.ErrStr"}
var fieldNames = []string{"A", "B", "C", "D", "Name", "Value", "X1", "Ünï", "Z_9"}
var tagNames = []string{"a", "b", "name", "x y", "omitempty", "string", "a<b", "é ", "A", "Name", "-x", "k\"q", "b\\s"}

func (g *gen) leafType() reflect.Type {
	switch n := g.r.Intn(100); {
	case n < 8:
		return basicTypes["bool"]
	case n < 22:
		return basicTypes[g.r.Pick(intKinds)]
	case n < 32:
		return basicTypes[g.r.Pick(uintKinds)]
	case n < 44:
		return basicTypes["float64"]
	case n < 49:
		return basicTypes["float32"]
	case n < 62:
		return basicTypes["string"]
	case n < 68:
		return bytesType
	case n < 72:
		return timeType
	case n < 78:
		return zoo[g.r.Pick(zooScalars)]
	case n < 83:
		return zoo[g.r.Pick(zooEnvelopes)]
	case n < 87:
		return parseTypeMust(g.r.Pick(zooErrors))
	case n < 89:
		return errorType
	case n < 91:
		return zoo["main.NB"]
	case n < 93:
		return reflect.SliceOf(zoo["main.U8"])
	case n < 94:
		return basicTypes[g.r.Pick([]string{"complex64", "complex128"})]
	case n < 95:
		return parseTypeMust(g.r.Pick([]string{"chan int", "func()", "func(int) string"}))
	case n < 96:
		return unsafeType
	}
	return anyType
}

func (g *gen) keyType() reflect.Type {
	switch n := g.r.Intn(20); {
	case n < 8:
		return basicTypes["string"]
	case n < 12:
		return basicTypes[g.r.Pick(intKinds)]
	case n < 14:
		return basicTypes[g.r.Pick(uintKinds)]
	case n < 15:
		return zoo["main.MyStr"]
	case n < 16:
		return zoo["main.SKey"]
	case n < 17:
		return zoo["main.IKey"]
	case n < 18:
		return zoo["main.EKey"]
	case n < 19:
		return basicTypes["bool"]
	}
	return basicTypes["float64"]
}

func (g *gen) tag() string {
	name := ""
	if g.r.Intn(3) > 0 {
		name = g.r.Pick(tagNames)
		if g.r.Intn(4) > 0 {
			name = g.r.Pick(tagNames[:3])
		}
	}
	var value string
	switch n := g.r.Intn(24); {
	case n < 6:
		return ""
	case n < 10:
		value = name
	case n < 15:
		value = name + ",omitempty"
	case n < 16:
		value = "-"
	case n < 17:
		value = "-,"
	case n < 18:
		value = name + ",string"
	case n < 19:
		value = name + ",omitzero"
	case n < 20:
		value = name + "," + g.r.Pick([]string{"foo", "", "omitempty ", "Omitempty"}) + ",omitempty"
	case n < 21:
		value = name + ",omitempty," + g.r.Pick([]string{"foo", "", "string"})
	case n < 22:
		value = g.r.Pick([]string{",", ",,", "", "omitempty", ",omitemptyx", "a,foo,,bar", "a,omitempt"})
	default:
		value = name + ",omitempty"
	}
	tag := "json:" + strconv.Quote(value)
	switch g.r.Intn(8) {
	case 0:
		tag = `xml:"x" ` + tag
	case 1:
		tag = tag + ` yaml:"y,omitempty"`
	}
	return tag
}

func (g *gen) structType(depth int) reflect.Type {
	n := g.r.Intn(5)
	perm := append([]string(nil), fieldNames...)
	for i := range perm {
		j := i + g.r.Intn(len(perm)-i)
		perm[i], perm[j] = perm[j], perm[i]
	}
	var fs []reflect.StructField
	for i := 0; i < n; i++ {
		fs = append(fs, reflect.StructField{Name: perm[i], Type: g.typ(depth - 1), Tag: reflect.StructTag(g.tag())})
	}
	return reflect.StructOf(fs)
}

func (g *gen) typ(depth int) reflect.Type {
	if depth <= 0 || g.r.Intn(5) < 2 {
		return g.leafType()
	}
	switch n := g.r.Intn(20); {
	case n < 3:
		return reflect.PointerTo(g.typ(depth - 1))
	case n < 7:
		return reflect.SliceOf(g.typ(depth - 1))
	case n < 9:
		return reflect.ArrayOf(g.r.Intn(4), g.typ(depth-1))
	case n < 12:
		return reflect.MapOf(g.keyType(), g.typ(depth-1))
	case n < 17:
		return g.structType(depth)
	}
	return zoo[g.r.Pick(zooStructs)]
}

var floatCorners = []float64{0, math.Copysign(0, -1), 1, -1, 0.1, 0.5, 1e20, 1e21, 1e22, 1e-6, 1e-7, 123456789.125,
	math.MaxFloat64, -math.MaxFloat64, math.SmallestNonzeroFloat64, math.MaxFloat32, math.SmallestNonzeroFloat32,
	1 << 53, 1<<53 + 2, 4.9406564584124654e-324, 2.2250738585072014e-308, 3.4028234663852886e+38, 1.401298464324817e-45,
	5e-324, 0.000001, 1e100, -1e-100, 100, 1.5e300}

func (g *gen) float(bits int) float64 {
	var f float64
	switch n := g.r.Intn(40); {
	case n < 1:
		f = math.NaN()
	case n < 2:
		f = math.Inf(1)
	case n < 3:
		f = math.Inf(-1)
	case n < 18:
		f = floatCorners[g.r.Intn(len(floatCorners))]
	case n < 26:
		f = math.Float64frombits(g.r.U64())
		if bits == 32 {
			f = float64(math.Float32frombits(uint32(g.r.U64())))
		}
	case n < 32:
		f = float64(int64(g.r.U64()>>uint(g.r.Intn(64)))) / float64(int64(1)<<uint(g.r.Intn(20)))
	default:
		f = float64(g.r.Intn(2000)-1000) / 8
	}
	if bits == 32 {
		f = float64(float32(f))
	}
	return f
}

var strPieces = []string{"a", "b", "z", "A", "0", " ", "\"", "\\", "/", "<", ">", "&", "'", "\n", "\r", "\t", "\b", "\f", "\v",
	"\x00", "\x1f", "\x7f", "\u2028", "\u2029", "\u2027", "\xe2\x80", "\xe2", "\x80\xa8", "\xff", "\xc0\xaf", "\xed\xa0\x80",
	"é", "€", "😀", "�", "</script>", "*/", "<!--", "]]>", "\\u0041", "null", "ab"}

func (g *gen) str() string {
	if g.r.Intn(5) == 0 {
		return ""
	}
	var b strings.Builder
	for n := 1 + g.r.Intn(5); n > 0; n-- {
		if g.r.Intn(16) == 0 {
			b.WriteByte(byte(g.r.U64()))
		} else {
			b.WriteString(g.r.Pick(strPieces))
		}
	}
	return b.String()
}

func (g *gen) int(bits int) int64 {
	var x int64
	switch g.r.Intn(6) {
	case 0:
		x = 0
	case 1:
		x = math.MinInt64
	case 2:
		x = math.MaxInt64
	case 3:
		x = int64(g.r.U64())
	default:
		x = int64(g.r.Intn(41)) - 20
	}
	return x << (64 - uint(bits)) >> (64 - uint(bits))
}

func (g *gen) uint(bits int) uint64 {
	var x uint64
	switch g.r.Intn(5) {
	case 0:
		x = 0
	case 1:
		x = math.MaxUint64
	case 2:
		x = g.r.U64()
	default:
		x = uint64(g.r.Intn(30))
	}
	return x << (64 - uint(bits)) >> (64 - uint(bits))
}

func (g *gen) time() time.Time {
	var loc *time.Location
	switch g.r.Intn(5) {
	case 0, 1:
		loc = time.UTC
	case 2:
		loc = time.FixedZone("", (g.r.Intn(27)-12)*3600+g.r.Intn(2)*1800)
	case 3:
		loc = time.FixedZone("CET", 3600)
	default:
		loc = time.FixedZone("X", -(g.r.Intn(12)*3600 + g.r.Intn(4)*900))
	}
	switch g.r.Intn(40) {
	case 0:
		loc = time.FixedZone("LMT", -(44*60 + 30)) // Africa/Monrovia before 1972
	case 1:
		loc = time.FixedZone("LMT", g.r.Intn(7200)-3600)
	case 2:
		loc = time.FixedZone("UTC", 3600*(1+g.r.Intn(3))) // a zone that is only named UTC
	}
	year := 1 + g.r.Intn(9998)
	if g.r.Intn(3) > 0 {
		year = 1950 + g.r.Intn(120)
	}
	nsec := 0
	switch g.r.Intn(4) {
	case 0:
		nsec = g.r.Intn(1000) * 1000000
	case 1:
		nsec = g.r.Intn(1000000000)
	}
	return time.Date(year, time.Month(1+g.r.Intn(12)), 1+g.r.Intn(28), g.r.Intn(24), g.r.Intn(60), g.r.Intn(60), nsec, loc)
}

// value makes a random value of type t.
func (g *gen) value(t reflect.Type, depth int) *val {
	v := &val{}
	switch t.Kind() {
	case reflect.Bool:
		v.B = g.r.Bool()
	case reflect.Int, reflect.Int8, reflect.Int16, reflect.Int32, reflect.Int64:
		v.I = g.int(t.Bits())
	case reflect.Uint, reflect.Uint8, reflect.Uint16, reflect.Uint32, reflect.Uint64, reflect.Uintptr:
		v.U = g.uint(t.Bits())
	case reflect.Float32, reflect.Float64:
		v.F = g.float(t.Bits())
	case reflect.Complex64, reflect.Complex128:
		v.C = complex(float64(g.r.Intn(5)), float64(g.r.Intn(5)-2))
	case reflect.String:
		v.S = g.str()
		if (t == zoo["native.JS"] || t == zoo["native.JSON"]) && g.r.Intn(8) > 0 {
			for {
				v.S = randomDoc(g.r)
				if _, err := decodeJSON([]byte(v.S)); err == nil {
					break
				}
			}
		}
	case reflect.Slice:
		if g.r.Intn(5) == 0 {
			v.Nil = true
			break
		}
		if isByteSlice(t) {
			if g.r.Intn(3) > 0 {
				v.S = string(g.r.Bytes(g.r.Intn(8)))
			}
			break
		}
		for n := g.r.Intn(4); n > 0 && depth > 0; n-- {
			v.Elems = append(v.Elems, g.value(t.Elem(), depth-1))
		}
	case reflect.Array:
		for i := 0; i < t.Len(); i++ {
			if depth > 0 {
				v.Elems = append(v.Elems, g.value(t.Elem(), depth-1))
			} else {
				v.Elems = append(v.Elems, zero(t.Elem()))
			}
		}
	case reflect.Map:
		if g.r.Intn(5) == 0 {
			v.Nil = true
			break
		}
		seen := map[any]bool{}
		for n := g.r.Intn(5); n > 0 && depth > 0; n-- {
			k := g.value(t.Key(), 0)
			if t.Key().Kind() == reflect.String && g.r.Intn(2) == 0 {
				k.S = g.r.Pick([]string{"a", "b", "ab", "B", "", "10", "9", "é", "a\x00", "~"})
			}
			kv := build(t.Key(), k).Interface()
			if kv != kv || seen[kv] { // NaN keys, repeated keys
				continue
			}
			seen[kv] = true
			v.Keys = append(v.Keys, k)
			v.Elems = append(v.Elems, g.value(t.Elem(), depth-1))
		}
	case reflect.Struct:
		if t == timeType {
			v.T = g.time()
			break
		}
		for i := 0; i < t.NumField(); i++ {
			ft := t.Field(i).Type
			if depth > 0 && g.r.Intn(4) > 0 {
				v.Elems = append(v.Elems, g.value(ft, depth-1))
			} else {
				v.Elems = append(v.Elems, zero(ft))
			}
		}
	case reflect.Pointer:
		if g.r.Intn(4) == 0 || depth <= 0 {
			v.Nil = true
			break
		}
		v.Elems = []*val{g.value(t.Elem(), depth-1)}
	case reflect.Interface:
		if g.r.Intn(5) == 0 || depth <= 0 {
			v.Nil = true
			break
		}
		if t == errorType {
			v.Dyn = parseTypeMust(g.r.Pick(zooErrors))
		} else {
			v.Dyn = g.typ(depth - 1)
			for v.Dyn.Kind() == reflect.Interface {
				v.Dyn = g.leafType()
			}
		}
		v.Elems = []*val{g.value(v.Dyn, depth-1)}
	case reflect.UnsafePointer:
		v.Nil = g.r.Intn(3) > 0
	case reflect.Chan, reflect.Func:
		v.Nil = g.r.Bool()
	}
	return v
}

// ---------------------------------------------------------------- text form (replays, findings)

// typeString is reflect's own spelling; parseType reads it back with go/parser.
func typeString(t reflect.Type) string {
	if t == anyType {
		return "any"
	}
	return t.String()
}

func parseTypeMust(s string) reflect.Type {
	t, err := parseType(s)
	if err != nil {
		panic(err)
	}
	return t
}

func parseType(s string) (reflect.Type, error) {
	e, err := parser.ParseExpr(s)
	if err != nil {
		return nil, fmt.Errorf("type %q: %v", s, err)
	}
	return typeOfExpr(e)
}

func typeOfExpr(e ast.Expr) (reflect.Type, error) {
	switch e := e.(type) {
	case *ast.Ident:
		if t, ok := basicTypes[e.Name]; ok {
			return t, nil
		}
	case *ast.SelectorExpr:
		if id, ok := e.X.(*ast.Ident); ok {
			if t, ok := zoo[id.Name+"."+e.Sel.Name]; ok {
				return t, nil
			}
		}
	case *ast.ParenExpr:
		return typeOfExpr(e.X)
	case *ast.StarExpr:
		t, err := typeOfExpr(e.X)
		if err != nil {
			return nil, err
		}
		return reflect.PointerTo(t), nil
	case *ast.ArrayType:
		t, err := typeOfExpr(e.Elt)
		if err != nil {
			return nil, err
		}
		if e.Len == nil {
			return reflect.SliceOf(t), nil
		}
		lit, ok := e.Len.(*ast.BasicLit)
		if !ok {
			break
		}
		n, err := strconv.Atoi(lit.Value)
		if err != nil {
			return nil, err
		}
		return reflect.ArrayOf(n, t), nil
	case *ast.MapType:
		k, err := typeOfExpr(e.Key)
		if err != nil {
			return nil, err
		}
		t, err := typeOfExpr(e.Value)
		if err != nil {
			return nil, err
		}
		return reflect.MapOf(k, t), nil
	case *ast.InterfaceType:
		if len(e.Methods.List) == 0 {
			return anyType, nil
		}
	case *ast.ChanType:
		t, err := typeOfExpr(e.Value)
		if err != nil {
			return nil, err
		}
		return reflect.ChanOf(reflect.BothDir, t), nil
	case *ast.FuncType:
		var in, out []reflect.Type
		for _, l := range []struct {
			fl  *ast.FieldList
			dst *[]reflect.Type
		}{{e.Params, &in}, {e.Results, &out}} {
			if l.fl == nil {
				continue
			}
			for _, f := range l.fl.List {
				t, err := typeOfExpr(f.Type)
				if err != nil {
					return nil, err
				}
				n := len(f.Names)
				if n == 0 {
					n = 1
				}
				for ; n > 0; n-- {
					*l.dst = append(*l.dst, t)
				}
			}
		}
		return reflect.FuncOf(in, out, false), nil
	case *ast.StructType:
		var fs []reflect.StructField
		for _, f := range e.Fields.List {
			t, err := typeOfExpr(f.Type)
			if err != nil {
				return nil, err
			}
			tag := ""
			if f.Tag != nil {
				tag, err = strconv.Unquote(f.Tag.Value)
				if err != nil {
					return nil, err
				}
			}
			if len(f.Names) == 0 {
				return nil, fmt.Errorf("embedded field in a struct literal type")
			}
			for _, n := range f.Names {
				fs = append(fs, reflect.StructField{Name: n.Name, Type: t, Tag: reflect.StructTag(tag)})
			}
		}
		return reflect.StructOf(fs), nil
	}
	return nil, fmt.Errorf("type expression not supported: %T", e)
}

func floatText(f float64, bits int) string {
	switch {
	case math.IsNaN(f):
		return "NaN"
	case math.IsInf(f, 1):
		return "+Inf"
	case math.IsInf(f, -1):
		return "-Inf"
	}
	return strconv.FormatFloat(f, 'g', -1, bits)
}

// valueText prints v (of type t) in the replay syntax:
//
//	scalars as Go prints them; strings and byte-ish slices quoted; nil; slices/arrays `[ v … ]`;
//	maps `{ k v … }`; structs `{ v … }` (every field, in order); pointers `& v`;
//	interfaces “ `Type` v ”; time.Time quoted "wall-clock offsetSeconds zoneName"; non-nil
//	chan/func/unsafe.Pointer `make`.
func valueText(t reflect.Type, v *val) string {
	switch t.Kind() {
	case reflect.Bool:
		return strconv.FormatBool(v.B)
	case reflect.Int, reflect.Int8, reflect.Int16, reflect.Int32, reflect.Int64:
		return strconv.FormatInt(v.I, 10)
	case reflect.Uint, reflect.Uint8, reflect.Uint16, reflect.Uint32, reflect.Uint64, reflect.Uintptr:
		return strconv.FormatUint(v.U, 10)
	case reflect.Float32, reflect.Float64:
		return floatText(v.F, t.Bits())
	case reflect.Complex64, reflect.Complex128:
		return strconv.FormatComplex(v.C, 'g', -1, 128)
	case reflect.String:
		return strconv.Quote(v.S)
	case reflect.Slice:
		if v.Nil {
			return "nil"
		}
		if isByteSlice(t) {
			return strconv.Quote(v.S)
		}
		return "[ " + elemsText(t.Elem(), v.Elems) + "]"
	case reflect.Array:
		return "[ " + elemsText(t.Elem(), v.Elems) + "]"
	case reflect.Map:
		if v.Nil {
			return "nil"
		}
		var b strings.Builder
		b.WriteString("{ ")
		for i := range v.Keys {
			b.WriteString(valueText(t.Key(), v.Keys[i]) + " " + valueText(t.Elem(), v.Elems[i]) + " ")
		}
		return b.String() + "}"
	case reflect.Struct:
		if t == timeType {
			name, off := v.T.Zone()
			return strconv.Quote(v.T.Format("2006-01-02T15:04:05.999999999") + " " + strconv.Itoa(off) + " " + name)
		}
		var b strings.Builder
		b.WriteString("{ ")
		for i := 0; i < t.NumField(); i++ {
			b.WriteString(valueText(t.Field(i).Type, v.Elems[i]) + " ")
		}
		return b.String() + "}"
	case reflect.Pointer:
		if v.Nil {
			return "nil"
		}
		return "& " + valueText(t.Elem(), v.Elems[0])
	case reflect.Interface:
		if v.Nil {
			return "nil"
		}
		return "`" + typeString(v.Dyn) + "` " + valueText(v.Dyn, v.Elems[0])
	default:
		if v.Nil {
			return "nil"
		}
		return "make"
	}
}

func elemsText(t reflect.Type, es []*val) string {
	var b strings.Builder
	for _, e := range es {
		b.WriteString(valueText(t, e) + " ")
	}
	return b.String()
}

// tokens of the replay syntax: back-quoted types, double-quoted strings, everything else split at spaces.
func tokenize(s string) ([]string, error) {
	var toks []string
	for {
		s = strings.TrimLeft(s, " ")
		if s == "" {
			return toks, nil
		}
		switch s[0] {
		case '`':
			i := strings.IndexByte(s[1:], '`')
			if i < 0 {
				return nil, fmt.Errorf("unterminated type")
			}
			toks = append(toks, s[:i+2])
			s = s[i+2:]
		case '"':
			q, err := strconv.QuotedPrefix(s)
			if err != nil {
				return nil, err
			}
			toks = append(toks, q)
			s = s[len(q):]
		default:
			i := strings.IndexByte(s, ' ')
			if i < 0 {
				i = len(s)
			}
			toks = append(toks, s[:i])
			s = s[i:]
		}
	}
}

type valParser struct {
	toks []string
}

func (p *valParser) next() (string, error) {
	if len(p.toks) == 0 {
		return "", fmt.Errorf("unexpected end")
	}
	t := p.toks[0]
	p.toks = p.toks[1:]
	return t, nil
}

func (p *valParser) peek() string {
	if len(p.toks) == 0 {
		return ""
	}
	return p.toks[0]
}

func (p *valParser) value(t reflect.Type) (*val, error) {
	tok, err := p.next()
	if err != nil {
		return nil, err
	}
	v := &val{}
	bad := func() (*val, error) { return nil, fmt.Errorf("value %q for type %s", tok, t) }
	switch t.Kind() {
	case reflect.Bool:
		v.B, err = strconv.ParseBool(tok)
	case reflect.Int, reflect.Int8, reflect.Int16, reflect.Int32, reflect.Int64:
		v.I, err = strconv.ParseInt(tok, 10, 64)
	case reflect.Uint, reflect.Uint8, reflect.Uint16, reflect.Uint32, reflect.Uint64, reflect.Uintptr:
		v.U, err = strconv.ParseUint(tok, 10, 64)
	case reflect.Float32, reflect.Float64:
		v.F, err = strconv.ParseFloat(tok, t.Bits())
	case reflect.Complex64, reflect.Complex128:
		v.C, err = strconv.ParseComplex(tok, 128)
	case reflect.String:
		v.S, err = strconv.Unquote(tok)
	case reflect.Slice:
		if tok == "nil" {
			v.Nil = true
			break
		}
		if isByteSlice(t) {
			v.S, err = strconv.Unquote(tok)
			break
		}
		fallthrough
	case reflect.Array:
		if tok != "[" {
			return bad()
		}
		for p.peek() != "]" {
			e, err := p.value(t.Elem())
			if err != nil {
				return nil, err
			}
			v.Elems = append(v.Elems, e)
		}
		p.next()
		if t.Kind() == reflect.Array && len(v.Elems) != t.Len() {
			return bad()
		}
	case reflect.Map:
		if tok == "nil" {
			v.Nil = true
			break
		}
		if tok != "{" {
			return bad()
		}
		for p.peek() != "}" {
			k, err := p.value(t.Key())
			if err != nil {
				return nil, err
			}
			e, err := p.value(t.Elem())
			if err != nil {
				return nil, err
			}
			v.Keys = append(v.Keys, k)
			v.Elems = append(v.Elems, e)
		}
		p.next()
	case reflect.Struct:
		if t == timeType {
			s, err := strconv.Unquote(tok)
			if err != nil {
				return nil, err
			}
			parts := strings.SplitN(s, " ", 3)
			if len(parts) != 3 {
				return nil, fmt.Errorf("time %q: want \"wall offsetSeconds zoneName\"", s)
			}
			off, err := strconv.Atoi(parts[1])
			if err != nil {
				return nil, err
			}
			loc := time.FixedZone(parts[2], off)
			if parts[2] == "UTC" && off == 0 {
				loc = time.UTC
			}
			v.T, err = time.ParseInLocation("2006-01-02T15:04:05.999999999", parts[0], loc)
			if err != nil {
				return nil, err
			}
			break
		}
		if tok != "{" {
			return bad()
		}
		for i := 0; i < t.NumField(); i++ {
			e, err := p.value(t.Field(i).Type)
			if err != nil {
				return nil, err
			}
			v.Elems = append(v.Elems, e)
		}
		if c, _ := p.next(); c != "}" {
			return bad()
		}
	case reflect.Pointer:
		if tok == "nil" {
			v.Nil = true
			break
		}
		if tok != "&" {
			return bad()
		}
		e, err := p.value(t.Elem())
		if err != nil {
			return nil, err
		}
		v.Elems = []*val{e}
	case reflect.Interface:
		if tok == "nil" {
			v.Nil = true
			break
		}
		if len(tok) < 2 || tok[0] != '`' {
			return bad()
		}
		v.Dyn, err = parseType(tok[1 : len(tok)-1])
		if err != nil {
			return nil, err
		}
		e, err := p.value(v.Dyn)
		if err != nil {
			return nil, err
		}
		v.Elems = []*val{e}
	default:
		v.Nil = tok == "nil"
		if !v.Nil && tok != "make" {
			return bad()
		}
	}
	if err != nil {
		return nil, fmt.Errorf("value %q for type %s: %v", tok, t, err)
	}
	return v, nil
}

// a case: context and a value of static type any
type tcase struct {
	ctx string // js | json (direct calls) or tjs | tjson | tscript | tldjson (through a template)
	v   *val   // of type any
}

func (c tcase) String() string { return c.ctx + " " + valueText(anyType, c.v) }

func parseCase(s string) (tcase, error) {
	toks, err := tokenize(s)
	if err != nil {
		return tcase{}, err
	}
	if len(toks) < 2 {
		return tcase{}, fmt.Errorf("case %q: too short", s)
	}
	p := &valParser{toks: toks[1:]}
	v, err := p.value(anyType)
	if err != nil {
		return tcase{}, err
	}
	if len(p.toks) != 0 {
		return tcase{}, fmt.Errorf("case %q: trailing tokens", s)
	}
	return tcase{ctx: toks[0], v: v}, nil
}

var _ = token.NoPos
