package main

import (
	"math"
	"reflect"
	"strings"
	"time"
)

// ---------------------------------------------------------------- shrinking

func cloneVal(v *val) *val {
	c := *v
	c.Elems = append([]*val(nil), v.Elems...)
	c.Keys = append([]*val(nil), v.Keys...)
	return &c
}

func isZeroVal(t reflect.Type, v *val) bool {
	return valueText(t, v) == valueText(t, zero(t))
}

func unnamedStruct(t reflect.Type) bool {
	return t.Kind() == reflect.Struct && t.Name() == ""
}

// withField returns the struct type t with field i removed (f == nil) or replaced.
func withField(t reflect.Type, i int, f *reflect.StructField) reflect.Type {
	var fs []reflect.StructField
	for j := 0; j < t.NumField(); j++ {
		if j == i {
			if f != nil {
				fs = append(fs, *f)
			}
			continue
		}
		fs = append(fs, t.Field(j))
	}
	return reflect.StructOf(fs)
}

// candidates lists values of static type t that are simpler than v, most aggressive first.
func candidates(t reflect.Type, v *val) []*val {
	var out []*val
	if !isZeroVal(t, v) {
		out = append(out, zero(t))
	}
	sub := func(i int, et reflect.Type) {
		for _, c := range candidates(et, v.Elems[i]) {
			n := cloneVal(v)
			n.Elems[i] = c
			out = append(out, n)
		}
	}
	switch t.Kind() {
	case reflect.Int, reflect.Int8, reflect.Int16, reflect.Int32, reflect.Int64:
		if v.I != 0 && v.I != 1 {
			out = append(out, &val{I: 1})
		}
	case reflect.Uint, reflect.Uint8, reflect.Uint16, reflect.Uint32, reflect.Uint64, reflect.Uintptr:
		if v.U > 1 {
			out = append(out, &val{U: 1})
		}
	case reflect.Float32, reflect.Float64:
		if v.F != 0 && v.F != 1 {
			out = append(out, &val{F: 1})
		}
		if math.IsInf(v.F, 0) {
			out = append(out, &val{F: math.NaN()})
		}
	case reflect.String:
		if len(v.S) > 1 {
			out = append(out, &val{S: v.S[:len(v.S)/2]}, &val{S: v.S[len(v.S)/2:]}, &val{S: v.S[1:]}, &val{S: v.S[:len(v.S)-1]})
		}
		if v.S != "" && v.S != "a" {
			out = append(out, &val{S: "a"})
		}
	case reflect.Slice:
		if v.Nil {
			break
		}
		if isByteSlice(t) {
			if len(v.S) > 0 {
				out = append(out, &val{S: ""}, &val{S: v.S[:len(v.S)-1]})
			}
			break
		}
		for i := range v.Elems {
			n := cloneVal(v)
			n.Elems = append(n.Elems[:i:i], n.Elems[i+1:]...)
			out = append(out, n)
		}
		for i := range v.Elems {
			sub(i, t.Elem())
		}
	case reflect.Array:
		for i := range v.Elems {
			sub(i, t.Elem())
		}
	case reflect.Map:
		if v.Nil {
			break
		}
		for i := range v.Elems {
			n := cloneVal(v)
			n.Elems = append(n.Elems[:i:i], n.Elems[i+1:]...)
			n.Keys = append(n.Keys[:i:i], n.Keys[i+1:]...)
			out = append(out, n)
		}
		for i := range v.Elems {
			sub(i, t.Elem())
		}
	case reflect.Struct:
		if t == timeType {
			simple := time.Date(2000, 1, 1, 0, 0, 0, 0, time.UTC)
			if !v.T.Equal(simple) {
				out = append(out, &val{T: simple})
			}
			break
		}
		for i := range v.Elems {
			sub(i, t.Field(i).Type)
		}
	case reflect.Pointer:
		if !v.Nil {
			sub(0, t.Elem())
		}
	case reflect.Interface:
		if v.Nil {
			break
		}
		inner := v.Elems[0]
		d := v.Dyn
		if t == anyType {
			// hoist a child of the content
			hoist := func(ct reflect.Type, c *val) {
				if ct.Kind() == reflect.Interface {
					if !c.Nil {
						out = append(out, c)
					}
					return
				}
				out = append(out, &val{Dyn: ct, Elems: []*val{c}})
			}
			switch d.Kind() {
			case reflect.Slice, reflect.Array, reflect.Map:
				if !isByteSlice(d) {
					for _, c := range inner.Elems {
						hoist(d.Elem(), c)
					}
				}
			case reflect.Pointer:
				if !inner.Nil {
					hoist(d.Elem(), inner.Elems[0])
				}
			case reflect.Struct:
				if d != timeType {
					for i, c := range inner.Elems {
						if d.Field(i).PkgPath == "" {
							hoist(d.Field(i).Type, c)
						}
					}
				}
			}
			// simpler types
			if unnamedStruct(d) {
				for i := 0; i < d.NumField(); i++ {
					n := cloneVal(inner)
					n.Elems = append(n.Elems[:i:i], n.Elems[i+1:]...)
					out = append(out, &val{Dyn: withField(d, i, nil), Elems: []*val{n}})
				}
				for i := 0; i < d.NumField(); i++ {
					f := d.Field(i)
					for _, tag := range simplerTags(string(f.Tag)) {
						f.Tag = reflect.StructTag(tag)
						out = append(out, &val{Dyn: withField(d, i, &f), Elems: []*val{inner}})
					}
				}
			}
			if d.Kind() == reflect.Array && d.Len() > 0 && len(inner.Elems) == d.Len() {
				n := cloneVal(inner)
				n.Elems = n.Elems[:d.Len()-1]
				out = append(out, &val{Dyn: reflect.ArrayOf(d.Len()-1, d.Elem()), Elems: []*val{n}})
			}
		}
		for _, c := range candidates(d, inner) {
			out = append(out, &val{Dyn: d, Elems: []*val{c}})
		}
	}
	return out
}

// simplerTags: drop the other keys, drop options one at a time, drop the name, drop the tag.
func simplerTags(tag string) []string {
	if tag == "" {
		return nil
	}
	out := []string{""}
	jv, ok := reflect.StructTag(tag).Lookup("json")
	if !ok {
		return out
	}
	mk := func(v string) string { return "json:" + strconvQuote(v) }
	if mk(jv) != tag {
		out = append(out, mk(jv))
	}
	parts := strings.Split(jv, ",")
	for i := 1; i < len(parts); i++ {
		p := append(append([]string(nil), parts[:i]...), parts[i+1:]...)
		out = append(out, mk(strings.Join(p, ",")))
	}
	if parts[0] != "" && parts[0] != "a" {
		p := append([]string{"a"}, parts[1:]...)
		out = append(out, mk(strings.Join(p, ",")))
	}
	return out
}

// shrink greedily applies candidates while the case keeps failing.
func shrink(tc tcase, failing func(tcase) bool) tcase {
	budget := 3000
	for progress := true; progress && budget > 0; {
		progress = false
		for _, c := range candidates(anyType, tc.v) {
			budget--
			if budget <= 0 {
				break
			}
			cand := tcase{ctx: tc.ctx, v: c}
			if !validCase(cand) {
				continue
			}
			if failing(cand) {
				tc = cand
				progress = true
				break
			}
		}
	}
	return tc
}

// validCase: the value can be built (reflect.StructOf and friends do not panic).
func validCase(tc tcase) (ok bool) {
	defer func() {
		if recover() != nil {
			ok = false
		}
	}()
	build(anyType, tc.v)
	return true
}

// ---------------------------------------------------------------- repairs (attribution to a known class)

// A repair rewrites types and values so that one known class of difference disappears and
// nothing else changes. If a failing case stops failing under the repair, the failure is
// attributed to that class.

var repairClasses = []string{"nonfinite", "unsafe", "stringopt", "nilbytes", "embedded", "omitzero", "namedbytes", "subsecond", "offsetsec", "utcnamed"}

type repairer struct {
	class string
	memo  map[reflect.Type]reflect.Type
}

func dropOption(tag, opt string) string {
	jv, ok := reflect.StructTag(tag).Lookup("json")
	if !ok {
		return tag
	}
	parts := strings.Split(jv, ",")
	keep := parts[:1]
	for _, p := range parts[1:] {
		if p != opt {
			keep = append(keep, p)
		}
	}
	// the other keys of the tag play no role
	return "json:" + strconvQuote(strings.Join(keep, ","))
}

// typ is the repaired type of t; fields lists, for a struct, which old field each new field is.
func (r *repairer) typ(t reflect.Type) reflect.Type {
	if n, ok := r.memo[t]; ok {
		return n
	}
	r.memo[t] = t // recursive types are left alone
	n := t
	switch t.Kind() {
	case reflect.Pointer:
		if e := r.typ(t.Elem()); e != t.Elem() {
			n = reflect.PointerTo(e)
		}
	case reflect.Slice:
		if r.class == "namedbytes" && t.Elem().Kind() == reflect.Uint8 && t != bytesType {
			n = bytesType
		} else if e := r.typ(t.Elem()); e != t.Elem() {
			n = reflect.SliceOf(e)
		}
	case reflect.Array:
		if e := r.typ(t.Elem()); e != t.Elem() {
			n = reflect.ArrayOf(t.Len(), e)
		}
	case reflect.Map:
		if e := r.typ(t.Elem()); e != t.Elem() {
			n = reflect.MapOf(t.Key(), e)
		}
	case reflect.Struct:
		if t == timeType {
			break
		}
		changed := false
		var fs []reflect.StructField
		for i := 0; i < t.NumField(); i++ {
			f := t.Field(i)
			nf := reflect.StructField{Name: f.Name, Type: r.typ(f.Type), Tag: f.Tag, PkgPath: f.PkgPath}
			if nf.Type != f.Type {
				changed = true
			}
			switch r.class {
			case "stringopt":
				nf.Tag = reflect.StructTag(dropOption(string(f.Tag), "string"))
			case "omitzero":
				nf.Tag = reflect.StructTag(dropOption(string(f.Tag), "omitzero"))
			case "embedded":
				if f.Anonymous {
					changed = true
				}
			}
			if nf.Tag != f.Tag {
				changed = true
			}
			fs = append(fs, nf)
		}
		if changed {
			var keep []reflect.StructField
			for _, f := range fs {
				if f.PkgPath == "" { // unexported fields cannot be made by StructOf; nobody serialises them
					keep = append(keep, f)
				}
			}
			n = reflect.StructOf(keep)
		}
	}
	r.memo[t] = n
	return n
}

func (r *repairer) value(t reflect.Type, v *val) *val {
	n := cloneVal(v)
	switch t.Kind() {
	case reflect.Float32, reflect.Float64:
		if r.class == "nonfinite" && (math.IsNaN(v.F) || math.IsInf(v.F, 0)) {
			n.F = 0
		}
	case reflect.UnsafePointer:
		if r.class == "unsafe" {
			n.Nil = true
		}
	case reflect.Slice:
		if r.class == "nilbytes" && t == bytesType && v.Nil {
			n.Nil, n.S = false, ""
		}
		if !isByteSlice(t) {
			for i, e := range v.Elems {
				n.Elems[i] = r.value(t.Elem(), e)
			}
		}
	case reflect.Array, reflect.Map:
		for i, e := range v.Elems {
			n.Elems[i] = r.value(t.Elem(), e)
		}
	case reflect.Pointer:
		if !v.Nil {
			n.Elems[0] = r.value(t.Elem(), v.Elems[0])
		}
	case reflect.Interface:
		if !v.Nil {
			n.Dyn = r.typ(v.Dyn)
			n.Elems[0] = r.value(v.Dyn, v.Elems[0])
		}
	case reflect.Struct:
		if t == timeType {
			name, off := v.T.Zone()
			switch r.class {
			case "subsecond":
				n.T = v.T.Add(-time.Duration(v.T.Nanosecond()))
			case "offsetsec":
				if off%60 != 0 {
					n.T = v.T.In(time.FixedZone(name, off/60*60))
				}
			case "utcnamed":
				if name == "UTC" && off != 0 {
					n.T = v.T.In(time.FixedZone("X", off))
				}
			}
			break
		}
		nt := r.typ(t)
		n.Elems = nil
		for i := 0; i < t.NumField(); i++ {
			if nt != t && t.Field(i).PkgPath != "" {
				continue
			}
			n.Elems = append(n.Elems, r.value(t.Field(i).Type, v.Elems[i]))
		}
	}
	return n
}

func repair(class string, tc tcase) (out tcase, ok bool) {
	defer func() {
		if recover() != nil {
			ok = false
		}
	}()
	r := &repairer{class: class, memo: map[reflect.Type]reflect.Type{}}
	out = tcase{ctx: tc.ctx, v: r.value(anyType, tc.v)}
	build(anyType, out.v)
	return out, true
}
