package main

import "verifharness/internal/proto"

// genGrammar generates programs in the region where the frame machine is intricate: functions
// with several deferred calls, deferred functions that recover and then panic again, re-panic
// the recovered value, call functions that defer, panic and recover themselves, recover at
// different depths, the same function deferred twice, defer recover().
func genGrammar(r *proto.Rand, stopFatal bool) *prog {
	p := &prog{}
	nextVal := 1
	val := func() int { nextVal++; return nextVal - 1 }
	pv := func() int { // a panic value: sometimes a run-time error of the interpreted code
		if r.Intn(7) == 0 {
			return errBase + 1 + r.Intn(3)
		}
		return val()
	}
	// wrap: sometimes the function is reached through a one-call function (written h.Call(f)),
	var mk func(depth int, deferred bool) int
	child := func(depth int, deferred bool) int {
		if r.Intn(3) == 0 && len(p.Funcs) < 9 {
			w := len(p.Funcs)
			p.Funcs = append(p.Funcs, nil)
			p.Funcs[w] = []instr{{opCall, mk(depth, r.Intn(3) == 0)}}
			return w
		}
		if r.Intn(8) == 0 { // a leaf that only panics / prints / does nothing (written h.Panic(v), h.Print(x), h.Nop())
			w := len(p.Funcs)
			switch r.Intn(3) {
			case 0:
				p.Funcs = append(p.Funcs, []instr{{opPanic, val()}})
			case 1:
				p.Funcs = append(p.Funcs, []instr{{opPrint, val()}})
			default:
				p.Funcs = append(p.Funcs, []instr{})
			}
			return w
		}
		return mk(depth, deferred)
	}
	mk = func(depth int, deferred bool) int {
		idx := len(p.Funcs)
		p.Funcs = append(p.Funcs, nil)
		var body []instr
		add := func(op string, a int) { body = append(body, instr{op, a}) }
		if deferred {
			switch r.Intn(8) {
			case 0, 1, 2, 3:
				add(opRecover, 0)
			case 4:
				add(opRepanic, 0)
			case 5:
				add(opDeferRec, 0)
			}
		} else if r.Intn(6) == 0 {
			add(opRecover, 0)
		}
		if r.Intn(5) == 0 {
			add(opPrint, val())
		}
		if depth < 3 && len(p.Funcs) < 9 {
			nd := r.Intn(4)
			var made []int
			for k := 0; k < nd && len(p.Funcs) < 9; k++ {
				switch {
				case len(made) > 0 && r.Intn(6) == 0:
					add(opDefer, made[r.Intn(len(made))]) // the same function deferred again
				case r.Intn(10) == 0:
					add(opDeferRec, 0)
				default:
					f := child(depth+1, true)
					made = append(made, f)
					add(opDefer, f)
				}
			}
			if r.Intn(5) < 2 && len(p.Funcs) < 9 {
				add(opCall, child(depth+1, false))
			}
		}
		switch x := r.Intn(20); {
		case x < 11:
			add(opPanic, pv())
		case x < 13:
			add(opRecover, 0)
		case x < 14:
			add(opRet, 0)
			add(opPanic, val())
		case x < 15 && stopFatal:
			add(opStop, r.Intn(3))
		case x < 16 && stopFatal:
			add(opFatal, val())
		}
		p.Funcs[idx] = body
		return idx
	}
	mk(0, false)
	n := len(p.Funcs)
	p.Style = make([]int, n)
	p.Native = make([]bool, nextVal+1)
	for i := range p.Native {
		p.Native[i] = r.Intn(6) == 0
	}
	for i, f := range p.Funcs { // a function referring to a lower index cannot happen: children are made later
		for _, in := range f {
			if (in.Op == opCall || in.Op == opDefer) && in.Arg <= i {
				panic("generator: reference is not forward")
			}
		}
	}
	p.setStyles(r)
	return p
}

// exhaustivePrograms enumerates every program of three functions main, f1, f2 with
// main ≤ 3 instructions over {defer f1, defer f2, f1(), f2(), panic, recover},
// f1 ≤ 2 over {defer f2, f2(), panic, recover} and f2 ≤ 2 over {panic, recover, re-panic}
// (a function nobody refers to is empty), each panic site with its own value.
func exhaustivePrograms() []*prog {
	seqs := func(alpha []instr, maxLen int) [][]instr {
		out := [][]instr{{}}
		prev := [][]instr{{}}
		for l := 1; l <= maxLen; l++ {
			var cur [][]instr
			for _, s := range prev {
				for _, a := range alpha {
					cur = append(cur, append(append([]instr{}, s...), a))
				}
			}
			out = append(out, cur...)
			prev = cur
		}
		return out
	}
	mains := seqs([]instr{{opDefer, 1}, {opDefer, 2}, {opCall, 1}, {opCall, 2}, {opPanic, 0}, {opRecover, 0}}, 3)
	f1s := seqs([]instr{{opDefer, 2}, {opCall, 2}, {opPanic, 0}, {opRecover, 0}}, 2)
	f2s := seqs([]instr{{opPanic, 0}, {opRecover, 0}, {opRepanic, 0}}, 2)
	refs := func(b []instr, f int) bool {
		for _, in := range b {
			if (in.Op == opDefer || in.Op == opCall) && in.Arg == f {
				return true
			}
		}
		return false
	}
	var out []*prog
	number := func(bodies [][]instr) *prog { // every panic site gets its own value
		p := &prog{Style: make([]int, len(bodies))}
		v := 1
		for _, body := range bodies {
			nb := make([]instr, len(body))
			for i, in := range body {
				if in.Op == opPanic && in.Arg == 0 {
					in.Arg = v
					v++
				}
				nb[i] = in
			}
			p.Funcs = append(p.Funcs, nb)
		}
		return p
	}
	// natives in every position: f1 is the native h.Call(f2) (called or deferred directly by main),
	// f2 ≤ 2 over {panic, run-time error, recover, Stop, Fatal} raising at most one panic
	mainsN := seqs([]instr{{opDefer, 1}, {opCall, 1}, {opDefer, 2}, {opPanic, 0}, {opRecover, 0}}, 3)
	f2sN := seqs([]instr{{opPanic, 0}, {opPanic, errBase + 1}, {opRecover, 0}, {opStop, 1}, {opFatal, 7}}, 2)
	for _, m := range mainsN {
		if len(m) < 2 || !refs(m, 1) {
			continue
		}
		for _, b := range f2sN {
			p := number([][]instr{m, {{opCall, 2}}, b})
			if p.maxPanics(2) > 1 {
				continue
			}
			p.Style[1] = styleNative
			out = append(out, p)
		}
	}
	// … and f1 the native h.Panic(v), f2 ≤ 2 over {panic, recover, re-panic}
	for _, m := range mains {
		if len(m) < 2 || !refs(m, 1) {
			continue
		}
		for _, b := range f2s {
			if !refs(m, 2) && len(b) > 0 {
				continue
			}
			p := number([][]instr{m, {{opPanic, 0}}, b})
			p.Style[1] = styleNative
			out = append(out, p)
		}
	}
	for _, m := range mains {
		if len(m) < 2 {
			continue
		}
		for _, a := range f1s {
			if !refs(m, 1) && len(a) > 0 {
				continue
			}
			for _, b := range f2s {
				if !refs(m, 2) && !(refs(m, 1) && refs(a, 2)) && len(b) > 0 {
					continue
				}
				p := &prog{Style: make([]int, 3)}
				v := 1
				for _, body := range [][]instr{m, a, b} {
					nb := make([]instr, len(body))
					for i, in := range body {
						if in.Op == opPanic {
							in.Arg = v
							v++
						}
						nb[i] = in
					}
					p.Funcs = append(p.Funcs, nb)
				}
				if p.count(opPanic) == 0 {
					continue
				}
				out = append(out, p)
			}
		}
	}
	return out
}
