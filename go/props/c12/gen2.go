package main

import "verifharness/internal/proto"

// genGrammar generates programs in the region where the frame machine is intricate: functions
// with several deferred calls, deferred functions that recover and then panic again, re-panic
// the recovered value, call functions that defer, panic and recover themselves, recover at
// different depths, the same function deferred twice, defer recover().
func genGrammar(r *proto.Rand, stopFatal bool) *prog {
	p := &prog{}
	nextVal := 1
	val := func() int { nextVal++; return nextVal - 1 }
	pv := func() int { // a panic value: sometimes a run-time error of the interpreted code
		if r.Intn(7) == 0 {
			return errBase + 1 + r.Intn(3)
		}
		return val()
	}
	// wrap: sometimes the function is reached through a one-call function (written h.Call(f)),
	var mk func(depth int, deferred bool) int
	child := func(depth int, deferred bool) int {
		if r.Intn(3) == 0 && len(p.Funcs) < 9 {
			w := len(p.Funcs)
			p.Funcs = append(p.Funcs, nil)
			p.Funcs[w] = []instr{{opCall, mk(depth, r.Intn(3) == 0)}}
			return w
		}
		if r.Intn(8) == 0 { // a leaf that only panics / prints / does nothing (written h.Panic(v), h.Print(x), h.Nop())
			w := len(p.Funcs)
			switch r.Intn(3) {
			case 0:
				p.Funcs = append(p.Funcs, []instr{{opPanic, val()}})
			case 1:
				p.Funcs = append(p.Funcs, []instr{{opPrint, val()}})
			default:
				p.Funcs = append(p.Funcs, []instr{})
			}
			return w
		}
		return mk(depth, deferred)
	}
	mk = func(depth int, deferred bool) int {
		idx := len(p.Funcs)
		p.Funcs = append(p.Funcs, nil)
		var body []instr
		add := func(op string, a int) { body = append(body, instr{op, a}) }
		if deferred {
			switch r.Intn(8) {
			case 0, 1, 2, 3:
				add(opRecover, 0)
			case 4:
				add(opRepanic, 0)
			case 5:
				add(opDeferRec, 0)
			}
		} else if r.Intn(6) == 0 {
			add(opRecover, 0)
		}
		if r.Intn(5) == 0 {
			add(opPrint, val())
		}
		if depth < 3 && len(p.Funcs) < 9 {
			nd := r.Intn(4)
			var made []int
			for k := 0; k < nd && len(p.Funcs) < 9; k++ {
				switch {
				case len(made) > 0 && r.Intn(6) == 0:
					add(opDefer, made[r.Intn(len(made))]) // the same function deferred again
				case r.Intn(10) == 0:
					add(opDeferRec, 0)
				default:
					f := child(depth+1, true)
					made = append(made, f)
					add(opDefer, f)
				}
			}
			if r.Intn(5) < 2 && len(p.Funcs) < 9 {
				add(opCall, child(depth+1, false))
			}
		}
		switch x := r.Intn(20); {
		case x < 11:
			add(opPanic, pv())
		case x < 13:
			add(opRecover, 0)
		case x < 14:
			add(opRet, 0)
			add(opPanic, val())
		case x < 15 && stopFatal:
			add(opStop, r.Intn(3))
		case x < 16 && stopFatal:
			add(opFatal, val())
		}
		p.Funcs[idx] = body
		return idx
	}
	mk(0, false)
	n := len(p.Funcs)
	p.Style = make([]int, n)
	p.Native = make([]bool, nextVal+1)
	for i := range p.Native {
		p.Native[i] = r.Intn(6) == 0
	}
	for i, f := range p.Funcs { // a function referring to a lower index cannot happen: children are made later
		for _, in := range f {
			if (in.Op == opCall || in.Op == opDefer) && in.Arg <= i {
				panic("generator: reference is not forward")
			}
		}
	}
	p.setStyles(r)
	return p
}

// exhaustivePrograms enumerates every program of three functions main, f1, f2 with
// main ≤ 3 instructions over {defer f1, defer f2, f1(), f2(), panic, recover},
// f1 ≤ 2 over {defer f2, f2(), panic, recover} and f2 ≤ 2 over {panic, recover, re-panic}
// (a function nobody refers to is empty), each panic site with its own value.
func exhaustivePrograms() []*prog {
	seqs := func(alpha []instr, maxLen int) [][]instr {
		out := [][]instr{{}}
		prev := [][]instr{{}}
		for l := 1; l <= maxLen; l++ {
			var cur [][]instr
			for _, s := range prev {
				for _, a := range alpha {
					cur = append(cur, append(append([]instr{}, s...), a))
				}
			}
			out = append(out, cur...)
			prev = cur
		}
		return out
	}
	mains := seqs([]instr{{opDefer, 1}, {opDefer, 2}, {opCall, 1}, {opCall, 2}, {opPanic, 0}, {opRecover, 0}}, 3)
	f1s := seqs([]instr{{opDefer, 2}, {opCall, 2}, {opPanic, 0}, {opRecover, 0}}, 2)
	f2s := seqs([]instr{{opPanic, 0}, {opRecover, 0}, {opRepanic, 0}}, 2)
	refs := func(b []instr, f int) bool {
		for _, in := range b {
			if (in.Op == opDefer || in.Op == opCall) && in.Arg == f {
				return true
			}
		}
		return false
	}
	var out []*prog
	number := func(bodies [][]instr) *prog { // every panic site gets its own value
		p := &prog{Style: make([]int, len(bodies))}
		v := 1
		for _, body := range bodies {
			nb := make([]instr, len(body))
			for i, in := range body {
				if in.Op == opPanic && in.Arg == 0 {
					in.Arg = v
					v++
				}
				nb[i] = in
			}
			p.Funcs = append(p.Funcs, nb)
		}
		return p
	}
	// natives in every position: f1 is the native h.Call(f2) (called or deferred directly by main),
	// f2 ≤ 2 over {panic, run-time error, recover, Stop, Fatal} raising at most one panic
	mainsN := seqs([]instr{{opDefer, 1}, {opCall, 1}, {opDefer, 2}, {opPanic, 0}, {opRecover, 0}}, 3)
	f2sN := seqs([]instr{{opPanic, 0}, {opPanic, errBase + 1}, {opRecover, 0}, {opStop, 1}, {opFatal, 7}}, 2)
	for _, m := range mainsN {
		if len(m) < 2 || !refs(m, 1) {
			continue
		}
		for _, b := range f2sN {
			p := number([][]instr{m, {{opCall, 2}}, b})
			if p.maxPanics(2) > 1 {
				continue
			}
			p.Style[1] = styleNative
			out = append(out, p)
		}
	}
	// … and f1 the native h.Panic(v), f2 ≤ 2 over {panic, recover, re-panic}
	for _, m := range mains {
		if len(m) < 2 || !refs(m, 1) {
			continue
		}
		for _, b := range f2s {
			if !refs(m, 2) && len(b) > 0 {
				continue
			}
			p := number([][]instr{m, {{opPanic, 0}}, b})
			p.Style[1] = styleNative
			out = append(out, p)
		}
	}
	for _, m := range mains {
		if len(m) < 2 {
			continue
		}
		for _, a := range f1s {
			if !refs(m, 1) && len(a) > 0 {
				continue
			}
			for _, b := range f2s {
				if !refs(m, 2) && !(refs(m, 1) && refs(a, 2)) && len(b) > 0 {
					continue
				}
				p := &prog{Style: make([]int, 3)}
				v := 1
				for _, body := range [][]instr{m, a, b} {
					nb := make([]instr, len(body))
					for i, in := range body {
						if in.Op == opPanic {
							in.Arg = v
							v++
						}
						nb[i] = in
					}
					p.Funcs = append(p.Funcs, nb)
				}
				if p.count(opPanic) == 0 {
					continue
				}
				out = append(out, p)
			}
		}
	}
	return out
}

// reachMatrix enumerates {the way a native function is reached} × {what the native function
// does} × {where it is called and who recovers}. Function 1 is always the native function N;
// the other functions are the context.
//
//	what N does: panics with an int / a string / an error / a value of a custom error type,
//	  does nothing, prints, Stop, Fatal, calls back a Scriggo function (h.Call and h.CallN) that
//	  panics, raises a run-time error, recovers (nil), recovers its own panic, does nothing,
//	  calls Stop, calls Fatal;
//	contexts: called / deferred / deferred while the program is unwinding, with no recover,
//	  recover in a deferred closure of the caller, defer recover(), a deferred closure that
//	  re-panics, a deferred closure that panics again, one and two calls deep.
func reachMatrix() []*prog {
	type what struct {
		body  []instr   // of N
		kind  int       // of the value N panics with
		extra [][]instr // functions N refers to (indices from 2)
	}
	var whats []what
	for k := 0; k < nKind; k++ {
		whats = append(whats, what{body: []instr{{opPanic, 1}}, kind: k})
	}
	whats = append(whats,
		what{body: []instr{}},
		what{body: []instr{{opPrint, 1}}},
		what{body: []instr{{opStop, 1}}},
		what{body: []instr{{opFatal, 1}}},
	)
	for _, cb := range [][][]instr{
		{{{opPanic, 1}}},
		{{{opPanic, errBase + 2}}},
		{{{opRecover, 0}}},
		{{{opDefer, 3}, {opPanic, 1}}, {{opRecover, 0}}},
		{{}},
		{{{opStop, 2}}},
		{{{opFatal, 1}}},
	} {
		whats = append(whats, what{body: []instr{{opCall, 2}}, extra: cb})
	}
	// contexts: main and further functions; N stands for function 1, X+k for the k-th function
	// after N's own extra functions
	const N, X = -1, -100
	contexts := [][][]instr{
		{{{opCall, N}}},
		{{{opPrint, 7}, {opCall, N}, {opPrint, 8}}},
		{{{opDefer, X}, {opCall, N}, {opPrint, 8}}, {{opRecover, 0}}},
		{{{opDeferRec, 0}, {opCall, N}}},
		{{{opDefer, N}, {opPrint, 8}}},
		{{{opDefer, N}, {opPanic, 2}}},
		{{{opDefer, X}, {opDefer, N}, {opPanic, 2}}, {{opRecover, 0}, {opRecover, 0}}},
		{{{opDefer, X}, {opCall, N}}, {{opRepanic, 0}}},
		{{{opCall, X}, {opPrint, 8}}, {{opDefer, X - 1}, {opCall, N}, {opPrint, 9}}, {{opRecover, 0}}},
		{{{opDefer, X - 1}, {opCall, X}}, {{opDefer, X - 2}, {opCall, N}}, {{opRecover, 0}}, {{opPanic, 3}}},
		{{{opDefer, X}, {opCall, N}, {opCall, N}}, {{opRecover, 0}, {opDefer, N}}},
	}
	var out []*prog
	for _, w := range whats {
		for _, ctx := range contexts {
			nx := 2 + len(w.extra)
			fix := func(body []instr) []instr {
				nb := make([]instr, len(body))
				for i, in := range body {
					if in.Op == opCall || in.Op == opDefer {
						switch {
						case in.Arg == N:
							in.Arg = 1
						case in.Arg <= X:
							in.Arg = nx + (X - in.Arg)
						}
					}
					nb[i] = in
				}
				return nb
			}
			funcs := [][]instr{fix(ctx[0]), w.body}
			funcs = append(funcs, w.extra...)
			for _, f := range ctx[1:] {
				funcs = append(funcs, fix(f))
			}
			// Scriggo function indices must refer forward: the callbacks of N (2…) come before the
			// context functions, which only refer to N and to later context functions
			for reach := 0; reach < nReach; reach++ {
				p := &prog{Funcs: funcs, Style: make([]int, len(funcs))}
				p.Style[1] = styleNative
				for i := 2; i < len(funcs); i++ {
					p.Style[i] = []int{styleTop, styleLit, styleVar}[(i+reach)%3]
				}
				p.Reach = make([]int, len(funcs))
				p.Reach[1] = reach
				p.Kind = []int{0, w.kind}
				if p.envNative(1) && (reach == reachField || reach == reachSlice) {
					continue // known finding env-native-in-composite
				}
				if !p.nativeShape(1) {
					panic("reach matrix: function 1 cannot be written as a native function")
				}
				out = append(out, p)
			}
		}
	}
	return out
}

// stopMatrix enumerates Stop and Fatal against the state of the panic machinery at the moment
// they are called:
//
//	behaviour: Stop(err), Stop(nil), Fatal(v) called by the native function itself, or inside a
//	  Scriggo function the native function calls back (h.Call), there also after a recover();
//	caller: an interpreted deferred closure calling the native function (plain, after its own
//	  recover(), followed by a print), the native function deferred directly — reached as a
//	  function, a function value, a method value, a method expression, a method value of an
//	  interface;
//	state: no panic (called, deferred), a panic active in this frame, a panic active in an outer
//	  frame (the deferred call runs at a normal return inside a deferred call of a panicking
//	  function), a panic recovered earlier by another deferred call, two active panics;
//	around: nothing, or an outer function whose deferred closure recovers and prints (it must
//	  never run).
func stopMatrix() []*prog {
	type behaviour struct {
		native []instr   // body of the native function N (function 1)
		extra  [][]instr // the callback (function 2)
	}
	behaviours := []behaviour{
		{native: []instr{{opStop, 1}}},
		{native: []instr{{opStop, 0}}},
		{native: []instr{{opFatal, 7}}},
		{native: []instr{{opCall, 2}}, extra: [][]instr{{{opStop, 2}}}},
		{native: []instr{{opCall, 2}}, extra: [][]instr{{{opFatal, 7}}}},
		{native: []instr{{opCall, 2}}, extra: [][]instr{{{opRecover, 0}, {opStop, 1}}}},
		{native: []instr{{opCall, 2}}, extra: [][]instr{{{opRecover, 0}, {opFatal, 7}}}},
		{native: []instr{{opCall, 2}}, extra: [][]instr{{{opPrint, 5}, {opStop, 1}, {opPrint, 6}}}},
	}
	const N = 1
	type caller struct {
		closure []instr // nil: N itself is deferred / called
		reach   int
	}
	callers := []caller{
		{closure: []instr{{opCall, N}}},
		{closure: []instr{{opRecover, 0}, {opCall, N}}},
		{closure: []instr{{opCall, N}, {opPrint, 9}}},
		{closure: []instr{{opDefer, N}, {opRecover, 0}}},
		{reach: reachDirect},
		{reach: reachVar},
		{reach: reachMethodValue},
		{reach: reachMethodExpr},
		{reach: reachIfaceValue},
		{reach: reachArg},
	}
	var out []*prog
	for _, b := range behaviours {
		for _, cl := range callers {
			for state := 0; state < 7; state++ {
				for around := 0; around < 2; around++ {
					funcs := [][]instr{nil, b.native}
					funcs = append(funcs, b.extra...)
					x := N // the function that is deferred / called
					if cl.closure != nil {
						x = len(funcs)
						funcs = append(funcs, cl.closure)
					}
					add := func(body ...instr) int {
						funcs = append(funcs, body)
						return len(funcs) - 1
					}
					var body []instr
					switch state {
					case 0: // no panic, called
						body = []instr{{opPrint, 1}, {opCall, x}, {opPrint, 2}}
					case 1: // no panic, deferred
						body = []instr{{opDefer, x}, {opPrint, 1}}
					case 2: // a panic active in this frame
						body = []instr{{opDefer, x}, {opPanic, 2}}
					case 3: // a panic active in an outer frame
						w := add(instr{opDefer, x}, instr{opPrint, 1})
						d := add(instr{opCall, w}, instr{opPrint, 2})
						body = []instr{{opDefer, d}, {opPanic, 2}}
					case 4: // a panic recovered earlier by another deferred call
						r := add(instr{opRecover, 0})
						body = []instr{{opDefer, x}, {opDefer, r}, {opPanic, 2}}
					case 5: // two active panics
						q := add(instr{opPanic, 3})
						body = []instr{{opDefer, x}, {opDefer, q}, {opPanic, 2}}
					case 6: // a panic raised by a callee, active while the caller's deferred call runs
						q := add(instr{opPanic, 3})
						body = []instr{{opDefer, x}, {opCall, q}}
					}
					if around == 0 {
						funcs[0] = body
					} else {
						m := add(body...)
						r := add(instr{opRecover, 0}, instr{opPrint, 8})
						funcs[0] = []instr{{opDefer, r}, {opCall, m}, {opPrint, 4}}
					}
					p := &prog{Funcs: funcs, Style: make([]int, len(funcs))}
					p.Style[N] = styleNative
					for i := 2; i < len(funcs); i++ {
						p.Style[i] = []int{styleTop, styleLit, styleVar}[(i+state+around)%3]
					}
					p.Reach = make([]int, len(funcs))
					p.Reach[N] = cl.reach
					if !p.nativeShape(N) {
						panic("stop matrix: function 1 cannot be written as a native function")
					}
					out = append(out, p)
				}
			}
		}
	}
	return out
}
