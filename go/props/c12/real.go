package main

import (
	"errors"
	"fmt"
	"reflect"
	"strings"

	"github.com/open2b/scriggo"
	"github.com/open2b/scriggo/native"
)

// HT is the native type h.T of the generated programs.
type HT struct{}

func (HT) Panic(v int) { panic(v) }

var stopErrs = []error{nil, errors.New("stop-1"), errors.New("stop-2")}

var hPackage = native.Packages{"h": native.Package{Name: "h", Declarations: native.Declarations{
	// Stop and Fatal print the marker "S" first: nothing may be printed after it
	"Stop":  func(env native.Env, k int) { env.Println("S"); env.Stop(stopErrs[k]) },
	"Fatal": func(env native.Env, v int) { env.Println("S"); env.Fatal(v) },
	"Panic": func(v int) { panic(v) },
	"Print": func(env native.Env, x int) { env.Println("O", x) },
	"Nop":   func() {},
	"Call":  func(f func()) { f() },
	"CallN": func(n int, f func()) {
		for i := 0; i < n; i++ {
			f()
		}
	},
	"T": reflect.TypeOf(HT{}),
}}}

// outcome is the observable behaviour of one run, in the canonical form of the protocol:
//
//	out=<events>  res=done | panic:<v>[r],<v>… (oldest first) | stop:<k> | fatal:<v> | fuel
type outcome struct {
	Events string // "o5,r7,rn,S" …
	Res    string
	Extra  string // anything outside the canonical form (host panic text, build error, accessor problems)
}

func (o outcome) String() string {
	s := "out=" + dash(o.Events) + " res=" + o.Res
	if o.Extra != "" {
		s += " extra=" + o.Extra
	}
	return s
}

func dash(s string) string {
	if s == "" {
		return "-"
	}
	return s
}

// eventsOf turns the printed text ("O 5\nR 7\nR nil\nS\n") into the event list.
func eventsOf(text string) (string, bool) {
	var ev []string
	ok := true
	for _, l := range strings.Split(text, "\n") {
		switch {
		case l == "":
		case l == "S":
			ev = append(ev, "S")
		case l == "R nil":
			ev = append(ev, "rn")
		case strings.HasPrefix(l, "R "):
			c := valCode(l[2:])
			ok = ok && !strings.HasPrefix(c, "?")
			ev = append(ev, "r"+c)
		case strings.HasPrefix(l, "O "):
			ev = append(ev, "o"+l[2:])
		default:
			ok = false
			ev = append(ev, "?"+strings.ReplaceAll(l, " ", "_"))
		}
	}
	return strings.Join(ev, ","), ok
}

// chainOf walks a *scriggo.PanicError with the public accessors only. It returns the chain
// oldest first ("3r,5") and a description of anything wrong with the accessor layer.
func chainOf(pe *scriggo.PanicError) (chain string, problem string) {
	var links []string
	n := 0
	defer func() {
		if r := recover(); r != nil {
			chain = strings.Join(links, ",")
			problem = fmt.Sprintf("Next() does not end the chain with nil: accessor call on link %d panics", n)
		}
	}()
	for p := pe; p != nil; p = p.Next() {
		n++
		if n > 10000 {
			return "", "Next() does not reach nil"
		}
		// (no Error()/String() of a foreign message: formatting must not run code of the value)
		var s string
		msg := p.Message()
		if v, ok := msg.(int); ok {
			s = fmt.Sprint(v)
			if p.String() != s {
				problem = "String() differs from Message()"
			}
		} else if rv := reflect.ValueOf(msg); msg != nil && rv.Kind() == reflect.String && strings.HasSuffix(rv.Type().String(), "runtimeError") {
			s = valCode(rv.String()) // the interpreter's own run-time error (a string type)
			if p.String() != rv.String() {
				problem = "String() differs from Message()"
			}
		} else {
			s = fmt.Sprintf("?%T", msg)
			problem = "message is not a value the program panicked with"
		}
		if p.Recovered() {
			s += "r"
		}
		links = append([]string{s}, links...)
		_ = p.Path()
		_ = p.Position()
	}
	return strings.Join(links, ","), problem
}

// errorTextOf is the text gc prints for a chain given oldest first as (value, recovered).
func gcTextOf(chain string) string {
	var b strings.Builder
	links := strings.Split(chain, ",")
	for i := 0; i < len(links); i++ {
		l := links[i]
		v := strings.TrimSuffix(l, "r")
		// a run of equal values is printed once, as "[recovered, repanicked]"
		j := i
		for j+1 < len(links) && strings.TrimSuffix(links[j+1], "r") == v {
			j++
		}
		if i > 0 {
			b.WriteString("\t")
		}
		b.WriteString("panic: " + valText(v))
		if j > i {
			b.WriteString(" [recovered, repanicked]")
		} else if strings.HasSuffix(l, "r") {
			b.WriteString(" [recovered]")
		}
		b.WriteString("\n")
		i = j
	}
	return b.String()
}

// runScriggo builds and runs src with the public API and reports what the host sees.
func runScriggo(src string) (o outcome) {
	var out strings.Builder
	program, err := scriggo.Build(scriggo.Files{"main.go": []byte(src)}, &scriggo.BuildOptions{Packages: hPackage})
	if err != nil {
		return outcome{Res: "builderror", Extra: err.Error()}
	}
	finish := func() {
		ev, ok := eventsOf(out.String())
		o.Events = ev
		if !ok && o.Extra == "" {
			o.Extra = "unexpected output"
		}
	}
	defer func() {
		if r := recover(); r != nil {
			if v, ok := r.(int); ok {
				o.Res = fmt.Sprintf("fatal:%d", v)
			} else {
				o.Res = "hostpanic"
				o.Extra = strings.ReplaceAll(fmt.Sprintf("%T:%v", r, r), " ", "_")
			}
			finish()
		}
	}()
	err = program.Run(&scriggo.RunOptions{Print: func(v any) { fmt.Fprint(&out, v) }})
	switch e := err.(type) {
	case nil:
		o.Res = "done"
	case *scriggo.PanicError:
		chain, problem := chainOf(e)
		o.Res = "panic:" + chain
		o.Extra = problem
		if problem == "" {
			// Error() is documented as "all currently active panics as a string": gc's text without the first "panic: "
			if want := strings.TrimPrefix(gcTextOf(chain), "panic: "); e.Error() != want && !strings.Contains(want, "repanicked") {
				o.Extra = "Error()=" + strings.ReplaceAll(strings.ReplaceAll(e.Error(), "\n", "\\n"), " ", "_")
			}
		}
	default:
		o.Res = "error"
		for k, se := range stopErrs {
			if se != nil && err == se {
				o.Res = fmt.Sprintf("stop:%d", k)
			}
		}
		if o.Res == "error" {
			o.Extra = strings.ReplaceAll(err.Error(), " ", "_")
		}
	}
	finish()
	return o
}
