package main

import (
	"errors"
	"fmt"
	"reflect"
	"strconv"
	"strings"

	"github.com/open2b/scriggo"
	"github.com/open2b/scriggo/native"
)

// HT is the native type h.T of the generated programs: every native function is also a method of it.
type HT struct{}

// HCus is the native type h.Cus: a panic value of a custom error type.
type HCus struct{ N int }

func (c HCus) Error() string { return "c" + strconv.Itoa(c.N) }

var stopErrs = []error{nil, errors.New("stop-1"), errors.New("stop-2")}

// Stop and Fatal print a marker first ("S s<k>", "S f<v>"): the run must end with that very call —
// nothing may be printed after it and Run must report it, whatever panics are active
func hStop(env native.Env, k int)  { env.Println("S", "s"+strconv.Itoa(k)); env.Stop(stopErrs[k]) }
func hFatal(env native.Env, v int) { env.Println("S", "f"+strconv.Itoa(v)); env.Fatal(v) }
func hPanic(v int)                 { panic(v) }
func hPanicS(v int)                { panic("s" + strconv.Itoa(v)) }
func hPanicE(v int)                { panic(hErr(v)) }
func hPanicC(v int)                { panic(HCus{v}) }
func hErr(v int) error             { return errors.New("e" + strconv.Itoa(v)) }
func hPrint(env native.Env, x int) { env.Println("O", x) }
func hNop()                        {}
func hCall(f func())               { f() }
func hCallN(n int, f func()) {
	for i := 0; i < n; i++ {
		f()
	}
}

func (HT) Stop(env native.Env, k int)  { hStop(env, k) }
func (HT) Fatal(env native.Env, v int) { hFatal(env, v) }
func (HT) Panic(v int)                 { panic(v) }
func (HT) PanicS(v int)                { hPanicS(v) }
func (HT) PanicE(v int)                { hPanicE(v) }
func (HT) PanicC(v int)                { hPanicC(v) }
func (HT) Print(env native.Env, x int) { hPrint(env, x) }
func (HT) Nop()                        {}
func (HT) Call(f func())               { f() }
func (HT) CallN(n int, f func())       { hCallN(n, f) }

// HI is the native interface type h.I: the methods of h.T that take no native.Env.
type HI interface {
	Panic(int)
	PanicS(int)
	PanicE(int)
	PanicC(int)
	Nop()
	Call(func())
	CallN(int, func())
	RPanic(int) string
	RCall(func()) string
}

var hPackage = native.Packages{"h": native.Package{Name: "h", Declarations: native.Declarations{
	"Stop":   hStop,
	"Fatal":  hFatal,
	"Panic":  hPanic,
	"PanicS": hPanicS,
	"PanicE": hPanicE,
	"PanicC": hPanicC,
	"Err":    hErr,
	"Print":  hPrint,
	"Nop":    hNop,
	"Call":   hCall,
	"CallN":  hCallN,
	"T":      reflect.TypeOf(HT{}),
	"I":      reflect.TypeOf((*HI)(nil)).Elem(),
	"Cus":    reflect.TypeOf(HCus{}),
}}}

// outcome is the observable behaviour of one run, in the canonical form of the protocol:
//
//	out=<events>  res=done | panic:<v>[r],<v>… (oldest first) | stop:<k> | fatal:<v> | fuel
type outcome struct {
	Events string // "o5,r7,rn,S" …
	Res    string
	Extra  string // anything outside the canonical form (host panic text, build error, accessor problems)
}

func (o outcome) String() string {
	s := "out=" + dash(o.Events) + " res=" + o.Res
	if o.Extra != "" {
		s += " extra=" + o.Extra
	}
	return s
}

func dash(s string) string {
	if s == "" {
		return "-"
	}
	return s
}

// eventsOf turns the printed text ("O 5\nR i 7\nR e e3\nR nil\nS\n") into the event list. A value
// returned by recover() is printed with the kind its dynamic type has (i, s, e, c): it must be
// the kind of the value the program panicked with.
func eventsOf(text string) (string, bool) {
	var ev []string
	ok := true
	for _, l := range strings.Split(text, "\n") {
		switch {
		case l == "":
		case len(l) > 3 && strings.HasPrefix(l, "S ") && (l[2] == 's' || l[2] == 'f') && isDigits(l[3:]):
			ev = append(ev, "S"+l[2:])
		case l == "R nil":
			ev = append(ev, "rn")
		case len(l) > 4 && strings.HasPrefix(l, "R ") && l[3] == ' ':
			tag, txt := l[2:3], l[4:]
			c := valCode(txt)
			if strings.HasPrefix(c, "?") || kindTagOf(txt) != tag {
				ok = false
				c = "?" + tag + ":" + strings.TrimPrefix(c, "?")
			}
			ev = append(ev, "r"+c)
		case strings.HasPrefix(l, "O "):
			ev = append(ev, "o"+l[2:])
		default:
			ok = false
			ev = append(ev, "?"+strings.ReplaceAll(l, " ", "_"))
		}
	}
	return strings.Join(ev, ","), ok
}

// chainOf walks a *scriggo.PanicError with the public accessors only. It returns the chain
// oldest first ("3r,5"), the same with the texts of the values ("e3r,5") and a description of
// anything wrong with the accessor layer.
func chainOf(pe *scriggo.PanicError) (chain, texts string, problem string) {
	var links, tlinks []string
	n := 0
	defer func() {
		if r := recover(); r != nil {
			chain, texts = strings.Join(links, ","), strings.Join(tlinks, "\x00")
			problem = fmt.Sprintf("Next() does not end the chain with nil: accessor call on link %d panics", n)
		}
	}()
	for p := pe; p != nil; p = p.Next() {
		n++
		if n > 10000 {
			return "", "", "Next() does not reach nil"
		}
		// (no Error()/String() of a foreign message: formatting must not run code of the value)
		var s, txt, tag string
		switch msg := p.Message().(type) {
		case int:
			txt, tag = strconv.Itoa(msg), "i"
		case string:
			txt, tag = msg, "s"
		case HCus:
			txt, tag = msg.Error(), "c"
		default:
			if rv := reflect.ValueOf(msg); msg != nil && rv.Kind() == reflect.String && strings.HasSuffix(rv.Type().String(), "runtimeError") {
				txt, tag = rv.String(), "e" // the interpreter's own run-time error (a string type)
			} else if e, ok := msg.(error); ok && reflect.TypeOf(msg) == reflect.TypeOf(errors.New("")) {
				txt, tag = e.Error(), "e"
			}
		}
		if tag == "" {
			s = fmt.Sprintf("?%T", p.Message())
			problem = "message is not a value the program panicked with"
		} else {
			s = valCode(txt)
			if strings.HasPrefix(s, "?") || kindTagOf(txt) != tag {
				problem = "message is not a value the program panicked with"
			} else if p.String() != txt {
				problem = "String() differs from Message()"
			}
		}
		if p.Recovered() {
			s += "r"
			txt += "\x01"
		}
		links = append([]string{s}, links...)
		tlinks = append([]string{txt}, tlinks...)
		_ = p.Path()
		_ = p.Position()
	}
	return strings.Join(links, ","), strings.Join(tlinks, "\x00"), problem
}

// gcTextOf is the text gc prints for a chain given oldest first as texts (\x00 between links,
// \x01 after a recovered one).
func gcTextOf(texts string) string {
	var b strings.Builder
	links := strings.Split(texts, "\x00")
	for i := 0; i < len(links); i++ {
		l := links[i]
		v := strings.TrimSuffix(l, "\x01")
		// a run of equal values is printed once, as "[recovered, repanicked]"
		j := i
		for j+1 < len(links) && strings.TrimSuffix(links[j+1], "\x01") == v {
			j++
		}
		if i > 0 {
			b.WriteString("\t")
		}
		b.WriteString("panic: " + v)
		if j > i {
			b.WriteString(" [recovered, repanicked]")
		} else if strings.HasSuffix(l, "\x01") {
			b.WriteString(" [recovered]")
		}
		b.WriteString("\n")
		i = j
	}
	return b.String()
}

// buildScriggo compiles src; a panic of the compiler is reported as a build error.
func buildScriggo(src string) (program *scriggo.Program, err error) {
	defer func() {
		if r := recover(); r != nil {
			err = fmt.Errorf("the compiler panics: %v", r)
		}
	}()
	return scriggo.Build(scriggo.Files{"main.go": []byte(src)}, &scriggo.BuildOptions{Packages: hPackage})
}

// runScriggo builds and runs src with the public API and reports what the host sees.
func runScriggo(src string) (o outcome) {
	var out strings.Builder
	program, err := buildScriggo(src)
	if err != nil {
		return outcome{Res: "builderror", Extra: strings.ReplaceAll(err.Error(), " ", "_")}
	}
	finish := func() {
		ev, ok := eventsOf(out.String())
		o.Events = ev
		if !ok && o.Extra == "" {
			o.Extra = "unexpected output"
		}
	}
	defer func() {
		if r := recover(); r != nil {
			if v, ok := r.(int); ok {
				o.Res = fmt.Sprintf("fatal:%d", v)
			} else {
				o.Res = "hostpanic"
				o.Extra = strings.ReplaceAll(fmt.Sprintf("%T:%v", r, r), " ", "_")
			}
			finish()
		}
	}()
	err = program.Run(&scriggo.RunOptions{Print: func(v any) { fmt.Fprint(&out, v) }})
	switch e := err.(type) {
	case nil:
		o.Res = "done"
	case *scriggo.PanicError:
		chain, texts, problem := chainOf(e)
		o.Res = "panic:" + chain
		o.Extra = problem
		if problem == "" {
			// Error() is documented as "all currently active panics as a string": gc's text without the first "panic: "
			if want := strings.TrimPrefix(gcTextOf(texts), "panic: "); e.Error() != want && !strings.Contains(want, "repanicked") {
				o.Extra = "Error()=" + strings.ReplaceAll(strings.ReplaceAll(e.Error(), "\n", "\\n"), " ", "_")
			}
		}
	default:
		o.Res = "error"
		for k, se := range stopErrs {
			if se != nil && err == se {
				o.Res = fmt.Sprintf("stop:%d", k)
			}
		}
		if o.Res == "error" {
			o.Extra = strings.ReplaceAll(err.Error(), " ", "_")
		}
	}
	finish()
	return o
}
